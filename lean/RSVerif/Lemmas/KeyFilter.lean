import RSVerif.Model.KeyFilter
import RSVerif.Spec.CommandKeys
/-
C13 helper lemmas.
Part A: closed form of the (literal, index-arithmetic) model of `getMatchKeys` on a structured argument list.
Part B: the specification's segment view of the same structure; one theorem per key layout.
-/
namespace RSVerif.Lemmas.KeyFilter
open RSVerif RSVerif.KeyFilter RSVerif.Spec.CommandKeys

theorem rd_nat {α} (xs : List α) (i : Nat) (h : i < xs.length) : rd xs (i : Int) = .ok xs[i] := by
  unfold rd
  have : ¬ ((i : Int) < 0) := by omega
  simp [this, h]

theorem rd_append_right {α} (A B : List α) (j : Nat) : rd (A ++ B) ((A.length + j : Nat) : Int) = rd B (j : Int) := by
  unfold rd
  have h1 : ¬ (((A.length + j : Nat) : Int) < 0) := by omega
  have h2 : ¬ ((j : Int) < 0) := by omega
  simp only [h1, h2, if_false, Int.toNat_natCast]
  rw [List.getElem?_append_right (by omega)]
  simp

theorem wr_mid {α} (A B : List α) (x v : α) : wr (A ++ x :: B) (A.length : Int) v = .ok (A ++ v :: B) := by
  unfold wr
  have h1 : ¬ ((A.length : Int) < 0) := by omega
  simp [h1]

/-- a counted loop that writes `vals[j]` to cell `done.length + j` fills the cells in order -/
theorem fillSeq {β} : ∀ (vals : List β) (F : List β → Nat → M (List β)) (done ds rest : List β),
    ds.length = vals.length →
    (∀ acc j (h : j < vals.length), F acc j = wr acc ((done.length + j : Nat) : Int) vals[j]) →
    (List.range vals.length).foldlM F (done ++ ds ++ rest) = .ok (done ++ vals ++ rest) := by
  intro vals
  induction vals with
  | nil =>
    intro F done ds rest hlen _
    have : ds = [] := List.length_eq_zero_iff.mp hlen
    simp [this, pure, Except.pure]
  | cons v vs ih =>
    intro F done ds rest hlen hF
    match ds, hlen with
    | d :: ds', hlen =>
      simp only [List.length_cons, List.range_succ_eq_map, List.foldlM_cons, List.foldlM_map]
      have h0 := hF (done ++ d :: ds' ++ rest) 0 (by simp)
      simp only [Nat.add_zero, List.getElem_cons_zero] at h0
      rw [h0]
      have : done ++ d :: ds' ++ rest = done ++ d :: (ds' ++ rest) := by simp
      rw [this, wr_mid]
      simp only [bind, Except.bind]
      have e : done ++ v :: (ds' ++ rest) = (done ++ [v]) ++ ds' ++ rest := by simp
      rw [e]
      have := ih (fun acc j => F acc (j + 1)) (done ++ [v]) ds' rest (by simpa using hlen) (by
        intro acc j h
        have := hF acc (j + 1) (by simpa using h)
        simp only [List.getElem_cons_succ] at this
        rw [this]
        congr 2
        simp; omega)
      simpa using this


/-- does the chunk's key (its first element) pass? -/
def passHead (pass : Bytes → Bool) (c : List Bytes) : Bool := pass (c.headD [])

/-- the indices `scan` records: offset of every chunk whose key passes -/
def positions (pass : Bytes → Bool) (s : Nat) : Nat → List (List Bytes) → List Int
  | _, [] => []
  | o, c :: cs => (if passHead pass c then [(o : Int)] else []) ++ positions pass s (o + s) cs

theorem positions_length_le (pass : Bytes → Bool) (s : Nat) : ∀ (cs : List (List Bytes)) (o : Nat),
    (positions pass s o cs).length ≤ cs.length := by
  intro cs
  induction cs with
  | nil => intro o; simp [positions]
  | cons c cs ih =>
    intro o
    have := ih (o + s)
    simp only [positions, List.length_append, List.length_cons]
    split <;> simp <;> omega

theorem scan_structured (pass : Bytes → Bool) (s : Nat) (hs : 1 ≤ s) (post : List Bytes) :
    ∀ (cs : List (List Bytes)) (A : List Bytes) (keys : List Int) (fuel : Nat) (lastkey : Int),
    (∀ c ∈ cs, c.length = s) →
    lastkey + s = ((A.length + cs.length * s : Nat) : Int) →
    keys.length ≤ A.length →
    cs.length < fuel →
    scan pass (A ++ cs.flatten ++ post) lastkey (s : Int) fuel (A.length : Int) keys
      = .ok (keys ++ positions pass s A.length cs) := by
  intro cs
  induction cs with
  | nil =>
    intro A keys fuel lastkey _ hl _ hf
    have : ¬ ((A.length : Int) ≤ lastkey) := by simp at hl; omega
    cases fuel <;> simp [scan, this, positions]
  | cons c cs ih =>
    intro A keys fuel lastkey hc hl hk hf
    have hcl : c.length = s := hc c (by simp)
    cases c with
    | nil => simp at hcl; omega
    | cons h t =>
      cases fuel with
      | zero => simp at hf
      | succ fuel =>
        have hle : (A.length : Int) ≤ lastkey := by
          simp only [List.length_cons, Nat.succ_mul] at hl
          have : ((A.length + (cs.length * s + s) : Nat) : Int) = (A.length : Int) + ((cs.length * s : Nat) : Int) + (s : Int) := by omega
          omega
        have hrd : rd (A ++ ((h :: t) :: cs).flatten ++ post) (A.length : Int) = .ok h := by
          have := rd_append_right A ((h :: t) ++ cs.flatten ++ post) 0
          simp only [Nat.add_zero] at this
          simp only [List.flatten_cons, List.append_assoc] at this ⊢
          rw [this]; rfl
        have hargs : A ++ ((h :: t) :: cs).flatten ++ post = (A ++ h :: t) ++ cs.flatten ++ post := by simp
        have hlen' : (A.length : Int) + (s : Int) = (((A ++ h :: t).length : Nat) : Int) := by
          simp only [List.length_append, List.length_cons] at hcl ⊢
          omega
        have hl' : lastkey + (s : Int) = (((A ++ h :: t).length + cs.length * s : Nat) : Int) := by
          simp only [List.length_cons, Nat.succ_mul] at hl
          simp only [List.length_append, List.length_cons] at hcl ⊢
          omega
        have hoff : (A ++ h :: t).length = A.length + s := by
          simp only [List.length_append, List.length_cons] at hcl ⊢; omega
        simp only [scan, hle, if_true, hrd]
        by_cases hp : pass h = true
        · have hlt : keys.length < (A ++ ((h :: t) :: cs).flatten ++ post).length := by
            simp only [List.length_append, List.length_cons, List.flatten_cons]
            omega
          simp only [hp, if_true, hlt]
          rw [hargs, hlen']
          rw [ih (A ++ h :: t) (keys ++ [(A.length : Int)]) fuel lastkey (fun c hc' => hc c (by simp [hc'])) hl'
            (by simp; omega) (by simpa using hf)]
          simp only [positions, passHead, List.headD_cons, hp, if_true, hoff]
          simp
        · simp only [hp]
          rw [hargs, hlen']
          rw [ih (A ++ h :: t) keys fuel lastkey (fun c hc' => hc c (by simp [hc'])) hl'
            (by simp; omega) (by simpa using hf)]
          simp only [positions, passHead, List.headD_cons, hp, hoff]
          simp


theorem rd_cons_succ {α} (x : α) (xs : List α) (i : Nat) : rd (x :: xs) ((i + 1 : Nat) : Int) = rd xs (i : Int) := by
  unfold rd
  have h1 : ¬ (((i + 1 : Nat) : Int) < 0) := by omega
  have h2 : ¬ ((i : Int) < 0) := by omega
  simp only [h1, h2, if_false, Int.toNat_natCast, List.getElem?_cons_succ]

theorem copyKeys_nil (args : List Bytes) (leading step : Int) (new : List Bytes) :
    copyKeys args [] leading step new = .ok new := by
  simp [copyKeys, pure, Except.pure]

theorem copyKeys_cons (args : List Bytes) (p : Int) (ps : List Int) (leading step : Int) (new : List Bytes) :
    copyKeys args (p :: ps) leading step new =
      (match copyOne args p leading step new with
       | .error e => .error e
       | .ok acc => copyKeys args ps (leading + step) step acc) := by
  unfold copyKeys
  simp only [List.length_cons, List.range_succ_eq_map, List.foldlM_cons, List.foldlM_map]
  have h0 : rd (p :: ps) ((0 : Nat) : Int) = .ok p := by simp [rd]
  have e1 : leading + ((0 : Nat) : Int) * step = leading := by simp
  have e2 : ∀ (i : Nat), leading + ((Nat.succ i : Nat) : Int) * step = leading + step + (i : Int) * step := by
    intro i
    have : ((Nat.succ i : Nat) : Int) * step = (i : Int) * step + step := by
      rw [Nat.succ_eq_add_one, Int.natCast_add, Int.add_mul]; simp
    rw [this]; omega
  simp only [h0, rd_cons_succ, e1, e2]
  cases copyOne args p leading step new <;> rfl


theorem copyOne_spec (args : List Bytes) (p base step : Int) (c done ds rest : List Bytes)
    (hrd : ∀ j (h : j < c.length), rd args (p + (j : Int)) = .ok c[j])
    (hstep : step = (c.length : Int)) (hds : ds.length = c.length) (hbase : base = (done.length : Int)) :
    copyOne args p base step (done ++ ds ++ rest) = .ok (done ++ c ++ rest) := by
  unfold copyOne
  have : step.toNat = c.length := by omega
  rw [this]
  apply fillSeq c _ done ds rest hds
  intro acc j h
  simp only [hrd j h, hbase]
  congr 1

/-- recorded indices vs. the chunks they point at -/
inductive Rel (args : List Bytes) : List Int → List (List Bytes) → Prop
  | nil : Rel args [] []
  | cons {p : Int} {c : List Bytes} {ps : List Int} {cs : List (List Bytes)} :
      (∀ j (h : j < c.length), rd args (p + (j : Int)) = .ok c[j]) → Rel args ps cs → Rel args (p :: ps) (c :: cs)

theorem Rel.length_eq {args ps cs} (h : Rel args ps cs) : ps.length = cs.length := by
  induction h with
  | nil => rfl
  | cons _ _ ih => simp [ih]

theorem copyKeys_spec (args : List Bytes) (s : Nat) {ps : List Int} {K : List (List Bytes)} (hrel : Rel args ps K) :
    ∀ (done ds rest : List Bytes) (leading : Int), (∀ c ∈ K, c.length = s) → ds.length = K.length * s →
      leading = (done.length : Int) →
      copyKeys args ps leading (s : Int) (done ++ ds ++ rest) = .ok (done ++ K.flatten ++ rest) := by
  induction hrel with
  | nil =>
    intro done ds rest leading _ hds _
    have : ds = [] := List.length_eq_zero_iff.mp (by simpa using hds)
    simp [copyKeys_nil, this]
  | @cons p c ps cs hrd _ ih =>
    intro done ds rest leading hc hds hl
    have hcl : c.length = s := hc c (by simp)
    have hds' : ds.length = s + cs.length * s := by
      simp only [List.length_cons, Nat.succ_mul] at hds; omega
    rw [copyKeys_cons]
    have hsplit : ds = ds.take s ++ ds.drop s := (List.take_append_drop s ds).symm
    have e : done ++ ds ++ rest = done ++ ds.take s ++ (ds.drop s ++ rest) := by
      rw [List.append_assoc done (ds.take s), ← List.append_assoc (ds.take s), ← hsplit, List.append_assoc]
    rw [e, copyOne_spec args p leading s c done (ds.take s) (ds.drop s ++ rest) hrd (by omega)
      (by rw [List.length_take]; omega) hl]
    simp only []
    have e2 : done ++ c ++ (ds.drop s ++ rest) = (done ++ c) ++ ds.drop s ++ rest := by simp
    rw [e2, ih (done ++ c) (ds.drop s) rest (leading + s) (fun c' h => hc c' (by simp [h]))
      (by rw [List.length_drop]; omega) (by simp; omega)]
    simp


theorem positions_rel (pass : Bytes → Bool) (s : Nat) (post : List Bytes) :
    ∀ (cs : List (List Bytes)) (A : List Bytes), (∀ c ∈ cs, c.length = s) →
      Rel (A ++ cs.flatten ++ post) (positions pass s A.length cs) (cs.filter (passHead pass)) := by
  intro cs
  induction cs with
  | nil => intro A _; exact Rel.nil
  | cons c cs ih =>
    intro A hc
    have hcl : c.length = s := hc c (by simp)
    have hargs : A ++ (c :: cs).flatten ++ post = (A ++ c) ++ cs.flatten ++ post := by simp
    have hoff : (A ++ c).length = A.length + s := by simp [hcl]
    have ih' := ih (A ++ c) (fun c' h => hc c' (by simp [h]))
    rw [hoff, ← hargs] at ih'
    simp only [positions, List.filter_cons]
    by_cases hp : passHead pass c = true
    · simp only [hp, if_true, List.singleton_append]
      refine Rel.cons ?_ ih'
      intro j hj
      rw [← Int.natCast_add]
      have e : A ++ (c :: cs).flatten ++ post = A ++ (c ++ (cs.flatten ++ post)) := by simp
      rw [e, rd_append_right, rd_nat _ j (by simp; omega)]
      simp [List.getElem_append_left hj]
    · simp only [hp]
      exact ih'

theorem filter_length_pos_iff_any {α} (p : α → Bool) (l : List α) : decide (0 < (l.filter p).length) = l.any p := by
  induction l with
  | nil => simp
  | cons x xs ih =>
    simp only [List.filter_cons, List.any_cons]
    by_cases h : p x = true
    · simp [h]
    · simp only [h]; simpa using ih

theorem flatten_length_uniform {α} (s : Nat) : ∀ (cs : List (List α)), (∀ c ∈ cs, c.length = s) →
    cs.flatten.length = cs.length * s := by
  intro cs
  induction cs with
  | nil => simp
  | cons c cs ih =>
    intro hc
    have h1 := hc c (by simp)
    have := ih (fun c' h => hc c' (by simp [h]))
    simp only [List.flatten_cons, List.length_append, List.length_cons, Nat.succ_mul]
    omega

/-- **Closed form of (the repaired) `getMatchKeys`** on an argument list cut into
    `pre` (arguments in front of the first key), `chunks` (a key followed by its `s-1` companions, each),
    `post` (trailing arguments), for a row that describes exactly this layout. -/
theorem getMatchKeys_structured (pass : Bytes → Bool) (row : Row) (pre : List Bytes) (chunks : List (List Bytes))
    (post : List Bytes) (s : Nat) (hs : 1 ≤ s) (hc : ∀ c ∈ chunks, c.length = s)
    (hfirst : row.first = (pre.length : Int) + 1) (hstep : row.step = (s : Int))
    (hlast : (if row.last - 1 < 0 then row.last - 1 + ((pre ++ chunks.flatten ++ post).length : Int) else row.last - 1) + (s : Int)
              = ((pre.length + chunks.length * s : Nat) : Int)) :
    getMatchKeys pass row (pre ++ chunks.flatten ++ post)
      = .ok (pre ++ (chunks.filter (passHead pass)).flatten ++ post, chunks.any (passHead pass)) := by
  unfold getMatchKeys getMatchKeysWith
  simp only [hstep]
  generalize hL : (if row.last - 1 < 0 then row.last - 1 + ((pre ++ chunks.flatten ++ post).length : Int) else row.last - 1) = lastkey at hlast ⊢
  have hfk : row.first - 1 = (pre.length : Int) := by omega
  rw [hfk]
  rw [scan_structured pass s hs post chunks pre [] _ lastkey hc hlast (by simp) (by
    simp only [List.length_append]
    have : chunks.length ≤ chunks.flatten.length := by
      rw [flatten_length_uniform s chunks hc]
      exact Nat.le_mul_of_pos_right _ hs
    omega)]
  simp only [List.nil_append, Bool.false_eq_true, if_false]
  have hrel := positions_rel pass s post chunks pre hc
  have hlen := hrel.length_eq
  generalize positions pass s pre.length chunks = keys at hrel hlen ⊢
  generalize hK : chunks.filter (passHead pass) = K at hrel hlen ⊢
  have hKc : ∀ c ∈ K, c.length = s := by
    intro c h; rw [← hK] at h; exact hc c (List.mem_filter.mp h).1
  have hn : ((pre ++ chunks.flatten ++ post).length : Int) = (pre.length : Int) + ((chunks.flatten.length : Nat) : Int) + (post.length : Int) := by
    simp only [List.length_append]; omega
  have hfl : chunks.flatten.length = chunks.length * s := flatten_length_uniform s chunks hc
  have hsize : (pre.length : Int) + (keys.length : Int) * (s : Int) + ((pre ++ chunks.flatten ++ post).length : Int) - lastkey - (s : Int)
      = ((pre.length + K.length * s + post.length : Nat) : Int) := by
    rw [hn, hfl, hlen]
    have : ((pre.length + K.length * s + post.length : Nat) : Int) = (pre.length : Int) + ((K.length * s : Nat) : Int) + (post.length : Int) := by omega
    rw [this]
    have e1 : ((K.length * s : Nat) : Int) = (K.length : Int) * (s : Int) := by simp
    have e2 : ((pre.length + chunks.length * s : Nat) : Int) = (pre.length : Int) + ((chunks.length * s : Nat) : Int) := by omega
    rw [e2] at hlast
    omega
  rw [hsize]
  have hnn : ¬ (((pre.length + K.length * s + post.length : Nat) : Int) < 0) := by omega
  simp only [hnn, if_false, Int.toNat_natCast]
  have hrep : List.replicate (pre.length + K.length * s + post.length) ([] : Bytes)
      = [] ++ List.replicate pre.length [] ++ (List.replicate (K.length * s) [] ++ List.replicate post.length []) := by
    simp [List.replicate_append_replicate, Nat.add_assoc]
  -- leading arguments
  have h1 : copyLeading (pre ++ chunks.flatten ++ post) (pre.length : Int)
      (List.replicate (pre.length + K.length * s + post.length) [])
      = .ok (pre ++ List.replicate (K.length * s) [] ++ List.replicate post.length []) := by
    unfold copyLeading
    rw [hrep, Int.toNat_natCast]
    refine Eq.trans (fillSeq pre _ [] (List.replicate pre.length [])
        (List.replicate (K.length * s) [] ++ List.replicate post.length []) ?_ ?_) ?_
    · simp
    · intro acc j h
      have : rd (pre ++ chunks.flatten ++ post) (j : Int) = .ok pre[j] := by
        rw [rd_nat _ j (by simp; omega)]
        simp [List.getElem_append_left h]
      simp only [this, List.length_nil, Nat.zero_add]
    · simp
  rw [h1]
  simp only []
  -- kept keys with their companions
  rw [copyKeys_spec _ s hrel pre (List.replicate (K.length * s) []) (List.replicate post.length []) _ hKc (by simp) rfl]
  simp only []
  -- trailing arguments
  have h3 : copyTrailing (pre ++ chunks.flatten ++ post) (lastkey + (s : Int)) ((pre.length : Int) + (keys.length : Int) * (s : Int))
      (pre ++ K.flatten ++ List.replicate post.length [])
      = .ok (pre ++ K.flatten ++ post) := by
    unfold copyTrailing
    have hcount : (((pre ++ chunks.flatten ++ post).length : Int) - (lastkey + (s : Int))).toNat = post.length := by
      rw [hn, hfl, hlast]
      have e2 : ((pre.length + chunks.length * s : Nat) : Int) = (pre.length : Int) + ((chunks.length * s : Nat) : Int) := by omega
      omega
    rw [hcount]
    have e0 : pre ++ K.flatten ++ List.replicate post.length ([] : Bytes)
        = (pre ++ K.flatten) ++ List.replicate post.length [] ++ [] := by simp
    rw [e0]
    refine Eq.trans (fillSeq post _ (pre ++ K.flatten) (List.replicate post.length []) [] ?_ ?_) ?_
    · simp
    · intro acc j h
      have hr : rd (pre ++ chunks.flatten ++ post) (lastkey + (s : Int) + (j : Int)) = .ok post[j] := by
        have : lastkey + (s : Int) + (j : Int) = (((pre ++ chunks.flatten).length + j : Nat) : Int) := by
          rw [hlast]; simp only [List.length_append, hfl]; omega
        rw [this, rd_append_right, rd_nat _ j h]
      have hb : (pre.length : Int) + (keys.length : Int) * (s : Int) + (j : Int) = (((pre ++ K.flatten).length + j : Nat) : Int) := by
        simp only [List.length_append, flatten_length_uniform s K hKc, hlen]
        have e1 : ((K.length * s : Nat) : Int) = (K.length : Int) * (s : Int) := by simp
        omega
      simp only [hr, hb]
    · simp
  rw [h3]
  simp only []
  have hd : decide (0 < keys.length) = chunks.any (passHead pass) := by
    rw [← filter_length_pos_iff_any, hK]; simp only [hlen]
  simp only [hd]


/-! ## Part B: the specification on a structured argument list -/

/-- a chunk (key followed by its companions) as a key segment -/
def toKey (c : List Bytes) : Seg := .key (c.headD []) c.tail

theorem flat_toKey (c : List Bytes) (h : c ≠ []) : (toKey c).flat = c := by
  cases c with
  | nil => exact absurd rfl h
  | cons x xs => rfl

theorem any_opt (pass : Bytes → Bool) (l : List Bytes) : (l.map Seg.opt).any (Seg.passingKey pass) = false := by
  induction l with
  | nil => rfl
  | cons x xs ih => simp [Seg.passingKey, ih]

theorem filter_opt (pass : Bytes → Bool) (l : List Bytes) : (l.map Seg.opt).filter (Seg.kept pass) = l.map Seg.opt := by
  induction l with
  | nil => rfl
  | cons x xs ih => simp [Seg.kept]

theorem flat_opt (l : List Bytes) : (l.map Seg.opt).flatMap Seg.flat = l := by
  induction l with
  | nil => rfl
  | cons x xs ih => simp [Seg.flat, List.flatMap_cons, ih]

theorem any_toKey (pass : Bytes → Bool) (cs : List (List Bytes)) :
    (cs.map toKey).any (Seg.passingKey pass) = cs.any (passHead pass) := by
  induction cs with
  | nil => rfl
  | cons c cs ih => simp [toKey, Seg.passingKey, passHead, ih]

theorem filter_toKey (pass : Bytes → Bool) (cs : List (List Bytes)) (hne : ∀ c ∈ cs, c ≠ []) :
    ((cs.map toKey).filter (Seg.kept pass)).flatMap Seg.flat = (cs.filter (passHead pass)).flatten := by
  induction cs with
  | nil => rfl
  | cons c cs ih =>
    have ih' := ih (fun c' h => hne c' (by simp [h]))
    have hc := hne c (by simp)
    simp only [List.map_cons, List.filter_cons]
    have : Seg.kept pass (toKey c) = passHead pass c := rfl
    rw [this]
    by_cases hp : passHead pass c = true
    · simp only [hp, if_true, List.flatMap_cons, List.flatten_cons, ih', flat_toKey c hc]
    · simp only [hp]; exact ih'

/-- the spec's verdict on `pre` options, key `chunks`, `post` options -/
theorem rewriteSegs_structured (pass : Bytes → Bool) (pre : List Bytes) (chunks : List (List Bytes)) (post : List Bytes)
    (hne : ∀ c ∈ chunks, c ≠ []) :
    rewriteSegs pass (pre.map Seg.opt ++ chunks.map toKey ++ post.map Seg.opt)
      = if chunks.any (passHead pass) then .forward (pre ++ (chunks.filter (passHead pass)).flatten ++ post) else .drop := by
  unfold rewriteSegs
  simp only [List.any_append, any_opt, any_toKey, Bool.false_or, Bool.or_false, List.filter_append, filter_opt,
    List.flatMap_append, flat_opt, filter_toKey pass chunks hne]

/-- what the caller sees of a `getMatchKeys` result -/
def verdictOfMatch (r : List Bytes × Bool) : Verdict := if r.2 then .forward r.1 else .drop

/-- model and spec agree whenever row and segmentation describe the same layout -/
theorem getMatchKeys_eq_rewriteSegs (pass : Bytes → Bool) (row : Row) (pre : List Bytes) (chunks : List (List Bytes))
    (post : List Bytes) (s : Nat) (hs : 1 ≤ s) (hc : ∀ c ∈ chunks, c.length = s)
    (hfirst : row.first = (pre.length : Int) + 1) (hstep : row.step = (s : Int))
    (hlast : (if row.last - 1 < 0 then row.last - 1 + ((pre ++ chunks.flatten ++ post).length : Int) else row.last - 1) + (s : Int)
              = ((pre.length + chunks.length * s : Nat) : Int)) :
    (getMatchKeys pass row (pre ++ chunks.flatten ++ post)).map verdictOfMatch
      = .ok (rewriteSegs pass (pre.map Seg.opt ++ chunks.map toKey ++ post.map Seg.opt)) := by
  rw [getMatchKeys_structured pass row pre chunks post s hs hc hfirst hstep hlast,
    rewriteSegs_structured pass pre chunks post (by
      intro c h hn; have := hc c h; rw [hn] at this; simp at this; omega)]
  simp only [Except.map, verdictOfMatch]


/-! ### the row that describes each layout, in `getMatchKeys`' own convention -/

/-- `(firstkey, lastkey, keystep)` for a key layout: `lastkey ≥ 1` is the 1-based index of the last key,
    `lastkey ≤ 0` counts from the end (`0` = last argument, `-1` = last but one). -/
def canonicalRow : KeyClass → Int × Int × Int
  | .single => (1, 1, 1)
  | .firstTwo => (1, 2, 1)
  | .all => (1, 0, 1)
  | .allButLast => (1, -1, 1)
  | .everySecond => (1, -1, 2)
  | .afterSub => (2, 0, 1)

def rowTriple (r : Row) : Int × Int × Int := (r.first, r.last, r.step)

theorem flatten_singletons {α} (l : List α) : (l.map (fun x => [x])).flatten = l := by
  induction l with
  | nil => rfl
  | cons x xs ih => simp [ih]

theorem toKey_singletons (l : List Bytes) : (l.map (fun x => [x])).map toKey = l.map (Seg.key · []) := by
  induction l with
  | nil => rfl
  | cons x xs ih => simp [toKey]

theorem keysThenLast_snoc : ∀ (ks : List Bytes) (t : Bytes), keysThenLast (ks ++ [t]) = ks.map (Seg.key · []) ++ [Seg.opt t]
  | [], t => rfl
  | [k], t => rfl
  | k :: k' :: ks, t => by
    have := keysThenLast_snoc (k' :: ks) t
    simp only [List.cons_append] at this ⊢
    simp only [keysThenLast, this, List.map_cons, List.cons_append]

theorem pairs_layout : ∀ (args : List Bytes) (segs : List Seg), pairs args = some segs →
    ∃ chunks : List (List Bytes), (∀ c ∈ chunks, c.length = 2) ∧ chunks.flatten = args ∧ chunks.map toKey = segs
  | [], segs, h => ⟨[], by simp, rfl, by simpa [pairs] using h⟩
  | [_], segs, h => by simp [pairs] at h
  | k :: v :: rest, segs, h => by
    simp only [pairs, Option.map_eq_some_iff] at h
    obtain ⟨segs', h', rfl⟩ := h
    obtain ⟨chunks, hc, hf, hm⟩ := pairs_layout rest segs' h'
    refine ⟨[k, v] :: chunks, ?_, ?_, ?_⟩
    · intro c hmem
      rcases List.mem_cons.mp hmem with rfl | hmem
      · rfl
      · exact hc c hmem
    · simp [hf]
    · simp [toKey, hm]

/-- **One theorem for all key layouts**: for the row that describes layout `cls` and every argument list that
    parses under `cls`, the code's result is the specification's verdict. -/
theorem getMatchKeys_eq_spec (pass : Bytes → Bool) (cls : KeyClass) (row : Row) (hrow : rowTriple row = canonicalRow cls)
    (args : List Bytes) (segs : List Seg) (hp : parse cls args = some segs) :
    (getMatchKeys pass row args).map verdictOfMatch = .ok (rewriteSegs pass segs) := by
  obtain ⟨name, first, last, step⟩ := row
  simp only [rowTriple] at hrow
  cases cls with
  | single =>
    simp only [canonicalRow, Prod.mk.injEq] at hrow
    obtain ⟨rfl, rfl, rfl⟩ := hrow
    match args, hp with
    | k :: opts, hp =>
      simp only [parse, Option.some.injEq] at hp
      subst hp
      have := getMatchKeys_eq_rewriteSegs pass ⟨name, 1, 1, 1⟩ [] [[k]] opts 1 (by omega) (by simp) (by simp) (by simp) (by simp)
      simpa [toKey] using this
  | firstTwo =>
    simp only [canonicalRow, Prod.mk.injEq] at hrow
    obtain ⟨rfl, rfl, rfl⟩ := hrow
    match args, hp with
    | a :: b :: opts, hp =>
      simp only [parse, Option.some.injEq] at hp
      subst hp
      have := getMatchKeys_eq_rewriteSegs pass ⟨name, 1, 2, 1⟩ [] [[a], [b]] opts 1 (by omega) (by simp) (by simp) (by simp) (by simp)
      simpa [toKey] using this
  | all =>
    simp only [canonicalRow, Prod.mk.injEq] at hrow
    obtain ⟨rfl, rfl, rfl⟩ := hrow
    match args, hp with
    | k :: ks, hp =>
      simp only [parse, Option.some.injEq] at hp
      subst hp
      have := getMatchKeys_eq_rewriteSegs pass ⟨name, 1, 0, 1⟩ [] ((k :: ks).map (fun x => [x])) [] 1 (by omega)
        (by intro c hc; simp only [List.mem_map] at hc; obtain ⟨x, _, rfl⟩ := hc; rfl) (by simp) (by simp)
        (by simp only [flatten_singletons]; simp; omega)
      simp only [flatten_singletons, toKey_singletons] at this
      simpa using this
  | allButLast =>
    simp only [canonicalRow, Prod.mk.injEq] at hrow
    obtain ⟨rfl, rfl, rfl⟩ := hrow
    match args, hp with
    | a :: b :: rest, hp =>
      simp only [parse, Option.some.injEq] at hp
      subst hp
      have hsplit : a :: b :: rest = (a :: b :: rest).dropLast ++ [(a :: b :: rest).getLast (by simp)] :=
        (List.dropLast_concat_getLast (by simp)).symm
      generalize (a :: b :: rest).dropLast = ks at hsplit
      generalize (a :: b :: rest).getLast (by simp) = t at hsplit
      rw [hsplit, keysThenLast_snoc]
      have := getMatchKeys_eq_rewriteSegs pass ⟨name, 1, -1, 1⟩ [] (ks.map (fun x => [x])) [t] 1 (by omega)
        (by intro c hc; simp only [List.mem_map] at hc; obtain ⟨x, _, rfl⟩ := hc; rfl) (by simp) (by simp)
        (by simp only [flatten_singletons]; simp; omega)
      simp only [flatten_singletons, toKey_singletons] at this
      simpa using this
  | everySecond =>
    simp only [canonicalRow, Prod.mk.injEq] at hrow
    obtain ⟨rfl, rfl, rfl⟩ := hrow
    match args, hp with
    | k :: v :: rest, hp =>
      simp only [parse] at hp
      obtain ⟨chunks, hc, hf, hm⟩ := pairs_layout _ _ hp
      have := getMatchKeys_eq_rewriteSegs pass ⟨name, 1, -1, 2⟩ [] chunks [] 2 (by omega) hc (by simp) (by simp)
        (by simp only [List.nil_append, List.append_nil, flatten_length_uniform 2 chunks hc]; simp; omega)
      simp only [List.nil_append, List.append_nil, hf, hm, List.map_nil] at this
      exact this
  | afterSub =>
    simp only [canonicalRow, Prod.mk.injEq] at hrow
    obtain ⟨rfl, rfl, rfl⟩ := hrow
    match args, hp with
    | op :: k :: ks, hp =>
      simp only [parse, Option.some.injEq] at hp
      subst hp
      have := getMatchKeys_eq_rewriteSegs pass ⟨name, 2, 0, 1⟩ [op] ((k :: ks).map (fun x => [x])) [] 1 (by omega)
        (by intro c hc; simp only [List.mem_map] at hc; obtain ⟨x, _, rfl⟩ := hc; rfl) (by simp) (by simp)
        (by simp only [flatten_singletons]; simp; omega)
      simp only [flatten_singletons, toKey_singletons] at this
      simpa using this

/-! ## Part C: FilterKey, names, and well-formedness of the specification -/

theorem hasAtLeastOnePrefix_eq_any (key : Bytes) (l : List Bytes) :
    hasAtLeastOnePrefix key l = l.any (·.isPrefixOf key) := by
  induction l with
  | nil => rfl
  | cons p ps ih =>
    simp only [hasAtLeastOnePrefix, hasPrefix, List.any_cons, ih]
    cases p.isPrefixOf key <;> simp

theorem isPrefixOf_self (l : Bytes) : l.isPrefixOf l = true := by
  induction l with
  | nil => rfl
  | cons x xs ih => simp [List.isPrefixOf, ih]

theorem checkpointKey_tied : KeyFilter.checkpointKey = Spec.CommandKeys.checkpointKey := by decide

/-- `FilterKey` is the negation of the specification's `keyPasses` -/
theorem filterKey_spec (c : Config) (key : Bytes) :
    (!filterKey c key) = keyPasses ⟨c.whitelist, c.blacklist⟩ key := by
  unfold filterKey keyPasses hasPrefix
  rw [checkpointKey_tied]
  simp only [hasAtLeastOnePrefix_eq_any]
  by_cases h1 : (key == Spec.CommandKeys.checkpointKey) = true
  · have : key = Spec.CommandKeys.checkpointKey := by simpa using h1
    simp [this, isPrefixOf_self]
  · simp only [h1]
    generalize (c.blacklist.any fun x => x.isPrefixOf key) = B
    generalize (c.whitelist.any fun x => x.isPrefixOf key) = W
    generalize Spec.CommandKeys.checkpointKey.isPrefixOf key = P
    cases c.blacklist <;> cases c.whitelist <;> cases B <;> cases W <;> cases P <;> rfl

theorem lowerByte_idem : ∀ b : UInt8, lowerByte (lowerByte b) = lowerByte b :=
  forall_u8 _ (by decide +kernel)

theorem lower_idem (n : Bytes) : lower (lower n) = lower n := by
  simp [lower, List.map_map, Function.comp_def, lowerByte_idem]

theorem toLower_eq_lower : KeyFilter.toLower = Spec.CommandKeys.lower := rfl

theorem flat_keys (l : List Bytes) : (l.map (Seg.key · [])).flatMap Seg.flat = l := by
  induction l with
  | nil => rfl
  | cons x xs ih => simp [Seg.flat, List.flatMap_cons, ih]

theorem flat_toKeys (cs : List (List Bytes)) (hne : ∀ c ∈ cs, c ≠ []) : (cs.map toKey).flatMap Seg.flat = cs.flatten := by
  induction cs with
  | nil => rfl
  | cons c cs ih =>
    simp only [List.map_cons, List.flatMap_cons, List.flatten_cons, flat_toKey c (hne c (by simp)),
      ih (fun c' h => hne c' (by simp [h]))]

/-- the segments of a valid command are a partition of its arguments, in order -/
theorem parse_flat (cls : KeyClass) (args : List Bytes) (segs : List Seg) (h : parse cls args = some segs) :
    segs.flatMap Seg.flat = args := by
  cases cls with
  | single =>
    match args, h with
    | k :: opts, h =>
      simp only [parse, Option.some.injEq] at h; subst h
      simp [List.flatMap_cons, Seg.flat, flat_opt]
  | firstTwo =>
    match args, h with
    | a :: b :: opts, h =>
      simp only [parse, Option.some.injEq] at h; subst h
      simp [List.flatMap_cons, Seg.flat, flat_opt]
  | all =>
    match args, h with
    | k :: ks, h =>
      simp only [parse, Option.some.injEq] at h; subst h
      exact flat_keys _
  | allButLast =>
    match args, h with
    | a :: b :: rest, h =>
      simp only [parse, Option.some.injEq] at h; subst h
      have hsplit : a :: b :: rest = (a :: b :: rest).dropLast ++ [(a :: b :: rest).getLast (by simp)] :=
        (List.dropLast_concat_getLast (by simp)).symm
      generalize (a :: b :: rest).dropLast = ks at hsplit
      generalize (a :: b :: rest).getLast (by simp) = t at hsplit
      rw [hsplit, keysThenLast_snoc, List.flatMap_append, flat_keys]
      simp [List.flatMap_cons, Seg.flat]
  | everySecond =>
    match args, h with
    | k :: v :: rest, h =>
      simp only [parse] at h
      obtain ⟨chunks, hc, hf, hm⟩ := pairs_layout _ _ h
      rw [← hm, ← hf]
      exact flat_toKeys chunks (by intro c h hn; have := hc c h; rw [hn] at this; simp at this)
  | afterSub =>
    match args, h with
    | op :: k :: ks, h =>
      simp only [parse, Option.some.injEq] at h; subst h
      have := flat_keys (k :: ks)
      simp only [List.flatMap_cons, Seg.flat, List.singleton_append, List.cons.injEq, true_and]
      exact this

/-- every valid command names at least one key -/
theorem parse_keys_ne_nil (cls : KeyClass) (args : List Bytes) (segs : List Seg) (h : parse cls args = some segs) :
    keysOf segs ≠ [] := by
  cases cls with
  | single =>
    match args, h with
    | k :: opts, h => simp only [parse, Option.some.injEq] at h; subst h; simp [keysOf, Seg.key?]
  | firstTwo =>
    match args, h with
    | a :: b :: opts, h => simp only [parse, Option.some.injEq] at h; subst h; simp [keysOf, Seg.key?]
  | all =>
    match args, h with
    | k :: ks, h => simp only [parse, Option.some.injEq] at h; subst h; simp [keysOf, Seg.key?]
  | allButLast =>
    match args, h with
    | a :: b :: rest, h => simp only [parse, Option.some.injEq] at h; subst h; simp [keysOf, Seg.key?, keysThenLast]
  | everySecond =>
    match args, h with
    | k :: v :: rest, h =>
      simp only [parse, pairs, Option.map_eq_some_iff] at h
      obtain ⟨s', _, rfl⟩ := h
      simp [keysOf, Seg.key?]
  | afterSub =>
    match args, h with
    | op :: k :: ks, h => simp only [parse, Option.some.injEq] at h; subst h; simp [keysOf, Seg.key?]

theorem any_passingKey (pass : Bytes → Bool) (segs : List Seg) :
    segs.any (Seg.passingKey pass) = (keysOf segs).any pass := by
  induction segs with
  | nil => rfl
  | cons sg segs ih =>
    cases sg with
    | opt a => simpa [keysOf, Seg.key?, Seg.passingKey] using ih
    | key k cs =>
      simp only [List.any_cons, Seg.passingKey, keysOf, List.filterMap_cons, Seg.key?] at ih ⊢
      rw [ih]

/-- dropped exactly when no key passes -/
theorem rewriteSegs_drop_iff (pass : Bytes → Bool) (segs : List Seg) :
    rewriteSegs pass segs = .drop ↔ ∀ k ∈ keysOf segs, pass k = false := by
  unfold rewriteSegs
  rw [any_passingKey]
  constructor
  · intro h k hk
    by_cases hp : pass k = true
    · have : (keysOf segs).any pass = true := List.any_eq_true.mpr ⟨k, hk, hp⟩
      simp [this] at h
    · simpa using hp
  · intro h
    have : (keysOf segs).any pass = false := by
      apply Bool.eq_false_iff.mpr
      intro hany
      obtain ⟨k, hk, hp⟩ := List.any_eq_true.mp hany
      rw [h k hk] at hp; exact Bool.noConfusion hp
    simp [this]

/-- forwarded unchanged when every key passes (and there is a key) -/
theorem rewriteSegs_all_pass (pass : Bytes → Bool) (segs : List Seg) (hne : keysOf segs ≠ [])
    (h : ∀ k ∈ keysOf segs, pass k = true) : rewriteSegs pass segs = .forward (segs.flatMap Seg.flat) := by
  unfold rewriteSegs
  rw [any_passingKey]
  have hany : (keysOf segs).any pass = true := by
    cases hk : keysOf segs with
    | nil => exact absurd hk hne
    | cons k ks => simp [h k (by simp [hk])]
  have hfil : segs.filter (Seg.kept pass) = segs := by
    apply List.filter_eq_self.mpr
    intro sg hs
    cases sg with
    | opt a => rfl
    | key k cs =>
      exact h k (by
        simp only [keysOf, List.mem_filterMap]
        exact ⟨_, hs, rfl⟩)
  simp [hany, hfil]

/-- what is forwarded is a subsequence of the original arguments (order kept, nothing invented) … -/
theorem rewriteSegs_sublist (pass : Bytes → Bool) (segs : List Seg) (out : List Bytes)
    (h : rewriteSegs pass segs = .forward out) : out.Sublist (segs.flatMap Seg.flat) := by
  unfold rewriteSegs at h
  split at h
  · simp only [Verdict.forward.injEq] at h
    subst h
    rename_i hany
    clear hany
    induction segs with
    | nil => simp
    | cons sg segs ih =>
      simp only [List.filter_cons, List.flatMap_cons]
      split
      · simp only [List.flatMap_cons]
        exact List.Sublist.append (List.Sublist.refl _) ih
      · exact List.Sublist.trans ih (List.sublist_append_right _ _)
  · cases h

/-! ## Part D: decidable checks of the regenerated table -/

/-- the row of the current source table is the one that describes the command's layout in the command reference -/
def rowOK (row : Row) : Bool :=
  match classOfLower row.name with
  | some cls => decide (rowTriple row = canonicalRow cls)
  | none => false

/-- what the caller (parseSourceCommand) sees of `HandleFilterKeyWithCommand`'s result `(newArgv, reject)` -/
def verdictOf (r : List Bytes × Bool) : Verdict := if r.2 then .drop else .forward r.1

/-- a row of the table as pinned (before fixes/C13-keytable.patch) -/
def pinnedRow (name : String) (first last step : Int) : Row := ⟨ascii name, first, last, step⟩

/-- sample key filter used by the witnesses: whitelist prefix `p:` -/
def passP : Bytes → Bool := fun k => (ascii "p:").isPrefixOf k

end RSVerif.Lemmas.KeyFilter
