import RSVerif.Lemmas.Resume
import RSVerif.Lemmas.IncrParse
/-
Routing: executing what the parser emits (markers dropped, as the sender does) runs every surviving data
command in its intended database.
-/
namespace RSVerif.Lemmas.Routing
open RSVerif RSVerif.Sync RSVerif.IncrParse RSVerif.Spec.IncrSync RSVerif.Spec.MiniRedis
open RSVerif.Lemmas.SenderRedis RSVerif.Lemmas.Resume RSVerif.Lemmas.IncrParse RSVerif.Lemmas.SyncBasic

variable {D : Type} (apply : Int → Cmd → D → D) (ck : Bytes)

/-- the target executing, immediately and in order, the non-marker items -/
def runItems (x : D × Int) (items : List Item) : D × Int :=
  ((nonMarkers items).map cmdOf).foldl (execCore apply ck) x

theorem runItems_nil (x : D × Int) : runItems apply ck x [] = x := rfl

theorem runItems_append (x : D × Int) (a b : List Item) :
    runItems apply ck x (a ++ b) = runItems apply ck (runItems apply ck x a) b := by
  simp [runItems, nonMarkers_append, List.foldl_append]

theorem atoi_parseIntU (a : Bytes) (n : Int) (h : atoi a = some n) : parseIntU a = some n := by
  unfold atoi at h
  cases hp : parseIntU a with
  | none => simp [hp] at h
  | some v =>
    simp only [hp] at h
    split at h
    · exact h
    · simp at h

theorem run_select_item (x : D × Int) (a : Bytes) (n off db : Int) (h : atoi a = some n) :
    runItems apply ck x [{ cmd := "select", args := [a], off := off, db := db }] = (x.1, n) := by
  have e : normName "select" = "select" := by decide
  simp [runItems, nonMarkers, marker, cmdOf, execCore, classify, e, atoi_parseIntU a n h]

theorem run_SELECT_item (x : D × Int) (k off db : Int) :
    runItems apply ck x [{ cmd := "SELECT", args := [fmtInt k], off := off, db := db }] = (x.1, k) := by
  have e : normName "SELECT" = "select" := by decide
  simp [runItems, nonMarkers, marker, cmdOf, execCore, classify, e, parseIntU_fmtInt]

/-- a normalized command that is not `select` is not read as SELECT by the target -/
theorem classify_not_select (c : String) (args : List Bytes) (hn : normName c = c) (hs : c ≠ "select") :
    ∀ k, classify ck (c, args) ≠ .select k := by
  intro k
  unfold classify
  simp only [hn, hs, if_false]
  split
  · simp
  · split
    · simp
    · split
      · simp
      · split
        · split
          · split <;> simp
          · simp
        · simp

theorem run_other_item (cfg : PCfg) (base : Int) (st : PState) (c : SrcCmd) (x : D × Int)
    (hn : normName c.cmd = c.cmd) (hs : c.cmd ≠ "select") :
    runItems apply ck x [itemOf cfg base st c] =
      if c.cmd == "multi" || c.cmd == "exec" then x
      else (execIn ck apply x.1 (x.2, (c.cmd, (cfg.keyFilter c.cmd c.args).1)), x.2) := by
  by_cases hm : (c.cmd == "multi" || c.cmd == "exec") = true
  · have hmk : marker (itemOf cfg base st c) = true := by simpa [marker, itemOf] using hm
    simp [runItems, nonMarkers, hmk, hm]
  · have hm' : (c.cmd == "multi" || c.cmd == "exec") = false := by simpa using hm
    have hns := classify_not_select ck c.cmd (cfg.keyFilter c.cmd c.args).1 hn hs
    simp only [runItems, nonMarkers, marker, itemOf, hm', List.filter_cons, Bool.not_false, if_true,
      List.filter_nil, List.map_cons, List.map_nil, List.foldl_cons, List.foldl_nil, cmdOf, Bool.false_eq_true,
      if_false]
    unfold execCore execIn
    cases hc : classify ck (c.cmd, (cfg.keyFilter c.cmd c.args).1) with
    | select k => exact absurd hc (hns k)
    | _ => rfl


/-- the three Bool conditions of a non-SELECT iteration, related -/
theorem cond_cases (b d k : Bool) :
    ((b || d || k) = true ∧ (!b && !d && !k) = false) ∨ ((b || d || k) = false ∧ b = false ∧ d = false ∧ k = false) := by
  cases b <;> cases d <;> cases k <;> simp

/-- without `target.db`: every surviving data command runs in the database selected on the source -/
theorem route_plain (cfg : PCfg) (htdb : cfg.targetDB = -1) (hk : SelectNeutral cfg) (base : Int)
    (cmds : List SrcCmd) (hn : Normalized cmds) (st : PState) (hab : (ploop cfg base st cmds).2 = false)
    (d : D) (conn cur : Int) (hinv : st.bypass = false → conn = cur) :
    (runItems apply ck (d, conn) (ploop cfg base st cmds).1).1 =
      (intended cfg cur st.bypass cmds).foldl (execIn ck apply) d := by
  induction cmds generalizing st d conn cur with
  | nil => rfl
  | cons c cs ih =>
    have hnc : normName c.cmd = c.cmd := hn c (by simp)
    have hn' : Normalized cs := fun x hx => hn x (by simp [hx])
    rw [ploop_cons] at hab ⊢
    by_cases hs : c.cmd = "select"
    · rw [pstep_select cfg base st c hk hs] at hab ⊢
      rw [intended, if_pos hs]
      cases hargs : c.args with
      | nil => simp [hargs] at hab
      | cons a rest =>
        cases rest with
        | cons b r => simp [hargs] at hab
        | nil =>
          simp only [hargs] at hab ⊢
          cases hat : atoi a with
          | none => simp [hat] at hab
          | some n =>
            simp only [hat] at hab ⊢
            have ht : (cfg.targetDB != -1) = false := by simp [htdb]
            by_cases hf : cfg.filterDB n = true
            · simp only [hf, if_true] at hab ⊢
              have := ih hn' (afterSelect cfg st n) hab d conn n (by simp [afterSelect, hf])
              simpa [afterSelect, hf] using this
            · have hf' : cfg.filterDB n = false := by simpa using hf
              simp only [hf, Bool.false_eq_true, if_false, ht] at hab ⊢
              rw [show ∀ (x : Item) (l : List Item), [x] ++ l = [x] ++ l from fun _ _ => rfl]
              rw [runItems_append, run_select_item apply ck _ a n _ _ hat]
              have := ih hn' (afterSelect cfg st n) hab d n n (fun _ => rfl)
              simpa [afterSelect, hf'] using this
    · rw [pstep_other cfg base st c hnc hs] at hab ⊢
      rw [intended, if_neg hs]
      cases hd : dropStatus cfg c with
      | none => simp [hd] at hab
      | some dropped =>
        simp only [hd] at hab ⊢
        rcases cond_cases st.bypass dropped (cfg.keyFilter c.cmd c.args).2 with ⟨h1, h2⟩ | ⟨h1, hb, hdd, hkk⟩
        · simp only [h1, if_true, List.nil_append] at hab ⊢
          have hsv : (!st.bypass && !dropped && !(cfg.keyFilter c.cmd c.args).2 &&
              !(c.cmd == "multi" || c.cmd == "exec")) = false := by rw [h2]; rfl
          simp only [hsv, Bool.false_eq_true, if_false, List.nil_append]
          exact ih hn' st hab d conn cur hinv
        · simp only [h1, Bool.false_eq_true, if_false] at hab ⊢
          rw [show ∀ (x : Item) (l : List Item), [x] ++ l = [x] ++ l from fun _ _ => rfl, runItems_append,
            run_other_item apply ck cfg base st c _ hnc hs]
          have hcc : conn = cur := hinv hb
          by_cases hm : (c.cmd == "multi" || c.cmd == "exec") = true
          · simp only [hm, if_true, hb, hdd, hkk, Bool.not_false, Bool.not_true, Bool.and_false,
              Bool.false_eq_true, if_false, List.nil_append]
            have := ih hn' st hab d conn cur hinv
            rw [hb] at this; exact this
          · have hm' : (c.cmd == "multi" || c.cmd == "exec") = false := by simpa using hm
            have ht : (cfg.targetDB != -1) = false := by simp [htdb]
            simp only [hm', Bool.false_eq_true, if_false, hb, hdd, hkk, Bool.not_false, Bool.and_true, if_true,
              ht, List.cons_append, List.nil_append, List.foldl_cons]
            rw [hcc]
            have := ih hn' st hab (execIn ck apply d (cur, (c.cmd, (cfg.keyFilter c.cmd c.args).1))) cur cur (fun _ => rfl)
            rw [hb] at this; exact this


/-- with `target.db = k`: under `routeSafe`, every surviving data command runs in `k` -/
theorem route_target (cfg : PCfg) (htdb : cfg.targetDB ≠ -1) (hk : SelectNeutral cfg) (base : Int)
    (cmds : List SrcCmd) (hn : Normalized cmds) (st : PState) (hab : (ploop cfg base st cmds).2 = false)
    (d : D) (conn cur : Int) (ready : Bool) (hsafe : routeSafe cfg ready st.bypass cmds = true)
    (hinv : (ready = true → conn = cfg.targetDB) ∧ (cfg.d8fix = true → st.lastDb = cfg.targetDB → conn = cfg.targetDB)) :
    (runItems apply ck (d, conn) (ploop cfg base st cmds).1).1 =
      (intended cfg cur st.bypass cmds).foldl (execIn ck apply) d := by
  have ht : (cfg.targetDB != -1) = true := by simpa using htdb
  induction cmds generalizing st d conn cur ready with
  | nil => rfl
  | cons c cs ih =>
    have hnc : normName c.cmd = c.cmd := hn c (by simp)
    have hn' : Normalized cs := fun x hx => hn x (by simp [hx])
    rw [ploop_cons] at hab ⊢
    by_cases hs : c.cmd = "select"
    · rw [pstep_select cfg base st c hk hs] at hab ⊢
      rw [intended, if_pos hs]
      rw [routeSafe, if_pos hs] at hsafe
      cases hargs : c.args with
      | nil => simp [hargs] at hab
      | cons a rest =>
        cases rest with
        | cons b r => simp [hargs] at hab
        | nil =>
          simp only [hargs] at hab hsafe ⊢
          cases hat : atoi a with
          | none => simp [hat] at hab
          | some n =>
            simp only [hat] at hab hsafe ⊢
            by_cases hf : cfg.filterDB n = true
            · simp only [hf, if_true] at hab hsafe ⊢
              have := ih hn' (afterSelect cfg st n) hab d conn n ready (by simpa [afterSelect, hf] using hsafe)
                ⟨hinv.1, fun hfix hl => hinv.2 hfix (by simpa [afterSelect, hfix, ht] using hl)⟩
              simpa [afterSelect, hf] using this
            · have hf' : cfg.filterDB n = false := by simpa using hf
              simp only [hf, Bool.false_eq_true, if_false, ht, if_true, Bool.and_eq_true, Bool.or_eq_true] at hab hsafe ⊢
              by_cases hl : (cfg.targetDB != (afterSelect cfg st n).lastDb) = true
              · simp only [hl, if_true] at hab ⊢
                rw [show ∀ (x : Item) (l : List Item), [x] ++ l = [x] ++ l from fun _ _ => rfl, runItems_append,
                  run_SELECT_item]
                have := ih hn' { afterSelect cfg st n with lastDb := cfg.targetDB } hab d cfg.targetDB n true
                  (by simpa [afterSelect, hf'] using hsafe.2) ⟨fun _ => rfl, fun _ _ => rfl⟩
                simpa [afterSelect, hf'] using this
              · simp only [hl, Bool.false_eq_true, if_false, List.nil_append] at hab ⊢
                have hleq : cfg.targetDB = (afterSelect cfg st n).lastDb := by simpa using hl
                have hconn : conn = cfg.targetDB := by
                  by_cases hfix : cfg.d8fix = true
                  · refine hinv.2 hfix ?_
                    simp only [afterSelect, hfix, ht, Bool.and_self, if_true] at hleq
                    exact hleq.symm
                  · have hfix' : cfg.d8fix = false := by simpa using hfix
                    simp only [afterSelect, hfix', Bool.false_and, Bool.false_eq_true, if_false] at hleq
                    rcases hsafe.1 with (h | h) | h
                    · exact hinv.1 h
                    · rw [hfix'] at h; exact absurd h (by simp)
                    · simp [hleq] at h
                have := ih hn' (afterSelect cfg st n) hab d conn n true
                  (by simpa [afterSelect, hf'] using hsafe.2) ⟨fun _ => hconn, fun _ _ => hconn⟩
                simpa [afterSelect, hf'] using this
    · rw [pstep_other cfg base st c hnc hs] at hab ⊢
      rw [intended, if_neg hs]
      rw [routeSafe, if_neg hs] at hsafe
      simp only [Bool.and_eq_true, Bool.or_eq_true] at hsafe
      cases hd : dropStatus cfg c with
      | none => simp [hd] at hab
      | some dropped =>
        simp only [hd] at hab ⊢
        rcases cond_cases st.bypass dropped (cfg.keyFilter c.cmd c.args).2 with ⟨h1, h2⟩ | ⟨h1, hb, hdd, hkk⟩
        · simp only [h1, if_true, List.nil_append] at hab ⊢
          have hsv : (!st.bypass && !dropped && !(cfg.keyFilter c.cmd c.args).2 &&
              !(c.cmd == "multi" || c.cmd == "exec")) = false := by rw [h2]; rfl
          simp only [hsv, Bool.false_eq_true, if_false, List.nil_append]
          exact ih hn' st hab d conn cur ready hsafe.2 hinv
        · simp only [h1, Bool.false_eq_true, if_false] at hab ⊢
          rw [show ∀ (x : Item) (l : List Item), [x] ++ l = [x] ++ l from fun _ _ => rfl, runItems_append,
            run_other_item apply ck cfg base st c _ hnc hs]
          have hready : ready = true := by
            rcases hsafe.1 with h | h
            · exact h
            · rw [hb] at h; exact absurd h (by simp)
          have hcc : conn = cfg.targetDB := hinv.1 hready
          by_cases hm : (c.cmd == "multi" || c.cmd == "exec") = true
          · simp only [hm, if_true, hb, hdd, hkk, Bool.not_false, Bool.not_true, Bool.and_false,
              Bool.false_eq_true, if_false, List.nil_append]
            have := ih hn' st hab d conn cur ready hsafe.2 hinv
            rw [hb] at this; exact this
          · have hm' : (c.cmd == "multi" || c.cmd == "exec") = false := by simpa using hm
            simp only [hm', Bool.false_eq_true, if_false, hb, hdd, hkk, Bool.not_false, Bool.and_true, if_true,
              ht, List.cons_append, List.nil_append, List.foldl_cons]
            rw [hcc]
            have := ih hn' st hab (execIn ck apply d (cfg.targetDB, (c.cmd, (cfg.keyFilter c.cmd c.args).1)))
              cfg.targetDB cur ready hsafe.2 ⟨fun _ => rfl, fun _ _ => rfl⟩
            rw [hb] at this; exact this


theorem run_startItems (d : D) (startDb base : Int) :
    runItems apply ck (d, 0) (startItems startDb base) = (d, startDb) := by
  unfold startItems
  by_cases h : startDb = 0
  · subst h; rfl
  · have h' : (startDb != 0) = true := by simpa using h
    have e : normName "select" = "select" := by decide
    simp [h', runItems, nonMarkers, marker, cmdOf, execCore, classify, e, parseIntU_fmtInt]

theorem parseFull_eq (cfg : PCfg) (startDb base : Int) (cmds : List SrcCmd) :
    parseFull cfg startDb base cmds =
      (startItems startDb base ++ (ploop cfg base PState.init cmds).1, (ploop cfg base PState.init cmds).2) := rfl

/-- once the repair of D8 is in place, a connection that is ready or a filtered/leading SELECT suffices -/
theorem routeSafe_fixed (cfg : PCfg) (hfix : cfg.d8fix = true) (cmds : List SrcCmd) (ready byp : Bool)
    (h : ready = true ∨ byp = true) : routeSafe cfg ready byp cmds = true := by
  induction cmds generalizing ready byp with
  | nil => rfl
  | cons c cs ih =>
    rw [routeSafe]
    split
    · split
      · split
        · split
          · exact ih ready true (Or.inr rfl)
          · simp [hfix, ih true false (Or.inl rfl)]
        · rfl
      · rfl
    · rcases h with h | h
      · subst h; simp [ih true byp (Or.inl rfl)]
      · subst h; simp [ih ready true (Or.inr rfl)]

theorem routeSafe_fixed_leading_select (cfg : PCfg) (hfix : cfg.d8fix = true) (c : SrcCmd) (cs : List SrcCmd)
    (hs : c.cmd = "select") (ready : Bool) : routeSafe cfg ready false (c :: cs) = true := by
  rw [routeSafe, if_pos hs]
  split
  · split
    · split
      · exact routeSafe_fixed cfg hfix cs ready true (Or.inr rfl)
      · simp [hfix, routeSafe_fixed cfg hfix cs true false (Or.inl rfl)]
    · rfl
  · rfl

end RSVerif.Lemmas.Routing
