import RSVerif.Model.Sender
import RSVerif.Spec.IncrSync
/-
Helper lemmas about the sender automaton (invariants of `stepG`/`runG`).
-/
namespace RSVerif.Lemmas.Sender
open RSVerif RSVerif.Sync RSVerif.Sender RSVerif.Spec.IncrSync

/-! ### the barrier table extracted from the source -/

theorem lookup_select : barrierLookup "select" = some .add := by decide
theorem lookup_multi : barrierLookup "multi" = some .holdStart := by decide
theorem lookup_exec : barrierLookup "exec" = some .holdEnd := by decide

theorem lookup_other (c : String) (h1 : c ≠ "select") (h2 : c ≠ "multi") (h3 : c ≠ "exec") :
    barrierLookup c = none := by
  have e1 : (c == "select") = false := beq_eq_false_iff_ne.mpr h1
  have e2 : (c == "multi") = false := beq_eq_false_iff_ne.mpr h2
  have e3 : (c == "exec") = false := beq_eq_false_iff_ne.mpr h3
  unfold barrierLookup Generated.SyncConsts.barrierMap
  simp [List.lookup, e1, e2, e3]


/-! ### the barrier automaton against the well-formedness automaton -/

/-- "inside a source transaction" as the automaton sees it -/
def inTx : Bar → Bool
  | .holdStart | .holding => true
  | _ => false

def nextTx (t : Bool) (c : String) : Bool :=
  if c = "multi" then true else if c = "exec" then false else t

def okIn (t : Bool) (c : String) : Bool :=
  if c = "multi" then !t else if c = "exec" then true else if c = "select" then !t else true

theorem wfFrom_cons (t : Bool) (it : Item) (rest : List Item) :
    wfFrom t (it :: rest) = (okIn t it.cmd && wfFrom (nextTx t it.cmd) rest) := by
  unfold okIn nextTx
  rw [wfFrom]
  by_cases h1 : it.cmd = "multi"
  · simp [h1]
  · by_cases h2 : it.cmd = "exec"
    · simp [h2]
    · by_cases h3 : it.cmd = "select"
      · simp [h3]
      · simp [h1, h2, h3]

/-- the item is appended to the cache iff the new status is neither holdStart nor holdEnd -/
def kept (b : Bar) : Bool := b ≠ .holdStart ∧ b ≠ .holdEnd

theorem barrierStatus_spec (c : String) (prev : Bar) (h : okIn (inTx prev) c = true) :
    inTx (barrierStatus c prev).1 = nextTx (inTx prev) c ∧
    kept (barrierStatus c prev).1 = !(c == "multi" || c == "exec") ∧
    ((c = "select" ∨ c = "multi" ∨ c = "exec") → (barrierStatus c prev).2 = true) := by
  by_cases h1 : c = "multi"
  · subst h1
    cases prev <;> simp_all [okIn, inTx, nextTx, barrierStatus, lookup_multi, kept]
  · by_cases h2 : c = "exec"
    · subst h2
      cases prev <;> simp [inTx, nextTx, barrierStatus, lookup_exec, kept]
    · by_cases h3 : c = "select"
      · subst h3
        cases prev <;> simp_all [okIn, inTx, nextTx, barrierStatus, lookup_select, kept]
      · have := lookup_other c h3 h1 h2
        cases prev <;> simp [inTx, nextTx, barrierStatus, this, kept, h1, h2, h3]


/-! ### groups are determined by their items: every run is a chunking of the received stream -/

def gItems (gs : List Group) : List Item := gs.flatMap (·.items)

/-- the group `sendFunc` builds from a non-empty cache, and the new key set of `runIdMap` -/
def mkGroup (cfg : Cfg) (dbs : List Int) (items : List Item) : Group × List Int :=
  match items.getLast? with
  | none => ({ items := items, batched := false, runId := false }, dbs)
  | some last =>
    let needBatch := cfg.resume && !(items.length == 1 && last.cmd == "ping")
    let newDb := needBatch && !dbs.contains last.db
    ({ items := items, batched := needBatch, runId := newDb }, if newDb then last.db :: dbs else dbs)

theorem mkGroup_batched (cfg : Cfg) (dbs : List Int) (items : List Item) (hne : items ≠ []) :
    (mkGroup cfg dbs items).1.batched = (cfg.resume && !lonePing items) ∧
    (mkGroup cfg dbs items).1.items = items := by
  unfold mkGroup
  cases hl : items.getLast? with
  | none => simp at hl; exact absurd hl hne
  | some last =>
    refine ⟨?_, rfl⟩
    simp only []
    congr 2
    match items, hl with
    | [x], hl => simp at hl; subst hl; simp [lonePing]
    | x :: y :: r, _ => simp [lonePing]

/-- `gs` is what successive `sendFunc` calls produce from non-empty caches, starting with `runIdMap` keys `dbs` -/
def Shaped (cfg : Cfg) : List Int → List Group → List Int → Prop
  | dbs, [], dbs' => dbs' = dbs
  | dbs, g :: rest, dbs' =>
    g.items ≠ [] ∧ g = (mkGroup cfg dbs g.items).1 ∧ Shaped cfg (mkGroup cfg dbs g.items).2 rest dbs'

theorem Shaped.append {cfg : Cfg} {a b : List Group} {d0 d1 d2 : List Int}
    (ha : Shaped cfg d0 a d1) (hb : Shaped cfg d1 b d2) : Shaped cfg d0 (a ++ b) d2 := by
  induction a generalizing d0 with
  | nil => simp [Shaped] at ha; subst ha; simpa using hb
  | cons g rest ih =>
    obtain ⟨h1, h2, h3⟩ := ha
    exact ⟨h1, h2, ih h3⟩

/-- a `select` can only be the first item of a batch -/
def HeadSel (l : List Item) : Prop := ∀ it ∈ l.tail, it.cmd ≠ "select"

structure Inv (s : S) : Prop where
  cnt : s.count = s.cache.length
  head : HeadSel s.cache

theorem inv_init : Inv S.init := ⟨rfl, by simp [HeadSel, S.init]⟩

/-- what one or several loop iterations did: `new` are the items appended to the cache -/
structure Facts (cfg : Cfg) (s s' : S) (gs : List Group) (new : List Item) : Prop where
  items : gItems gs ++ s'.cache = s.cache ++ new
  shaped : Shaped cfg s.runIdDbs gs s'.runIdDbs
  inv : Inv s'
  heads : ∀ g ∈ gs, HeadSel g.items

theorem sendFunc_facts (cfg : Cfg) (s : S) (hi : Inv s) :
    Facts cfg s (sendFunc cfg s).1 (sendFunc cfg s).2 [] ∧ (sendFunc cfg s).1.cache = [] ∧
    (sendFunc cfg s).1.bs = s.bs := by
  unfold sendFunc
  cases hl : s.cache.getLast? with
  | none =>
    have hc : s.cache = [] := by simpa using hl
    refine ⟨⟨by simp [gItems], by simp [Shaped], hi, by simp⟩, hc, rfl⟩
  | some last =>
    have hne : s.cache ≠ [] := by intro h; simp [h] at hl
    refine ⟨⟨by simp [gItems], ?_, ⟨by simp, by simp [HeadSel]⟩, ?_⟩, rfl, rfl⟩
    · simp only [Shaped]
      refine ⟨hne, ?_, ?_⟩
      · simp [mkGroup, hl, hi.cnt]
      · simp [mkGroup, hl, hi.cnt]
    · intro g hg
      simp at hg
      subst hg
      exact hi.head

theorem Facts.trans {cfg : Cfg} {s a b : S} {g1 g2 : List Group} {n1 n2 : List Item}
    (h1 : Facts cfg s a g1 n1) (h2 : Facts cfg a b g2 n2) : Facts cfg s b (g1 ++ g2) (n1 ++ n2) := by
  refine ⟨?_, h1.shaped.append h2.shaped, h2.inv, ?_⟩
  · have e1 := h1.items
    have e2 := h2.items
    simp only [gItems, List.flatMap_append] at *
    rw [List.append_assoc, e2, ← List.append_assoc, e1, List.append_assoc]
  · intro g hg
    rcases List.mem_append.mp hg with h | h
    · exact h1.heads g h
    · exact h2.heads g h

theorem Facts.refl (cfg : Cfg) (s : S) (hi : Inv s) : Facts cfg s s [] [] :=
  ⟨by simp [gItems], by simp [Shaped], hi, by simp⟩


/-! ### one loop iteration -/

/-- the state after the barrier flush, the status update and the append -/
def afterAppend (cfg : Cfg) (s : S) (it : Item) : S × List Group :=
  let r := barrierStatus it.cmd s.bs
  let p1 := if r.2 then sendFunc cfg s else (s, [])
  let s2 : S := { p1.1 with bs := r.1 }
  let s3 : S := if r.1 ≠ .holdStart ∧ r.1 ≠ .holdEnd then
      { s2 with cache := s2.cache ++ [it], count := s2.count + 1, size := s2.size + itemLen it }
    else s2
  (s3, p1.2)

theorem stepG_recv_eq (cfg : Cfg) (s : S) (it : Item) :
    stepG cfg s (.recv it) =
      if belowThresholds cfg (afterAppend cfg s it).1 then afterAppend cfg s it
      else ((sendFunc cfg (afterAppend cfg s it).1).1,
            (afterAppend cfg s it).2 ++ (sendFunc cfg (afterAppend cfg s it).1).2) := by
  simp only [stepG, afterAppend]

theorem afterAppend_facts (cfg : Cfg) (s : S) (it : Item) (hi : Inv s)
    (hok : okIn (inTx s.bs) it.cmd = true) :
    Facts cfg s (afterAppend cfg s it).1 (afterAppend cfg s it).2 (if marker it then [] else [it]) ∧
    inTx (afterAppend cfg s it).1.bs = nextTx (inTx s.bs) it.cmd := by
  obtain ⟨hb1, hb2, hb3⟩ := barrierStatus_spec it.cmd s.bs hok
  -- the barrier flush
  have hp1 : Facts cfg s (if (barrierStatus it.cmd s.bs).2 then sendFunc cfg s else (s, [])).1
      (if (barrierStatus it.cmd s.bs).2 then sendFunc cfg s else (s, [])).2 [] ∧
      ((barrierStatus it.cmd s.bs).2 = true →
        (if (barrierStatus it.cmd s.bs).2 then sendFunc cfg s else (s, [])).1.cache = []) := by
    by_cases hfl : (barrierStatus it.cmd s.bs).2 = true
    · simp only [hfl, if_true]
      exact ⟨(sendFunc_facts cfg s hi).1, fun _ => (sendFunc_facts cfg s hi).2.1⟩
    · simp only [hfl]
      exact ⟨Facts.refl cfg s hi, fun h => absurd h (by simp)⟩
  obtain ⟨hf1, hc1⟩ := hp1
  simp only [afterAppend]
  generalize (if (barrierStatus it.cmd s.bs).2 then sendFunc cfg s else (s, [])) = p1 at hf1 hc1
  have hk : (decide ((barrierStatus it.cmd s.bs).1 ≠ Bar.holdStart ∧ (barrierStatus it.cmd s.bs).1 ≠ Bar.holdEnd))
      = !(marker it) := by
    have := hb2
    simp only [kept, marker] at this ⊢
    exact this
  by_cases hm : marker it = true
  · have hkf : ¬ ((barrierStatus it.cmd s.bs).1 ≠ Bar.holdStart ∧ (barrierStatus it.cmd s.bs).1 ≠ Bar.holdEnd) := by
      intro h; simp [h, hm] at hk
    simp only [hkf, if_false, hm, if_true]
    refine ⟨⟨?_, hf1.shaped, ⟨hf1.inv.cnt, hf1.inv.head⟩, hf1.heads⟩, hb1⟩
    simpa using hf1.items
  · have hkt : ((barrierStatus it.cmd s.bs).1 ≠ Bar.holdStart ∧ (barrierStatus it.cmd s.bs).1 ≠ Bar.holdEnd) := by
      by_cases h : ((barrierStatus it.cmd s.bs).1 ≠ Bar.holdStart ∧ (barrierStatus it.cmd s.bs).1 ≠ Bar.holdEnd)
      · exact h
      · simp [h, hm] at hk
    rw [if_pos hkt]
    simp only [hm]
    refine ⟨⟨?_, hf1.shaped, ⟨?_, ?_⟩, hf1.heads⟩, hb1⟩
    · have := hf1.items
      simp only [List.append_nil] at this
      simp only [Bool.false_eq_true, if_false]
      rw [← List.append_assoc, this]
    · simp [hf1.inv.cnt]
    · -- a select was preceded by a flush
      intro x hx
      by_cases hs : it.cmd = "select"
      · have hnil := hc1 (hb3 (Or.inl hs))
        simp [hnil] at hx
      · cases hcache : p1.1.cache with
        | nil => simp [hcache] at hx
        | cons a rest =>
          simp only [hcache, List.cons_append, List.tail_cons] at hx
          rcases List.mem_append.mp hx with h | h
          · exact hf1.inv.head x (by simp [hcache, h])
          · simp at h; subst h; exact hs


theorem stepG_recv_facts (cfg : Cfg) (s : S) (it : Item) (hi : Inv s)
    (hok : okIn (inTx s.bs) it.cmd = true) :
    Facts cfg s (stepG cfg s (.recv it)).1 (stepG cfg s (.recv it)).2 (if marker it then [] else [it]) ∧
    inTx (stepG cfg s (.recv it)).1.bs = nextTx (inTx s.bs) it.cmd := by
  obtain ⟨hf, hb⟩ := afterAppend_facts cfg s it hi hok
  rw [stepG_recv_eq]
  by_cases hbelow : belowThresholds cfg (afterAppend cfg s it).1 = true
  · simp only [hbelow, if_true]
    exact ⟨hf, hb⟩
  · simp only [hbelow]
    obtain ⟨hf2, _, hbs⟩ := sendFunc_facts cfg (afterAppend cfg s it).1 hf.inv
    refine ⟨?_, by simp only [Bool.false_eq_true, if_false]; rw [hbs]; exact hb⟩
    have := hf.trans hf2
    simpa using this

theorem stepG_tick_facts (cfg : Cfg) (s : S) (b : Bool) (hi : Inv s) :
    Facts cfg s (stepG cfg s (.tick b)).1 (stepG cfg s (.tick b)).2 [] ∧
    (stepG cfg s (.tick b)).1.bs = s.bs := by
  simp only [stepG]
  split
  · exact ⟨Facts.refl cfg s hi, rfl⟩
  · obtain ⟨hf2, _, hbs⟩ := sendFunc_facts cfg s hi
    exact ⟨hf2, hbs⟩

theorem received_append (a b : List Ev) : received (a ++ b) = received a ++ received b := by
  induction a with
  | nil => rfl
  | cons e es ih => cases e <;> simp [received, ih]

/-- the central invariant of a run from any consistent state -/
theorem runG_facts (cfg : Cfg) (evs : List Ev) (s : S) (hi : Inv s)
    (hwf : wfFrom (inTx s.bs) (received evs) = true) :
    Facts cfg s (runG cfg s evs).1 (runG cfg s evs).2 ((received evs).filter (fun it => !marker it)) := by
  induction evs generalizing s with
  | nil => simpa [runG, received] using Facts.refl cfg s hi
  | cons e es ih =>
    cases e with
    | recv it =>
      simp only [received, wfFrom_cons, Bool.and_eq_true] at hwf
      obtain ⟨hf, hb⟩ := stepG_recv_facts cfg s it hi hwf.1
      have h2 := ih (stepG cfg s (.recv it)).1 hf.inv (by rw [hb]; exact hwf.2)
      have := hf.trans h2
      simp only [runG, received, List.filter_cons]
      by_cases hm : marker it = true
      · simpa [hm] using this
      · simpa [hm] using this
    | tick b =>
      obtain ⟨hf, hb⟩ := stepG_tick_facts cfg s b hi
      have h2 := ih (stepG cfg s (.tick b)).1 hf.inv (by rw [hb]; simpa [received] using hwf)
      have := hf.trans h2
      simpa [runG, received] using this

theorem wireData_append (a b : List Wire) : wireData (a ++ b) = wireData a ++ wireData b := by
  induction a with
  | nil => rfl
  | cons w ws ih => cases w <;> simp [wireData, ih]

theorem wireData_map_fwd (l : List Item) : wireData (l.map Wire.fwd) = l := by
  induction l with
  | nil => rfl
  | cons a l ih => simp [wireData, ih]

theorem wireData_group (g : Group) : wireData g.wire = g.items := by
  unfold Group.wire
  cases g.batched <;> cases g.runId <;> simp [wireData_append, wireData_map_fwd, wireData]

theorem wireData_wireOf (gs : List Group) : wireData (wireOf gs) = gItems gs := by
  induction gs with
  | nil => rfl
  | cons g gs ih =>
    simp only [wireOf, gItems, List.flatMap_cons, wireData_append, wireData_group] at *
    rw [ih]


/-- the well-formedness automaton and the barrier status stay in step along a run -/
theorem runG_wf_tail (cfg : Cfg) (evs : List Ev) (rest : List Item) (s : S) (hi : Inv s)
    (hwf : wfFrom (inTx s.bs) (received evs ++ rest) = true) :
    Inv (runG cfg s evs).1 ∧ wfFrom (inTx (runG cfg s evs).1.bs) rest = true := by
  induction evs generalizing s with
  | nil => exact ⟨hi, by simpa [runG, received] using hwf⟩
  | cons e es ih =>
    cases e with
    | recv it =>
      simp only [received, List.cons_append, wfFrom_cons, Bool.and_eq_true] at hwf
      obtain ⟨hf, hb⟩ := stepG_recv_facts cfg s it hi hwf.1
      have := ih (stepG cfg s (.recv it)).1 hf.inv (by rw [hb]; exact hwf.2)
      simpa [runG] using this
    | tick b =>
      obtain ⟨hf, hb⟩ := stepG_tick_facts cfg s b hi
      have := ih (stepG cfg s (.tick b)).1 hf.inv (by rw [hb]; simpa [received] using hwf)
      simpa [runG] using this

/-- a barrier command flushes the whole cache before anything else happens -/
theorem barrier_step (cfg : Cfg) (s : S) (it : Item) (hbar : (barrierStatus it.cmd s.bs).2 = true) :
    (∀ x ∈ (stepG cfg s (.recv it)).1.cache, x = it) ∧
    (s.cache ≠ [] → ∃ g rest, (stepG cfg s (.recv it)).2 = g :: rest ∧ g.items = s.cache) := by
  rw [stepG_recv_eq]
  have hA : (∀ x ∈ (afterAppend cfg s it).1.cache, x = it) ∧
      (s.cache ≠ [] → ∃ g, (afterAppend cfg s it).2 = [g] ∧ g.items = s.cache) := by
    simp only [afterAppend, hbar, if_true]
    have hsf : (sendFunc cfg s).1.cache = [] ∧
        (s.cache ≠ [] → ∃ g, (sendFunc cfg s).2 = [g] ∧ g.items = s.cache) := by
      unfold sendFunc
      cases hl : s.cache.getLast? with
      | none => have : s.cache = [] := by simpa using hl
                simp [this]
      | some last => simp
    constructor
    · intro x hx
      split at hx
      · simp [hsf.1] at hx; exact hx
      · simp [hsf.1] at hx
    · exact hsf.2
  split
  · exact ⟨hA.1, fun h => by obtain ⟨g, hg, hi⟩ := hA.2 h; exact ⟨g, [], hg, hi⟩⟩
  · constructor
    · intro x hx
      have : (sendFunc cfg (afterAppend cfg s it).1).1.cache = [] := by
        unfold sendFunc
        cases hl : (afterAppend cfg s it).1.cache.getLast? with
        | none => simpa using hl
        | some last => rfl
      simp [this] at hx
    · intro h
      obtain ⟨g, hg, hi⟩ := hA.2 h
      exact ⟨g, _, by rw [hg]; rfl, hi⟩

end RSVerif.Lemmas.Sender
