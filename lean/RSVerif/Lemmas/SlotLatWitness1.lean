import RSVerif.Lemmas.SlotLatWitnessCheck
import RSVerif.Generated.C15LatWitness1
/-
Kernel check of the regenerated latency-key witnesses for slots 2048..4095 (8 chunks of 256
rows; one `decide +kernel` per chunk — the quantifier is a finite generated table). One of 8 such
modules, checked in parallel; rebuilt only when the latency key prefix changes.
-/
namespace RSVerif.Lemmas.Slot
open RSVerif

theorem lat_witness_chunk_8 : latChunkOK 2048 Generated.C15.latencyWitness8 = true := by decide +kernel
theorem lat_witness_chunk_9 : latChunkOK 2304 Generated.C15.latencyWitness9 = true := by decide +kernel
theorem lat_witness_chunk_10 : latChunkOK 2560 Generated.C15.latencyWitness10 = true := by decide +kernel
theorem lat_witness_chunk_11 : latChunkOK 2816 Generated.C15.latencyWitness11 = true := by decide +kernel
theorem lat_witness_chunk_12 : latChunkOK 3072 Generated.C15.latencyWitness12 = true := by decide +kernel
theorem lat_witness_chunk_13 : latChunkOK 3328 Generated.C15.latencyWitness13 = true := by decide +kernel
theorem lat_witness_chunk_14 : latChunkOK 3584 Generated.C15.latencyWitness14 = true := by decide +kernel
theorem lat_witness_chunk_15 : latChunkOK 3840 Generated.C15.latencyWitness15 = true := by decide +kernel

theorem lat_witness_module_1 : ∀ s, 2048 ≤ s → s < 4096 → ∃ i, latRowOK i s = true := by
  intro s h1 h2
  rcases Nat.lt_or_ge s 2304 with h | h1
  · exact lat_chunk_covers 2048 _ lat_witness_chunk_8 s h1 (by omega)
  rcases Nat.lt_or_ge s 2560 with h | h1
  · exact lat_chunk_covers 2304 _ lat_witness_chunk_9 s h1 (by omega)
  rcases Nat.lt_or_ge s 2816 with h | h1
  · exact lat_chunk_covers 2560 _ lat_witness_chunk_10 s h1 (by omega)
  rcases Nat.lt_or_ge s 3072 with h | h1
  · exact lat_chunk_covers 2816 _ lat_witness_chunk_11 s h1 (by omega)
  rcases Nat.lt_or_ge s 3328 with h | h1
  · exact lat_chunk_covers 3072 _ lat_witness_chunk_12 s h1 (by omega)
  rcases Nat.lt_or_ge s 3584 with h | h1
  · exact lat_chunk_covers 3328 _ lat_witness_chunk_13 s h1 (by omega)
  rcases Nat.lt_or_ge s 3840 with h | h1
  · exact lat_chunk_covers 3584 _ lat_witness_chunk_14 s h1 (by omega)
  exact lat_chunk_covers 3840 _ lat_witness_chunk_15 s h1 (by omega)

end RSVerif.Lemmas.Slot
