import RSVerif.Lemmas.SlotWitnessCheck
import RSVerif.Generated.C15Witness6
/-
Kernel check of the regenerated witness candidates for slots 12288..14335 (8 chunks of 256 rows;
one `decide +kernel` per chunk — the quantifier is a finite generated table). One of 8 such modules,
so that lake checks them in parallel; rebuilt only when a CRC16-relevant fact of the source changes.
-/
namespace RSVerif.Lemmas.Slot
open RSVerif

theorem witness_chunk_48 : chunkOK 12288 Generated.C15.slotWitness48 = true := by decide +kernel
theorem witness_chunk_49 : chunkOK 12544 Generated.C15.slotWitness49 = true := by decide +kernel
theorem witness_chunk_50 : chunkOK 12800 Generated.C15.slotWitness50 = true := by decide +kernel
theorem witness_chunk_51 : chunkOK 13056 Generated.C15.slotWitness51 = true := by decide +kernel
theorem witness_chunk_52 : chunkOK 13312 Generated.C15.slotWitness52 = true := by decide +kernel
theorem witness_chunk_53 : chunkOK 13568 Generated.C15.slotWitness53 = true := by decide +kernel
theorem witness_chunk_54 : chunkOK 13824 Generated.C15.slotWitness54 = true := by decide +kernel
theorem witness_chunk_55 : chunkOK 14080 Generated.C15.slotWitness55 = true := by decide +kernel

theorem witness_module_6 : ∀ s, 12288 ≤ s → s < 14336 → ∃ x, rowOK x s = true := by
  intro s h1 h2
  rcases Nat.lt_or_ge s 12544 with h | h1
  · exact chunk_covers 12288 _ witness_chunk_48 s h1 (by omega)
  rcases Nat.lt_or_ge s 12800 with h | h1
  · exact chunk_covers 12544 _ witness_chunk_49 s h1 (by omega)
  rcases Nat.lt_or_ge s 13056 with h | h1
  · exact chunk_covers 12800 _ witness_chunk_50 s h1 (by omega)
  rcases Nat.lt_or_ge s 13312 with h | h1
  · exact chunk_covers 13056 _ witness_chunk_51 s h1 (by omega)
  rcases Nat.lt_or_ge s 13568 with h | h1
  · exact chunk_covers 13312 _ witness_chunk_52 s h1 (by omega)
  rcases Nat.lt_or_ge s 13824 with h | h1
  · exact chunk_covers 13568 _ witness_chunk_53 s h1 (by omega)
  rcases Nat.lt_or_ge s 14080 with h | h1
  · exact chunk_covers 13824 _ witness_chunk_54 s h1 (by omega)
  exact chunk_covers 14080 _ witness_chunk_55 s h1 (by omega)

end RSVerif.Lemmas.Slot
