import RSVerif.Model.Supervisor
/-
Helper lemmas for C20 (core Lean only): `strings.Split` + per-line prefix match equals the byte scan of the
spec; invariants of the loop over the hosts; unfolding of the bounded retry recursion.
-/
namespace RSVerif.Lemmas.Supervisor
open RSVerif RSVerif.Supervisor RSVerif.Spec.Supervisor

/-! ### role parsing: split-then-match equals the scan of the spec -/

theorem splitLF_ne_nil (t : Bytes) : ∃ hd tl, splitLF t = hd :: tl := by
  cases t with
  | nil => exact ⟨[], [], rfl⟩
  | cons b rest =>
    unfold splitLF
    by_cases hb : b = 10
    · simp [hb]
    · simp only [hb, if_false]
      cases h : splitLF rest with
      | nil => exact ⟨[b], [], rfl⟩
      | cons l ls => exact ⟨b :: l, ls, rfl⟩

/-- a pattern without LF is a prefix of the text iff it is a prefix of the text's first line -/
theorem isPrefixOf_first_line (m : Bytes) (hm : ∀ c ∈ m, c ≠ 10) :
    ∀ (t hd : Bytes) (tl : List Bytes), splitLF t = hd :: tl → m.isPrefixOf hd = m.isPrefixOf t := by
  induction m with
  | nil => intro t hd tl _; simp
  | cons c m ih =>
    have hc : c ≠ 10 := hm c (by simp)
    have hm' : ∀ c ∈ m, c ≠ 10 := fun x hx => hm x (by simp [hx])
    intro t hd tl h
    cases t with
    | nil =>
      simp [splitLF] at h
      simp [← h.1]
    | cons b rest =>
      unfold splitLF at h
      by_cases hb : b = 10
      · simp [hb] at h
        subst hb
        simp [h.1, List.isPrefixOf, hc]
      · simp only [hb, if_false] at h
        obtain ⟨hd', tl', h'⟩ := splitLF_ne_nil rest
        rw [h'] at h
        simp [consHead] at h
        rw [← h.1]
        simp [List.isPrefixOf, ih hm' rest hd' tl' h']


def toExcept : Option Bool → Except ProbeErr Bool
  | some b => .ok b
  | none => .error .invalidRole

theorem regexMatch_caret (lit line : Bytes) (h : lit.any isMeta = false) :
    regexMatch (94 :: lit) line = lit.isPrefixOf line := by
  simp [regexMatch, regexSupported, h]

theorem masterLine_noLF : ∀ c ∈ masterLine, c ≠ 10 := by decide
theorem slaveLine_noLF : ∀ c ∈ slaveLine, c ≠ 10 := by decide
theorem masterLine_noMeta : masterLine.any isMeta = false := by decide
theorem slaveLine_noMeta : slaveLine.any isMeta = false := by decide

/-- split on LF, then first line with a matching prefix  =  the byte scan of the spec -/
theorem scan_eq (t : Bytes) :
    scanLines (94 :: masterLine) (94 :: slaveLine) (splitLF t) = toExcept (roleFrom true t) ∧
    scanLines (94 :: masterLine) (94 :: slaveLine) (splitLF t).tail = toExcept (roleFrom false t) := by
  induction t with
  | nil =>
    refine ⟨?_, ?_⟩
    · simp [splitLF, scanLines, regexMatch_caret, masterLine_noMeta, slaveLine_noMeta, roleFrom, toExcept]
      decide
    · simp [splitLF, scanLines, roleFrom, toExcept]
  | cons b rest ih =>
    obtain ⟨hd, tl, h⟩ := splitLF_ne_nil (b :: rest)
    have hm := isPrefixOf_first_line masterLine masterLine_noLF _ _ _ h
    have hs := isPrefixOf_first_line slaveLine slaveLine_noLF _ _ _ h
    have htl : scanLines (94 :: masterLine) (94 :: slaveLine) tl = toExcept (roleFrom (b == 10) rest) := by
      unfold splitLF at h
      by_cases hb : b = 10
      · simp [hb] at h
        simp [hb, ← h.2, ih.1]
      · simp only [hb, if_false] at h
        obtain ⟨hd', tl', h'⟩ := splitLF_ne_nil rest
        rw [h'] at h
        simp [consHead] at h
        have := ih.2
        rw [h'] at this
        simp at this
        have hb' : (b == 10) = false := by simp [hb]
        simp [hb', ← h.2, this]
    refine ⟨?_, ?_⟩
    · rw [h]
      simp only [scanLines, regexMatch_caret _ _ masterLine_noMeta, regexMatch_caret _ _ slaveLine_noMeta, hm, hs,
        roleFrom]
      by_cases h1 : masterLine.isPrefixOf (b :: rest) = true
      · simp [h1, toExcept]
      · by_cases h2 : slaveLine.isPrefixOf (b :: rest) = true
        · simp [h1, h2, toExcept]
        · simp [h1, h2, htl]
    · rw [h]
      simp [roleFrom, htl]


variable (cls : Probe → Except ProbeErr Bool)

/-! ### the loop over the hosts -/

/-- nothing is lost, nothing invented (repaired loop body): what the loop has seen so far is `Source` (once a
master was found) plus `Slaves`, as a multiset -/
def LoopInv (seen : List String) (acc : Acc) : Prop :=
  if acc.masterFound then (acc.source :: acc.slaves).Perm seen else acc.slaves.Perm seen

theorem step_inv (acc : Acc) (seen : List String) (h : String) (p : Probe) (hi : LoopInv seen acc) :
    LoopInv (seen ++ [h]) (step .repaired cls acc h p) := by
  unfold LoopInv at *
  unfold step
  cases hc : cls p with
  | error e =>
    simp only
    split at hi
    · rename_i hf; simp only [hf, if_true]
      exact (List.Perm.append_right [h] hi : (acc.source :: acc.slaves ++ [h]).Perm (seen ++ [h]))
    · rename_i hf; simp only [hf]
      exact List.Perm.append_right [h] hi
  | ok b =>
    cases b with
    | false =>
      simp only
      split at hi
      · rename_i hf; simp only [hf, if_true]
        exact (List.Perm.append_right [h] hi : (acc.source :: acc.slaves ++ [h]).Perm (seen ++ [h]))
      · rename_i hf; simp only [hf]
        exact List.Perm.append_right [h] hi
    | true =>
      simp only [if_true]
      split at hi
      · rename_i hf; simp only [hf, if_true]
        have : (acc.slaves ++ [acc.source]).Perm seen :=
          (List.perm_append_comm (l₁ := acc.slaves) (l₂ := [acc.source])).trans hi
        exact (List.perm_append_comm (l₁ := [h]) (l₂ := acc.slaves ++ [acc.source])).trans (List.Perm.append_right [h] this)
      · rename_i hf; simp only [hf]
        exact (List.perm_append_comm (l₁ := [h]) (l₂ := acc.slaves)).trans (List.Perm.append_right [h] hi)

theorem probeLoop_inv (out : Nat → Probe) :
    ∀ (hs : List String) (i : Nat) (acc : Acc) (seen : List String), LoopInv seen acc →
      LoopInv (seen ++ hs) (probeLoop .repaired cls out i hs acc) := by
  intro hs
  induction hs with
  | nil => intro i acc seen h; simpa [probeLoop] using h
  | cons h hs ih =>
    intro i acc seen hi
    have := ih (i + 1) _ _ (step_inv cls acc seen h (out i) hi)
    simpa [probeLoop, List.append_assoc] using this


theorem step_masterFound (code : Code) (acc : Acc) (h : String) (p : Probe) :
    (step code cls acc h p).masterFound = (acc.masterFound || (cls p == .ok true)) := by
  unfold step
  cases hc : cls p with
  | error e => simp
  | ok b => cases b <;> cases code <;> simp

/-- `masterFound` after the loop: it was set before, or some probed position answered master -/
theorem probeLoop_masterFound (code : Code) (out : Nat → Probe) :
    ∀ (hs : List String) (i : Nat) (acc : Acc),
      (probeLoop code cls out i hs acc).masterFound = true ↔
        (acc.masterFound = true ∨ ∃ j, j < hs.length ∧ cls (out (i + j)) = .ok true) := by
  intro hs
  induction hs with
  | nil => intro i acc; simp [probeLoop]
  | cons h hs ih =>
    intro i acc
    rw [probeLoop, ih, step_masterFound]
    constructor
    · rintro (h1 | ⟨j, hj, hm⟩)
      · simp at h1
        rcases h1 with h1 | h1
        · exact Or.inl h1
        · exact Or.inr ⟨0, by simp, by simpa using h1⟩
      · exact Or.inr ⟨j + 1, by simp [hj], by simpa [Nat.add_assoc, Nat.add_comm 1 j] using hm⟩
    · rintro (h1 | ⟨j, hj, hm⟩)
      · exact Or.inl (by simp [h1])
      · cases j with
        | zero => exact Or.inl (by simp at hm; simp [hm])
        | succ j =>
          exact Or.inr ⟨j, by simpa using hj, by simpa [Nat.add_assoc, Nat.add_comm 1 j] using hm⟩

/-- whenever `masterFound` is set, `Source` is a host whose probe (in this round) answered master -/
theorem probeLoop_source (code : Code) (out : Nat → Probe) :
    ∀ (hs pre : List String) (acc : Acc),
      (acc.masterFound = true → ∃ j, (pre ++ hs)[j]? = some acc.source ∧ cls (out j) = .ok true) →
      (probeLoop code cls out pre.length hs acc).masterFound = true →
        ∃ j, (pre ++ hs)[j]? = some (probeLoop code cls out pre.length hs acc).source ∧ cls (out j) = .ok true := by
  intro hs
  induction hs with
  | nil => intro pre acc h; simpa [probeLoop] using h
  | cons h hs ih =>
    intro pre acc hacc
    have key : ((step code cls acc h (out pre.length)).masterFound = true →
        ∃ j, ((pre ++ [h]) ++ hs)[j]? = some (step code cls acc h (out pre.length)).source ∧ cls (out j) = .ok true) := by
      intro hf
      unfold step at hf ⊢
      cases hc : cls (out pre.length) with
      | error e =>
        simp only [hc] at hf ⊢
        simpa [List.append_assoc] using hacc hf
      | ok b =>
        cases b with
        | false =>
          simp only [hc] at hf ⊢
          simpa [List.append_assoc] using hacc hf
        | true =>
          refine ⟨pre.length, ?_, hc⟩
          cases code <;> simp
    have := ih (pre ++ [h]) _ key
    simpa [probeLoop, List.append_assoc] using this

/-- with at most one master answer among the probed positions the pinned loop body and the repaired one
compute the same thing -/
theorem probeLoop_pinned_eq (out : Nat → Probe) :
    ∀ (hs : List String) (i : Nat) (acc : Acc),
      (acc.masterFound = true → ∃ j, j < i ∧ cls (out j) = .ok true) →
      (∀ j k, j < i + hs.length → k < i + hs.length → cls (out j) = .ok true → cls (out k) = .ok true → j = k) →
      probeLoop .pinned cls out i hs acc = probeLoop .repaired cls out i hs acc := by
  intro hs
  induction hs with
  | nil => intro i acc _ _; rfl
  | cons h hs ih =>
    intro i acc hacc huniq
    have hstep : step .pinned cls acc h (out i) = step .repaired cls acc h (out i) := by
      unfold step
      cases hc : cls (out i) with
      | error e => rfl
      | ok b =>
        cases b with
        | false => rfl
        | true =>
          have hnf : acc.masterFound = false := by
            cases hf : acc.masterFound with
            | false => rfl
            | true =>
              obtain ⟨j, hj, hm⟩ := hacc hf
              have := huniq j i (by simp; omega) (by simp) hm hc
              omega
          simp [hnf]
    rw [probeLoop, probeLoop, hstep]
    apply ih
    · intro hf
      rw [step_masterFound] at hf
      simp at hf
      rcases hf with hf | hf
      · obtain ⟨j, hj, hm⟩ := hacc hf
        exact ⟨j, by omega, hm⟩
      · exact ⟨i, by omega, hf⟩
    · intro j k hj hk
      exact huniq j k (by simp at hj ⊢; omega) (by simp at hk ⊢; omega)


/-! ### the retry recursion -/

theorem rec_ok (code : Code) (s : SyncNode) (out : Nat → Nat → Probe) :
    ∀ (d a : Nat) (n : SyncNode) (k : Nat), recursiveGetSlotState code cls s out d a = ⟨.ok n, k⟩ →
      ∃ b, k = b + 1 ∧ a ≤ b ∧ b ≤ a + d ∧ (probeAll code cls s (out b)).masterFound = true ∧
        n = ⟨(probeAll code cls s (out b)).source, (probeAll code cls s (out b)).slaves⟩ ∧
        ∀ c, a ≤ c → c < b → (probeAll code cls s (out c)).masterFound = false := by
  intro d
  induction d with
  | zero =>
    intro a n k h
    unfold recursiveGetSlotState at h
    by_cases hf : (probeAll code cls s (out a)).masterFound = true
    · simp [hf] at h
      exact ⟨a, h.2.symm, Nat.le_refl _, by omega, hf, h.1.symm, fun c h1 h2 => by omega⟩
    · simp [hf] at h
  | succ d ih =>
    intro a n k h
    unfold recursiveGetSlotState at h
    by_cases hf : (probeAll code cls s (out a)).masterFound = true
    · simp [hf] at h
      exact ⟨a, h.2.symm, Nat.le_refl _, by omega, hf, h.1.symm, fun c h1 h2 => by omega⟩
    · simp [hf] at h
      obtain ⟨b, hk, hab, hbd, hm, hn, hprev⟩ := ih _ _ _ h
      refine ⟨b, hk, by omega, by omega, hm, hn, ?_⟩
      intro c hc1 hc2
      by_cases hca : c = a
      · subst hca; simpa using hf
      · exact hprev c (by omega) hc2

theorem rec_err (code : Code) (s : SyncNode) (out : Nat → Nat → Probe) :
    ∀ (d a : Nat) (k : Nat), recursiveGetSlotState code cls s out d a = ⟨.maxRetriesReached, k⟩ →
      k = a + d + 1 ∧ ∀ c, a ≤ c → c ≤ a + d → (probeAll code cls s (out c)).masterFound = false := by
  intro d
  induction d with
  | zero =>
    intro a k h
    unfold recursiveGetSlotState at h
    by_cases hf : (probeAll code cls s (out a)).masterFound = true
    · simp [hf] at h
    · simp [hf] at h
      refine ⟨by omega, fun c h1 h2 => ?_⟩
      have : c = a := by omega
      subst this; simpa using hf
  | succ d ih =>
    intro a k h
    unfold recursiveGetSlotState at h
    by_cases hf : (probeAll code cls s (out a)).masterFound = true
    · simp [hf] at h
    · simp [hf] at h
      obtain ⟨hk, hprev⟩ := ih _ _ h
      refine ⟨by omega, fun c h1 h2 => ?_⟩
      by_cases hca : c = a
      · subst hca; simpa using hf
      · exact hprev c (by omega) (by omega)

/-! ### the executable acceptor -/

theorem mem_masterNames (ans : Nat → Answer) (x : String) :
    ∀ (hs : List String) (i : Nat), x ∈ masterNames ans i hs ↔ ∃ j, hs[j]? = some x ∧ ans (i + j) = .master := by
  intro hs
  induction hs with
  | nil => intro i; simp [masterNames]
  | cons h hs ih =>
    intro i
    unfold masterNames
    constructor
    · intro hx
      by_cases hm : ans i = .master
      · simp only [hm, if_true, List.mem_cons] at hx
        rcases hx with hx | hx
        · exact ⟨0, by simp [hx], by simpa using hm⟩
        · obtain ⟨j, hj, hmj⟩ := (ih (i + 1)).1 hx
          exact ⟨j + 1, by simpa using hj, by simpa [Nat.add_assoc, Nat.add_comm 1 j] using hmj⟩
      · simp only [hm, if_false] at hx
        obtain ⟨j, hj, hmj⟩ := (ih (i + 1)).1 hx
        exact ⟨j + 1, by simpa using hj, by simpa [Nat.add_assoc, Nat.add_comm 1 j] using hmj⟩
    · rintro ⟨j, hj, hmj⟩
      cases j with
      | zero =>
        simp at hj hmj
        simp [hmj, hj]
      | succ j =>
        have : x ∈ masterNames ans (i + 1) hs :=
          (ih (i + 1)).2 ⟨j, by simpa using hj, by simpa [Nat.add_assoc, Nat.add_comm 1 j] using hmj⟩
        by_cases hm : ans i = .master <;> simp [hm, this]

end RSVerif.Lemmas.Supervisor
