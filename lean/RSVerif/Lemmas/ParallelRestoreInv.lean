import RSVerif.Lemmas.ParallelRestore
namespace RSVerif.Lemmas.ParallelRestore
open RSVerif RSVerif.Spec.MiniRedisC07 RSVerif.Model.ParallelRestore RSVerif.Lemmas.ParallelRestore

/-- what is true of one worker and the server-side state of *its* connection -/
def WorkerOk (cfg : Cfg) (entries : List Entry) (sel : Nat) (wk : Worker) : Prop :=
  match wk.phase with
  | .select e => wk.lastdb = route cfg e.db ∧ e ∈ entries ∧ cfg.filterDB e.db = false
  | .run e rest => sel = wk.lastdb ∧ wk.lastdb = route cfg e.db ∧ e ∈ entries ∧ passes cfg e = true ∧
      ∃ pre, cfg.restoreCmds e = pre ++ rest
  | _ => sel = wk.lastdb

structure Inv (cfg : Cfg) (entries : List Entry) (s : State) : Prop where
  queue_suffix : ∃ pre, entries = pre ++ s.queue
  worker : ∀ w, WorkerOk cfg entries (s.server.sel w) (s.workers w)
  log : ∀ x ∈ s.server.log, ∃ e ∈ entries, passes cfg e = true ∧ x.cmd ∈ cfg.restoreCmds e ∧ x.db = route cfg e.db

theorem inv_init (cfg : Cfg) (n : Nat) (entries : List Entry) : Inv cfg entries (init n entries) :=
  ⟨⟨[], rfl⟩, fun _ => rfl, fun x hx => by simp [init] at hx⟩

theorem workerOk_startRestore {cfg : Cfg} {entries : List Entry} {sel : Nat} {wk : Worker} {e : Entry}
    (h1 : sel = wk.lastdb) (h2 : wk.lastdb = route cfg e.db) (he : e ∈ entries) (hf : cfg.filterDB e.db = false) :
    WorkerOk cfg entries sel (startRestore cfg e wk) := by
  unfold startRestore
  by_cases hk : keyFiltered cfg e = true
  · simp [hk, WorkerOk, h1]
  · simp only [hk]
    cases hc : cfg.restoreCmds e with
    | nil => simp [phaseOfRest, WorkerOk, h1]
    | cons c cs =>
      simp only [phaseOfRest, WorkerOk]
      refine ⟨h1, h2, he, ?_, [], by simp [hc]⟩
      simp [passes, hf, hk]

theorem inv_stepWorker {cfg : Cfg} {entries : List Entry} {s : State} (h : Inv cfg entries s) (w : Nat) (fail : Bool) :
    Inv cfg entries (stepWorker cfg s w fail) := by
  obtain ⟨⟨pre, hq⟩, hw, hl⟩ := h
  have hww := hw w
  unfold stepWorker
  simp only
  split
  · exact ⟨⟨pre, hq⟩, hw, hl⟩
  · -- idle
    rename_i hph
    split
    · rename_i hqe
      refine ⟨⟨pre, by simpa [hqe] using hq⟩, ?_, hl⟩
      intro i
      by_cases hi : i = w
      · subst hi; simp [WorkerOk, hph] at hww ⊢; exact hww
      · simpa [hi] using hw i
    · rename_i e q hqe
      have he : e ∈ entries := by rw [hq, hqe]; simp
      have hsuf : ∃ pre', entries = pre' ++ q := ⟨pre ++ [e], by rw [hq, hqe]; simp⟩
      split
      · exact ⟨hsuf, hw, hl⟩
      · rename_i hf
        refine ⟨hsuf, ?_, hl⟩
        intro i
        by_cases hi : i = w
        · subst hi
          simp only [setWorker_workers, if_true, setWorker_server]
          rw [selectBookkeeping_eq]
          have hsel : s.server.sel i = (s.workers i).lastdb := by simpa [WorkerOk, hph] using hww
          by_cases hr : route cfg e.db = (s.workers i).lastdb
          · simp only [hr, ne_eq, not_true_eq_false, if_false]
            exact workerOk_startRestore hsel hr.symm he (by simpa using hf)
          · simp only [hr, ne_eq, not_false_eq_true, if_true, WorkerOk]
            exact ⟨trivial, he, by simpa using hf⟩
        · simpa [hi] using hw i
  · -- select
    rename_i e hph
    obtain ⟨h2, he, hf⟩ : (s.workers w).lastdb = route cfg e.db ∧ e ∈ entries ∧ cfg.filterDB e.db = false := by
      simpa [WorkerOk, hph] using hww
    refine ⟨⟨pre, hq⟩, ?_, hl⟩
    intro i
    by_cases hi : i = w
    · subst hi
      simp only [setWorker_workers, if_true, setWorker_server, Server.select_sel]
      exact workerOk_startRestore rfl h2 he hf
    · simpa [hi] using hw i
  · -- run e []
    rename_i e hph
    refine ⟨⟨pre, hq⟩, ?_, hl⟩
    intro i
    by_cases hi : i = w
    · subst hi
      have : s.server.sel i = (s.workers i).lastdb := by
        have := hww; simp only [WorkerOk, hph] at this; exact this.1
      simpa [WorkerOk] using this
    · simpa [hi] using hw i
  · -- run e (c :: rest)
    rename_i e c rest hph
    obtain ⟨h1, h2, he, hp, pre', hpre⟩ : s.server.sel w = (s.workers w).lastdb ∧ (s.workers w).lastdb = route cfg e.db ∧
        e ∈ entries ∧ passes cfg e = true ∧ ∃ pre, cfg.restoreCmds e = pre ++ c :: rest := by
      simpa [WorkerOk, hph] using hww
    have hlog : ∀ ok, ∀ x ∈ (s.server.exec w c ok).log, ∃ e ∈ entries, passes cfg e = true ∧ x.cmd ∈ cfg.restoreCmds e ∧ x.db = route cfg e.db := by
      intro ok x hx
      simp only [Server.exec_log, List.mem_append, List.mem_singleton] at hx
      rcases hx with hx | hx
      · exact hl x hx
      · subst hx
        exact ⟨e, he, hp, by simp [hpre], by simp [h1, h2]⟩
    split
    · split
      · refine ⟨⟨pre, hq⟩, ?_, hlog false⟩
        intro i
        by_cases hi : i = w
        · subst hi; simpa [WorkerOk] using h1
        · simpa [hi] using hw i
      · refine ⟨⟨pre, hq⟩, ?_, hlog false⟩
        intro i
        by_cases hi : i = w
        · subst hi; simpa [WorkerOk] using h1
        · simpa [hi] using hw i
    · refine ⟨⟨pre, hq⟩, ?_, hlog true⟩
      intro i
      by_cases hi : i = w
      · subst hi
        simp only [setWorker_workers, if_true, setWorker_server, Server.exec_sel]
        cases rest with
        | nil => simpa [phaseOfRest, WorkerOk] using h1
        | cons c' cs =>
          simp only [phaseOfRest, WorkerOk]
          exact ⟨h1, h2, he, hp, pre' ++ [c], by simp [hpre]⟩
      · simpa [hi] using hw i

end RSVerif.Lemmas.ParallelRestore
