import RSVerif.Model.Offsets
import RSVerif.Spec.Offsets
/-
C08 — helper lemmas: `offsFrom`, frame lemmas of `step`, and the three invariants of the repaired code
(`Inv`: base, runid, |pipe| = received; `InvS`: pipe contiguous and source position; `InvA`: the ACK log).
Core Lean only.
-/
namespace RSVerif.Offsets
open RSVerif

def Consts.ok (K : Consts) : Prop :=
  K.psyncSentinel = -1 ∧ K.psyncInc = 1 ∧ K.psyncContBack = 1 ∧ K.ackWaiting = 0

theorem out_step (K : Consts) (s : St) (e : Ev) : (step K s e).out = s.out ++ emitted K s e := by
  cases e <;> simp only [step, emitted] <;> (try split) <;> simp

theorem length_offsFrom (a : Int) (k : Nat) : (offsFrom a k).length = k := by
  induction k generalizing a with
  | zero => rfl
  | succ k ih => simp [offsFrom, ih]

theorem offsFrom_add (a : Int) (m k : Nat) : offsFrom a (m + k) = offsFrom a m ++ offsFrom (a + m) k := by
  induction m generalizing a with
  | zero => simp [offsFrom]
  | succ m ih =>
    have : m + 1 + k = (m + k) + 1 := by omega
    rw [this]
    simp only [offsFrom, List.cons_append, ih]
    have e : a + 1 + (m : Int) = a + ((m + 1 : Nat) : Int) := by omega
    rw [e]

theorem acks_step (K : Consts) (s : St) (e : Ev) : acks (step K s e) = acks s ++ acksOf (emitted K s e) := by
  simp [acks, acksOf, out_step, List.filterMap_append]

theorem step_sourceOffset (K : Consts) (s : St) (e : Ev) : (step K s e).sourceOffset = s.sourceOffset := by
  cases e <;> simp only [step] <;> (try split) <;> rfl

theorem step_runid (K : Consts) (s : St) (e : Ev) : (step K s e).runid = s.runid := by
  cases e <;> simp only [step] <;> (try split) <;> rfl

theorem step_received_ge (K : Consts) (s : St) (e : Ev) : s.received ≤ (step K s e).received := by
  cases e <;> simp only [step] <;> (try split) <;> simp

theorem step_waitFull (K : Consts) (s : St) (e : Ev) (h : (step K s e).waitFull = false) : s.waitFull = false := by
  cases e <;> simp only [step] at h <;> (try split at h) <;> simp_all

theorem step_len (K : Consts) (s : St) (e : Ev) (h : s.pipe.length = s.received) :
    (step K s e).pipe.length = (step K s e).received := by
  cases e <;> simp only [step] <;> (try split) <;> simp [h, length_offsFrom]

theorem mem_emitted_ack {K : Consts} {s : St} {e : Ev} {c : Nat} {n : Int}
    (h : Out.ack c n ∈ emitted K s e) : n = ackValue K s := by
  cases e <;> simp only [emitted] at h <;> (try split at h) <;> simp_all

theorem mem_emitted_psync {K : Consts} {s : St} {e : Ev} {c : Nat} {r : Bytes} {o : Int}
    (h : Out.psync c r o ∈ emitted K s e) :
    (∃ rep, e = .reconnect rep) ∧ s.up = false ∧ s.dead = false ∧ c = s.conn + 1 ∧ r = s.runid ∧
      o = psyncArg K (s.sourceOffset + s.received) := by
  cases e <;> simp only [emitted] at h <;> (try split at h) <;> simp_all

theorem acksOf_emitted (K : Consts) (s : St) (e : Ev) :
    acksOf (emitted K s e) = [] ∨ acksOf (emitted K s e) = [ackValue K s] := by
  cases e <;> simp only [emitted] <;> (try split) <;> simp [acksOf]

structure Inv (start : Int) (rid : Bytes) (s : St) : Prop where
  base : s.sourceOffset = start
  rid : s.runid = rid
  len : s.pipe.length = s.received

theorem inv_step {K : Consts} {start : Int} {rid : Bytes} {s : St} (h : Inv start rid s) (e : Ev) :
    Inv start rid (step K s e) :=
  ⟨by rw [step_sourceOffset, h.base], by rw [step_runid, h.rid], step_len K s e h.len⟩

theorem inv_run {K : Consts} {start : Int} {rid : Bytes} {s : St} (h : Inv start rid s) (hs : List Ev) :
    Inv start rid (run K s hs) := by
  induction hs generalizing s with
  | nil => exact h
  | cons e t ih => exact ih (inv_step h e)

theorem psyncArg_ok {K : Consts} (hK : K.ok) {x : Int} (hx : 0 ≤ x) : psyncArg K x = x + 1 := by
  obtain ⟨h1, h2, _, _⟩ := hK
  unfold psyncArg
  rw [h1, h2]
  have : (x != -1) = true := by simp; omega
  simp [this]

structure InvS (start : Int) (s : St) : Prop where
  pipe : s.pipe = offsFrom (start + 1) s.received
  next : s.up = true → s.streaming = true → s.srcNext = start + s.received + 1

theorem invS_step {K : Consts} (hK : K.ok) {start : Int} (h0 : 0 ≤ start) {rid : Bytes} {s : St}
    (hb : Inv start rid s) (h : InvS start s) (e : Ev) : InvS start (step K s e) := by
  have hp := h.pipe
  have hn := h.next
  have hbase := hb.base
  cases e with
  | recv k =>
    simp only [step]
    split
    · exact h
    · rename_i hc
      simp only [Bool.or_eq_true, Bool.not_eq_true', not_or, Bool.not_eq_false] at hc
      have hnx := hn hc.1.2 hc.2
      constructor
      · simp only [hp, hnx, offsFrom_add]
        congr 2
        omega
      · intro _ _
        simp only [hnx]
        omega
  | tick => exact ⟨by simpa [step] using hp, by simpa [step] using hn⟩
  | staleTick c => exact ⟨by simpa [step] using hp, by simpa [step] using hn⟩
  | waitFullClosed => exact ⟨by simpa [step] using hp, by simpa [step] using hn⟩
  | connDrop =>
    simp only [step]
    split
    · exact h
    · exact ⟨by simpa using hp, by simp⟩
  | reopenFail => exact h
  | quietHour =>
    simp only [step]
    split
    · exact h
    · exact ⟨by simpa using hp, by simpa using hn⟩
  | reconnect r =>
    simp only [step]
    split
    · exact h
    · constructor
      · simpa using hp
      · intro _ hstr
        simp only [beq_iff_eq] at hstr
        simp only [hstr, beq_self_eq_true, if_true, hbase]
        exact psyncArg_ok hK (by omega)

theorem invS_run {K : Consts} (hK : K.ok) {start : Int} (h0 : 0 ≤ start) {rid : Bytes} {s : St}
    (hb : Inv start rid s) (h : InvS start s) (hs : List Ev) : InvS start (run K s hs) := by
  induction hs generalizing s with
  | nil => exact h
  | cons e t ih => exact ih (inv_step hb e) (invS_step hK h0 hb h e)

structure InvA (start : Int) (s : St) : Prop where
  le : ∀ n ∈ acks s, n ≤ start + s.received
  wait : s.waitFull = false → ∀ n ∈ acks s, n = 0
  sorted : (acks s).Pairwise (· ≤ ·)

theorem invA_step {K : Consts} (hK : K.ok) {start : Int} (h0 : 0 ≤ start) {rid : Bytes} {s : St}
    (hb : Inv start rid s) (h : InvA start s) (e : Ev) : InvA start (step K s e) := by
  have hge := step_received_ge K s e
  have hav : ackValue K s ≤ start + s.received ∧ (s.waitFull = false → ackValue K s = 0) ∧
      ∀ n ∈ acks s, n ≤ ackValue K s := by
    unfold ackValue
    rw [hK.2.2.2, hb.base]
    cases hw : s.waitFull
    · simp
      refine ⟨by omega, ?_⟩
      intro n hn
      have := h.wait hw n hn
      omega
    · simp
      exact h.le
  have hacks := acks_step K s e
  rcases acksOf_emitted K s e with he | he
  · rw [he, List.append_nil] at hacks
    refine ⟨?_, ?_, ?_⟩
    · intro n hn
      rw [hacks] at hn
      have := h.le n hn
      omega
    · intro hw n hn
      rw [hacks] at hn
      exact h.wait (step_waitFull K s e hw) n hn
    · rw [hacks]
      exact h.sorted
  · rw [he] at hacks
    refine ⟨?_, ?_, ?_⟩
    · intro n hn
      rw [hacks, List.mem_append, List.mem_singleton] at hn
      rcases hn with hn | hn
      · have := h.le n hn
        omega
      · omega
    · intro hw n hn
      have hw' := step_waitFull K s e hw
      rw [hacks, List.mem_append, List.mem_singleton] at hn
      rcases hn with hn | hn
      · exact h.wait hw' n hn
      · rw [hn]
        exact hav.2.1 hw'
    · rw [hacks, List.pairwise_append]
      refine ⟨h.sorted, List.pairwise_singleton _ _, ?_⟩
      intro a ha b hb'
      rw [List.mem_singleton] at hb'
      rw [hb']
      exact hav.2.2 a ha

theorem invA_run {K : Consts} (hK : K.ok) {start : Int} (h0 : 0 ≤ start) {rid : Bytes} {s : St}
    (hb : Inv start rid s) (h : InvA start s) (hs : List Ev) : InvA start (run K s hs) := by
  induction hs generalizing s with
  | nil => exact h
  | cons e t ih => exact ih (inv_step hb e) (invA_step hK h0 hb h e)

theorem offsFrom_eq_map (a : Int) (n : Nat) : offsFrom a n = (List.range n).map fun (i : Nat) => a + (i : Int) := by
  induction n generalizing a with
  | zero => rfl
  | succ n ih =>
    rw [offsFrom, ih, List.range_succ_eq_map]
    simp only [List.map_cons, List.map_map]
    congr 1
    · simp
    · apply List.map_congr_left
      intro i _
      simp only [Function.comp]
      omega

theorem getElem?_offsFrom (a : Int) (n i : Nat) (h : i < n) : (offsFrom a n)[i]? = some (a + i) := by
  rw [offsFrom_eq_map]
  simp [h]


end RSVerif.Offsets
