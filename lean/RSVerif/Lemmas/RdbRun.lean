import RSVerif.Lemmas.RdbFuel
/-
Reader lemmas for C01, part 7: NextBinEntry on every item kind, the continuation chunks of a hash,
and the induction over a whole well-formed item list.
-/
set_option linter.unusedSimpArgs false
namespace RSVerif.Lemmas.Rdb
open RSVerif RSVerif.Rdb RSVerif.Spec.Rdb

def acc0 : Entry := { db := 0, key := [], type := 0, value := [] }

theorem nextBinEntry_def (pf : Bytes → Bool) (fr : Bool) (L : Nat) (st : LState) (inp : Bytes) :
    nextBinEntry pf fr L st inp = nextLoop pf fr L (inp.length + 1) st acc0 inp := rfl

/-- if the loop succeeds with `f` turns of fuel and `f ≤ |inp| + 1`, NextBinEntry gives that result -/
theorem nextBinEntry_of_nextLoop (pf : Bytes → Bool) (L : Nat) (st : LState) (inp : Bytes) (f : Nat) x
    (hf : f ≤ inp.length + 1) (h : nextLoop pf true L f st acc0 inp = .ok x) :
    nextBinEntry pf true L st inp = .ok x :=
  nextLoop_mono_le pf true L f _ hf st acc0 inp x h

def isMeta : Item → Prop
  | .aux _ _ => True | .resizeDb _ _ => True | .selectDb _ => True | .moduleAux _ _ => True | _ => False

def dbAfter (db : Nat) : Item → Nat
  | .selectDb n => n.val
  | _ => db

theorem serItem_length_pos_meta (it : Item) (h : isMeta it) : 1 ≤ (serItem it).length := by
  cases it <;> simp [isMeta, serItem] at h ⊢

theorem nextLoop_meta (pf : Bytes → Bool) (L f : Nat) (st : LState) (acc : Entry) (it : Item) (X : Bytes)
    (hm : isMeta it) (hok : itemOk pf it) (hr : st.cs.remain = 0) :
    nextLoop pf true L (f + 1) st acc (serItem it ++ X) =
      nextLoop pf true L f { st with db := dbAfter st.db it } acc X := by
  cases it with
  | aux k v => simpa [dbAfter] using nextLoop_aux pf L f st acc k v X hok hr
  | resizeDb a b => simpa [dbAfter] using nextLoop_resizeDb pf L f st acc a b X hok hr
  | selectDb n => simpa [dbAfter] using nextLoop_selectDb pf L f st acc n X hok hr
  | moduleAux id ops => simpa [dbAfter] using nextLoop_moduleAux pf L f st acc id ops X hok hr
  | lua k s => simp [isMeta] at hm
  | key => simp [isMeta] at hm

/-- a metadata item in front does not change what NextBinEntry returns (apart from the selected db) -/
theorem nextBinEntry_meta (pf : Bytes → Bool) (L : Nat) (st : LState) (it : Item) (X : Bytes) x
    (hm : isMeta it) (hok : itemOk pf it) (hr : st.cs.remain = 0)
    (h : nextBinEntry pf true L { st with db := dbAfter st.db it } X = .ok x) :
    nextBinEntry pf true L st (serItem it ++ X) = .ok x := by
  rw [nextBinEntry_def] at h ⊢
  have hl := serItem_length_pos_meta it hm
  have e : (serItem it ++ X).length + 1 = ((serItem it).length + X.length) + 1 := by simp
  rw [e, nextLoop_meta pf L _ st acc0 it X hm hok hr]
  exact nextLoop_mono_le pf true L _ _ (by omega) _ acc0 X x h

theorem nextBinEntry_eof (pf : Bytes → Bool) (L : Nat) (st : LState) (r : Bytes) (hr : st.cs.remain = 0) :
    nextBinEntry pf true L st (0xFF :: r) = .ok (none, st, r) := by
  rw [nextBinEntry_def]
  exact nextLoop_eof pf L _ st acc0 r hr

theorem nextBinEntry_lua (pf : Bytes → Bool) (L : Nat) (st : LState) (k s : RStr) (X : Bytes)
    (hok : itemOk pf (.lua k s)) (hr : st.cs.remain = 0) :
    nextBinEntry pf true L st (serItem (.lua k s) ++ X) =
      .ok (some { db := st.db, key := luaText, type := 0xFA, value := logical s }, st, X) := by
  rw [nextBinEntry_def]
  have := nextLoop_lua pf L ((serItem (.lua k s) ++ X).length) st acc0 k s X hok hr
  simpa [acc0] using this

def expTurns : Expiry → Nat | .none => 0 | _ => 1
def optTurns {α : Type} : Option α → Nat | none => 0 | some _ => 1

def idlePart : Option ELen → Bytes | some i => 0xF8 :: encLen i | none => []
def freqPart : Option UInt8 → Bytes | some f => [0xF9, f] | none => []

theorem serItem_key (exp : Expiry) (idle : Option ELen) (freq : Option UInt8) (name : RStr) (v : Value) :
    serItem (.key exp idle freq name v) =
      serExpiry exp ++ (idlePart idle ++ (freqPart freq ++ (v.type :: (serStr name ++ serValue v)))) := by
  cases idle <;> cases freq <;> simp [serItem, idlePart, freqPart]

theorem nextLoop_expPart (pf : Bytes → Bool) (L f : Nat) (st : LState) (acc : Entry) (exp : Expiry) (Y : Bytes)
    (h : match exp with | .none => True | .sec b => b.length = 4 | .ms b => b.length = 8)
    (hacc : acc.expireAt = 0) (hr : st.cs.remain = 0) :
    nextLoop pf true L (f + expTurns exp) st acc (serExpiry exp ++ Y) =
      nextLoop pf true L f st { acc with expireAt := expiryMs exp } Y := by
  cases exp with
  | none =>
    have : ({ acc with expireAt := 0 } : Entry) = acc := by cases acc; simp_all
    simp [expTurns, serExpiry, expiryMs, this]
  | sec b => simpa [expTurns, serExpiry, expiryMs] using nextLoop_expirySec pf L f st acc b Y h hr
  | ms b => simpa [expTurns, serExpiry, expiryMs] using nextLoop_expiryMs pf L f st acc b Y h hr

theorem nextLoop_idlePart (pf : Bytes → Bool) (L f : Nat) (st : LState) (acc : Entry) (idle : Option ELen) (Y : Bytes)
    (h : match idle with | none => True | some i => i.form ≠ .b64 ∧ i.fits)
    (hacc : acc.idle = 0) (hr : st.cs.remain = 0) :
    nextLoop pf true L (f + optTurns idle) st acc (idlePart idle ++ Y) =
      nextLoop pf true L f st { acc with idle := (idle.map (·.val)).getD 0 } Y := by
  cases idle with
  | none =>
    have : ({ acc with idle := 0 } : Entry) = acc := by cases acc; simp_all
    simp [optTurns, idlePart, this]
  | some i => simpa [optTurns, idlePart] using nextLoop_idle pf L f st acc i Y h hr

theorem nextLoop_freqPart (pf : Bytes → Bool) (L f : Nat) (st : LState) (acc : Entry) (freq : Option UInt8) (Y : Bytes)
    (hacc : acc.freq = 0) (hr : st.cs.remain = 0) :
    nextLoop pf true L (f + optTurns freq) st acc (freqPart freq ++ Y) =
      nextLoop pf true L f st { acc with freq := (freq.map (·.toNat)).getD 0 } Y := by
  cases freq with
  | none =>
    have : ({ acc with freq := 0 } : Entry) = acc := by cases acc; simp_all
    simp [optTurns, freqPart, this]
  | some q => simpa [optTurns, freqPart] using nextLoop_freq pf L f st acc q Y hr

/-- the accumulated local `entry` after the prefix opcodes of a key -/
def accOf (exp : Expiry) (idle : Option ELen) (freq : Option UInt8) : Entry :=
  { db := 0, key := [], type := 0, value := [], expireAt := expiryMs exp,
    idle := (idle.map (·.val)).getD 0, freq := (freq.map (·.toNat)).getD 0 }

theorem partLens (exp : Expiry) (idle : Option ELen) (freq : Option UInt8) :
    expTurns exp ≤ (serExpiry exp).length ∧ optTurns idle ≤ (idlePart idle).length ∧
    optTurns freq ≤ (freqPart freq).length := by
  refine ⟨?_, ?_, ?_⟩
  · cases exp <;> simp [expTurns, serExpiry]
  · cases idle <;> simp [optTurns, idlePart]
  · cases freq <;> simp [optTurns, freqPart]

/-- NextBinEntry on a key item = the key branch run with the accumulated expiry/idle/freq -/
theorem nextBinEntry_key (pf : Bytes → Bool) (L : Nat) (st : LState) (exp : Expiry) (idle : Option ELen)
    (freq : Option UInt8) (name : RStr) (v : Value) (X : Bytes) x
    (hok : itemOk pf (.key exp idle freq name v)) (hr : st.cs.remain = 0)
    (h : keyBranch pf L st (accOf exp idle freq) v.type (serStr name ++ serValue v ++ X) = .ok x) :
    nextBinEntry pf true L st (serItem (.key exp idle freq name v) ++ X) = .ok x := by
  obtain ⟨he, hi, hn, hv⟩ := hok
  obtain ⟨l1, l2, l3⟩ := partLens exp idle freq
  apply nextBinEntry_of_nextLoop pf L st _ (((0 + 1) + optTurns freq) + optTurns idle + expTurns exp)
  · rw [serItem_key]; simp only [List.length_append, List.length_cons]; omega
  · rw [serItem_key]
    simp only [List.append_assoc]
    rw [nextLoop_expPart pf L _ st acc0 exp _ he rfl hr,
      nextLoop_idlePart pf L _ st _ idle _ hi rfl hr,
      nextLoop_freqPart pf L _ st _ freq _ rfl hr,
      List.cons_append, nextLoop_keyFirst pf L 0 st _ v.type _ (valueOk_type pf v hv) hr]
    simpa [acc0, accOf, List.append_assoc] using h

/-- what `Footer` answers once the EOF opcode has been met with `r` left -/
def footerOf (all r : Bytes) : Except Err Bytes :=
  match readN 8 r with
  | .error (e, _) => .error e
  | .ok (tr, r2) => if Dump.footerOk (all.take (all.length - r.length)) tr then .ok r2 else .error .checksum

theorem runLoop_eof (pf : Bytes → Bool) (L : Nat) (all : Bytes) (fuel : Nat) (st : LState) (r : Bytes)
    (acc : List Entry) (hr : st.cs.remain = 0) :
    runLoop pf true L all (fuel + 1) st (0xFF :: r) acc = (acc.reverse, footerOf all r) := by
  simp only [runLoop, nextBinEntry_eof pf L st r hr, footerOf]
  cases readN 8 r with
  | error e => rfl
  | ok p => obtain ⟨tr, r2⟩ := p; simp only []; split <;> rfl

theorem takeChunk_snd_length_lt (L b : Nat) (p : Pair) (ps : List Pair) :
    (takeChunk L b (p :: ps)).2.length < (p :: ps).length := by
  have h1 := takeChunk_append L b (p :: ps)
  have h2 := takeChunk_fst_ne_nil L b p ps
  have : (takeChunk L b (p :: ps)).1.length + (takeChunk L b (p :: ps)).2.length = (p :: ps).length := by
    rw [← List.length_append, h1]
  have : 0 < (takeChunk L b (p :: ps)).1.length := List.length_pos_iff.mpr h2
  omega

theorem takeChunk_snd_ok (L b : Nat) (ps : List Pair) (hp : ∀ p ∈ ps, strOk p.1 ∧ strOk p.2) :
    ∀ p ∈ (takeChunk L b ps).2, strOk p.1 ∧ strOk p.2 := by
  intro p hpm
  apply hp
  rw [← takeChunk_append L b ps]
  exact List.mem_append_right _ hpm

/-- the continuation chunks of a hash, then whatever follows (`hX`) -/
theorem runLoop_cont (pf : Bytes → Bool) (L : Nat) (all X : Bytes) (E : List Entry) (F : Except Err Bytes)
    (d n0 : Nat)
    (hX : ∀ (st' : LState) (fuel' : Nat) (acc' : List Entry), st'.cs.remain = 0 → st'.db = d → n0 ≤ fuel' →
      runLoop pf true L all fuel' st' X acc' = (acc'.reverse ++ E, F)) :
    ∀ (f : Nat) (ps : List Pair) (st : LState) (k : Bytes) (fuel : Nat) (acc : List Entry),
      ps.length ≤ f → (∀ p ∈ ps, strOk p.1 ∧ strOk p.2) → st.last = some (k, 4) → st.cs.remain = ps.length →
      ps.length < st.cs.tot → st.db = d → (contRecords Dump.createValueDump L d k f ps).length + n0 ≤ fuel →
      runLoop pf true L all fuel st (serPairs ps ++ X) acc =
        (acc.reverse ++ contRecords Dump.createValueDump L d k f ps ++ E, F) := by
  intro f
  induction f with
  | zero =>
    intro ps st k fuel acc hlen hp hl hr htot hd hfuel
    have : ps = [] := by cases ps <;> simp_all
    subst this
    simp only [serPairs, List.map_nil, List.flatten_nil, List.nil_append, contRecords, List.append_nil]
    exact hX st fuel acc (by simpa using hr) hd (by omega)
  | succ f ih =>
    intro ps st k fuel acc hlen hp hl hr htot hd hfuel
    cases ps with
    | nil =>
      simp only [serPairs, List.map_nil, List.flatten_nil, List.nil_append, contRecords, List.append_nil]
      exact hX st fuel acc (by simpa using hr) hd (by omega)
    | cons p ps' =>
      simp only [contRecords, List.length_cons] at hfuel
      obtain ⟨fuel', rfl⟩ : ∃ g, fuel = g + 1 := ⟨fuel - 1, by omega⟩
      have hne : (p :: ps') ≠ [] := by simp
      have hr0 : st.cs.remain ≠ 0 := by rw [hr]; simp
      have hnb := keyBranch_hash_cont pf L st acc0 k (p :: ps') X hp hl hr hne htot
      rw [← nextLoop_keyCont pf L (serPairs (p :: ps') ++ X).length st acc0 k _ hl hr0, ← nextBinEntry_def] at hnb
      simp only [runLoop, hnb]
      have hlt := takeChunk_snd_length_lt L 0 p ps'
      rw [List.append_assoc]
      rw [ih (takeChunk L 0 (p :: ps')).2
        { db := st.db, last := some (k, 4),
          cs := { remain := (takeChunk L 0 (p :: ps')).2.length, lastRead := (takeChunk L 0 (p :: ps')).1.length,
                  tot := st.cs.tot } } k fuel' _ (by simp at hlen hlt ⊢; omega)
        (takeChunk_snd_ok L 0 _ hp) rfl rfl (by simp only []; omega) hd (by omega)]
      simp [contRecords, acc0, hd]

theorem ser_cons (it : Item) (is : List Item) : ser (it :: is) = serItem it ++ ser is := by simp [ser]

theorem keyBranch_ok (pf : Bytes → Bool) (L : Nat) (st : LState) (acc : Entry) (name : RStr) (v : Value) (X : Bytes)
    (hn : strOk name) (hv : valueOk pf v) (hr : st.cs.remain = 0) :
    ∃ x, keyBranch pf L st acc v.type (serStr name ++ serValue v ++ X) = .ok x := by
  by_cases h4 : v.type = 4
  · cases v with
    | hash n fvs => exact ⟨_, keyBranch_hash_first pf L st acc name n fvs X hn hv hr⟩
    | str t s => simp only [Value.type] at h4; subst h4; rcases hv.1 with h | h | h | h | h | h <;> simp at h
    | seq t n xs => simp only [Value.type] at h4; subst h4; rcases hv.1 with h | h | h <;> simp at h
    | zset => simp [Value.type] at h4
    | zset2 => simp [Value.type] at h4
    | stream => simp [Value.type] at h4
  · exact ⟨_, keyBranch_plain pf L st acc name v X hn hv h4 hr⟩

/-- NextBinEntry never fails on a well-formed remainder -/
theorem nextBinEntry_ok (pf : Bytes → Bool) (L : Nat) (r : Bytes) (items : List Item) (hok : itemsOk pf items) :
    ∀ (st : LState), st.cs.remain = 0 → ∃ x, nextBinEntry pf true L st (ser items ++ 0xFF :: r) = .ok x := by
  induction items with
  | nil => intro st hr; exact ⟨_, by simpa [ser] using nextBinEntry_eof pf L st r hr⟩
  | cons it is ih =>
    intro st hr
    have hit := hok it (by simp)
    have his : itemsOk pf is := fun x hx => hok x (by simp [hx])
    rw [ser_cons, List.append_assoc]
    cases it with
    | aux k v =>
      obtain ⟨x, hx⟩ := ih his { st with db := dbAfter st.db (.aux k v) } hr
      exact ⟨x, nextBinEntry_meta pf L st _ _ x trivial hit hr hx⟩
    | resizeDb a b =>
      obtain ⟨x, hx⟩ := ih his { st with db := dbAfter st.db (.resizeDb a b) } hr
      exact ⟨x, nextBinEntry_meta pf L st _ _ x trivial hit hr hx⟩
    | selectDb n =>
      obtain ⟨x, hx⟩ := ih his { st with db := dbAfter st.db (.selectDb n) } hr
      exact ⟨x, nextBinEntry_meta pf L st _ _ x trivial hit hr hx⟩
    | moduleAux id ops =>
      obtain ⟨x, hx⟩ := ih his { st with db := dbAfter st.db (.moduleAux id ops) } hr
      exact ⟨x, nextBinEntry_meta pf L st _ _ x trivial hit hr hx⟩
    | lua k s => exact ⟨_, nextBinEntry_lua pf L st k s _ hit hr⟩
    | key exp idle freq name v =>
      obtain ⟨x, hx⟩ := keyBranch_ok pf L st (accOf exp idle freq) name v (ser is ++ 0xFF :: r) hit.2.2.1 hit.2.2.2 hr
      exact ⟨x, nextBinEntry_key pf L st exp idle freq name v _ x hit hr hx⟩

theorem runLoop_meta (pf : Bytes → Bool) (L : Nat) (all : Bytes) (fuel : Nat) (st : LState) (it : Item) (X : Bytes)
    (acc : List Entry) (hm : isMeta it) (hok : itemOk pf it) (hr : st.cs.remain = 0)
    (hX : ∃ x, nextBinEntry pf true L { st with db := dbAfter st.db it } X = .ok x) :
    runLoop pf true L all fuel st (serItem it ++ X) acc =
      runLoop pf true L all fuel { st with db := dbAfter st.db it } X acc := by
  obtain ⟨x, hx⟩ := hX
  cases fuel with
  | zero => rfl
  | succ g => simp only [runLoop, hx, nextBinEntry_meta pf L st it X x hm hok hr hx]

theorem contRecords_length_le (dump : UInt8 → Bytes → Bytes) (L db : Nat) (key : Bytes) (f : Nat) (ps : List Pair) :
    (contRecords dump L db key f ps).length ≤ f := by
  induction f generalizing ps with
  | zero => simp [contRecords]
  | succ f ih =>
    cases ps with
    | nil => simp [contRecords]
    | cons p ps => simp only [contRecords, List.length_cons]; have := ih (takeChunk L 0 (p :: ps)).2; omega

def plainRec (db : Nat) (exp : Expiry) (idle : Option ELen) (freq : Option UInt8) (name : RStr) (v : Value) : Entry :=
  { accOf exp idle freq with
    db := db, key := logical name, type := v.type,
    value := Dump.createValueDump v.type (serValue v), realMemberCount := 0, needReadLen := 1 }

/-- the records delivered for a well-formed item list are exactly the expected ones, then the footer -/
theorem runLoop_items (pf : Bytes → Bool) (L : Nat) (all r : Bytes) (items : List Item) (hok : itemsOk pf items) :
    ∀ (st : LState) (fuel : Nat) (acc : List Entry), st.cs.remain = 0 →
      (expected Dump.createValueDump L st.db items).length + 1 ≤ fuel →
      runLoop pf true L all fuel st (ser items ++ 0xFF :: r) acc =
        (acc.reverse ++ expected Dump.createValueDump L st.db items, footerOf all r) := by
  induction items with
  | nil =>
    intro st fuel acc hr hf
    obtain ⟨g, rfl⟩ : ∃ g, fuel = g + 1 := ⟨fuel - 1, by omega⟩
    simpa [ser, expected] using runLoop_eof pf L all g st r acc hr
  | cons it is ih =>
    intro st fuel acc hr hf
    have hit := hok it (by simp)
    have his : itemsOk pf is := fun x hx => hok x (by simp [hx])
    have ih' := ih his
    rw [ser_cons, List.append_assoc]
    have metaCase : ∀ (hm : isMeta it) (he : expected Dump.createValueDump L st.db (it :: is) =
        expected Dump.createValueDump L (dbAfter st.db it) is),
        runLoop pf true L all fuel st (serItem it ++ (ser is ++ 0xFF :: r)) acc =
          (acc.reverse ++ expected Dump.createValueDump L st.db (it :: is), footerOf all r) := by
      intro hm he
      rw [runLoop_meta pf L all fuel st it _ acc hm hit hr
        (nextBinEntry_ok pf L r is his { st with db := dbAfter st.db it } hr)]
      rw [he] at hf ⊢
      exact ih' { st with db := dbAfter st.db it } fuel acc hr hf
    cases it with
    | aux k v => exact metaCase trivial (by simp [expected, dbAfter])
    | resizeDb a b => exact metaCase trivial (by simp [expected, dbAfter])
    | selectDb n => exact metaCase trivial (by simp [expected, dbAfter])
    | moduleAux id ops => exact metaCase trivial (by simp [expected, dbAfter])
    | lua k s =>
      obtain ⟨g, rfl⟩ : ∃ g, fuel = g + 1 := ⟨fuel - 1, by omega⟩
      simp only [runLoop, nextBinEntry_lua pf L st k s _ hit hr]
      rw [ih' st g _ hr (by simp [expected] at hf; omega)]
      simp [expected]
    | key exp idle freq name v =>
      obtain ⟨g, rfl⟩ : ∃ g, fuel = g + 1 := ⟨fuel - 1, by omega⟩
      obtain ⟨he, hi, hn, hv⟩ := hit
      by_cases h4 : v.type = 4
      · cases v with
        | hash n fvs =>
          have hkb := keyBranch_hash_first pf L st (accOf exp idle freq) name n fvs (ser is ++ 0xFF :: r) hn hv hr
          have hnb := nextBinEntry_key pf L st exp idle freq name (.hash n fvs) _ _ ⟨he, hi, hn, hv⟩ hr hkb
          simp only [runLoop, hnb]
          have hsub := takeChunk_snd_ok L (encLen ⟨fvs.length, n⟩).length fvs hv.2
          have happ := takeChunk_append L (encLen ⟨fvs.length, n⟩).length fvs
          have hfst : fvs ≠ [] → (takeChunk L (encLen ⟨fvs.length, n⟩).length fvs).1 ≠ [] := by
            intro hne
            cases fvs with
            | nil => exact absurd rfl hne
            | cons p ps => exact takeChunk_fst_ne_nil L _ p ps
          simp only [expected, keyRecords, List.length_append, List.length_cons] at hf ⊢
          generalize takeChunk L (encLen ⟨fvs.length, n⟩).length fvs = cr at *
          obtain ⟨c, rr⟩ := cr
          simp only at hsub happ hfst hf ⊢
          have hlen : c.length + rr.length = fvs.length := by rw [← List.length_append, happ]
          have hcl := contRecords_length_le Dump.createValueDump L st.db (logical name) rr.length rr
          by_cases hre : rr = []
          · -- single chunk
            subst hre
            simp only [serPairs, List.map_nil, List.flatten_nil, List.nil_append, List.length_nil] at hf ⊢
            rw [ih' { db := st.db, last := some (logical name, 4), cs := { remain := 0, lastRead := c.length, tot := fvs.length } }
              g _ rfl (by simp [contRecords] at hf ⊢; omega)]
            simp [contRecords, accOf, Value.type]
          · have hfv : fvs ≠ [] := by
              intro h; subst h; simp at hlen; exact hre hlen.2
            have hc0 : 0 < c.length := List.length_pos_iff.mpr (hfst hfv)
            rw [runLoop_cont pf L all (ser is ++ 0xFF :: r) (expected Dump.createValueDump L st.db is) (footerOf all r)
              st.db ((expected Dump.createValueDump L st.db is).length + 1)
              (fun st' fuel' acc' h1 h2 h3 => by rw [← h2]; exact ih' st' fuel' acc' h1 (by rw [h2]; exact h3))
              rr.length rr
              { db := st.db, last := some (logical name, 4), cs := { remain := rr.length, lastRead := c.length, tot := fvs.length } }
              (logical name) g _ (Nat.le_refl _) hsub rfl rfl (by simp only []; omega) rfl (by omega)]
            simp [hre, accOf, Value.type]
        | str t s => simp only [Value.type] at h4; subst h4; rcases hv.1 with h | h | h | h | h | h <;> simp at h
        | seq t n xs => simp only [Value.type] at h4; subst h4; rcases hv.1 with h | h | h <;> simp at h
        | zset => simp [Value.type] at h4
        | zset2 => simp [Value.type] at h4
        | stream => simp [Value.type] at h4
      · have hkb := keyBranch_plain pf L st (accOf exp idle freq) name v (ser is ++ 0xFF :: r) hn hv h4 hr
        have hnb := nextBinEntry_key pf L st exp idle freq name v _ _ ⟨he, hi, hn, hv⟩ hr hkb
        simp only [runLoop, hnb]
        have hkr : keyRecords Dump.createValueDump L st.db exp idle freq name v =
            [plainRec st.db exp idle freq name v] := by
          cases v <;> simp [keyRecords, plainRec, accOf, Value.type] at h4 ⊢
        rw [ih' _ g _ (by simpa using hr) (by simp [expected, hkr] at hf ⊢; omega)]
        simp [expected, hkr, plainRec]

end RSVerif.Lemmas.Rdb
