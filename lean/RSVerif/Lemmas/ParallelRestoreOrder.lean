import RSVerif.Lemmas.ParallelRestoreTerm
namespace RSVerif.Lemmas.ParallelRestore
open RSVerif RSVerif.Spec.MiniRedisC07 RSVerif.Model.ParallelRestore

/-- concatenation of `f 0 … f (n-1)` -/
def concatW {α : Type} (n : Nat) (f : Nat → List α) : List α := (List.range n).flatMap f

theorem concatW_succ {α : Type} (n : Nat) (f : Nat → List α) : concatW (n + 1) f = concatW n f ++ f n := by
  simp [concatW, List.range_succ, List.flatMap_append]

theorem concatW_congr {α : Type} {n : Nat} {f g : Nat → List α} (h : ∀ i, i < n → f i = g i) : concatW n f = concatW n g := by
  induction n with
  | zero => rfl
  | succ n ih => rw [concatW_succ, concatW_succ, ih (fun i hi => h i (by omega)), h n (by omega)]

theorem concatW_nil {α : Type} {n : Nat} {f : Nat → List α} (h : ∀ i, i < n → f i = []) : concatW n f = [] := by
  induction n with
  | zero => rfl
  | succ n ih => rw [concatW_succ, ih (fun i hi => h i (by omega)), h n (by omega)]; rfl

theorem concatW_single {α : Type} {n w : Nat} {f : Nat → List α} (hw : w < n) (h : ∀ i, i < n → i ≠ w → f i = []) :
    concatW n f = f w := by
  induction n with
  | zero => omega
  | succ n ih =>
    rw [concatW_succ]
    by_cases hwn : w = n
    · subst hwn
      rw [concatW_nil (fun i hi => h i (by omega) (by omega))]; simp
    · rw [ih (by omega) (fun i hi hne => h i (by omega) hne), h n (by omega) (fun h' => hwn h'.symm)]; simp

/-- What one worker action does to the three lists the bookkeeping is about (`X` = commands of the entry taken). -/
theorem stepWorker_summary {cfg : Cfg} {entries : List Entry} {s : State} (hinv : Inv cfg entries s) (w : Nat) (fail : Bool) :
    let s' := stepWorker cfg s w fail
    -- nothing moves
    (s'.server.executed = s.server.executed ∧ pendingOf cfg (s'.workers w) = pendingOf cfg (s.workers w) ∧
      expected cfg s'.queue = expected cfg s.queue) ∨
    -- an entry is taken from the queue
    (s'.server.executed = s.server.executed ∧ pendingOf cfg (s.workers w) = [] ∧
      expected cfg s.queue = pendingOf cfg (s'.workers w) ++ expected cfg s'.queue) ∨
    -- the next command is sent and executed
    (∃ p rest, pendingOf cfg (s.workers w) = p :: rest ∧ pendingOf cfg (s'.workers w) = rest ∧
      s'.server.executed = s.server.executed ++ [p] ∧ expected cfg s'.queue = expected cfg s.queue) ∨
    -- the command was sent and answered with an error: the rest of the entry is abandoned
    ((∃ x ∈ s'.server.log, x.ok = false) ∧ ∃ p rest, pendingOf cfg (s.workers w) = p :: rest ∧
      pendingOf cfg (s'.workers w) = [] ∧ s'.server.executed = s.server.executed ++ [p] ∧
      expected cfg s'.queue = expected cfg s.queue) := by
  have hww := hinv.worker w
  unfold stepWorker
  simp only
  split
  · exact Or.inl ⟨rfl, rfl, rfl⟩
  · rename_i hph
    have hpend : pendingOf cfg (s.workers w) = [] := by simp [pendingOf, hph]
    split
    · left; simp [pendingOf, hph]
    · rename_i e q hqe
      split
      · rename_i hf
        left
        have hp : passes cfg e = false := by simp [passes, hf]
        simp [hqe, expected_cons, hp]
      · rename_i hf
        right; left
        have hp : passes cfg e = !keyFiltered cfg e := by simp [passes, hf]
        have hnew : pendingOf cfg (selectBookkeeping cfg e (s.workers w)) = if keyFiltered cfg e then [] else tagged cfg e := by
          rw [selectBookkeeping_eq]
          split
          · simp [pendingOf]
          · exact pendingOf_startRestore ..
        refine ⟨rfl, hpend, ?_⟩
        simp only [setWorker_workers, if_true, setWorker_queue, hnew, hqe, expected_cons, hp]
        cases keyFiltered cfg e <;> rfl
  · rename_i e hph
    left
    refine ⟨rfl, ?_, rfl⟩
    simp only [setWorker_workers, if_true]
    rw [pendingOf_startRestore]; simp [pendingOf, hph]
  · rename_i e hph
    left; simp [pendingOf, hph]
  · rename_i e c rest hph
    obtain ⟨h1, h2, -⟩ : s.server.sel w = (s.workers w).lastdb ∧ (s.workers w).lastdb = route cfg e.db ∧
        e ∈ entries ∧ passes cfg e = true ∧ ∃ pre, cfg.restoreCmds e = pre ++ c :: rest := by
      simpa [WorkerOk, hph] using hww
    split
    · right; right; right
      have hp : pendingOf cfg (s.workers w) = (route cfg e.db, c) :: rest.map fun c => (route cfg e.db, c) := by
        simp [pendingOf, hph]
      split <;>
        exact ⟨⟨{ conn := w, db := s.server.sel w, cmd := c, ok := false }, by simp, rfl⟩,
          (route cfg e.db, c), rest.map fun c => (route cfg e.db, c), hp, by simp [pendingOf],
          by simp [Server.executed, h1, h2], rfl⟩
    · right; right; left
      refine ⟨(route cfg e.db, c), rest.map fun c => (route cfg e.db, c), by simp [pendingOf, hph], ?_, ?_, rfl⟩
      · simp only [setWorker_workers, if_true]; exact pendingOf_phaseOfRest ..
      · simp [Server.executed, h1, h2]

/-- AT MOST ONCE, with no hypothesis on errors: executed (answered with an error or not) + held + queued never
    exceeds what the filtered entries call for -/
def CountLe (cfg : Cfg) (entries : List Entry) (s : State) : Prop :=
  ∀ p : Nat × DataCmd,
    List.count p s.server.executed + sumW s.n (fun w => List.count p (pendingOf cfg (s.workers w)))
      + List.count p (expected cfg s.queue) ≤ List.count p (expected cfg entries)

theorem countLe_init (cfg : Cfg) (n : Nat) (entries : List Entry) : CountLe cfg entries (init n entries) := by
  intro p
  have : sumW (init n entries).n (fun w => List.count p (pendingOf cfg ((init n entries).workers w))) = 0 :=
    sumW_zero (fun i _ => by simp [init, pendingOf])
  rw [this]
  simp [init, Server.executed]

theorem countLe_stepWorker {cfg : Cfg} {entries : List Entry} {s : State} (hinv : Inv cfg entries s)
    (h : CountLe cfg entries s) (w : Nat) (hw : w < s.n) (fail : Bool) : CountLe cfg entries (stepWorker cfg s w fail) := by
  obtain ⟨hn, -, hne, -, -, -, -⟩ := stepWorker_frame cfg s w fail
  have hsum := stepWorker_summary hinv w fail
  intro p
  have hs := sumW_update (n := s.n) (w := w) (f := fun i => List.count p (pendingOf cfg (s.workers i)))
    (g := fun i => List.count p (pendingOf cfg ((stepWorker cfg s w fail).workers i))) hw
    (fun i hi => by show List.count p (pendingOf cfg ((stepWorker cfg s w fail).workers i)) = _; rw [hne i hi])
  have hold := h p
  rw [hn]
  generalize stepWorker cfg s w fail = s' at *
  rcases hsum with ⟨e1, e2, e3⟩ | ⟨e1, e2, e3⟩ | ⟨q, rest, e1, e2, e3, e4⟩ | ⟨-, q, rest, e1, e2, e3, e4⟩
  · rw [e1, e3]; rw [e2] at hs; omega
  · rw [e1]; rw [e3, List.count_append] at hold; rw [e2] at hs; simp only [List.count_nil] at hs; omega
  · rw [e3, e4, List.count_append]; rw [e1, e2, List.count_cons] at hs; simp only [List.count_cons, List.count_nil]; omega
  · rw [e3, e4, List.count_append]; rw [e1, e2, List.count_cons] at hs; simp only [List.count_cons, List.count_nil] at hs ⊢; omega

theorem countLe_stepMain {cfg : Cfg} {entries : List Entry} {s : State} (h : CountLe cfg entries s) :
    CountLe cfg entries (stepMain s) := by
  unfold stepMain; split
  · exact h
  · exact h

/-- the pending commands of worker `i` that `φ` selects -/
def projP (cfg : Cfg) (φ : Nat × DataCmd → Bool) (s : State) (i : Nat) : List (Nat × DataCmd) :=
  (pendingOf cfg (s.workers i)).filter φ

/-- at most one worker holds unsent commands selected by `φ` -/
def Excl (cfg : Cfg) (φ : Nat × DataCmd → Bool) (s : State) : Prop :=
  ∀ w, w < s.n → projP cfg φ s w ≠ [] → ∀ i, i < s.n → i ≠ w → projP cfg φ s i = []

/-- ordered bookkeeping for the commands selected by `φ`: executed, then held, then queued = the sequential order -/
def OrdInv (cfg : Cfg) (entries : List Entry) (φ : Nat × DataCmd → Bool) (s : State) : Prop :=
  (∀ x ∈ s.server.log, x.ok = true) →
    s.server.executed.filter φ ++ concatW s.n (projP cfg φ s) ++ (expected cfg s.queue).filter φ
      = (expected cfg entries).filter φ

theorem ordInv_init (cfg : Cfg) (n : Nat) (entries : List Entry) (φ : Nat × DataCmd → Bool) :
    OrdInv cfg entries φ (init n entries) := by
  intro _
  have : concatW (init n entries).n (projP cfg φ (init n entries)) = [] :=
    concatW_nil (fun i _ => by simp [projP, init, pendingOf])
  rw [this]
  simp [init, Server.executed]

/-- replacing the pending list of worker `w` (all other workers unchanged) -/
theorem concatW_replace {cfg : Cfg} {φ : Nat × DataCmd → Bool} {s s' : State} {w : Nat} (hw : w < s.n)
    (hn : s'.n = s.n) (hne : ∀ i, i ≠ w → s'.workers i = s.workers i)
    (hex : Excl cfg φ s) (hex' : Excl cfg φ s') :
    (projP cfg φ s w = [] ∧ projP cfg φ s' w = [] ∧ concatW s'.n (projP cfg φ s') = concatW s.n (projP cfg φ s)) ∨
    (concatW s.n (projP cfg φ s) = projP cfg φ s w ∧ concatW s'.n (projP cfg φ s') = projP cfg φ s' w) := by
  have hoth : ∀ i, i ≠ w → projP cfg φ s' i = projP cfg φ s i := fun i hi => by simp [projP, hne i hi]
  by_cases h1 : projP cfg φ s w = []
  · by_cases h2 : projP cfg φ s' w = []
    · left
      refine ⟨h1, h2, ?_⟩
      rw [hn]
      apply concatW_congr
      intro i _
      by_cases hi : i = w
      · subst hi; rw [h1, h2]
      · exact hoth i hi
    · right
      have hz : ∀ i, i < s.n → i ≠ w → projP cfg φ s i = [] := fun i hi hiw => by
        rw [← hoth i hiw]; exact hex' w (by rw [hn]; exact hw) h2 i (by rw [hn]; exact hi) hiw
      constructor
      · rw [concatW_single hw hz]
      · rw [hn, concatW_single hw (fun i hi hiw => by rw [hoth i hiw]; exact hz i hi hiw)]
  · right
    have hz : ∀ i, i < s.n → i ≠ w → projP cfg φ s i = [] := fun i hi hiw => hex w hw h1 i hi hiw
    constructor
    · rw [concatW_single hw hz]
    · rw [hn, concatW_single hw (fun i hi hiw => by rw [hoth i hiw]; exact hz i hi hiw)]

theorem ordInv_stepWorker {cfg : Cfg} {entries : List Entry} {φ : Nat × DataCmd → Bool} {s : State}
    (hinv : Inv cfg entries s) (h : OrdInv cfg entries φ s) (w : Nat) (hw : w < s.n) (fail : Bool)
    (hex : Excl cfg φ s) (hex' : Excl cfg φ (stepWorker cfg s w fail)) :
    OrdInv cfg entries φ (stepWorker cfg s w fail) := by
  obtain ⟨hn, -, hne, -, -, -, -⟩ := stepWorker_frame cfg s w fail
  have hrep := concatW_replace (cfg := cfg) (φ := φ) hw hn hne hex hex'
  have hsum := stepWorker_summary hinv w fail
  intro hok
  have hok' : ∀ x ∈ s.server.log, x.ok = true := by
    intro x hx
    apply hok
    rcases stepWorker_log cfg s w fail with hl | ⟨y, hl, -⟩ <;> rw [hl] <;> simp [hx]
  have hold := h hok'
  generalize stepWorker cfg s w fail = s' at *
  simp only [projP] at hrep
  rcases hsum with ⟨e1, e2, e3⟩ | ⟨e1, e2, e3⟩ | ⟨p, rest, e1, e2, e3, e4⟩ | ⟨⟨x, hx, hxo⟩, -⟩
  · rw [e1, e3]
    rcases hrep with ⟨-, -, h3⟩ | ⟨h3, h4⟩
    · rw [h3]; exact hold
    · rw [h4, e2, ← h3]; exact hold
  · rw [e1]
    rw [e3, List.filter_append] at hold
    rcases hrep with ⟨-, h2, h3⟩ | ⟨h3, h4⟩
    · rw [h3]; rw [h2] at hold; simpa using hold
    · rw [h4]; rw [h3, e2] at hold; simpa using hold
  · rw [e3, e4, List.filter_append]
    rcases hrep with ⟨h1, h2, h3⟩ | ⟨h3, h4⟩
    · rw [h3]
      rw [e1] at h1
      have hc : φ p = false := by
        cases hφ : φ p with
        | false => rfl
        | true => simp [hφ] at h1
      simpa [List.filter_cons, hc] using hold
    · rw [h4, e2]; rw [h3, e1] at hold
      by_cases hc : φ p = true
      · simpa [List.filter_cons, hc] using hold
      · simpa [List.filter_cons, hc] using hold
  · rw [hok x hx] at hxo; exact absurd hxo (by decide)

theorem ordInv_stepMain {cfg : Cfg} {entries : List Entry} {φ : Nat × DataCmd → Bool} {s : State}
    (h : OrdInv cfg entries φ s) : OrdInv cfg entries φ (stepMain s) := by
  unfold stepMain; split
  · exact h
  · exact h

end RSVerif.Lemmas.ParallelRestore
