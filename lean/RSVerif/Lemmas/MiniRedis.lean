import RSVerif.Spec.MiniRedis
/-
Helper lemmas about MiniRedis: a MULTI … EXEC block behaves like its body executed in place, a
strict prefix of a block changes nothing but the queue.
-/
namespace RSVerif.Lemmas.MiniRedis
open RSVerif RSVerif.Sync RSVerif.Spec.MiniRedis

variable {D : Type} (ck : Bytes) (apply : Int → Cmd → D → D)

/-- neither MULTI nor EXEC -/
def notTx (c : Cmd) : Prop := classify ck c ≠ .multi ∧ classify ck c ≠ .exec

theorem classify_multi : classify ck ("multi", []) = .multi := by
  simp [classify]; decide
theorem classify_exec : classify ck ("exec", []) = .exec := by
  simp [classify]; decide

theorem replay_append (s : St D) (a b : List Cmd) :
    replay ck apply s (a ++ b) = replay ck apply (replay ck apply s a) b := by
  simp [replay, List.foldl_append]

theorem plain_append (s : St D) (a b : List Cmd) :
    plain ck apply s (a ++ b) = plain ck apply (plain ck apply s a) b := by
  simp [plain, List.foldl_append]

/-- queued commands stay queued -/
theorem replay_queued (s : St D) (q : List Cmd) (body : List Cmd) (hq : s.q = some q)
    (hb : ∀ c ∈ body, notTx ck c) :
    replay ck apply s body = { s with q := some (q ++ body) } := by
  induction body generalizing s q with
  | nil => cases s; simp_all [replay]
  | cons c cs ih =>
    have hc := hb c (by simp)
    have h1 : recv ck apply s c = { s with q := some (q ++ [c]) } := by
      unfold recv
      rw [hq]
      simp only
      rcases hc with ⟨h1, h2⟩
      split <;> simp_all
    simp only [replay, List.foldl_cons] at *
    rw [h1, ih _ (q ++ [c]) rfl (fun c hc => hb c (by simp [hc]))]
    simp

/-- outside a transaction, commands other than MULTI/EXEC execute immediately -/
theorem replay_plain (s : St D) (body : List Cmd) (hq : s.q = none) (hb : ∀ c ∈ body, notTx ck c) :
    replay ck apply s body = plain ck apply s body := by
  induction body generalizing s with
  | nil => rfl
  | cons c cs ih =>
    have hc := hb c (by simp)
    have h1 : recv ck apply s c = execNow ck apply s c := by
      unfold recv
      rw [hq]
      simp only
      rcases hc with ⟨h1, h2⟩
      split <;> simp_all
    have hq' : (execNow ck apply s c).q = none := by
      unfold execNow; split <;> simp [hq]
    simp only [replay, plain, List.foldl_cons] at *
    rw [h1]
    exact ih _ hq' (fun c hc => hb c (by simp [hc]))

theorem plain_q (s : St D) (body : List Cmd) : (plain ck apply s body).q = s.q := by
  induction body generalizing s with
  | nil => rfl
  | cons c cs ih =>
    simp only [plain, List.foldl_cons] at *
    rw [ih]
    unfold execNow; split <;> rfl

/-- a complete MULTI … EXEC block equals its body executed in place -/
theorem replay_block (s : St D) (body : List Cmd) (hq : s.q = none) (hb : ∀ c ∈ body, notTx ck c) :
    replay ck apply s (("multi", []) :: body ++ [("exec", [])]) = plain ck apply s body := by
  have h0 : recv ck apply s ("multi", []) = { s with q := some [] } := by
    unfold recv; rw [hq]; simp [classify_multi]
  rw [show (("multi", []) :: body ++ [("exec", [])] : List Cmd) = [("multi", [])] ++ (body ++ [("exec", [])]) by simp]
  rw [replay_append, replay_append]
  have : replay ck apply s [("multi", [])] = { s with q := some [] } := by
    simp [replay, h0]
  rw [this, replay_queued ck apply _ [] body rfl hb]
  simp only [replay, List.foldl_cons, List.foldl_nil, recv, classify_exec, List.nil_append, plain]
  cases s
  simp_all

/-- a strict prefix of a block only fills the queue -/
theorem replay_block_prefix (s : St D) (body : List Cmd) (hq : s.q = none) (hb : ∀ c ∈ body, notTx ck c)
    (n : Nat) (hn : n ≤ body.length) :
    drop (replay ck apply s ((("multi", []) :: body ++ [("exec", [])]).take (n + 1))) = s := by
  have h0 : recv ck apply s ("multi", []) = { s with q := some [] } := by
    unfold recv; rw [hq]; simp [classify_multi]
  have e : (("multi", []) :: body ++ [("exec", [])] : List Cmd).take (n + 1) = ("multi", []) :: body.take n := by
    simp [List.take_append_of_le_length hn]
  rw [e, show (("multi", []) :: body.take n : List Cmd) = [("multi", [])] ++ body.take n by simp, replay_append]
  have : replay ck apply s [("multi", [])] = { s with q := some [] } := by
    simp [replay, h0]
  rw [this, replay_queued ck apply _ [] (body.take n) rfl (fun c hc => hb c (List.mem_of_mem_take hc))]
  cases s
  simp_all [drop]

end RSVerif.Lemmas.MiniRedis
