import RSVerif.Model.DecodeMode
/-
Lemmas for property C17: base64 round trip, reading records back, and the invariants of the goroutine
pipeline of `CmdDecode.decode` (conservation of blocks, channel protocol shape, progress, termination measure).
Core Lean only. The property statements themselves are in `Properties/C17.lean`.
-/
set_option linter.unusedSectionVars false
set_option linter.unusedSimpArgs false

namespace RSVerif.DecodeMode
open RSVerif RSVerif.Spec.DecodeMode

/-! ## base64 -/

theorem b64val_char : ∀ i : Fin 64, b64val (b64char i.val) = some i.val := by decide
theorem b64char_ne_pad : ∀ i : Fin 64, b64char i.val ≠ 61 := by decide

theorem b64val_char' (n : Nat) (h : n < 64) : b64val (b64char n) = some n := b64val_char ⟨n, h⟩
theorem b64char_ne_pad' (n : Nat) (h : n < 64) : b64char n ≠ 61 := b64char_ne_pad ⟨n, h⟩

theorem b64_roundtrip (bs : Bytes) : b64dec (b64enc bs) = some bs := by
  induction bs using b64enc.induct with
  | case1 a b c rest ih =>
    have ha := a.toNat_lt; have hb := b.toNat_lt; have hc := c.toNat_lt
    have h0 : a.toNat / 4 < 64 := by omega
    have h1 : (a.toNat % 4) * 16 + b.toNat / 16 < 64 := by omega
    have h2 : (b.toNat % 16) * 4 + c.toNat / 64 < 64 := by omega
    have h3 : c.toNat % 64 < 64 := by omega
    simp only [b64enc, b64dec, b64val_char' _ h0, b64val_char' _ h1, b64val_char' _ h2, b64val_char' _ h3, ih,
      b64char_ne_pad' _ h3, and_false, if_false]
    have e1 : a.toNat / 4 * 4 + (a.toNat % 4 * 16 + b.toNat / 16) / 16 = a.toNat := by omega
    have e2 : (a.toNat % 4 * 16 + b.toNat / 16) % 16 * 16 + (b.toNat % 16 * 4 + c.toNat / 64) / 4 = b.toNat := by omega
    have e3 : (b.toNat % 16 * 4 + c.toNat / 64) % 4 * 64 + c.toNat % 64 = c.toNat := by omega
    rw [e1, e2, e3]; simp only [UInt8.ofNat_toNat]
  | case2 a b =>
    have ha := a.toNat_lt; have hb := b.toNat_lt
    have h0 : a.toNat / 4 < 64 := by omega
    have h1 : (a.toNat % 4) * 16 + b.toNat / 16 < 64 := by omega
    have h2 : (b.toNat % 16) * 4 < 64 := by omega
    simp only [b64enc, b64dec, b64val_char' _ h0, b64val_char' _ h1, b64val_char' _ h2,
      b64char_ne_pad' _ h2, and_self, if_true, if_false]
    have e1 : a.toNat / 4 * 4 + (a.toNat % 4 * 16 + b.toNat / 16) / 16 = a.toNat := by omega
    have e2 : (a.toNat % 4 * 16 + b.toNat / 16) % 16 * 16 + (b.toNat % 16 * 4) / 4 = b.toNat := by omega
    rw [e1, e2]; simp only [UInt8.ofNat_toNat]
  | case3 a =>
    have ha := a.toNat_lt
    have h0 : a.toNat / 4 < 64 := by omega
    have h1 : (a.toNat % 4) * 16 < 64 := by omega
    simp only [b64enc, b64dec, b64val_char' _ h0, b64val_char' _ h1, and_self, if_true]
    have e1 : a.toNat / 4 * 4 + (a.toNat % 4 * 16) / 16 = a.toNat := by omega
    rw [e1]; simp only [UInt8.ofNat_toNat]
  | case4 => simp [b64enc, b64dec]

/-! ## reading records back -/

theorem ty_ne : ascii "string" ≠ ascii "aux" ∧ ascii "list" ≠ ascii "aux" ∧ ascii "hash" ≠ ascii "aux"
   ∧ ascii "set" ≠ ascii "aux" ∧ ascii "zset" ≠ ascii "aux" := by decide

theorem parse_string (db exp : Nat) (key v : Bytes) :
    parseRecord (recString db exp key v) = some (.data db exp key (.str v)) := by
  have h1 : ascii "string" ≠ ascii "aux" := by decide
  simp [parseRecord, recString, head, getStr, getNum, getB64, List.lookup, b64_roundtrip, h1]

theorem parse_list (db exp : Nat) (key : Bytes) (i : Nat) (v : Bytes) :
    parseRecord (recList db exp key i v) = some (.data db exp key (.listElem i v)) := by
  have h1 : ascii "list" ≠ ascii "aux" := by decide
  have h2 : ascii "list" ≠ ascii "string" := by decide
  simp [parseRecord, recList, head, getStr, getNum, getB64, List.lookup, b64_roundtrip, h1, h2]

theorem parse_hash (db exp : Nat) (key f v : Bytes) :
    parseRecord (recHash db exp key f v) = some (.data db exp key (.hashField f v)) := by
  have h1 : ascii "hash" ≠ ascii "aux" := by decide
  have h2 : ascii "hash" ≠ ascii "string" := by decide
  have h3 : ascii "hash" ≠ ascii "list" := by decide
  simp [parseRecord, recHash, head, getStr, getNum, getB64, List.lookup, b64_roundtrip, h1, h2, h3]

theorem parse_set (db exp : Nat) (key m : Bytes) :
    parseRecord (recSet db exp key m) = some (.data db exp key (.setMember m)) := by
  have h1 : ascii "set" ≠ ascii "aux" := by decide
  have h2 : ascii "set" ≠ ascii "string" := by decide
  have h3 : ascii "set" ≠ ascii "list" := by decide
  have h4 : ascii "set" ≠ ascii "hash" := by decide
  simp [parseRecord, recSet, head, getStr, getNum, getB64, List.lookup, b64_roundtrip, h1, h2, h3, h4]

theorem parse_zset (db exp : Nat) (key m : Bytes) (sc : UInt64) :
    parseRecord (recZSet db exp key m sc) = some (.data db exp key (.zsetMember m sc)) := by
  have h1 : ascii "zset" ≠ ascii "aux" := by decide
  have h2 : ascii "zset" ≠ ascii "string" := by decide
  have h3 : ascii "zset" ≠ ascii "list" := by decide
  have h4 : ascii "zset" ≠ ascii "hash" := by decide
  have h5 : ascii "zset" ≠ ascii "set" := by decide
  simp [parseRecord, recZSet, head, getStr, getNum, getB64, getFloat, List.lookup, b64_roundtrip, h1, h2, h3, h4, h5]

theorem parse_aux (k v : Bytes) : parseRecord (recAux k v) = some (.script v) := by
  simp [parseRecord, recAux, getStr, List.lookup]

theorem marshalAll_ok {rs : List Record} (h : ∀ r, r ∈ rs → toJson r = some r) : marshalAll rs = some rs := by
  induction rs with
  | nil => rfl
  | cons r rs ih =>
    simp only [marshalAll, h r (by simp), ih (fun r hr => h r (by simp [hr]))]

theorem marshalAll_none {rs : List Record} {r : Record} (hm : r ∈ rs) (h : toJson r = none) : marshalAll rs = none := by
  induction rs with
  | nil => cases hm
  | cons x rs ih =>
    rcases List.mem_cons.mp hm with rfl | hm
    · simp [marshalAll, h]
    · simp only [marshalAll, ih hm]
      cases toJson x <;> rfl

theorem toJson_string (db exp key v) : toJson (recString db exp key v) = some (recString db exp key v) := by
  simp [toJson, recString, head]
theorem toJson_list (db exp key i v) : toJson (recList db exp key i v) = some (recList db exp key i v) := by
  simp [toJson, recList, head]
theorem toJson_hash (db exp key f v) : toJson (recHash db exp key f v) = some (recHash db exp key f v) := by
  simp [toJson, recHash, head]
theorem toJson_set (db exp key m) : toJson (recSet db exp key m) = some (recSet db exp key m) := by
  simp [toJson, recSet, head]
theorem toJson_aux (k v) : toJson (recAux k v) = some (recAux k v) := by
  simp [toJson, recAux]
theorem toJson_zset (db exp key m) (s : UInt64) :
    toJson (recZSet db exp key m s) = some (recZSet db exp key m s) := rfl

theorem toJsonPinned_zset (db exp key m) (s : UInt64) :
    toJsonPinned (recZSet db exp key m s) = if nonFinite s then none else some (recZSet db exp key m s) := by
  simp [toJsonPinned, recZSet, head]

theorem listLoop_mem {db exp key} {r : Record} : ∀ {i : Nat} {xs : List Bytes}, r ∈ listLoop db exp key i xs →
    ∃ j v, r = recList db exp key j v := by
  intro i xs
  induction xs generalizing i with
  | nil => intro h; cases h
  | cons v rest ih =>
    intro h
    simp only [listLoop, List.mem_cons] at h
    rcases h with rfl | h
    · exact ⟨i, v, rfl⟩
    · exact ih h

theorem listLoop_parse (db exp : Nat) (key : Bytes) (i : Nat) (xs : List Bytes) :
    (listLoop db exp key i xs).map parseRecord
      = (xs.zipIdx i).map fun (v, j) => some (SRecord.data db exp key (.listElem j v)) := by
  induction xs generalizing i with
  | nil => rfl
  | cons v rest ih => simp [listLoop, List.zipIdx_cons, parse_list, ih]

theorem fields_recover (it : Item) :
    ∃ rs, blockOf (entryOf it) = some rs ∧ rs.map parseRecord = (specRecords it).map some := by
  cases it with
  | lua s =>
    refine ⟨[recAux (ascii "lua") s], ?_, ?_⟩
    · simp [entryOf, blockOf, marshalAll, toJson_aux]
    · simp [specRecords, parse_aux]
  | key k =>
    obtain ⟨db, exp, key, v⟩ := k
    refine ⟨objRecords db exp key v, ?_, ?_⟩
    · simp only [entryOf, blockOf]
      apply marshalAll_ok
      intro r hr
      cases v with
      | str v => simp [objRecords] at hr; subst hr; exact toJson_string ..
      | list xs =>
        obtain ⟨j, v, rfl⟩ := listLoop_mem hr
        exact toJson_list ..
      | hash ps =>
        simp [objRecords] at hr
        obtain ⟨f, v, _, rfl⟩ := hr
        exact toJson_hash ..
      | set ms =>
        simp [objRecords] at hr
        obtain ⟨m, _, rfl⟩ := hr
        exact toJson_set ..
      | zset ms =>
        simp [objRecords] at hr
        obtain ⟨m, s, hm, rfl⟩ := hr
        exact toJson_zset ..
    · cases v with
      | str v => simp [objRecords, specRecords, elemsOf, parse_string]
      | list xs => simp [objRecords, specRecords, elemsOf, listLoop_parse]
      | hash ps => simp [objRecords, specRecords, elemsOf, parse_hash, Function.comp_def]
      | set ms => simp [objRecords, specRecords, elemsOf, parse_set, Function.comp_def]
      | zset ms => simp [objRecords, specRecords, elemsOf, parse_zset, Function.comp_def]

/-- the pinned marshaller refuses every sorted-set line with a non-finite score (D19, repaired) -/
theorem nonfinite_refused_pinned (db exp : Nat) (key m : Bytes) (s : UInt64) (hs : nonFinite s = true) :
    toJsonPinned (recZSet db exp key m s) = none := by
  rw [toJsonPinned_zset, hs]; rfl

end RSVerif.DecodeMode

/-! ## the pipeline -/

namespace RSVerif.DecodeMode.Pipe
variable {α β : Type}

theorem held_append (l r : List (W β)) : held (l ++ r) = held l ++ held r := by
  induction l with
  | nil => rfl
  | cons w l ih => cases w <;> simp [held, ih]

theorem held_replicate_idle (n : Nat) : held (List.replicate n (W.idle : W β)) = [] := by
  induction n with
  | zero => rfl
  | succ n ih => simp [List.replicate_succ, held, ih]

theorem wsWeight_append (l r : List (W β)) : wsWeight (l ++ r) = wsWeight l + wsWeight r := by
  induction l with
  | nil => simp [wsWeight]
  | cons w l ih => simp [wsWeight, ih]; omega

theorem measure_decreases {cfg : Cfg} {block : α → Option β} {s s' : St α β}
    (h : Step cfg block s s') : measure s' < measure s := by
  obtain ⟨_, mv⟩ := h
  cases mv <;> simp_all [measure, wsWeight_append, wsWeight, wWeight] <;> omega

variable [DecidableEq β]

def Conserved (block : α → Option β) (entries : List α) (s : St α β) : Prop :=
  s.aborted = false → ∀ b, List.count b s.out + List.count b s.opipe + List.count b (held s.ws)
      + List.count b ((s.ipipe ++ s.src).filterMap block) = List.count b (entries.filterMap block)

theorem conserved_init (block : α → Option β) (entries : List α) (n : Nat) :
    Conserved block entries (init entries n : St α β) := by
  intro _ b
  simp [init, held_replicate_idle]

theorem conserved_step {cfg : Cfg} {block : α → Option β} {entries : List α} {s s' : St α β}
    (hi : Conserved block entries s) (h : Step cfg block s s') : Conserved block entries s' := by
  obtain ⟨hna, mv⟩ := h
  intro hna' b
  have := hi hna b
  cases mv <;> simp_all [held_append, held, List.filterMap_append, List.count_append, List.count_cons] <;> omega


/-- structural invariant of the channel protocol -/
structure Shape (n : Nat) (s : St α β) : Prop where
  len : s.ws.length = n
  closedSrc : s.inClosed = true → s.src = []
  doneIn : W.done ∈ s.ws → s.inClosed = true ∧ s.ipipe = []
  outDone : s.outClosed = true → allDone s.ws
  endedOut : s.ended = true → s.outClosed = true ∧ s.opipe = []
  endedOk : s.ended = true → s.aborted = false

theorem shape_init (entries : List α) (n : Nat) : Shape n (init entries n : St α β) := by
  constructor <;> simp [init]

theorem shape_step {cfg : Cfg} {block : α → Option β} {n : Nat} {s s' : St α β}
    (hs : Shape n s) (h : Step cfg block s s') : Shape n s' := by
  obtain ⟨hna, mv⟩ := h
  obtain ⟨h1, h2, h3, h4, h5, h6⟩ := hs
  cases mv <;> (constructor <;> simp_all [allDone]) <;> try assumption
  case take.outDone =>
    intro ho; have := h4 ho W.idle (Or.inr (Or.inl rfl)); cases this
  case takeAbort.endedOk =>
    cases he : s.ended with
    | false => rfl
    | true => have := h4 (h5 he).1 W.idle (Or.inr (Or.inl rfl)); cases this
  case emit.outDone b _ _ =>
    intro ho; have := h4 ho (W.holding b) (Or.inr (Or.inl rfl)); cases this
  case emit.endedOut b _ _ =>
    cases he : s.ended with
    | false => rfl
    | true => have := h4 (h5 he).1 (W.holding b) (Or.inr (Or.inl rfl)); cases this

theorem reach_shape {cfg : Cfg} {block : α → Option β} {entries : List α} {n : Nat} {s : St α β}
    (h : Reach cfg block entries n s) : Shape n s := by
  induction h with
  | start => exact shape_init entries n
  | step _ hs ih => exact shape_step ih hs

theorem reach_conserved {cfg : Cfg} {block : α → Option β} {entries : List α} {n : Nat} {s : St α β}
    (h : Reach cfg block entries n s) : Conserved block entries s := by
  induction h with
  | start => exact conserved_init block entries n
  | step _ hs ih => exact conserved_step ih hs

/-- conservation as a permutation: every block is in exactly one place. -/
theorem reach_conserved_perm {cfg : Cfg} {block : α → Option β} {entries : List α} {n : Nat} {s : St α β}
    (h : Reach cfg block entries n s) (hna : s.aborted = false) :
    (s.out ++ s.opipe ++ held s.ws ++ (s.ipipe ++ s.src).filterMap block).Perm (entries.filterMap block) := by
  rw [List.perm_iff_count]
  intro b
  have := reach_conserved h hna b
  simp only [List.count_append] at this ⊢
  omega

theorem held_allDone {ws : List (W β)} (h : allDone ws) : held ws = [] := by
  induction ws with
  | nil => rfl
  | cons w r ih =>
    have hw : w = W.done := h w (by simp)
    subst hw
    simp only [held]
    exact ih (fun w hw => h w (by simp [hw]))

/-- when `decode` returns, every goroutine upstream is finished and both channels are drained. -/
theorem ended_all {cfg : Cfg} {block : α → Option β} {entries : List α} {n : Nat} {s : St α β}
    (hn : 0 < n) (h : Reach cfg block entries n s) (he : s.ended = true) :
    s.src = [] ∧ s.ipipe = [] ∧ allDone s.ws ∧ s.opipe = [] ∧ s.inClosed = true ∧ s.outClosed = true ∧
    s.aborted = false := by
  have sh := reach_shape h
  have ⟨hoc, hop⟩ := sh.endedOut he
  have had := sh.outDone hoc
  have hmem : W.done ∈ s.ws := by
    cases hws : s.ws with
    | nil => have := sh.len; rw [hws] at this; simp at this; omega
    | cons w r => have := had w (by rw [hws]; simp); subst this; simp
  have ⟨hic, hip⟩ := sh.doneIn hmem
  exact ⟨sh.closedSrc hic, hip, had, hop, hic, hoc, sh.endedOk he⟩

/-- the written blocks are, as a multiset, exactly the blocks of the entries. -/
theorem ended_perm {cfg : Cfg} {block : α → Option β} {entries : List α} {n : Nat} {s : St α β}
    (hn : 0 < n) (h : Reach cfg block entries n s) (he : s.ended = true) :
    s.out.Perm (entries.filterMap block) := by
  obtain ⟨h1, h2, h3, h4, _, _, h7⟩ := ended_all hn h he
  rw [List.perm_iff_count]
  intro b
  have := reach_conserved h h7 b
  simpa [h1, h2, h4, held_allDone h3] using this

theorem ws_cases (ws : List (W β)) :
    (∃ l b r, ws = l ++ W.holding b :: r) ∨ (∃ l r, ws = l ++ W.idle :: r) ∨ allDone ws := by
  induction ws with
  | nil => exact Or.inr (Or.inr (fun _ h => by cases h))
  | cons w r ih =>
    cases w with
    | idle => exact Or.inr (Or.inl ⟨[], r, rfl⟩)
    | holding b => exact Or.inl ⟨[], b, r, rfl⟩
    | done =>
      rcases ih with ⟨l, b, r', h⟩ | ⟨l, r', h⟩ | h
      · exact Or.inl ⟨W.done :: l, b, r', by simp [h]⟩
      · exact Or.inr (Or.inl ⟨W.done :: l, r', by simp [h]⟩)
      · refine Or.inr (Or.inr ?_)
        intro w hw
        rcases List.mem_cons.mp hw with rfl | hw
        · rfl
        · exact h w hw

/-- no deadlock: as long as `decode` has neither returned nor aborted, some goroutine can move. -/
theorem progress {cfg : Cfg} {block : α → Option β} {entries : List α} {n : Nat} {s : St α β}
    (hn : 0 < n) (hci : 0 < cfg.capIn) (hco : 0 < cfg.capOut)
    (h : Reach cfg block entries n s) (hne : s.ended = false) (hna : s.aborted = false) :
    ∃ s', Step cfg block s s' := by
  have sh := reach_shape h
  cases hop : s.opipe with
  | cons b q => exact ⟨_, hna, Move.write s b q hop⟩
  | nil =>
    rcases ws_cases s.ws with ⟨l, b, r, hws⟩ | hrest
    · exact ⟨_, hna, Move.emit s l r b hws (by rw [hop]; exact hco)⟩
    · cases hip : s.ipipe with
      | cons e q =>
        rcases hrest with ⟨l, r, hws⟩ | had
        · cases hb : block e with
          | some b => exact ⟨_, hna, Move.take s l r e q b hws hip hb⟩
          | none => exact ⟨_, hna, Move.takeAbort s l r e q hws hip hb⟩
        · exfalso
          have hmem : W.done ∈ s.ws := by
            cases hws : s.ws with
            | nil => have := sh.len; rw [hws] at this; simp at this; omega
            | cons w r => have := had w (by rw [hws]; simp); subst this; simp
          have := (sh.doneIn hmem).2
          rw [hip] at this; cases this
      | nil =>
        cases hsrc : s.src with
        | cons e rest => exact ⟨_, hna, Move.load s e rest hsrc (by rw [hip]; exact hci)⟩
        | nil =>
          cases hic : s.inClosed with
          | false => exact ⟨_, hna, Move.closeIn s hsrc hic⟩
          | true =>
            rcases hrest with ⟨l, r, hws⟩ | had
            · exact ⟨_, hna, Move.finish s l r hws hip hic⟩
            · cases hoc : s.outClosed with
              | false => exact ⟨_, hna, Move.closeOut s had hoc⟩
              | true => exact ⟨_, hna, Move.finishOut s hop hoc hne⟩

/-- after `decode` returned no goroutine of the pipeline can move any more. -/
theorem ended_final {cfg : Cfg} {block : α → Option β} {entries : List α} {n : Nat} {s s' : St α β}
    (hn : 0 < n) (h : Reach cfg block entries n s) (he : s.ended = true) : ¬ Step cfg block s s' := by
  obtain ⟨h1, h2, h3, h4, h5, h6, _⟩ := ended_all hn h he
  rintro ⟨_, mv⟩
  cases mv with
  | load e rest hs _ => rw [h1] at hs; cases hs
  | closeIn _ hc => rw [h5] at hc; cases hc
  | take l r e q b _ hi _ => rw [h2] at hi; cases hi
  | takeAbort l r e q _ hi _ => rw [h2] at hi; cases hi
  | emit l r b hw _ => have := h3 (W.holding b) (by rw [hw]; simp); cases this
  | finish l r hw _ _ => have := h3 W.idle (by rw [hw]; simp); cases this
  | closeOut _ hc => rw [h6] at hc; cases hc
  | write b q ho => rw [h4] at ho; cases ho
  | finishOut _ _ hne => rw [he] at hne; cases hne

/-- k consecutive steps -/
inductive Run (cfg : Cfg) (block : α → Option β) : St α β → Nat → St α β → Prop
  | refl (s : St α β) : Run cfg block s 0 s
  | step {s t u : St α β} {k : Nat} : Step cfg block s t → Run cfg block t k u → Run cfg block s (k + 1) u

theorem run_bounded {cfg : Cfg} {block : α → Option β} {s u : St α β} {k : Nat}
    (h : Run cfg block s k u) : measure u + k ≤ measure s := by
  induction h with
  | refl => simp
  | step hs _ ih => have := measure_decreases hs; omega

/-- an entry whose block cannot be built is still ahead, or the process is already dead -/
def Doomed (block : α → Option β) (s : St α β) : Prop :=
  s.aborted = true ∨ ∃ e, e ∈ s.ipipe ++ s.src ∧ block e = none

theorem doomed_step {cfg : Cfg} {block : α → Option β} {s s' : St α β}
    (hd : Doomed block s) (h : Step cfg block s s') : Doomed block s' := by
  obtain ⟨hna, mv⟩ := h
  rcases hd with hd | ⟨e, hm, hb⟩
  · simp_all
  · cases mv <;> simp_all [Doomed]
    all_goals first
      | exact ⟨e, hm, hb⟩
      | (rcases hm with rfl | hm
         · simp_all
         · exact ⟨e, hm, hb⟩)

/-- an undecodable / unmarshallable entry anywhere in the file: `decode` never returns normally,
    under any schedule — the process dies first (and whatever was not yet written is lost). -/
theorem doomed_never_ends {cfg : Cfg} {block : α → Option β} {entries : List α} {n : Nat} {s : St α β}
    (hn : 0 < n) (hbad : ∃ e, e ∈ entries ∧ block e = none)
    (h : Reach cfg block entries n s) : s.ended = false := by
  have hd : Doomed block s := by
    induction h with
    | start => obtain ⟨e, hm, hb⟩ := hbad; exact Or.inr ⟨e, by simp [init, hm], hb⟩
    | step _ hs ih => exact doomed_step ih hs
  cases he : s.ended with
  | false => rfl
  | true =>
    obtain ⟨h1, h2, _, _, _, _, h7⟩ := ended_all hn h he
    rcases hd with hd | ⟨e, hm, _⟩
    · rw [h7] at hd; cases hd
    · rw [h1, h2] at hm; cases hm

/-- no entry fails ⇒ the process never aborts -/
theorem clean_never_aborts {cfg : Cfg} {block : α → Option β} {entries : List α} {n : Nat} {s : St α β}
    (hok : ∀ e, e ∈ entries → block e ≠ none)
    (h : Reach cfg block entries n s) : s.aborted = false := by
  have : s.aborted = false ∧ ∀ e, e ∈ s.ipipe ++ s.src → e ∈ entries := by
    induction h with
    | start => simp [init]
    | step _ hs ih =>
      obtain ⟨hna, mv⟩ := hs
      obtain ⟨ih1, ih2⟩ := ih
      cases mv <;> simp_all
  exact this.1

end RSVerif.DecodeMode.Pipe
