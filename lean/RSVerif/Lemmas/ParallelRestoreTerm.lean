import RSVerif.Lemmas.ParallelRestoreCount
namespace RSVerif.Lemmas.ParallelRestore
open RSVerif RSVerif.Spec.MiniRedisC07 RSVerif.Model.ParallelRestore

theorem allReturned_iff (s : State) : allReturned s = true ↔ ∀ w, w < s.n → (s.workers w).phase = .returned := by
  simp [allReturned]

theorem anyErr_iff (s : State) : anyErr s = true ↔ ∃ w, w < s.n ∧ (s.workers w).err = true := by
  simp [anyErr]

@[simp] theorem startRestore_err (cfg : Cfg) (e : Entry) (wk : Worker) : (startRestore cfg e wk).err = wk.err := by
  unfold startRestore; split <;> rfl
@[simp] theorem selectBookkeeping_err (cfg : Cfg) (e : Entry) (wk : Worker) : (selectBookkeeping cfg e wk).err = wk.err := by
  rw [selectBookkeeping_eq]; split <;> simp
theorem startRestore_phase_ne_returned (cfg : Cfg) (e : Entry) (wk : Worker) : (startRestore cfg e wk).phase ≠ .returned := by
  unfold startRestore; split
  · simp
  · cases cfg.restoreCmds e <;> simp [phaseOfRest]
theorem selectBookkeeping_phase_ne_returned (cfg : Cfg) (e : Entry) (wk : Worker) :
    (selectBookkeeping cfg e wk).phase ≠ .returned := by
  rw [selectBookkeeping_eq]; split
  · simp
  · exact startRestore_phase_ne_returned _ _ _

/-- everything one worker action can do to the parts of the state the termination argument looks at -/
theorem stepWorker_frame (cfg : Cfg) (s : State) (w : Nat) (fail : Bool) :
    let s' := stepWorker cfg s w fail
    s'.n = s.n ∧ s'.result = s.result ∧ (∀ i, i ≠ w → s'.workers i = s.workers i) ∧
    (s.queue = [] → s'.queue = []) ∧
    ((s.workers w).err = true → (s'.workers w).err = true) ∧
    ((s.workers w).phase = .returned → s' = s) ∧
    ((s'.workers w).phase = .returned → (s.workers w).phase = .returned ∨ (s'.workers w).err = true ∨ s'.queue = []) := by
  unfold stepWorker
  simp only
  split
  · rename_i hph; simp [hph]
  · rename_i hph
    split
    · rename_i hq; simp [hph, hq, State.setWorker]; intro i h1 h2; exact absurd h2 h1
    · rename_i e q hq
      split
      · simp [hph, hq]
      · simp [hph, hq, State.setWorker, selectBookkeeping_phase_ne_returned]; intro i h1 h2; exact absurd h2 h1
  · rename_i e hph; simp [hph, State.setWorker, startRestore_phase_ne_returned]; intro i h1 h2; exact absurd h2 h1
  · rename_i e hph; simp [hph, State.setWorker]; intro i h1 h2; exact absurd h2 h1
  · rename_i e c rest hph
    split
    · split <;> (simp [hph, State.setWorker]; intro i h1 h2; exact absurd h2 h1)
    · cases rest <;> (simp [hph, State.setWorker, phaseOfRest]; intro i h1 h2; exact absurd h2 h1)

structure TermInv (s : State) : Prop where
  ret : ∀ w, w < s.n → (s.workers w).phase = .returned → (s.workers w).err = true ∨ s.queue = []
  res : ∀ r, s.result = some r → allReturned s = true ∧ r = !anyErr s

theorem termInv_init (n : Nat) (entries : List Entry) : TermInv (init n entries) :=
  ⟨fun w _ h => by simp [init] at h, fun r h => by simp [init] at h⟩

theorem termInv_stepWorker {cfg : Cfg} {s : State} (h : TermInv s) (w : Nat) (fail : Bool) :
    TermInv (stepWorker cfg s w fail) := by
  obtain ⟨hn, hres, hne, hq, herr, hret, hnew⟩ := stepWorker_frame cfg s w fail
  by_cases hwr : (s.workers w).phase = .returned
  · rw [hret hwr]; exact h
  constructor
  · intro i hi hph
    rw [hn] at hi
    by_cases hiw : i = w
    · subst hiw
      rcases hnew hph with h1 | h1 | h1
      · exact absurd h1 hwr
      · exact Or.inl h1
      · exact Or.inr h1
    · rw [hne i hiw] at hph ⊢
      rcases h.ret i hi hph with h1 | h1
      · exact Or.inl h1
      · exact Or.inr (hq h1)
  · intro r hr
    rw [hres] at hr
    have := (h.res r hr).1
    rw [allReturned_iff] at this
    -- a result exists only when every worker has returned; then worker `w` (if it is one) cannot move
    by_cases hw : w < s.n
    · exact absurd (this w hw) hwr
    · -- `w` is not a worker: nothing the parent looks at changes
      have ha : allReturned (stepWorker cfg s w fail) = allReturned s := by
        rw [Bool.eq_iff_iff, allReturned_iff, allReturned_iff, hn]
        constructor <;> intro h' i hi <;> have := h' i hi <;> rw [hne i (by omega)] at * <;> assumption
      have he : anyErr (stepWorker cfg s w fail) = anyErr s := by
        rw [Bool.eq_iff_iff, anyErr_iff, anyErr_iff, hn]
        constructor
        · rintro ⟨i, hi, h'⟩; exact ⟨i, hi, by rw [hne i (by omega)] at h'; exact h'⟩
        · rintro ⟨i, hi, h'⟩; exact ⟨i, hi, by rw [hne i (by omega)]; exact h'⟩
      rw [ha, he]; exact h.res r hr

theorem termInv_stepMain {s : State} (h : TermInv s) : TermInv (stepMain s) := by
  unfold stepMain
  split
  · rename_i hc
    simp only [Bool.and_eq_true] at hc
    exact ⟨h.ret, fun r hr => by
      simp only [Option.some.injEq] at hr
      exact ⟨hc.2, hr.symm⟩⟩
  · exact h

/-- errors are never cleared, and (outside pinned restore mode) every error reply sets one -/
structure ErrInv (s : State) : Prop where
  err : (∃ x ∈ s.server.log, x.ok = false) → ∃ w, w < s.n ∧ (s.workers w).err = true

theorem errInv_init (n : Nat) (entries : List Entry) : ErrInv (init n entries) :=
  ⟨fun ⟨x, hx, _⟩ => by simp [init] at hx⟩

theorem stepWorker_log (cfg : Cfg) (s : State) (w : Nat) (fail : Bool) :
    let s' := stepWorker cfg s w fail
    (s'.server.log = s.server.log) ∨
    (∃ x, s'.server.log = s.server.log ++ [x] ∧ x.conn = w ∧ x.ok = !fail ∧
      (fail = true → cfg.mode ≠ .restorePinned → (s'.workers w).err = true)) := by
  unfold stepWorker
  simp only
  split
  · exact Or.inl rfl
  · split
    · exact Or.inl rfl
    · split <;> exact Or.inl rfl
  · exact Or.inl rfl
  · exact Or.inl rfl
  · rename_i e c rest hph
    right
    split
    · rename_i hf
      split
      · rename_i hm; exact ⟨_, rfl, rfl, by simp [hf], fun _ h => absurd hm h⟩
      · exact ⟨_, rfl, rfl, by simp [hf], fun _ _ => by simp [State.setWorker]⟩
    · rename_i hf
      exact ⟨_, rfl, rfl, by simp [hf], fun h => absurd h hf⟩

theorem errInv_stepWorker {cfg : Cfg} (hm : cfg.mode ≠ .restorePinned) {s : State} (h : ErrInv s) (w : Nat) (hw : w < s.n) (fail : Bool) :
    ErrInv (stepWorker cfg s w fail) := by
  obtain ⟨hn, -, hne, -, herr, -, -⟩ := stepWorker_frame cfg s w fail
  have keep : (∃ i, i < s.n ∧ (s.workers i).err = true) →
      ∃ i, i < (stepWorker cfg s w fail).n ∧ ((stepWorker cfg s w fail).workers i).err = true := by
    rintro ⟨i, hi, he⟩
    refine ⟨i, by rw [hn]; exact hi, ?_⟩
    by_cases hiw : i = w
    · subst hiw; exact herr he
    · rw [hne i hiw]; exact he
  constructor
  rintro ⟨x, hx, hxok⟩
  rcases stepWorker_log cfg s w fail with hl | ⟨y, hl, -, hyok, hy⟩
  · rw [hl] at hx; exact keep (h.err ⟨x, hx, hxok⟩)
  · rw [hl] at hx
    simp only [List.mem_append, List.mem_singleton] at hx
    rcases hx with hx | hx
    · exact keep (h.err ⟨x, hx, hxok⟩)
    · subst hx
      have hf : fail = true := by cases fail <;> simp_all
      exact ⟨w, by rw [hn]; exact hw, hy hf hm⟩

theorem errInv_stepMain {s : State} (h : ErrInv s) : ErrInv (stepMain s) := by
  unfold stepMain; split <;> exact ⟨h.err⟩

/-- an error slot is only ever set by an error reply; every logged command came over a worker's connection -/
structure ErrSrc (s : State) : Prop where
  src : ∀ w, (s.workers w).err = true → ∃ x ∈ s.server.log, x.ok = false
  conn : ∀ x ∈ s.server.log, x.conn < s.n

theorem errSrc_init (n : Nat) (entries : List Entry) : ErrSrc (init n entries) :=
  ⟨fun w h => by simp [init] at h, fun x hx => by simp [init] at hx⟩

theorem stepWorker_err_src (cfg : Cfg) (s : State) (w : Nat) (fail : Bool) :
    let s' := stepWorker cfg s w fail
    (s'.workers w).err = true → (s.workers w).err = true ∨ ∃ x ∈ s'.server.log, x.ok = false := by
  unfold stepWorker
  simp only
  split
  · exact fun h => Or.inl h
  · split
    · simp [State.setWorker]; exact fun h => Or.inl h
    · split
      · exact fun h => Or.inl h
      · simp [State.setWorker]; exact fun h => Or.inl h
  · simp [State.setWorker]; exact fun h => Or.inl h
  · simp [State.setWorker]; exact fun h => Or.inl h
  · split
    · split
      · simp [State.setWorker]
      · intro _; right
        exact ⟨_, by simp only [setWorker_server, Server.exec_log]; exact List.mem_append_right _ (List.mem_singleton.mpr rfl), rfl⟩
    · simp [State.setWorker]; exact fun h => Or.inl h

theorem errSrc_stepWorker {cfg : Cfg} {s : State} (h : ErrSrc s) (w : Nat) (hw : w < s.n) (fail : Bool) :
    ErrSrc (stepWorker cfg s w fail) := by
  obtain ⟨hn, -, hne, -, -, -, -⟩ := stepWorker_frame cfg s w fail
  have hsub : ∀ x ∈ s.server.log, x ∈ (stepWorker cfg s w fail).server.log := by
    intro x hx
    rcases stepWorker_log cfg s w fail with hl | ⟨y, hl, -⟩ <;> rw [hl] <;> simp [hx]
  constructor
  · intro i hi
    by_cases hiw : i = w
    · subst hiw
      rcases stepWorker_err_src cfg s i fail hi with h1 | h1
      · obtain ⟨x, hx, hxo⟩ := h.src i h1
        exact ⟨x, hsub x hx, hxo⟩
      · exact h1
    · rw [hne i hiw] at hi
      obtain ⟨x, hx, hxo⟩ := h.src i hi
      exact ⟨x, hsub x hx, hxo⟩
  · intro x hx
    rw [hn]
    rcases stepWorker_log cfg s w fail with hl | ⟨y, hl, hyc, -⟩
    · rw [hl] at hx; exact h.conn x hx
    · rw [hl] at hx
      simp only [List.mem_append, List.mem_singleton] at hx
      rcases hx with hx | hx
      · exact h.conn x hx
      · subst hx; rw [hyc]; exact hw

theorem errSrc_stepMain {s : State} (h : ErrSrc s) : ErrSrc (stepMain s) := by
  unfold stepMain; split <;> exact ⟨h.src, h.conn⟩

end RSVerif.Lemmas.ParallelRestore
