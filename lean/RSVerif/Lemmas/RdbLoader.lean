import RSVerif.Lemmas.RdbHash
import RSVerif.Spec.RdbExpected
/-
Reader lemmas for C01, part 5: one turn of NextBinEntry's loop for every item kind.
-/
set_option linter.unusedSimpArgs false
namespace RSVerif.Lemmas.Rdb
open RSVerif RSVerif.Rdb RSVerif.Spec.Rdb

theorem serModOp_length_pos (o : ModOp) : 1 ≤ (serModOp o).length := by
  cases o <;> simp [serModOp]

theorem readLength_small (k : Nat) (hk : k < 64) (r : Bytes) : readLength (UInt8.ofNat k :: r) = .ok (k, r) := by
  have := readLength_enc ⟨k, .b6⟩ (by simpa [ELen.fits] using hk) r
  simpa [encLen, readOf] using this

theorem moduleLoop_ops (pf : Bytes → Bool) (ops : List ModOp) (hops : ∀ o ∈ ops, modOpOk o) (fuel : Nat)
    (hf : ops.length + 1 ≤ fuel) (rest : Bytes) :
    moduleLoop pf true fuel ((ops.map serModOp).flatten ++ (0 :: rest)) = .ok ((), rest) := by
  induction ops generalizing fuel with
  | nil =>
    cases fuel with
    | zero => simp at hf
    | succ f =>
      simp only [List.map_nil, List.flatten_nil, List.nil_append, moduleLoop]
      rw [show (0 : UInt8) = UInt8.ofNat 0 from rfl, readLength_small 0 (by omega)]
      simp
  | cons o ops ih =>
    cases fuel with
    | zero => simp at hf
    | succ f =>
      have ho := hops o (by simp)
      have ih' := ih (fun x hx => hops x (by simp [hx])) f (by simpa using hf)
      simp only [List.map_cons, List.flatten_cons, List.append_assoc]
      cases o with
      | sint v =>
        simp only [serModOp, List.cons_append, moduleLoop]
        rw [show (1 : UInt8) = UInt8.ofNat 1 from rfl, readLength_small 1 (by omega)]
        simp [skipLength_enc v ho, ih']
      | uint v =>
        simp only [serModOp, List.cons_append, moduleLoop]
        rw [show (2 : UInt8) = UInt8.ofNat 2 from rfl, readLength_small 2 (by omega)]
        simp [skipLength_enc v ho, ih']
      | float b =>
        simp only [serModOp, List.cons_append, moduleLoop]
        rw [show (3 : UInt8) = UInt8.ofNat 3 from rfl, readLength_small 3 (by omega)]
        simp [consumes_skipN b 4 ho _, ih']
      | double b =>
        simp only [serModOp, List.cons_append, moduleLoop]
        rw [show (4 : UInt8) = UInt8.ofNat 4 from rfl, readLength_small 4 (by omega)]
        simp [consumes_readDouble b ho _, ih']
      | str s =>
        simp only [serModOp, List.cons_append, moduleLoop]
        rw [show (5 : UInt8) = UInt8.ofNat 5 from rfl, readLength_small 5 (by omega)]
        simp [skipString_ser s _ ho, ih']

theorem flatten_length_ge {α : Type} (f : α → Bytes) (xs : List α) (h : ∀ x, 1 ≤ (f x).length) :
    xs.length ≤ (xs.map f).flatten.length := by
  induction xs with
  | nil => simp
  | cons x xs ih => simp only [List.map_cons, List.flatten_cons, List.length_append, List.length_cons]; have := h x; omega

theorem luaName_eq : luaName = luaText := rfl

theorem nextLoop_aux (pf : Bytes → Bool) (L f : Nat) (st : LState) (acc : Entry) (k v : RStr) (rest : Bytes)
    (h : itemOk pf (.aux k v)) (hr : st.cs.remain = 0) :
    nextLoop pf true L (f + 1) st acc (serItem (.aux k v) ++ rest) = nextLoop pf true L f st acc rest := by
  obtain ⟨hk, hv, hne⟩ := h
  have h250 : (0xFA : UInt8).toNat = 250 := rfl
  simp only [nextLoop, hr, ne_eq, not_true_eq_false, if_false, serItem, List.cons_append, readByte_cons, h250,
    lenient, List.append_assoc, readString_ser k _ hk, readString_ser v _ hv]
  have : ¬ (some (logical k) = some luaName) := by rw [luaName_eq]; simpa using hne
  simp [this]

theorem nextLoop_lua (pf : Bytes → Bool) (L f : Nat) (st : LState) (acc : Entry) (k s : RStr) (rest : Bytes)
    (h : itemOk pf (.lua k s)) (hr : st.cs.remain = 0) :
    nextLoop pf true L (f + 1) st acc (serItem (.lua k s) ++ rest) =
      .ok (some { acc with db := st.db, key := luaText, type := 0xFA, value := logical s,
                            valueUnspecified := false }, st, rest) := by
  obtain ⟨hk, hv, he⟩ := h
  have h250 : (0xFA : UInt8).toNat = 250 := rfl
  simp only [nextLoop, hr, ne_eq, not_true_eq_false, if_false, serItem, List.cons_append, readByte_cons, h250,
    lenient, List.append_assoc, readString_ser k _ hk, readString_ser s _ hv]
  simp [he, luaName_eq]

theorem nextLoop_resizeDb (pf : Bytes → Bool) (L f : Nat) (st : LState) (acc : Entry) (a b : ELen) (rest : Bytes)
    (h : itemOk pf (.resizeDb a b)) (hr : st.cs.remain = 0) :
    nextLoop pf true L (f + 1) st acc (serItem (.resizeDb a b) ++ rest) = nextLoop pf true L f st acc rest := by
  have h251 : (0xFB : UInt8).toNat = 251 := rfl
  simp only [nextLoop, hr, ne_eq, not_true_eq_false, if_false, serItem, List.cons_append, readByte_cons, h251,
    lenient, List.append_assoc, readLength_enc a h.1, readLength_enc b h.2]

theorem nextLoop_selectDb (pf : Bytes → Bool) (L f : Nat) (st : LState) (acc : Entry) (n : ELen) (rest : Bytes)
    (h : itemOk pf (.selectDb n)) (hr : st.cs.remain = 0) :
    nextLoop pf true L (f + 1) st acc (serItem (.selectDb n) ++ rest) =
      nextLoop pf true L f { st with db := n.val } acc rest := by
  have h254 : (0xFE : UInt8).toNat = 254 := rfl
  simp only [nextLoop, hr, ne_eq, not_true_eq_false, if_false, serItem, List.cons_append, readByte_cons, h254,
    readLength_enc n h.2, readOf_not64 n h.1]

theorem nextLoop_moduleAux (pf : Bytes → Bool) (L f : Nat) (st : LState) (acc : Entry) (id : ELen)
    (ops : List ModOp) (rest : Bytes) (h : itemOk pf (.moduleAux id ops)) (hr : st.cs.remain = 0) :
    nextLoop pf true L (f + 1) st acc (serItem (.moduleAux id ops) ++ rest) = nextLoop pf true L f st acc rest := by
  have h247 : (0xF7 : UInt8).toNat = 247 := rfl
  have e : (ops.map serModOp).flatten ++ [0] ++ rest = (ops.map serModOp).flatten ++ (0 :: rest) := by simp
  simp only [nextLoop, hr, ne_eq, not_true_eq_false, if_false, serItem, List.cons_append, readByte_cons, h247,
    List.append_assoc, readLength_enc id h.1]
  have hl : ops.length + 1 ≤ ((ops.map serModOp).flatten ++ ([0] ++ rest)).length := by
    have := flatten_length_ge serModOp ops serModOp_length_pos
    simp only [List.length_append, List.length_cons, List.length_nil]; omega
  have := moduleLoop_ops pf ops h.2 _ hl rest
  simp only [List.cons_append, List.nil_append] at this ⊢
  rw [this]

theorem nextLoop_expiryMs (pf : Bytes → Bool) (L f : Nat) (st : LState) (acc : Entry) (b rest : Bytes)
    (hb : b.length = 8) (hr : st.cs.remain = 0) :
    nextLoop pf true L (f + 1) st acc (0xFC :: b ++ rest) =
      nextLoop pf true L f st { acc with expireAt := leVal b } rest := by
  have h252 : (0xFC : UInt8).toNat = 252 := rfl
  simp only [nextLoop, hr, ne_eq, not_true_eq_false, if_false, List.cons_append, readByte_cons, h252,
    readN_append' 8 b rest hb, leNat_eq_leVal]

theorem nextLoop_expirySec (pf : Bytes → Bool) (L f : Nat) (st : LState) (acc : Entry) (b rest : Bytes)
    (hb : b.length = 4) (hr : st.cs.remain = 0) :
    nextLoop pf true L (f + 1) st acc (0xFD :: b ++ rest) =
      nextLoop pf true L f st { acc with expireAt := leVal b * 1000 } rest := by
  have h253 : (0xFD : UInt8).toNat = 253 := rfl
  simp only [nextLoop, hr, ne_eq, not_true_eq_false, if_false, List.cons_append, readByte_cons, h253,
    readN_append' 4 b rest hb, leNat_eq_leVal]

theorem nextLoop_idle (pf : Bytes → Bool) (L f : Nat) (st : LState) (acc : Entry) (i : ELen) (rest : Bytes)
    (hi : i.form ≠ .b64 ∧ i.fits) (hr : st.cs.remain = 0) :
    nextLoop pf true L (f + 1) st acc (0xF8 :: encLen i ++ rest) =
      nextLoop pf true L f st { acc with idle := i.val } rest := by
  have h248 : (0xF8 : UInt8).toNat = 248 := rfl
  simp only [nextLoop, hr, ne_eq, not_true_eq_false, if_false, List.cons_append, readByte_cons, h248,
    readLength_enc i hi.2, readOf_not64 i hi.1]

theorem nextLoop_freq (pf : Bytes → Bool) (L f : Nat) (st : LState) (acc : Entry) (q : UInt8) (rest : Bytes)
    (hr : st.cs.remain = 0) :
    nextLoop pf true L (f + 1) st acc (0xF9 :: q :: rest) =
      nextLoop pf true L f st { acc with freq := q.toNat } rest := by
  have h249 : (0xF9 : UInt8).toNat = 249 := rfl
  simp only [nextLoop, hr, ne_eq, not_true_eq_false, if_false, readByte_cons, h249]

theorem nextLoop_eof (pf : Bytes → Bool) (L f : Nat) (st : LState) (acc : Entry) (rest : Bytes)
    (hr : st.cs.remain = 0) :
    nextLoop pf true L (f + 1) st acc (0xFF :: rest) = .ok (none, st, rest) := by
  have h255 : (0xFF : UInt8).toNat = 255 := rfl
  simp only [nextLoop, hr, ne_eq, not_true_eq_false, if_false, readByte_cons, h255]

/-- the type codes of well-formed values -/
def isValueType (t : UInt8) : Prop :=
  t = 0 ∨ t = 1 ∨ t = 2 ∨ t = 3 ∨ t = 4 ∨ t = 5 ∨ t = 9 ∨ t = 10 ∨ t = 11 ∨ t = 12 ∨ t = 13 ∨ t = 14 ∨ t = 15

theorem valueOk_type (pf : Bytes → Bool) (v : Value) (h : valueOk pf v) : isValueType v.type := by
  unfold isValueType
  cases v with
  | str t s => rcases h.1 with rfl | rfl | rfl | rfl | rfl | rfl <;> simp [Value.type]
  | seq t n xs => rcases h.1 with rfl | rfl | rfl <;> simp [Value.type]
  | zset n xs => simp [Value.type]
  | zset2 n xs => simp [Value.type]
  | hash n fvs => simp [Value.type]
  | stream => simp [Value.type]

theorem nextLoop_keyFirst (pf : Bytes → Bool) (L f : Nat) (st : LState) (acc : Entry) (t : UInt8) (r : Bytes)
    (ht : isValueType t) (hr : st.cs.remain = 0) :
    nextLoop pf true L (f + 1) st acc (t :: r) = keyBranch pf L st acc t r := by
  unfold isValueType at ht
  rcases ht with rfl | rfl | rfl | rfl | rfl | rfl | rfl | rfl | rfl | rfl | rfl | rfl | rfl <;>
    simp [nextLoop, hr]

theorem nextLoop_keyCont (pf : Bytes → Bool) (L f : Nat) (st : LState) (acc : Entry) (k : Bytes) (inp : Bytes)
    (hl : st.last = some (k, 4)) (hr : st.cs.remain ≠ 0) :
    nextLoop pf true L (f + 1) st acc inp = keyBranch pf L st acc 4 inp := by
  simp [nextLoop, hr, hl]

theorem take_append_sub (a b : Bytes) : (a ++ b).take ((a ++ b).length - b.length) = a := by
  simp

theorem serPairs_append (a b : List Pair) : serPairs (a ++ b) = serPairs a ++ serPairs b := by
  simp [serPairs]

theorem keyBranch_plain (pf : Bytes → Bool) (L : Nat) (st : LState) (acc : Entry) (name : RStr) (v : Value)
    (rest : Bytes) (hn : strOk name) (hv : valueOk pf v) (hnh : v.type ≠ 4) (hr : st.cs.remain = 0) :
    keyBranch pf L st acc v.type (serStr name ++ serValue v ++ rest) =
      .ok (some { acc with db := st.db, key := logical name, type := v.type,
                           value := Dump.createValueDump v.type (serValue v),
                           realMemberCount := 0, needReadLen := 1 },
           { st with last := some (logical name, v.type), cs := {} }, rest) := by
  simp only [keyBranch, hr, if_true, List.append_assoc, readString_ser name _ hn,
    readObjectValue_plain pf L v st.cs rest hv hnh]
  have := take_append_sub (serValue v) rest
  simp only [List.length_append] at this
  simp [this]

theorem keyBranch_hash_first (pf : Bytes → Bool) (L : Nat) (st : LState) (acc : Entry) (name : RStr)
    (n : LenForm) (fvs : List Pair) (rest : Bytes) (hn : strOk name) (hv : valueOk pf (.hash n fvs))
    (hr : st.cs.remain = 0) :
    keyBranch pf L st acc 4 (serStr name ++ serValue (.hash n fvs) ++ rest) =
      .ok (some { acc with db := st.db, key := logical name, type := 4,
                           value := Dump.createValueDump 4 (encLen ⟨fvs.length, n⟩ ++
                              serPairs (takeChunk L (encLen ⟨fvs.length, n⟩).length fvs).1),
                           realMemberCount := (if (takeChunk L (encLen ⟨fvs.length, n⟩).length fvs).2 = [] then 0
                              else (takeChunk L (encLen ⟨fvs.length, n⟩).length fvs).1.length),
                           needReadLen := 1 },
           { st with last := some (logical name, 4),
                     cs := { remain := (takeChunk L (encLen ⟨fvs.length, n⟩).length fvs).2.length,
                             lastRead := (takeChunk L (encLen ⟨fvs.length, n⟩).length fvs).1.length,
                             tot := fvs.length } },
           serPairs (takeChunk L (encLen ⟨fvs.length, n⟩).length fvs).2 ++ rest) := by
  simp only [keyBranch, hr, if_true, List.append_assoc, readString_ser name _ hn, serValue]
  have h1 := readObjectValue_hash_first pf L n fvs st.cs rest hv hr
  simp only [List.append_assoc] at h1
  rw [h1]
  have happ := takeChunk_append L (encLen ⟨fvs.length, n⟩).length fvs
  generalize takeChunk L (encLen ⟨fvs.length, n⟩).length fvs = cr at *
  obtain ⟨c, r⟩ := cr
  simp only at happ ⊢
  have hsp : serPairs fvs = serPairs c ++ serPairs r := by rw [← happ, serPairs_append]
  have hl : c.length + r.length = fvs.length := by rw [← happ]; simp
  have hcap : (encLen ⟨fvs.length, n⟩ ++ (serPairs fvs ++ rest)).take
      ((encLen ⟨fvs.length, n⟩ ++ (serPairs fvs ++ rest)).length - (serPairs r ++ rest).length)
      = encLen ⟨fvs.length, n⟩ ++ serPairs c := by
    rw [hsp]
    have := take_append_sub (encLen ⟨fvs.length, n⟩ ++ serPairs c) (serPairs r ++ rest)
    simpa [List.append_assoc] using this
  rw [hcap]
  have hreal : (if c.length = fvs.length then 0 else c.length) = (if r = [] then 0 else c.length) := by
    cases r with
    | nil => simp at hl; simp [hl]
    | cons x xs => simp at hl; have : ¬ c.length = fvs.length := by omega
                   simp [this]
  simp [hreal]

theorem keyBranch_hash_cont (pf : Bytes → Bool) (L : Nat) (st : LState) (acc : Entry) (k : Bytes)
    (ps : List Pair) (rest : Bytes) (hp : ∀ p ∈ ps, strOk p.1 ∧ strOk p.2)
    (hl : st.last = some (k, 4)) (hr : st.cs.remain = ps.length) (hne : ps ≠ []) (htot : ps.length < st.cs.tot) :
    keyBranch pf L st acc 4 (serPairs ps ++ rest) =
      .ok (some { acc with db := st.db, key := k, type := 4,
                           value := Dump.createValueDump 4 (serPairs (takeChunk L 0 ps).1),
                           realMemberCount := (takeChunk L 0 ps).1.length, needReadLen := 0 },
           { st with last := some (k, 4),
                     cs := { remain := (takeChunk L 0 ps).2.length, lastRead := (takeChunk L 0 ps).1.length,
                             tot := st.cs.tot } },
           serPairs (takeChunk L 0 ps).2 ++ rest) := by
  have hr0 : ¬ st.cs.remain = 0 := by rw [hr]; cases ps <;> simp_all
  simp only [keyBranch, hr0, if_false, hl]
  rw [readObjectValue_hash_cont pf L ps st.cs rest hp hr hne]
  have happ := takeChunk_append L 0 ps
  generalize takeChunk L 0 ps = cr at *
  obtain ⟨c, r⟩ := cr
  simp only at happ ⊢
  have hsp : serPairs ps = serPairs c ++ serPairs r := by rw [← happ, serPairs_append]
  have hlen : c.length + r.length = ps.length := by rw [← happ]; simp
  have hcap : (serPairs ps ++ rest).take ((serPairs ps ++ rest).length - (serPairs r ++ rest).length)
      = serPairs c := by
    rw [hsp]
    have := take_append_sub (serPairs c) (serPairs r ++ rest)
    simpa [List.append_assoc] using this
  rw [hcap]
  have : ¬ c.length = st.cs.tot := by omega
  simp [this]

end RSVerif.Lemmas.Rdb
