import RSVerif.Model.SyncBasic
/- decimal rendering and parsing round-trip -/
namespace RSVerif.Lemmas.SyncBasic
open RSVerif RSVerif.Sync

theorem digitVal_digitByte (d : Nat) (h : d < 10) : digitVal (digitByte d) = some d := by
  have : ∀ d : Fin 10, digitVal (digitByte d.val) = some d.val := by decide
  exact this ⟨d, h⟩

theorem parseNatAux_append (acc : Nat) (a b : Bytes) :
    parseNatAux acc (a ++ b) = (parseNatAux acc a).bind (fun x => parseNatAux x b) := by
  induction a generalizing acc with
  | nil => rfl
  | cons x xs ih =>
    simp only [List.cons_append, parseNatAux]
    cases digitVal x with
    | none => rfl
    | some d => exact ih _

theorem natDecAux_ne_nil (f n : Nat) (h : n < f) : natDecAux f n ≠ [] := by
  cases f with
  | zero => omega
  | succ f => rw [natDecAux]; split <;> simp

theorem natDec_ne_nil (n : Nat) : natDec n ≠ [] := natDecAux_ne_nil _ _ (by omega)

theorem parseNatAux_natDecAux (f n : Nat) (h : n < f) : parseNatAux 0 (natDecAux f n) = some n := by
  induction f generalizing n with
  | zero => omega
  | succ f ih =>
    rw [natDecAux]
    split
    · rename_i hlt
      simp [parseNatAux, digitVal_digitByte n hlt]
    · rename_i hge
      rw [parseNatAux_append, ih (n / 10) (by omega)]
      simp only [Option.bind_some, parseNatAux, digitVal_digitByte (n % 10) (Nat.mod_lt _ (by omega))]
      congr 1
      omega

theorem parseNatAux_natDec (n : Nat) : parseNatAux 0 (natDec n) = some n :=
  parseNatAux_natDecAux _ _ (by omega)

theorem parseNat_natDec (n : Nat) : parseNat (natDec n) = some n := by
  unfold parseNat
  split
  · rename_i h; exact absurd h (natDec_ne_nil n)
  · exact parseNatAux_natDec n

theorem natDecAux_head (f n : Nat) (h : n < f) : ∃ d rest, natDecAux f n = digitByte d :: rest ∧ d < 10 := by
  induction f generalizing n with
  | zero => omega
  | succ f ih =>
    rw [natDecAux]
    split
    · rename_i hlt; exact ⟨n, [], rfl, hlt⟩
    · obtain ⟨d, rest, he, hd⟩ := ih (n / 10) (by omega)
      exact ⟨d, rest ++ [digitByte (n % 10)], by simp [he], hd⟩

theorem natDec_head (n : Nat) : ∃ d rest, natDec n = digitByte d :: rest ∧ d < 10 :=
  natDecAux_head _ _ (by omega)

theorem digitByte_ne_sign (d : Nat) (h : d < 10) : digitByte d ≠ 45 ∧ digitByte d ≠ 43 := by
  have : ∀ d : Fin 10, digitByte d.val ≠ 45 ∧ digitByte d.val ≠ 43 := by decide
  exact this ⟨d, h⟩

theorem parseIntU_fmtInt (i : Int) : parseIntU (fmtInt i) = some i := by
  unfold fmtInt
  split
  · rename_i h
    simp only [parseIntU, parseNat_natDec, Option.map_some]
    congr 1
    simp only [Int.ofNat_eq_natCast]
    omega
  · rename_i h
    obtain ⟨d, rest, he, hd⟩ := natDec_head i.natAbs
    have hs := digitByte_ne_sign d hd
    have hp := parseNat_natDec i.natAbs
    rw [he] at hp ⊢
    unfold parseIntU
    split
    · rename_i heq; simp only [List.cons.injEq] at heq; exact absurd heq.1 hs.1
    · rename_i heq; simp only [List.cons.injEq] at heq; exact absurd heq.1 hs.2
    · rw [hp]; simp only [Option.map_some]; congr 1; simp only [Int.ofNat_eq_natCast]; omega

end RSVerif.Lemmas.SyncBasic
