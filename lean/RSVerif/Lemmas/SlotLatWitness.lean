import RSVerif.Lemmas.SlotLatWitness0
import RSVerif.Lemmas.SlotLatWitness1
import RSVerif.Lemmas.SlotLatWitness2
import RSVerif.Lemmas.SlotLatWitness3
import RSVerif.Lemmas.SlotLatWitness4
import RSVerif.Lemmas.SlotLatWitness5
import RSVerif.Lemmas.SlotLatWitness6
import RSVerif.Lemmas.SlotLatWitness7
/-
All 16384 slots are reached by a synthetic latency key with index ≤ latencyMaxIndex (assembled from
the 8 witness modules).
-/
namespace RSVerif.Lemmas.Slot
open RSVerif

theorem lat_witness_all : ∀ s, s < 16384 → ∃ i, latRowOK i s = true := by
  intro s h2
  have h1 : 0 ≤ s := Nat.zero_le s
  rcases Nat.lt_or_ge s 2048 with h | h1
  · exact lat_witness_module_0 s h1 h
  rcases Nat.lt_or_ge s 4096 with h | h1
  · exact lat_witness_module_1 s h1 h
  rcases Nat.lt_or_ge s 6144 with h | h1
  · exact lat_witness_module_2 s h1 h
  rcases Nat.lt_or_ge s 8192 with h | h1
  · exact lat_witness_module_3 s h1 h
  rcases Nat.lt_or_ge s 10240 with h | h1
  · exact lat_witness_module_4 s h1 h
  rcases Nat.lt_or_ge s 12288 with h | h1
  · exact lat_witness_module_5 s h1 h
  rcases Nat.lt_or_ge s 14336 with h | h1
  · exact lat_witness_module_6 s h1 h
  exact lat_witness_module_7 s h1 h2

end RSVerif.Lemmas.Slot
