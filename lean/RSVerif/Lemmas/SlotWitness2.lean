import RSVerif.Lemmas.SlotWitnessCheck
import RSVerif.Generated.C15Witness2
/-
Kernel check of the regenerated witness candidates for slots 4096..6143 (8 chunks of 256 rows;
one `decide +kernel` per chunk — the quantifier is a finite generated table). One of 8 such modules,
so that lake checks them in parallel; rebuilt only when a CRC16-relevant fact of the source changes.
-/
namespace RSVerif.Lemmas.Slot
open RSVerif

theorem witness_chunk_16 : chunkOK 4096 Generated.C15.slotWitness16 = true := by decide +kernel
theorem witness_chunk_17 : chunkOK 4352 Generated.C15.slotWitness17 = true := by decide +kernel
theorem witness_chunk_18 : chunkOK 4608 Generated.C15.slotWitness18 = true := by decide +kernel
theorem witness_chunk_19 : chunkOK 4864 Generated.C15.slotWitness19 = true := by decide +kernel
theorem witness_chunk_20 : chunkOK 5120 Generated.C15.slotWitness20 = true := by decide +kernel
theorem witness_chunk_21 : chunkOK 5376 Generated.C15.slotWitness21 = true := by decide +kernel
theorem witness_chunk_22 : chunkOK 5632 Generated.C15.slotWitness22 = true := by decide +kernel
theorem witness_chunk_23 : chunkOK 5888 Generated.C15.slotWitness23 = true := by decide +kernel

theorem witness_module_2 : ∀ s, 4096 ≤ s → s < 6144 → ∃ x, rowOK x s = true := by
  intro s h1 h2
  rcases Nat.lt_or_ge s 4352 with h | h1
  · exact chunk_covers 4096 _ witness_chunk_16 s h1 (by omega)
  rcases Nat.lt_or_ge s 4608 with h | h1
  · exact chunk_covers 4352 _ witness_chunk_17 s h1 (by omega)
  rcases Nat.lt_or_ge s 4864 with h | h1
  · exact chunk_covers 4608 _ witness_chunk_18 s h1 (by omega)
  rcases Nat.lt_or_ge s 5120 with h | h1
  · exact chunk_covers 4864 _ witness_chunk_19 s h1 (by omega)
  rcases Nat.lt_or_ge s 5376 with h | h1
  · exact chunk_covers 5120 _ witness_chunk_20 s h1 (by omega)
  rcases Nat.lt_or_ge s 5632 with h | h1
  · exact chunk_covers 5376 _ witness_chunk_21 s h1 (by omega)
  rcases Nat.lt_or_ge s 5888 with h | h1
  · exact chunk_covers 5632 _ witness_chunk_22 s h1 (by omega)
  exact chunk_covers 5888 _ witness_chunk_23 s h1 (by omega)

end RSVerif.Lemmas.Slot
