import RSVerif.Spec.Backlog
/-
Helper lemmas for C18 (core Lean only): ring-window arithmetic, the two byte stores, the store
invariant `StoreInv` (the ring holds the history inside the window) and its preservation.
-/
namespace RSVerif.Lemmas.Backlog
open RSVerif RSVerif.Backlog RSVerif.Spec.Backlog

theorem mod_window {n p q : Nat} (h : p % n = q % n) (hpq : p ≤ q) (hq : q < p + n) : p = q := by
  have hp := Nat.div_add_mod p n
  have hq' := Nat.div_add_mod q n
  have hd : p / n ≤ q / n := Nat.div_le_div_right hpq
  rcases Nat.lt_or_ge (p / n) (q / n) with hlt | hge
  · have : n * (p / n + 1) ≤ n * (q / n) := Nat.mul_le_mul_left n hlt
    rw [Nat.mul_add, Nat.mul_one] at this
    have hn : p % n < n := Nat.mod_lt _ (by omega)
    omega
  · have : p / n = q / n := Nat.le_antisymm hd hge
    rw [this, h] at hp
    omega

theorem add_mod_small {w n j : Nat} (h : w % n + j < n) : (w + j) % n = w % n + j := by
  rw [Nat.add_mod, Nat.mod_eq_of_lt (a := j) (by omega), Nat.mod_eq_of_lt h]

theorem roffset_eq (k size o w : Nat) :
    roffset k size o w = (min k (min (w - o) (size - o % size)), o % size) := by
  unfold roffset
  simp only [Prod.mk.injEq, and_true]
  split <;> split <;> omega

theorem woffset_eq (k size w : Nat) :
    woffset k size w = (min k (min size (size - w % size)), w % size) := by
  unfold woffset
  simp only [Prod.mk.injEq, and_true]
  split <;> split <;> omega

theorem memCopy_size (a : Array UInt8) (off : Nat) (bs : Bytes) : (memCopy a off bs).size = a.size := by
  induction bs generalizing a off with
  | nil => rfl
  | cons b bs ih => simp [memCopy, ih]

theorem memCopy_get (a : Array UInt8) (off : Nat) (bs : Bytes) (i : Nat) :
    (memCopy a off bs)[i]? =
      if off ≤ i ∧ i < off + bs.length ∧ i < a.size then bs[i - off]? else a[i]? := by
  induction bs generalizing a off with
  | nil => 
    simp only [memCopy, List.length_nil, Nat.add_zero]
    rw [if_neg (by omega)]
  | cons b bs ih =>
    simp only [memCopy, ih, Array.size_setIfInBounds, List.length_cons]
    by_cases h1 : off = i
    · subst h1
      rw [if_neg (by omega)]
      by_cases h2 : off < a.size
      · rw [if_pos (by omega)]; simp [h2]
      · rw [if_neg (by omega), Array.getElem?_setIfInBounds, if_pos rfl, if_neg h2, Array.getElem?_eq_none (by omega)]
    · by_cases h3 : off + 1 ≤ i ∧ i < off + 1 + bs.length ∧ i < a.size
      · rw [if_pos h3, if_pos (by omega)]
        have : i - off = (i - (off + 1)) + 1 := by omega
        rw [this, List.getElem?_cons_succ]
      · rw [if_neg h3, if_neg (by omega)]
        simp [h1]
theorem fileWriteAt_size (a : Array UInt8) (off : Nat) (bs : Bytes) (h : off ≤ a.size) :
    (fileWriteAt a off bs).size = max a.size (off + bs.length) := by
  induction bs generalizing a off with
  | nil => simp [fileWriteAt]; omega
  | cons b bs ih =>
    unfold fileWriteAt
    split
    · rw [ih _ _ (by simp; omega)]; simp; omega
    · have : off = a.size := by omega
      subst this
      rw [ih _ _ (by simp)]; simp; omega

theorem fileWriteAt_get (a : Array UInt8) (off : Nat) (bs : Bytes) (i : Nat) (h : off ≤ a.size) :
    (fileWriteAt a off bs)[i]? = if off ≤ i ∧ i < off + bs.length then bs[i - off]? else a[i]? := by
  induction bs generalizing a off with
  | nil => simp only [fileWriteAt, List.length_nil, Nat.add_zero]; rw [if_neg (by omega)]
  | cons b bs ih =>
    unfold fileWriteAt
    split
    · rw [ih _ _ (by simp; omega)]
      simp only [List.length_cons]
      by_cases h1 : off = i
      · subst h1
        rw [if_neg (by omega), if_pos (by omega)]
        simp [*]
      · by_cases h3 : off + 1 ≤ i ∧ i < off + 1 + bs.length
        · rw [if_pos h3, if_pos (by omega)]
          have : i - off = (i - (off + 1)) + 1 := by omega
          rw [this, List.getElem?_cons_succ]
        · rw [if_neg h3, if_neg (by omega)]
          simp [h1]
    · have : off = a.size := by omega
      subst this
      rw [ih _ _ (by simp)]
      simp only [List.length_cons, Nat.sub_self, Array.replicate_zero, Array.append_empty]
      by_cases h1 : a.size = i
      · subst h1
        rw [if_neg (by omega), if_pos (by omega)]
        simp
      · by_cases h3 : a.size + 1 ≤ i ∧ i < a.size + 1 + bs.length
        · rw [if_pos h3, if_pos (by omega)]
          have : i - a.size = (i - (a.size + 1)) + 1 := by omega
          rw [this, List.getElem?_cons_succ]
        · rw [if_neg h3, if_neg (by omega)]
          rw [Array.getElem?_push, if_neg (by omega)]
def StoreInv (st : Store) (h : Bytes) : Prop :=
  0 < st.size ∧ st.wpos = h.length ∧
  (st.live = true →
     (st.kind = .mem → st.cells.size = st.size) ∧
     (st.kind = .file → min st.wpos st.size ≤ st.cells.size) ∧
     ∀ q, st.wpos - min st.wpos st.size ≤ q → q < st.wpos → st.cells[q % st.size]? = h[q]?)

/-- the bytes of the ring between absolute offsets `o` and `o+n` are the history -/
theorem extract_eq_hist {st : Store} {h : Bytes} (hi : StoreInv st h) (hl : st.live = true)
    {o n : Nat} (ho : o + st.size ≥ st.wpos) (hn : o + n ≤ st.wpos) (hs : o % st.size + n ≤ st.size) :
    (st.cells.extract (o % st.size) (o % st.size + n)).toList = (h.drop o).take n := by
  obtain ⟨hpos, hw, hlive⟩ := hi
  obtain ⟨hmem, hfile, hring⟩ := hlive hl
  apply List.ext_getElem?
  intro j
  by_cases hj : j < n
  · have hq := hring (o + j) (by omega) (by omega)
    rw [add_mod_small (by omega)] at hq
    have hsz : o % st.size + j < st.cells.size := by
      rcases hk : st.kind with _ | _
      · rw [hmem hk]; omega
      · have := hfile hk
        have : o % st.size ≤ o := Nat.mod_le _ _
        omega
    simp [hj, List.getElem?_drop, ← hq]
  · rw [List.getElem?_eq_none (by simp; omega), List.getElem?_eq_none (by simp; omega)]

theorem store_read_spec {st : Store} {h : Bytes} (hi : StoreInv st h) (hl : st.live = true) (k o : Nat) :
    st.readSomeAt k o =
      if o > st.wpos ∨ o + st.size < st.wpos then (0, [], some .invalidOffset)
      else if min k (min (st.wpos - o) (st.size - o % st.size)) = 0 then (0, [], none)
      else (min k (min (st.wpos - o) (st.size - o % st.size)),
            (h.drop o).take (min k (min (st.wpos - o) (st.size - o % st.size))), none) := by
  unfold Store.readSomeAt
  simp only [hl, Bool.not_true, Bool.false_eq_true, if_false, roffset_eq]
  split
  · rfl
  · rename_i hv
    split
    · rfl
    · rename_i hn
      have hpos := hi.1
      have hmod : o % st.size < st.size := Nat.mod_lt _ hpos
      have hx := extract_eq_hist hi hl (o := o) (n := min k (min (st.wpos - o) (st.size - o % st.size)))
        (by omega) (by omega) (by omega)
      have hlen : ((h.drop o).take (min k (min (st.wpos - o) (st.size - o % st.size)))).length
          = min k (min (st.wpos - o) (st.size - o % st.size)) := by
        have := hi.2.1
        simp only [List.length_take, List.length_drop]; omega
      rcases hk : st.kind with _ | _
      · simp only [hx]
        rw [List.take_take, Nat.min_eq_right (Nat.min_le_left _ _)] 
        simp only [hlen]
      · simp only [hx, hlen, Nat.lt_irrefl, if_false]

theorem store_write_spec {st : Store} {h : Bytes} (hi : StoreInv st h) (hl : st.live = true)
    (bs : Bytes) (hbs : bs.length ≠ 0) :
    ∃ st', st.writeSome bs = (st', min bs.length (st.size - st.wpos % st.size), none) ∧
      0 < min bs.length (st.size - st.wpos % st.size) ∧
      st'.live = true ∧ st'.size = st.size ∧ st'.kind = st.kind ∧
      st'.wpos = st.wpos + min bs.length (st.size - st.wpos % st.size) ∧
      StoreInv st' (h ++ bs.take (min bs.length (st.size - st.wpos % st.size))) := by
  obtain ⟨kind, size, wpos, cells, live⟩ := st
  simp only at hl; subst hl
  obtain ⟨hpos, hw, hlive⟩ := hi
  obtain ⟨hmem, hfile, hring⟩ := hlive rfl
  simp only at hpos hw hmem hfile hring ⊢
  have hmod : wpos % size < size := Nat.mod_lt _ hpos
  generalize hn : min bs.length (size - wpos % size) = n
  have hm : min bs.length (min size (size - wpos % size)) = n := by omega
  have hn0 : 0 < n := by omega
  have hcl : (bs.take n).length = n := by simp only [List.length_take]; omega
  -- the new ring satisfies the invariant, whichever backend wrote it
  have key : ∀ cells' : Array UInt8,
      (∀ i, cells'[i]? = if wpos % size ≤ i ∧ i < wpos % size + n then (bs.take n)[i - wpos % size]? else cells[i]?) →
      ∀ q, wpos + n - min (wpos + n) size ≤ q → q < wpos + n →
        cells'[q % size]? = (h ++ bs.take n)[q]? := by
    intro cells' hc q hq1 hq2
    rw [hc]
    by_cases hqw : q < wpos
    · have hne : ¬ (wpos % size ≤ q % size ∧ q % size < wpos % size + n) := by
        intro ⟨h1, h2⟩
        have : q % size = (wpos + (q % size - wpos % size)) % size := by
          rw [add_mod_small (by omega)]; omega
        have := mod_window this (by omega) (by omega)
        omega
      rw [if_neg hne, hring q (by omega) hqw, List.getElem?_append_left (by omega)]
    · have hj : q = wpos + (q - wpos) := by omega
      have hqm : q % size = wpos % size + (q - wpos) := by
        rw [hj, add_mod_small (by omega)]; omega
      rw [if_pos (by omega), List.getElem?_append_right (by omega), hqm]
      congr 1; omega
  unfold Store.writeSome
  simp only [Bool.not_true, Bool.false_eq_true, if_false, woffset_eq, hm]
  rw [if_neg (by omega)]
  simp only [hcl]
  rcases kind with _ | _
  · refine ⟨_, rfl, hn0, rfl, rfl, rfl, rfl, ?_⟩
    have hsz := hmem rfl
    refine ⟨hpos, ?_, fun _ => ⟨?_, ?_, ?_⟩⟩
    · simp only [hcl, List.length_append, hw]
    · intro _; simp only [memCopy_size, hsz]
    · intro hk; exact Kind.noConfusion hk
    · apply key
      intro i
      rw [memCopy_get, hcl]
      by_cases hc : wpos % size ≤ i ∧ i < wpos % size + n
      · rw [if_pos hc, if_pos (by omega)]
      · rw [if_neg hc, if_neg (by omega)]
  · refine ⟨_, rfl, hn0, rfl, rfl, rfl, rfl, ?_⟩
    have hsz := hfile rfl
    have hoff : wpos % size ≤ cells.size := by
      have : wpos % size ≤ wpos := Nat.mod_le _ _
      omega
    refine ⟨hpos, ?_, fun _ => ⟨?_, ?_, ?_⟩⟩
    · simp only [hcl, List.length_append, hw]
    · intro hk; exact Kind.noConfusion hk
    · intro _
      simp only [fileWriteAt_size _ _ _ hoff, hcl]
      rcases Nat.lt_or_ge wpos size with hlt | hge
      · have := Nat.mod_eq_of_lt hlt; omega
      · omega
    · apply key
      intro i
      rw [fileWriteAt_get _ _ _ _ hoff, hcl]

/-! ### the Backlog and the thread system -/

/-- what the model returns for each promised outcome -/
def Outcome.toRdRes : Outcome → RdRes
  | .empty => .done 0 [] none
  | .closed => .done 0 [] (some .closed)
  | .invalidOffset => .done 0 [] (some .invalidOffset)
  | .waits => .wait
  | .bytes bs => .done bs.length bs none

theorem count_pos {st : Store} {h : Bytes} (hi : StoreInv st h) {k o : Nat} (hk : k ≠ 0) (ho : o < st.wpos) :
    0 < (logOf st h).count k o := by
  have hpos := hi.1
  have hmod : o % st.size < st.size := Nat.mod_lt _ hpos
  have hw := hi.2.1
  simp only [Log.count, logOf, Log.w]
  omega

theorem bl_read_spec {st : Store} {h : Bytes} (hi : StoreInv st h) (k o : Nat) :
    (⟨some st, none⟩ : Backlog).readSomeAt k o = Outcome.toRdRes ((logOf st h).read k o) := by
  have hw := hi.2.1
  unfold Backlog.readSomeAt Log.read
  simp only [ne_eq, not_true_eq_false, or_false]
  by_cases hk : k = 0
  · simp [hk, Outcome.toRdRes]
  · simp only [hk, if_false]
    by_cases hl : st.live = true
    · rw [store_read_spec hi hl]
      simp only [logOf, hl, Bool.not_true, Bool.false_eq_true, if_false, Log.w, ← hw]
      by_cases hv : o > st.wpos ∨ o + st.size < st.wpos
      · simp [hv, Outcome.toRdRes]
      · simp only [hv, if_false]
        by_cases ho : o = st.wpos
        · subst ho
          simp [Outcome.toRdRes]
        · have hc := count_pos hi hk (o := o) (by omega)
          simp only [Log.count, logOf, Log.w, ← hw] at hc
          have hne : ¬ (min k (min (st.wpos - o) (st.size - o % st.size)) = 0) := by omega
          simp only [ho, hne, if_false]
          simp only [Outcome.toRdRes, Log.count, Log.w, ← hw]
          have hlen : ((h.drop o).take (min k (min (st.wpos - o) (st.size - o % st.size)))).length
             = min k (min (st.wpos - o) (st.size - o % st.size)) := by
            simp only [List.length_take, List.length_drop]; omega
          rw [hlen]
          simp
    · have hl' : st.live = false := by cases h' : st.live <;> simp_all
      simp [Store.readSomeAt, hl', logOf, Outcome.toRdRes]

theorem bl_write_nil (bl : Backlog) (hs : bl.store ≠ none) : bl.writeSome [] = (bl, 0, bl.err, false) := by
  obtain ⟨st, e⟩ := bl
  cases st with
  | none => exact absurd rfl hs
  | some st => simp [Backlog.writeSome]

theorem bl_write_closed {st : Store} (hl : st.live = false) {bs : Bytes} (hbs : bs.length ≠ 0) :
    (⟨some st, none⟩ : Backlog).writeSome bs = (⟨some st, none⟩, 0, some .closed, true) := by
  obtain ⟨kind, size, wpos, cells, live⟩ := st
  simp only at hl; subst hl
  simp [Backlog.writeSome, Store.writeSome, hbs]

theorem bl_write_live {st : Store} {h : Bytes} (hi : StoreInv st h) (hl : st.live = true)
    {bs : Bytes} (hbs : bs.length ≠ 0) :
    ∃ st', (⟨some st, none⟩ : Backlog).writeSome bs =
        (⟨some st', none⟩, min bs.length (st.size - st.wpos % st.size), none, true) ∧
      0 < min bs.length (st.size - st.wpos % st.size) ∧
      st'.live = true ∧ st'.size = st.size ∧ st'.kind = st.kind ∧
      st'.wpos = st.wpos + min bs.length (st.size - st.wpos % st.size) ∧
      StoreInv st' (h ++ bs.take (min bs.length (st.size - st.wpos % st.size))) := by
  obtain ⟨st', hw, hn, rest⟩ := store_write_spec hi hl bs hbs
  refine ⟨st', ?_, hn, rest⟩
  simp only [Backlog.writeSome, hbs, ne_eq, not_true_eq_false, or_false, if_false, hw]
  rw [if_pos (by omega)]

theorem log_read_waits {l : Log} {k o : Nat} (h : l.read k o = .waits) : k ≠ 0 ∧ l.isOpen = true ∧ o = l.w := by
  unfold Log.read at h
  split at h; · cases h
  split at h; · cases h
  split at h; · cases h
  split at h
  · rename_i h1 h2 h3 h4
    exact ⟨h1, by simpa using h2, h4⟩
  · cases h

def Inv (s : Sys) (h : Bytes) : Prop :=
  ∃ st, s.bl = ⟨some st, none⟩ ∧ StoreInv st h ∧
    ∀ (r seek k o : Nat) (u : Bool), s.rds[r]? = some (Reader.mk seek (.parked k o u)) → 0 < k ∧ o = st.wpos ∧ st.live = true

theorem wakeAll_get (rds : List Reader) (r : Nat) : (wakeAll rds)[r]? = rds[r]?.map wake1 := by
  simp [wakeAll]

theorem wakeAll_not_parked (rds : List Reader) (r seek k o : Nat) (u : Bool) :
    (wakeAll rds)[r]? ≠ some ⟨seek, .parked k o u⟩ := by
  rw [wakeAll_get]
  cases hx : rds[r]? with
  | none => simp
  | some x =>
    obtain ⟨sk, ph⟩ := x
    cases ph <;> simp [wake1]

theorem store_close_inv {st : Store} {h : Bytes} (hi : StoreInv st h) :
    StoreInv st.close h ∧ st.close.live = false ∧ st.close.size = st.size ∧ st.close.wpos = st.wpos := by
  obtain ⟨hpos, hw, hlive⟩ := hi
  have hcl : st.close.live = false ∧ st.close.size = st.size ∧ st.close.wpos = st.wpos := by
    unfold Store.close
    rcases hk : st.kind with _ | _
    · exact ⟨rfl, rfl, rfl⟩
    · cases hl : st.live <;> simp [hl]
  refine ⟨⟨?_, ?_, fun hl => ?_⟩, hcl⟩
  · rw [hcl.2.1]; exact hpos
  · rw [hcl.2.2]; exact hw
  · rw [hcl.1] at hl; cases hl

theorem set_parked {rds : List Reader} {r : Nat} {x : Reader} {r' seek k o : Nat} {u : Bool}
    (hx : ∀ k o u, x.ph ≠ .parked k o u)
    (h : (rds.set r x)[r']? = some ⟨seek, .parked k o u⟩) : rds[r']? = some ⟨seek, .parked k o u⟩ := by
  rw [List.getElem?_set] at h
  split at h
  · split at h
    · simp only [Option.some.injEq] at h
      exact absurd (by rw [h]) (hx k o u)
    · simp at h
  · exact h

theorem inv_step {s : Sys} {h : Bytes} (hi : Inv s h) (op : Op) : Inv (s.step op).1 (histStep s h op) := by
  obtain ⟨bl, rds⟩ := s
  obtain ⟨st, hbl, hst, hpk⟩ := hi
  simp only at hbl hpk
  subst hbl
  cases op with
  | writeSome bs =>
    simp only [Sys.step, histStep]
    by_cases hbs : bs.length = 0
    · have : bs = [] := List.eq_nil_of_length_eq_zero hbs
      subst this
      rw [bl_write_nil _ (by simp)]
      simpa using ⟨st, rfl, hst, hpk⟩
    · by_cases hl : st.live = true
      · obtain ⟨st', hw, _, hl', _, _, _, hinv⟩ := bl_write_live hst hl hbs
        rw [hw]
        exact ⟨st', rfl, hinv, fun r seek k o u hr => absurd hr (wakeAll_not_parked _ _ _ _ _ _)⟩
      · have hl' : st.live = false := by cases h' : st.live <;> simp_all
        rw [bl_write_closed hl' hbs]
        refine ⟨st, rfl, by simpa using hst, fun r seek k o u hr => absurd hr (wakeAll_not_parked _ _ _ _ _ _)⟩
  | close e =>
    simp only [Sys.step, histStep, Backlog.closeWithError, ne_eq, not_true_eq_false, if_false]
    exact ⟨st.close, rfl, (store_close_inv hst).1, fun r seek k o u hr => absurd hr (wakeAll_not_parked _ _ _ _ _ _)⟩
  | dataRange => exact ⟨st, rfl, hst, hpk⟩
  | newReader =>
    simp only [Sys.step, histStep, ne_eq, not_true_eq_false, if_false]
    refine ⟨st, rfl, hst, fun r seek k o u hr => ?_⟩
    apply hpk r seek k o u
    rw [List.getElem?_append] at hr
    split at hr
    · exact hr
    · rw [List.getElem?_singleton] at hr
      split at hr <;> simp at hr
  | begin r k =>
    simp only [Sys.step, histStep]
    split
    · exact ⟨st, rfl, hst, fun r' seek' k' o' u' hr => hpk r' seek' k' o' u' (set_parked (by simp) hr)⟩
    · exact ⟨st, rfl, hst, hpk⟩
  | beginAt r k o =>
    simp only [Sys.step, histStep]
    split
    · exact ⟨st, rfl, hst, fun r' seek' k' o' u' hr => hpk r' seek' k' o' u' (set_parked (by simp) hr)⟩
    · exact ⟨st, rfl, hst, hpk⟩
  | step r =>
    simp only [Sys.step, histStep]
    split
    · rename_i seek k o u hr
      rw [bl_read_spec hst]
      cases hres : (logOf st h).read k o with
      | waits =>
        obtain ⟨hk, hop, how⟩ := log_read_waits hres
        simp only [Outcome.toRdRes]
        refine ⟨st, rfl, hst, fun r' seek' k' o' u' hr' => ?_⟩
        rw [List.getElem?_set] at hr'
        split at hr'
        · split at hr'
          · simp only [Option.some.injEq, Reader.mk.injEq, Phase.parked.injEq] at hr'
            obtain ⟨_, rfl, rfl, _⟩ := hr'
            exact ⟨by omega, by rw [how, hst.2.1]; rfl, hop⟩
          · simp at hr'
        · exact hpk r' seek' k' o' u' hr'
      | _ =>
        simp only [Outcome.toRdRes]
        exact ⟨st, rfl, hst, fun r' seek' k' o' u' hr => hpk r' seek' k' o' u' (set_parked (by simp) hr)⟩
    · exact ⟨st, rfl, hst, hpk⟩
  | seekTo r o =>
    simp only [Sys.step, histStep]
    split
    · exact ⟨st, rfl, hst, fun r' seek' k' o' u' hr => hpk r' seek' k' o' u' (set_parked (by simp) hr)⟩
    · exact ⟨st, rfl, hst, hpk⟩
  | isValid r =>
    simp only [Sys.step, histStep]
    split <;> exact ⟨st, rfl, hst, hpk⟩
  | offset r =>
    simp only [Sys.step, histStep]
    split <;> exact ⟨st, rfl, hst, hpk⟩

/-- the event the model reports for each promised outcome of a read by thread `r` at offset `o` -/
def Outcome.toEv (r o : Nat) : Outcome → Ev
  | .empty => .done r o 0 [] none
  | .closed => .done r o 0 [] (some .closed)
  | .invalidOffset => .done r o 0 [] (some .invalidOffset)
  | .waits => .parked r
  | .bytes bs => .done r o bs.length bs none

theorem step_read {s : Sys} {h : Bytes} (hi : Inv s h) {r seek k o : Nat} {u : Bool}
    (hr : s.rds[r]? = some (Reader.mk seek (.running k o u))) :
    ∃ st, s.bl = ⟨some st, none⟩ ∧ StoreInv st h ∧
      (s.step (.step r)).2 = Outcome.toEv r o ((logOf st h).read k o) := by
  obtain ⟨bl, rds⟩ := s
  obtain ⟨st, hbl, hst, hpk⟩ := hi
  simp only at hbl hr
  subst hbl
  refine ⟨st, rfl, hst, ?_⟩
  simp only [Sys.step, hr, bl_read_spec hst]
  cases (logOf st h).read k o <;> rfl

theorem reach_inv {s : Sys} {h : Bytes} (hr : Reach s h) : Inv s h := by
  induction hr with
  | init kind size content hpos =>
    cases kind
    · refine ⟨_, rfl, ⟨hpos, rfl, fun _ => ⟨fun _ => by simp [Store.ofSize], fun hk => Kind.noConfusion hk, ?_⟩⟩, ?_⟩
      · intro q _ hq; simp [Store.ofSize] at hq
      · intro r seek k o u hx; simp [Sys.ofStore] at hx
    · refine ⟨_, rfl, ⟨hpos, rfl, fun _ => ⟨fun hk => Kind.noConfusion hk, fun _ => by simp [Store.ofSize], ?_⟩⟩, ?_⟩
      · intro q _ hq; simp [Store.ofSize] at hq
      · intro r seek k o u hx; simp [Sys.ofStore] at hx
  | step op _ ih => exact inv_step ih op

theorem reach_run {s : Sys} {h : Bytes} (hr : Reach s h) (ops : List Op) :
    Reach (runH s h ops).1 (runH s h ops).2.1 := by
  induction ops generalizing s h with
  | nil => exact hr
  | cons op ops ih => 
    simp only [runH]
    exact ih (Reach.step op hr)


theorem wake1_running (seek k o : Nat) (u : Bool) : wake1 ⟨seek, .running k o u⟩ = ⟨seek, .running k o u⟩ := rfl

/-- nobody but thread `r` itself moves a running thread `r` -/
theorem running_stable {s : Sys} {r seek k o : Nat} {u : Bool}
    (hr : s.rds[r]? = some (Reader.mk seek (.running k o u))) {op : Op} (hop : op ≠ .step r) :
    (s.step op).1.rds[r]? = some (Reader.mk seek (.running k o u)) := by
  obtain ⟨bl, rds⟩ := s
  simp only at hr
  have hset : ∀ (r' : Nat) (x : Reader), r' ≠ r → (rds.set r' x)[r]? = some (Reader.mk seek (.running k o u)) := by
    intro r' x hne
    rw [List.getElem?_set, if_neg hne]; exact hr
  cases op with
  | writeSome bs =>
    simp only [Sys.step]
    split
    · simp [wakeAll_get, hr, wake1]
    · exact hr
  | close e => simp [Sys.step, wakeAll_get, hr, wake1]
  | dataRange => exact hr
  | newReader =>
    simp only [Sys.step]
    split
    · exact hr
    · split
      · exact hr
      · have hlt : r < rds.length := by
          rcases Nat.lt_or_ge r rds.length with h | h
          · exact h
          · rw [List.getElem?_eq_none h] at hr; cases hr
        simp only [List.getElem?_append_left hlt]; exact hr
  | begin r' k' =>
    simp only [Sys.step]
    by_cases hrr : r' = r
    · subst hrr; simp [hr]
    · split
      · exact hset _ _ hrr
      · exact hr
  | beginAt r' k' o' =>
    simp only [Sys.step]
    by_cases hrr : r' = r
    · subst hrr; simp [hr]
    · split
      · exact hset _ _ hrr
      · exact hr
  | step r' =>
    have hrr : r' ≠ r := fun e => hop (by rw [e])
    simp only [Sys.step]
    split
    · split
      · exact hset _ _ hrr
      · exact hset _ _ hrr
    · exact hr
  | seekTo r' o' =>
    simp only [Sys.step]
    by_cases hrr : r' = r
    · subst hrr; simp [hr]
    · split
      · exact hset _ _ hrr
      · exact hr
  | isValid r' => simp only [Sys.step]; split <;> exact hr
  | offset r' => simp only [Sys.step]; split <;> exact hr
/-- the five mutually exclusive cases of the promised read behaviour -/
theorem log_read_cases (l : Log) (k o : Nat) :
    (k = 0 ∧ l.read k o = .empty) ∨
    (k ≠ 0 ∧ l.isOpen = false ∧ l.read k o = .closed) ∨
    (k ≠ 0 ∧ l.isOpen = true ∧ (o > l.w ∨ o + l.size < l.w) ∧ l.read k o = .invalidOffset) ∨
    (k ≠ 0 ∧ l.isOpen = true ∧ o = l.w ∧ l.read k o = .waits) ∨
    (k ≠ 0 ∧ l.isOpen = true ∧ o < l.w ∧ l.w ≤ o + l.size ∧
      l.read k o = .bytes ((l.hist.drop o).take (l.count k o))) := by
  unfold Log.read
  by_cases hk : k = 0
  · exact Or.inl ⟨hk, by simp [hk]⟩
  · refine Or.inr ?_
    cases hop : l.isOpen
    · exact Or.inl ⟨hk, rfl, by simp [hk]⟩
    · refine Or.inr ?_
      by_cases hv : o > l.w ∨ o + l.size < l.w
      · exact Or.inl ⟨hk, rfl, hv, by simp [hk, hv]⟩
      · refine Or.inr ?_
        by_cases ho : o = l.w
        · exact Or.inl ⟨hk, rfl, ho, by simp [hk, ho]⟩
        · exact Or.inr ⟨hk, rfl, by omega, by omega, by simp [hk, hv, ho]⟩
/-- only `writeSome` and `close` touch the backlog itself -/
theorem step_bl_unchanged (s : Sys) {op : Op} (h1 : ∀ bs, op ≠ .writeSome bs) (h2 : ∀ e, op ≠ .close e) :
    (s.step op).1.bl = s.bl := by
  obtain ⟨bl, rds⟩ := s
  cases op with
  | writeSome bs => exact absurd rfl (h1 bs)
  | close e => exact absurd rfl (h2 e)
  | dataRange => rfl
  | newReader => simp only [Sys.step]; split; · rfl
                 split <;> rfl
  | begin r k => simp only [Sys.step]; split <;> rfl
  | beginAt r k o => simp only [Sys.step]; split <;> rfl
  | step r => simp only [Sys.step]; split
              · split <;> rfl
              · rfl
  | seekTo r o => simp only [Sys.step]; split <;> rfl
  | isValid r => simp only [Sys.step]; split <;> rfl
  | offset r => simp only [Sys.step]; split <;> rfl

theorem step_hist_other (s : Sys) (h : Bytes) {op : Op} (h1 : ∀ bs, op ≠ .writeSome bs) : histStep s h op = h := by
  cases op with
  | writeSome bs => exact absurd rfl (h1 bs)
  | _ => rfl

/-- capacity never changes; a closed backlog stays closed and its history stops growing -/
theorem step_size_live {s : Sys} {h : Bytes} (hi : Inv s h) (op : Op) :
    (s.step op).1.size = s.size ∧
    (s.live = false → (s.step op).1.live = false ∧ histStep s h op = h) := by
  by_cases h1 : ∃ bs, op = .writeSome bs
  · obtain ⟨bs, rfl⟩ := h1
    obtain ⟨bl, rds⟩ := s
    obtain ⟨st, hbl, hst, _⟩ := hi
    simp only at hbl; subst hbl
    simp only [Sys.step, histStep, Sys.size, Sys.live]
    by_cases hbs : bs.length = 0
    · have : bs = [] := List.eq_nil_of_length_eq_zero hbs
      subst this
      rw [bl_write_nil _ (by simp)]; simp
    · by_cases hl : st.live = true
      · obtain ⟨st', hw, _, hl', hsz, _, _, _⟩ := bl_write_live hst hl hbs
        rw [hw]; simp [hsz, hl]
      · have hl' : st.live = false := by cases h' : st.live <;> simp_all
        rw [bl_write_closed hl' hbs]; simp [hl']
  · by_cases h2 : ∃ e, op = .close e
    · obtain ⟨e, rfl⟩ := h2
      obtain ⟨bl, rds⟩ := s
      obtain ⟨st, hbl, hst, _⟩ := hi
      simp only at hbl; subst hbl
      obtain ⟨_, hcl, hsz, _⟩ := store_close_inv hst
      simp [Sys.step, histStep, Sys.size, Sys.live, Backlog.closeWithError, hcl, hsz]
    · have h1' : ∀ bs, op ≠ .writeSome bs := fun bs e => h1 ⟨bs, e⟩
      have h2' : ∀ e, op ≠ .close e := fun e' e => h2 ⟨e', e⟩
      simp only [Sys.size, Sys.live, step_bl_unchanged s h1' h2', step_hist_other s h h1']
      exact ⟨trivial, fun hl => ⟨hl, trivial⟩⟩

theorem run_size_live {s : Sys} {h : Bytes} (hi : Inv s h) (ops : List Op) :
    (runH s h ops).1.size = s.size ∧
    (s.live = false → (runH s h ops).1.live = false ∧ (runH s h ops).2.1 = h) := by
  induction ops generalizing s h with
  | nil => exact ⟨rfl, fun hl => ⟨hl, rfl⟩⟩
  | cons op ops ih =>
    simp only [runH]
    obtain ⟨h1, h2⟩ := step_size_live hi op
    obtain ⟨h3, h4⟩ := ih (inv_step hi op)
    refine ⟨by rw [h3, h1], fun hl => ?_⟩
    obtain ⟨h5, h6⟩ := h2 hl
    obtain ⟨h7, h8⟩ := h4 h5
    exact ⟨h7, by rw [h8, h6]⟩

/-- the history only grows -/
theorem run_hist_prefix (s : Sys) (h : Bytes) (ops : List Op) : ∃ x, (runH s h ops).2.1 = h ++ x := by
  induction ops generalizing s h with
  | nil => exact ⟨[], by simp [runH]⟩
  | cons op ops ih =>
    simp only [runH]
    obtain ⟨x, hx⟩ := ih (s.step op).1 (histStep s h op)
    cases op with
    | writeSome bs => exact ⟨bs.take (s.bl.writeSome bs).2.1 ++ x, by rw [hx]; simp [histStep]⟩
    | _ => exact ⟨x, by rw [hx]; rfl⟩
/-- a `done` event can only come from a `readSomeAt` step of a running reader at that offset -/
theorem done_event {s : Sys} {op : Op} {r o n : Nat} {bs : Bytes} {err : Option Err}
    (hev : (s.step op).2 = .done r o n bs err) :
    op = .step r ∧ ∃ seek k u, s.rds[r]? = some (Reader.mk seek (.running k o u)) := by
  obtain ⟨bl, rds⟩ := s
  cases op with
  | writeSome bs => simp [Sys.step] at hev
  | close e => simp [Sys.step] at hev
  | dataRange => simp [Sys.step] at hev
  | newReader =>
    simp only [Sys.step] at hev
    split at hev
    · cases hev
    · split at hev <;> cases hev
  | begin r k => simp only [Sys.step] at hev; split at hev <;> cases hev
  | beginAt r k o => simp only [Sys.step] at hev; split at hev <;> cases hev
  | step r' =>
    simp only [Sys.step] at hev
    split at hev
    · rename_i seek k o' u hr
      split at hev
      · simp only [Ev.done.injEq] at hev
        obtain ⟨rfl, rfl, _⟩ := hev
        exact ⟨rfl, seek, k, u, hr⟩
      · cases hev
    · cases hev
  | seekTo r o => simp only [Sys.step] at hev; split at hev <;> cases hev
  | isValid r => simp only [Sys.step] at hev; split at hev <;> cases hev
  | offset r => simp only [Sys.step] at hev; split at hev <;> cases hev
theorem log_valid_iff (l : Log) (seek : Nat) : l.valid seek = true ↔ (l.lo ≤ seek ∧ seek ≤ l.w) := by
  unfold Log.valid
  rw [Bool.and_eq_true, decide_eq_true_iff, decide_eq_true_iff]

/-- the `Write` loop on an open backlog terminates, accepts everything, and appends exactly `bs` -/
theorem write_loop {st : Store} {h : Bytes} (hi : StoreInv st h) (hl : st.live = true) (bs : Bytes)
    (fuel nn : Nat) (hf : bs.length < fuel) :
    ∃ st', Backlog.write fuel ⟨some st, none⟩ bs nn = some (⟨some st', none⟩, nn + bs.length, none) ∧
      StoreInv st' (h ++ bs) ∧ st'.live = true ∧ st'.size = st.size := by
  induction fuel generalizing st h bs nn with
  | zero => omega
  | succ fuel ih =>
    unfold Backlog.write
    by_cases hbs : bs.length = 0
    · have : bs = [] := List.eq_nil_of_length_eq_zero hbs
      subst this
      rw [bl_write_nil _ (by simp)]
      exact ⟨st, by simp, by simpa using hi, hl, rfl⟩
    · obtain ⟨st', hw, hn, hl', hsz, _, _, hinv⟩ := bl_write_live hi hl hbs
      rw [hw]
      simp only [ne_eq, not_true_eq_false, if_false]
      generalize hnn : min bs.length (st.size - st.wpos % st.size) = n at *
      by_cases hd : (bs.drop n).length = 0
      · rw [if_pos hd]
        have hnl : n = bs.length := by rw [List.length_drop] at hd; omega
        refine ⟨st', by rw [hnl], ?_, hl', hsz⟩
        rw [hnl, List.take_length] at hinv; exact hinv
      · rw [if_neg hd]
        obtain ⟨st'', hw2, hinv2, hl2, hsz2⟩ := ih hinv hl' (bs.drop n) (nn + n) (by rw [List.length_drop]; omega)
        refine ⟨st'', ?_, ?_, hl2, by rw [hsz2, hsz]⟩
        · rw [hw2, List.length_drop]
          have : nn + n + (bs.length - n) = nn + bs.length := by omega
          rw [this]
        · rw [List.append_assoc, List.take_append_drop] at hinv2; exact hinv2
/-- …along a whole schedule -/
theorem running_stable_run {s : Sys} {h : Bytes} {r seek k o : Nat} {u : Bool}
    (hrd : s.rds[r]? = some (Reader.mk seek (.running k o u))) (ops : List Op) (hops : ∀ op ∈ ops, op ≠ .step r) :
    (runH s h ops).1.rds[r]? = some (Reader.mk seek (.running k o u)) := by
  induction ops generalizing s h with
  | nil => exact hrd
  | cons op ops ih =>
    simp only [runH]
    exact ih (running_stable hrd (hops op (List.mem_cons_self ..))) (fun op' hm => hops op' (List.mem_cons_of_mem _ hm))

end RSVerif.Lemmas.Backlog
