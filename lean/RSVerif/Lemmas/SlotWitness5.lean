import RSVerif.Lemmas.SlotWitnessCheck
import RSVerif.Generated.C15Witness5
/-
Kernel check of the regenerated witness candidates for slots 10240..12287 (8 chunks of 256 rows;
one `decide +kernel` per chunk — the quantifier is a finite generated table). One of 8 such modules,
so that lake checks them in parallel; rebuilt only when a CRC16-relevant fact of the source changes.
-/
namespace RSVerif.Lemmas.Slot
open RSVerif

theorem witness_chunk_40 : chunkOK 10240 Generated.C15.slotWitness40 = true := by decide +kernel
theorem witness_chunk_41 : chunkOK 10496 Generated.C15.slotWitness41 = true := by decide +kernel
theorem witness_chunk_42 : chunkOK 10752 Generated.C15.slotWitness42 = true := by decide +kernel
theorem witness_chunk_43 : chunkOK 11008 Generated.C15.slotWitness43 = true := by decide +kernel
theorem witness_chunk_44 : chunkOK 11264 Generated.C15.slotWitness44 = true := by decide +kernel
theorem witness_chunk_45 : chunkOK 11520 Generated.C15.slotWitness45 = true := by decide +kernel
theorem witness_chunk_46 : chunkOK 11776 Generated.C15.slotWitness46 = true := by decide +kernel
theorem witness_chunk_47 : chunkOK 12032 Generated.C15.slotWitness47 = true := by decide +kernel

theorem witness_module_5 : ∀ s, 10240 ≤ s → s < 12288 → ∃ x, rowOK x s = true := by
  intro s h1 h2
  rcases Nat.lt_or_ge s 10496 with h | h1
  · exact chunk_covers 10240 _ witness_chunk_40 s h1 (by omega)
  rcases Nat.lt_or_ge s 10752 with h | h1
  · exact chunk_covers 10496 _ witness_chunk_41 s h1 (by omega)
  rcases Nat.lt_or_ge s 11008 with h | h1
  · exact chunk_covers 10752 _ witness_chunk_42 s h1 (by omega)
  rcases Nat.lt_or_ge s 11264 with h | h1
  · exact chunk_covers 11008 _ witness_chunk_43 s h1 (by omega)
  rcases Nat.lt_or_ge s 11520 with h | h1
  · exact chunk_covers 11264 _ witness_chunk_44 s h1 (by omega)
  rcases Nat.lt_or_ge s 11776 with h | h1
  · exact chunk_covers 11520 _ witness_chunk_45 s h1 (by omega)
  rcases Nat.lt_or_ge s 12032 with h | h1
  · exact chunk_covers 11776 _ witness_chunk_46 s h1 (by omega)
  exact chunk_covers 12032 _ witness_chunk_47 s h1 (by omega)

end RSVerif.Lemmas.Slot
