import RSVerif.Lemmas.ParallelRestoreOrder
namespace RSVerif.Lemmas.ParallelRestore
open RSVerif RSVerif.Spec.MiniRedisC07 RSVerif.Model.ParallelRestore

theorem sumW_le2 {n w i : Nat} {f : Nat → Nat} (hw : w < n) (hi : i < n) (hne : i ≠ w) : f w + f i ≤ sumW n f := by
  induction n with
  | zero => omega
  | succ n ih =>
    simp only [sumW]
    by_cases hwn : w = n
    · subst hwn
      have := sumW_le (n := w) (w := i) (f := f) (by omega); omega
    · by_cases hin : i = n
      · subst hin
        have := sumW_le (n := i) (w := w) (f := f) (by omega); omega
      · have := ih (by omega) (by omega); omega

/-- the target key an entry writes -/
def keyOf (cfg : Cfg) (e : Entry) : Nat × Bytes := (route cfg e.db, e.key)

/-- target key of the entry a worker currently holds and will (or does) restore -/
def live (cfg : Cfg) (wk : Worker) : List (Nat × Bytes) :=
  match wk.phase with
  | .select e => if keyFiltered cfg e then [] else [keyOf cfg e]
  | .run e _ => [keyOf cfg e]
  | _ => []

def keysQ (cfg : Cfg) (q : List Entry) : List (Nat × Bytes) := (q.filter (passes cfg)).map (keyOf cfg)

theorem keysQ_cons (cfg : Cfg) (e : Entry) (q : List Entry) :
    keysQ cfg (e :: q) = (if passes cfg e then [keyOf cfg e] else []) ++ keysQ cfg q := by
  unfold keysQ
  by_cases hp : passes cfg e = true <;> simp [hp]

/-- no two entries that are held or still queued write the same target key -/
def UInv (cfg : Cfg) (s : State) : Prop :=
  ∀ κ : Nat × Bytes, sumW s.n (fun w => List.count κ (live cfg (s.workers w))) + List.count κ (keysQ cfg s.queue) ≤ 1

theorem live_startRestore_le (cfg : Cfg) (e : Entry) (wk : Worker) (κ : Nat × Bytes) :
    List.count κ (live cfg (startRestore cfg e wk)) ≤ List.count κ (if keyFiltered cfg e then [] else [keyOf cfg e]) := by
  unfold startRestore
  by_cases hk : keyFiltered cfg e = true
  · simp [hk, live]
  · simp only [hk]
    cases cfg.restoreCmds e <;> simp [phaseOfRest, live]

theorem stepWorker_live (cfg : Cfg) (s : State) (w : Nat) (fail : Bool) (κ : Nat × Bytes) :
    let s' := stepWorker cfg s w fail
    List.count κ (live cfg (s'.workers w)) + List.count κ (keysQ cfg s'.queue)
      ≤ List.count κ (live cfg (s.workers w)) + List.count κ (keysQ cfg s.queue) := by
  unfold stepWorker
  simp only
  split
  · exact Nat.le_refl _
  · rename_i hph
    split
    · simp [live, hph]
    · rename_i e q hqe
      split
      · rename_i hf
        have hp : passes cfg e = false := by simp [passes, hf]
        simp [hqe, keysQ_cons, hp]
      · rename_i hf
        have hp : passes cfg e = !keyFiltered cfg e := by simp [passes, hf]
        simp only [setWorker_workers, if_true, setWorker_queue, hqe, keysQ_cons, hp, List.count_append]
        have h1 : List.count κ (live cfg (selectBookkeeping cfg e (s.workers w)))
            ≤ List.count κ (if keyFiltered cfg e then [] else [keyOf cfg e]) := by
          rw [selectBookkeeping_eq]
          split
          · simp [live]
          · exact live_startRestore_le ..
        cases hk : keyFiltered cfg e <;> simp [hk] at h1 ⊢ <;> omega
  · rename_i e hph
    simp only [setWorker_workers, if_true, setWorker_queue]
    have := live_startRestore_le cfg e (s.workers w) κ
    have h2 : live cfg (s.workers w) = if keyFiltered cfg e then [] else [keyOf cfg e] := by simp [live, hph]
    rw [h2]; omega
  · simp [live]
  · rename_i e c rest hph
    split
    · split <;> simp [live]
    · cases rest <;> simp [live, hph, phaseOfRest]

theorem uInv_init (cfg : Cfg) (n : Nat) (entries : List Entry) (h : (keysQ cfg entries).Nodup) : UInv cfg (init n entries) := by
  intro κ
  have : sumW (init n entries).n (fun w => List.count κ (live cfg ((init n entries).workers w))) = 0 :=
    sumW_zero (fun i _ => by simp [init, live])
  rw [this]
  have := List.nodup_iff_count.mp h κ
  simpa [init] using this

theorem uInv_stepWorker {cfg : Cfg} {s : State} (h : UInv cfg s) (w : Nat) (hw : w < s.n) (fail : Bool) :
    UInv cfg (stepWorker cfg s w fail) := by
  obtain ⟨hn, -, hne, -, -, -, -⟩ := stepWorker_frame cfg s w fail
  intro κ
  have hl := stepWorker_live cfg s w fail κ
  have hs := sumW_update (n := s.n) (w := w) (f := fun i => List.count κ (live cfg (s.workers i)))
    (g := fun i => List.count κ (live cfg ((stepWorker cfg s w fail).workers i))) hw
    (fun i hi => by show List.count κ (live cfg ((stepWorker cfg s w fail).workers i)) = _; rw [hne i hi])
  have := h κ
  rw [hn]
  omega

theorem uInv_stepMain {cfg : Cfg} {s : State} (h : UInv cfg s) : UInv cfg (stepMain s) := by
  unfold stepMain; split
  · exact h
  · exact h

/-- the commands on target key `κ` -/
def onKey (κ : Nat × Bytes) (p : Nat × DataCmd) : Bool := decide (p.1 = κ.1 ∧ p.2.key = κ.2)

/-- every command of an entry is a command on that entry's key -/
def OwnKey (cfg : Cfg) : Prop := ∀ e c, c ∈ cfg.restoreCmds e → c.key = e.key

theorem live_of_proj {cfg : Cfg} {entries : List Entry} (hown : OwnKey cfg) {sel : Nat} {wk : Worker}
    (hwk : WorkerOk cfg entries sel wk) {κ : Nat × Bytes} (h : (pendingOf cfg wk).filter (onKey κ) ≠ []) :
    List.count κ (live cfg wk) = 1 := by
  obtain ⟨p, hp⟩ := List.exists_mem_of_ne_nil _ h
  rw [List.mem_filter] at hp
  obtain ⟨hp1, hp2⟩ := hp
  simp only [onKey, decide_eq_true_eq] at hp2
  unfold pendingOf at hp1
  unfold live
  cases hph : wk.phase with
  | idle => simp [hph] at hp1
  | returned => simp [hph] at hp1
  | select e =>
    simp only [hph] at hp1 ⊢
    by_cases hk : keyFiltered cfg e = true
    · simp [hk] at hp1
    · rw [if_neg hk] at hp1 ⊢
      simp only [tagged, List.mem_map] at hp1
      obtain ⟨c, hc, rfl⟩ := hp1
      have : keyOf cfg e = κ := by
        simp only [keyOf]; rw [← hown e c hc]; exact Prod.ext hp2.1 hp2.2
      simp [this]
  | run e rest =>
    simp only [hph, List.mem_map] at hp1 ⊢
    obtain ⟨c, hc, rfl⟩ := hp1
    simp only [WorkerOk, hph] at hwk
    obtain ⟨pre, hpre⟩ := hwk.2.2.2.2
    have hc' : c ∈ cfg.restoreCmds e := by rw [hpre]; simp [hc]
    have : keyOf cfg e = κ := by
      simp only [keyOf]; rw [← hown e c hc']; exact Prod.ext hp2.1 hp2.2
    simp [this]

theorem excl_of_uInv {cfg : Cfg} {entries : List Entry} (hown : OwnKey cfg) {s : State} (hinv : Inv cfg entries s)
    (hu : UInv cfg s) (κ : Nat × Bytes) : Excl cfg (onKey κ) s := by
  intro w hw hpw i hi hne
  apply Classical.byContradiction
  intro hpi
  have h1 := live_of_proj hown (hinv.worker w) hpw
  have h2 := live_of_proj hown (hinv.worker i) hpi
  have := sumW_le2 (f := fun j => List.count κ (live cfg (s.workers j))) hw hi hne
  have := hu κ
  omega

end RSVerif.Lemmas.ParallelRestore
