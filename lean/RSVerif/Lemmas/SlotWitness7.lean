import RSVerif.Lemmas.SlotWitnessCheck
import RSVerif.Generated.C15Witness7
/-
Kernel check of the regenerated witness candidates for slots 14336..16383 (8 chunks of 256 rows;
one `decide +kernel` per chunk — the quantifier is a finite generated table). One of 8 such modules,
so that lake checks them in parallel; rebuilt only when a CRC16-relevant fact of the source changes.
-/
namespace RSVerif.Lemmas.Slot
open RSVerif

theorem witness_chunk_56 : chunkOK 14336 Generated.C15.slotWitness56 = true := by decide +kernel
theorem witness_chunk_57 : chunkOK 14592 Generated.C15.slotWitness57 = true := by decide +kernel
theorem witness_chunk_58 : chunkOK 14848 Generated.C15.slotWitness58 = true := by decide +kernel
theorem witness_chunk_59 : chunkOK 15104 Generated.C15.slotWitness59 = true := by decide +kernel
theorem witness_chunk_60 : chunkOK 15360 Generated.C15.slotWitness60 = true := by decide +kernel
theorem witness_chunk_61 : chunkOK 15616 Generated.C15.slotWitness61 = true := by decide +kernel
theorem witness_chunk_62 : chunkOK 15872 Generated.C15.slotWitness62 = true := by decide +kernel
theorem witness_chunk_63 : chunkOK 16128 Generated.C15.slotWitness63 = true := by decide +kernel

theorem witness_module_7 : ∀ s, 14336 ≤ s → s < 16384 → ∃ x, rowOK x s = true := by
  intro s h1 h2
  rcases Nat.lt_or_ge s 14592 with h | h1
  · exact chunk_covers 14336 _ witness_chunk_56 s h1 (by omega)
  rcases Nat.lt_or_ge s 14848 with h | h1
  · exact chunk_covers 14592 _ witness_chunk_57 s h1 (by omega)
  rcases Nat.lt_or_ge s 15104 with h | h1
  · exact chunk_covers 14848 _ witness_chunk_58 s h1 (by omega)
  rcases Nat.lt_or_ge s 15360 with h | h1
  · exact chunk_covers 15104 _ witness_chunk_59 s h1 (by omega)
  rcases Nat.lt_or_ge s 15616 with h | h1
  · exact chunk_covers 15360 _ witness_chunk_60 s h1 (by omega)
  rcases Nat.lt_or_ge s 15872 with h | h1
  · exact chunk_covers 15616 _ witness_chunk_61 s h1 (by omega)
  rcases Nat.lt_or_ge s 16128 with h | h1
  · exact chunk_covers 15872 _ witness_chunk_62 s h1 (by omega)
  exact chunk_covers 16128 _ witness_chunk_63 s h1 (by omega)

end RSVerif.Lemmas.Slot
