import RSVerif.Spec.Checkpoint
/-
Helper lemmas for C14 (checkpoint loader). Core Lean only (no Mathlib needed).
-/
namespace RSVerif.Lemmas.Checkpoint
open RSVerif RSVerif.Checkpoint

/-! ### A. field names -/

theorem offsetField_inj {a b : Bytes} (h : offsetField a = offsetField b) : a = b := by
  unfold offsetField at h
  exact List.append_cancel_right (List.append_cancel_right h)

theorem runIdField_inj {a b : Bytes} (h : runIdField a = runIdField b) : a = b := by
  unfold runIdField at h
  exact List.append_cancel_right (List.append_cancel_right h)

theorem versionField_inj {a b : Bytes} (h : versionField a = versionField b) : a = b := by
  unfold versionField at h
  exact List.append_cancel_right (List.append_cancel_right h)

theorem offset_ne_runId (a b : Bytes) : offsetField a ≠ runIdField b := by
  intro h
  have := congrArg List.reverse h
  simp [offsetField, runIdField, sep, Generated.C14.ckptOffset, Generated.C14.ckptRunId] at this

theorem offset_ne_version (a b : Bytes) : offsetField a ≠ versionField b := by
  intro h
  have := congrArg List.reverse h
  simp [offsetField, versionField, sep, Generated.C14.ckptOffset, Generated.C14.ckptVersion] at this

theorem runId_ne_version (a b : Bytes) : runIdField a ≠ versionField b := by
  intro h
  have := congrArg List.reverse h
  simp [runIdField, versionField, sep, Generated.C14.ckptRunId, Generated.C14.ckptVersion] at this

/-! ### B. the fetch loop reads the three exactly-named fields -/

def loopSpec (a : Bytes) (h : Hash) (acc : Fetched) : Option Fetched :=
  match numField (fieldOf (offsetField a) h) acc.offset, numField (fieldOf (versionField a) h) acc.version with
  | some o, some v => some ⟨(fieldOf (runIdField a) h).getD acc.runid, o, v⟩
  | _, _ => none

theorem lookup_none_of_not_mem {f : Bytes} {h : Hash} (hn : f ∉ h.map Prod.fst) : h.lookup f = none := by
  induction h with
  | nil => rfl
  | cons p rest ih =>
    simp only [List.map_cons, List.mem_cons, not_or] at hn
    obtain ⟨f', v⟩ := p
    have : (f == f') = false := by simpa using hn.1
    simp [List.lookup_cons, this, ih hn.2]

theorem fetchLoop_exact (a : Bytes) (h : Hash) (hwf : HashWF h) (acc : Fetched) :
    fetchLoop (exactMatch a) h acc = loopSpec a h acc := by
  induction h generalizing acc with
  | nil => simp [fetchLoop, loopSpec, fieldOf, numField]
  | cons p rest ih =>
    obtain ⟨f, v⟩ := p
    have hnd : f ∉ rest.map Prod.fst ∧ HashWF rest := by
      simpa [HashWF] using hwf
    have hl := lookup_none_of_not_mem hnd.1
    unfold fetchLoop
    by_cases hO : f = offsetField a
    · subst hO
      have hR : (offsetField a == runIdField a) = false := by simpa using offset_ne_runId a a
      have hV : (offsetField a == versionField a) = false := by simpa using offset_ne_version a a
      have hR' : (runIdField a == offsetField a) = false := by simpa using (offset_ne_runId a a).symm
      have hV' : (versionField a == offsetField a) = false := by simpa using (offset_ne_version a a).symm
      simp only [exactMatch, fetchPair, beq_self_eq_true, hR, hV, if_true]
      cases hp : parseInt64 v with
      | none => simp [loopSpec, fieldOf, numField, List.lookup_cons, hp]
      | some o =>
        simp only [Option.map_some, Bool.false_eq_true, if_false]
        rw [ih hnd.2]
        simp [loopSpec, fieldOf, numField, List.lookup_cons, hp, hl, hR', hV']
    · by_cases hR : f = runIdField a
      · subst hR
        have h1 : (runIdField a == offsetField a) = false := by simpa using (offset_ne_runId a a).symm
        have h2 : (runIdField a == versionField a) = false := by simpa using runId_ne_version a a
        have h3 : (offsetField a == runIdField a) = false := by simpa using offset_ne_runId a a
        have h4 : (versionField a == runIdField a) = false := by simpa using (runId_ne_version a a).symm
        simp only [exactMatch, fetchPair, beq_self_eq_true, h1, h2, if_true, Bool.false_eq_true, if_false]
        rw [ih hnd.2]
        simp [loopSpec, fieldOf, numField, List.lookup_cons, hl, h3, h4]
      · by_cases hV : f = versionField a
        · subst hV
          have h1 : (versionField a == offsetField a) = false := by simpa using (offset_ne_version a a).symm
          have h2 : (versionField a == runIdField a) = false := by simpa using (runId_ne_version a a).symm
          have h3 : (offsetField a == versionField a) = false := by simpa using offset_ne_version a a
          have h4 : (runIdField a == versionField a) = false := by simpa using runId_ne_version a a
          simp only [exactMatch, fetchPair, beq_self_eq_true, h1, h2, if_true, Bool.false_eq_true, if_false]
          cases hp : parseInt64 v with
          | none => 
            simp [loopSpec, fieldOf, numField, List.lookup_cons, hp, h3]
          | some x =>
            simp only [Option.map_some]
            rw [ih hnd.2]
            simp [loopSpec, fieldOf, numField, List.lookup_cons, hp, hl, h3, h4]
        · have h1 : (f == offsetField a) = false := by simpa using hO
          have h2 : (f == runIdField a) = false := by simpa using hR
          have h3 : (f == versionField a) = false := by simpa using hV
          have h1' : (offsetField a == f) = false := by simpa using fun h => hO h.symm
          have h2' : (runIdField a == f) = false := by simpa using fun h => hR h.symm
          have h3' : (versionField a == f) = false := by simpa using fun h => hV h.symm
          simp only [exactMatch, fetchPair, h1, h2, h3, Bool.false_eq_true, if_false]
          rw [ih hnd.2]
          simp [loopSpec, fieldOf, List.lookup_cons, h1', h2', h3']

theorem fetch_eq_ownCkpt (a : Bytes) (h : Hash) (hwf : HashWF h) :
    fetchCheckpoint exactMatch a h = ownCkpt a h := by
  unfold fetchCheckpoint ownCkpt
  split
  · rfl
  · rw [fetchLoop_exact a h hwf]; rfl

/-! ### C. the loop over the dbs picks the (first) greatest offset -/

/-- what the loop records when it picks db `d` -/
def accOf (d : Int) (f : Fetched) : Acc := ⟨f.offset, f.runid, d, f.version⟩

theorem scan_cons (m : Matcher) (a : Bytes) (st : State) (d : Int) (ds : List Int) (acc : Acc) (f : Fetched)
    (hf : fetchCheckpoint m a (hashOf st d) = some f) :
    scan m a st (d :: ds) acc = scan m a st ds (if f.offset > acc.newest then accOf d f else acc) := by
  simp only [scan, scanStep, hf, accOf]
  by_cases h : f.offset > acc.newest <;> simp [h]

theorem scan_error (m : Matcher) (a : Bytes) (st : State) (ord : List Int) (acc : Acc) (d : Int)
    (hd : d ∈ ord) (hf : fetchCheckpoint m a (hashOf st d) = none) : scan m a st ord acc = none := by
  induction ord generalizing acc with
  | nil => cases hd
  | cons x xs ih =>
    cases hx : fetchCheckpoint m a (hashOf st x) with
    | none => simp [scan, scanStep, hx]
    | some f =>
      rw [scan_cons m a st x xs acc f hx]
      rcases List.mem_cons.mp hd with h | h
      · subst h; rw [hf] at hx; cases hx
      · exact ih _ h

/-- no fetched offset exceeds the running maximum ⇒ nothing is picked -/
theorem scan_keep (m : Matcher) (a : Bytes) (st : State) (ord : List Int) (acc : Acc)
    (h : ∀ d ∈ ord, ∃ f, fetchCheckpoint m a (hashOf st d) = some f ∧ f.offset ≤ acc.newest) :
    scan m a st ord acc = some acc := by
  induction ord with
  | nil => rfl
  | cons x xs ih =>
    obtain ⟨f, hf, hle⟩ := h x (List.mem_cons_self ..)
    rw [scan_cons m a st x xs acc f hf, if_neg (by omega)]
    exact ih fun d hd => h d (List.mem_cons_of_mem _ hd)

/-- a strict, unique maximum above the start value is what the loop returns, wherever it stands in the order -/
theorem scan_unique_max (m : Matcher) (a : Bytes) (st : State) (ord : List Int) (acc : Acc) (ds : Int) (fs : Fetched)
    (hmem : ds ∈ ord) (hfs : fetchCheckpoint m a (hashOf st ds) = some fs) (hgt : fs.offset > acc.newest)
    (hall : ∀ d ∈ ord, d ≠ ds → ∃ f, fetchCheckpoint m a (hashOf st d) = some f ∧ f.offset < fs.offset) :
    scan m a st ord acc = some (accOf ds fs) := by
  induction ord generalizing acc with
  | nil => cases hmem
  | cons x xs ih =>
    by_cases hx : x = ds
    · subst hx
      rw [scan_cons m a st x xs acc fs hfs, if_pos hgt]
      apply scan_keep
      intro d hd
      by_cases hdx : d = x
      · subst hdx; exact ⟨fs, hfs, by simp [accOf]⟩
      · obtain ⟨f, hf, hlt⟩ := hall d (List.mem_cons_of_mem _ hd) hdx
        exact ⟨f, hf, by simp only [accOf]; omega⟩
    · obtain ⟨f, hf, hlt⟩ := hall x (List.mem_cons_self ..) hx
      rw [scan_cons m a st x xs acc f hf]
      have hmem' : ds ∈ xs := by
        rcases List.mem_cons.mp hmem with h | h
        · exact absurd h.symm hx
        · exact h
      apply ih _ hmem'
      · split
        · simp only [accOf]; omega
        · exact hgt
      · exact fun d hd => hall d (List.mem_cons_of_mem _ hd)

/-- in general (ties allowed): the result is the start value or some db's checkpoint, and it dominates everything -/
theorem scan_max (m : Matcher) (a : Bytes) (st : State) (ord : List Int) (acc res : Acc)
    (h : scan m a st ord acc = some res) :
    acc.newest ≤ res.newest ∧
    (∀ d ∈ ord, ∃ f, fetchCheckpoint m a (hashOf st d) = some f ∧ f.offset ≤ res.newest) ∧
    (res = acc ∨ ∃ d ∈ ord, ∃ f, fetchCheckpoint m a (hashOf st d) = some f ∧ res = accOf d f ∧ f.offset > acc.newest) := by
  induction ord generalizing acc with
  | nil =>
    simp only [scan, Option.some.injEq] at h
    subst h
    exact ⟨Int.le_refl _, (fun _ hd => by cases hd), Or.inl rfl⟩
  | cons x xs ih =>
    cases hx : fetchCheckpoint m a (hashOf st x) with
    | none => simp [scan, scanStep, hx] at h
    | some f =>
      rw [scan_cons m a st x xs acc f hx] at h
      obtain ⟨h1, h2, h3⟩ := ih _ h
      by_cases hgt : f.offset > acc.newest
      · rw [if_pos hgt] at h1 h3
        simp only [accOf] at h1
        refine ⟨by omega, ?_, ?_⟩
        · intro d hd
          rcases List.mem_cons.mp hd with hd | hd
          · subst hd; exact ⟨f, hx, h1⟩
          · exact h2 d hd
        · right
          rcases h3 with h3 | ⟨d, hd, g, hg, hres, hgg⟩
          · exact ⟨x, List.mem_cons_self .., f, hx, h3, hgt⟩
          · exact ⟨d, List.mem_cons_of_mem _ hd, g, hg, hres, by simp only [accOf] at hgg; omega⟩
      · rw [if_neg hgt] at h1 h3
        refine ⟨h1, ?_, ?_⟩
        · intro d hd
          rcases List.mem_cons.mp hd with hd | hd
          · subst hd; exact ⟨f, hx, by omega⟩
          · exact h2 d hd
        · rcases h3 with h3 | ⟨d, hd, g, hg, hres, hgg⟩
          · exact Or.inl h3
          · exact Or.inr ⟨d, List.mem_cons_of_mem _ hd, g, hg, hres, hgg⟩

/-! ### E. the state: `hashOf`, `mapHash`, `ClearCheckpoint` -/

theorem hashOf_cons (p : Int × Db) (st : State) (d : Int) :
    hashOf (p :: st) d = if p.1 = d then p.2.ckpt else hashOf st d := by
  unfold hashOf
  by_cases h : p.1 = d
  · simp [h]
  · have : (p.1 == d) = false := by simpa using h
    simp [this, h]

theorem hashOf_mapHash (st : State) (d d' : Int) (f : Hash → Hash) (hf : f [] = []) :
    hashOf (mapHash st d f) d' = if d' = d then f (hashOf st d') else hashOf st d' := by
  induction st with
  | nil => by_cases h : d' = d <;> simp [mapHash, hashOf, h, hf]
  | cons p rest ih =>
    have e : mapHash (p :: rest) d f =
        (if p.1 == d then (p.1, { p.2 with ckpt := f p.2.ckpt }) else p) :: mapHash rest d f := by
      simp [mapHash]
    rw [e, hashOf_cons, hashOf_cons, ih]
    by_cases hp : p.1 = d
    · subst hp
      by_cases hd : d' = p.1
      · subst hd; simp
      · have : ¬ p.1 = d' := fun h => hd h.symm
        simp [hd, this]
    · have hb : (p.1 == d) = false := by simpa using hp
      simp only [hb, Bool.false_eq_true, if_false]
      by_cases hd : p.1 = d'
      · subst hd; simp [hp]
      · simp [hd]

theorem keys_mapHash (st : State) (d : Int) (f : Hash → Hash) :
    (mapHash st d f).map Prod.fst = st.map Prod.fst := by
  simp only [mapHash, List.map_map]
  apply List.map_congr_left
  intro p _
  simp only [Function.comp]
  split <;> rfl

theorem clearHash_nil (a : Bytes) : clearHash a [] = [] := rfl

theorem clearHash_idem (a : Bytes) (h : Hash) : clearHash a (clearHash a h) = clearHash a h := by
  simp [clearHash, List.filter_filter]

/-- the entry-wise description of `ClearCheckpoint`, independent of the iteration order -/
def clearEntry (a : Bytes) (ex : Int) (ord : List Int) (p : Int × Db) : Int × Db :=
  if p.1 ≠ ex ∧ p.1 ∈ ord then (p.1, { p.2 with ckpt := clearHash a p.2.ckpt }) else p

theorem clearAll_eq_map (a : Bytes) (ex : Int) (ord : List Int) (st : State) :
    clearAll a ex ord st = st.map (clearEntry a ex ord) := by
  induction ord generalizing st with
  | nil =>
    have : clearEntry a ex [] = id := funext fun p => by simp [clearEntry]
    simp [clearAll, this]
  | cons d ds ih =>
    have e : clearAll a ex (d :: ds) st = clearAll a ex ds (clearStep a ex st d) := by
      simp [clearAll]
    rw [e, ih]
    unfold clearStep
    by_cases hd : d = ex
    · subst hd
      rw [if_pos rfl]
      apply List.map_congr_left
      intro p _
      unfold clearEntry
      by_cases hp : p.1 = d
      · simp [hp]
      · simp [hp]
    · rw [if_neg hd]
      unfold mapHash
      rw [List.map_map]
      apply List.map_congr_left
      intro p _
      simp only [Function.comp, clearEntry]
      by_cases hp : p.1 = d
      · subst hp
        simp only [beq_self_eq_true, if_true]
        by_cases hm : p.1 ∈ ds
        · simp [hd, hm, clearHash_idem]
        · simp [hd, hm]
      · have hb : (p.1 == d) = false := by simpa using hp
        simp only [hb, Bool.false_eq_true, if_false]
        simp [hp]

theorem clearAll_perm (a : Bytes) (ex : Int) (o1 o2 : List Int) (st : State) (h : o1.Perm o2) :
    clearAll a ex o1 st = clearAll a ex o2 st := by
  rw [clearAll_eq_map, clearAll_eq_map]
  apply List.map_congr_left
  intro p _
  simp only [clearEntry, h.mem_iff]

theorem keys_clearAll (a : Bytes) (ex : Int) (ord : List Int) (st : State) :
    (clearAll a ex ord st).map Prod.fst = st.map Prod.fst := by
  rw [clearAll_eq_map, List.map_map]
  apply List.map_congr_left
  intro p _
  simp only [Function.comp, clearEntry]
  split <;> rfl

theorem hashOf_map_entry (st : State) (g : Int × Db → Int × Db) (k : Hash → Int → Hash)
    (hk : ∀ d, k [] d = []) (hg : ∀ p, (g p).1 = p.1 ∧ (g p).2.ckpt = k p.2.ckpt p.1) (d : Int) :
    hashOf (st.map g) d = k (hashOf st d) d := by
  induction st with
  | nil => simp [hashOf, hk]
  | cons p rest ih =>
    rw [List.map_cons, hashOf_cons, hashOf_cons, ih, (hg p).1, (hg p).2]
    by_cases h : p.1 = d
    · subst h; simp
    · simp [h]

theorem hashOf_clearAll (a : Bytes) (ex : Int) (ord : List Int) (st : State) (d : Int) :
    hashOf (clearAll a ex ord st) d = if d ≠ ex ∧ d ∈ ord then clearHash a (hashOf st d) else hashOf st d := by
  rw [clearAll_eq_map]
  rw [hashOf_map_entry st (clearEntry a ex ord)
    (fun h d => if d ≠ ex ∧ d ∈ ord then clearHash a h else h)]
  · intro d; simp [clearHash_nil]
  · intro p
    unfold clearEntry
    split <;> simp

/-! ### F1. decimal rendering and `strconv.ParseInt` -/

def isDigit (b : UInt8) : Prop := 48 ≤ b.toNat ∧ b.toNat ≤ 57

theorem digitChar_toNat (d : Nat) (h : d < 10) : (digitChar d).toNat = 48 + d := by
  unfold digitChar
  simp [UInt8.toNat_ofNat', Nat.mod_eq_of_lt (show 48 + d < 256 by omega)]

theorem digitVal_digitChar (d : Nat) (h : d < 10) : digitVal (digitChar d) = some d := by
  unfold digitVal
  rw [digitChar_toNat d h]
  simp; omega

theorem isDigit_digitChar (d : Nat) (h : d < 10) : isDigit (digitChar d) := by
  unfold isDigit; rw [digitChar_toNat d h]; omega

theorem renderNatAux_acc (fuel n : Nat) (acc : Bytes) :
    renderNatAux fuel n acc = renderNatAux fuel n [] ++ acc := by
  induction fuel generalizing n acc with
  | zero => simp [renderNatAux]
  | succ k ih =>
    unfold renderNatAux
    split
    · simp
    · rw [ih (n / 10) (digitChar (n % 10) :: acc), ih (n / 10) [digitChar (n % 10)]]; simp

theorem parseDigits_append (xs ys : Bytes) (k : Nat) :
    parseDigits (xs ++ ys) k = (parseDigits xs k).bind (parseDigits ys) := by
  induction xs generalizing k with
  | nil => simp [parseDigits]
  | cons b bs ih =>
    simp only [List.cons_append, parseDigits]
    cases digitVal b with
    | none => rfl
    | some d => exact ih _

theorem parseDigits_renderNatAux (fuel n : Nat) (h : n < fuel) :
    parseDigits (renderNatAux fuel n []) 0 = some n := by
  induction fuel generalizing n with
  | zero => omega
  | succ k ih =>
    unfold renderNatAux
    split
    · rename_i hn
      simp [parseDigits, digitVal_digitChar n hn]
    · rename_i hn
      rw [renderNatAux_acc, parseDigits_append, ih (n / 10) (by omega)]
      simp only [Option.bind_some, parseDigits, digitVal_digitChar (n % 10) (Nat.mod_lt _ (by omega))]
      congr 1; omega

theorem digits_renderNatAux (fuel n : Nat) (acc : Bytes) (b : UInt8) (hb : b ∈ renderNatAux fuel n acc) :
    isDigit b ∨ b ∈ acc := by
  induction fuel generalizing n acc with
  | zero => right; simpa [renderNatAux] using hb
  | succ k ih =>
    unfold renderNatAux at hb
    split at hb
    · rename_i hn
      rcases List.mem_cons.mp hb with h | h
      · left; rw [h]; exact isDigit_digitChar n hn
      · right; exact h
    · rcases ih _ _ hb with h | h
      · left; exact h
      · rcases List.mem_cons.mp h with h | h
        · left; rw [h]; exact isDigit_digitChar _ (Nat.mod_lt _ (by omega))
        · right; exact h

theorem digits_renderNat (n : Nat) (b : UInt8) (hb : b ∈ renderNat n) : isDigit b := by
  rcases digits_renderNatAux _ _ _ _ hb with h | h
  · exact h
  · cases h

theorem renderNat_ne_nil (n : Nat) : renderNat n ≠ [] := by
  unfold renderNat renderNatAux
  split
  · simp
  · rw [renderNatAux_acc]; simp

theorem parseDigits_renderNat (n : Nat) : parseDigits (renderNat n) 0 = some n :=
  parseDigits_renderNatAux (n + 1) n (by omega)

theorem parseInt64_renderNat (n : Nat) (h : n < two63) : parseInt64 (renderNat n) = some (n : Int) := by
  have hne := renderNat_ne_nil n
  cases hs : renderNat n with
  | nil => exact absurd hs hne
  | cons b bs =>
    have hd : isDigit b := digits_renderNat n b (by rw [hs]; exact List.mem_cons_self ..)
    have h43 : b ≠ 43 := by intro e; subst e; unfold isDigit at hd; revert hd; decide
    have h45 : b ≠ 45 := by intro e; subst e; unfold isDigit at hd; revert hd; decide
    have hp := parseDigits_renderNat n
    rw [hs] at hp
    unfold parseInt64
    simp [h43, h45, hp, h]

theorem renderInt_nonneg (i : Int) (h : 0 ≤ i) : renderInt i = renderNat i.toNat := by
  unfold renderInt
  rw [if_neg (by omega)]
  congr 1
  omega

theorem parseInt64_renderInt (i : Int) (h1 : -(two63 : Int) ≤ i) (h2 : i < two63) :
    parseInt64 (renderInt i) = some i := by
  by_cases hneg : i < 0
  · unfold renderInt
    rw [if_pos hneg]
    have hne := renderNat_ne_nil i.natAbs
    have hp := parseDigits_renderNat i.natAbs
    unfold parseInt64
    have hle : i.natAbs ≤ two63 := by omega
    simp [hp, hle, hne]
    omega
  · rw [renderInt_nonneg i (by omega), parseInt64_renderNat _ (by omega)]
    congr 1; omega

/-! ### F2. `bytes.Split`, `bytes.TrimSpace` on rendered lines -/

theorem splitAux_no_sep (sep : UInt8) (x cur : Bytes) (h : sep ∉ x) :
    splitAux sep x cur = [cur.reverse ++ x] := by
  induction x generalizing cur with
  | nil => simp [splitAux]
  | cons b bs ih =>
    have hb : b ≠ sep := fun e => h (by rw [e]; exact List.mem_cons_self ..)
    have hbs : sep ∉ bs := fun e => h (List.mem_cons_of_mem _ e)
    simp [splitAux, hb, ih _ hbs]

theorem splitAux_append (sep : UInt8) (x rest cur : Bytes) (h : sep ∉ x) :
    splitAux sep (x ++ sep :: rest) cur = (cur.reverse ++ x) :: splitAux sep rest [] := by
  induction x generalizing cur with
  | nil => simp [splitAux]
  | cons b bs ih =>
    have hb : b ≠ sep := fun e => h (by rw [e]; exact List.mem_cons_self ..)
    have hbs : sep ∉ bs := fun e => h (List.mem_cons_of_mem _ e)
    simp [splitAux, hb, ih _ hbs]

theorem trimRight_snoc_nonspace (y : Bytes) (c : UInt8) (hc : isSpace c = false) :
    trimRight (y ++ [c]) = y ++ [c] := by
  induction y with
  | nil => simp [trimRight, hc]
  | cons b bs ih =>
    simp only [List.cons_append, trimRight, ih]
    cases hbs : bs ++ [c] with
    | nil => simp at hbs
    | cons _ _ => rfl

theorem trimRight_append_space (x : Bytes) (c : UInt8) (hc : isSpace c = true) (hx : trimRight x = x) (hne : x ≠ []) :
    trimRight (x ++ [c]) = x := by
  induction x with
  | nil => exact absurd rfl hne
  | cons b bs ih =>
    simp only [List.cons_append, trimRight] at hx ⊢
    cases hbs : bs with
    | nil =>
      subst hbs
      simp only [List.nil_append, trimRight, hc, if_true] at hx ⊢
      exact hx
    | cons b' bs' =>
      have hne' : bs ≠ [] := by rw [hbs]; simp
      have htr : trimRight bs = bs := by
        rw [hbs] at hx ⊢
        cases ht : trimRight (b' :: bs') with
        | nil =>
          rw [ht] at hx; simp only [] at hx
          by_cases hsp : isSpace b = true <;> simp [hsp] at hx
        | cons u us => rw [ht] at hx; simpa using hx
      have := ih htr hne'
      rw [← hbs, this, hbs]

end RSVerif.Lemmas.Checkpoint
namespace RSVerif.Lemmas.Checkpoint
open RSVerif RSVerif.Checkpoint

/-! ### F3. `ParseKeyspace` on MiniRedis' `INFO keyspace` -/

def infoTail : Bytes := [44, 101, 120, 112, 105, 114, 101, 115, 61, 48, 44, 97, 118, 103, 95, 116, 116, 108, 61]

/-- an `INFO keyspace` line without its CR LF -/
def lineBody (d n : Nat) : Bytes := ksDb ++ renderNat d ++ [58] ++ ksKeys ++ renderNat n ++ infoTail ++ [48]

theorem not_digit_of_lt {b c : UInt8} (hb : b ∈ renderNat n) (hc : c.toNat < 48 ∨ 57 < c.toNat) : b ≠ c := by
  intro e; subst e
  have := digits_renderNat n b hb
  unfold isDigit at this
  omega

theorem sep_not_mem_renderNat (n : Nat) (c : UInt8) (hc : c.toNat < 48 ∨ 57 < c.toNat) : c ∉ renderNat n :=
  fun h => not_digit_of_lt h hc rfl

theorem toInt32_id (x : Int) (h0 : 0 ≤ x) (h1 : x < 2147483648) : toInt32 x = x := by
  unfold toInt32
  rw [Int.emod_eq_of_lt (by omega) (by omega)]
  omega

theorem ksLine_lineBody (d n : Nat) (hd : d < 2147483648) (hn : n < two63) :
    ksLine (lineBody d n ++ [13]) = .db (d : Int) := by
  have htrim : trimSpace (lineBody d n ++ [13]) = lineBody d n := by
    unfold trimSpace
    have h1 : (lineBody d n ++ [13]).dropWhile isSpace = lineBody d n ++ [13] := by
      simp [lineBody, ksDb, isSpace]
    rw [h1]
    apply trimRight_append_space _ 13 (by decide)
    · exact trimRight_snoc_nonspace _ 48 (by decide)
    · simp [lineBody]
  have hsplit : splitOn 58 (lineBody d n) = [ksDb ++ renderNat d, ksKeys ++ renderNat n ++ infoTail ++ [48]] := by
    unfold splitOn
    have e : lineBody d n = (ksDb ++ renderNat d) ++ 58 :: (ksKeys ++ renderNat n ++ infoTail ++ [48]) := by
      simp [lineBody]
    rw [e, splitAux_append, splitAux_no_sep]
    · simp
    · intro h
      simp only [List.mem_append] at h
      rcases h with ((h | h) | h) | h
      · revert h; decide
      · exact sep_not_mem_renderNat n 58 (by decide) h
      · revert h; decide
      · revert h; decide
    · intro h
      simp only [List.mem_append] at h
      rcases h with h | h
      · revert h; decide
      · exact sep_not_mem_renderNat d 58 (by decide) h
  have hsplit2 : splitOn 44 (ksKeys ++ renderNat n ++ infoTail ++ [48]) =
      (ksKeys ++ renderNat n) :: splitAux 44 ([101, 120, 112, 105, 114, 101, 115, 61, 48, 44, 97, 118, 103, 95, 116, 116, 108, 61] ++ [48]) [] := by
    unfold splitOn
    have e : ksKeys ++ renderNat n ++ infoTail ++ [48] =
        (ksKeys ++ renderNat n) ++ 44 :: ([101, 120, 112, 105, 114, 101, 115, 61, 48, 44, 97, 118, 103, 95, 116, 116, 108, 61] ++ [48]) := by
      simp [infoTail]
    rw [e, splitAux_append]
    · simp
    · intro h
      simp only [List.mem_append] at h
      rcases h with h | h
      · revert h; decide
      · exact sep_not_mem_renderNat n 44 (by decide) h
  unfold ksLine
  simp only [htrim]
  have hpre : ksDb.isPrefixOf (lineBody d n) = true := by
    simp [lineBody, ksDb, List.isPrefixOf]
  rw [hpre, hsplit]
  have hdrop : ((ksDb ++ renderNat d) : Bytes).drop 2 = renderNat d := by simp [ksDb]
  simp only [Bool.not_true, Bool.false_eq_true, if_false, List.headD_cons, hdrop,
    parseInt64_renderNat d (by unfold two63; omega), hsplit2]
  have hpre2 : ksKeys.isPrefixOf (ksKeys ++ renderNat n) = true := by
    simp [ksKeys, List.isPrefixOf]
  have hdrop2 : ((ksKeys ++ renderNat n) : Bytes).drop 5 = renderNat n := by simp [ksKeys]
  simp only [hpre2, hdrop2, parseInt64_renderNat n hn, Bool.not_true, Bool.false_eq_true, if_false]
  rw [toInt32_id _ (by omega) (by omega)]

end RSVerif.Lemmas.Checkpoint
namespace RSVerif.Lemmas.Checkpoint
open RSVerif RSVerif.Checkpoint

theorem infoLine_eq (p : Int × Db) (h0 : 0 ≤ p.1) :
    infoLine p = (lineBody p.1.toNat (dbKeyCount p.2) ++ [13]) ++ 10 :: [] := by
  simp [infoLine, lineBody, infoTail, renderInt_nonneg p.1 h0]

theorem nl_not_mem_lineBody (d n : Nat) : (10 : UInt8) ∉ lineBody d n ++ [13] := by
  intro h
  simp only [lineBody, List.mem_append] at h
  rcases h with ((((((h | h) | h) | h) | h) | h) | h) | h
  · revert h; decide
  · exact sep_not_mem_renderNat d 10 (by decide) h
  · revert h; decide
  · revert h; decide
  · exact sep_not_mem_renderNat n 10 (by decide) h
  · revert h; decide
  · revert h; decide
  · revert h; decide

/-- the entries `INFO keyspace` can render faithfully: int32 db index, key count below 2^63 -/
def Renderable (p : Int × Db) : Prop := 0 ≤ p.1 ∧ p.1 < maxDb ∧ dbKeyCount p.2 < two63

theorem split_lines (L : State) (hL : ∀ p ∈ L, Renderable p) :
    splitAux 10 (L.flatMap infoLine) [] =
      L.map (fun p => lineBody p.1.toNat (dbKeyCount p.2) ++ [13]) ++ [[]] := by
  induction L with
  | nil => simp [splitAux]
  | cons p rest ih =>
    have hp := hL p (List.mem_cons_self ..)
    rw [List.flatMap_cons, infoLine_eq p hp.1]
    have e : (lineBody p.1.toNat (dbKeyCount p.2) ++ [13]) ++ 10 :: [] ++ rest.flatMap infoLine =
        (lineBody p.1.toNat (dbKeyCount p.2) ++ [13]) ++ 10 :: rest.flatMap infoLine := by simp
    rw [e, splitAux_append _ _ _ _ (nl_not_mem_lineBody _ _)]
    rw [ih fun q hq => hL q (List.mem_cons_of_mem _ hq)]
    simp

theorem insertKey_new (k : Int) (acc : List Int) (h : k ∉ acc) : insertKey k acc = acc ++ [k] := by
  simp [insertKey, h]

theorem ksLines_info (L : State) (acc : List Int) (hL : ∀ p ∈ L, Renderable p)
    (hnd : (acc ++ L.map Prod.fst).Nodup) :
    ksLines (L.map (fun p => lineBody p.1.toNat (dbKeyCount p.2) ++ [13]) ++ [[]]) acc =
      .ok (acc ++ L.map Prod.fst) := by
  induction L generalizing acc with
  | nil =>
    have : ksLine [] = .skip := by decide
    simp [ksLines, this]
  | cons p rest ih =>
    have hp := hL p (List.mem_cons_self ..)
    unfold Renderable maxDb at hp
    have hline := ksLine_lineBody p.1.toNat (dbKeyCount p.2) (by omega) hp.2.2
    have hcast : ((p.1.toNat : Nat) : Int) = p.1 := by omega
    rw [hcast] at hline
    simp only [List.map_cons, List.cons_append, ksLines, hline]
    have hnew : p.1 ∉ acc := by
      intro hmem
      have := List.nodup_append.mp hnd
      exact this.2.2 _ hmem _ (List.mem_cons_self ..) rfl
    rw [insertKey_new _ _ hnew, ih]
    · simp
    · exact fun q hq => hL q (List.mem_cons_of_mem _ hq)
    · simpa using hnd

theorem parseKeyspace_info (st : State) (hL : ∀ p ∈ liveDbs st, Renderable p)
    (hnd : ((liveDbs st).map Prod.fst).Nodup) :
    parseKeyspace (infoKeyspace st) = .ok ((liveDbs st).map Prod.fst) := by
  unfold parseKeyspace infoKeyspace
  have hpre : ksHeader.isPrefixOf (ksHeader ++ [13, 10] ++ (liveDbs st).flatMap infoLine) = true := by
    simp [ksHeader, List.isPrefixOf]
  rw [hpre]
  simp only [Bool.not_true, Bool.false_eq_true, if_false]
  unfold splitOn
  have e : ksHeader ++ [13, 10] ++ (liveDbs st).flatMap infoLine =
      (ksHeader ++ [13]) ++ 10 :: (liveDbs st).flatMap infoLine := by simp
  rw [e, splitAux_append _ _ _ _ (by decide), split_lines _ hL]
  have hh : ksLine ([].reverse ++ (ksHeader ++ [13])) = .skip := by decide
  simp only [ksLines, hh]
  have := ksLines_info (liveDbs st) [] hL (by simpa using hnd)
  simpa using this

/-! ### G. `hset` / `hdel` on the target, well-formedness of reachable states -/

theorem fieldOf_hsetHash (g f v : Bytes) (h : Hash) :
    fieldOf g (hsetHash f v h) = if g = f then some v else fieldOf g h := by
  induction h with
  | nil =>
    by_cases e : g = f
    · subst e; simp [hsetHash, fieldOf]
    · have : (g == f) = false := by simpa using e
      simp [hsetHash, fieldOf, List.lookup_cons, this, e]
  | cons p rest ih =>
    obtain ⟨k, w⟩ := p
    unfold fieldOf at ih ⊢
    by_cases hk : k = f
    · subst hk
      by_cases e : g = k
      · subst e; simp [hsetHash]
      · have : (g == k) = false := by simpa using e
        simp [hsetHash, List.lookup_cons, this, e]
    · simp only [hsetHash, hk, if_false, List.lookup_cons]
      by_cases e : g = k
      · subst e
        have : ¬ g = f := hk
        simp [this]
      · have : (g == k) = false := by simpa using e
        simp only [this, ih]

theorem keys_hsetHash (f v : Bytes) (h : Hash) :
    (hsetHash f v h).map Prod.fst = if f ∈ h.map Prod.fst then h.map Prod.fst else h.map Prod.fst ++ [f] := by
  induction h with
  | nil => simp [hsetHash]
  | cons p rest ih =>
    obtain ⟨k, w⟩ := p
    by_cases hk : k = f
    · subst hk; simp [hsetHash]
    · have hk' : ¬ f = k := fun e => hk e.symm
      simp only [hsetHash, hk, if_false, List.map_cons, ih, List.mem_cons, hk', false_or]
      split <;> simp

theorem hashWF_hsetHash (f v : Bytes) (h : Hash) (hwf : HashWF h) : HashWF (hsetHash f v h) := by
  unfold HashWF at *
  rw [keys_hsetHash]
  split
  · exact hwf
  · rename_i hn
    rw [List.nodup_append]
    exact ⟨hwf, by simp, fun a ha b hb => by simp at hb; subst hb; exact fun e => hn (e ▸ ha)⟩

theorem hsetHash_ne_nil (f v : Bytes) (h : Hash) : hsetHash f v h ≠ [] := by
  cases h with
  | nil => simp [hsetHash]
  | cons p rest => obtain ⟨k, w⟩ := p; simp only [hsetHash]; split <;> simp

theorem hashWF_filter (q : Bytes × Bytes → Bool) (h : Hash) (hwf : HashWF h) : HashWF (h.filter q) := by
  unfold HashWF at *
  exact hwf.sublist ((List.filter_sublist).map _)

theorem fieldOf_filter (g : Bytes) (q : Bytes → Bool) (h : Hash) :
    fieldOf g (h.filter fun p => q p.1) = if q g then fieldOf g h else none := by
  unfold fieldOf
  induction h with
  | nil => simp
  | cons p rest ih =>
    obtain ⟨k, w⟩ := p
    by_cases hq : q k = true
    · simp only [List.filter_cons, hq, if_true, List.lookup_cons]
      by_cases e : g = k
      · subst e; simp [hq]
      · have : (g == k) = false := by simpa using e
        simp only [this, ih]
    · have hq' : q k = false := by simpa using hq
      simp only [List.filter_cons, hq', Bool.false_eq_true, if_false, List.lookup_cons, ih]
      by_cases e : g = k
      · subst e; simp [hq']
      · have : (g == k) = false := by simpa using e
        simp [this]

theorem any_key_iff (st : State) (d : Int) : st.any (fun p => p.1 == d) = true ↔ d ∈ st.map Prod.fst := by
  simp only [List.any_eq_true, List.mem_map, beq_iff_eq]

theorem hashOf_not_mem (st : State) (d : Int) (h : d ∉ st.map Prod.fst) : hashOf st d = [] := by
  induction st with
  | nil => rfl
  | cons p rest ih =>
    simp only [List.map_cons, List.mem_cons, not_or] at h
    rw [hashOf_cons, if_neg (fun e => h.1 e.symm), ih h.2]

theorem hashOf_append_new (st : State) (d d' : Int) (db : Db) (h : d ∉ st.map Prod.fst) :
    hashOf (st ++ [(d, db)]) d' = if d' = d then db.ckpt else hashOf st d' := by
  induction st with
  | nil =>
    rw [List.nil_append, hashOf_cons]
    by_cases e : d' = d
    · subst e; simp
    · have : ¬ d = d' := fun x => e x.symm
      simp [e, this, hashOf]
  | cons p rest ih =>
    simp only [List.map_cons, List.mem_cons, not_or] at h
    rw [List.cons_append, hashOf_cons, hashOf_cons, ih h.2]
    by_cases e : p.1 = d'
    · have : ¬ d' = d := fun x => h.1 (by rw [← x, e])
      simp [e, this]
    · simp [e]

/-- a general in-place update of the hash of db `d`: `mapHash` only touches an entry that exists -/
theorem hashOf_mapHash_gen (st : State) (d d' : Int) (f : Hash → Hash) :
    hashOf (mapHash st d f) d' =
      if d' = d then (if d ∈ st.map Prod.fst then f (hashOf st d) else []) else hashOf st d' := by
  induction st with
  | nil => by_cases h : d' = d <;> simp [mapHash, hashOf, h]
  | cons p rest ih =>
    have e : mapHash (p :: rest) d f =
        (if p.1 == d then (p.1, { p.2 with ckpt := f p.2.ckpt }) else p) :: mapHash rest d f := by
      simp [mapHash]
    rw [e, hashOf_cons, hashOf_cons, hashOf_cons, ih]
    by_cases hp : p.1 = d
    · subst hp
      by_cases hd : d' = p.1
      · subst hd; simp
      · have : ¬ p.1 = d' := fun h => hd h.symm
        simp [hd, this]
    · have hb : (p.1 == d) = false := by simpa using hp
      have hp' : ¬ d = p.1 := fun h => hp h.symm
      simp only [hb, Bool.false_eq_true, if_false, List.map_cons, List.mem_cons, hp', false_or, hp]
      by_cases hd : d' = d
      · subst hd; simp [hp]
      · by_cases hq : p.1 = d'
        · simp [hq, hd]
        · simp [hq, hd]

theorem hashOf_mapHash_mem (st : State) (d d' : Int) (f : Hash → Hash) (hm : d ∈ st.map Prod.fst) :
    hashOf (mapHash st d f) d' = if d' = d then f (hashOf st d') else hashOf st d' := by
  rw [hashOf_mapHash_gen, if_pos hm]
  by_cases h : d' = d
  · subst h; simp
  · simp [h]

theorem hashOf_hset (st : State) (d d' : Int) (f v : Bytes) :
    hashOf (hset st d f v) d' = if d' = d then hsetHash f v (hashOf st d') else hashOf st d' := by
  unfold hset
  by_cases hm : d ∈ st.map Prod.fst
  · rw [if_pos ((any_key_iff st d).mpr hm), hashOf_mapHash_mem st d d' _ hm]
  · have : ¬ (st.any (fun p => p.1 == d) = true) := fun h => hm ((any_key_iff st d).mp h)
    rw [if_neg this, hashOf_append_new st d d' _ hm]
    by_cases e : d' = d
    · subst e; simp [hashOf_not_mem st d' hm, hsetHash]
    · simp [e]

theorem hashOf_hdel (st : State) (d d' : Int) (f : Bytes) :
    hashOf (hdel st d f) d' = if d' = d then (hashOf st d').filter (fun p => p.1 != f) else hashOf st d' := by
  unfold hdel
  exact hashOf_mapHash st d d' _ rfl

end RSVerif.Lemmas.Checkpoint
namespace RSVerif.Lemmas.Checkpoint
open RSVerif RSVerif.Checkpoint

theorem wf_nil : WF [] := ⟨by simp, by simp, by simp, by simp⟩

/-- entry-wise update that keeps keys and `others` and maps hashes by WF-preserving functions -/
theorem wf_map_entries (st : State) (g : Int × Db → Int × Db)
    (hk : ∀ p, (g p).1 = p.1) (ho : ∀ p, (g p).2.others = p.2.others)
    (hh : ∀ p, HashWF p.2.ckpt → HashWF (g p).2.ckpt) (hwf : WF st) : WF (st.map g) := by
  refine ⟨?_, ?_, ?_, ?_⟩
  · have : (st.map g).map Prod.fst = st.map Prod.fst := by
      rw [List.map_map]; exact List.map_congr_left fun p _ => hk p
    rw [this]; exact hwf.nodup
  · intro q hq
    obtain ⟨p, hp, rfl⟩ := List.mem_map.mp hq
    rw [hk]; exact hwf.range p hp
  · intro q hq
    obtain ⟨p, hp, rfl⟩ := List.mem_map.mp hq
    exact hh p (hwf.hashes p hp)
  · intro q hq
    obtain ⟨p, hp, rfl⟩ := List.mem_map.mp hq
    rw [ho]; exact hwf.counts p hp

theorem wf_mapHash (st : State) (d : Int) (f : Hash → Hash) (hf : ∀ h, HashWF h → HashWF (f h)) (hwf : WF st) :
    WF (mapHash st d f) := by
  unfold mapHash
  apply wf_map_entries st _ _ _ _ hwf
  · intro p; split <;> rfl
  · intro p; split <;> rfl
  · intro p hp; split
    · exact hf _ hp
    · exact hp

theorem wf_append (st : State) (d : Int) (db : Db) (hnew : d ∉ st.map Prod.fst) (hr : validDb d)
    (hh : HashWF db.ckpt) (hc : db.others + 1 < two63) (hwf : WF st) : WF (st ++ [(d, db)]) := by
  refine ⟨?_, ?_, ?_, ?_⟩
  · rw [List.map_append, List.nodup_append]
    exact ⟨hwf.nodup, by simp, fun a ha b hb => by simp at hb; subst hb; exact fun e => hnew (e ▸ ha)⟩
  · intro p hp
    rcases List.mem_append.mp hp with h | h
    · exact hwf.range p h
    · simp at h; subst h; exact hr
  · intro p hp
    rcases List.mem_append.mp hp with h | h
    · exact hwf.hashes p h
    · simp at h; subst h; exact hh
  · intro p hp
    rcases List.mem_append.mp hp with h | h
    · exact hwf.counts p h
    · simp at h; subst h; exact hc

theorem wf_hset (st : State) (d : Int) (f v : Bytes) (hd : validDb d) (hwf : WF st) : WF (hset st d f v) := by
  unfold hset
  split
  · exact wf_mapHash st d _ (hashWF_hsetHash f v) hwf
  · rename_i hn
    have hnew : d ∉ st.map Prod.fst := fun h => hn ((any_key_iff st d).mpr h)
    exact wf_append st d _ hnew hd (by simp [HashWF]) (by simp [two63]) hwf

theorem wf_hdel (st : State) (d : Int) (f : Bytes) (hwf : WF st) : WF (hdel st d f) :=
  wf_mapHash st d _ (fun h hh => hashWF_filter _ h hh) hwf

theorem wf_setOthers (st : State) (d : Int) (n : Nat) (hd : validDb d) (hn : n + 1 < two63) (hwf : WF st) :
    WF (setOthers st d n) := by
  unfold setOthers
  split
  · refine ⟨?_, ?_, ?_, ?_⟩
    · have : (st.map fun p => if p.1 == d then (p.1, { p.2 with others := n }) else p).map Prod.fst = st.map Prod.fst := by
        rw [List.map_map]; apply List.map_congr_left; intro p _; simp only [Function.comp]; split <;> rfl
      rw [this]; exact hwf.nodup
    · intro q hq
      obtain ⟨p, hp, rfl⟩ := List.mem_map.mp hq
      split
      · exact hwf.range p hp
      · exact hwf.range p hp
    · intro q hq
      obtain ⟨p, hp, rfl⟩ := List.mem_map.mp hq
      split
      · exact hwf.hashes p hp
      · exact hwf.hashes p hp
    · intro q hq
      obtain ⟨p, hp, rfl⟩ := List.mem_map.mp hq
      split
      · exact hn
      · exact hwf.counts p hp
  · rename_i hnm
    have hnew : d ∉ st.map Prod.fst := fun h => hnm ((any_key_iff st d).mpr h)
    exact wf_append st d _ hnew hd (by simp [HashWF]) hn hwf

theorem wf_clearAll (a : Bytes) (ex : Int) (ord : List Int) (st : State) (hwf : WF st) :
    WF (clearAll a ex ord st) := by
  rw [clearAll_eq_map]
  apply wf_map_entries st _ _ _ _ hwf
  · intro p; unfold clearEntry; split <;> rfl
  · intro p; unfold clearEntry; split <;> rfl
  · intro p hp; unfold clearEntry; split
    · exact hashWF_filter _ _ hp
    · exact hp

theorem wf_applyBatch (st : State) (b : Batch) (hd : validDb b.db) (hwf : WF st) : WF (applyBatch st b) := by
  unfold applyBatch
  apply wf_hset _ _ _ _ hd
  split
  · exact wf_hset _ _ _ _ hd (wf_hset _ _ _ _ hd hwf)
  · exact hwf

theorem wf_applyOp (st : State) (op : Op) (hv : op.Valid) (hwf : WF st) : WF (applyOp st op) := by
  cases op with
  | batch b => exact wf_applyBatch st b hv hwf
  | oldBatch src d runid offset =>
    simp only [applyOp]
    apply wf_hset _ _ _ _ hv
    cases runid with
    | none => exact hwf
    | some r => exact wf_hset _ _ _ _ hv hwf
  | data d n => exact wf_setOthers st d n hv.1 hv.2 hwf
  | hset d f v => exact wf_hset st d f v hv hwf
  | hdel d f => exact wf_hdel st d f hwf
  | clear src ex ord => exact wf_clearAll src ex ord st hwf

theorem reachable_wf (st : State) (h : Reachable st) : WF st := by
  induction h with
  | empty => exact wf_nil
  | step st op _ hv ih => exact wf_applyOp st op hv ih

/-- consequences of well-formedness used by the loader theorems -/
theorem hashWF_hashOf (st : State) (hwf : WF st) (d : Int) : HashWF (hashOf st d) := by
  have h := hwf.hashes
  induction st with
  | nil => simp [hashOf, HashWF]
  | cons p rest ih =>
    rw [hashOf_cons]
    split
    · exact h p (List.mem_cons_self ..)
    · exact ih ⟨(List.nodup_cons.mp hwf.nodup).2, fun q hq => hwf.range q (List.mem_cons_of_mem _ hq),
        fun q hq => hwf.hashes q (List.mem_cons_of_mem _ hq), fun q hq => hwf.counts q (List.mem_cons_of_mem _ hq)⟩
        (fun q hq => h q (List.mem_cons_of_mem _ hq))

theorem liveDbs_keys_nodup (st : State) (hwf : WF st) : ((liveDbs st).map Prod.fst).Nodup :=
  hwf.nodup.sublist ((List.filter_sublist).map _)

theorem liveDbs_renderable (st : State) (hwf : WF st) : ∀ p ∈ liveDbs st, Renderable p := by
  intro p hp
  have hm : p ∈ st := (List.mem_filter.mp hp).1
  refine ⟨(hwf.range p hm).1, (hwf.range p hm).2, ?_⟩
  have := hwf.counts p hm
  unfold dbKeyCount
  split <;> omega

theorem parseKeyspace_wf (st : State) (hwf : WF st) :
    parseKeyspace (infoKeyspace st) = .ok ((liveDbs st).map Prod.fst) :=
  parseKeyspace_info st (liveDbs_renderable st hwf) (liveDbs_keys_nodup st hwf)

/-- every db that holds a checkpoint hash is listed by `INFO keyspace` -/
theorem mem_liveDbs_of_hash (st : State) (d : Int) (h : hashOf st d ≠ []) : d ∈ (liveDbs st).map Prod.fst := by
  induction st with
  | nil => exact absurd rfl h
  | cons p rest ih =>
    rw [hashOf_cons] at h
    by_cases hp : p.1 = d
    · rw [if_pos hp] at h
      have : 0 < dbKeyCount p.2 := by
        unfold dbKeyCount
        have : p.2.ckpt.isEmpty = false := by cases hc : p.2.ckpt with
          | nil => exact absurd hc h
          | cons _ _ => rfl
        simp [this]
      simp only [liveDbs, List.filter_cons, this, decide_true, if_true, List.map_cons, List.mem_cons]
      exact Or.inl hp.symm
    · rw [if_neg hp] at h
      have := ih h
      simp only [liveDbs, List.filter_cons] at this ⊢
      split
      · exact List.mem_cons_of_mem _ this
      · exact this

/-! ### H. `LoadCheckpoint` in the three situations a target can be in -/

theorem fetch_own (a : Bytes) (st : State) (hwf : WF st) (d : Int) :
    fetchCheckpoint exactMatch a (hashOf st d) = own a st d :=
  fetch_eq_ownCkpt a _ (hashWF_hashOf st hwf d)

theorem load_newest (a : Bytes) (st : State) (hwf : WF st) (o1 o2 : List Int) (d : Int) (f : Fetched)
    (h : IsNewest a st o1 d f) :
    loadFrom exactMatch a st o1 o2 =
      if Refused f then (.err, st)
      else (.ok f.runid f.offset (reportedDb f d), clearAll a (reportedDb f d) o2 st) := by
  obtain ⟨hm, ho, hgt, hall⟩ := h
  have hs : scan exactMatch a st o1 Acc.init = some (accOf d f) := by
    apply scan_unique_max exactMatch a st o1 Acc.init d f hm
    · rw [fetch_own a st hwf]; exact ho
    · exact hgt
    · intro d' hd' hne
      rw [fetch_own a st hwf]; exact hall d' hd' hne
  unfold loadFrom
  rw [hs]
  by_cases hr : Refused f
  · rw [if_pos hr]
    have hr' : (accOf d f).version ≠ -1 ∧ (accOf d f).version < Generated.C14.fcvCheckpointCompatible := hr
    simp only []
    rw [if_pos hr']
  · rw [if_neg hr]
    have hr' : ¬ ((accOf d f).version ≠ -1 ∧ (accOf d f).version < Generated.C14.fcvCheckpointCompatible) := hr
    simp only []
    rw [if_neg hr']
    rfl

theorem load_none (a : Bytes) (st : State) (hwf : WF st) (o1 o2 : List Int) (h : NoneValid a st o1) :
    loadFrom exactMatch a st o1 o2 = (.ok [] (-1) 0, clearAll a 0 o2 st) := by
  have hs : scan exactMatch a st o1 Acc.init = some Acc.init := by
    apply scan_keep
    intro d hd
    rw [fetch_own a st hwf]; exact h d hd
  unfold loadFrom
  rw [hs]
  simp [Acc.init, unknownRunId]

theorem load_broken (a : Bytes) (st : State) (hwf : WF st) (o1 o2 : List Int) (h : Broken a st o1) :
    loadFrom exactMatch a st o1 o2 = (.err, st) := by
  obtain ⟨d, hd, hn⟩ := h
  have hs : scan exactMatch a st o1 Acc.init = none :=
    scan_error exactMatch a st o1 Acc.init d hd (by rw [fetch_own a st hwf]; exact hn)
  unfold loadFrom
  rw [hs]

theorem exists_max (a : Bytes) (st : State) (ks : List Int) (hne : ks ≠ [])
    (hok : ∀ d ∈ ks, ∃ f, own a st d = some f) :
    ∃ d ∈ ks, ∃ f, own a st d = some f ∧ ∀ d' ∈ ks, ∃ f', own a st d' = some f' ∧ f'.offset ≤ f.offset := by
  induction ks with
  | nil => exact absurd rfl hne
  | cons x xs ih =>
    obtain ⟨fx, hfx⟩ := hok x (List.mem_cons_self ..)
    by_cases hxs : xs = []
    · subst hxs
      refine ⟨x, List.mem_cons_self .., fx, hfx, ?_⟩
      intro d' hd'
      simp at hd'; subst hd'
      exact ⟨fx, hfx, Int.le_refl _⟩
    · obtain ⟨d, hd, f, hf, hmax⟩ := ih hxs (fun d hd => hok d (List.mem_cons_of_mem _ hd))
      by_cases hc : f.offset ≤ fx.offset
      · refine ⟨x, List.mem_cons_self .., fx, hfx, ?_⟩
        intro d' hd'
        rcases List.mem_cons.mp hd' with h | h
        · subst h; exact ⟨fx, hfx, Int.le_refl _⟩
        · obtain ⟨f', hf', hle⟩ := hmax d' h
          exact ⟨f', hf', by omega⟩
      · refine ⟨d, List.mem_cons_of_mem _ hd, f, hf, ?_⟩
        intro d' hd'
        rcases List.mem_cons.mp hd' with h | h
        · subst h; exact ⟨fx, hfx, by omega⟩
        · exact hmax d' h

/-- without ties a target is in exactly one of three situations -/
theorem trichotomy (a : Bytes) (st : State) (ks : List Int) (hnt : NoTie a st ks) :
    Broken a st ks ∨ NoneValid a st ks ∨ ∃ d f, IsNewest a st ks d f := by
  by_cases hb : Broken a st ks
  · exact Or.inl hb
  · right
    have hok : ∀ d ∈ ks, ∃ f, own a st d = some f := by
      intro d hd
      cases h : own a st d with
      | none => exact absurd ⟨d, hd, h⟩ hb
      | some f => exact ⟨f, rfl⟩
    by_cases hne : ks = []
    · subst hne; left; intro d hd; cases hd
    · obtain ⟨d, hd, f, hf, hmax⟩ := exists_max a st ks hne hok
      by_cases hlow : f.offset ≤ -1
      · left
        intro d' hd'
        obtain ⟨f', hf', hle⟩ := hmax d' hd'
        exact ⟨f', hf', by omega⟩
      · right
        refine ⟨d, f, hd, hf, by omega, ?_⟩
        intro d' hd' hne'
        obtain ⟨f', hf', hle⟩ := hmax d' hd'
        refine ⟨f', hf', ?_⟩
        by_cases heq : f'.offset = f.offset
        · exact absurd (hnt d hd d' hd' f f' hf hf' (by omega) heq.symm).symm hne'
        · omega

theorem isNewest_perm {a : Bytes} {st : State} {ks ks' : List Int} (hp : ks.Perm ks') {d : Int} {f : Fetched}
    (h : IsNewest a st ks d f) : IsNewest a st ks' d f :=
  ⟨hp.mem_iff.mp h.1, h.2.1, h.2.2.1, fun d' hd' => h.2.2.2 d' (hp.mem_iff.mpr hd')⟩

theorem noneValid_perm {a : Bytes} {st : State} {ks ks' : List Int} (hp : ks.Perm ks')
    (h : NoneValid a st ks) : NoneValid a st ks' := fun d hd => h d (hp.mem_iff.mpr hd)

theorem broken_perm {a : Bytes} {st : State} {ks ks' : List Int} (hp : ks.Perm ks')
    (h : Broken a st ks) : Broken a st ks' := by
  obtain ⟨d, hd, hn⟩ := h; exact ⟨d, hp.mem_iff.mp hd, hn⟩

/-- for a well-formed target the nondeterministic semantics is: any two orders of the listed dbs -/
theorem loadRun_iff (m : Matcher) (a : Bytes) (st : State) (hwf : WF st) (r : Ret × State) :
    LoadRun m a st r ↔ ∃ o1 o2, o1.Perm (keysOf st) ∧ o2.Perm (keysOf st) ∧ r = loadFrom m a st o1 o2 := by
  unfold LoadRun
  rw [parseKeyspace_wf st hwf]
  rfl

/-- the own checkpoint of a db whose hash does not exist -/
theorem own_of_empty (a : Bytes) (st : State) (d : Int) (h : hashOf st d = []) : own a st d = some ⟨[], -1, -1⟩ := by
  simp [own, ownCkpt, h]

theorem covers (st : State) (d : Int) (h : d ∉ keysOf st) : hashOf st d = [] := by
  cases hh : hashOf st d with
  | nil => rfl
  | cons p ps => exact absurd (mem_liveDbs_of_hash st d (by rw [hh]; simp)) h

/-! ### I. all-db notions, invariance under everything that is not a write of the own fields -/

theorem own_outside (a : Bytes) (st : State) (d : Int) (h : d ∉ keysOf st) : own a st d = some ⟨[], -1, -1⟩ :=
  own_of_empty a st d (covers st d h)

theorem mem_keys_of_offset (a : Bytes) (st : State) (d : Int) (f : Fetched) (h : own a st d = some f)
    (hgt : f.offset > -1) : d ∈ keysOf st := by
  apply Classical.byContradiction
  intro hn
  rw [own_outside a st d hn] at h
  cases h
  simp at hgt

theorem newest_keys {a : Bytes} {st : State} {d : Int} {f : Fetched} (h : Newest a st d f) :
    IsNewest a st (keysOf st) d f :=
  ⟨mem_keys_of_offset a st d f h.1 h.2.1, h.1, h.2.1, fun d' _ hne => h.2.2 d' hne⟩

theorem newest_of_keys {a : Bytes} {st : State} {d : Int} {f : Fetched} (h : IsNewest a st (keysOf st) d f) :
    Newest a st d f := by
  refine ⟨h.2.1, h.2.2.1, fun d' hne => ?_⟩
  by_cases hm : d' ∈ keysOf st
  · exact h.2.2.2 d' hm hne
  · exact ⟨_, own_outside a st d' hm, by have := h.2.2.1; simp only; omega⟩

theorem noCheckpoint_keys {a : Bytes} {st : State} (h : NoCheckpoint a st) : NoneValid a st (keysOf st) :=
  fun d _ => h d

theorem noCheckpoint_of_keys {a : Bytes} {st : State} (h : NoneValid a st (keysOf st)) : NoCheckpoint a st := by
  intro d
  by_cases hm : d ∈ keysOf st
  · exact h d hm
  · exact ⟨_, own_outside a st d hm, by simp⟩

theorem unreadable_keys {a : Bytes} {st : State} (h : Unreadable a st) : Broken a st (keysOf st) := by
  obtain ⟨d, hd⟩ := h
  refine ⟨d, ?_, hd⟩
  apply Classical.byContradiction
  intro hn
  rw [own_outside a st d hn] at hd
  cases hd

theorem noTies_keys {a : Bytes} {st : State} (h : NoTies a st) : NoTie a st (keysOf st) :=
  fun d1 _ d2 _ f1 f2 h1 h2 hgt he => h d1 d2 f1 f2 h1 h2 hgt he

/-- without ties a target is in exactly one of three situations (all-db form) -/
theorem trichotomy_all (a : Bytes) (st : State) (hnt : NoTies a st) :
    Unreadable a st ∨ NoCheckpoint a st ∨ ∃ d f, Newest a st d f := by
  rcases trichotomy a st (keysOf st) (noTies_keys hnt) with h | h | ⟨d, f, h⟩
  · obtain ⟨d, _, hd⟩ := h; exact Or.inl ⟨d, hd⟩
  · exact Or.inr (Or.inl (noCheckpoint_of_keys h))
  · exact Or.inr (Or.inr ⟨d, f, newest_of_keys h⟩)

/-- two hashes with the same three own fields: same checkpoint, or both without usable offset -/
theorem ownCkpt_sameFields (a : Bytes) (h h' : Hash)
    (hO : fieldOf (offsetField a) h = fieldOf (offsetField a) h')
    (hR : fieldOf (runIdField a) h = fieldOf (runIdField a) h')
    (hV : fieldOf (versionField a) h = fieldOf (versionField a) h') :
    ownCkpt a h = ownCkpt a h' ∨
      ∃ f f', ownCkpt a h = some f ∧ ownCkpt a h' = some f' ∧ f.offset = -1 ∧ f'.offset = -1 := by
  cases h with
  | nil =>
    cases h' with
    | nil => exact Or.inl rfl
    | cons p ps =>
      right
      have e1 : fieldOf (offsetField a) (p :: ps) = none := by rw [← hO]; rfl
      have e2 : fieldOf (runIdField a) (p :: ps) = none := by rw [← hR]; rfl
      have e3 : fieldOf (versionField a) (p :: ps) = none := by rw [← hV]; rfl
      refine ⟨⟨[], -1, -1⟩, ⟨unknownRunId, -1, 0⟩, rfl, ?_, rfl, rfl⟩
      simp [ownCkpt, e1, e2, e3, numField]
  | cons q qs =>
    cases h' with
    | nil =>
      right
      have e1 : fieldOf (offsetField a) (q :: qs) = none := by rw [hO]; rfl
      have e2 : fieldOf (runIdField a) (q :: qs) = none := by rw [hR]; rfl
      have e3 : fieldOf (versionField a) (q :: qs) = none := by rw [hV]; rfl
      refine ⟨⟨unknownRunId, -1, 0⟩, ⟨[], -1, -1⟩, ?_, rfl, rfl, rfl⟩
      simp [ownCkpt, e1, e2, e3, numField]
    | cons p ps =>
      left
      simp only [ownCkpt, List.isEmpty_cons, Bool.false_eq_true, if_false, hO, hR, hV]

theorem own_sameOwn {a : Bytes} {st st' : State} (h : SameOwn a st st') (d : Int) :
    own a st d = own a st' d ∨
      ∃ f f', own a st d = some f ∧ own a st' d = some f' ∧ f.offset = -1 ∧ f'.offset = -1 :=
  ownCkpt_sameFields a _ _ (h d).1 (h d).2.1 (h d).2.2

theorem newest_sameOwn {a : Bytes} {st st' : State} (h : SameOwn a st st') {d : Int} {f : Fetched}
    (hn : Newest a st d f) : Newest a st' d f := by
  obtain ⟨ho, hgt, hall⟩ := hn
  refine ⟨?_, hgt, ?_⟩
  · rcases own_sameOwn h d with e | ⟨g, g', hg, _, hgo, _⟩
    · rw [← e]; exact ho
    · rw [ho] at hg; cases hg; omega
  · intro d' hne
    obtain ⟨f', hf', hlt⟩ := hall d' hne
    rcases own_sameOwn h d' with e | ⟨g, g', hg, hg', _, hgo'⟩
    · exact ⟨f', by rw [← e]; exact hf', hlt⟩
    · exact ⟨g', hg', by omega⟩

theorem noCheckpoint_sameOwn {a : Bytes} {st st' : State} (h : SameOwn a st st')
    (hn : NoCheckpoint a st) : NoCheckpoint a st' := by
  intro d
  obtain ⟨f, hf, hle⟩ := hn d
  rcases own_sameOwn h d with e | ⟨g, g', _, hg', _, hgo'⟩
  · exact ⟨f, by rw [← e]; exact hf, hle⟩
  · exact ⟨g', hg', by omega⟩

theorem unreadable_sameOwn {a : Bytes} {st st' : State} (h : SameOwn a st st')
    (hn : Unreadable a st) : Unreadable a st' := by
  obtain ⟨d, hd⟩ := hn
  refine ⟨d, ?_⟩
  rcases own_sameOwn h d with e | ⟨g, g', hg, _, _, _⟩
  · rw [← e]; exact hd
  · rw [hd] at hg; cases hg

/-- the returned tuple in the three situations, for any admissible run -/
theorem run_newest (a : Bytes) (st : State) (hwf : WF st) (d : Int) (f : Fetched) (hn : Newest a st d f)
    (r : Ret × State) (hr : LoadRun exactMatch a st r) :
    ∃ o2, o2.Perm (keysOf st) ∧
      r = if Refused f then (.err, st)
          else (.ok f.runid f.offset (reportedDb f d), clearAll a (reportedDb f d) o2 st) := by
  obtain ⟨o1, o2, h1, h2, rfl⟩ := (loadRun_iff exactMatch a st hwf r).mp hr
  exact ⟨o2, h2, load_newest a st hwf o1 o2 d f (isNewest_perm h1.symm (newest_keys hn))⟩

theorem run_none (a : Bytes) (st : State) (hwf : WF st) (hn : NoCheckpoint a st)
    (r : Ret × State) (hr : LoadRun exactMatch a st r) :
    ∃ o2, o2.Perm (keysOf st) ∧ r = (.ok [] (-1) 0, clearAll a 0 o2 st) := by
  obtain ⟨o1, o2, h1, h2, rfl⟩ := (loadRun_iff exactMatch a st hwf r).mp hr
  exact ⟨o2, h2, load_none a st hwf o1 o2 (noneValid_perm h1.symm (noCheckpoint_keys hn))⟩

theorem run_unreadable (a : Bytes) (st : State) (hwf : WF st) (hn : Unreadable a st)
    (r : Ret × State) (hr : LoadRun exactMatch a st r) : r = (.err, st) := by
  obtain ⟨o1, o2, h1, h2, rfl⟩ := (loadRun_iff exactMatch a st hwf r).mp hr
  exact load_broken a st hwf o1 o2 (broken_perm h1.symm (unreadable_keys hn))

/-! ### J. effect of clears and of other actors on individual fields -/

theorem fieldOf_clearHash (a g : Bytes) (h : Hash) :
    fieldOf g (clearHash a h) = if g ∈ clearFields a then none else fieldOf g h := by
  unfold clearHash
  rw [fieldOf_filter g (fun k => !(clearFields a).contains k) h]
  by_cases hg : g ∈ clearFields a
  · simp [hg]
  · simp [hg]

/-- the own checkpoint read from a cleared hash: it still parses (the version field is untouched) and carries no offset -/
theorem ownCkpt_clearHash (a : Bytes) (h : Hash) (f : Fetched) (hf : ownCkpt a h = some f) :
    ∃ f', ownCkpt a (clearHash a h) = some f' ∧ f'.offset = -1 := by
  have hoff : offsetField a ∈ clearFields a := by simp [clearFields]
  have hver : versionField a ∉ clearFields a := by
    simp only [clearFields, List.mem_cons, List.not_mem_nil, or_false, not_or]
    exact ⟨fun e => runId_ne_version a a e.symm, fun e => offset_ne_version a a e.symm⟩
  unfold ownCkpt
  by_cases he : (clearHash a h).isEmpty
  · rw [if_pos he]; exact ⟨_, rfl, rfl⟩
  · rw [if_neg he, fieldOf_clearHash, if_pos hoff, fieldOf_clearHash, if_neg hver]
    unfold ownCkpt at hf
    by_cases hh : h.isEmpty
    · have : h = [] := List.isEmpty_iff.mp hh
      subst this
      exact absurd (by simp [clearHash_nil]) he
    · rw [if_neg hh] at hf
      cases ho : numField (fieldOf (offsetField a) h) (-1) with
      | none => rw [ho] at hf; simp at hf
      | some o =>
        cases hv : numField (fieldOf (versionField a) h) 0 with
        | none => rw [ho, hv] at hf; simp at hf
        | some v =>
          refine ⟨⟨(fieldOf (runIdField a) (clearHash a h)).getD unknownRunId, -1, v⟩, ?_, rfl⟩
          simp [numField]

theorem hashOf_setOthers (st : State) (d d' : Int) (n : Nat) : hashOf (setOthers st d n) d' = hashOf st d' := by
  unfold setOthers
  split
  · have := hashOf_map_entry st (fun p => if p.1 == d then (p.1, { p.2 with others := n }) else p)
      (fun h _ => h) (fun _ => rfl) (fun p => by split <;> exact ⟨rfl, rfl⟩) d'
    exact this
  · rename_i hn
    have hnew : d ∉ st.map Prod.fst := fun h => hn ((any_key_iff st d).mpr h)
    rw [hashOf_append_new st d d' _ hnew]
    by_cases e : d' = d
    · subst e; simp [hashOf_not_mem st d' hnew]
    · simp [e]

/-- a single `hset` of a field that is not `g` leaves `g` alone, in every db -/
theorem fieldOf_hset_other (st : State) (d d' : Int) (f v g : Bytes) (hne : g ≠ f) :
    fieldOf g (hashOf (hset st d f v) d') = fieldOf g (hashOf st d') := by
  rw [hashOf_hset]
  split
  · rw [fieldOf_hsetHash, if_neg hne]
  · rfl

theorem fieldOf_hset_same (st : State) (d : Int) (f v : Bytes) :
    fieldOf f (hashOf (hset st d f v) d) = some v := by
  rw [hashOf_hset, if_pos rfl, fieldOf_hsetHash, if_pos rfl]

theorem fieldOf_hdel_other (st : State) (d d' : Int) (f g : Bytes) (hne : g ≠ f) :
    fieldOf g (hashOf (hdel st d f) d') = fieldOf g (hashOf st d') := by
  rw [hashOf_hdel]
  split
  · rw [fieldOf_filter g (fun k => k != f)]
    simp [hne]
  · rfl

theorem fieldOf_clearAll_other (a : Bytes) (ex : Int) (ord : List Int) (st : State) (d : Int) (g : Bytes)
    (hg : g ∉ clearFields a) : fieldOf g (hashOf (clearAll a ex ord st) d) = fieldOf g (hashOf st d) := by
  rw [hashOf_clearAll]
  split
  · rw [fieldOf_clearHash, if_neg hg]
  · rfl

theorem mem_ownFields {a g : Bytes} : g ∈ ownFields a ↔ g = offsetField a ∨ g = runIdField a ∨ g = versionField a := by
  simp [ownFields]

/-- the field names of a source other than `a` are none of `a`'s -/
theorem foreign_fields {a b : Bytes} (h : b ≠ a) :
    offsetField b ∉ ownFields a ∧ runIdField b ∉ ownFields a ∧ versionField b ∉ ownFields a := by
  refine ⟨?_, ?_, ?_⟩ <;> intro hm <;> rcases mem_ownFields.mp hm with e | e | e
  · exact h (offsetField_inj e)
  · exact offset_ne_runId _ _ e
  · exact offset_ne_version _ _ e
  · exact offset_ne_runId _ _ e.symm
  · exact h (runIdField_inj e)
  · exact runId_ne_version _ _ e
  · exact offset_ne_version _ _ e.symm
  · exact runId_ne_version _ _ e.symm
  · exact h (versionField_inj e)

/-- three-field form of "untouched" -/
theorem sameOwn_of_fields (a : Bytes) (st st' : State)
    (h : ∀ d g, g ∈ ownFields a → fieldOf g (hashOf st d) = fieldOf g (hashOf st' d)) : SameOwn a st st' :=
  fun d => ⟨h d _ (by simp [ownFields]), h d _ (by simp [ownFields]), h d _ (by simp [ownFields])⟩

theorem sameOwn_refl (a : Bytes) (st : State) : SameOwn a st st := fun _ => ⟨rfl, rfl, rfl⟩

theorem sameOwn_trans {a : Bytes} {s1 s2 s3 : State} (h1 : SameOwn a s1 s2) (h2 : SameOwn a s2 s3) : SameOwn a s1 s3 :=
  fun d => ⟨(h1 d).1.trans (h2 d).1, (h1 d).2.1.trans (h2 d).2.1, (h1 d).2.2.trans (h2 d).2.2⟩

theorem ne_of_not_mem_ownFields {a g f : Bytes} (hg : g ∈ ownFields a) (hf : f ∉ ownFields a) : g ≠ f :=
  fun e => hf (e ▸ hg)

/-- whatever another source (or data traffic, or an unrelated field write) does leaves `a`'s fields alone -/
theorem foreign_op_sameOwn (a : Bytes) (st : State) (op : Op) (hf : op.Foreign a) : SameOwn a st (applyOp st op) := by
  apply sameOwn_of_fields
  intro d g hg
  cases op with
  | batch b =>
    obtain ⟨h1, h2, h3⟩ := foreign_fields (a := a) hf
    simp only [applyOp, applyBatch]
    rw [fieldOf_hset_other _ _ _ _ _ _ (ne_of_not_mem_ownFields hg h1)]
    split
    · rw [fieldOf_hset_other _ _ _ _ _ _ (ne_of_not_mem_ownFields hg h3),
        fieldOf_hset_other _ _ _ _ _ _ (ne_of_not_mem_ownFields hg h2)]
    · rfl
  | oldBatch src d' runid offset =>
    obtain ⟨h1, h2, _⟩ := foreign_fields (a := a) hf
    simp only [applyOp]
    rw [fieldOf_hset_other _ _ _ _ _ _ (ne_of_not_mem_ownFields hg h1)]
    cases runid with
    | none => rfl
    | some r => exact (fieldOf_hset_other _ _ _ _ _ _ (ne_of_not_mem_ownFields hg h2)).symm
  | data d' n => simp only [applyOp, hashOf_setOthers]
  | hset d' f v => exact (fieldOf_hset_other _ _ _ _ _ _ (ne_of_not_mem_ownFields hg hf)).symm
  | hdel d' f => exact (fieldOf_hdel_other _ _ _ _ _ (ne_of_not_mem_ownFields hg hf)).symm
  | clear src ex ord =>
    obtain ⟨h1, h2, _⟩ := foreign_fields (a := a) hf
    simp only [applyOp]
    symm
    apply fieldOf_clearAll_other
    intro hm
    simp only [clearFields, List.mem_cons, List.not_mem_nil, or_false] at hm
    rcases hm with e | e
    · exact h2 (e ▸ hg)
    · exact h1 (e ▸ hg)

/-! ### K. what a sender group leaves behind -/

theorem own_of_fields (a : Bytes) (h : Hash) (hne : h ≠ []) (o v : Int) (ro vo : Bytes) (r : Bytes)
    (hO : fieldOf (offsetField a) h = some ro) (hpo : parseInt64 ro = some o)
    (hV : fieldOf (versionField a) h = some vo) (hpv : parseInt64 vo = some v)
    (hR : fieldOf (runIdField a) h = some r) : ownCkpt a h = some ⟨r, o, v⟩ := by
  have : h.isEmpty = false := by cases h with | nil => exact absurd rfl hne | cons _ _ => rfl
  simp [ownCkpt, this, hO, hV, hR, numField, hpo, hpv]

theorem own_applyBatch_other (a : Bytes) (st : State) (b : Batch) (d : Int) (hd : d ≠ b.db) :
    own a (applyBatch st b) d = own a st d := by
  have : hashOf (applyBatch st b) d = hashOf st d := by
    unfold applyBatch
    simp only []
    rw [hashOf_hset, if_neg hd]
    split
    · rw [hashOf_hset, if_neg hd, hashOf_hset, if_neg hd]
    · rfl
  unfold own
  rw [this]

/-! ### L. a sender group and a whole sender session, seen by the loader -/

def curVersion : Bytes := renderInt Generated.C14.fcvCheckpointCurrent

/-- db `d` carries the session's stamp -/
def Stamped (a runid : Bytes) (st : State) (d : Int) : Prop :=
  fieldOf (runIdField a) (hashOf st d) = some runid ∧ fieldOf (versionField a) (hashOf st d) = some curVersion

theorem hashOf_applyBatch_other (st : State) (b : Batch) (d : Int) (hd : d ≠ b.db) :
    hashOf (applyBatch st b) d = hashOf st d := by
  unfold applyBatch
  simp only []
  rw [hashOf_hset, if_neg hd]
  split
  · rw [hashOf_hset, if_neg hd, hashOf_hset, if_neg hd]
  · rfl

/-- the three fields in the group's db afterwards -/
theorem batch_fields (st : State) (b : Batch) (hstamp : b.stamp = true ∨ Stamped b.src b.runid st b.db) :
    hashOf (applyBatch st b) b.db ≠ [] ∧
    fieldOf (offsetField b.src) (hashOf (applyBatch st b) b.db) = some (renderInt b.offset) ∧
    Stamped b.src b.runid (applyBatch st b) b.db := by
  have hOR : runIdField b.src ≠ offsetField b.src := (offset_ne_runId _ _).symm
  have hOV : versionField b.src ≠ offsetField b.src := (offset_ne_version _ _).symm
  have hRV : runIdField b.src ≠ versionField b.src := runId_ne_version _ _
  refine ⟨?_, ?_, ?_, ?_⟩
  · unfold applyBatch; simp only []; rw [hashOf_hset, if_pos rfl]; exact hsetHash_ne_nil _ _ _
  · unfold applyBatch; simp only []; exact fieldOf_hset_same _ _ _ _
  · unfold applyBatch; simp only []
    rw [fieldOf_hset_other _ _ _ _ _ _ hOR]
    by_cases hb : b.stamp = true
    · rw [if_pos hb, fieldOf_hset_other _ _ _ _ _ _ hRV]; exact fieldOf_hset_same _ _ _ _
    · rw [if_neg hb]
      rcases hstamp with hs | hs
      · exact absurd hs hb
      · exact hs.1
  · unfold applyBatch; simp only []
    rw [fieldOf_hset_other _ _ _ _ _ _ hOV]
    by_cases hb : b.stamp = true
    · rw [if_pos hb]; exact fieldOf_hset_same _ _ _ _
    · rw [if_neg hb]
      rcases hstamp with hs | hs
      · exact absurd hs hb
      · exact hs.2

/-- what one sender group leaves in its db is read back as (run id, offset, current version) -/
theorem batch_own (st : State) (b : Batch) (hoff : -(two63 : Int) ≤ b.offset ∧ b.offset < two63)
    (hstamp : b.stamp = true ∨ Stamped b.src b.runid st b.db) :
    own b.src (applyBatch st b) b.db = some ⟨b.runid, b.offset, Generated.C14.fcvCheckpointCurrent⟩ := by
  have hcur : parseInt64 curVersion = some Generated.C14.fcvCheckpointCurrent :=
    parseInt64_renderInt _ (by decide) (by decide)
  obtain ⟨hne, hO, hR, hV⟩ := batch_fields st b hstamp
  exact own_of_fields b.src _ hne b.offset Generated.C14.fcvCheckpointCurrent _ _ b.runid hO
    (parseInt64_renderInt _ hoff.1 hoff.2) hV hcur hR

theorem current_not_refused (r : Bytes) (o : Int) : ¬ Refused ⟨r, o, Generated.C14.fcvCheckpointCurrent⟩ := by
  unfold Refused; simp only []; decide

/-- session invariant: the target is well-formed, every db the session wrote to carries its stamp, no own
    offset exceeds `lo`, and the last group (if any) is THE newest checkpoint -/
structure SessInv (a runid : Bytes) (lo : Int) (s : Sess) : Prop where
  wf : WF s.st
  stamped : ∀ x ∈ s.seen, Stamped a runid s.st x
  below : ∀ x, ∃ f, own a s.st x = some f ∧ f.offset ≤ lo
  lo_ge : -1 ≤ lo
  newest : ∀ g, s.last = some g → g.offset = lo ∧ Newest a s.st g.db ⟨runid, g.offset, Generated.C14.fcvCheckpointCurrent⟩

theorem stamped_sameOwn {a runid : Bytes} {st st' : State} (h : SameOwn a st st') {d : Int}
    (hs : Stamped a runid st d) : Stamped a runid st' d :=
  ⟨by rw [← (h d).2.1]; exact hs.1, by rw [← (h d).2.2]; exact hs.2⟩

theorem sessInv_step (a runid : Bytes) (lo : Int) (s : Sess) (ev : SessEv) (rest : List SessEv)
    (hinv : SessInv a runid lo s) (hok : EventsOk a lo (ev :: rest)) :
    ∃ lo', SessInv a runid lo' (sessStep a runid s ev) ∧ EventsOk a lo' rest := by
  cases ev with
  | group g =>
    obtain ⟨hdb, hlt, hhi, hrest⟩ := hok
    refine ⟨g.offset, ?_, hrest⟩
    let b : Batch := ⟨a, g.db, runid, g.offset, !s.seen.contains g.db⟩
    have hstamp : b.stamp = true ∨ Stamped b.src b.runid s.st b.db := by
      by_cases hm : g.db ∈ s.seen
      · exact Or.inr (hinv.stamped g.db hm)
      · left; simp [b, hm]
    have hlo := hinv.lo_ge
    have hown := batch_own s.st b ⟨by unfold two63 at *; show -(9223372036854775808 : Int) ≤ g.offset; omega, hhi⟩ hstamp
    have hothers : ∀ x, x ≠ g.db → ∃ f, own a (applyBatch s.st b) x = some f ∧ f.offset < g.offset := by
      intro x hx
      rw [own_applyBatch_other a s.st b x hx]
      obtain ⟨f, hf, hle⟩ := hinv.below x
      exact ⟨f, hf, by omega⟩
    refine ⟨wf_applyBatch s.st b hdb hinv.wf, ?_, ?_, by omega, ?_⟩
    · intro x hx
      rcases List.mem_cons.mp hx with h | h
      · subst h; exact (batch_fields s.st b hstamp).2.2
      · by_cases hxd : x = g.db
        · subst hxd; exact (batch_fields s.st b hstamp).2.2
        · unfold Stamped
          show fieldOf _ (hashOf (applyBatch s.st b) x) = _ ∧ fieldOf _ (hashOf (applyBatch s.st b) x) = _
          rw [hashOf_applyBatch_other s.st b x hxd]
          exact hinv.stamped x h
    · intro x
      by_cases hxd : x = g.db
      · subst hxd; exact ⟨_, hown, Int.le_refl _⟩
      · obtain ⟨f, hf, hlt'⟩ := hothers x hxd
        exact ⟨f, hf, by omega⟩
    · intro g' hg'
      simp only [sessStep, Option.some.injEq] at hg'
      subst hg'
      exact ⟨rfl, hown, by show g.offset > -1; omega, hothers⟩
  | other op =>
    obtain ⟨hv, hf, hrest⟩ := hok
    refine ⟨lo, ?_, hrest⟩
    have hsame := foreign_op_sameOwn a s.st op hf
    refine ⟨wf_applyOp s.st op hv hinv.wf, ?_, ?_, hinv.lo_ge, ?_⟩
    · intro x hx; exact stamped_sameOwn hsame (hinv.stamped x hx)
    · intro x
      show ∃ f, own a (applyOp s.st op) x = some f ∧ f.offset ≤ lo
      obtain ⟨f, hf', hle⟩ := hinv.below x
      rcases own_sameOwn hsame x with e | ⟨g, g', _, hg', _, hgo'⟩
      · exact ⟨f, by rw [← e]; exact hf', hle⟩
      · exact ⟨g', hg', by have := hinv.lo_ge; omega⟩
    · intro g hg
      obtain ⟨e, hn⟩ := hinv.newest g hg
      exact ⟨e, newest_sameOwn hsame hn⟩

theorem sessInv_run (a runid : Bytes) (evs : List SessEv) (lo : Int) (s : Sess)
    (hinv : SessInv a runid lo s) (hok : EventsOk a lo evs) :
    ∃ lo', SessInv a runid lo' (runSession a runid evs s) := by
  induction evs generalizing lo s with
  | nil => exact ⟨lo, hinv⟩
  | cons ev rest ih =>
    obtain ⟨lo', hinv', hok'⟩ := sessInv_step a runid lo s ev rest hinv hok
    exact ih lo' _ hinv' hok'

/-! ### M. histories with growing offsets never produce a tie -/

theorem offsetOf_of_own (a : Bytes) (st : State) (d : Int) (f : Fetched) (h : own a st d = some f) :
    offsetOf a st d = some f.offset := by
  unfold own ownCkpt at h
  unfold offsetOf
  split at h
  · rename_i he
    have : hashOf st d = [] := by cases hh : hashOf st d with | nil => rfl | cons _ _ => rw [hh] at he; cases he
    simp only [Option.some.injEq] at h
    rw [this, ← h]; rfl
  · split at h
    · rename_i o v ho _
      simp only [Option.some.injEq] at h
      rw [← h]; exact ho
    · cases h

def DistinctOffsets (a : Bytes) (st : State) : Prop :=
  ∀ d1 d2 o, offsetOf a st d1 = some o → offsetOf a st d2 = some o → o > -1 → d1 = d2

theorem noTies_of_distinct {a : Bytes} {st : State} (h : DistinctOffsets a st) : NoTies a st := by
  intro d1 d2 f1 f2 h1 h2 hgt he
  have e1 := offsetOf_of_own a st d1 f1 h1
  have e2 := offsetOf_of_own a st d2 f2 h2
  rw [← he] at e2
  exact h d1 d2 f1.offset e1 e2 hgt

/-- an event that only keeps or removes `a`'s offset fields keeps the offsets distinct -/
theorem distinct_of_keep_or_drop (a : Bytes) (st st' : State) (h : DistinctOffsets a st)
    (hk : ∀ d, fieldOf (offsetField a) (hashOf st' d) = fieldOf (offsetField a) (hashOf st d) ∨
               fieldOf (offsetField a) (hashOf st' d) = none) : DistinctOffsets a st' := by
  intro d1 d2 o h1 h2 hgt
  have k : ∀ d, offsetOf a st' d = some o → offsetOf a st d = some o := by
    intro d hd
    unfold offsetOf at hd ⊢
    rcases hk d with e | e
    · rw [← e]; exact hd
    · rw [e] at hd; simp only [numField, Option.some.injEq] at hd; omega
  exact h d1 d2 o (k d1 h1) (k d2 h2) hgt

/-- a group of `a` with an offset above everything recorded keeps the offsets distinct -/
theorem distinct_of_new_max (a : Bytes) (st st' : State) (d : Int) (off : Int) (h : DistinctOffsets a st)
    (hnew : ∀ x o, offsetOf a st x = some o → o < off)
    (hd : offsetOf a st' d = some off)
    (hothers : ∀ x, x ≠ d → offsetOf a st' x = offsetOf a st x) : DistinctOffsets a st' := by
  intro d1 d2 o h1 h2 hgt
  by_cases e1 : d1 = d
  · by_cases e2 : d2 = d
    · rw [e1, e2]
    · subst e1
      rw [hd] at h1
      simp only [Option.some.injEq] at h1
      rw [hothers d2 e2, ← h1] at h2
      exact absurd (hnew d2 off h2) (by omega)
  · by_cases e2 : d2 = d
    · subst e2
      rw [hd] at h2
      simp only [Option.some.injEq] at h2
      rw [hothers d1 e1, ← h2] at h1
      exact absurd (hnew d1 off h1) (by omega)
    · rw [hothers d1 e1] at h1
      rw [hothers d2 e2] at h2
      exact h d1 d2 o h1 h2 hgt

theorem distinct_step (a : Bytes) (st : State) (op : Op) (hm : op.Mono a st) (h : DistinctOffsets a st) :
    DistinctOffsets a (applyOp st op) := by
  have hOR : offsetField a ≠ runIdField a := offset_ne_runId a a
  have hOV : offsetField a ≠ versionField a := offset_ne_version a a
  cases op with
  | batch b =>
    by_cases hs : b.src = a
    · obtain ⟨hlo, hhi, hnew⟩ := hm hs
      subst hs
      apply distinct_of_new_max b.src st _ b.db b.offset h hnew
      · unfold offsetOf
        simp only [applyOp, applyBatch]
        rw [fieldOf_hset_same]
        exact parseInt64_renderInt _ (by unfold two63 at *; omega) hhi
      · intro x hx
        unfold offsetOf
        simp only [applyOp]
        rw [hashOf_applyBatch_other st b x hx]
    · exact distinct_of_keep_or_drop a st _ h fun d =>
        Or.inl ((foreign_op_sameOwn a st (.batch b) hs) d).1.symm
  | oldBatch src d runid offset =>
    by_cases hs : src = a
    · obtain ⟨hlo, hhi, hnew⟩ := hm hs
      subst hs
      apply distinct_of_new_max src st _ d offset h hnew
      · unfold offsetOf
        simp only [applyOp]
        rw [fieldOf_hset_same]
        exact parseInt64_renderInt _ (by unfold two63 at *; omega) hhi
      · intro x hx
        unfold offsetOf
        simp only [applyOp]
        rw [hashOf_hset, if_neg hx]
        cases runid with
        | none => rfl
        | some r => simp only []; rw [hashOf_hset, if_neg hx]
    · exact distinct_of_keep_or_drop a st _ h fun x =>
        Or.inl ((foreign_op_sameOwn a st (.oldBatch src d runid offset) hs) x).1.symm
  | data d n =>
    exact distinct_of_keep_or_drop a st _ h fun x => Or.inl (by simp only [applyOp, hashOf_setOthers])
  | hset d f v =>
    exact distinct_of_keep_or_drop a st _ h fun x =>
      Or.inl (fieldOf_hset_other st d x f v (offsetField a) (fun e => hm e.symm))
  | hdel d f =>
    apply distinct_of_keep_or_drop a st _ h
    intro x
    simp only [applyOp]
    rw [hashOf_hdel]
    split
    · rw [fieldOf_filter (offsetField a) (fun k => k != f)]
      split
      · exact Or.inl rfl
      · exact Or.inr rfl
    · exact Or.inl rfl
  | clear src ex ord =>
    apply distinct_of_keep_or_drop a st _ h
    intro x
    simp only [applyOp]
    rw [hashOf_clearAll]
    split
    · rw [fieldOf_clearHash]
      split
      · exact Or.inr rfl
      · exact Or.inl rfl
    · exact Or.inl rfl

theorem monoReachable_distinct (a : Bytes) (st : State) (h : MonoReachable a st) : DistinctOffsets a st := by
  induction h with
  | empty =>
    intro d1 d2 o h1 _ hgt
    simp only [offsetOf, hashOf, List.find?_nil, fieldOf, List.lookup_nil, numField, Option.some.injEq] at h1
    omega
  | step st op _ _ hm ih => exact distinct_step a st op hm ih

theorem monoReachable_reachable (a : Bytes) (st : State) (h : MonoReachable a st) : Reachable st := by
  induction h with
  | empty => exact Reachable.empty
  | step st op _ hv _ ih => exact Reachable.step st op ih hv

end RSVerif.Lemmas.Checkpoint
