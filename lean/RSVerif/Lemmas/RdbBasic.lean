import Mathlib.Tactic.Ring
import RSVerif.Model.RdbRead
import RSVerif.Spec.Rdb
/-
Reader lemmas for C01, part 1: lengths and non-LZF strings.
Shape: `reader (serialization ++ rest) = ok (value, rest)`.
-/
set_option linter.unusedSimpArgs false
namespace RSVerif.Lemmas.Rdb
open RSVerif RSVerif.Rdb RSVerif.Spec.Rdb

@[simp] theorem readByte_cons (b : UInt8) (r : Bytes) : readByte (b :: r) = .ok (b, r) := rfl

theorem readN_append (a rest : Bytes) : readN a.length (a ++ rest) = .ok (a, rest) := by
  unfold readN
  have : ¬ (a ++ rest).length < a.length := by simp
  rw [if_neg this]
  simp

theorem readN_append' (n : Nat) (a rest : Bytes) (h : a.length = n) : readN n (a ++ rest) = .ok (a, rest) := by
  subst h; exact readN_append a rest

theorem ofNat_toNat (v : Nat) (h : v < 256) : (UInt8.ofNat v).toNat = v := by
  simp [UInt8.toNat_ofNat', Nat.mod_eq_of_lt h]

theorem beBytes_length (n v : Nat) : (beBytes n v).length = n := by
  induction n with
  | zero => rfl
  | succ n ih => simp [beBytes, ih]

theorem beNat_acc (bs : Bytes) (acc : Nat) :
    bs.foldl (fun acc b => acc * 256 + b.toNat) acc = acc * 256 ^ bs.length + beNat bs := by
  unfold beNat
  induction bs generalizing acc with
  | nil => simp
  | cons b bs ih =>
    simp only [List.foldl_cons, List.length_cons]
    rw [ih, ih (0 * 256 + b.toNat)]
    simp only [Nat.pow_succ]
    ring

theorem beNat_append (a b : Bytes) : beNat (a ++ b) = beNat a * 256 ^ b.length + beNat b := by
  show List.foldl _ 0 (a ++ b) = _
  rw [List.foldl_append, beNat_acc]; rfl

theorem beNat_beBytes (n v : Nat) : beNat (beBytes n v) = v % 256 ^ n := by
  induction n with
  | zero => simp [beBytes, beNat, Nat.mod_one]
  | succ n ih =>
    have : beBytes (n+1) v = [UInt8.ofNat (v / 256 ^ n % 256)] ++ beBytes n v := rfl
    rw [this, beNat_append, ih, beBytes_length]
    have h1 : (UInt8.ofNat (v / 256 ^ n % 256)).toNat = v / 256 ^ n % 256 :=
      ofNat_toNat _ (Nat.mod_lt _ (by omega))
    simp only [beNat, List.foldl_cons, List.foldl_nil, h1]
    rw [Nat.pow_succ, Nat.mod_mul, Nat.add_comm, Nat.mul_comm]
    simp

/-- what the parser obtains from a length: the 64-bit form yields only the HIGH 32 bits -/
def readOf (e : ELen) : Nat := match e.form with | .b64 => e.val / 2 ^ 32 | _ => e.val

theorem readOf_not64 (e : ELen) (h : e.form ≠ .b64) : readOf e = e.val := by
  unfold readOf; cases hf : e.form <;> simp_all

theorem take4_beBytes8 (v : Nat) : (beBytes 8 v).take 4 = beBytes 4 (v / 2 ^ 32) := by
  simp only [beBytes, List.take_succ_cons, List.take_zero]
  have e : ∀ k, v / 2 ^ 32 / 256 ^ k = v / 256 ^ (k + 4) := by
    intro k
    rw [Nat.div_div_eq_div_mul, Nat.pow_add]
    congr 1
    norm_num [Nat.pow_succ, Nat.mul_comm]
  rw [e 3, e 2, e 1, e 0]

theorem readEncodedLength_enc (e : ELen) (h : e.fits) (rest : Bytes) :
    readEncodedLength (encLen e ++ rest) = .ok ((readOf e, false), rest) := by
  obtain ⟨val, form⟩ := e
  unfold ELen.fits at h
  cases form
  · -- 6 bit
    simp only at h
    simp only [encLen, readEncodedLength, List.cons_append, List.nil_append, readByte_cons,
      ofNat_toNat val (by omega), readOf]
    have h1 : val / 64 = 0 := by omega
    have h2 : val % 64 = val := by omega
    simp [h1, h2]
  · -- 14 bit
    simp only at h
    have hb : 64 + val / 256 < 256 := by omega
    have h1 : (64 + val / 256) / 64 = 1 := by omega
    have h3 : (64 + val / 256) % 64 = val / 256 := by omega
    have h4 : val / 256 * 256 + val % 256 = val := by omega
    simp only [encLen, readEncodedLength, List.cons_append, List.nil_append, readByte_cons,
      ofNat_toNat _ hb, ofNat_toNat (val % 256) (Nat.mod_lt _ (by decide)), readOf]
    simp [h1, h3, h4]
  · -- 32 bit
    simp only at h
    simp only [encLen, readEncodedLength, List.cons_append, readByte_cons, readOf]
    have h0 : (0x80 : UInt8).toNat / 64 = 2 := by decide
    have h1 : (0x80 : UInt8).toNat = 0x80 := by decide
    simp only [h0, h1, if_true]
    rw [readN_append' 4 _ _ (beBytes_length 4 val)]
    simp only [beNat_beBytes]
    have : val % 256 ^ 4 = val := Nat.mod_eq_of_lt (by simpa using h)
    simp [this]; omega
  · -- 64 bit
    simp only at h
    simp only [encLen, readEncodedLength, List.cons_append, readByte_cons, readOf]
    have h0 : (0x81 : UInt8).toNat / 64 = 2 := by decide
    have h1 : (0x81 : UInt8).toNat = 0x81 := by decide
    simp only [h0, h1]
    rw [readN_append' 8 _ _ (beBytes_length 8 val)]
    simp only [take4_beBytes8, beNat_beBytes]
    have : val / 2 ^ 32 % 256 ^ 4 = val / 2 ^ 32 := Nat.mod_eq_of_lt (by
      have : val / 2 ^ 32 < 2 ^ 32 := by
        apply Nat.div_lt_of_lt_mul
        simpa [← Nat.pow_add] using h
      simpa using this)
    simp [this]
    have : val / 2 ^ 32 < 2 ^ 32 := by
      apply Nat.div_lt_of_lt_mul
      simpa [← Nat.pow_add] using h
    simpa using this

theorem readLength_enc (e : ELen) (h : e.fits) (rest : Bytes) :
    readLength (encLen e ++ rest) = .ok (readOf e, rest) := by
  simp [readLength, readEncodedLength_enc e h rest]

theorem skipLength_enc (e : ELen) (h : e.fits) (rest : Bytes) :
    skipLength (encLen e ++ rest) = .ok ((), rest) := by
  simp [skipLength, readLength_enc e h rest]

theorem digitsRev_reverse (fuel n : Nat) : (digitsRev fuel n).reverse = decDigits fuel n := by
  induction fuel generalizing n with
  | zero => rfl
  | succ f ih =>
    unfold digitsRev decDigits
    split
    · rfl
    · simp [ih]

theorem fmtInt_eq_decimal (i : Int) : fmtInt i = decimal i := by
  unfold fmtInt decimal fmtNat
  simp [digitsRev_reverse]

theorem leNat_eq_leVal (b : Bytes) : leNat b = leVal b := by
  induction b with
  | nil => rfl
  | cons x xs ih => simp [leNat, leVal, ih]

theorem signed_eq_twos (bits u : Nat) : signed bits u = twos bits u := rfl

theorem readEncodedLength_encoded (k : Nat) (hk : k < 64) (r : Bytes) :
    readEncodedLength (UInt8.ofNat (0xC0 + k) :: r) = .ok ((k, true), r) := by
  have hb : (UInt8.ofNat (0xC0 + k)).toNat = 0xC0 + k := ofNat_toNat _ (by omega)
  have h1 : (0xC0 + k) / 64 = 3 := by omega
  have h2 : (0xC0 + k) % 64 = k := by omega
  simp only [readEncodedLength, readByte_cons, hb, h1, h2]

/-- `lzf_expand` is proved in Lemmas/Lzf.lean; this file takes it as a hypothesis-free import later.
    Here: strings without LZF. -/
theorem readString_raw (f : LenForm) (bs rest : Bytes) (h : strOk (.raw f bs)) :
    readString (serStr (.raw f bs) ++ rest) = .ok (bs, rest) := by
  obtain ⟨hf, hfit⟩ := h
  simp only [serStr, readString, List.append_assoc]
  rw [readEncodedLength_enc _ hfit, readOf_not64 _ hf]
  simp [readN_append]

theorem readString_int8 (b rest : Bytes) (h : b.length = 1) :
    readString (serStr (.int8 b) ++ rest) = .ok (decimal (twos 8 (leVal b)), rest) := by
  simp only [serStr, readString, List.cons_append]
  rw [show (0xC0 : UInt8) = UInt8.ofNat (0xC0 + 0) from rfl, readEncodedLength_encoded 0 (by omega)]
  simp [readN_append' 1 b rest h, fmtInt_eq_decimal, leNat_eq_leVal, signed_eq_twos]

theorem readString_int16 (b rest : Bytes) (h : b.length = 2) :
    readString (serStr (.int16 b) ++ rest) = .ok (decimal (twos 16 (leVal b)), rest) := by
  simp only [serStr, readString, List.cons_append]
  rw [show (0xC1 : UInt8) = UInt8.ofNat (0xC0 + 1) from rfl, readEncodedLength_encoded 1 (by omega)]
  simp [readN_append' 2 b rest h, fmtInt_eq_decimal, leNat_eq_leVal, signed_eq_twos]

theorem readString_int32 (b rest : Bytes) (h : b.length = 4) :
    readString (serStr (.int32 b) ++ rest) = .ok (decimal (twos 32 (leVal b)), rest) := by
  simp only [serStr, readString, List.cons_append]
  rw [show (0xC2 : UInt8) = UInt8.ofNat (0xC0 + 2) from rfl, readEncodedLength_encoded 2 (by omega)]
  simp [readN_append' 4 b rest h, fmtInt_eq_decimal, leNat_eq_leVal, signed_eq_twos]

end RSVerif.Lemmas.Rdb
