import RSVerif.Lemmas.ParallelRestoreRun
namespace RSVerif.Lemmas.ParallelRestore
open RSVerif RSVerif.Spec.MiniRedisC07 RSVerif.Model.ParallelRestore

/-! Progress: a measure that every effective worker action decreases, and a schedule that completes every run. -/

def phaseWt (cfg : Cfg) : Phase → Nat
  | .idle => 1
  | .select e => 3 + (cfg.restoreCmds e).length
  | .run _ rest => 2 + rest.length
  | .returned => 0

def queueWt (cfg : Cfg) : List Entry → Nat
  | [] => 0
  | e :: q => 4 + (cfg.restoreCmds e).length + queueWt cfg q

/-- work left for worker `w` if it had to do everything alone -/
def mu (cfg : Cfg) (s : State) (w : Nat) : Nat := queueWt cfg s.queue + phaseWt cfg (s.workers w).phase

@[simp] theorem phaseWt_idle (cfg : Cfg) : phaseWt cfg .idle = 1 := rfl
@[simp] theorem phaseWt_returned (cfg : Cfg) : phaseWt cfg .returned = 0 := rfl
@[simp] theorem phaseWt_select (cfg : Cfg) (e : Entry) : phaseWt cfg (.select e) = 3 + (cfg.restoreCmds e).length := rfl
@[simp] theorem phaseWt_run (cfg : Cfg) (e : Entry) (rest : List DataCmd) : phaseWt cfg (.run e rest) = 2 + rest.length := rfl

theorem phaseWt_phaseOfRest (cfg : Cfg) (e : Entry) (rest : List DataCmd) :
    phaseWt cfg (phaseOfRest e rest) ≤ 2 + rest.length := by
  cases rest <;> simp [phaseOfRest]

theorem phaseWt_startRestore (cfg : Cfg) (e : Entry) (wk : Worker) :
    phaseWt cfg (startRestore cfg e wk).phase ≤ 2 + (cfg.restoreCmds e).length := by
  unfold startRestore
  split
  · simp; omega
  · exact phaseWt_phaseOfRest ..

theorem phaseWt_selectBookkeeping (cfg : Cfg) (e : Entry) (wk : Worker) :
    phaseWt cfg (selectBookkeeping cfg e wk).phase ≤ 3 + (cfg.restoreCmds e).length := by
  rw [selectBookkeeping_eq]
  split
  · simp
  · have := phaseWt_startRestore cfg e wk; omega

/-- every action of a worker that has not returned strictly decreases its measure -/
theorem mu_stepWorker (cfg : Cfg) (s : State) (w : Nat) (fail : Bool) (h : (s.workers w).phase ≠ .returned) :
    mu cfg (stepWorker cfg s w fail) w < mu cfg s w := by
  unfold mu stepWorker
  simp only
  split
  · rename_i hph; exact absurd hph h
  · rename_i hph
    split
    · rename_i hq; simp [hph, hq, queueWt]
    · rename_i e q hq
      split
      · simp [hph, hq, queueWt]; omega
      · have := phaseWt_selectBookkeeping cfg e (s.workers w)
        simp only [setWorker_queue, setWorker_workers, if_true, hph, hq, queueWt, phaseWt_idle]
        omega
  · rename_i e hph
    have := phaseWt_startRestore cfg e (s.workers w)
    simp only [setWorker_queue, setWorker_workers, if_true, hph, phaseWt_select]
    omega
  · rename_i e hph
    simp [hph]
  · rename_i e c rest hph
    split
    · split <;> simp [hph] <;> omega
    · have := phaseWt_phaseOfRest cfg e rest
      simp only [setWorker_queue, setWorker_workers, if_true, hph, phaseWt_run, List.length_cons]
      omega

theorem run_replicate_succ (cfg : Cfg) (s : State) (ev : Ev) (k : Nat) :
    run cfg s (List.replicate (k + 1) ev) = run cfg (step cfg s ev) (List.replicate k ev) := by
  simp [run, List.replicate_succ]

theorem run_replicate_fix (cfg : Cfg) (s : State) (ev : Ev) (k : Nat) (h : step cfg s ev = s) :
    run cfg s (List.replicate k ev) = s := by
  induction k with
  | zero => rfl
  | succ k ih => rw [run_replicate_succ, h, ih]

/-- worker `w` alone: after `k` of its actions it has returned or its measure dropped by `k` -/
theorem drain (cfg : Cfg) (w : Nat) (k : Nat) (s : State) (hw : w < s.n) :
    ((run cfg s (List.replicate k (.worker w false))).workers w).phase = .returned ∨
    mu cfg (run cfg s (List.replicate k (.worker w false))) w + k ≤ mu cfg s w := by
  induction k generalizing s with
  | zero => right; simp [run]
  | succ k ih =>
    rw [run_replicate_succ]
    have hstep : step cfg s (.worker w false) = stepWorker cfg s w false := by simp [step, hw]
    have hn : (step cfg s (.worker w false)).n = s.n := step_n cfg s _
    by_cases hph : (s.workers w).phase = .returned
    · have hs : step cfg s (.worker w false) = s := by
        rw [hstep]; exact (stepWorker_frame cfg s w false).2.2.2.2.2.1 hph
      rw [hs, run_replicate_fix cfg s _ k hs]
      exact Or.inl hph
    · have hlt := mu_stepWorker cfg s w false hph
      rw [← hstep] at hlt
      rcases ih (step cfg s (.worker w false)) (by rw [hn]; exact hw) with h1 | h1
      · exact Or.inl h1
      · right; omega

theorem drained (cfg : Cfg) (w : Nat) (s : State) (hw : w < s.n) :
    ((run cfg s (List.replicate (mu cfg s w + 1) (.worker w false))).workers w).phase = .returned := by
  rcases drain cfg w (mu cfg s w + 1) s hw with h | h
  · exact h
  · omega

/-- what a run of events of worker `w` alone leaves untouched -/
theorem run_single_frame (cfg : Cfg) (w : Nat) (k : Nat) (s : State) :
    let s' := run cfg s (List.replicate k (.worker w false))
    s'.n = s.n ∧ s'.result = s.result ∧ ∀ i, i ≠ w → s'.workers i = s.workers i := by
  induction k generalizing s with
  | zero => simp [run]
  | succ k ih =>
    rw [run_replicate_succ]
    obtain ⟨h1, h2, h3⟩ := ih (step cfg s (.worker w false))
    have hf : (step cfg s (.worker w false)).n = s.n ∧ (step cfg s (.worker w false)).result = s.result ∧
        ∀ i, i ≠ w → (step cfg s (.worker w false)).workers i = s.workers i := by
      simp only [step]
      split
      · obtain ⟨a, b, c, -⟩ := stepWorker_frame cfg s w false
        exact ⟨a, b, c⟩
      · exact ⟨rfl, rfl, fun _ _ => rfl⟩
    exact ⟨h1.trans hf.1, h2.trans hf.2.1, fun i hi => (h3 i hi).trans (hf.2.2 i hi)⟩

/-- schedules in which no command is answered with an error leave an all-ok log all-ok -/
def NoFail (evs : List Ev) : Prop := ∀ ev ∈ evs, ∀ w, ev ≠ .worker w true

theorem allOk_step (cfg : Cfg) (s : State) (ev : Ev) (hev : ∀ w, ev ≠ .worker w true)
    (h : ∀ x ∈ s.server.log, x.ok = true) : ∀ x ∈ (step cfg s ev).server.log, x.ok = true := by
  cases ev with
  | main => simp only [step, stepMain]; split <;> exact h
  | worker w fail =>
    have hf : fail = false := by cases fail <;> simp_all
    subst hf
    simp only [step]
    split
    · intro x hx
      rcases stepWorker_log cfg s w false with hl | ⟨y, hl, -, hy, -⟩
      · rw [hl] at hx; exact h x hx
      · rw [hl] at hx
        simp only [List.mem_append, List.mem_singleton] at hx
        rcases hx with hx | hx
        · exact h x hx
        · subst hx; simpa using hy
    · exact h

theorem allOk_run (cfg : Cfg) (evs : List Ev) (s : State) (hev : NoFail evs)
    (h : ∀ x ∈ s.server.log, x.ok = true) : ∀ x ∈ (run cfg s evs).server.log, x.ok = true := by
  induction evs generalizing s with
  | nil => exact h
  | cons ev evs ih =>
    exact ih (step cfg s ev) (fun e he => hev e (by simp [he])) (allOk_step cfg s ev (hev ev (by simp)) h)

/-- nothing is queued and every worker is idle or done -/
def Quiet (s : State) : Prop := s.queue = [] ∧ ∀ w, w < s.n → (s.workers w).phase = .idle ∨ (s.workers w).phase = .returned

theorem stepWorker_idle_empty (cfg : Cfg) (s : State) (w : Nat) (fail : Bool)
    (h1 : (s.workers w).phase = .idle) (hq : s.queue = []) :
    stepWorker cfg s w fail = s.setWorker w { s.workers w with phase := .returned } := by
  unfold stepWorker
  simp only [h1, hq]

theorem quiet_step (cfg : Cfg) (s : State) (w : Nat) (hw : w < s.n) (h : Quiet s) :
    Quiet (step cfg s (.worker w false)) ∧ ((step cfg s (.worker w false)).workers w).phase = .returned ∧
    (∀ i, (s.workers i).phase = .returned → ((step cfg s (.worker w false)).workers i).phase = .returned) ∧
    (step cfg s (.worker w false)).result = s.result := by
  obtain ⟨hq, hph⟩ := h
  have hstep : step cfg s (.worker w false) = stepWorker cfg s w false := by simp [step, hw]
  rw [hstep]
  rcases hph w hw with h1 | h1
  · rw [stepWorker_idle_empty cfg s w false h1 hq]
    refine ⟨⟨hq, ?_⟩, by simp, ?_, rfl⟩
    · intro i hi
      by_cases hiw : i = w
      · subst hiw; simp
      · simpa [hiw] using hph i hi
    · intro i hi
      by_cases hiw : i = w
      · subst hiw; simp
      · simpa [hiw] using hi
  · rw [(stepWorker_frame cfg s w false).2.2.2.2.2.1 h1]
    exact ⟨⟨hq, hph⟩, h1, fun i hi => hi, rfl⟩

theorem quiet_run (cfg : Cfg) (ws : List Nat) (s : State) (hws : ∀ w ∈ ws, w < s.n) (h : Quiet s) :
    let s' := run cfg s (ws.map fun w => Ev.worker w false)
    Quiet s' ∧ s'.n = s.n ∧ s'.result = s.result ∧
    (∀ w ∈ ws, (s'.workers w).phase = .returned) ∧ (∀ i, (s.workers i).phase = .returned → (s'.workers i).phase = .returned) := by
  induction ws generalizing s with
  | nil => exact ⟨h, rfl, rfl, fun w hw => by simp at hw, fun i hi => hi⟩
  | cons w ws ih =>
    obtain ⟨hq1, hret, hkeep, hres⟩ := quiet_step cfg s w (hws w (by simp)) h
    have hn1 : (step cfg s (.worker w false)).n = s.n := step_n cfg s _
    obtain ⟨a, b, c, d, e⟩ := ih (step cfg s (.worker w false)) (fun v hv => by rw [hn1]; exact hws v (by simp [hv])) hq1
    simp only [List.map_cons, run, List.foldl_cons] at *
    refine ⟨a, b.trans hn1, c.trans hres, ?_, fun i hi => e i (hkeep i hi)⟩
    intro v hv
    rcases List.mem_cons.mp hv with rfl | hv'
    · exact e v hret
    · exact d v hv'

end RSVerif.Lemmas.ParallelRestore
