import RSVerif.Lemmas.HandoffNum
namespace RSVerif.Lemmas.Handoff
open RSVerif RSVerif.Handoff

theorem digitByte_toNat (d : Nat) (h : d < 10) : (Spec.Handoff.digitByte d).toNat = 48 + d := by
  unfold Spec.Handoff.digitByte
  simp only [UInt8.toNat_ofNat']
  omega

theorem digitByte_isDigit (d : Nat) (h : d < 10) : isDigit (Spec.Handoff.digitByte d) = true := by
  unfold isDigit
  rw [digitByte_toNat d h]
  simp; omega

theorem decVal_append (a : Bytes) (b : UInt8) : decVal (a ++ [b]) = decVal a * 10 + digitVal b := by
  simp [decVal, List.foldl_append]

theorem decimal_spec (n : Nat) :
    Spec.Handoff.decimal n ≠ [] ∧ (Spec.Handoff.decimal n).all isDigit = true ∧ decVal (Spec.Handoff.decimal n) = n := by
  induction n using Nat.strongRecOn with
  | _ n ih =>
    rw [Spec.Handoff.decimal]
    split
    · rename_i h
      refine ⟨by simp, by simp [digitByte_isDigit n h], ?_⟩
      simp [decVal, digitVal, digitByte_toNat n h]
    · rename_i h
      obtain ⟨h1, h2, h3⟩ := ih (n / 10) (by omega)
      have hd : n % 10 < 10 := by omega
      refine ⟨by simp, ?_, ?_⟩
      · simp only [List.all_append, h2, List.all_cons, digitByte_isDigit _ hd, List.all_nil, Bool.and_self]
      · rw [decVal_append, h3, digitVal, digitByte_toNat _ hd]; omega

/-- the canonical numeral denotes its number. -/
theorem denote_decimal (n : Nat) : Spec.Handoff.denote (Spec.Handoff.decimal n) = some n := by
  obtain ⟨h1, h2, h3⟩ := decimal_spec n
  unfold Spec.Handoff.denote
  have : (Spec.Handoff.decimal n).isEmpty = false := by
    cases h : Spec.Handoff.decimal n <;> simp_all
  rw [isDigit_eq, this, h2]
  simp only [Bool.not_true, Bool.or_self, Bool.false_eq_true, if_false]
  exact congrArg some h3

end RSVerif.Lemmas.Handoff
