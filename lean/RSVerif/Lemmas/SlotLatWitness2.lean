import RSVerif.Lemmas.SlotLatWitnessCheck
import RSVerif.Generated.C15LatWitness2
/-
Kernel check of the regenerated latency-key witnesses for slots 4096..6143 (8 chunks of 256
rows; one `decide +kernel` per chunk — the quantifier is a finite generated table). One of 8 such
modules, checked in parallel; rebuilt only when the latency key prefix changes.
-/
namespace RSVerif.Lemmas.Slot
open RSVerif

theorem lat_witness_chunk_16 : latChunkOK 4096 Generated.C15.latencyWitness16 = true := by decide +kernel
theorem lat_witness_chunk_17 : latChunkOK 4352 Generated.C15.latencyWitness17 = true := by decide +kernel
theorem lat_witness_chunk_18 : latChunkOK 4608 Generated.C15.latencyWitness18 = true := by decide +kernel
theorem lat_witness_chunk_19 : latChunkOK 4864 Generated.C15.latencyWitness19 = true := by decide +kernel
theorem lat_witness_chunk_20 : latChunkOK 5120 Generated.C15.latencyWitness20 = true := by decide +kernel
theorem lat_witness_chunk_21 : latChunkOK 5376 Generated.C15.latencyWitness21 = true := by decide +kernel
theorem lat_witness_chunk_22 : latChunkOK 5632 Generated.C15.latencyWitness22 = true := by decide +kernel
theorem lat_witness_chunk_23 : latChunkOK 5888 Generated.C15.latencyWitness23 = true := by decide +kernel

theorem lat_witness_module_2 : ∀ s, 4096 ≤ s → s < 6144 → ∃ i, latRowOK i s = true := by
  intro s h1 h2
  rcases Nat.lt_or_ge s 4352 with h | h1
  · exact lat_chunk_covers 4096 _ lat_witness_chunk_16 s h1 (by omega)
  rcases Nat.lt_or_ge s 4608 with h | h1
  · exact lat_chunk_covers 4352 _ lat_witness_chunk_17 s h1 (by omega)
  rcases Nat.lt_or_ge s 4864 with h | h1
  · exact lat_chunk_covers 4608 _ lat_witness_chunk_18 s h1 (by omega)
  rcases Nat.lt_or_ge s 5120 with h | h1
  · exact lat_chunk_covers 4864 _ lat_witness_chunk_19 s h1 (by omega)
  rcases Nat.lt_or_ge s 5376 with h | h1
  · exact lat_chunk_covers 5120 _ lat_witness_chunk_20 s h1 (by omega)
  rcases Nat.lt_or_ge s 5632 with h | h1
  · exact lat_chunk_covers 5376 _ lat_witness_chunk_21 s h1 (by omega)
  rcases Nat.lt_or_ge s 5888 with h | h1
  · exact lat_chunk_covers 5632 _ lat_witness_chunk_22 s h1 (by omega)
  exact lat_chunk_covers 5888 _ lat_witness_chunk_23 s h1 (by omega)

end RSVerif.Lemmas.Slot
