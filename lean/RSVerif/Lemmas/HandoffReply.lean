import RSVerif.Lemmas.HandoffWait
namespace RSVerif.Lemmas.Handoff
open RSVerif RSVerif.Handoff

theorem skipLF_newlines (j : Nat) (b : UInt8) (s : Bytes) (hb : b ≠ LF) :
    skipLF (Spec.Handoff.newlines j ++ b :: s) = b :: s := by
  induction j with
  | zero => simp [Spec.Handoff.newlines, skipLF, hb]
  | succ j ih => rw [newlines_succ, List.cons_append, skipLF]; simp [ih]

theorem readLine_text (text rest : Bytes) (h : ∀ b ∈ text, b ≠ LF) :
    readLine (text ++ CR :: LF :: rest) = some (text ++ [CR], rest) := by
  induction text with
  | nil =>
    have : CR ≠ LF := by decide
    simp [readLine, this]
  | cons t text ih =>
    have ht : t ≠ LF := h t (by simp)
    rw [List.cons_append, readLine]
    simp only [ht, if_false]
    rw [ih (fun b hb => h b (by simp [hb]))]
    simp

theorem splitSp_ne_nil (s : Bytes) : splitSp s ≠ [] := by
  cases s with
  | nil => simp [splitSp]
  | cons b bs =>
    rw [splitSp]
    split
    · simp
    · split <;> simp

theorem splitSp_word (w : Bytes) (h : ∀ b ∈ w, b ≠ SP) : splitSp w = [w] := by
  induction w with
  | nil => simp [splitSp]
  | cons b w ih =>
    have hb : b ≠ SP := h b (by simp)
    rw [splitSp]
    simp only [hb, if_false]
    rw [ih (fun c hc => h c (by simp [hc]))]

theorem splitSp_append (w r : Bytes) (h : ∀ b ∈ w, b ≠ SP) : splitSp (w ++ SP :: r) = w :: splitSp r := by
  induction w with
  | nil => simp [splitSp]
  | cons b w ih =>
    have hb : b ≠ SP := h b (by simp)
    rw [List.cons_append, splitSp]
    simp only [hb, if_false]
    rw [ih (fun c hc => h c (by simp [hc]))]

theorem lower_eq (w : Bytes) : lower w = w.map Spec.Handoff.lowerAscii := rfl

/-- a byte whose lower-case image is a lower-case letter is an ASCII letter: no space, no LF, < 128. -/
theorem toLower_letter {b : UInt8} (h : 97 ≤ (toLower b).toNat ∧ (toLower b).toNat ≤ 122) :
    b ≠ SP ∧ b ≠ LF ∧ b.toNat < 128 := by
  revert h
  revert b
  apply forall_u8
  decide +kernel

def isLowerWord (kw : Bytes) : Prop := ∀ c ∈ kw, 97 ≤ c.toNat ∧ c.toNat ≤ 122

theorem word_props {w kw : Bytes} (hkw : isLowerWord kw) (h : lower w = kw) :
    (∀ b ∈ w, b ≠ SP) ∧ (∀ b ∈ w, b ≠ LF) ∧ isAscii w = true := by
  have key : ∀ b ∈ w, b ≠ SP ∧ b ≠ LF ∧ b.toNat < 128 := by
    intro b hb
    apply toLower_letter
    apply hkw
    rw [← h]
    exact List.mem_map.mpr ⟨b, hb, rfl⟩
  refine ⟨fun b hb => (key b hb).1, fun b hb => (key b hb).2.1, ?_⟩
  simp only [isAscii, List.all_eq_true, decide_eq_true_eq]
  exact fun b hb => (key b hb).2.2

theorem kwContinue_lower : isLowerWord kwContinue := by unfold isLowerWord kwContinue; decide
theorem kwFullresync_lower : isLowerWord kwFullresync := by unfold isLowerWord kwFullresync; decide
theorem kwContinue_eq : Spec.Handoff.continue_ = kwContinue := rfl
theorem kwFullresync_eq : Spec.Handoff.fullresync = kwFullresync := rfl

end RSVerif.Lemmas.Handoff
