import RSVerif.Spec.Compact
import RSVerif.Properties.C11
import RSVerif.Lemmas.RdbLzf
import RSVerif.Properties.C01
/-
Helper lemmas for C12: byte arithmetic, reader-after-writer lemmas for the cupcake decoder model.
-/
namespace RSVerif.Lemmas.Rdb12
open RSVerif RSVerif.Rdb RSVerif.RdbDecode RSVerif.RdbEncode RSVerif.Spec.Compact RSVerif.Lemmas.Bytes

theorem u8_ofNat_toNat (k : Nat) : (UInt8.ofNat k).toNat = k % 256 := by
  simp [UInt8.toNat_ofNat']

theorem leBytes_length (n v : Nat) : (leBytes n v).length = n := by
  induction n generalizing v with
  | zero => rfl
  | succ n ih => simp [leBytes, ih]

theorem leNat_leBytes (n v : Nat) : leNat (leBytes n v) = v % 256 ^ n := by
  induction n generalizing v with
  | zero => simp [leBytes, leNat, Nat.mod_one]
  | succ n ih =>
    simp only [leBytes, leNat, ih, u8_ofNat_toNat]
    rw [Nat.pow_succ, Nat.mul_comm (256 ^ n) 256, Nat.mod_mul]
    have : v % 256 % 256 = v % 256 := Nat.mod_mod _ _
    omega

theorem beNat_snoc (xs : Bytes) (b : UInt8) : beNat (xs ++ [b]) = beNat xs * 256 + b.toNat := by
  simp [beNat, List.foldl_append]

theorem beNat_reverse (xs : Bytes) : beNat xs.reverse = leNat xs := by
  induction xs with
  | nil => rfl
  | cons b r ih => simp [beNat_snoc, ih, leNat]; omega

theorem beNat_beBytes (n v : Nat) : beNat (beBytes n v) = v % 256 ^ n := by
  simp [beBytes, beNat_reverse, leNat_leBytes]

theorem beBytes_length (n v : Nat) : (beBytes n v).length = n := by simp [beBytes, leBytes_length]


theorem signed_twos8 (v : Int) (h1 : -128 ≤ v) (h2 : v ≤ 127) : signed 8 (twos 8 v % 256 ^ 1) = v := by
  unfold signed twos
  simp only [Nat.reducePow, Nat.reduceSub]
  omega

theorem signed_twos16 (v : Int) (h1 : -32768 ≤ v) (h2 : v ≤ 32767) : signed 16 (twos 16 v % 256 ^ 2) = v := by
  unfold signed twos
  simp only [Nat.reducePow, Nat.reduceSub]
  omega

theorem signed_twos32 (v : Int) (h1 : -2147483648 ≤ v) (h2 : v ≤ 2147483647) : signed 32 (twos 32 v % 256 ^ 4) = v := by
  unfold signed twos
  simp only [Nat.reducePow, Nat.reduceSub]
  omega

theorem signed_twos64 (v : Int) (h1 : -9223372036854775808 ≤ v) (h2 : v ≤ 9223372036854775807) :
    signed 64 (twos 64 v % 256 ^ 8) = v := by
  unfold signed twos
  simp only [Nat.reducePow, Nat.reduceSub]
  omega

theorem splitExact_append (a rest : Bytes) : splitExact a.length (a ++ rest) = some (a, rest) := by
  induction a with
  | nil => simp [splitExact]
  | cons b a ih => simp [splitExact, ih]

theorem rN_append (a rest : Bytes) (n : Nat) (h : a.length = n) : rN n (a ++ rest) = .ok (a, rest) := by
  subst h; simp [rN, splitExact_append]

theorem bSlice_append (a rest : Bytes) (n : Nat) (h : a.length = n) : bSlice n (a ++ rest) = .ok (a, rest) := by
  subst h; simp [bSlice, splitExact_append]

theorem pow256_4 : (256 : Nat) ^ 4 = 4294967296 := by decide
theorem pow256_8 : (256 : Nat) ^ 8 = 18446744073709551616 := by decide

theorem cReadLength_encLen (e : Spec.Rdb.ELen) (h : e.fits) (h32 : e.val < 4294967296) (rest : Bytes) :
    cReadLength (Spec.Rdb.encLen e ++ rest) = .ok ((e.val, false), rest) := by
  obtain ⟨n, f⟩ := e
  cases f <;> simp only [Spec.Rdb.ELen.fits] at h <;> simp only [] at h32
  · simp only [Spec.Rdb.encLen, List.cons_append, List.nil_append, cReadLength, u8_ofNat_toNat]
    have h1 : n % 256 / 64 = 0 := by omega
    have h2 : n % 256 % 64 = n := by omega
    simp [h1, h2]
  · simp only [Spec.Rdb.encLen, List.cons_append, List.nil_append, cReadLength, u8_ofNat_toNat]
    have h1 : (64 + n / 256) % 256 / 64 = 1 := by omega
    simp [h1]
    omega
  · simp only [Spec.Rdb.encLen, List.cons_append, cReadLength]
    have h2 : (0x80 : UInt8).toNat / 64 = 2 := by decide
    simp only [h2]
    have h81 : ¬ (0x80 : UInt8).toNat = 0x81 := by decide
    simp only [h81, if_false, rN_append _ rest 4 (Lemmas.Rdb.beBytes_length 4 n), Lemmas.Rdb.beNat_beBytes, pow256_4]
    rw [Nat.mod_eq_of_lt h32]
  · simp only [Spec.Rdb.encLen, List.cons_append, cReadLength]
    have h2 : (0x81 : UInt8).toNat / 64 = 2 := by decide
    simp only [h2]
    have h81 : (0x81 : UInt8).toNat = 0x81 := by decide
    simp only [h81, if_true, rN_append _ rest 8 (Lemmas.Rdb.beBytes_length 8 n), Lemmas.Rdb.beNat_beBytes, pow256_8]
    have : n % 18446744073709551616 % 4294967296 = n := by omega
    rw [this]

theorem beBytes4_eq (l : Nat) : beBytes 4 l = Spec.Rdb.beBytes 4 l := by
  simp only [beBytes, leBytes, Spec.Rdb.beBytes, List.reverse_cons, List.reverse_nil, List.nil_append, List.cons_append,
    Nat.pow_zero, Nat.div_one, Nat.reducePow]
  have e1 : l / 256 / 256 / 256 = l / 16777216 := by omega
  have e2 : l / 256 / 256 = l / 65536 := by omega
  rw [e1, e2]

/-- the form `EncodeLength` chooses -/
def minForm (l : Nat) : Spec.Rdb.LenForm := if l < 64 then .b6 else if l < 16384 then .b14 else .b32

theorem encLength_eq (l : Nat) : encLength l = Spec.Rdb.encLen ⟨l, minForm l⟩ := by
  unfold encLength minForm
  split
  · simp [Spec.Rdb.encLen]
  · split
    · simp [Spec.Rdb.encLen]
    · simp [Spec.Rdb.encLen, beBytes4_eq]

theorem minForm_fits (l : Nat) (h : l < 4294967296) : (Spec.Rdb.ELen.mk l (minForm l)).fits := by
  unfold minForm
  by_cases h1 : l < 64
  · simp [h1, Spec.Rdb.ELen.fits]
  · by_cases h2 : l < 16384
    · simp [h1, h2, Spec.Rdb.ELen.fits]
    · simp [h1, h2, Spec.Rdb.ELen.fits]; omega

theorem cReadLength_encLength (l : Nat) (h : l < 4294967296) (rest : Bytes) :
    cReadLength (encLength l ++ rest) = .ok ((l, false), rest) := by
  rw [encLength_eq]
  exact cReadLength_encLen ⟨l, minForm l⟩ (minForm_fits l h) h rest

theorem cReadLength_encLength32 (l : Nat) (h : l < 4294967296) (rest : Bytes) :
    cReadLength (encLength32 l ++ rest) = .ok ((l, false), rest) := by
  unfold encLength32; rw [Nat.mod_eq_of_lt h]; exact cReadLength_encLength l h rest

/-- what `encodeIntString` writes is read back as the very same text -/
theorem cReadString_intString (s b : Bytes) (h : encodeIntString s = some b) (rest : Bytes) :
    cReadString (b ++ rest) = .ok (s, rest) := by
  unfold encodeIntString at h
  split at h
  · cases h
  · rename_i i _
    split at h
    · cases h
    · rename_i hs
      have hs : s = fmtInt i := by simpa using hs
      split at h
      · rename_i hr
        cases h
        simp only [leBytes, List.cons_append, List.nil_append, cReadString, cReadLength]
        have e1 : (0xC0 : UInt8).toNat / 64 = 3 := by decide
        have e2 : (0xC0 : UInt8).toNat % 64 = 0 := by decide
        simp only [e1, e2, if_true, rByte, u8_ofNat_toNat]
        have := signed_twos8 i hr.1 hr.2
        simp only [Nat.pow_one] at this
        rw [Nat.mod_mod, this, hs]
      · split at h
        · rename_i hr
          cases h
          simp only [List.cons_append, cReadString, cReadLength]
          have e1 : (0xC1 : UInt8).toNat / 64 = 3 := by decide
          have e2 : (0xC1 : UInt8).toNat % 64 = 1 := by decide
          simp only [e1, e2, if_true, rN_append _ rest 2 (leBytes_length 2 _), leNat_leBytes]
          rw [signed_twos16 i hr.1 hr.2, hs]
        · split at h
          · rename_i hr
            cases h
            simp only [List.cons_append, cReadString, cReadLength]
            have e1 : (0xC2 : UInt8).toNat / 64 = 3 := by decide
            have e2 : (0xC2 : UInt8).toNat % 64 = 2 := by decide
            simp only [e1, e2, if_true, rN_append _ rest 4 (leBytes_length 4 _), leNat_leBytes]
            rw [signed_twos32 i hr.1 hr.2, hs]
          · cases h

theorem cReadString_encString (s : Bytes) (h : s.length < 4294967296) (rest : Bytes) :
    cReadString (encString s ++ rest) = .ok (s, rest) := by
  unfold encString
  split
  · rename_i b hb; exact cReadString_intString s b hb rest
  · simp only [List.append_assoc, cReadString, cReadLength_encLength32 s.length h]
    simp [rN_append s rest s.length rfl]

/-- a reader that undoes a writer element-wise undoes it on lists -/
theorem readMany_flatMap {α β : Type} (f : CR β) (enc : α → Bytes) (dec : α → β) (xs : List α)
    (h : ∀ x ∈ xs, ∀ rest, f (enc x ++ rest) = .ok (dec x, rest)) (rest : Bytes) :
    readMany f xs.length (xs.flatMap enc ++ rest) = .ok (xs.map dec, rest) := by
  induction xs with
  | nil => simp [readMany]
  | cons x xs ih =>
    simp only [List.length_cons, List.flatMap_cons, List.append_assoc, readMany]
    rw [h x (by simp)]
    simp only []
    rw [ih (fun y hy => h y (by simp [hy]))]
    simp

theorem manyB_flatMap {α β : Type} (f : BR β) (enc : α → Bytes) (dec : α → β) (xs : List α)
    (h : ∀ x ∈ xs, ∀ rest, f (enc x ++ rest) = .ok (dec x, rest)) (rest : Bytes) :
    manyB f xs.length (xs.flatMap enc ++ rest) = .ok (xs.map dec, rest) := by
  induction xs with
  | nil => simp [manyB]
  | cons x xs ih =>
    simp only [List.length_cons, List.flatMap_cons, List.append_assoc, manyB]
    rw [h x (by simp)]
    simp only []
    rw [ih (fun y hy => h y (by simp [hy]))]
    simp

theorem pairR_ok {α β : Type} (f : CR α) (g : CR β) (a b rest : Bytes) (x : α) (y : β)
    (hf : ∀ r, f (a ++ r) = .ok (x, r)) (hg : g (b ++ rest) = .ok (y, rest)) :
    pairR f g ((a ++ b) ++ rest) = .ok ((x, y), rest) := by
  simp [pairR, List.append_assoc, hf, hg]

theorem counted_flatMap {α β : Type} (f : CR β) (enc : α → Bytes) (dec : α → β) (xs : List α)
    (hl : xs.length < 4294967296)
    (h : ∀ x ∈ xs, ∀ rest, f (enc x ++ rest) = .ok (dec x, rest)) (rest : Bytes) :
    RdbDecode.counted f (encLength32 xs.length ++ xs.flatMap enc ++ rest) = .ok (xs.map dec, rest) := by
  simp only [RdbDecode.counted, List.append_assoc, cReadLength_encLength32 _ hl]
  exact readMany_flatMap f enc dec xs h rest

theorem cReadFloat_encFloat (fmt : UInt64 → Bytes) (pf : Bytes → Option UInt64) (h : FloatText fmt pf)
    (f : UInt64) (rest : Bytes) :
    cReadFloat pf (encFloat fmt f ++ rest) = .ok (normScore f, rest) := by
  unfold encFloat normScore
  by_cases hn : isNaN f = true
  · simp [hn, cReadFloat, rByte]
  · simp only [hn, if_false, Bool.false_eq_true]
    by_cases hp : f = posInf
    · subst hp; simp [cReadFloat, rByte]
    · by_cases hm : f = negInf
      · subst hm; simp [cReadFloat, rByte, posInf, negInf]
      · simp only [hp, hm, if_false, List.cons_append, cReadFloat, rByte, u8_ofNat_toNat]
        have hs := h.short f
        have e : (fmt f).length % 256 % 256 = (fmt f).length := by omega
        have n1 : ¬ (fmt f).length = 253 := by omega
        have n2 : ¬ (fmt f).length = 254 := by omega
        have n3 : ¬ (fmt f).length = 255 := by omega
        simp only [e, n1, n2, n3, if_false, rN_append _ rest _ rfl, h.roundtrip f (by simpa using hn) hp hm]

/-! ### adaptor -/

theorem fold_rpush (xs acc : List Bytes) :
    (xs.map Event.rpush).foldl step { obj := some (.list acc), err := false } =
      { obj := some (.list (xs.reverse ++ acc)), err := false } := by
  induction xs generalizing acc with
  | nil => rfl
  | cons x xs ih => simp [step, ih]

theorem fold_sadd (xs acc : List Bytes) :
    (xs.map Event.sadd).foldl step { obj := some (.set acc), err := false } =
      { obj := some (.set (xs.reverse ++ acc)), err := false } := by
  induction xs generalizing acc with
  | nil => rfl
  | cons x xs ih => simp [step, ih]

theorem fold_hset (xs acc : List (Bytes × Bytes)) :
    (xs.map fun (f, v) => Event.hset f v).foldl step { obj := some (.hash acc), err := false } =
      { obj := some (.hash (xs.reverse ++ acc)), err := false } := by
  induction xs generalizing acc with
  | nil => rfl
  | cons x xs ih => obtain ⟨f, v⟩ := x; simp [step, ih]

theorem fold_zadd (xs acc : List (Bytes × UInt64)) :
    (xs.map fun (m, s) => Event.zadd s m).foldl step { obj := some (.zset acc), err := false } =
      { obj := some (.zset (xs.reverse ++ acc)), err := false } := by
  induction xs generalizing acc with
  | nil => rfl
  | cons x xs ih => obtain ⟨m, s⟩ := x; simp [step, ih]

theorem adapt_set (v : Bytes) : adapt [.set v] = .ok (.str v) := by
  simp [adapt, step, ASt.init, LValue.rev]

theorem adapt_list (xs : List Bytes) : adapt (.startList :: xs.map .rpush) = .ok (.list xs) := by
  have := fold_rpush xs []
  simp [adapt, List.foldl_cons, step, ASt.init, this, LValue.rev]

theorem adapt_setv (xs : List Bytes) : adapt (.startSet :: xs.map .sadd) = .ok (.set xs) := by
  have := fold_sadd xs []
  simp [adapt, List.foldl_cons, step, ASt.init, this, LValue.rev]

theorem adapt_hash (xs : List (Bytes × Bytes)) :
    adapt (.startHash :: xs.map fun (f, v) => Event.hset f v) = .ok (.hash xs) := by
  have := fold_hset xs []
  simp only [adapt, List.foldl_cons, step, ASt.init] at *
  simp [this, LValue.rev]

theorem adapt_zset (xs : List (Bytes × UInt64)) :
    adapt (.startZSet :: xs.map fun (m, s) => Event.zadd s m) = .ok (.zset xs) := by
  have := fold_zadd xs []
  simp only [adapt, List.foldl_cons, step, ASt.init] at *
  simp [this, LValue.rev]

theorem withDumpFooter_length (b : Bytes) : (withDumpFooter b).length = b.length + 10 := by
  simp [withDumpFooter, le64_length, le16]

theorem verifyDump_footer (b : Bytes) : Dump.verifyDump (withDumpFooter b) = .ok () := by
  unfold Dump.verifyDump
  have hl := withDumpFooter_length b
  rw [if_neg (by omega)]
  simp only [hl]
  have e10 : b.length + 10 - 10 = b.length := by omega
  have e8 : b.length + 10 - 8 = (b ++ le16 encVersion).length := by simp [le16]
  have hd : withDumpFooter b = b ++ (le16 encVersion ++ le64 (Spec.Crc64.crc64 (b ++ le16 encVersion))) := by
    simp [withDumpFooter]
  have hv : ((withDumpFooter b).drop b.length).take 2 = le16 encVersion := by
    rw [hd, List.drop_left]; simp [le16]
  have hc1 : (withDumpFooter b).drop (b ++ le16 encVersion).length = le64 (Spec.Crc64.crc64 (b ++ le16 encVersion)) := by
    unfold withDumpFooter; simp only []; rw [List.drop_left]
  have hc2 : (withDumpFooter b).take (b ++ le16 encVersion).length = b ++ le16 encVersion := by
    unfold withDumpFooter; simp only []; rw [List.take_left]
  rw [e10, e8, hv, hc1, hc2, ofLe64_le64, RSVerif.Properties.C11.cupcake_eq_spec]
  have hver : Dump.ofLe16 (le16 encVersion) = UInt16.ofNat Generated.cupcakeVersion.toNat := by decide
  simp [hver, Spec.Crc64.crc64]

theorem decodeDumpG_footer (fixed : Bool) (pf : Bytes → Option UInt64) (t : UInt8) (body : Bytes) :
    decodeDumpG fixed pf (withDumpFooter (t :: body)) =
      decodeValueG fixed pf t (body ++ (le16 encVersion ++ le64 (Spec.Crc64.crc64 (t :: body ++ le16 encVersion)))) := by
  unfold decodeDumpG
  rw [verifyDump_footer]
  simp [withDumpFooter]

theorem adapt_hash' (xs : List (Bytes × Bytes)) :
    adapt (.startHash :: xs.map fun x => Event.hset x.1 x.2) = .ok (.hash xs) := adapt_hash xs

theorem adapt_zset' (xs : List (Bytes × UInt64)) :
    adapt (.startZSet :: xs.map fun x => Event.zadd x.2 x.1) = .ok (.zset xs) := adapt_zset xs

theorem signed_twos24 (v : Int) (h1 : -8388608 ≤ v) (h2 : v ≤ 8388607) :
    signed 32 (0 + 256 * (twos 24 v % 256 ^ 3)) / 256 = v := by
  unfold signed twos
  simp only [Nat.reducePow, Nat.reduceSub]
  omega

theorem drop_append_len (a b : Bytes) (n : Nat) (h : a.length = n) : (a ++ b).drop n = b := by
  subst h; exact List.drop_left
theorem take_append_len (a b : Bytes) (n : Nat) (h : a.length = n) : (a ++ b).take n = a := by
  subst h; exact List.take_left

theorem zlEntry_prev (big : Bool) (prev : Nat) (tail : Bytes) :
    zlEntry (serPrevLen big prev ++ tail) = zlBody tail := by
  unfold serPrevLen
  split
  · simp only [List.cons_append, zlEntry]
    have : (0xFE : UInt8).toNat = 254 := by decide
    simp only [this, if_true]
    rw [drop_append_len _ tail 4 (leBytes_length 4 prev)]
  · rename_i h
    simp only [List.cons_append, List.nil_append, zlEntry, u8_ofNat_toNat]
    have : ¬ prev % 256 = 254 := by
      have : ¬ prev ≥ 254 := fun hh => h (Or.inr hh)
      omega
    simp [this]

theorem len14_split (n : Nat) (hn : n < 16384) : n / 256 % 64 * 256 + n % 256 = n := by omega

theorem zlBody_ser (e : ZlEntry) (h : e.WF) (rest : Bytes) :
    zlBody (serEntryBody e ++ rest) = .ok (e.logical, rest) := by
  cases e with
  | str big f s =>
    cases f <;> simp only [ZlEntry.WF, StrForm.fits] at h
    · simp only [serEntryBody, List.cons_append, zlBody, u8_ofNat_toNat, ZlEntry.logical]
      have h1 : s.length % 256 / 64 = 0 := by omega
      have h2 : s.length % 256 % 64 = s.length := by omega
      simp only [h1, h2, if_true, bSlice_append s rest _ rfl]
    · simp only [serEntryBody, List.cons_append, zlBody, u8_ofNat_toNat, ZlEntry.logical]
      have h1 : ¬ (64 + s.length / 256) % 256 / 64 = 0 := by omega
      have h2 : (64 + s.length / 256) % 256 / 64 = 1 := by omega
      have h3 : (64 + s.length / 256) % 256 % 64 * 256 + s.length % 256 % 256 = s.length := by omega
      simp [h2, len14_split _ h, bSlice_append s rest _ rfl]
    · simp only [serEntryBody, List.cons_append, List.append_assoc, zlBody, ZlEntry.logical]
      have e0 : ¬ (0x80 : UInt8).toNat / 64 = 0 := by decide
      have e1 : ¬ (0x80 : UInt8).toNat / 64 = 1 := by decide
      have e2 : (0x80 : UInt8).toNat / 64 = 2 := by decide
      simp [e2, bSlice_append _ _ 4 (beBytes_length 4 _), beNat_beBytes, pow256_4,
        Nat.mod_eq_of_lt h, bSlice_append s rest _ rfl]
  | int big enc v =>
    cases enc <;> simp only [ZlEntry.WF, IntEnc.fits] at h
    · -- i4
      simp only [serEntryBody, List.cons_append, List.nil_append, zlBody, u8_ofNat_toNat, ZlEntry.logical]
      obtain ⟨k, hk⟩ : ∃ k : Nat, v = (k : Int) := ⟨v.toNat, by omega⟩
      subst hk
      have hk : k ≤ 12 := by omega
      simp only [Int.toNat_natCast]
      have a0 : ¬ (0xF1 + k) % 256 / 64 = 0 := by omega
      have a1 : ¬ (0xF1 + k) % 256 / 64 = 1 := by omega
      have a2 : ¬ (0xF1 + k) % 256 / 64 = 2 := by omega
      have a3 : ¬ (0xF1 + k) % 256 = 0xC0 := by omega
      have a4 : ¬ (0xF1 + k) % 256 = 0xD0 := by omega
      have a5 : ¬ (0xF1 + k) % 256 = 0xE0 := by omega
      have a6 : ¬ (0xF1 + k) % 256 = 0xF0 := by omega
      have a7 : ¬ (0xF1 + k) % 256 = 0xFE := by omega
      have a8 : (0xF1 + k) % 256 / 16 = 15 := by omega
      have a9 : (((0xF1 + k) % 256 % 16 : Nat) : Int) - 1 = (k : Int) := by omega
      simp only [a0, a1, a2, a3, a4, a5, a6, a7, a8, a9, if_true, if_false]
    · -- i8
      simp only [serEntryBody, List.cons_append, leBytes, List.nil_append, zlBody, ZlEntry.logical]
      have a : (0xFE : UInt8).toNat = 254 := by decide
      simp only [a, u8_ofNat_toNat]
      have := signed_twos8 v h.1 h.2
      simp only [Nat.pow_one] at this
      simp [Nat.mod_mod, this]
    · -- i16
      simp only [serEntryBody, List.cons_append, zlBody, ZlEntry.logical]
      have a : (0xC0 : UInt8).toNat = 192 := by decide
      simp only [a, bSlice_append _ rest 2 (leBytes_length 2 _), leNat_leBytes, signed_twos16 v h.1 h.2]
      simp
    · -- i24
      simp only [serEntryBody, List.cons_append, zlBody, ZlEntry.logical]
      have a : (0xF0 : UInt8).toNat = 240 := by decide
      simp only [a]
      have hl := leBytes_length 3 (twos 24 v)
      have ht := take_append_len _ rest 3 hl
      have hd := drop_append_len _ rest 3 hl
      obtain ⟨y, ys, hy⟩ : ∃ y ys, leBytes 3 (twos 24 v) ++ rest = y :: ys :=
        ⟨_, _, by simp only [leBytes, List.cons_append]; rfl⟩
      rw [hy]
      simp (config := { decide := true }) only [if_true, if_false]
      rw [← hy, ht, hd, hl]
      simp only [Nat.sub_self, List.replicate_zero, List.append_nil, leNat, leNat_leBytes, UInt8.toNat_zero]
      rw [signed_twos24 v h.1 h.2]
    · -- i32
      simp only [serEntryBody, List.cons_append, zlBody, ZlEntry.logical]
      have a : (0xD0 : UInt8).toNat = 208 := by decide
      simp only [a, bSlice_append _ rest 4 (leBytes_length 4 _), leNat_leBytes, signed_twos32 v h.1 h.2]
      simp
    · -- i64
      simp only [serEntryBody, List.cons_append, zlBody, ZlEntry.logical]
      have a : (0xE0 : UInt8).toNat = 224 := by decide
      simp only [a, bSlice_append _ rest 8 (leBytes_length 8 _), leNat_leBytes, signed_twos64 v h.1 h.2]
      simp

theorem zlEntry_ser (prev : Nat) (e : ZlEntry) (h : e.WF) (rest : Bytes) :
    zlEntry (serEntry prev e ++ rest) = .ok (e.logical, rest) := by
  unfold serEntry
  rw [List.append_assoc, zlEntry_prev, zlBody_ser e h rest]

theorem cLzf_toks (ts : List Spec.Rdb.LzfTok) (h : Spec.Rdb.toksOk [] ts) :
    cLzf (Spec.Rdb.encToks ts) (Spec.Rdb.expand ts).length = some (Spec.Rdb.expand ts) := by
  have h0 := Lemmas.Rdb.lzf_expand ts h
  unfold lzfDecompress at h0
  unfold cLzf
  cases hl : lzfLoop (Spec.Rdb.expand ts).length (Spec.Rdb.encToks ts).length (Spec.Rdb.encToks ts) [] with
  | none => simp [hl] at h0
  | some out =>
    simp only [hl] at h0
    by_cases he : out.length = (Spec.Rdb.expand ts).length
    · simp only [he, if_true, Option.some.injEq] at h0
      subst h0
      simp
    · simp [he] at h0

theorem cReadLength_C3 (r : Bytes) : cReadLength (0xC3 :: r) = .ok ((3, true), r) := by
  simp only [cReadLength]
  have e1 : (0xC3 : UInt8).toNat / 64 = 3 := by decide
  have e2 : (0xC3 : UInt8).toNat % 64 = 3 := by decide
  simp only [e1, e2]

/-- every well-formed string object is read back by the cupcake reader as its logical content -/
theorem cReadString_ser (s : RStr) (h : strOkC s) (rest : Bytes) :
    cReadString (Spec.Rdb.serStr s ++ rest) = .ok (Spec.Rdb.logical s, rest) := by
  cases s with
  | raw f bs =>
    obtain ⟨hf, h32⟩ := h
    simp only [Spec.Rdb.serStr, List.append_assoc, cReadString, cReadLength_encLen _ hf h32, Spec.Rdb.logical]
    simp [rN_append bs rest _ rfl]
  | int8 b =>
    simp only [strOkC] at h
    match b, h with
    | [x], _ =>
      simp only [Spec.Rdb.serStr, List.cons_append, List.nil_append, cReadString, cReadLength, Spec.Rdb.logical]
      have e1 : (0xC0 : UInt8).toNat / 64 = 3 := by decide
      have e2 : (0xC0 : UInt8).toNat % 64 = 0 := by decide
      simp only [e1, e2, if_true, rByte, ← Lemmas.Rdb.fmtInt_eq_decimal, ← Lemmas.Rdb.signed_eq_twos]
      simp [Spec.Rdb.leVal]
  | int16 b =>
    simp only [strOkC] at h
    simp only [Spec.Rdb.serStr, List.cons_append, cReadString, cReadLength, Spec.Rdb.logical]
    have e1 : (0xC1 : UInt8).toNat / 64 = 3 := by decide
    have e2 : (0xC1 : UInt8).toNat % 64 = 1 := by decide
    simp only [e1, e2, if_true, rN_append b rest 2 h, ← Lemmas.Rdb.fmtInt_eq_decimal, ← Lemmas.Rdb.signed_eq_twos,
      Lemmas.Rdb.leNat_eq_leVal]
  | int32 b =>
    simp only [strOkC] at h
    simp only [Spec.Rdb.serStr, List.cons_append, cReadString, cReadLength, Spec.Rdb.logical]
    have e1 : (0xC2 : UInt8).toNat / 64 = 3 := by decide
    have e2 : (0xC2 : UInt8).toNat % 64 = 2 := by decide
    simp only [e1, e2, if_true, rN_append b rest 4 h, ← Lemmas.Rdb.fmtInt_eq_decimal, ← Lemmas.Rdb.signed_eq_twos,
      Lemmas.Rdb.leNat_eq_leVal]
  | lzf cf uf ts =>
    obtain ⟨hcf, hc32, huf, hu32, htoks⟩ := h
    simp only [Spec.Rdb.serStr, List.cons_append, List.append_assoc, cReadString, cReadLength_C3, Spec.Rdb.logical]
    simp only [if_true, cReadLength_encLen _ hcf hc32, cReadLength_encLen _ huf hu32,
      rN_append _ rest _ rfl, cLzf_toks ts htoks]

theorem strOk_strOkC (s : RStr) (h : Spec.Rdb.strOk s) : strOkC s := by
  cases s with
  | raw f bs =>
    obtain ⟨h64, hf⟩ := h
    refine ⟨hf, ?_⟩
    cases f <;> simp [Spec.Rdb.ELen.fits] at hf h64 ⊢ <;> omega
  | int8 b => exact h
  | int16 b => exact h
  | int32 b => exact h
  | lzf cf uf ts =>
    obtain ⟨hc, hu, hcf, huf, htoks⟩ := h
    refine ⟨hcf, ?_, huf, ?_, htoks⟩
    · cases cf <;> simp [Spec.Rdb.ELen.fits] at hcf hc ⊢ <;> omega
    · cases uf <;> simp [Spec.Rdb.ELen.fits] at huf hu ⊢ <;> omega

theorem manyB_entries (es : List ZlEntry) (h : ∀ e ∈ es, e.WF) (prev : Nat) (rest : Bytes) :
    manyB zlEntry es.length (serEntries prev es ++ rest) = .ok (es.map (·.logical), rest) := by
  induction es generalizing prev with
  | nil => simp [manyB, serEntries]
  | cons e es ih =>
    simp only [List.length_cons, serEntries, List.append_assoc, manyB]
    rw [zlEntry_ser prev e (h e (by simp))]
    simp only []
    rw [ih (fun x hx => h x (by simp [hx]))]
    simp

theorem zlEntries_entries (es : List ZlEntry) (h : ∀ e ∈ es, e.WF) (prev : Nat) (rest : Bytes) :
    zlEntries es.length (serEntries prev es ++ rest) = (es.map (·.logical), none) := by
  induction es generalizing prev with
  | nil => simp [zlEntries, serEntries]
  | cons e es ih =>
    simp only [List.length_cons, serEntries, List.append_assoc, zlEntries]
    rw [zlEntry_ser prev e (h e (by simp))]
    simp only []
    rw [ih (fun x hx => h x (by simp [hx]))]
    simp

theorem manyB_pairs (ps : List (ZlEntry × ZlEntry)) (h : ∀ e ∈ flattenPairs ps, e.WF) (prev : Nat) (rest : Bytes) :
    manyB (pairB zlEntry zlEntry) ps.length (serEntries prev (flattenPairs ps) ++ rest) =
      .ok (ps.map fun p => (p.1.logical, p.2.logical), rest) := by
  induction ps generalizing prev with
  | nil => simp [manyB, serEntries, flattenPairs]
  | cons p ps ih =>
    obtain ⟨a, b⟩ := p
    have hcons : flattenPairs ((a, b) :: ps) = a :: b :: flattenPairs ps := by simp [flattenPairs]
    have ha : a.WF := h a (by simp [hcons])
    have hb : b.WF := h b (by simp [hcons])
    simp only [List.length_cons, hcons, serEntries, List.append_assoc, manyB, pairB]
    rw [zlEntry_ser prev a ha]
    simp only []
    rw [zlEntry_ser _ b hb]
    simp only []
    rw [ih (fun x hx => h x (by simp [hcons, hx]))]
    simp

theorem flattenPairs_length (ps : List (ZlEntry × ZlEntry)) : (flattenPairs ps).length = 2 * ps.length := by
  induction ps with
  | nil => rfl
  | cons p ps ih => obtain ⟨a, b⟩ := p; simp [flattenPairs] at ih ⊢; omega

/-- the first byte of a serialised entry (its prevlen field) is never the 0xFF end marker -/
theorem serEntry_head (prev : Nat) (e : ZlEntry) :
    ∃ b t, serEntry prev e = b :: t ∧ b.toNat ≠ 255 := by
  unfold serEntry serPrevLen
  split
  · exact ⟨0xFE, leBytes 4 prev ++ serEntryBody e, by simp, by decide⟩
  · rename_i h
    refine ⟨UInt8.ofNat prev, serEntryBody e, by simp, ?_⟩
    have : ¬ prev ≥ 254 := fun hh => h (Or.inr hh)
    rw [u8_ofNat_toNat]; omega

theorem serEntries_length_ge (es : List ZlEntry) (prev : Nat) : es.length ≤ (serEntries prev es).length := by
  induction es generalizing prev with
  | nil => simp
  | cons e es ih =>
    obtain ⟨b, t, hbt, _⟩ := serEntry_head prev e
    have := ih (serEntry prev e).length
    simp only [serEntries, List.length_append, List.length_cons, hbt] at this ⊢
    omega

/-- the counting loop behind the 65535 marker walks exactly the entries of the ziplist -/
theorem zlCount_ser (es : List ZlEntry) (h : ∀ e ∈ es, e.WF) (prev acc fuel : Nat) (hf : es.length < fuel) :
    zlCount fuel (serEntries prev es ++ [0xFF]) acc = .ok (acc + es.length) := by
  induction es generalizing prev acc fuel with
  | nil =>
    obtain ⟨f, rfl⟩ : ∃ f, fuel = f + 1 := ⟨fuel - 1, by simp at hf; omega⟩
    have : (0xFF : UInt8).toNat = 255 := by decide
    simp [zlCount, serEntries, this]
  | cons e es ih =>
    obtain ⟨f, rfl⟩ : ∃ f, fuel = f + 1 := ⟨fuel - 1, by simp at hf; omega⟩
    obtain ⟨b, t, hbt, hb⟩ := serEntry_head prev e
    have hser := zlEntry_ser prev e (h e (by simp)) (serEntries (serEntry prev e).length es ++ [0xFF])
    simp only [serEntries, List.append_assoc]
    rw [hbt] at hser ⊢
    simp only [List.cons_append] at hser ⊢
    simp only [zlCount, hb, if_false, hser]
    rw [ih (fun x hx => h x (by simp [hx])) _ _ f (by simp at hf; omega)]
    simp only [List.length_cons]
    congr 1; omega

theorem zlLength_ser (es : List ZlEntry) (h : ∀ e ∈ es, e.WF) :
    zlLength (serZiplist es) = .ok (es.length, serEntries 0 es ++ [0xFF]) := by
  unfold serZiplist zlLength
  simp only [List.append_assoc]
  have h8 : (leBytes 4 (10 + (serEntries 0 es).length + 1) ++ leBytes 4 (10 + (serEntries 0 es.dropLast).length)).length = 8 := by
    simp [leBytes_length]
  rw [← List.append_assoc (leBytes 4 _) (leBytes 4 _), drop_append_len _ _ 8 h8,
    bSlice_append _ _ 2 (leBytes_length 2 _)]
  simp only [leNat_leBytes]
  have h256 : (256 : Nat) ^ 2 = 65536 := by decide
  rw [h256]
  by_cases hl : es.length < 65535
  · have e1 : min es.length 65535 % 65536 = es.length := by omega
    simp only [e1, hl, if_true]
  · have e1 : min es.length 65535 % 65536 = 65535 := by omega
    simp only [e1, Nat.lt_irrefl, if_false]
    rw [zlCount_ser es h 0 0 _ (by have := serEntries_length_ge es 0; simp; omega)]
    simp

theorem signed_twos_width (w : Nat) (hw : w = 2 ∨ w = 4 ∨ w = 8) (v : Int) (h : widthFits w v) :
    signed (8 * w) (twos (8 * w) v % 256 ^ w) = v := by
  rcases hw with rfl | rfl | rfl <;> simp only [widthFits, Nat.reduceMul, Nat.reduceSub, Nat.reducePow] at h
  · exact signed_twos16 v (by omega) (by omega)
  · exact signed_twos32 v (by omega) (by omega)
  · exact signed_twos64 v (by omega) (by omega)

theorem readIntset_ser (w : Nat) (xs : List Int) (hw : w = 2 ∨ w = 4 ∨ w = 8) (hx : ∀ v ∈ xs, widthFits w v)
    (hl : xs.length < 4294967296) :
    readIntset (serIntset w xs) = .ok (xs.map fmtInt) := by
  unfold readIntset serIntset
  simp only [List.append_assoc, bSlice_append _ _ 4 (leBytes_length 4 _), leNat_leBytes, pow256_4]
  have hw4 : w % 4294967296 = w := by rcases hw with rfl | rfl | rfl <;> rfl
  have hl4 : xs.length % 4294967296 = xs.length := Nat.mod_eq_of_lt hl
  rw [hw4, hl4]
  have hne : ¬ (w ≠ 2 ∧ w ≠ 4 ∧ w ≠ 8) := by omega
  simp only [hne, if_false]
  have := manyB_flatMap (intsetElem w)
    (fun v => leBytes w (twos (8 * w) v)) fmtInt xs
    (fun v hv r => by
      simp only [intsetElem, bSlice_append _ r w (leBytes_length w _), leNat_leBytes, signed_twos_width w hw v (hx v hv)]) []
  simp only [List.append_nil] at this
  rw [this]

/-- item lengths both readers agree on (pinned: below the 253 marker; repaired: anything that fits 32 bits) -/
def zmLenOk (fixed : Bool) (n : Nat) : Prop := n < 253 ∨ (fixed = true ∧ n < 4294967296)

theorem zmItemLen_key (fixed : Bool) (n : Nat) (h : zmLenOk fixed n) (tail : Bytes) :
    zmItemLen fixed false (serZmLen n ++ tail) = .ok ((some n, 0), tail) := by
  unfold serZmLen
  by_cases hs : n < 254
  · simp only [hs, if_true, List.cons_append, List.nil_append, zmItemLen, u8_ofNat_toNat]
    have e : n % 256 = n := by omega
    have n255 : ¬ n = 255 := by omega
    have n254 : ¬ n = 254 := by omega
    rcases h with h | ⟨hf, _⟩
    · have n253 : ¬ n = 253 := by omega
      cases fixed <;> simp [e, n255, n254, n253]
    · subst hf; simp [e, n255, n254]
  · rcases h with h | ⟨hf, h32⟩
    · omega
    · subst hf
      simp only [hs, if_false, List.cons_append, zmItemLen]
      have a : ¬ (254 : UInt8).toNat = 255 := by decide
      have b : (254 : UInt8).toNat = 254 := by decide
      simp only [a, b, if_true, if_false, bSlice_append _ tail 4 (leBytes_length 4 n), leNat_leBytes, pow256_4,
        Nat.mod_eq_of_lt h32]
      simp

theorem zmItemLen_val (fixed : Bool) (n f : Nat) (h : zmLenOk fixed n) (hf : f < 256) (tail : Bytes) :
    zmItemLen fixed true (serZmLen n ++ UInt8.ofNat f :: tail) = .ok ((some n, f), tail) := by
  unfold serZmLen
  have ef : f % 256 = f := by omega
  by_cases hs : n < 254
  · simp only [hs, if_true, List.cons_append, List.nil_append, zmItemLen, u8_ofNat_toNat]
    have e : n % 256 = n := by omega
    have n255 : ¬ n = 255 := by omega
    have n254 : ¬ n = 254 := by omega
    rcases h with h | ⟨hfx, _⟩
    · have n253 : ¬ n = 253 := by omega
      cases fixed <;> simp [e, ef, n255, n254, n253]
    · subst hfx; simp [e, ef, n255, n254]
  · rcases h with h | ⟨hfx, h32⟩
    · omega
    · subst hfx
      simp only [hs, if_false, List.cons_append, zmItemLen]
      have a : ¬ (254 : UInt8).toNat = 255 := by decide
      have b : (254 : UInt8).toNat = 254 := by decide
      simp only [a, b, if_true, if_false, bSlice_append _ _ 4 (leBytes_length 4 n), leNat_leBytes, pow256_4,
        Nat.mod_eq_of_lt h32]
      simp [u8_ofNat_toNat, ef]

theorem zmItemLen_end (fixed : Bool) (rf : Bool) (tail : Bytes) :
    zmItemLen fixed rf (0xFF :: tail) = .ok ((none, 0), tail) := by
  simp only [zmItemLen]
  have : (0xFF : UInt8).toNat = 255 := by decide
  simp [this]

def ZmPairOk (fixed : Bool) (p : ZmPair) : Prop := zmLenOk fixed p.k.length ∧ zmLenOk fixed p.v.length ∧ p.free.length < 256

theorem zmPair_ser (fixed : Bool) (p : ZmPair) (h : ZmPairOk fixed p) (tail : Bytes) :
    pairB (zmItem fixed false) (zmItem fixed true) (serZmPair p ++ tail) = .ok ((p.k, p.v), tail) := by
  obtain ⟨hk, hv, hf⟩ := h
  simp only [serZmPair, List.append_assoc, List.cons_append, List.nil_append, pairB, zmItem,
    zmItemLen_key fixed _ hk, bSlice_append p.k _ _ rfl, List.drop_zero,
    zmItemLen_val fixed _ _ hv hf, bSlice_append p.v _ _ rfl, List.drop_left]

theorem serZmLen_length_pos (n : Nat) : 1 ≤ (serZmLen n).length := by
  unfold serZmLen; split <;> simp

theorem serZmPair_length_ge (p : ZmPair) : 2 ≤ (serZmPair p).length := by
  have a := serZmLen_length_pos p.k.length
  have b := serZmLen_length_pos p.v.length
  simp only [serZmPair, List.length_append, List.length_cons, List.length_nil]
  omega

theorem flatMap_serZmPair_length_ge (ps : List ZmPair) : 2 * ps.length ≤ (ps.flatMap serZmPair).length := by
  induction ps with
  | nil => simp
  | cons p ps ih =>
    have := serZmPair_length_ge p
    simp only [List.flatMap_cons, List.length_append, List.length_cons]
    omega

/-- the counting pass over a well-formed zipmap body sees two items per pair -/
theorem zmCount_ser (tot : Nat) (htot : tot < 2147483648) (ps : List ZmPair) (hok : ∀ p ∈ ps, ZmPairOk true p) :
    ∀ (n fuel : Nat), n % 2 = 0 → 2 * ps.length + 1 ≤ fuel → (ps.flatMap serZmPair ++ [0xFF]).length ≤ tot →
      zmCount true tot fuel n (ps.flatMap serZmPair ++ [0xFF]) = .ok (n + 2 * ps.length) := by
  induction ps with
  | nil =>
    intro n fuel _ hf _
    obtain ⟨f, rfl⟩ : ∃ f, fuel = f + 1 := ⟨fuel - 1, by omega⟩
    simp [zmCount, zmItemLen_end]
  | cons p ps ih =>
    intro n fuel hn hf hlen
    obtain ⟨hk, hv, hfr⟩ := hok p (by simp)
    obtain ⟨f, rfl⟩ : ∃ f, fuel = f + 2 := ⟨fuel - 2, by simp at hf; omega⟩
    have hn1 : ¬ (n % 2 ≠ 0) := by omega
    have hn2 : (n + 1) % 2 ≠ 0 := by omega
    simp only [List.flatMap_cons, List.append_assoc, serZmPair, List.cons_append, List.nil_append] at hlen ⊢
    simp only [List.length_append, List.length_cons, List.length_nil] at hlen
    -- the field
    rw [zmCount]
    simp only [hn1, decide_false, zmItemLen_key true _ hk]
    have c1 : ¬ (tot - (p.k ++ (serZmLen p.v.length ++ (UInt8.ofNat p.free.length :: (p.v ++ (p.free ++
        (ps.flatMap serZmPair ++ [0xFF])))))).length + p.k.length + 0 ≥ 2147483648) := by
      simp only [List.length_append, List.length_cons]; omega
    rw [if_neg c1]
    rw [drop_append_len p.k _ (p.k.length + 0) (by simp)]
    -- the value
    rw [zmCount]
    have hd2 : decide ((n + 1) % 2 ≠ 0) = true := decide_eq_true hn2
    simp only [hd2, zmItemLen_val true _ _ hv hfr]
    have c2 : ¬ (tot - (p.v ++ (p.free ++ (ps.flatMap serZmPair ++ [0xFF]))).length + p.v.length + p.free.length
        ≥ 2147483648) := by
      simp only [List.length_append, List.length_cons]; omega
    rw [if_neg c2]
    have hd : (p.v ++ (p.free ++ (ps.flatMap serZmPair ++ [0xFF]))).drop (p.v.length + p.free.length) =
        ps.flatMap serZmPair ++ [0xFF] := by
      rw [← List.append_assoc p.v p.free, ← List.length_append, List.drop_left]
    rw [hd, ih (fun q hq => hok q (by simp [hq])) (n + 1 + 1) f (by omega) (by simp at hf ⊢; omega)
      (by simp only [List.length_append, List.length_cons, List.length_nil]; omega)]
    simp only [List.length_cons]
    congr 1; omega

theorem readZipmap_small (fixed : Bool) (ps : List ZmPair) (hok : ∀ p ∈ ps, ZmPairOk fixed p) (hn : ps.length < 254) :
    readZipmap fixed (serZipmap ps) = .ok (ps.map fun p => (p.k, p.v)) := by
  unfold readZipmap serZipmap
  have hm : min ps.length 254 = ps.length := by omega
  simp only [hm, u8_ofNat_toNat]
  have e : ps.length % 256 = ps.length := by omega
  have hlt : ¬ ps.length ≥ 254 := by omega
  simp only [e, hlt, if_false]
  rw [manyB_flatMap _ serZmPair (fun p => (p.k, p.v)) ps (fun p hp r => zmPair_ser fixed p (hok p hp) r)]

theorem readZipmap_big (ps : List ZmPair) (hok : ∀ p ∈ ps, ZmPairOk true p) (hn : 254 ≤ ps.length)
    (htot : (serZipmap ps).length < 2147483648) :
    readZipmap true (serZipmap ps) = .ok (ps.map fun p => (p.k, p.v)) := by
  unfold readZipmap
  have hz : serZipmap ps = UInt8.ofNat (min ps.length 254) :: (ps.flatMap serZmPair ++ [0xFF]) := rfl
  rw [hz] at htot ⊢
  have hm : min ps.length 254 = 254 := by omega
  simp only [hm, u8_ofNat_toNat]
  have e : (254 % 256 ≥ 254) := by decide
  simp only [e, if_true]
  have hge := flatMap_serZmPair_length_ge ps
  rw [zmCount_ser _ (by simpa using htot) ps hok 0 _ (by rfl)
    (by simp only [List.length_append, List.length_cons, List.length_nil]; omega)
    (by simp)]
  simp only [Nat.zero_add]
  have : 2 * ps.length / 2 = ps.length := by omega
  rw [this, manyB_flatMap _ serZmPair (fun p => (p.k, p.v)) ps (fun p hp r => zmPair_ser true p (hok p hp) r)]

theorem qlNode_ser (n : QNode) (hz : zlWF n.es) (hw : strOkC n.w) (hl : Spec.Rdb.logical n.w = serZiplist n.es)
    (rest : Bytes) :
    qlNode (Spec.Rdb.serStr n.w ++ rest) = (n.es.map (·.logical), rest, false) := by
  unfold qlNode
  rw [cReadString_ser n.w hw rest, hl]
  simp only []
  rw [zlLength_ser n.es hz]
  simp only []
  rw [zlEntries_entries n.es hz 0 [0xFF]]

theorem qlNodes_ser (ns : List QNode)
    (h : ∀ n ∈ ns, zlWF n.es ∧ strOkC n.w ∧ Spec.Rdb.logical n.w = serZiplist n.es) (rest : Bytes) :
    qlNodes ns.length ((ns.flatMap fun n => Spec.Rdb.serStr n.w) ++ rest) =
      .ok (ns.flatMap fun n => n.es.map (·.logical)) := by
  induction ns with
  | nil => simp [qlNodes]
  | cons n ns ih =>
    obtain ⟨hz, hw, hl⟩ := h n (by simp)
    simp only [List.length_cons, List.flatMap_cons, List.append_assoc, qlNodes]
    rw [qlNode_ser n hz hw hl]
    simp only []
    rw [ih (fun m hm => h m (by simp [hm]))]

theorem manyB_zset (pf : Bytes → Option UInt64) (ps : List (ZlEntry × ZlEntry)) (h : ∀ e ∈ flattenPairs ps, e.WF)
    (r : List (Bytes × UInt64)) (hs : scoresOf pf ps = some r) (prev : Nat) (rest : Bytes) :
    manyB (zsetElem pf) ps.length (serEntries prev (flattenPairs ps) ++ rest) = .ok (r, rest) := by
  induction ps generalizing prev r with
  | nil => simp [scoresOf] at hs; subst hs; simp [manyB, serEntries, flattenPairs]
  | cons p ps ih =>
    obtain ⟨a, b⟩ := p
    have hcons : flattenPairs ((a, b) :: ps) = a :: b :: flattenPairs ps := by simp [flattenPairs]
    have ha : a.WF := h a (by simp [hcons])
    have hb : b.WF := h b (by simp [hcons])
    simp only [scoresOf] at hs
    cases hf : pf b.logical with
    | none => simp [hf] at hs
    | some f =>
      cases hr : scoresOf pf ps with
      | none => simp [hf, hr] at hs
      | some r' =>
        simp only [hf, hr, Option.some.injEq] at hs
        subst hs
        simp only [List.length_cons, hcons, serEntries, List.append_assoc, manyB, zsetElem, pairB]
        rw [zlEntry_ser prev a ha]
        simp only []
        rw [zlEntry_ser _ b hb]
        simp only [hf]
        rw [ih (fun x hx => h x (by simp [hcons, hx])) r' hr]

/-- the zipmap reader in use accepts this compact value's item lengths / pair count -/
def ZmOk (fixed : Bool) : Compact → Prop
  | .zipmap ps => (∀ p ∈ ps, ZmPairOk fixed p) ∧ (ps.length < 254 ∨ (fixed = true ∧ (serZipmap ps).length < 2147483648))
  | _ => True

theorem WF_ZmOk (c : Compact) (h : c.WF) : ZmOk true c := by
  cases c with
  | zipmap ps =>
    obtain ⟨hp, hl⟩ := h
    refine ⟨fun p hp' => ?_, Or.inr ⟨rfl, hl⟩⟩
    obtain ⟨a, b, c⟩ := hp p hp'
    exact ⟨Or.inr ⟨rfl, a⟩, Or.inr ⟨rfl, b⟩, c⟩
  | _ => trivial

theorem readZipmap_ser (fixed : Bool) (ps : List ZmPair) (h : ZmOk fixed (.zipmap ps)) :
    readZipmap fixed (serZipmap ps) = .ok (ps.map fun p => (p.k, p.v)) := by
  obtain ⟨hp, hn⟩ := h
  by_cases hs : ps.length < 254
  · exact readZipmap_small fixed ps hp hs
  · rcases hn with hn | ⟨hf, hl⟩
    · exact absurd hn hs
    · subst hf; exact readZipmap_big ps hp (by omega) hl

/-- the value decoder on a compact value stored as the string object `w`, whatever follows it -/
theorem compact_value (fixed : Bool) (pf : Bytes → Option UInt64) (c : Compact) (hc : c.WF) (hz : ZmOk fixed c)
    (v : LValue) (hv : logicalOf pf c = some v)
    (w : RStr) (hw : strOkC w) (hl : Spec.Rdb.logical w = serCompact c) (rest : Bytes) :
    decodeValueG fixed pf c.type (Spec.Rdb.serStr w ++ rest) = .ok v := by
  have hrs := cReadString_ser w hw rest
  rw [hl] at hrs
  cases c with
  | zipmap ps =>
    simp only [logicalOf, Option.some.injEq] at hv
    subst hv
    have t : (9 : UInt8).toNat = 9 := by decide
    simp only [decodeValueG, readObject, Compact.type, t]
    simp only [hrs, done, serCompact, readZipmap_ser fixed ps hz]
    simpa [Except.map, List.map_map, Function.comp_def] using adapt_hash' (ps.map fun p => (p.k, p.v))
  | listZl es =>
    simp only [logicalOf, Option.some.injEq] at hv
    subst hv
    simp only [Compact.WF] at hc
    have t : (10 : UInt8).toNat = 10 := by decide
    simp only [decodeValueG, readObject, Compact.type, t]
    simp only [hrs, done, serCompact,
      zlLength_ser es hc, manyB_entries es hc 0 [0xFF], adapt_list]
  | intset wd xs =>
    simp only [logicalOf, Option.some.injEq] at hv
    subst hv
    obtain ⟨h1, h2, h3⟩ := hc
    have t : (11 : UInt8).toNat = 11 := by decide
    simp only [decodeValueG, readObject, Compact.type, t]
    simp only [hrs, done, serCompact, readIntset_ser wd xs h1 h2 h3]
    simpa [Except.map, List.map_map, Function.comp_def] using adapt_setv (xs.map fmtInt)
  | zsetZl ps =>
    simp only [logicalOf] at hv
    cases hr : scoresOf pf ps with
    | none => simp [hr] at hv
    | some r =>
      simp only [hr, Option.map_some, Option.some.injEq] at hv
      subst hv
      simp only [Compact.WF] at hc
      have hlen := flattenPairs_length ps
      have hdiv : (flattenPairs ps).length / 2 = ps.length := by omega
      have t : (12 : UInt8).toNat = 12 := by decide
      simp only [decodeValueG, readObject, Compact.type, t]
      simp only [hrs, done, serCompact,
        zlLength_ser (flattenPairs ps) hc, hdiv, manyB_zset pf ps hc r hr 0 [0xFF], adapt_zset']
  | hashZl ps =>
    simp only [logicalOf, Option.some.injEq] at hv
    subst hv
    simp only [Compact.WF] at hc
    have hlen := flattenPairs_length ps
    have hdiv : (flattenPairs ps).length / 2 = ps.length := by omega
    have t : (13 : UInt8).toNat = 13 := by decide
    simp only [decodeValueG, readObject, Compact.type, t]
    simp only [hrs, done, serCompact,
      zlLength_ser (flattenPairs ps) hc, hdiv, manyB_pairs ps hc 0 [0xFF]]
    exact adapt_hash' _

/-- compact types read ONE string object and never look at what follows it -/
theorem decodeValueG_blob_rest (fixed : Bool) (pf : Bytes → Option UInt64) (t : UInt8)
    (ht : t = 9 ∨ t = 10 ∨ t = 11 ∨ t = 12 ∨ t = 13) (w : RStr) (hw : strOkC w) (rest : Bytes) :
    decodeValueG fixed pf t (Spec.Rdb.serStr w ++ rest) = decodeValueG fixed pf t (Spec.Rdb.serStr w) := by
  have h1 := cReadString_ser w hw rest
  have h2 := cReadString_ser w hw []
  rw [List.append_nil] at h2
  rcases ht with rfl | rfl | rfl | rfl | rfl
  · have t : (9 : UInt8).toNat = 9 := by decide
    simp only [decodeValueG, readObject, t]; simp only [h1, h2, done]
  · have t : (10 : UInt8).toNat = 10 := by decide
    simp only [decodeValueG, readObject, t]; simp only [h1, h2, done]
  · have t : (11 : UInt8).toNat = 11 := by decide
    simp only [decodeValueG, readObject, t]; simp only [h1, h2, done]
  · have t : (12 : UInt8).toNat = 12 := by decide
    simp only [decodeValueG, readObject, t]; simp only [h1, h2, done]
  · have t : (13 : UInt8).toNat = 13 := by decide
    simp only [decodeValueG, readObject, t]; simp only [h1, h2, done]

theorem cReadFloat_score (pf : Bytes → Option UInt64) (sc : Spec.Rdb.Score) (h : scoreOkC pf sc) (rest : Bytes) :
    cReadFloat pf (Spec.Rdb.serScore sc ++ rest) = .ok ((scoreBits pf sc).getD 0, rest) := by
  cases sc with
  | text bs =>
    obtain ⟨hl, hp⟩ := h
    obtain ⟨f, hf⟩ := Option.isSome_iff_exists.mp hp
    simp only [Spec.Rdb.serScore, List.cons_append, cReadFloat, rByte, u8_ofNat_toNat, scoreBits, hf, Option.getD_some]
    have e : bs.length % 256 = bs.length := by omega
    have n1 : ¬ bs.length = 253 := by omega
    have n2 : ¬ bs.length = 254 := by omega
    have n3 : ¬ bs.length = 255 := by omega
    simp only [e, n1, n2, n3, if_false, rN_append bs rest _ rfl, hf]
  | nan => simp [Spec.Rdb.serScore, cReadFloat, rByte, scoreBits]
  | pinf => simp [Spec.Rdb.serScore, cReadFloat, rByte, scoreBits]
  | ninf => simp [Spec.Rdb.serScore, cReadFloat, rByte, scoreBits]

theorem cReadDouble_bytes (b rest : Bytes) (h : b.length = 8) : cReadDouble (b ++ rest) = .ok (ofLe64 b, rest) := by
  simp [cReadDouble, rN_append b rest 8 h]

theorem counted_encLen {α β : Type} (f : CR β) (enc : α → Bytes) (dec : α → β) (xs : List α) (n : LenForm)
    (hc : cntOkC n xs.length)
    (h : ∀ x ∈ xs, ∀ rest, f (enc x ++ rest) = .ok (dec x, rest)) (rest : Bytes) :
    RdbDecode.counted f (Spec.Rdb.encLen ⟨xs.length, n⟩ ++ (xs.map enc).flatten ++ rest) = .ok (xs.map dec, rest) := by
  simp only [RdbDecode.counted, List.append_assoc, cReadLength_encLen _ hc.1 hc.2, ← List.flatMap_def]
  exact readMany_flatMap f enc dec xs h rest

/-- plain values with ANY per-element string encoding (raw in any length form, int8/16/32, LZF), counts in any length
    form, text or tagged scores (type 3), binary scores (type 5, bit-exact) -/
theorem plain_value (fixed : Bool) (pf : Bytes → Option UInt64) (v : Spec.Rdb.Value) (hok : plainOk pf v)
    (lv : LValue) (hl : plainLogical pf v = some lv) (rest : Bytes) :
    decodeValueG fixed pf v.type (Spec.Rdb.serValue v ++ rest) = .ok lv := by
  cases v with
  | str t s =>
    simp only [plainLogical] at hl
    by_cases ht : t = 0
    · subst ht
      simp only [if_true, Option.some.injEq] at hl; subst hl
      have t0 : (0 : UInt8).toNat = 0 := by decide
      simp only [decodeValueG, readObject, Spec.Rdb.Value.type, t0, Spec.Rdb.serValue]
      simp only [cReadString_ser s hok rest, done, Except.map]
      exact adapt_set _
    · simp [ht] at hl
  | seq t n xs =>
    obtain ⟨hc, hx⟩ := hok
    have hcnt := counted_encLen cReadString Spec.Rdb.serStr Spec.Rdb.logical xs n hc
      (fun x hx' r => cReadString_ser x (hx x hx') r) rest
    simp only [plainLogical] at hl
    by_cases h1 : t = 1
    · subst h1
      simp only [if_true, Option.some.injEq] at hl; subst hl
      have t1 : (1 : UInt8).toNat = 1 := by decide
      simp only [decodeValueG, readObject, Spec.Rdb.Value.type, t1, Spec.Rdb.serValue, Spec.Rdb.serStrs]
      simp only [hcnt, done, Except.map]
      exact adapt_list _
    · by_cases h2 : t = 2
      · subst h2
        simp only [h1, if_false, if_true, Option.some.injEq] at hl; subst hl
        have t2 : (2 : UInt8).toNat = 2 := by decide
        simp only [decodeValueG, readObject, Spec.Rdb.Value.type, t2, Spec.Rdb.serValue, Spec.Rdb.serStrs]
        simp only [hcnt, done, Except.map]
        exact adapt_setv _
      · simp [h1, h2] at hl
  | zset n xs =>
    obtain ⟨hc, hx⟩ := hok
    simp only [plainLogical, Option.some.injEq] at hl; subst hl
    have hcnt := counted_encLen (pairR cReadString (cReadFloat pf))
      (fun (p : RStr × Spec.Rdb.Score) => Spec.Rdb.serStr p.1 ++ Spec.Rdb.serScore p.2)
      (fun p => (Spec.Rdb.logical p.1, (scoreBits pf p.2).getD 0)) xs n hc
      (fun p hp r => pairR_ok cReadString (cReadFloat pf) _ _ r _ _
        (fun r' => cReadString_ser p.1 (hx p hp).1 r') (cReadFloat_score pf p.2 (hx p hp).2 r)) rest
    have t3 : (3 : UInt8).toNat = 3 := by decide
    simp only [decodeValueG, readObject, Spec.Rdb.Value.type, t3, Spec.Rdb.serValue]
    simp only [hcnt, done, Except.map]
    simpa [List.map_map, Function.comp_def] using
      adapt_zset' (xs.map fun p => (Spec.Rdb.logical p.1, (scoreBits pf p.2).getD 0))
  | zset2 n xs =>
    obtain ⟨hc, hx⟩ := hok
    simp only [plainLogical, Option.some.injEq] at hl; subst hl
    have hcnt := counted_encLen (pairR cReadString cReadDouble)
      (fun (p : RStr × Bytes) => Spec.Rdb.serStr p.1 ++ p.2)
      (fun p => (Spec.Rdb.logical p.1, ofLe64 p.2)) xs n hc
      (fun p hp r => pairR_ok cReadString cReadDouble _ _ r _ _
        (fun r' => cReadString_ser p.1 (hx p hp).1 r') (cReadDouble_bytes p.2 r (hx p hp).2)) rest
    have t5 : (5 : UInt8).toNat = 5 := by decide
    simp only [decodeValueG, readObject, Spec.Rdb.Value.type, t5, Spec.Rdb.serValue]
    simp only [hcnt, done, Except.map]
    simpa [List.map_map, Function.comp_def] using
      adapt_zset' (xs.map fun p => (Spec.Rdb.logical p.1, ofLe64 p.2))
  | hash n fvs =>
    obtain ⟨hc, hx⟩ := hok
    simp only [plainLogical, Option.some.injEq] at hl; subst hl
    have hcnt := counted_encLen (pairR cReadString cReadString) Spec.Rdb.serPair
      (fun p => (Spec.Rdb.logical p.1, Spec.Rdb.logical p.2)) fvs n hc
      (fun p hp r => pairR_ok cReadString cReadString _ _ r _ _
        (fun r' => cReadString_ser p.1 (hx p hp).1 r') (cReadString_ser p.2 (hx p hp).2 r)) rest
    have t4 : (4 : UInt8).toNat = 4 := by decide
    simp only [decodeValueG, readObject, Spec.Rdb.Value.type, t4, Spec.Rdb.serValue, Spec.Rdb.serPairs]
    simp only [hcnt, done, Except.map]
    simpa [List.map_map, Function.comp_def] using
      adapt_hash' (fvs.map fun p => (Spec.Rdb.logical p.1, Spec.Rdb.logical p.2))
  | stream => exact absurd hok (by simp [plainOk])

theorem leBytes_eq (n v : Nat) : leBytes n v = Spec.Rdb.leBytes n v := by
  induction n generalizing v with
  | zero => rfl
  | succ n ih => simp [leBytes, Spec.Rdb.leBytes, ih]

/-- the string object `EncodeString(s)` writes -/
def rstrOf (s : Bytes) : RStr :=
  match encodeIntString s with
  | some (_ :: b) => if b.length = 1 then .int8 b else if b.length = 2 then .int16 b else .int32 b
  | _ => .raw (minForm s.length) s

theorem encodeIntString_shape (s b : Bytes) (h : encodeIntString s = some b) :
    (∃ x, b = 0xC0 :: x ∧ x.length = 1) ∨ (∃ x, b = 0xC1 :: x ∧ x.length = 2) ∨ (∃ x, b = 0xC2 :: x ∧ x.length = 4) := by
  unfold encodeIntString at h
  split at h
  · cases h
  · split at h
    · cases h
    · split at h
      · cases h; exact Or.inl ⟨_, rfl, leBytes_length 1 _⟩
      · split at h
        · cases h; exact Or.inr (Or.inl ⟨_, rfl, leBytes_length 2 _⟩)
        · split at h
          · cases h; exact Or.inr (Or.inr ⟨_, rfl, leBytes_length 4 _⟩)
          · cases h

theorem encString_eq (s : Bytes) (h : s.length < 4294967296) :
    encString s = Spec.Rdb.serStr (rstrOf s) ∧ Spec.Rdb.strOk (rstrOf s) := by
  unfold encString rstrOf
  cases he : encodeIntString s with
  | none =>
    simp only [encLength32, Nat.mod_eq_of_lt h, encLength_eq, Spec.Rdb.serStr, Spec.Rdb.strOk, true_and]
    refine ⟨?_, minForm_fits _ h⟩
    unfold minForm; split
    · simp
    · split <;> simp
  | some b =>
    rcases encodeIntString_shape s b he with ⟨x, rfl, hx⟩ | ⟨x, rfl, hx⟩ | ⟨x, rfl, hx⟩
    · simp [hx, Spec.Rdb.serStr, Spec.Rdb.strOk]
    · simp [hx, Spec.Rdb.serStr, Spec.Rdb.strOk]
    · simp [hx, Spec.Rdb.serStr, Spec.Rdb.strOk]

theorem logical_rstrOf (s : Bytes) (h : s.length < 4294967296) : Spec.Rdb.logical (rstrOf s) = s := by
  obtain ⟨he, hok⟩ := encString_eq s h
  have h1 := cReadString_encString s h []
  have h2 := cReadString_ser (rstrOf s) (strOk_strOkC _ hok) []
  rw [he] at h1
  rw [h1] at h2
  simpa using h2.symm

/-- the score `EncodeFloat` writes -/
def scoreOf (fmt : UInt64 → Bytes) (f : UInt64) : Spec.Rdb.Score :=
  if isNaN f then .nan else if f = posInf then .pinf else if f = negInf then .ninf else .text (fmt f)

/-- the syntax tree of what `encodeValue` writes -/
def valueOf (fmt : UInt64 → Bytes) : LValue → Spec.Rdb.Value
  | .str s => .str 0 (rstrOf s)
  | .list xs => .seq 1 (minForm xs.length) (xs.map rstrOf)
  | .set xs => .seq 2 (minForm xs.length) (xs.map rstrOf)
  | .hash fvs => .hash (minForm fvs.length) (fvs.map fun p => (rstrOf p.1, rstrOf p.2))
  | .zset ms => .zset (minForm ms.length) (ms.map fun p => (rstrOf p.1, scoreOf fmt p.2))

/-- every string and every element count fits `uint32` (the encoder writes `uint32(len(x))`) -/
def Sized : LValue → Prop
  | .str s => s.length < 4294967296
  | .list xs => xs.length < 4294967296 ∧ ∀ x ∈ xs, x.length < 4294967296
  | .set xs => xs.length < 4294967296 ∧ ∀ x ∈ xs, x.length < 4294967296
  | .hash fvs => fvs.length < 4294967296 ∧ ∀ p ∈ fvs, p.1.length < 4294967296 ∧ p.2.length < 4294967296
  | .zset ms => ms.length < 4294967296 ∧ ∀ p ∈ ms, p.1.length < 4294967296

theorem encFloat_eq (fmt : UInt64 → Bytes) (pf : Bytes → Option UInt64) (hft : FloatText fmt pf) (f : UInt64) :
    encFloat fmt f = Spec.Rdb.serScore (scoreOf fmt f) ∧ Spec.Rdb.scoreOk (fun t => (pf t).isSome) (scoreOf fmt f) := by
  unfold encFloat scoreOf
  by_cases hn : isNaN f = true
  · simp [hn, Spec.Rdb.serScore, Spec.Rdb.scoreOk]
  · by_cases hp : f = posInf
    · subst hp
      have h1 : isNaN posInf = false := by decide
      simp [h1, Spec.Rdb.serScore, Spec.Rdb.scoreOk]
    · by_cases hm : f = negInf
      · subst hm
        have h1 : isNaN negInf = false := by decide
        have h2 : ¬ negInf = posInf := by decide
        simp [h1, h2, Spec.Rdb.serScore, Spec.Rdb.scoreOk]
      · have hs := hft.short f
        have hr := hft.roundtrip f (by simpa using hn) hp hm
        have e : (fmt f).length % 256 = (fmt f).length := by omega
        simp only [hn, hp, hm, if_false, Bool.false_eq_true, Spec.Rdb.serScore, Spec.Rdb.scoreOk, e, hr,
          Option.isSome_some, and_true, true_and]
        omega

theorem encLength32_cnt (n : Nat) (h : n < 4294967296) :
    encLength32 n = Spec.Rdb.encLen ⟨n, minForm n⟩ ∧ Spec.Rdb.cntOk (minForm n) n := by
  refine ⟨by simp [encLength32, Nat.mod_eq_of_lt h, encLength_eq], ?_, minForm_fits n h⟩
  unfold minForm; split
  · simp
  · split <;> simp

theorem flatMap_eq_flatten_map {α β : Type} (f : α → List β) (xs : List α) : xs.flatMap f = (xs.map f).flatten :=
  List.flatMap_def ..

theorem encValue_eq (fmt : UInt64 → Bytes) (pf : Bytes → Option UInt64) (hft : FloatText fmt pf) (v : LValue)
    (hv : Sized v) :
    encValue fmt v = Spec.Rdb.serValue (valueOf fmt v) ∧ typeOf v = (valueOf fmt v).type ∧
    Spec.Rdb.valueOk (fun t => (pf t).isSome) (valueOf fmt v) := by
  cases v with
  | str s =>
    obtain ⟨he, hok⟩ := encString_eq s hv
    exact ⟨by simp [encValue, valueOf, Spec.Rdb.serValue, he], rfl, by simp [valueOf, Spec.Rdb.valueOk, hok]⟩
  | list xs =>
    obtain ⟨hl, hx⟩ := hv
    obtain ⟨hc, hcnt⟩ := encLength32_cnt xs.length hl
    refine ⟨?_, rfl, ?_⟩
    · simp only [encValue, valueOf, Spec.Rdb.serValue, Spec.Rdb.serStrs, List.length_map, hc, List.map_map,
        flatMap_eq_flatten_map]
      congr 2
      apply List.map_congr_left
      intro x hx'
      exact (encString_eq x (hx x hx')).1
    · simp only [valueOf, Spec.Rdb.valueOk, List.length_map]
      refine ⟨by simp, hcnt, ?_⟩
      intro r hr
      obtain ⟨x, hx', rfl⟩ := List.mem_map.mp hr
      exact (encString_eq x (hx x hx')).2
  | set xs =>
    obtain ⟨hl, hx⟩ := hv
    obtain ⟨hc, hcnt⟩ := encLength32_cnt xs.length hl
    refine ⟨?_, rfl, ?_⟩
    · simp only [encValue, valueOf, Spec.Rdb.serValue, Spec.Rdb.serStrs, List.length_map, hc, List.map_map,
        flatMap_eq_flatten_map]
      congr 2
      apply List.map_congr_left
      intro x hx'
      exact (encString_eq x (hx x hx')).1
    · simp only [valueOf, Spec.Rdb.valueOk, List.length_map]
      refine ⟨by simp, hcnt, ?_⟩
      intro r hr
      obtain ⟨x, hx', rfl⟩ := List.mem_map.mp hr
      exact (encString_eq x (hx x hx')).2
  | hash fvs =>
    obtain ⟨hl, hx⟩ := hv
    obtain ⟨hc, hcnt⟩ := encLength32_cnt fvs.length hl
    refine ⟨?_, rfl, ?_⟩
    · simp only [encValue, valueOf, Spec.Rdb.serValue, Spec.Rdb.serPairs, List.length_map, hc, List.map_map,
        flatMap_eq_flatten_map]
      congr 2
      apply List.map_congr_left
      intro p hp
      simp only [Function.comp, Spec.Rdb.serPair, (encString_eq p.1 (hx p hp).1).1, (encString_eq p.2 (hx p hp).2).1]
    · simp only [valueOf, Spec.Rdb.valueOk, List.length_map]
      refine ⟨hcnt, ?_⟩
      intro r hr
      obtain ⟨p, hp, rfl⟩ := List.mem_map.mp hr
      exact ⟨(encString_eq p.1 (hx p hp).1).2, (encString_eq p.2 (hx p hp).2).2⟩
  | zset ms =>
    obtain ⟨hl, hx⟩ := hv
    obtain ⟨hc, hcnt⟩ := encLength32_cnt ms.length hl
    refine ⟨?_, rfl, ?_⟩
    · simp only [encValue, valueOf, Spec.Rdb.serValue, List.length_map, hc, List.map_map, flatMap_eq_flatten_map]
      congr 2
      apply List.map_congr_left
      intro p hp
      simp only [Function.comp, (encString_eq p.1 (hx p hp)).1, (encFloat_eq fmt pf hft p.2).1]
    · simp only [valueOf, Spec.Rdb.valueOk, List.length_map]
      refine ⟨hcnt, ?_⟩
      intro r hr
      obtain ⟨p, hp, rfl⟩ := List.mem_map.mp hr
      exact ⟨(encString_eq p.1 (hx p hp)).2, (encFloat_eq fmt pf hft p.2).2⟩

/-- the record the loader must deliver for an object -/
def entryOf (fmt : UInt64 → Bytes) (o : Obj) : Entry :=
  { db := o.db, key := o.key, type := typeOf o.val, value := encodeDump fmt o.val, expireAt := o.expireAt,
    needReadLen := 1 }

/-- sizes within what the file format / the encoder's integer types can express; the value is below the loader's
    chunk limit `L` (16 MiB: larger hashes are delivered in several records, see C01) -/
def ObjOk (fmt : UInt64 → Bytes) (L : Nat) (o : Obj) : Prop :=
  Sized o.val ∧ o.key.length < 4294967296 ∧ o.db < 4294967296 ∧ o.expireAt < 18446744073709551616 ∧
  (encValue fmt o.val).length ≤ L

def expiryOf (ex : Nat) : Spec.Rdb.Expiry := if ex ≠ 0 then .ms (Spec.Rdb.leBytes 8 ex) else .none

/-- the syntax tree of what `EncodeObject` writes -/
def itemsOf (fmt : UInt64 → Bytes) : Option Nat → List Obj → List Spec.Rdb.Item
  | _, [] => []
  | cur, o :: os =>
    (if cur = some o.db then [] else [Spec.Rdb.Item.selectDb ⟨o.db, minForm o.db⟩]) ++
    (Spec.Rdb.Item.key (expiryOf o.expireAt) none none (rstrOf o.key) (valueOf fmt o.val) :: itemsOf fmt (some o.db) os)

theorem takeChunk_small (L : Nat) (ps : List Spec.Rdb.Pair) : ∀ b, b + (Spec.Rdb.serPairs ps).length ≤ L →
    Spec.Rdb.takeChunk L b ps = (ps, []) := by
  induction ps with
  | nil => intro b _; rfl
  | cons p ps ih =>
    intro b h
    have hs : Spec.Rdb.serPairs (p :: ps) = Spec.Rdb.serPair p ++ Spec.Rdb.serPairs ps := by simp [Spec.Rdb.serPairs]
    rw [hs, List.length_append] at h
    have hc : ¬ (b + (Spec.Rdb.serPair p).length > L ∧ ps ≠ []) := by omega
    simp only [Spec.Rdb.takeChunk, hc, if_false]
    rw [ih (b + (Spec.Rdb.serPair p).length) (by omega)]

theorem dumpPayload_eq (t : UInt8) (body : Bytes) :
    Spec.Rdb.dumpPayload Dump.toVersion16 t body = withDumpFooter (t :: body) := by
  have : Dump.toVersion16 = encVersion := by decide
  simp [Spec.Rdb.dumpPayload, withDumpFooter, this]

theorem ser_itemsOf (fmt : UInt64 → Bytes) (pf : Bytes → Option UInt64) (hft : FloatText fmt pf) (L : Nat)
    (objs : List Obj) (hok : ∀ o ∈ objs, ObjOk fmt L o) : ∀ cur,
    Spec.Rdb.ser (itemsOf fmt cur objs) = encObjects fmt cur objs ∧
    Spec.Rdb.itemsOk (fun t => (pf t).isSome) (itemsOf fmt cur objs) := by
  induction objs with
  | nil => intro cur; exact ⟨rfl, by intro it hit; cases hit⟩
  | cons o os ih =>
    intro cur
    obtain ⟨hs, hk, hdb, hex, _⟩ := hok o (by simp)
    obtain ⟨ihs, iho⟩ := ih (fun x hx => hok x (by simp [hx])) (some o.db)
    obtain ⟨hv1, hv2, hv3⟩ := encValue_eq fmt pf hft o.val hs
    obtain ⟨hk1, hk2⟩ := encString_eq o.key hk
    have hkey : Spec.Rdb.serItem (.key (expiryOf o.expireAt) none none (rstrOf o.key) (valueOf fmt o.val)) =
        (if o.expireAt ≠ 0 then 0xFC :: leBytes 8 o.expireAt else []) ++ [typeOf o.val] ++ encString o.key ++
          encValue fmt o.val := by
      rw [Lemmas.Rdb.serItem_key, hk1, hv1, hv2]
      unfold expiryOf
      by_cases he : o.expireAt ≠ 0
      · simp [he, Spec.Rdb.serExpiry, Lemmas.Rdb.idlePart, Lemmas.Rdb.freqPart, leBytes_eq]
      · simp [he, Spec.Rdb.serExpiry, Lemmas.Rdb.idlePart, Lemmas.Rdb.freqPart]
    have hkeyOk : Spec.Rdb.itemOk (fun t => (pf t).isSome)
        (.key (expiryOf o.expireAt) none none (rstrOf o.key) (valueOf fmt o.val)) := by
      simp only [Spec.Rdb.itemOk]
      refine ⟨?_, trivial, hk2, hv3⟩
      unfold expiryOf
      by_cases he : o.expireAt ≠ 0
      · simp [he, ← leBytes_eq, leBytes_length]
      · simp [he]
    by_cases hc : cur = some o.db
    · constructor
      · simp only [itemsOf, hc, if_true, List.nil_append, Lemmas.Rdb.ser_cons, hkey, ihs, encObjects, encObject,
          List.append_assoc]
      · intro it hit
        simp only [itemsOf, hc, if_true, List.nil_append, List.mem_cons] at hit
        rcases hit with rfl | hit
        · exact hkeyOk
        · exact iho it hit
    · constructor
      · simp only [itemsOf, hc, if_false, List.cons_append, List.nil_append, Lemmas.Rdb.ser_cons, hkey, ihs]
        simp only [Spec.Rdb.serItem, encObjects, encObject, hc, if_false, List.append_assoc, encLength_eq,
          List.cons_append, List.nil_append]
      · intro it hit
        simp only [itemsOf, hc, if_false, List.cons_append, List.nil_append, List.mem_cons] at hit
        rcases hit with rfl | rfl | hit
        · simp only [Spec.Rdb.itemOk]
          refine ⟨?_, minForm_fits _ hdb⟩
          unfold minForm; split
          · simp
          · split <;> simp
        · exact hkeyOk
        · exact iho it hit

theorem expiryMs_expiryOf (ex : Nat) (h : ex < 18446744073709551616) : Spec.Rdb.expiryMs (expiryOf ex) = ex := by
  unfold expiryOf
  by_cases he : ex ≠ 0
  · rw [if_pos he]
    simp only [Spec.Rdb.expiryMs, ← Lemmas.Rdb.leNat_eq_leVal, ← leBytes_eq, leNat_leBytes, pow256_8]
    omega
  · have : ex = 0 := by omega
    simp [this, Spec.Rdb.expiryMs]

theorem keyRecords_obj (fmt : UInt64 → Bytes) (pf : Bytes → Option UInt64) (hft : FloatText fmt pf) (L : Nat)
    (o : Obj) (hok : ObjOk fmt L o) :
    Spec.Rdb.keyRecords (Spec.Rdb.dumpPayload Dump.toVersion16) L o.db (expiryOf o.expireAt) none none (rstrOf o.key)
      (valueOf fmt o.val) = [entryOf fmt o] := by
  obtain ⟨hs, hk, hdb, hex, hL⟩ := hok
  obtain ⟨hv1, hv2, hv3⟩ := encValue_eq fmt pf hft o.val hs
  have hkey := logical_rstrOf o.key hk
  have hexp := expiryMs_expiryOf o.expireAt hex
  cases hval : o.val with
  | hash fvs =>
    rw [hval] at hv1 hv2 hL
    simp only [valueOf] at hv1 hv2 ⊢
    simp only [Spec.Rdb.serValue] at hv1
    have hsmall : (Spec.Rdb.encLen ⟨(fvs.map fun p => (rstrOf p.1, rstrOf p.2)).length, minForm fvs.length⟩).length +
        (Spec.Rdb.serPairs (fvs.map fun p => (rstrOf p.1, rstrOf p.2))).length ≤ L := by
      rw [← List.length_append, ← hv1]; exact hL
    simp only [Spec.Rdb.keyRecords, takeChunk_small L _ _ hsmall, if_true, List.length_nil, Spec.Rdb.contRecords,
      List.cons.injEq, and_true]
    simp only [entryOf, hval, encodeDump, typeOf, hkey, hexp, dumpPayload_eq, hv1, Spec.Rdb.Value.type,
      Option.map_none, Option.getD_none]
  | str s =>
    rw [hval] at hv1 hv2
    simp only [valueOf] at hv1 hv2 ⊢
    simp only [Spec.Rdb.keyRecords, entryOf, hval, encodeDump, hkey, hexp, dumpPayload_eq, hv1, hv2,
      Option.map_none, Option.getD_none]
  | list xs =>
    rw [hval] at hv1 hv2
    simp only [valueOf] at hv1 hv2 ⊢
    simp only [Spec.Rdb.keyRecords, entryOf, hval, encodeDump, hkey, hexp, dumpPayload_eq, hv1, hv2,
      Option.map_none, Option.getD_none]
  | set xs =>
    rw [hval] at hv1 hv2
    simp only [valueOf] at hv1 hv2 ⊢
    simp only [Spec.Rdb.keyRecords, entryOf, hval, encodeDump, hkey, hexp, dumpPayload_eq, hv1, hv2,
      Option.map_none, Option.getD_none]
  | zset ms =>
    rw [hval] at hv1 hv2
    simp only [valueOf] at hv1 hv2 ⊢
    simp only [Spec.Rdb.keyRecords, entryOf, hval, encodeDump, hkey, hexp, dumpPayload_eq, hv1, hv2,
      Option.map_none, Option.getD_none]

theorem expected_itemsOf (fmt : UInt64 → Bytes) (pf : Bytes → Option UInt64) (hft : FloatText fmt pf) (L : Nat)
    (objs : List Obj) (hok : ∀ o ∈ objs, ObjOk fmt L o) : ∀ (cur : Option Nat) (db : Nat), (cur = none ∨ cur = some db) →
    Spec.Rdb.expected (Spec.Rdb.dumpPayload Dump.toVersion16) L db (itemsOf fmt cur objs) = objs.map (entryOf fmt) := by
  induction objs with
  | nil => intro cur db _; rfl
  | cons o os ih =>
    intro cur db hcur
    have hrec := keyRecords_obj fmt pf hft L o (hok o (by simp))
    have ih' := ih (fun x hx => hok x (by simp [hx])) (some o.db) o.db (Or.inr rfl)
    by_cases hc : cur = some o.db
    · have hdb : db = o.db := by
        rcases hcur with h | h
        · rw [h] at hc; cases hc
        · rw [h] at hc; exact Option.some.inj hc
      subst hdb
      simp only [itemsOf, hc, if_true, List.nil_append, Spec.Rdb.expected, hrec, ih', List.map_cons,
        List.cons_append, List.nil_append]
    · simp only [itemsOf, hc, if_false, List.cons_append, List.nil_append, Spec.Rdb.expected, hrec, ih', List.map_cons]

def pdStep (acc : Option Nat) (b : UInt8) : Option Nat :=
  match acc, digitVal b with
  | some a, some d => some (a * 10 + d)
  | _, _ => none

theorem digitVal_digit (d : Nat) (h : d < 10) : digitVal (UInt8.ofNat (48 + d)) = some d := by
  unfold digitVal
  simp only [u8_ofNat_toNat]
  have : (48 + d) % 256 = 48 + d := by omega
  rw [this]
  have h1 : 48 ≤ 48 + d ∧ 48 + d ≤ 57 := by omega
  simp [h1]

theorem fold_decDigits : ∀ (fuel n : Nat), n < fuel →
    (Spec.Rdb.decDigits fuel n).foldl pdStep (some 0) = some n ∧ Spec.Rdb.decDigits fuel n ≠ [] := by
  intro fuel
  induction fuel with
  | zero => intro n h; omega
  | succ f ih =>
    intro n h
    unfold Spec.Rdb.decDigits
    by_cases hn : n < 10
    · simp only [hn, if_true, List.foldl_cons, List.foldl_nil, pdStep, digitVal_digit n hn]
      exact ⟨by simp, by simp⟩
    · have hlt : n / 10 < f := by omega
      obtain ⟨h1, _⟩ := ih (n / 10) hlt
      simp only [hn, if_false, List.foldl_append, h1, List.foldl_cons, List.foldl_nil, pdStep,
        digitVal_digit (n % 10) (Nat.mod_lt _ (by decide))]
      refine ⟨?_, by simp⟩
      congr 1; omega

theorem parseDigits_fmtNat (n : Nat) : parseDigits (fmtNat n) = some n := by
  unfold parseDigits fmtNat
  rw [Lemmas.Rdb.digitsRev_reverse]
  obtain ⟨h1, h2⟩ := fold_decDigits (n + 1) n (by omega)
  have he : (Spec.Rdb.decDigits (n + 1) n).isEmpty = false := by
    cases h : Spec.Rdb.decDigits (n + 1) n with
    | nil => exact absurd h h2
    | cons _ _ => rfl
  simp only [he, Bool.false_eq_true, if_false]
  exact h1

theorem fmtNat_head_digit (n : Nat) : ∃ b r, fmtNat n = b :: r ∧ b ≠ 43 ∧ b ≠ 45 := by
  unfold fmtNat
  rw [Lemmas.Rdb.digitsRev_reverse]
  -- the first digit is 48 + d
  have key : ∀ (fuel m : Nat), m < fuel → ∃ d r, d < 10 ∧ Spec.Rdb.decDigits fuel m = UInt8.ofNat (48 + d) :: r := by
    intro fuel
    induction fuel with
    | zero => intro m h; omega
    | succ f ih =>
      intro m h
      unfold Spec.Rdb.decDigits
      by_cases hm : m < 10
      · exact ⟨m, [], hm, by simp [hm]⟩
      · obtain ⟨d, r, hd, hr⟩ := ih (m / 10) (by omega)
        exact ⟨d, r ++ [UInt8.ofNat (48 + m % 10)], hd, by simp [hm, hr]⟩
  obtain ⟨d, r, hd, hr⟩ := key (n + 1) n (by omega)
  refine ⟨_, _, hr, ?_, ?_⟩
  · intro h
    have := congrArg UInt8.toNat h
    simp only [u8_ofNat_toNat] at this
    have e : (43 : UInt8).toNat = 43 := by decide
    omega
  · intro h
    have := congrArg UInt8.toNat h
    simp only [u8_ofNat_toNat] at this
    have e : (45 : UInt8).toNat = 45 := by decide
    omega

theorem parseInt32_fmtInt (i : Int) (h1 : -2147483648 ≤ i) (h2 : i ≤ 2147483647) : parseInt32 (fmtInt i) = some i := by
  unfold fmtInt
  by_cases hneg : i < 0
  · simp only [hneg, if_true, parseInt32, parseDigits_fmtNat]
    have : (-(i.natAbs : Int)) = i := by omega
    simp [this, h1, h2]
  · simp only [hneg, if_false]
    obtain ⟨b, r, hb, n43, n45⟩ := fmtNat_head_digit i.toNat
    have hpd := parseDigits_fmtNat i.toNat
    rw [hb] at hpd ⊢
    have hi : ((i.toNat : Nat) : Int) = i := by omega
    unfold parseInt32
    split
    · rename_i ds heq; injection heq with hh _; exact absurd hh n43
    · rename_i ds heq; injection heq with hh _; exact absurd hh n45
    · simp only [hpd, Bool.false_eq_true, if_false, hi]
      simp [h1, h2]

end RSVerif.Lemmas.Rdb12
