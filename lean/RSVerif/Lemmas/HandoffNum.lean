import RSVerif.Model.Handoff
import RSVerif.Spec.Handoff
namespace RSVerif.Lemmas.Handoff
open RSVerif RSVerif.Handoff

/-! numerals -/

theorem isDigit_eq : Spec.Handoff.isDigit = isDigit := rfl

theorem denote_parts {ds : Bytes} {v : Nat} (h : Spec.Handoff.denote ds = some v) :
    ds ≠ [] ∧ ds.all isDigit = true ∧ decVal ds = v := by
  unfold Spec.Handoff.denote at h
  split at h
  · cases h
  · rename_i hc
    simp only [Bool.or_eq_true, Bool.not_eq_true', not_or, Bool.not_eq_false, List.isEmpty_iff] at hc
    simp only [Option.some.injEq] at h
    exact ⟨hc.1, by simpa [isDigit_eq] using hc.2, h⟩

theorem digit_not_sign {b : UInt8} (h : isDigit b = true) : b ≠ PLUS ∧ b ≠ MINUS ∧ b ≠ LF ∧ b ≠ SP ∧ b ≠ CR := by
  unfold isDigit at h
  simp only [Bool.and_eq_true, decide_eq_true_eq] at h
  refine ⟨?_, ?_, ?_, ?_, ?_⟩ <;> (intro e; subst e; revert h; decide)

theorem stripSign_digit {d : UInt8} (ds : Bytes) (hd : isDigit d = true) : stripSign (d :: ds) = d :: ds := by
  obtain ⟨hp, hm, _⟩ := digit_not_sign hd
  simp [stripSign, hp, hm]

theorem stripSign_minus (ds : Bytes) : stripSign (MINUS :: ds) = ds := by
  simp [stripSign]

theorem parseInt_of_denote {ds : Bytes} {v : Nat} (h : Spec.Handoff.denote ds = some v) (hv : v < 2 ^ 63) :
    parseInt ds = some (v : Int) := by
  obtain ⟨hne, hall, hval⟩ := denote_parts h
  cases ds with
  | nil => exact absurd rfl hne
  | cons d ds =>
    have hd : isDigit d = true := by simp only [List.all_cons, Bool.and_eq_true] at hall; exact hall.1
    obtain ⟨hp, hm, _⟩ := digit_not_sign hd
    unfold parseInt
    rw [stripSign_digit ds hd]
    simp only [hall, hval, List.head?_cons, Option.some.injEq, hm]
    simp [hv]

theorem parseInt_of_denoteInt {s : Bytes} {v : Int} (h : Spec.Handoff.denoteInt s = some v)
    (hv : Spec.Handoff.int64 v = true) : parseInt s = some v := by
  unfold Spec.Handoff.int64 at hv
  simp only [Bool.and_eq_true, decide_eq_true_eq] at hv
  unfold Spec.Handoff.denoteInt at h
  split at h
  · rename_i hm
    cases s with
    | nil => simp at hm
    | cons c ds =>
      simp only [List.head?_cons, Option.some.injEq] at hm
      subst hm
      simp only [List.tail_cons] at h
      split at h
      · rename_i u hu
        simp only [Option.some.injEq] at h
        subst h
        obtain ⟨hne, hall, hval⟩ := denote_parts hu
        unfold parseInt
        have e : (45 : UInt8) = MINUS := rfl
        rw [e, stripSign_minus]
        have : ds.isEmpty = false := by cases ds <;> simp_all
        simp only [this, hall, hval, List.head?_cons]
        simp
        omega
      · cases h
  · rename_i hm
    split at h
    · rename_i u hu
      simp only [Option.some.injEq] at h
      subst h
      exact parseInt_of_denote hu (by omega)
    · cases h

end RSVerif.Lemmas.Handoff
