import RSVerif.Lemmas.SenderCheckpoint
/-
Assembly: the state of the target after a cut, and after a resumed run.
-/
namespace RSVerif.Lemmas.Resume
open RSVerif RSVerif.Sync RSVerif.Sender RSVerif.Spec.IncrSync RSVerif.Spec.MiniRedis
open RSVerif.Lemmas.Sender RSVerif.Lemmas.MiniRedis RSVerif.Lemmas.SenderRedis RSVerif.Lemmas.SyncBasic
open RSVerif.Lemmas.Checkpoint

theorem le_lastOff (A : List Item) (hinc : Increasing A) : ∀ a ∈ A, a.off ≤ lastOff A := by
  intro a ha
  have hne : A ≠ [] := by intro h; simp [h] at ha
  have hd := List.dropLast_concat_getLast hne
  have hl : lastOff A = (A.getLast hne).off := by
    unfold lastOff; rw [List.getLast?_eq_some_getLast hne]
  rw [hl]
  rw [← hd] at ha hinc
  rcases List.mem_append.mp ha with h | h
  · have := (List.pairwise_append.mp hinc).2.2 a h (A.getLast hne) (by simp)
    omega
  · simp at h; subst h; exact Int.le_refl _

theorem filter_le_lastOff (A R : List Item) (hinc : Increasing (A ++ R)) (hne : A ≠ []) :
    (A ++ R).filter (fun it => decide (it.off ≤ lastOff A)) = A := by
  obtain ⟨hA, hR, hcross⟩ := List.pairwise_append.mp hinc
  obtain ⟨xl, hxl, hxo⟩ := lastOff_mem A hne
  rw [List.filter_append]
  have h1 : A.filter (fun it => decide (it.off ≤ lastOff A)) = A :=
    List.filter_eq_self.mpr (fun a ha => by simpa using le_lastOff A hA a ha)
  have h2 : R.filter (fun it => decide (it.off ≤ lastOff A)) = [] :=
    List.filter_eq_nil_iff.mpr (fun r hr => by
      have := hcross xl hxl r hr
      simp; omega)
  rw [h1, h2, List.append_nil]

theorem filter_gt_lastOff (A R : List Item) (hinc : Increasing (A ++ R)) (hne : A ≠ []) :
    (A ++ R).filter (fun it => decide (lastOff A < it.off)) = R := by
  obtain ⟨hA, hR, hcross⟩ := List.pairwise_append.mp hinc
  obtain ⟨xl, hxl, hxo⟩ := lastOff_mem A hne
  rw [List.filter_append]
  have h1 : A.filter (fun it => decide (lastOff A < it.off)) = [] :=
    List.filter_eq_nil_iff.mpr (fun a ha => by
      have := le_lastOff A hA a ha
      simp; omega)
  have h2 : R.filter (fun it => decide (lastOff A < it.off)) = R :=
    List.filter_eq_self.mpr (fun r hr => by
      have := hcross xl hxl r hr
      simp; omega)
  rw [h1, h2, List.nil_append]

/-- an increasing stream splits at any offset -/
theorem filter_split (l : List Item) (hinc : Increasing l) (X : Int) :
    l = l.filter (fun it => decide (it.off ≤ X)) ++ l.filter (fun it => decide (X < it.off)) := by
  induction l with
  | nil => rfl
  | cons a l ih =>
    have hl := (List.pairwise_cons.mp hinc)
    by_cases ha : a.off ≤ X
    · have h2 : ¬ X < a.off := by omega
      simp only [List.filter_cons, ha, h2, decide_true, decide_false, if_true, Bool.false_eq_true, if_false,
        List.cons_append]
      rw [← ih hl.2]
    · have h2 : X < a.off := by omega
      have e1 : l.filter (fun it => decide (it.off ≤ X)) = [] :=
        List.filter_eq_nil_iff.mpr (fun b hb => by have := hl.1 b hb; simp; omega)
      have e2 : l.filter (fun it => decide (X < it.off)) = l :=
        List.filter_eq_self.mpr (fun b hb => by have := hl.1 b hb; simp; omega)
      simp [ha, h2, e1, e2]

theorem newest_unique {D : Type} (s : St D) (f : Bytes) (d1 d2 x1 x2 : Int)
    (h1 : NewestCheckpoint s f d1 x1) (h2 : NewestCheckpoint s f d2 x2) : x1 = x2 ∧ d1 = d2 := by
  have a := h1.2 d2 x2 h2.1
  have b := h2.2 d1 x1 h1.1
  have : x1 = x2 := by omega
  exact ⟨this, b.2 this⟩

variable {D : Type} (apply : Int → Cmd → D → D) (rc : RenderCfg)

/-- non-marker items, the stream the target is meant to execute -/
def nonMarkers (items : List Item) : List Item := items.filter (fun it => !marker it)

/-- the source history the sender was handed, as the target is meant to see it (markers dropped) -/
def history (evs : List Ev) : List Item := (received evs).filter (fun it => !marker it)

theorem increasing_nonMarkers (items : List Item) (h : Increasing items) : Increasing (nonMarkers items) :=
  List.Pairwise.filter _ h

/-- groups of a resume-mode run: what `cut_groups` and `groups_summary` need -/
theorem shaped_small (cfg : Cfg) (hres : cfg.resume = true) (gs : List Group) (d0 d1 : List Int)
    (h : Shaped cfg d0 gs d1) :
    (∀ g ∈ gs, g.items ≠ []) ∧ (∀ g ∈ gs, SmallPlain g) ∧
    (∀ g ∈ gs, g.batched = false → ∀ it ∈ g.items, it.cmd = "ping") := by
  induction gs generalizing d0 with
  | nil => simp
  | cons g gs ih =>
    obtain ⟨h1, h2, h3⟩ := h
    obtain ⟨i1, i2, i3⟩ := ih _ h3
    have key : g.batched = false → g.items.length ≤ 1 ∧ ∀ it ∈ g.items, it.cmd = "ping" := by
      intro hb
      rw [h2] at hb
      unfold mkGroup at hb
      cases hl : g.items.getLast? with
      | none => simp at hl; exact absurd hl h1
      | some last =>
        simp only [hl, hres, Bool.true_and, Bool.not_eq_false', Bool.and_eq_true, beq_iff_eq] at hb
        refine ⟨by omega, ?_⟩
        intro it hit
        have : g.items = [last] := by
          match hgi : g.items, hb.1 with
          | [x], _ => simp [hgi] at hl; rw [hl]
        rw [this] at hit
        simp at hit
        subst hit
        exact hb.2
    refine ⟨?_, ?_, ?_⟩
    · intro g' hg'; rcases List.mem_cons.mp hg' with h | h
      · subst h; exact h1
      · exact i1 g' h
    · intro g' hg'; rcases List.mem_cons.mp hg' with h | h
      · subst h; exact fun hb => (key hb).1
      · exact i2 g' h
    · intro g' hg'; rcases List.mem_cons.mp hg' with h | h
      · subst h; exact fun hb => (key hb).2
      · exact i3 g' h

theorem Shaped.take (cfg : Cfg) (gs : List Group) (d0 d1 : List Int) (h : Shaped cfg d0 gs d1) (k : Nat) :
    ∃ d, Shaped cfg d0 (gs.take k) d := by
  induction gs generalizing d0 k with
  | nil => exact ⟨d0, by simp [Shaped]⟩
  | cons g gs ih =>
    cases k with
    | zero => exact ⟨d0, by simp [Shaped]⟩
    | succ k =>
      obtain ⟨h1, h2, h3⟩ := h
      obtain ⟨d, hd⟩ := ih _ h3 k
      exact ⟨d, h1, h2, hd⟩


theorem gItems_append (a b : List Group) : gItems (a ++ b) = gItems a ++ gItems b := by
  simp [gItems]

theorem run_eq (cfg : Cfg) (s : S) (evs : List Ev) :
    run cfg s evs = ((runG cfg s evs).1, wireOf (runG cfg s evs).2) := rfl

theorem run_append (cfg : Cfg) (s : S) (a b : List Ev) :
    run cfg s (a ++ b) = ((run cfg (run cfg s a).1 b).1, (run cfg s a).2 ++ (run cfg (run cfg s a).1 b).2) := by
  have hG : ∀ (s : S) (a : List Ev), runG cfg s (a ++ b) =
      ((runG cfg (runG cfg s a).1 b).1, (runG cfg s a).2 ++ (runG cfg (runG cfg s a).1 b).2) := by
    intro s a
    induction a generalizing s with
    | nil => simp [runG]
    | cons e es ih => simp [runG, ih, List.append_assoc]
  simp [run_eq, hG, wireOf]

/-- How the run starts relative to the bound `B` on stale checkpoint offsets: either the stale offsets are strictly
below `B` (`bdb = none`: a fresh start), or the newest stale checkpoint `(bdb, B)` is the one this run was resumed
from — then the first item is the `select bdb` the restarted parser tags with `B`, or (`bdb` = the connection's
database, no such item) every item lies strictly above `B`. -/
def StartsAt (ck : Bytes) (B : Int) (bdb : Option Int) (conn0 : Int) (items : List Item) : Prop :=
  bdb = none ∨
  (∃ it rest k, items = it :: rest ∧ it.off = B ∧ classify ck (cmdOf it) = .select k ∧ bdb = some k) ∨
  ((∀ it ∈ items, B < it.off) ∧ bdb = some conn0)

theorem StartsAt.firstAt {ck : Bytes} {B : Int} {bdb : Option Int} {conn0 : Int} {items : List Item}
    (h : StartsAt ck B bdb conn0 items) : FirstAt ck B bdb items := by
  intro it rest hit hoff
  rcases h with h | ⟨it', rest', k, h1, _, h3, h4⟩ | ⟨h1, _⟩
  · exact Or.inl h
  · rw [hit] at h1
    simp only [List.cons.injEq] at h1
    rw [← h1.1] at h3
    exact Or.inr ⟨k, h3, h4⟩
  · have := h1 it (by rw [hit]; simp)
    omega

theorem FirstAt.prefix {ck : Bytes} {B : Int} {bdb : Option Int} {a b : List Item}
    (h : FirstAt ck B bdb (a ++ b)) : FirstAt ck B bdb a := by
  intro it rest hit hoff
  exact h it (rest ++ b) (by rw [hit]; rfl) hoff

/-- the target after a cut: a whole number of groups has been applied; `done` are their items -/
theorem cut_summary (cfg : Cfg) (hres : cfg.resume = true) (evs : List Ev) (hwf : WF (received evs))
    (s0 : St D) (hq : s0.q = none)
    (hpl : ∀ it ∈ nonMarkers (received evs), plainItem rc.ckName it = true)
    (hinc : Increasing (received evs)) (B : Int) (bdb : Option Int) (hB : ∀ it ∈ received evs, B ≤ it.off)
    (hfirst : FirstAt rc.ckName B bdb (nonMarkers (received evs)))
    (hdesc : OffDesc (offsetField rc) B bdb s0.ckpt) (p : Nat) :
    ∃ done rest, nonMarkers (received evs) = done ++ rest ∧
      Summary apply rc s0
        (drop (replay rc.ckName apply s0 ((renderWire rc (run cfg S.init evs).2).take p))) done := by
  have facts := runG_facts cfg evs S.init inv_init hwf
  have hitems : gItems (runG cfg S.init evs).2 ++ (runG cfg S.init evs).1.cache = nonMarkers (received evs) := by
    simpa [S.init, nonMarkers] using facts.items
  generalize hgs : (runG cfg S.init evs).2 = gs at facts hitems
  have hplg : ∀ it ∈ gItems gs, plainItem rc.ckName it = true := fun it hit => hpl it (by
    rw [← hitems]; exact List.mem_append_left _ hit)
  obtain ⟨hne, hsm, hlp⟩ := shaped_small cfg hres gs _ _ facts.shaped
  rw [run_eq, hgs]
  obtain ⟨k, hk, hst⟩ := cut_groups apply rc s0 hq gs hplg hsm p
  have hsplit : nonMarkers (received evs) =
      gItems (gs.take k) ++ (gItems (gs.drop k) ++ (runG cfg S.init evs).1.cache) := by
    rw [← hitems, ← List.append_assoc, ← gItems_append, List.take_append_drop]
  refine ⟨gItems (gs.take k), gItems (gs.drop k) ++ (runG cfg S.init evs).1.cache, hsplit, ?_⟩
  simp only [] at hst ⊢
  rw [hst]
  have hsub : ∀ it ∈ gItems (gs.take k), it ∈ gItems gs := by
    intro it hit
    rw [← List.take_append_drop k gs, gItems_append]
    exact List.mem_append_left _ hit
  have hincn : Increasing (nonMarkers (received evs)) := increasing_nonMarkers _ hinc
  have hinck : Increasing (gItems (gs.take k)) := by
    rw [hsplit] at hincn
    exact (List.pairwise_append.mp hincn).1
  exact groups_summary apply rc (gs.take k) s0 B bdb (fun it hit => hplg it (hsub it hit))
    (fun g hg => hlp g (List.mem_of_mem_take hg)) (fun g hg => hne g (List.mem_of_mem_take hg)) hinck
    (fun it hit => hB it (by
      have : it ∈ nonMarkers (received evs) := by
        rw [← hitems]; exact List.mem_append_left _ (hsub it hit)
      exact (List.mem_filter.mp this).1)) (by rw [hsplit] at hfirst; exact FirstAt.prefix hfirst) hdesc

/-- reading the summary through the loader's eyes: for the checkpoint `(dbX, X)` the loader must return, `r` = dataset
and selected database after the history up to `X` -/
theorem summary_consistent (s0 st : St D) (nm done rest : List Item) (h : nm = done ++ rest)
    (hinc : Increasing nm) (hsum : Summary apply rc s0 st done)
    (B : Int) (bdb : Option Int) (hB : ∀ it ∈ nm, B ≤ it.off)
    (hstart : StartsAt rc.ckName B bdb s0.db nm) (hdesc : OffDesc (offsetField rc) B bdb s0.ckpt) :
    (∀ dbX X, NewestCheckpoint st (offsetField rc) dbX X →
      (((nm.filter (fun it => decide (it.off ≤ X))).map cmdOf).foldl (execCore apply rc.ckName) (core s0)).1 = st.data ∧
      (B ≤ X →
        (((nm.filter (fun it => decide (it.off ≤ X))).map cmdOf).foldl (execCore apply rc.ckName) (core s0)).2 = dbX) ∧
      ((B < X ∨ (bdb = none ∧ B ≤ X)) → st.db = dbX)) ∧
    ((∀ d, storedInt st d (offsetField rc) = none) → core st = core s0) := by
  rcases hsum with ⟨h1, h2, h3⟩ | ⟨A, P, rest', h1, h2, h3, h4, h5, h6⟩
  · refine ⟨?_, fun _ => h3⟩
    intro dbX X hn
    have hst : storedL s0.ckpt dbX (offsetField rc) = some X := by
      have := hn.1; rw [storedInt_eq, h2] at this; exact this
    have hdata : st.data = s0.data := by have := congrArg Prod.fst h3; simpa [core] using this
    rcases hdesc.lt dbX X hst with hlt | ⟨heq, hbdb⟩
    · have hnil : nm.filter (fun it => decide (it.off ≤ X)) = [] :=
        List.filter_eq_nil_iff.mpr (fun it hit => by have := hB it hit; simp; omega)
      rw [hnil]
      exact ⟨by simp [core, hdata], fun hbx => by omega, fun hbx => by
        rcases hbx with hbx | ⟨_, hbx⟩ <;> omega⟩
    · subst heq
      refine ⟨?_, fun _ => ?_, fun hbx => by
        rcases hbx with hbx | ⟨hb, _⟩
        · omega
        · rw [hb] at hbdb; simp at hbdb⟩
      all_goals
        rcases hstart with hs | ⟨it, rest2, k, hnm, hoff, hcl, hbk⟩ | ⟨hall, hbc⟩
        · rw [hs] at hbdb; simp at hbdb
        · -- the first item is the resumed parser's `select`, tagged with the stale offset itself
          have hinc2 := hinc
          rw [hnm] at hinc2
          have hrest : rest2.filter (fun x => decide (x.off ≤ it.off)) = [] :=
            List.filter_eq_nil_iff.mpr (fun x hx => by
              have := (List.pairwise_cons.mp hinc2).1 x hx
              simp; omega)
          rw [hnm]
          simp only [List.filter_cons, hoff, Int.le_refl, decide_true, if_true]
          rw [← hoff, hrest]
          simp only [List.map_cons, List.map_nil, List.foldl_cons, List.foldl_nil, execCore, hcl, core]
          first
            | exact hdata.symm
            | (rw [hbk] at hbdb; simpa using hbdb.symm)
        · have hnil : nm.filter (fun x => decide (x.off ≤ X)) = [] :=
            List.filter_eq_nil_iff.mpr (fun x hx => by have := hall x hx; simp; omega)
          rw [hnil]
          simp only [List.map_nil, List.foldl_nil, core]
          first
            | exact hdata.symm
            | (rw [hbc] at hbdb; simpa using hbdb.symm)
  · have hnew := newest_of_head st (offsetField rc) st.db (lastOff A) _ rest' h4 (parseIntU_fmtInt _) h5
    refine ⟨?_, fun hnone => by have := hnew.1; rw [hnone] at this; simp at this⟩
    intro dbX X hn
    obtain ⟨hx, hd⟩ := newest_unique st _ _ _ _ _ hn hnew
    subst hx
    have hnm : nm = A ++ (P ++ rest) := by rw [h, h1, List.append_assoc]
    rw [hnm, filter_le_lastOff A _ (hnm ▸ hinc) h2, ← h6]
    exact ⟨rfl, fun _ => by simp [core, hd], fun _ => hd.symm⟩

/-- a run that ends with an empty cache has made the target execute exactly the non-marker items,
each immediately and in order (the wrapping in MULTI/EXEC and the checkpoint writes are invisible
to dataset and selected database) -/
theorem flushed_run_core (cfg : Cfg) (evs : List Ev) (hwf : WF (received evs)) (s : St D) (hq : s.q = none)
    (hpl : ∀ it ∈ nonMarkers (received evs), plainItem rc.ckName it = true)
    (hflush : (run cfg S.init evs).1.cache = []) :
    core (replay rc.ckName apply s (renderWire rc (run cfg S.init evs).2)) =
      ((nonMarkers (received evs)).map cmdOf).foldl (execCore apply rc.ckName) (core s) ∧
    (replay rc.ckName apply s (renderWire rc (run cfg S.init evs).2)).q = none := by
  have facts := runG_facts cfg evs S.init inv_init hwf
  rw [run_eq] at hflush ⊢
  simp only [] at hflush ⊢
  have hitems : gItems (runG cfg S.init evs).2 = nonMarkers (received evs) := by
    have := facts.items
    rw [hflush] at this
    simpa [S.init, nonMarkers] using this
  have hplg : ∀ it ∈ gItems (runG cfg S.init evs).2, plainItem rc.ckName it = true := by
    rw [hitems]; exact hpl
  rw [replay_groups apply rc s _ hq hplg, core_plain, core_groups, hitems, plain_q]
  exact ⟨rfl, hq⟩

/-- the item the restarted parser sends first (`select <startDb>` tagged with the loaded offset) -/
def startSelect (dbX X : Int) : List Item :=
  if dbX = 0 then [] else [{ cmd := "select", args := [fmtInt dbX], off := X, db := dbX }]

/-- what the sender of the restarted process is handed: the source resends everything after offset `X` -/
def resumeItems (items : List Item) (dbX X : Int) : List Item :=
  startSelect dbX X ++ items.filter (fun it => decide (X < it.off))

theorem classify_select (ck : Bytes) (k : Int) : classify ck ("select", [fmtInt k]) = .select k := by
  have e : normName "select" = "select" := by decide
  simp [classify, e, parseIntU_fmtInt]

theorem startSelect_core (ck : Bytes) (d : D) (dbX X : Int) :
    ((startSelect dbX X).map cmdOf).foldl (execCore apply ck) (d, 0) = (d, dbX) := by
  unfold startSelect
  split
  · rename_i h; subst h; rfl
  · simp [cmdOf, execCore, classify_select]

theorem startSelect_plain (ck : Bytes) (dbX X : Int) : ∀ it ∈ startSelect dbX X, plainItem ck it = true := by
  intro it hit
  unfold startSelect at hit
  split at hit
  · simp at hit
  · simp at hit; subst hit; simp [plainItem, cmdOf, classify_select]

theorem startSelect_nonMarker (dbX X : Int) : nonMarkers (startSelect dbX X) = startSelect dbX X := by
  unfold startSelect nonMarkers
  split
  · rfl
  · simp [marker]

theorem nonMarkers_append (a b : List Item) : nonMarkers (a ++ b) = nonMarkers a ++ nonMarkers b := by
  simp [nonMarkers]

theorem nonMarkers_filter (l : List Item) (p : Item → Bool) :
    nonMarkers (l.filter p) = (nonMarkers l).filter p := by
  simp only [nonMarkers, List.filter_filter]
  congr 1
  funext x
  exact Bool.and_comm _ _


theorem wf_mono (l : List Item) (h : wfFrom true l = true) : wfFrom false l = true := by
  induction l with
  | nil => rfl
  | cons it l ih =>
    rw [wfFrom_cons] at h ⊢
    simp only [Bool.and_eq_true] at h ⊢
    obtain ⟨h1, h2⟩ := h
    unfold okIn nextTx at *
    by_cases c1 : it.cmd = "multi"
    · simp [c1] at h1
    · by_cases c2 : it.cmd = "exec"
      · simp [c2] at h2 ⊢; exact h2
      · by_cases c3 : it.cmd = "select"
        · simp [c3] at h1
        · simp [c1, c2, c3] at h2 ⊢; exact ih h2

theorem wf_suffix (t : Bool) (a b : List Item) (h : wfFrom t (a ++ b) = true) : wfFrom false b = true := by
  induction a generalizing t with
  | nil => cases t
           · exact h
           · exact wf_mono b h
  | cons it a ih =>
    rw [List.cons_append, wfFrom_cons] at h
    simp only [Bool.and_eq_true] at h
    exact ih _ h.2

theorem wf_resumeItems (items : List Item) (hwf : WF items) (hinc : Increasing items) (dbX X : Int) :
    WF (resumeItems items dbX X) := by
  have hs : wfFrom false (items.filter (fun it => decide (X < it.off))) = true := by
    have := filter_split items hinc X
    unfold WF at hwf
    rw [this] at hwf
    exact wf_suffix false _ _ hwf
  unfold WF resumeItems startSelect
  split
  · simpa using hs
  · simp only [List.cons_append, List.nil_append, wfFrom_cons, okIn, nextTx]
    simpa using hs

end RSVerif.Lemmas.Resume
