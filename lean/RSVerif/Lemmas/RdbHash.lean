import RSVerif.Lemmas.RdbValue
/-
Reader lemmas for C01, part 4: the hash loop and its chunking.
-/
set_option linter.unusedSimpArgs false
namespace RSVerif.Lemmas.Rdb
open RSVerif RSVerif.Rdb RSVerif.Spec.Rdb

theorem takeChunk_append (L b : Nat) (ps : List Pair) :
    (takeChunk L b ps).1 ++ (takeChunk L b ps).2 = ps := by
  induction ps generalizing b with
  | nil => rfl
  | cons p rest ih =>
    unfold takeChunk
    split
    · rfl
    · simp [ih]

theorem takeChunk_fst_ne_nil (L b : Nat) (p : Pair) (ps : List Pair) : (takeChunk L b (p :: ps)).1 ≠ [] := by
  unfold takeChunk; split <;> simp

theorem serPairs_cons (p : Pair) (ps : List Pair) : serPairs (p :: ps) = serPair p ++ serPairs ps := by
  simp [serPairs]

/-- the hash loop stops exactly where `takeChunk` says -/
theorem hashLoop_takeChunk (L : Nat) (ps : List Pair) (hps : ∀ p ∈ ps, strOk p.1 ∧ strOk p.2)
    (i b S : Nat) (rest : Bytes) (hS : S = b + (serPairs ps).length + rest.length) :
    hashLoop L S (i + ps.length) ps.length i (serPairs ps ++ rest) =
      .ok (i + (takeChunk L b ps).1.length,
           (if (takeChunk L b ps).2 = [] then none else some (takeChunk L b ps).2.length),
           serPairs (takeChunk L b ps).2 ++ rest) := by
  induction ps generalizing i b with
  | nil => simp [hashLoop, takeChunk, serPairs]
  | cons p ps ih =>
    have hp := hps p (by simp)
    simp only [List.length_cons, hashLoop, serPairs_cons, List.append_assoc]
    rw [show serPair p = serStr p.1 ++ serStr p.2 from rfl, List.append_assoc,
      skipString_ser _ _ hp.1]
    simp only []
    rw [skipString_ser _ _ hp.2]
    simp only []
    have hlen : S - (serPairs ps ++ rest).length = b + (serPair p).length := by
      rw [hS, serPairs_cons]; simp; omega
    rw [hlen]
    have hn : (i + 1 ≠ i + (ps.length + 1)) ↔ ps ≠ [] := by
      cases ps <;> simp
    unfold takeChunk
    by_cases hc : b + (serPair p).length > L ∧ ps ≠ []
    · have hc' : b + (serPair p).length > L ∧ i + 1 ≠ i + (ps.length + 1) := ⟨hc.1, hn.2 hc.2⟩
      rw [if_pos hc', if_pos hc]
      simp [hc.2]
    · have hc' : ¬ (b + (serPair p).length > L ∧ i + 1 ≠ i + (ps.length + 1)) := by
        intro h; exact hc ⟨h.1, hn.1 h.2⟩
      rw [if_neg hc', if_neg hc]
      have e : i + (ps.length + 1) = (i + 1) + ps.length := by omega
      rw [e, ih (fun q hq => hps q (by simp [hq])) (i + 1) (b + (serPair p).length)
        (by rw [hS, serPairs_cons]; simp; omega)]
      simp; omega

theorem readObjectValue_hash_first (pf : Bytes → Bool) (L : Nat) (n : LenForm) (fvs : List Pair) (cs : ChunkSt)
    (rest : Bytes) (hv : valueOk pf (.hash n fvs)) (hcs : cs.remain = 0) :
    readObjectValue pf L 4 cs (encLen ⟨fvs.length, n⟩ ++ serPairs fvs ++ rest) =
      .ok ({ remain := (takeChunk L (encLen ⟨fvs.length, n⟩).length fvs).2.length,
             lastRead := (takeChunk L (encLen ⟨fvs.length, n⟩).length fvs).1.length,
             tot := fvs.length },
           serPairs (takeChunk L (encLen ⟨fvs.length, n⟩).length fvs).2 ++ rest) := by
  obtain ⟨hn, hp⟩ := hv
  have h4 : (4 : UInt8).toNat = 4 := rfl
  simp only [readObjectValue, h4, hcs, ne_eq, not_true_eq_false, if_false, List.append_assoc]
  rw [readLength_enc _ hn.2, readOf_not64 _ hn.1]
  simp only []
  have := hashLoop_takeChunk L fvs hp 0 (encLen ⟨fvs.length, n⟩).length
    (encLen ⟨fvs.length, n⟩ ++ (serPairs fvs ++ rest)).length rest (by simp; omega)
  simp only [Nat.zero_add] at this
  rw [this]
  have happ := takeChunk_append L (encLen ⟨fvs.length, n⟩).length fvs
  generalize takeChunk L (encLen ⟨fvs.length, n⟩).length fvs = cr at *
  obtain ⟨c, r⟩ := cr
  simp only at happ ⊢
  have hl : c.length + r.length = fvs.length := by rw [← happ]; simp
  cases r with
  | nil => simp at hl ⊢; try simp [hl]
  | cons x xs =>
    simp at hl ⊢
    have : ¬ c.length = fvs.length := by omega
    simp [this]

theorem readObjectValue_hash_cont (pf : Bytes → Bool) (L : Nat) (ps : List Pair) (cs : ChunkSt)
    (rest : Bytes) (hp : ∀ p ∈ ps, strOk p.1 ∧ strOk p.2) (hcs : cs.remain = ps.length) (hne : ps ≠ []) :
    readObjectValue pf L 4 cs (serPairs ps ++ rest) =
      .ok ({ remain := (takeChunk L 0 ps).2.length, lastRead := (takeChunk L 0 ps).1.length, tot := cs.tot },
           serPairs (takeChunk L 0 ps).2 ++ rest) := by
  have h4 : (4 : UInt8).toNat = 4 := rfl
  have hr : cs.remain ≠ 0 := by rw [hcs]; cases ps <;> simp_all
  simp only [readObjectValue, h4, hr, ne_eq, not_false_eq_true, if_true]
  have := hashLoop_takeChunk L ps hp 0 0 (serPairs ps ++ rest).length rest (by simp)
  simp only [Nat.zero_add] at this
  rw [hcs, this]
  have happ := takeChunk_append L 0 ps
  generalize takeChunk L 0 ps = cr at *
  obtain ⟨c, r⟩ := cr
  simp only at happ ⊢
  have hl : c.length + r.length = ps.length := by rw [← happ]; simp
  cases r with
  | nil => simp at hl ⊢; try simp [hl]
  | cons x xs =>
    simp at hl ⊢
    have : ¬ c.length = ps.length := by omega
    simp [this]

end RSVerif.Lemmas.Rdb
