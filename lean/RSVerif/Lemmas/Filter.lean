import RSVerif.Model.Filter
import Std.Data.String.ToInt
/-
C06 helper lemmas: each Go predicate of filter.go (model) equals the corresponding clause of the
specification. `Std` is the library shipped with the Lean toolchain (used for `Int.repr_inj` only).
-/
namespace RSVerif.Lemmas.Filter
open RSVerif RSVerif.Spec.Filter RSVerif.Filter

theorem hasAtLeastOnePrefix_eq (key : Bytes) (l : List Bytes) : hasAtLeastOnePrefix key l = listed key l := by
  induction l with
  | nil => rfl
  | cons p ps ih =>
    simp only [hasAtLeastOnePrefix, listed, List.any_cons] at *
    cases h : p.isPrefixOf key <;> simp [ih]

theorem matchOne_eq (db : Int) (l : List Bytes) : matchOne (formatInt db) l = dbListed db l := by
  induction l with
  | nil => rfl
  | cons e es ih =>
    simp only [matchOne, dbListed, List.any_cons, formatInt] at *
    rw [ih]
    by_cases h : (e == decimal db) = true <;> simp [h]

theorem length_ne_zero (l : List α) : (l.length != 0) = !l.isEmpty := by
  cases l <;> rfl
theorem length_eq_zero (l : List α) : (l.length == 0) = l.isEmpty := by
  cases l <;> rfl

theorem inner_keys_checkpoint : ∀ k ∈ Generated.innerFilterKeys, Generated.checkpointKey.isPrefixOf k = true := by
  decide

theorem filterKey_eq (cfg : Cfg) (key : Bytes) :
    filterKey cfg key = (isCheckpointKey key || keyExcluded cfg key) := by
  unfold filterKey isCheckpointKey keyExcluded
  by_cases hin : Generated.innerFilterKeys.contains key = true
  · have := inner_keys_checkpoint key (List.contains_iff_mem.mp hin)
    simp [this]
  · simp only [hin, Bool.false_eq_true, ↓reduceIte, length_ne_zero, hasAtLeastOnePrefix_eq]
    cases Generated.checkpointKey.isPrefixOf key <;> cases cfg.keyBlack.isEmpty <;> cases cfg.keyWhite.isEmpty <;>
      cases listed key cfg.keyBlack <;> cases listed key cfg.keyWhite <;> rfl

theorem filterDB_eq (cfg : Cfg) (db : Int) : filterDB cfg db = dbExcluded cfg db := by
  unfold filterDB dbExcluded
  simp only [length_ne_zero, matchOne_eq]
  cases cfg.dbBlack.isEmpty <;> cases cfg.dbWhite.isEmpty <;>
      cases dbListed db cfg.dbBlack <;> cases dbListed db cfg.dbWhite <;> rfl


/-! slots -/
theorem atoi_eq_slot (e : Bytes) (slot : Nat) (hs : slot < 16384) (hv : (numeral? e).isSome = true) :
    ((slot : Int) == atoi e) = (numeral? e == some (slot : Int)) := by
  unfold atoi
  cases hn : numeral? e with
  | none => simp [hn] at hv
  | some v =>
    have hM : int64Max = 9223372036854775807 := rfl
    have hm : int64Min = -9223372036854775808 := rfl
    rw [Bool.eq_iff_iff]
    simp only [beq_iff_eq, Option.some.injEq]
    by_cases h1 : v > int64Max
    · rw [if_pos h1]; omega
    · rw [if_neg h1]
      by_cases h2 : v < int64Min
      · rw [if_pos h2]; omega
      · rw [if_neg h2]; omega

theorem slotLoop_eq (slot : Nat) (hs : slot < 16384) (l : List Bytes)
    (hv : l.all (fun e => (numeral? e).isSome) = true) :
    slotLoop (slot : Int) l = !slotListed slot l := by
  induction l with
  | nil => rfl
  | cons e es ih =>
    simp only [List.all_cons, Bool.and_eq_true] at hv
    simp only [slotLoop, slotListed, List.any_cons, atoi_eq_slot e slot hs hv.1]
    have := ih hv.2
    simp only [slotListed] at this
    rw [this]
    by_cases h : (numeral? e == some (slot : Int)) = true <;> simp [h]

theorem filterSlot_eq (cfg : Cfg) (slot : Nat) (hs : slot < 16384) (hv : slotsValid cfg = true) :
    filterSlot cfg (slot : Int) = slotExcluded cfg slot := by
  unfold filterSlot slotExcluded
  rw [length_eq_zero, slotLoop_eq slot hs cfg.slots hv]
  cases cfg.slots.isEmpty <;> simp

/-! decimal numerals -/
theorem decimal_inj (a b : Int) (h : decimal a = decimal b) : a = b := by
  unfold decimal at h
  have h1 : (Int.repr a).toByteArray.data = (Int.repr b).toByteArray.data := Array.toList_inj.mp h
  have h3 : Int.repr a = Int.repr b := String.toByteArray_inj.mp (ByteArray.ext h1)
  exact Int.repr_inj.mp h3


/-! letter case -/
def isLower (c : UInt8) : Bool := 97 ≤ c && c ≤ 122

theorem fold_byte_fin : ∀ i : Fin 128, ∀ j : Fin 26,
    asciiFoldEq (UInt8.ofNat i.val) (UInt8.ofNat (97 + j.val)) =
      (lowerAscii (UInt8.ofNat i.val) == UInt8.ofNat (97 + j.val)) := by
  decide +kernel

theorem fold_byte (b c : UInt8) (hb : b < 128) (hc : isLower c = true) :
    asciiFoldEq b c = (lowerAscii b == c) := by
  have hb' : b.toNat < 128 := by simpa [UInt8.lt_iff_toNat_lt] using hb
  simp only [isLower, Bool.and_eq_true, decide_eq_true_eq, UInt8.le_iff_toNat_le] at hc
  have h1 : (97:UInt8).toNat = 97 := rfl
  have h2 : (122:UInt8).toNat = 122 := rfl
  rw [h1, h2] at hc
  have := fold_byte_fin ⟨b.toNat, hb'⟩ ⟨c.toNat - 97, by omega⟩
  simp only [] at this
  have e : 97 + (c.toNat - 97) = c.toNat := by omega
  rw [e] at this
  simpa using this

/-- on ASCII names Go's `EqualFold` against a lower-case literal is plain ASCII case-insensitivity -/
theorem equalFold_ascii (cmd pat : Bytes) (ha : isAscii cmd = true) (hp : pat.all isLower = true) :
    equalFold cmd pat = isName cmd pat := by
  induction cmd generalizing pat with
  | nil => cases pat <;> rfl
  | cons b s ih =>
    cases pat with
    | nil => simp [equalFold, isName]
    | cons c t =>
      simp only [isAscii, List.all_cons, Bool.and_eq_true, decide_eq_true_eq] at ha
      simp only [List.all_cons, Bool.and_eq_true] at hp
      have hs : isAscii s = true := by simpa [isAscii] using ha.2
      simp only [equalFold, ha.1, ↓reduceIte, fold_byte b c ha.1 hp.1, ih t hs hp.2, isName, List.map_cons]
      rw [List.cons_beq_cons]

theorem lowerAscii_lt (b : UInt8) (h : lowerAscii b < 128) : b < 128 := by
  revert h
  revert b
  apply forall_u8
  decide +kernel

/-- a name written in some letter case consists of ASCII bytes -/
theorem isName_ascii (cmd pat : Bytes) (hp : isAscii pat = true) (h : isName cmd pat = true) : isAscii cmd = true := by
  induction cmd generalizing pat with
  | nil => rfl
  | cons b s ih =>
    cases pat with
    | nil => simp [isName] at h
    | cons c t =>
      simp only [isName, List.map_cons, List.cons_beq_cons, Bool.and_eq_true, beq_iff_eq] at h
      simp only [isAscii, List.all_cons, Bool.and_eq_true, decide_eq_true_eq] at hp ⊢
      refine ⟨lowerAscii_lt b (by rw [h.1]; exact hp.1), ?_⟩
      have := ih t (by simpa [isAscii] using hp.2) (by simpa [isName] using h.2)
      simpa [isAscii] using this

end RSVerif.Lemmas.Filter
