import RSVerif.Model.Rump
/-
Helper lemmas for C16 (rump). Core Lean only.
  1. the target: what SELECT / RESTORE / DEL / element commands / PEXPIRE do to one address and that they leave the others alone
  2. the sequential view of the writer (`ustep`) and the proof that the buffered writer (`writerStep`, `writeSend`) computes
     the same thing and leaves nothing unsent (`writer_abs`)
  3. correctness of the sequential writer over a list of nodes (`ufold_correct`)
  4. the receiver against the replies (`receiver_seg`)
  5. the fetcher: vanish events only remove keys; nodes of a page; pages consumed until the cursor is 0; key-file pages
-/
namespace RSVerif.Rump
open RSVerif RSVerif.Spec.MiniRedisC16

/-! ## 1. target -/

theorem execAll_append (M : Codec) (t : Target) (c : Conn) (a b : List Cmd) :
    t.execAll M c (a ++ b) =
      ((Target.execAll M (t.execAll M c a).1 c b).1, (t.execAll M c a).2 ++ (Target.execAll M (t.execAll M c a).1 c b).2) := by
  induction a generalizing t with
  | nil => simp [Target.execAll]
  | cons x xs ih => simp [Target.execAll, ih]

theorem execAll_length (M : Codec) (t : Target) (c : Conn) (a : List Cmd) :
    (t.execAll M c a).2.length = a.length := by
  induction a generalizing t with
  | nil => simp [Target.execAll]
  | cons x xs ih => simp [Target.execAll, ih]



theorem set_same (ks : Keyspace) (d : Nat) (k : Key) (e : Option Entry) : (ks.set d k e) d k = e := by
  simp [Keyspace.set]

theorem set_other (ks : Keyspace) (d d' : Nat) (k k' : Key) (e : Option Entry) (h : ¬(d' = d ∧ k' = k)) :
    (ks.set d k e) d' k' = ks d' k' := by
  simp [Keyspace.set, h]

/-- entry-level replay of element commands on one key -/
def replayE : Option Entry → List Elem → Option (Option Entry)
  | cur, [] => some cur
  | cur, e :: es => match elemEntry cur e with
    | none => none
    | some en => replayE (some en) es

theorem elemEntry_nottl (ov : Option Value) (e : Elem) :
    elemEntry (ov.map (fun v => (⟨v, none⟩ : Entry))) e = (e.apply ov).map (fun v => (⟨v, none⟩ : Entry)) := by
  unfold elemEntry
  cases ov <;> cases h : e.apply _ <;> simp_all <;> cases e <;> rfl

theorem replayE_nottl (ov : Option Value) (es : List Elem) :
    replayE (ov.map (fun v => (⟨v, none⟩ : Entry))) es = (replay ov es).map (fun r => r.map (fun v => (⟨v, none⟩ : Entry))) := by
  induction es generalizing ov with
  | nil => simp [replayE, replay]
  | cons e es ih =>
    simp only [replayE, replay, elemEntry_nottl]
    cases h : e.apply ov with
    | none => simp
    | some v => simpa using ih (some v)

/-- the element commands of one key arriving on the big-key connection -/
theorem execAll_elems (M : Codec) (t : Target) (k : Key) (es : List Elem) (r : Option Entry)
    (h : replayE (t.ks t.dbBig k) es = some r) :
    let o := t.execAll M .big (es.map (Cmd.elem k))
    o.1.ks t.dbBig k = r ∧ (∀ d k', ¬(d = t.dbBig ∧ k' = k) → o.1.ks d k' = t.ks d k') ∧
    o.1.dbMain = t.dbMain ∧ o.1.dbBig = t.dbBig ∧ (∀ x ∈ o.2, x.isErr = false) := by
  induction es generalizing t with
  | nil => simp [replayE] at h; simp [Target.execAll, h]
  | cons e es ih =>
    simp only [replayE] at h
    cases he : elemEntry (t.ks t.dbBig k) e with
    | none => simp [he] at h
    | some en =>
      simp only [he] at h
      generalize ht1 : ({ t with ks := t.ks.set t.dbBig k (some en) } : Target) = t1
      have hx : t.exec M .big (.elem k e) = (t1, elemReply e) := by
        simp only [Target.exec, Target.dbOf]
        rw [he, ← ht1]
      have hd : t1.dbBig = t.dbBig ∧ t1.dbMain = t.dbMain ∧ t1.ks = t.ks.set t.dbBig k (some en) := by
        subst ht1; exact ⟨rfl, rfl, rfl⟩
      have h1 : replayE (t1.ks t1.dbBig k) es = some r := by rw [hd.1, hd.2.2, set_same]; exact h
      have := ih t1 h1
      simp only [List.map_cons, Target.execAll, hx]
      rw [hd.1] at this
      refine ⟨this.1, ?_, this.2.2.1.trans hd.2.1, this.2.2.2.1, ?_⟩
      · intro d k' hne
        rw [this.2.1 d k' hne, hd.2.2]
        exact set_other _ _ _ _ _ _ hne
      · intro x hx'
        simp at hx'
        rcases hx' with rfl | hx'
        · cases e <;> rfl
        · exact this.2.2.2.2 x hx'


/-- time-to-live an entry ends with when the writer worked with `p` (≥ 0): 0 = none -/
def ttlOf (p : Int) : Option Nat := if p ≤ 0 then none else some p.toNat

/-- what may be written where: the key is absent, or the policy is rewrite (and, for a big key, the key is deleted first) -/
def Writable (fx : Fixes) (cfg : Config) (ks : Keyspace) (db : Nat) (k : Key) (big : Bool) : Prop :=
  ks db k = none ∨ (cfg.rewrite = true ∧ (big = false ∨ fx.bigDel = true))

theorem bigKeyT_correct (fx : Fixes) (cfg : Config) (M : Codec) (hM : M.Sound) (t : Target) (preBigDb : Nat)
    (k : Key) (value : Payload) (p : Int) (db : Nat) (v : Value) (es : List Elem)
    (hpre : t.dbBig = preBigDb) (hp : 0 ≤ p) (hes : M.expand value = some es) (hv : M.materialise value = some v)
    (hw : Writable fx cfg t.ks db k true) :
    let b := bigKeyT fx cfg M t preBigDb k value p db
    b.2.2 = false ∧ b.1.dbBig = db ∧ b.1.dbMain = t.dbMain ∧ b.1.ks db k = some ⟨v, ttlOf p⟩ ∧
    (∀ d k', ¬(d = db ∧ k' = k) → b.1.ks d k' = t.ks d k') := by
  obtain ⟨v', hv', hrep⟩ := hM value es hes
  have hvv : v' = v := by rw [hv] at hv'; exact (Option.some.inj hv').symm
  subst hvv
  -- after the optional select
  have h1 : ∀ sel : List Cmd, sel = (if db ≠ preBigDb then [Cmd.select db] else []) →
      (t.execAll M .big sel).1.dbBig = db ∧ (t.execAll M .big sel).1.dbMain = t.dbMain ∧
      (t.execAll M .big sel).1.ks = t.ks ∧ ∀ x ∈ (t.execAll M .big sel).2, x.isErr = false := by
    intro sel hs
    by_cases hd : db = preBigDb
    · simp [hs, hd, Target.execAll, hpre]
    · simp [hs, hd, Target.execAll, Target.exec, Reply.isErr]
  generalize hsel : (if db ≠ preBigDb then [Cmd.select db] else []) = sel at h1
  obtain ⟨a1, a2, a3, a4⟩ := h1 sel rfl
  generalize ht1 : (t.execAll M .big sel) = o1 at a1 a2 a3 a4
  -- after the optional del
  have h2 : ∀ dl : List Cmd, dl = (if fx.bigDel ∧ cfg.rewrite then [Cmd.del k] else []) →
      (o1.1.execAll M .big dl).1.dbBig = db ∧ (o1.1.execAll M .big dl).1.dbMain = t.dbMain ∧
      (o1.1.execAll M .big dl).1.ks db k = none ∧
      (∀ d k', ¬(d = db ∧ k' = k) → (o1.1.execAll M .big dl).1.ks d k' = t.ks d k') ∧
      ∀ x ∈ (o1.1.execAll M .big dl).2, x.isErr = false := by
    intro dl hdl
    by_cases hc : fx.bigDel = true ∧ cfg.rewrite = true
    · simp [hdl, hc, Target.execAll, Target.exec, Target.dbOf, a1, a2, a3, set_same, Reply.isErr]
      intro d k' hne
      exact set_other _ _ _ _ _ _ (by simpa using hne)
    · have hn : t.ks db k = none := by
        rcases hw with h | ⟨h1, h2⟩
        · exact h
        · exact absurd ⟨by simpa using h2, h1⟩ hc
      simp [hdl, hc, Target.execAll, a1, a2, a3, hn]
  generalize hdl : (if fx.bigDel ∧ cfg.rewrite then [Cmd.del k] else []) = dl at h2
  obtain ⟨b1, b2, b3, b4, b5⟩ := h2 dl rfl
  generalize ht2 : (o1.1.execAll M .big dl) = o2 at b1 b2 b3 b4 b5
  -- the element commands
  have hr : replayE (o2.1.ks o2.1.dbBig k) es = some (some ⟨v', none⟩) := by
    rw [b1, b3]
    have := replayE_nottl none es
    simpa [hrep] using this
  have h3 := execAll_elems M o2.1 k es _ hr
  generalize ht3 : (o2.1.execAll M .big (es.map (Cmd.elem k))) = o3 at h3
  rw [b1] at h3
  obtain ⟨c1, c2, c3, c4, c5⟩ := h3
  have hall : t.execAll M .big (bigCmds fx cfg preBigDb db k es) = (o3.1, o1.2 ++ o2.2 ++ o3.2) := by
    unfold bigCmds
    rw [hsel, hdl, execAll_append, execAll_append, ht1, ht2, ht3]
  have hnoerr : (o1.2 ++ o2.2 ++ o3.2).any Reply.isErr = false := by
    simp only [List.any_eq_false]
    intro x hx
    simp at hx
    rcases hx with hx | hx | hx
    · simp [a4 x hx]
    · simp [b5 x hx]
    · simp [c5 x hx]
  simp only [bigKeyT, hes, Option.getD_some, hall, hnoerr]
  by_cases hp0 : p > 0
  · have hex : (o3.1.exec M .big (.pexpire k p)) =
        ({ o3.1 with ks := o3.1.ks.set db k (some ⟨v', some p.toNat⟩) }, Reply.int 1) := by
      have : ¬ p ≤ 0 := by omega
      simp [Target.exec, Target.dbOf, c4, c1, this]
    simp [hp0, hex, set_same, c3, b2, c4, ttlOf, show ¬ p ≤ 0 by omega]
    intro d k' hne
    rw [set_other _ _ _ _ _ _ (by simpa using hne), c2 d k' (by simpa using hne), b4 d k' (by simpa using hne)]
  · have hp1 : p = 0 := by omega
    simp [c1, c3, b2, c4, ttlOf, hp1]
    intro d k' hne
    rw [c2 d k' (by simpa using hne), b4 d k' (by simpa using hne)]


theorem small_correct (fx : Fixes) (cfg : Config) (M : Codec) (t : Target) (preDb : Nat)
    (nd : KeyNode) (p : Int) (db : Nat) (v : Value)
    (hpre : t.dbMain = preDb) (hp : 0 ≤ p) (hv : M.materialise nd.value = some v)
    (hw : Writable fx cfg t.ks db nd.key false) :
    let o := t.execAll M .main (smallCmds cfg preDb db nd p)
    o.1.dbMain = db ∧ o.1.dbBig = t.dbBig ∧ o.1.ks db nd.key = some ⟨v, ttlOf p⟩ ∧
    (∀ d k', ¬(d = db ∧ k' = nd.key) → o.1.ks d k' = t.ks d k') ∧ (∀ x ∈ o.2, x.isErr = false) := by
  have hbusy : ¬((t.ks db nd.key).isSome = true ∧ cfg.rewrite = false) := by
    rcases hw with h | ⟨h, _⟩
    · simp [h]
    · simp [h]
  have hneg : ¬ p < 0 := by omega
  have httl : (if p = 0 then none else some p.toNat) = ttlOf p := by
    unfold ttlOf
    by_cases h0 : p = 0
    · simp [h0]
    · simp [h0, show ¬ p ≤ 0 by omega]
  by_cases hd : db = preDb
  · subst hd
    simp [smallCmds, Target.execAll, Target.exec, Target.dbOf, hpre, hbusy, hneg, hv, httl, set_same, Reply.isErr]
    intro d k' hne
    exact set_other _ _ _ _ _ _ (by simpa using hne)
  · simp [smallCmds, hd, Target.execAll, Target.exec, Target.dbOf, hbusy, hneg, hv, httl, set_same, Reply.isErr]
    intro d k' hne
    exact set_other _ _ _ _ _ _ (by simpa using hne)


/-! ## 2. buffered writer = sequential writer -/


/-- the sequential ("unbuffered") view of the writer -/
structure UState where
  tgt : Target
  preDb : Nat
  preBigDb : Nat
  replies : List Reply
  results : List RNode
  issued : List (Conn × Cmd)
  aborted : Bool

def ustep (fx : Fixes) (cfg : Config) (M : Codec) (u : UState) (nd : KeyNode) : UState :=
  if u.aborted then u
  else
    let pttl := effPttl fx nd.pttl
    if pttl = -2 then u
    else
      let db := targetDbOf cfg nd.db
      if nd.value.length ≥ cfg.bigThreshold then
        let b := bigKeyT fx cfg M u.tgt u.preBigDb nd.key nd.value pttl db
        { u with tgt := b.1, preBigDb := db, issued := u.issued ++ b.2.1.map (fun x => (Conn.big, x)), aborted := b.2.2 }
      else
        let cmds := smallCmds cfg u.preDb db nd pttl
        let r := u.tgt.execAll M .main cmds
        { u with tgt := r.1, preDb := db, replies := u.replies ++ r.2,
                 results := u.results ++ [⟨nd.key, if db ≠ u.preDb ∧ fx.selectCounted then 1 else 0⟩],
                 issued := u.issued ++ cmds.map (fun x => (Conn.main, x)) }

def wireCmds : List Wire → List (Conn × Cmd)
  | [] => []
  | .cmd c x :: ws => (c, x) :: wireCmds ws
  | .flush :: ws => wireCmds ws

theorem wireCmds_append (a b : List Wire) : wireCmds (a ++ b) = wireCmds a ++ wireCmds b := by
  induction a with
  | nil => rfl
  | cons w ws ih => cases w <;> simp [wireCmds, ih]

theorem wireCmds_map (c : Conn) (xs : List Cmd) : wireCmds (xs.map (Wire.cmd c)) = xs.map (fun x => (c, x)) := by
  induction xs with
  | nil => rfl
  | cons x xs ih => simp [wireCmds, ih]

def WState.abs (M : Codec) (s : WState) : UState :=
  ⟨(s.tgt.execAll M .main s.buf).1, s.preDb, s.preBigDb, s.replies ++ (s.tgt.execAll M .main s.buf).2,
   s.results ++ s.batch, wireCmds s.wire ++ s.buf.map (fun x => (Conn.main, x)), s.aborted⟩

/-- the buffer is non-empty only while the batch is -/
def WState.Inv (s : WState) : Prop := (s.batch = [] → s.buf = []) ∧ s.count = s.batch.length ∧ (s.aborted = true → s.batch = [])

theorem writeSend_abs (M : Codec) (s : WState) : (writeSend M s).abs M = s.abs M := by
  unfold writeSend
  split
  · rfl
  · simp [WState.abs, Target.execAll, wireCmds_append, wireCmds_map, wireCmds]

theorem writeSend_buf (M : Codec) (s : WState) (h : s.Inv) : (writeSend M s).buf = [] ∧ (writeSend M s).batch = [] ∧ (writeSend M s).count = 0 := by
  unfold writeSend
  split
  · rename_i hb; exact ⟨h.1 hb, hb, by rw [h.2.1, hb]; rfl⟩
  · simp

theorem writeSend_inv (M : Codec) (s : WState) (h : s.Inv) : (writeSend M s).Inv := by
  have := writeSend_buf M s h
  exact ⟨fun _ => this.1, by rw [this.2.2, this.2.1]; rfl, fun _ => this.2.1⟩

theorem writeSend_aborted (M : Codec) (s : WState) : (writeSend M s).aborted = s.aborted := by
  unfold writeSend; split <;> rfl
theorem writeSend_pre (M : Codec) (s : WState) : (writeSend M s).preDb = s.preDb ∧ (writeSend M s).preBigDb = s.preBigDb := by
  unfold writeSend; split <;> simp


theorem step_abs (fx : Fixes) (cfg : Config) (M : Codec) (s : WState) (nd : KeyNode) (h : s.Inv) :
    (writerStep fx cfg M s nd).abs M = ustep fx cfg M (s.abs M) nd ∧ (writerStep fx cfg M s nd).Inv := by
  unfold writerStep ustep
  by_cases ha : s.aborted = true
  · simp [ha, WState.abs, h]
  · have ha' : (s.abs M).aborted = false := by simpa [WState.abs] using ha
    simp only [ha, ha', if_false, Bool.false_eq_true]
    split
    · exact ⟨rfl, h⟩
    · split
      · -- big key
        have hb := writeSend_buf M s h
        have hab := writeSend_abs M s
        have hp := writeSend_pre M s
        have hi := writeSend_inv M s h
        refine ⟨?_, ?_⟩
        · rw [← hab]
          simp [bigKey, WState.abs, hb.1, hb.2.1, Target.execAll, wireCmds_append, wireCmds_map]
        · simp [bigKey, WState.Inv, hb.1, hb.2.1, hb.2.2]
      · -- small key
        have hi : (smallKey fx cfg s nd (effPttl fx nd.pttl) (targetDbOf cfg nd.db)).Inv := by
          have ha2 : s.aborted = false := by simpa using ha
          simp [WState.Inv, smallKey, h.2.1, ha2]
        have key : ∀ s1 : WState, s1.Inv → ((flushIfFull cfg M s1).abs M = s1.abs M ∧ (flushIfFull cfg M s1).Inv) := by
          intro s1 h1
          unfold flushIfFull
          split
          · exact ⟨writeSend_abs M s1, writeSend_inv M s1 h1⟩
          · exact ⟨rfl, h1⟩
        refine ⟨?_, (key _ hi).2⟩
        rw [(key _ hi).1]
        have ha2 : s.aborted = false := by simpa using ha
        simp [WState.abs, smallKey, execAll_append, List.append_assoc, ha2]


theorem fold_abs (fx : Fixes) (cfg : Config) (M : Codec) (nodes : List KeyNode) (s : WState) (h : s.Inv) :
    (nodes.foldl (writerStep fx cfg M) s).abs M = nodes.foldl (ustep fx cfg M) (s.abs M) ∧
    (nodes.foldl (writerStep fx cfg M) s).Inv := by
  induction nodes generalizing s with
  | nil => exact ⟨rfl, h⟩
  | cons nd nds ih =>
    have := step_abs fx cfg M s nd h
    simp only [List.foldl_cons]
    rw [← this.1]
    exact ih _ this.2

def UState.init (t : Target) : UState := ⟨t, 0, 0, [], [], [], false⟩

theorem init_inv (t : Target) : (WState.init t).Inv := by simp [WState.Inv, WState.init]

/-- the buffered writer computes what the sequential one does, and leaves nothing unsent -/
theorem writer_abs (fx : Fixes) (cfg : Config) (M : Codec) (t : Target) (nodes : List KeyNode) :
    (writer fx cfg M t nodes).abs M = nodes.foldl (ustep fx cfg M) (UState.init t) ∧
    (writer fx cfg M t nodes).buf = [] ∧ (writer fx cfg M t nodes).batch = [] := by
  have h := fold_abs fx cfg M nodes (WState.init t) (init_inv t)
  have h0 : (WState.init t).abs M = UState.init t := by simp [WState.abs, WState.init, UState.init, Target.execAll, wireCmds]
  rw [h0] at h
  simp only [writer]
  by_cases ha : (nodes.foldl (writerStep fx cfg M) (WState.init t)).aborted = true
  · rw [if_pos ha]
    exact ⟨h.1, h.2.1 (h.2.2.2 ha), h.2.2.2 ha⟩
  · rw [if_neg ha]
    have hb := writeSend_buf M _ h.2
    exact ⟨(writeSend_abs M _).trans h.1, hb.1, hb.2.1⟩



/-! ## 3. correctness of the sequential writer -/


theorem effPttl_eq_neg2 (fx : Fixes) (p : Int) : effPttl fx p = -2 ↔ p = -2 := by
  unfold effPttl
  by_cases h0 : fx.pttlZero = true ∧ p = 0
  · simp [h0]
  · by_cases h1 : p = -1
    · simp [h1]
    · simp [h0, h1]

theorem effPttl_nonneg (fx : Fixes) (p : Int) (h : -2 ≤ p) (h2 : p ≠ -2) : 0 ≤ effPttl fx p := by
  unfold effPttl
  by_cases h0 : fx.pttlZero = true ∧ p = 0
  · simp [h0]
  · by_cases h1 : p = -1
    · simp [h1]
    · simp only [h0, h1, if_false]; omega

structure UGood (u : UState) : Prop where
  running : u.aborted = false
  main : u.tgt.dbMain = u.preDb
  big : u.tgt.dbBig = u.preBigDb
  noerr : ∀ r ∈ u.replies, r.isErr = false

def isBig (cfg : Config) (nd : KeyNode) : Bool := decide (nd.value.length ≥ cfg.bigThreshold)

/-- PTTL answers are ≥ -2; a node that is not skipped carries a payload the target accepts and, on the big-key route,
    one that the element-wise expansion can decode -/
def NodeOk (cfg : Config) (M : Codec) (nd : KeyNode) : Prop :=
  -2 ≤ nd.pttl ∧ (nd.pttl ≠ -2 → (∃ v, M.materialise nd.value = some v) ∧
    (isBig cfg nd = true → ∃ es, M.expand nd.value = some es))

/-- the entry the writer leaves for a node that is not skipped -/
def expectOf (fx : Fixes) (M : Codec) (nd : KeyNode) : Option Entry :=
  (M.materialise nd.value).map fun v => ⟨v, ttlOf (effPttl fx nd.pttl)⟩

theorem ustep_dead (fx : Fixes) (cfg : Config) (M : Codec) (u : UState) (nd : KeyNode) (h : nd.pttl = -2) :
    ustep fx cfg M u nd = u := by
  unfold ustep
  simp [(effPttl_eq_neg2 fx nd.pttl).2 h]

theorem ustep_live (fx : Fixes) (cfg : Config) (M : Codec) (hM : M.Sound) (u : UState) (nd : KeyNode)
    (hg : UGood u) (hlive : nd.pttl ≠ -2) (hok : NodeOk cfg M nd)
    (hw : Writable fx cfg u.tgt.ks (targetDbOf cfg nd.db) nd.key (isBig cfg nd)) :
    let u' := ustep fx cfg M u nd
    UGood u' ∧ u'.tgt.ks (targetDbOf cfg nd.db) nd.key = expectOf fx M nd ∧
    (∀ d k', ¬(d = targetDbOf cfg nd.db ∧ k' = nd.key) → u'.tgt.ks d k' = u.tgt.ks d k') := by
  obtain ⟨hge, hrest⟩ := hok
  obtain ⟨⟨v, hv⟩, hbig⟩ := hrest hlive
  have hp := effPttl_nonneg fx nd.pttl hge hlive
  have hne : ¬ effPttl fx nd.pttl = -2 := fun h => hlive ((effPttl_eq_neg2 fx nd.pttl).1 h)
  unfold ustep
  simp only [hg.running, hne, if_false, Bool.false_eq_true, expectOf, hv, Option.map_some]
  by_cases hb : nd.value.length ≥ cfg.bigThreshold
  · have hb' : isBig cfg nd = true := by simp [isBig, hb]
    obtain ⟨es, hes⟩ := hbig hb'
    rw [hb'] at hw
    have := bigKeyT_correct fx cfg M hM u.tgt u.preBigDb nd.key nd.value (effPttl fx nd.pttl) (targetDbOf cfg nd.db) v es
      hg.big hp hes hv hw
    simp only [hb, if_true]
    obtain ⟨c1, c2, c3, c4, c5⟩ := this
    exact ⟨⟨c1, c3.trans hg.main, c2, hg.noerr⟩, c4, c5⟩
  · have hb' : isBig cfg nd = false := by simp [isBig, hb]
    rw [hb'] at hw
    have := small_correct fx cfg M u.tgt u.preDb nd (effPttl fx nd.pttl) (targetDbOf cfg nd.db) v hg.main hp hv hw
    simp only [hb, if_false]
    obtain ⟨c1, c2, c3, c4, c5⟩ := this
    refine ⟨⟨rfl, c1, c2.trans hg.big, ?_⟩, c3, c4⟩
    intro r hr
    simp at hr
    rcases hr with hr | hr
    · exact hg.noerr r hr
    · exact c5 r hr


/-- target addresses of the nodes that are not skipped -/
def liveAddrs (cfg : Config) (nodes : List KeyNode) : List (Nat × Key) :=
  (nodes.filter (fun nd => decide (nd.pttl ≠ -2))).map (fun nd => (targetDbOf cfg nd.db, nd.key))

theorem mem_liveAddrs (cfg : Config) (nodes : List KeyNode) (nd : KeyNode) (h : nd ∈ nodes) (hl : nd.pttl ≠ -2) :
    (targetDbOf cfg nd.db, nd.key) ∈ liveAddrs cfg nodes := by
  simp only [liveAddrs, List.mem_map, List.mem_filter]
  exact ⟨nd, ⟨h, by simpa using hl⟩, rfl⟩

theorem ufold_correct (fx : Fixes) (cfg : Config) (M : Codec) (hM : M.Sound) (nodes : List KeyNode) (u : UState)
    (hg : UGood u) (hok : ∀ nd ∈ nodes, NodeOk cfg M nd) (hnd : (liveAddrs cfg nodes).Nodup)
    (hw : ∀ nd ∈ nodes, nd.pttl ≠ -2 → Writable fx cfg u.tgt.ks (targetDbOf cfg nd.db) nd.key (isBig cfg nd)) :
    UGood (nodes.foldl (ustep fx cfg M) u) ∧
    (∀ nd ∈ nodes, nd.pttl ≠ -2 →
      (nodes.foldl (ustep fx cfg M) u).tgt.ks (targetDbOf cfg nd.db) nd.key = expectOf fx M nd) ∧
    (∀ d k, (d, k) ∉ liveAddrs cfg nodes → (nodes.foldl (ustep fx cfg M) u).tgt.ks d k = u.tgt.ks d k) := by
  induction nodes generalizing u with
  | nil => exact ⟨hg, by simp, by simp⟩
  | cons nd nds ih =>
    simp only [List.foldl_cons]
    by_cases hl : nd.pttl = -2
    · rw [ustep_dead fx cfg M u nd hl]
      have hla : liveAddrs cfg (nd :: nds) = liveAddrs cfg nds := by simp [liveAddrs, hl]
      rw [hla] at hnd ⊢
      have := ih u hg (fun x hx => hok x (List.mem_cons_of_mem _ hx)) hnd
        (fun x hx => hw x (List.mem_cons_of_mem _ hx))
      refine ⟨this.1, ?_, this.2.2⟩
      intro x hx hxl
      rcases List.mem_cons.1 hx with rfl | hx
      · exact absurd hl hxl
      · exact this.2.1 x hx hxl
    · have hla : liveAddrs cfg (nd :: nds) = (targetDbOf cfg nd.db, nd.key) :: liveAddrs cfg nds := by
        simp [liveAddrs, hl]
      rw [hla] at hnd ⊢
      obtain ⟨hnotin, hnd'⟩ := List.nodup_cons.1 hnd
      obtain ⟨g1, g2, g3⟩ := ustep_live fx cfg M hM u nd hg hl (hok nd List.mem_cons_self) (hw nd List.mem_cons_self hl)
      have hw' : ∀ x ∈ nds, x.pttl ≠ -2 →
          Writable fx cfg (ustep fx cfg M u nd).tgt.ks (targetDbOf cfg x.db) x.key (isBig cfg x) := by
        intro x hx hxl
        have hmem := mem_liveAddrs cfg nds x hx hxl
        have hne : ¬(targetDbOf cfg x.db = targetDbOf cfg nd.db ∧ x.key = nd.key) := by
          intro ⟨h1, h2⟩
          apply hnotin
          rw [← h1, ← h2]; exact hmem
        have := hw x (List.mem_cons_of_mem _ hx) hxl
        unfold Writable at this ⊢
        rw [g3 _ _ hne]
        exact this
      have := ih (ustep fx cfg M u nd) g1 (fun x hx => hok x (List.mem_cons_of_mem _ hx)) hnd' hw'
      refine ⟨this.1, ?_, ?_⟩
      · intro x hx hxl
        rcases List.mem_cons.1 hx with rfl | hx
        · rw [this.2.2 _ _ hnotin]; exact g2
        · exact this.2.1 x hx hxl
      · intro d k hdk
        simp only [List.mem_cons, not_or] at hdk
        rw [this.2.2 d k hdk.2]
        apply g3
        intro ⟨h1, h2⟩
        exact hdk.1 (by rw [h1, h2])


/-! ## 4. receiver -/


/-- the replies on the main connection, cut into the groups the receiver consumes per element of resultChan -/
inductive Seg : List RNode → List Reply → Prop
  | nil : Seg [] []
  | cons (nd : RNode) (rs : List Reply) (nds : List RNode) (rest : List Reply) :
      rs.length = 1 + nd.pre → Seg nds rest → Seg (nd :: nds) (rs ++ rest)

theorem Seg.append {a b : List RNode} {ra rb : List Reply} (h1 : Seg a ra) (h2 : Seg b rb) : Seg (a ++ b) (ra ++ rb) := by
  induction h1 with
  | nil => simpa using h2
  | cons nd rs nds rest hl _ ih =>
    rw [List.cons_append, List.append_assoc]
    exact Seg.cons nd rs _ _ hl ih

theorem Seg.single (nd : RNode) (rs : List Reply) (h : rs.length = 1 + nd.pre) : Seg [nd] rs := by
  have := Seg.cons nd rs [] [] h Seg.nil
  simpa using this

theorem takeReplies_append (n : Nat) (rs rest : List Reply) (h : rs.length = n) :
    takeReplies n (rs ++ rest) = if rs.any Reply.isErr then
        Take.err ((rs ++ rest).drop ((rs.takeWhile (fun r => !r.isErr)).length + 1))
      else Take.ok rest := by
  induction rs generalizing n with
  | nil => subst h; simp [takeReplies]
  | cons r rs ih =>
    subst h
    simp only [List.length_cons, List.cons_append, takeReplies]
    by_cases hr : r.isErr = true
    · simp [hr, List.takeWhile]
    · have hr' : r.isErr = false := by simpa using hr
      simp only [hr', Bool.false_eq_true, if_false, List.any_cons, Bool.false_or]
      rw [ih rs.length rfl]
      simp [List.takeWhile, hr']

theorem receiver_seg (nds : List RNode) (rs : List Reply) (c : Nat) (h : Seg nds rs) :
    (receiver nds rs c).starved = false ∧ (receiver nds rs c).aborted = rs.any Reply.isErr ∧
    ((receiver nds rs c).aborted = false → (receiver nds rs c).unread = [] ∧ (receiver nds rs c).confirmed = c + nds.length) := by
  induction h generalizing c with
  | nil => simp [receiver]
  | cons nd rs nds rest hl _ ih =>
    simp only [receiver]
    rw [takeReplies_append _ rs rest hl]
    by_cases he : rs.any Reply.isErr = true
    · simp [he]
    · have he' : rs.any Reply.isErr = false := by simpa using he
      simp only [he', Bool.false_eq_true, if_false, List.any_append, Bool.false_or]
      have := ih (c + 1)
      refine ⟨this.1, this.2.1, ?_⟩
      intro ha
      have := this.2.2 ha
      refine ⟨this.1, ?_⟩
      rw [this.2]; simp; omega

theorem ustep_seg (fx : Fixes) (cfg : Config) (M : Codec) (u : UState) (nd : KeyNode) (hfx : fx.selectCounted = true)
    (h : Seg u.results u.replies) : Seg (ustep fx cfg M u nd).results (ustep fx cfg M u nd).replies := by
  unfold ustep
  by_cases ha : u.aborted = true
  · simpa [ha] using h
  · by_cases hp : effPttl fx nd.pttl = -2
    · simpa [ha, hp] using h
    · by_cases hb : nd.value.length ≥ cfg.bigThreshold
      · simpa [ha, hp, hb] using h
      · simp only [ha, hp, hb, if_false, Bool.false_eq_true]
        refine Seg.append h (Seg.single _ _ ?_)
        simp only [execAll_length, smallCmds, hfx, and_true]
        split <;> simp

theorem ufold_seg (fx : Fixes) (cfg : Config) (M : Codec) (nodes : List KeyNode) (u : UState) (hfx : fx.selectCounted = true)
    (h : Seg u.results u.replies) :
    Seg (nodes.foldl (ustep fx cfg M) u).results (nodes.foldl (ustep fx cfg M) u).replies := by
  induction nodes generalizing u with
  | nil => exact h
  | cons nd nds ih => exact ih _ (ustep_seg fx cfg M u nd hfx h)

theorem writer_results_replies (fx : Fixes) (cfg : Config) (M : Codec) (t : Target) (nodes : List KeyNode) :
    (writer fx cfg M t nodes).results = (nodes.foldl (ustep fx cfg M) (UState.init t)).results ∧
    (writer fx cfg M t nodes).replies = (nodes.foldl (ustep fx cfg M) (UState.init t)).replies ∧
    (writer fx cfg M t nodes).tgt = (nodes.foldl (ustep fx cfg M) (UState.init t)).tgt ∧
    (writer fx cfg M t nodes).aborted = (nodes.foldl (ustep fx cfg M) (UState.init t)).aborted ∧
    wireCmds (writer fx cfg M t nodes).wire = (nodes.foldl (ustep fx cfg M) (UState.init t)).issued := by
  obtain ⟨h1, h2, h3⟩ := writer_abs fx cfg M t nodes
  rw [← h1]
  simp [WState.abs, h2, h3, Target.execAll]




theorem ustep_of_aborted (fx : Fixes) (cfg : Config) (M : Codec) (u : UState) (nd : KeyNode) (h : u.aborted = true) :
    ustep fx cfg M u nd = u := by
  simp [ustep, h]

theorem ufold_of_aborted (fx : Fixes) (cfg : Config) (M : Codec) (nodes : List KeyNode) (u : UState) (h : u.aborted = true) :
    nodes.foldl (ustep fx cfg M) u = u := by
  induction nodes with
  | nil => rfl
  | cons nd nds ih => rw [List.foldl_cons, ustep_of_aborted _ _ _ _ _ h, ih]

theorem ustep_issued_mono (fx : Fixes) (cfg : Config) (M : Codec) (u : UState) (nd : KeyNode) (x : Conn × Cmd)
    (h : x ∈ u.issued) : x ∈ (ustep fx cfg M u nd).issued := by
  unfold ustep
  by_cases ha : u.aborted = true
  · simpa [ha] using h
  · by_cases hp : effPttl fx nd.pttl = -2
    · simpa [ha, hp] using h
    · by_cases hb : nd.value.length ≥ cfg.bigThreshold
      · simp [ha, hp, hb, h]
      · simp [ha, hp, hb, h]

theorem ufold_issued_mono (fx : Fixes) (cfg : Config) (M : Codec) (nodes : List KeyNode) (u : UState) (x : Conn × Cmd)
    (h : x ∈ u.issued) : x ∈ (nodes.foldl (ustep fx cfg M) u).issued := by
  induction nodes generalizing u with
  | nil => exact h
  | cons nd nds ih => exact ih _ (ustep_issued_mono fx cfg M u nd x h)

/-- the elements handed to the receiver: one per node that is neither skipped nor big -/
def smallLive (cfg : Config) (nodes : List KeyNode) : List KeyNode :=
  nodes.filter fun nd => decide (nd.pttl ≠ -2) && !isBig cfg nd

theorem ufold_results (fx : Fixes) (cfg : Config) (M : Codec) (nodes : List KeyNode) (u : UState)
    (h : (nodes.foldl (ustep fx cfg M) u).aborted = false) :
    (nodes.foldl (ustep fx cfg M) u).results.map (·.key) = u.results.map (·.key) ++ (smallLive cfg nodes).map (·.key) ∧
    ∀ nd ∈ smallLive cfg nodes,
      (Conn.main, Cmd.restore nd.key (effPttl fx nd.pttl) nd.value cfg.rewrite) ∈ (nodes.foldl (ustep fx cfg M) u).issued := by
  induction nodes generalizing u with
  | nil => simp [smallLive]
  | cons nd nds ih =>
    simp only [List.foldl_cons] at h ⊢
    have ha : u.aborted = false := by
      cases hu : u.aborted with
      | false => rfl
      | true => rw [ustep_of_aborted _ _ _ _ _ hu, ufold_of_aborted _ _ _ _ _ hu] at h; rw [hu] at h; exact h
    have := ih _ h
    by_cases hp : nd.pttl = -2
    · rw [ustep_dead fx cfg M u nd hp] at this ⊢
      have hs : smallLive cfg (nd :: nds) = smallLive cfg nds := by simp [smallLive, hp]
      rw [hs]; exact this
    · have hp' : ¬ effPttl fx nd.pttl = -2 := fun h => hp ((effPttl_eq_neg2 fx nd.pttl).1 h)
      by_cases hb : nd.value.length ≥ cfg.bigThreshold
      · have hs : smallLive cfg (nd :: nds) = smallLive cfg nds := by simp [smallLive, isBig, hb]
        rw [hs]
        refine ⟨?_, this.2⟩
        rw [this.1]
        simp [ustep, ha, hp', hb]
      · have hs : smallLive cfg (nd :: nds) = nd :: smallLive cfg nds := by simp [smallLive, isBig, hb, hp]
        rw [hs]
        refine ⟨?_, ?_⟩
        · rw [this.1]
          simp [ustep, ha, hp', hb]
        · intro x hx
          rcases List.mem_cons.1 hx with rfl | hx
          · apply ufold_issued_mono
            simp [ustep, ha, hp', hb, smallCmds]
          · exact this.2 x hx

theorem mem_wireCmds (w : List Wire) (c : Conn) (x : Cmd) : (c, x) ∈ wireCmds w ↔ Wire.cmd c x ∈ w := by
  induction w with
  | nil => simp [wireCmds]
  | cons y ys ih => cases y <;> simp [wireCmds, ih]



/-! ## 5. fetcher -/


/-- `a` is `b` with some keys removed -/
def SLe (a b : SKeyspace) : Prop := ∀ d k e, a d k = some e → b d k = some e

theorem SLe.refl (a : SKeyspace) : SLe a a := fun _ _ _ h => h
theorem SLe.trans {a b c : SKeyspace} (h1 : SLe a b) (h2 : SLe b c) : SLe a c := fun d k e h => h2 d k e (h1 d k e h)

theorem vanish_le (ks : SKeyspace) (vs : List (Nat × Key)) : SLe (ks.vanish vs) ks := by
  intro d k e h
  unfold SKeyspace.vanish at h
  split at h
  · cases h
  · exact h

theorem dumpAll_le (db : Nat) (ks : SKeyspace) (keys : List Key) (evs : List (List (Nat × Key))) :
    SLe (dumpAll db ks keys evs).2 ks := by
  induction keys generalizing ks evs with
  | nil => exact SLe.refl _
  | cons k rest ih => exact (ih _ _).trans (vanish_le _ _)

theorem pttlAll_le (db : Nat) (ks : SKeyspace) (keys : List Key) (evs : List (List (Nat × Key))) :
    SLe (pttlAll db ks keys evs).2 ks := by
  induction keys generalizing ks evs with
  | nil => exact SLe.refl _
  | cons k rest ih => exact (ih _ _).trans (vanish_le _ _)

theorem dumpAll_length (db : Nat) (ks : SKeyspace) (keys : List Key) (evs : List (List (Nat × Key))) :
    (dumpAll db ks keys evs).1.length = keys.length := by
  induction keys generalizing ks evs with
  | nil => rfl
  | cons k rest ih => simp [dumpAll, ih]

theorem pttlAll_length (db : Nat) (ks : SKeyspace) (keys : List Key) (evs : List (List (Nat × Key))) :
    (pttlAll db ks keys evs).1.length = keys.length := by
  induction keys generalizing ks evs with
  | nil => rfl
  | cons k rest ih => simp [pttlAll, ih]

theorem SEntry.pttl_ge (e : SEntry) : -1 ≤ e.pttl := by
  unfold SEntry.pttl; split <;> omega

theorem pttl_of_some (ks : SKeyspace) (db : Nat) (k : Key) (e : SEntry) (h : ks db k = some e) : ks.pttl db k = e.pttl := by
  simp [SKeyspace.pttl, h]

theorem mkNodes_keys (db : Nat) (keys : List Key) (ds : List (Option Payload)) (ts : List Int)
    (h1 : ds.length = keys.length) (h2 : ts.length = keys.length) : (mkNodes db keys ds ts).map (·.key) = keys := by
  induction keys generalizing ds ts with
  | nil => simp [mkNodes]
  | cons k rest ih =>
    cases ds with
    | nil => simp at h1
    | cons d ds =>
      cases ts with
      | nil => simp at h2
      | cons t ts => simp [mkNodes, ih ds ts (by simpa using h1) (by simpa using h2)]

/-- a key that survives every vanish event of the page is fetched with its payload and its PTTL -/
theorem mkNodes_mem (db : Nat) (keys : List Key) (ksa ksb : SKeyspace) (evD evP : List (List (Nat × Key)))
    (ksF : SKeyspace) (k : Key) (e : SEntry) (hk : k ∈ keys)
    (hFa : SLe ksF (dumpAll db ksa keys evD).2) (hFb : SLe ksF (pttlAll db ksb keys evP).2) (he : ksF db k = some e) :
    (⟨k, e.payload, e.pttl, db⟩ : KeyNode) ∈ mkNodes db keys (dumpAll db ksa keys evD).1 (pttlAll db ksb keys evP).1 := by
  induction keys generalizing ksa ksb evD evP with
  | nil => cases hk
  | cons k0 rest ih =>
    simp only [dumpAll, pttlAll, mkNodes] at hFa hFb ⊢
    generalize evD.headD [] = vD at *
    generalize evP.headD [] = vP at *
    rcases List.mem_cons.1 hk with rfl | hk
    · have ha := (hFa.trans (dumpAll_le _ _ _ _)) db k e he
      have hb := (hFb.trans (pttlAll_le _ _ _ _)) db k e he
      simp [SKeyspace.dump, ha, pttl_of_some _ _ _ _ hb]
    · exact List.mem_cons_of_mem _ (ih _ _ _ _ hk hFa hFb)

/-- every fetched node is a key of the page; unless its PTTL is -2 it carries the payload and PTTL the key had -/
theorem mkNodes_sound (db : Nat) (keys : List Key) (ksa ksb : SKeyspace) (evD evP : List (List (Nat × Key)))
    (hba : SLe ksb (dumpAll db ksa keys evD).2) (nd : KeyNode)
    (hnd : nd ∈ mkNodes db keys (dumpAll db ksa keys evD).1 (pttlAll db ksb keys evP).1) :
    nd.db = db ∧ nd.key ∈ keys ∧ -2 ≤ nd.pttl ∧
    (nd.pttl ≠ -2 → ∃ e, ksa db nd.key = some e ∧ nd.value = e.payload ∧ nd.pttl = e.pttl) := by
  induction keys generalizing ksa ksb evD evP with
  | nil => simp [mkNodes] at hnd
  | cons k0 rest ih =>
    simp only [dumpAll, pttlAll, mkNodes] at hba hnd
    generalize evD.headD [] = vD at *
    generalize evP.headD [] = vP at *
    rcases List.mem_cons.1 hnd with rfl | hnd
    · refine ⟨rfl, List.mem_cons_self, ?_, ?_⟩
      · simp only [SKeyspace.pttl]
        split
        · omega
        · have := SEntry.pttl_ge ‹_›; omega
      · intro hne
        cases hb : (ksb.vanish vP) db k0 with
        | none => simp [SKeyspace.pttl, hb] at hne
        | some e =>
          have h1 : (ksa.vanish vD) db k0 = some e :=
            dumpAll_le _ _ _ _ db k0 e (hba db k0 e (vanish_le _ _ db k0 e hb))
          refine ⟨e, vanish_le _ _ db k0 e h1, ?_, ?_⟩
          · simp [SKeyspace.dump, h1]
          · exact pttl_of_some _ _ _ _ hb
    · have := ih _ _ _ _ ((vanish_le _ _).trans hba) hnd
      refine ⟨this.1, List.mem_cons_of_mem _ this.2.1, this.2.2.1, ?_⟩
      intro hne
      obtain ⟨e, h1, h2, h3⟩ := this.2.2.2 hne
      exact ⟨e, vanish_le _ _ db _ e h1, h2, h3⟩


theorem fetchPage_le (cfg : Config) (db : Nat) (ks : SKeyspace) (pg : Page) : SLe (fetchPage cfg db ks pg).2 ks :=
  (pttlAll_le _ _ _ _).trans (dumpAll_le _ _ _ _)

theorem fetchPage_keys (cfg : Config) (db : Nat) (ks : SKeyspace) (pg : Page) :
    (fetchPage cfg db ks pg).1.map (·.key) = pageKeys cfg pg.keys :=
  mkNodes_keys _ _ _ _ (dumpAll_length _ _ _ _) (pttlAll_length _ _ _ _)

theorem fetchPage_mem (cfg : Config) (db : Nat) (ks ksF : SKeyspace) (pg : Page) (k : Key) (e : SEntry)
    (hk : k ∈ pageKeys cfg pg.keys) (hF : SLe ksF (fetchPage cfg db ks pg).2) (he : ksF db k = some e) :
    (⟨k, e.payload, e.pttl, db⟩ : KeyNode) ∈ (fetchPage cfg db ks pg).1 :=
  mkNodes_mem db _ _ _ _ _ ksF k e hk (hF.trans (pttlAll_le _ _ _ _)) hF he

theorem fetchPage_sound (cfg : Config) (db : Nat) (ks : SKeyspace) (pg : Page) (nd : KeyNode)
    (hnd : nd ∈ (fetchPage cfg db ks pg).1) :
    nd.db = db ∧ nd.key ∈ pageKeys cfg pg.keys ∧ -2 ≤ nd.pttl ∧
    (nd.pttl ≠ -2 → ∃ e, ks db nd.key = some e ∧ nd.value = e.payload ∧ nd.pttl = e.pttl) :=
  mkNodes_sound db _ _ _ _ _ (SLe.refl _) nd hnd

theorem fetchPages_le (cfg : Config) (eofOk : Bool) (db : Nat) (ks : SKeyspace) (pages : List Page) :
    SLe (fetchPages cfg eofOk db ks pages).ks ks := by
  induction pages generalizing ks with
  | nil => exact SLe.refl _
  | cons pg rest ih =>
    simp only [fetchPages]
    split
    · exact fetchPage_le _ _ _ _
    · exact (ih _).trans (fetchPage_le _ _ _ _)

theorem fetchPages_keys (cfg : Config) (eofOk : Bool) (db : Nat) (ks : SKeyspace) (pages : List Page) :
    (fetchPages cfg eofOk db ks pages).nodes.map (·.key) = (consumed pages).flatMap (fun pg => pageKeys cfg pg.keys) := by
  induction pages generalizing ks with
  | nil => rfl
  | cons pg rest ih =>
    simp only [fetchPages, consumed]
    split
    · simp [fetchPage_keys]
    · simp [fetchPage_keys, ih]

theorem fetchPages_mem (cfg : Config) (eofOk : Bool) (db : Nat) (ks ksF : SKeyspace) (pages : List Page) (pg : Page)
    (k : Key) (e : SEntry) (hpg : pg ∈ consumed pages) (hk : k ∈ pageKeys cfg pg.keys)
    (hF : SLe ksF (fetchPages cfg eofOk db ks pages).ks) (he : ksF db k = some e) :
    (⟨k, e.payload, e.pttl, db⟩ : KeyNode) ∈ (fetchPages cfg eofOk db ks pages).nodes := by
  induction pages generalizing ks with
  | nil => cases hpg
  | cons p rest ih =>
    simp only [fetchPages, consumed] at hpg hF ⊢
    split at hpg
    · rename_i hz
      simp only [hz, if_true] at hF ⊢
      rw [List.mem_singleton.1 hpg] at hk
      exact fetchPage_mem cfg db ks ksF p k e hk hF he
    · rename_i hz
      simp only [hz, if_false] at hF ⊢
      rcases List.mem_cons.1 hpg with rfl | hpg
      · exact List.mem_append_left _ (fetchPage_mem cfg db ks ksF _ k e hk (hF.trans (fetchPages_le _ _ _ _ _)) he)
      · exact List.mem_append_right _ (ih _ hpg hF)

theorem fetchPages_sound (cfg : Config) (eofOk : Bool) (db : Nat) (ks : SKeyspace) (pages : List Page) (nd : KeyNode)
    (hnd : nd ∈ (fetchPages cfg eofOk db ks pages).nodes) :
    nd.db = db ∧ (∃ pg ∈ consumed pages, nd.key ∈ pageKeys cfg pg.keys) ∧ -2 ≤ nd.pttl ∧
    (nd.pttl ≠ -2 → ∃ e, ks db nd.key = some e ∧ nd.value = e.payload ∧ nd.pttl = e.pttl) := by
  induction pages generalizing ks with
  | nil => simp [fetchPages] at hnd
  | cons p rest ih =>
    simp only [fetchPages, consumed] at hnd ⊢
    by_cases hz : p.cursor = 0
    · simp only [hz, if_true] at hnd ⊢
      obtain ⟨h1, h2, h3, h4⟩ := fetchPage_sound cfg db ks p nd hnd
      exact ⟨h1, ⟨p, List.mem_singleton.2 rfl, h2⟩, h3, h4⟩
    · simp only [hz, if_false] at hnd ⊢
      rcases List.mem_append.1 hnd with hnd | hnd
      · obtain ⟨h1, h2, h3, h4⟩ := fetchPage_sound cfg db ks p nd hnd
        exact ⟨h1, ⟨p, List.mem_cons_self, h2⟩, h3, h4⟩
      · obtain ⟨h1, ⟨q, hq, h2⟩, h3, h4⟩ := ih _ hnd
        refine ⟨h1, ⟨q, List.mem_cons_of_mem _ hq, h2⟩, h3, ?_⟩
        intro hne
        obtain ⟨e, e1, e2, e3⟩ := h4 hne
        exact ⟨e, fetchPage_le cfg db ks p db _ e e1, e2, e3⟩

theorem fetchPages_ctl (cfg : Config) (eofOk : Bool) (db : Nat) (ks : SKeyspace) (pages : List Page) :
    (fetchPages cfg eofOk db ks pages).ok = pagesOk eofOk pages ∧
    (fetchPages cfg eofOk db ks pages).rest = pagesRest pages ∧
    (fetchPages cfg eofOk db ks pages).scans = (consumed pages).length + (if pages.any (fun pg => pg.cursor = 0) then 0 else 1) := by
  induction pages generalizing ks with
  | nil => simp [fetchPages, pagesOk, pagesRest, consumed]
  | cons p rest ih =>
    simp only [fetchPages, consumed, pagesRest]
    by_cases hz : p.cursor = 0
    · simp [hz, pagesOk]
    · have := ih (fetchPage cfg db ks p).2
      simp only [hz, if_false, this, pagesOk, List.any_cons, decide_false, Bool.false_or, List.length_cons, true_and]
      omega


theorem fetchPages_addrs (cfg : Config) (eofOk : Bool) (db : Nat) (ks : SKeyspace) (pages : List Page) :
    (fetchPages cfg eofOk db ks pages).nodes.map (fun nd => (nd.db, nd.key)) =
      (consumed pages).flatMap (fun pg => (pageKeys cfg pg.keys).map (fun k => (db, k))) := by
  have h1 : (fetchPages cfg eofOk db ks pages).nodes.map (fun nd => (nd.db, nd.key)) =
      ((fetchPages cfg eofOk db ks pages).nodes.map (·.key)).map (fun k => (db, k)) := by
    rw [List.map_map]
    apply List.map_congr_left
    intro nd hnd
    simp [(fetchPages_sound cfg eofOk db ks pages nd hnd).1]
  rw [h1, fetchPages_keys, List.map_flatMap]

theorem fetcher_le (cfg : Config) (src : ScanSrc) (ks : SKeyspace) (dbs : List Nat) : SLe (fetcher cfg src ks dbs).ks ks := by
  induction dbs generalizing src ks with
  | nil => exact SLe.refl _
  | cons db dbs ih =>
    simp only [fetcher]
    split
    · exact ih _ _
    · split
      · exact (ih _ _).trans (fetchPages_le _ _ _ _ _)
      · exact fetchPages_le _ _ _ _ _

theorem fetcher_ok (cfg : Config) (src : ScanSrc) (ks : SKeyspace) (dbs : List Nat) :
    (fetcher cfg src ks dbs).ok = scanOk cfg src dbs := by
  induction dbs generalizing src ks with
  | nil => rfl
  | cons db dbs ih =>
    simp only [fetcher, scanOk]
    split
    · exact ih _ _
    · have hc := fetchPages_ctl cfg src.eofOk db ks (src.pages db)
      rw [hc.1]
      split
      · rename_i h; simp [h, ih, hc.2.1]
      · rename_i h; simp [h]

theorem fetcher_addrs (cfg : Config) (src : ScanSrc) (ks : SKeyspace) (dbs : List Nat) :
    (fetcher cfg src ks dbs).nodes.map (fun nd => (nd.db, nd.key)) = scanned cfg src dbs := by
  induction dbs generalizing src ks with
  | nil => rfl
  | cons db dbs ih =>
    simp only [fetcher, scanned]
    split
    · exact ih _ _
    · have hc := fetchPages_ctl cfg src.eofOk db ks (src.pages db)
      rw [hc.1]
      split
      · simp [ih, hc.2.1, fetchPages_addrs]
      · simp [fetchPages_addrs]

theorem fetcher_mem (cfg : Config) (src : ScanSrc) (ks : SKeyspace) (dbs : List Nat) (db : Nat) (k : Key) (e : SEntry)
    (hs : (db, k) ∈ scanned cfg src dbs) (he : (fetcher cfg src ks dbs).ks db k = some e) :
    (⟨k, e.payload, e.pttl, db⟩ : KeyNode) ∈ (fetcher cfg src ks dbs).nodes := by
  induction dbs generalizing src ks with
  | nil => simp [scanned] at hs
  | cons d dbs ih =>
    simp only [fetcher, scanned] at hs he ⊢
    by_cases hf : filterDB cfg d = true
    · simp only [hf, if_true] at hs he ⊢
      exact ih _ _ hs he
    · simp only [hf, if_false, Bool.false_eq_true] at hs he ⊢
      have hc := fetchPages_ctl cfg src.eofOk d ks (src.pages d)
      rw [hc.1] at he ⊢
      by_cases hok : pagesOk src.eofOk (src.pages d) = true
      · simp only [hok, if_true] at hs he ⊢
        rw [hc.2.1] at he ⊢
        rcases List.mem_append.1 hs with hs | hs
        · simp only [List.mem_flatMap, List.mem_map, Prod.mk.injEq] at hs
          obtain ⟨pg, hpg, k', hk', rfl, rfl⟩ := hs
          apply List.mem_append_left
          exact fetchPages_mem cfg _ _ ks _ _ pg _ e hpg hk' (fetcher_le _ _ _ _) he
        · exact List.mem_append_right _ (ih _ _ hs he)
      · simp only [hok, if_false, Bool.false_eq_true, List.append_nil] at hs he ⊢
        simp only [List.mem_flatMap, List.mem_map, Prod.mk.injEq] at hs
        obtain ⟨pg, hpg, k', hk', rfl, rfl⟩ := hs
        exact fetchPages_mem cfg _ _ ks _ _ pg _ e hpg hk' (SLe.refl _) he

theorem fetcher_sound (cfg : Config) (src : ScanSrc) (ks : SKeyspace) (dbs : List Nat) (nd : KeyNode)
    (hnd : nd ∈ (fetcher cfg src ks dbs).nodes) :
    -2 ≤ nd.pttl ∧ (nd.pttl ≠ -2 → ∃ e, ks nd.db nd.key = some e ∧ nd.value = e.payload ∧ nd.pttl = e.pttl) := by
  induction dbs generalizing src ks with
  | nil => simp [fetcher] at hnd
  | cons d dbs ih =>
    simp only [fetcher] at hnd
    by_cases hf : filterDB cfg d = true
    · simp only [hf, if_true] at hnd
      exact ih _ _ hnd
    · simp only [hf, if_false, Bool.false_eq_true] at hnd
      have key : ∀ x ∈ (fetchPages cfg src.eofOk d ks (src.pages d)).nodes,
          -2 ≤ x.pttl ∧ (x.pttl ≠ -2 → ∃ e, ks x.db x.key = some e ∧ x.value = e.payload ∧ x.pttl = e.pttl) := by
        intro x hx
        obtain ⟨h1, _, h3, h4⟩ := fetchPages_sound cfg _ d ks _ x hx
        rw [h1]; exact ⟨h3, h4⟩
      split at hnd
      · rcases List.mem_append.1 hnd with hnd | hnd
        · exact key nd hnd
        · obtain ⟨h3, h4⟩ := ih _ _ hnd
          refine ⟨h3, fun hne => ?_⟩
          obtain ⟨e, e1, e2, e3⟩ := h4 hne
          exact ⟨e, fetchPages_le _ _ _ _ _ _ _ e e1, e2, e3⟩
      · exact key nd hnd


/-- the key-file scanner: with enough fuel the pages are the lines cut into chunks of `n`, all pages but the last are
    full and carry on, the last one is short (possibly empty) and ends the scan -/
theorem kfPagesAux_spec (n : Nat) (hn : 0 < n) (fuel : Nat) (lines : List Key)
    (evs : List (List (List (Nat × Key)) × List (List (Nat × Key)))) (hf : lines.length < fuel) :
    consumed (kfPagesAux n fuel lines evs) = kfPagesAux n fuel lines evs ∧
    pagesRest (kfPagesAux n fuel lines evs) = [] ∧
    pagesOk false (kfPagesAux n fuel lines evs) = true ∧
    (kfPagesAux n fuel lines evs).flatMap (·.keys) = lines ∧
    (kfPagesAux n fuel lines evs).length = lines.length / n + 1 := by
  induction fuel generalizing lines evs with
  | zero => omega
  | succ fuel ih =>
    simp only [kfPagesAux]
    by_cases hl : (lines.take n).length = n
    · have hge : n ≤ lines.length := by
        rw [List.length_take] at hl; omega
      have hlt : (lines.drop n).length < fuel := by
        rw [List.length_drop]; omega
      obtain ⟨i1, i2, i3, i4, i5⟩ := ih (lines.drop n) evs.tail hlt
      simp only [hl, ne_eq, not_true_eq_false, if_false, consumed, pagesRest, Nat.one_ne_zero, i1, i2, List.flatMap_cons, i4,
        List.take_append_drop, List.length_cons, i5, List.length_drop, true_and]
      refine ⟨?_, ?_⟩
      · simpa [pagesOk] using i3
      · rw [Nat.div_eq_sub_div hn hge]
    · have hlt : lines.length < n := by
        rw [List.length_take] at hl; omega
      simp only [hl, ne_eq, not_false_eq_true, if_true, consumed, pagesRest, pagesOk, List.flatMap_cons, List.flatMap_nil,
        List.append_nil, List.length_singleton, true_and]
      refine ⟨by simp, ?_, ?_⟩
      · exact List.take_of_length_le (by omega)
      · rw [Nat.div_eq_of_lt hlt]

theorem kfPages_spec (n : Nat) (hn : 0 < n) (lines : List Key)
    (evs : List (List (List (Nat × Key)) × List (List (Nat × Key)))) :
    consumed (kfPages n lines evs) = kfPages n lines evs ∧
    pagesRest (kfPages n lines evs) = [] ∧
    pagesOk false (kfPages n lines evs) = true ∧
    (kfPages n lines evs).flatMap (·.keys) = lines ∧
    (kfPages n lines evs).length = lines.length / n + 1 :=
  kfPagesAux_spec n hn _ lines evs (Nat.lt_succ_self _)



/-! ## 6. replies needed by the receiver; batch bound -/


/-- replies the receiver will ask for -/
def need (nds : List RNode) : Nat := (nds.map (fun nd => 1 + nd.pre)).sum

theorem need_append (a b : List RNode) : need (a ++ b) = need a + need b := by simp [need]

theorem ustep_need (fx : Fixes) (cfg : Config) (M : Codec) (u : UState) (nd : KeyNode)
    (h : need u.results ≤ u.replies.length) :
    need (ustep fx cfg M u nd).results ≤ (ustep fx cfg M u nd).replies.length := by
  unfold ustep
  by_cases ha : u.aborted = true
  · simpa [ha] using h
  · by_cases hp : effPttl fx nd.pttl = -2
    · simpa [ha, hp] using h
    · by_cases hb : nd.value.length ≥ cfg.bigThreshold
      · simpa [ha, hp, hb] using h
      · simp only [ha, hp, hb, if_false, Bool.false_eq_true, need_append, List.length_append, execAll_length, smallCmds]
        simp only [need, List.map_cons, List.map_nil, List.sum_cons, List.sum_nil] at h ⊢
        split <;> split <;> simp_all <;> omega

theorem ufold_need (fx : Fixes) (cfg : Config) (M : Codec) (nodes : List KeyNode) (u : UState)
    (h : need u.results ≤ u.replies.length) :
    need (nodes.foldl (ustep fx cfg M) u).results ≤ (nodes.foldl (ustep fx cfg M) u).replies.length := by
  induction nodes generalizing u with
  | nil => exact h
  | cons nd nds ih => exact ih _ (ustep_need fx cfg M u nd h)

theorem takeReplies_noerr (n : Nat) (rs : List Reply) (h : ∀ r ∈ rs, r.isErr = false) (hl : n ≤ rs.length) :
    takeReplies n rs = Take.ok (rs.drop n) := by
  induction n generalizing rs with
  | zero => simp [takeReplies]
  | succ n ih =>
    cases rs with
    | nil => simp at hl
    | cons r rs =>
      simp only [takeReplies, h r List.mem_cons_self, Bool.false_eq_true, if_false, List.drop_succ_cons]
      exact ih rs (fun x hx => h x (List.mem_cons_of_mem _ hx)) (by simpa using hl)

/-- without an error reply, and with at least as many replies as it asks for, the receiver runs to its end -/
theorem receiver_noerr (nds : List RNode) (rs : List Reply) (c : Nat) (h : ∀ r ∈ rs, r.isErr = false)
    (hl : need nds ≤ rs.length) :
    (receiver nds rs c).aborted = false ∧ (receiver nds rs c).starved = false ∧
    (receiver nds rs c).confirmed = c + nds.length ∧ (receiver nds rs c).unread = rs.drop (need nds) := by
  induction nds generalizing rs c with
  | nil => simp [receiver, need]
  | cons nd nds ih =>
    have hn : need (nd :: nds) = (1 + nd.pre) + need nds := by simp [need]
    rw [hn] at hl
    simp only [receiver]
    rw [takeReplies_noerr _ rs h (by omega)]
    have := ih (rs.drop (1 + nd.pre)) (c + 1) (fun x hx => h x (List.mem_of_mem_drop hx)) (by rw [List.length_drop]; omega)
    refine ⟨this.1, this.2.1, ?_, ?_⟩
    · rw [this.2.2.1]; simp; omega
    · rw [this.2.2.2, hn, List.drop_drop]

/-- the batch never reaches `scan.key_number` elements between two iterations of the writer loop -/
theorem step_batch_bound (fx : Fixes) (cfg : Config) (M : Codec) (s : WState) (nd : KeyNode) (h : s.Inv)
    (hb : s.batch.length < max 1 cfg.pageSize) : (writerStep fx cfg M s nd).batch.length < max 1 cfg.pageSize := by
  unfold writerStep
  by_cases ha : s.aborted = true
  · simpa [ha] using hb
  · by_cases hp : effPttl fx nd.pttl = -2
    · simpa [ha, hp] using hb
    · by_cases hbig : nd.value.length ≥ cfg.bigThreshold
      · simp only [ha, hp, hbig, if_false, if_true, Bool.false_eq_true, bigKey, (writeSend_buf M s h).2.1, List.length_nil]
        omega
      · simp only [ha, hp, hbig, if_false, Bool.false_eq_true, flushIfFull]
        split
        · rw [(writeSend_buf M _ ?_).2.1]
          · simp; omega
          · have ha2 : s.aborted = false := by simpa using ha
            simp [WState.Inv, smallKey, h.2.1, ha2]
        · rename_i hc
          simp only [smallKey, h.2.1, ge_iff_le, Nat.not_le] at hc
          simp only [smallKey, List.length_append, List.length_singleton]
          omega

theorem fold_batch_bound (fx : Fixes) (cfg : Config) (M : Codec) (nodes : List KeyNode) (s : WState) (h : s.Inv)
    (hb : s.batch.length < max 1 cfg.pageSize) :
    (nodes.foldl (writerStep fx cfg M) s).batch.length < max 1 cfg.pageSize := by
  induction nodes generalizing s with
  | nil => exact hb
  | cons nd nds ih => exact ih _ (step_abs fx cfg M s nd h).2 (step_batch_bound fx cfg M s nd h hb)



/-! ## 7. small facts used by the property theorems -/

theorem ttl_fixed (e : SEntry) (fx : Fixes) (h : fx.pttlZero = true) : ttlOf (effPttl fx e.pttl) = ttlSpec e.ttl := by
  unfold SEntry.pttl ttlSpec effPttl ttlOf
  cases ht : e.ttl with
  | none => simp [h]
  | some t =>
    simp only [h, true_and, Option.map_some]
    by_cases h0 : t = 0
    · subst h0; simp
    · have h1 : ¬ ((t : Int) = 0) := by omega
      have h2 : ¬ ((t : Int) = -1) := by omega
      have h3 : ¬ ((t : Int) ≤ 0) := by omega
      simp only [h1, h2, h3, if_false, Int.toNat_natCast, Option.some.injEq]
      omega

theorem ttl_pinned (e : SEntry) (fx : Fixes) (h0 : e.ttl ≠ some 0) : ttlOf (effPttl fx e.pttl) = e.ttl := by
  unfold SEntry.pttl effPttl ttlOf
  cases ht : e.ttl with
  | none => simp
  | some t =>
    have ht0 : t ≠ 0 := fun h => h0 (by rw [ht, h])
    have h1 : ¬ ((t : Int) = 0) := by omega
    have h2 : ¬ ((t : Int) = -1) := by omega
    have h3 : ¬ ((t : Int) ≤ 0) := by omega
    have h4 : ¬ (fx.pttlZero = true ∧ (t : Int) = 0) := fun h => h1 h.2
    simp only [h4, h2, h3, if_false, Int.toNat_natCast]

/-- the receiver always finds the replies it asks for (it never blocks for ever), whatever the code version -/
theorem writer_need (fx : Fixes) (cfg : Config) (M : Codec) (t : Target) (nodes : List KeyNode) :
    need (writer fx cfg M t nodes).results ≤ (writer fx cfg M t nodes).replies.length := by
  obtain ⟨w1, w2, _⟩ := writer_results_replies fx cfg M t nodes
  rw [w1, w2]
  exact ufold_need fx cfg M nodes _ (by simp [UState.init, need])

theorem ttlSpec_none (t : Option Nat) : ttlSpec t = none ↔ t = none := by
  cases t <;> simp [ttlSpec]

theorem ttlSpec_pos (t n : Nat) (h : 0 < t) : ttlSpec (some t) = some n ↔ n = t := by
  simp [ttlSpec]; omega

theorem writerStep_skip (fx : Fixes) (cfg : Config) (M : Codec) (s : WState) (nd : KeyNode) (h : nd.pttl = -2) :
    writerStep fx cfg M s nd = s := by
  unfold writerStep
  simp [(effPttl_eq_neg2 fx nd.pttl).2 h]

theorem fold_skip (fx : Fixes) (cfg : Config) (M : Codec) (nodes : List KeyNode) (s : WState) :
    nodes.foldl (writerStep fx cfg M) s = (nodes.filter (fun nd => decide (nd.pttl ≠ -2))).foldl (writerStep fx cfg M) s := by
  induction nodes generalizing s with
  | nil => rfl
  | cons nd nds ih =>
    by_cases h : nd.pttl = -2
    · simp [h, writerStep_skip fx cfg M s nd h, ih]
    · simp [h, ih]


/-- with a SCAN script whose every reached db has a reply with cursor 0, the number of SCAN calls per fetched db is the
    position of the first such reply -/
theorem fetcher_scans_normal (cfg : Config) (script : Nat → List Page) (ks : SKeyspace) (dbs : List Nat)
    (h : ∀ db ∈ dbs, filterDB cfg db = false → (script db).any (fun pg => pg.cursor = 0) = true) :
    (fetcher cfg (.normal script) ks dbs).scans =
      (dbs.filter (fun db => !filterDB cfg db)).map (fun db => (db, (consumed (script db)).length)) := by
  induction dbs generalizing ks with
  | nil => rfl
  | cons d ds ih =>
    simp only [fetcher]
    by_cases hf : filterDB cfg d = true
    · simp only [hf, if_true, List.filter_cons, Bool.not_true, Bool.false_eq_true, if_false]
      exact ih _ (fun x hx => h x (List.mem_cons_of_mem _ hx))
    · have hf' : filterDB cfg d = false := by simpa using hf
      have hz := h d List.mem_cons_self hf'
      obtain ⟨c1, _, c3⟩ := fetchPages_ctl cfg false d ks (script d)
      simp only [hf', Bool.false_eq_true, if_false, ScanSrc.pages, ScanSrc.eofOk, ScanSrc.next, List.filter_cons,
        Bool.not_false, if_true, List.map_cons]
      have hok : (fetchPages cfg false d ks (script d)).ok = true := by rw [c1]; simp [pagesOk, hz]
      simp only [hok, if_true, c3, hz, Nat.add_zero]
      rw [ih _ (fun x hx => h x (List.mem_cons_of_mem _ hx))]


end RSVerif.Rump
