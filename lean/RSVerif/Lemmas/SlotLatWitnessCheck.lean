import RSVerif.Spec.Slot
import RSVerif.Generated.C15LatSearch
/-
The Boolean check the kernel runs on every generated chunk of latency-key witnesses
(Generated/C15LatWitness*.lean). Imports only the specification and the facts that table depends on
(the key prefix), so that the 8 witness modules are rebuilt only when those change. Core Lean only.
-/
namespace RSVerif.Lemmas.Slot
open RSVerif RSVerif.Spec.Slot

/-- row check: index `i` is within the announced bound and the bitwise CRC16 of `<prefix><i>`
    (continued from the state after the prefix) lands in `slot` -/
def latRowOK (i : Nat) (slot : Nat) : Bool :=
  decide (i ≤ Generated.C15.latencyMaxIndex) &&
  (update Generated.C15.latencyPrefixState (itoa i)).toNat % slots == slot

def latChunkOK (base : Nat) (ws : List Nat) : Bool :=
  ws.length == 256 && (ws.zipIdx base).all fun p => latRowOK p.1 p.2

theorem lat_chunk_covers (base : Nat) (ws : List Nat) (h : latChunkOK base ws = true) :
    ∀ s, base ≤ s → s < base + 256 → ∃ i, latRowOK i s = true := by
  intro s h1 h2
  simp only [latChunkOK, Bool.and_eq_true, beq_iff_eq, List.all_eq_true] at h
  obtain ⟨hl, hall⟩ := h
  have hi : s - base < ws.length := by omega
  refine ⟨ws[s - base], ?_⟩
  have := hall (ws[s - base], s) (List.mem_zipIdx_iff_le_and_getElem?_sub.2 ⟨h1, by simp [hi]⟩)
  simpa using this

end RSVerif.Lemmas.Slot
