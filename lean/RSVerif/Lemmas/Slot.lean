import RSVerif.Model.Slot
import RSVerif.Lemmas.SlotWitnessCheck
/-
Helper lemmas for C15.
 1. The table driven CRC16 step equals the bit-by-bit CRC-16/XMODEM specification, through
    xor-linearity of the bit step (BitVec 16).
 2. Go's rune iteration over a string visits every '{' byte and only those as the rune '{'.
 3. The DFS of pickSuffixDfs returns a hit iff one exists.
Core Lean only.
-/
namespace RSVerif.Lemmas.Slot
open RSVerif RSVerif.Spec.Slot RSVerif.Slot

/-! ### 1. table step = bitwise step -/

def polyBV : BitVec 16 := 0x1021#16
def bsBV (c : BitVec 16) : BitVec 16 := (c <<< 1) ^^^ (if c[15] then polyBV else 0#16)

theorem top_bit : ∀ j : Fin 16, (32768#16).getLsbD j.val = true → j.val = 15 := by decide

theorem and_top (c : UInt16) : (c &&& 0x8000 = 0x8000) ↔ c.toBitVec[15] = true := by
  constructor
  · intro h
    have := congrArg UInt16.toBitVec h
    simp at this
    have h2 := congrArg (fun v => BitVec.getLsbD v 15) this
    simpa using h2
  · intro h
    apply UInt16.eq_of_toBitVec_eq
    simp
    ext i hi
    simp
    intro h0
    have := top_bit ⟨i, hi⟩ (by simpa [BitVec.getLsbD_eq_getElem hi] using h0)
    simp at this; subst this
    exact h

theorem bitStep_toBV (c : UInt16) : (bitStep c).toBitVec = bsBV c.toBitVec := by
  unfold bitStep bsBV
  by_cases h : c &&& 0x8000 = 0x8000
  · have h' := (and_top c).1 h
    simp [h, h', poly, polyBV]
  · have h' : c.toBitVec[15] = false := by
      cases hh : c.toBitVec[15]
      · rfl
      · exact absurd ((and_top c).2 hh) h
    simp [h, h']

theorem xor_cancel_left (p x : BitVec 16) : p ^^^ (p ^^^ x) = x := by
  rw [← BitVec.xor_assoc]; simp

theorem bsBV_xor (a b : BitVec 16) : bsBV (a ^^^ b) = bsBV a ^^^ bsBV b := by
  unfold bsBV
  rw [BitVec.getElem_xor]
  cases a[15] <;> cases b[15] <;> simp [BitVec.shiftLeft_xor_distrib]
  · ac_rfl
  · ac_rfl
  · have : a <<< 1 ^^^ polyBV ^^^ (b <<< 1 ^^^ polyBV) = polyBV ^^^ (polyBV ^^^ (a <<< 1 ^^^ b <<< 1)) := by ac_rfl
    rw [this, xor_cancel_left]

theorem bsBV_top0 (x : BitVec 16) (h : x[15] = false) : bsBV x = x <<< 1 := by
  simp [bsBV, h]

def bs8BV (c : BitVec 16) : BitVec 16 := bsBV (bsBV (bsBV (bsBV (bsBV (bsBV (bsBV (bsBV c)))))))

theorem bs8BV_xor (a b : BitVec 16) : bs8BV (a ^^^ b) = bs8BV a ^^^ bs8BV b := by
  simp [bs8BV, bsBV_xor]

theorem bitStep8_toBV (c : UInt16) : (bitStep8 c).toBitVec = bs8BV c.toBitVec := by
  simp [bitStep8, bs8BV, bitStep_toBV]

def iter (f : α → α) : Nat → α → α
  | 0, a => a
  | n+1, a => iter f n (f a)

theorem bsBV_iter_shift : ∀ (n : Nat) (y : BitVec 16), (∀ i, i < n → y.getLsbD (15 - i) = false) →
    iter bsBV n y = y <<< n := by
  intro n
  induction n with
  | zero => intro y _; simp [iter]
  | succ n ih =>
    intro y h
    have h0 : y[15] = false := by simpa using h 0 (by omega)
    rw [iter, bsBV_top0 y h0, ih]
    · rw [← BitVec.shiftLeft_add, Nat.add_comm]
    · intro i hi
      rw [BitVec.getLsbD_shiftLeft]
      by_cases h15 : 15 - i < 1
      · simp [h15]
      · have := h (i + 1) (by omega)
        have e : 15 - (i + 1) = 15 - i - 1 := by omega
        rw [e] at this
        simp [this]

set_option linter.unusedSimpArgs false

theorem mask_lo_bits : ∀ k : Fin 16, (255#16).getLsbD k.val = decide (k.val < 8) := by decide
theorem mask_hi_bits : ∀ k : Fin 16, (0xFF00#16).getLsbD k.val = decide (8 ≤ k.val) := by decide

theorem mask_lo (i : Nat) : (255#16).getLsbD i = decide (i < 8) := by
  by_cases hi : i < 16
  · exact mask_lo_bits ⟨i, hi⟩
  · rw [BitVec.getLsbD_of_ge _ _ (by omega)]; simp; omega
theorem mask_hi (i : Nat) : (0xFF00#16).getLsbD i = (decide (8 ≤ i) && decide (i < 16)) := by
  by_cases hi : i < 16
  · rw [mask_hi_bits ⟨i, hi⟩]; simp [hi]
  · rw [BitVec.getLsbD_of_ge _ _ (by omega)]; simp [hi]

theorem bs8BV_low (x : BitVec 16) : bs8BV (x &&& 255#16) = x <<< 8 := by
  have : bs8BV (x &&& 255#16) = iter bsBV 8 (x &&& 255#16) := rfl
  rw [this, bsBV_iter_shift]
  · apply BitVec.eq_of_getLsbD_eq
    intro i hi
    simp only [BitVec.getLsbD_shiftLeft, BitVec.getLsbD_and, mask_lo]
    by_cases h8 : i < 8
    · simp [h8]
    · have : i - 8 < 8 := by omega
      simp [h8, this]
  · intro i hi
    have : ¬ (15 - i < 8) := by omega
    simp [BitVec.getLsbD_and, mask_lo, this]

theorem split_hi_lo (x : BitVec 16) : x = (x &&& 0xFF00#16) ^^^ (x &&& 255#16) := by
  apply BitVec.eq_of_getLsbD_eq
  intro i hi
  simp only [BitVec.getLsbD_xor, BitVec.getLsbD_and, mask_lo, mask_hi]
  by_cases h8 : i < 8
  · have : ¬ 8 ≤ i := by omega
    simp [h8, this]
  · have : 8 ≤ i := by omega
    simp [h8, this, hi]

theorem step_bv (c v : BitVec 16) :
    (c <<< 8) ^^^ bs8BV ((((c >>> 8) ^^^ v) &&& 255#16) <<< 8) = bs8BV (c ^^^ (v <<< 8)) := by
  have hA : (((c >>> 8) ^^^ v) &&& 255#16) <<< 8 = (c ^^^ (v <<< 8)) &&& 0xFF00#16 := by
    apply BitVec.eq_of_getLsbD_eq
    intro i hi
    simp only [BitVec.getLsbD_shiftLeft, BitVec.getLsbD_and, BitVec.getLsbD_xor,
      BitVec.getLsbD_ushiftRight, mask_lo, mask_hi]
    by_cases h8 : i < 8
    · have : ¬ 8 ≤ i := by omega
      simp [h8, this]
    · have h1 : 8 ≤ i := by omega
      have h2 : i - 8 < 8 := by omega
      have e : 8 + (i - 8) = i := by omega
      simp [h8, h1, h2, e, hi]
  have hB : (c ^^^ (v <<< 8)) <<< 8 = c <<< 8 := by
    apply BitVec.eq_of_getLsbD_eq
    intro i hi
    simp only [BitVec.getLsbD_shiftLeft, BitVec.getLsbD_xor]
    by_cases h8 : i < 8
    · simp [h8]
    · have : i - 8 < 8 := by omega
      simp [h8, this]
  conv => rhs; rw [split_hi_lo (c ^^^ (v <<< 8))]
  rw [bs8BV_xor, bs8BV_low, hA, hB, BitVec.xor_comm]

theorem byteStep_eq (tbl : Array UInt16)
    (htbl : ∀ i : Fin 256, tbl[i.val]! = bitStep8 (UInt16.ofNat i.val <<< 8))
    (crc : UInt16) (b : UInt8) : Slot.stepT tbl crc b = byteStep crc b := by
  unfold Slot.stepT byteStep
  have hlt : (((crc >>> 8) ^^^ b.toUInt16) &&& 0x00FF).toNat < 256 := by
    rw [UInt16.toNat_and]
    have : ((crc >>> 8) ^^^ b.toUInt16).toNat &&& (0x00FF : UInt16).toNat ≤ (0x00FF : UInt16).toNat := Nat.and_le_right
    have e : (0x00FF : UInt16).toNat = 255 := rfl
    omega
  have hi := htbl ⟨_, hlt⟩
  simp only [UInt16.ofNat_toNat] at hi
  rw [hi]
  apply UInt16.eq_of_toBitVec_eq
  simp only [UInt16.toBitVec_xor, bitStep8_toBV]
  have e1 : ∀ x : UInt16, (x <<< 8).toBitVec = x.toBitVec <<< 8 := fun x => rfl
  have e2 : ∀ x : UInt16, (x >>> 8).toBitVec = x.toBitVec >>> 8 := fun x => rfl
  have e3 : ∀ x y : UInt16, (x &&& y).toBitVec = x.toBitVec &&& y.toBitVec := fun x y => rfl
  rw [e1, e1, e1, e3, UInt16.toBitVec_xor, e2]
  exact step_bv _ _
/-! ### 2. rune iteration and hash tag extraction -/

theorem inB_bounds {lo hi : Nat} {c : UInt8} (h : ¬ (!inB lo hi c) = true) : lo ≤ c.toNat ∧ c.toNat ≤ hi := by
  simpa [inB] using h

/-- a multi-byte decoder returns RuneError of width 1 or a rune ≠ '{' whose continuation bytes are ≥ 0x80 -/
def MultiOK (rest : Bytes) (p : Nat × Nat) : Prop :=
  p.1 ≠ 123 ∧ ∀ c ∈ rest.take (p.2 - 1), 0x80 ≤ c.toNat

theorem decode2_ok (n0 : Nat) (h : 0xC2 ≤ n0) (h' : n0 < 0xE0) (rest : Bytes) : MultiOK rest (decode2 n0 rest) := by
  unfold decode2 MultiOK
  split
  · rename_i s1 r
    split
    · simp [runeError]
    · rename_i hs
      have := inB_bounds hs
      refine ⟨by simp only []; omega, ?_⟩
      simp; omega
  · simp [runeError]

theorem decode3_ok (n0 lo hi : Nat) (h : 0xE0 ≤ n0) (h' : n0 < 0xF0) (hlo : 0x80 ≤ lo) (hhi : hi ≤ 0xBF)
    (hE0 : n0 = 0xE0 → 0xA0 ≤ lo) (rest : Bytes) : MultiOK rest (decode3 n0 lo hi rest) := by
  unfold decode3 MultiOK
  split
  · rename_i s1 s2 r
    split
    · simp [runeError]
    · split
      · simp [runeError]
      · rename_i hs1 hs2
        have := inB_bounds hs1
        have := inB_bounds hs2
        refine ⟨by simp only []; omega, ?_⟩
        simp; omega
  · simp [runeError]

theorem decode4_ok (n0 lo hi : Nat) (h : 0xF0 ≤ n0) (h' : n0 < 0xF5) (hlo : 0x80 ≤ lo) (hhi : hi ≤ 0xBF)
    (hF0 : n0 = 0xF0 → 0x90 ≤ lo) (rest : Bytes) : MultiOK rest (decode4 n0 lo hi rest) := by
  unfold decode4 MultiOK
  split
  · rename_i s1 s2 s3 r
    split
    · simp [runeError]
    · split
      · simp [runeError]
      · split
        · simp [runeError]
        · rename_i hs1 hs2 hs3
          have := inB_bounds hs1
          have := inB_bounds hs2
          have := inB_bounds hs3
          refine ⟨by simp only []; omega, ?_⟩
          simp; omega
  · simp [runeError]


theorem decodeRune_cases (b : UInt8) (rest : Bytes) :
    (b.toNat < 0x80 ∧ decodeRune b rest = (b.toNat, 1)) ∨ (0x80 ≤ b.toNat ∧ MultiOK rest (decodeRune b rest)) := by
  unfold decodeRune
  simp only []
  by_cases h1 : b.toNat < 0x80
  · left; simp [h1]
  · right
    refine ⟨by omega, ?_⟩
    rw [if_neg h1]
    by_cases h2 : b.toNat < 0xC2 ∨ 0xF5 ≤ b.toNat
    · rw [if_pos h2]; simp [MultiOK, runeError]
    · rw [if_neg h2]
      by_cases h3 : b.toNat < 0xE0
      · rw [if_pos h3]; exact decode2_ok _ (by omega) h3 _
      · rw [if_neg h3]
        by_cases h4 : b.toNat < 0xF0
        · rw [if_pos h4]
          apply decode3_ok _ _ _ (by omega) h4
          · split <;> omega
          · split <;> omega
          · intro h; simp [h]
        · rw [if_neg h4]
          apply decode4_ok _ _ _ (by omega) (by omega)
          · split <;> omega
          · split <;> omega
          · intro h; simp [h]

theorem toNat_eq_open (b : UInt8) : b.toNat = 123 ↔ b = openBrace := by
  constructor
  · intro h; apply UInt8.toNat_inj.1; rw [h]; rfl
  · intro h; rw [h]; rfl

/-- the rune is '{' exactly when the byte is '{' -/
theorem decodeRune_open (b : UInt8) (rest : Bytes) :
    (decodeRune b rest).1 = openBrace.toNat ↔ b = openBrace := by
  have ho : openBrace.toNat = 123 := rfl
  rw [ho, ← toNat_eq_open]
  rcases decodeRune_cases b rest with ⟨_, h⟩ | ⟨h1, h2, _⟩
  · rw [h]
  · constructor
    · intro h; exact absurd h h2
    · intro h; omega

/-- the bytes passed over after a rune start are never '{' -/
theorem decodeRune_skip (b : UInt8) (rest : Bytes) :
    ∀ c ∈ rest.take ((decodeRune b rest).2 - 1), c ≠ openBrace := by
  rcases decodeRune_cases b rest with ⟨_, h⟩ | ⟨_, _, h2⟩
  · rw [h]; simp
  · intro c hc heq
    have := h2 c hc
    rw [heq] at this
    revert this; decide

/-- the suffix of `l` that starts at its first '{' byte -/
def firstOpen : Bytes → Option Bytes
  | [] => none
  | b :: rest => if b = openBrace then some (b :: rest) else firstOpen rest

theorem scanOpen_eq : ∀ (l : Bytes) (skip : Nat), (∀ c ∈ l.take skip, c ≠ openBrace) →
    scanOpen skip l = firstOpen l := by
  intro l
  induction l with
  | nil => intro skip _; cases skip <;> rfl
  | cons b rest ih =>
    intro skip h
    cases skip with
    | succ k =>
      have hb : b ≠ openBrace := h b (by simp)
      simp only [scanOpen, firstOpen, if_neg hb]
      apply ih
      intro c hc
      exact h c (by simp [hc])
    | zero =>
      simp only [scanOpen, firstOpen]
      by_cases hb : b = openBrace
      · have h1 := (decodeRune_open b rest).2 hb
        rw [if_pos h1, if_pos hb]
      · have : ¬ (decodeRune b rest).1 = openBrace.toNat := fun h => hb ((decodeRune_open b rest).1 h)
        simp only [this, hb, if_false]
        exact ih _ (decodeRune_skip b rest)

theorem firstOpen_spec : ∀ l : Bytes,
    (firstOpen l = none ∧ afterFirst openBrace l = none) ∨
    (∃ rest, firstOpen l = some (openBrace :: rest) ∧ afterFirst openBrace l = some rest) := by
  intro l
  induction l with
  | nil => left; exact ⟨rfl, rfl⟩
  | cons b rest ih =>
    by_cases hb : b = openBrace
    · right; exact ⟨rest, by simp [firstOpen, hb], by simp [afterFirst, hb]⟩
    · simp only [firstOpen, afterFirst, if_neg hb]; exact ih

theorem beforeFirst_eq (c : UInt8) : ∀ l : Bytes, beforeFirst c l = (indexOf c l).map (l.take ·) := by
  intro l
  induction l with
  | nil => rfl
  | cons b rest ih =>
    by_cases hb : b = c
    · simp [beforeFirst, indexOf, hb]
    · simp only [beforeFirst, indexOf, if_neg hb, ih]
      cases indexOf c rest <;> simp

/-- the inner loop started at a '{' yields the bytes before the first following '}' -/
theorem closeTag_cons (rest : Bytes) : closeTag (openBrace :: rest) = beforeFirst closeBrace rest := by
  have hne : ¬ openBrace = closeBrace := by decide
  rw [beforeFirst_eq]
  simp only [closeTag, indexOf, if_neg hne]
  cases indexOf closeBrace rest <;> simp

theorem hashtagOf_eq (key : Bytes) : hashtagOf key = (hashTag key).getD [] := by
  unfold hashtagOf hashTag
  rw [scanOpen_eq key 0 (by simp)]
  rcases firstOpen_spec key with ⟨h1, h2⟩ | ⟨rest, h1, h2⟩
  · simp [h1, h2]
  · simp [h1, h2, closeTag_cons]

theorem mask_mod (c : UInt16) : (c &&& 0x3fff).toNat = c.toNat % 16384 := by
  rw [UInt16.toNat_and]
  exact Nat.and_two_pow_sub_one_eq_mod c.toNat 14

/-! ### 3. the depth-first search -/

/-- `s` is a possible suffix of depth `n`: `n` letters of the alphabet -/
def IsSuffix (n : Nat) (s : Bytes) : Prop := s.length = n ∧ ∀ c ∈ s, c ∈ alphabet

theorem dfs_none (judge : Nat → Bool) : ∀ (n : Nat) (pre : Bytes),
    pickSuffixDfs judge n pre = none ↔ ∀ s, IsSuffix n s → judge (slotSpec (pre ++ s)) = false := by
  intro n
  induction n with
  | zero =>
    intro pre
    simp only [pickSuffixDfs]
    constructor
    · intro h s ⟨hl, _⟩
      have : s = [] := List.eq_nil_of_length_eq_zero hl
      subst this
      simp at h ⊢
      exact h
    · intro h
      have := h [] ⟨rfl, by simp⟩
      simp at this
      simp [this]
  | succ n ih =>
    intro pre
    simp only [pickSuffixDfs, List.findSome?_eq_none_iff]
    constructor
    · intro h s ⟨hl, hs⟩
      match s, hl, hs with
      | c :: t, hl, hs =>
        have hc : c ∈ alphabet := hs c (by simp)
        have := (ih (pre ++ [c])).1 (h c hc) t ⟨by simpa using hl, fun x hx => hs x (by simp [hx])⟩
        simpa using this
    · intro h c hc
      apply (ih (pre ++ [c])).2
      intro t ⟨hl, ht⟩
      have := h (c :: t) ⟨by simp [hl], by intro x hx; simp at hx; rcases hx with rfl | hx; exact hc; exact ht x hx⟩
      simpa using this

theorem dfs_sound (judge : Nat → Bool) : ∀ (n : Nat) (pre k : Bytes),
    pickSuffixDfs judge n pre = some k →
    ∃ s, IsSuffix n s ∧ k = pre ++ s ∧ judge (slotSpec k) = true := by
  intro n
  induction n with
  | zero =>
    intro pre k h
    simp only [pickSuffixDfs] at h
    split at h
    · rename_i hj
      simp at h; subst h
      exact ⟨[], ⟨rfl, by simp⟩, by simp, hj⟩
    · simp at h
  | succ n ih =>
    intro pre k h
    simp only [pickSuffixDfs] at h
    obtain ⟨c, hc, hk⟩ := List.exists_of_findSome?_eq_some h
    obtain ⟨s, ⟨hl, hs⟩, rfl, hj⟩ := ih _ _ hk
    refine ⟨c :: s, ⟨by simp [hl], ?_⟩, by simp, hj⟩
    intro x hx; simp at hx; rcases hx with rfl | hx
    · exact hc
    · exact hs x hx

/-- the search succeeds as soon as SOME suffix is a hit -/
theorem dfs_complete (judge : Nat → Bool) (n : Nat) (pre s : Bytes) (hs : IsSuffix n s)
    (hj : judge (slotSpec (pre ++ s)) = true) : ∃ k, pickSuffixDfs judge n pre = some k := by
  cases h : pickSuffixDfs judge n pre with
  | some k => exact ⟨k, rfl⟩
  | none =>
    have := (dfs_none judge n pre).1 h s hs
    rw [hj] at this; exact absurd this (by decide)

/-- `pickSuffixDfs` returns the FIRST hit in lexicographic order (the alphabet is visited in
    increasing byte order) -/
theorem dfs_returns_first_hit (judge : Nat → Bool) (hsorted : alphabet.Pairwise (· < ·)) :
    ∀ (n : Nat) (pre k : Bytes), pickSuffixDfs judge n pre = some k →
    ∃ s, IsSuffix n s ∧ k = pre ++ s ∧ judge (slotSpec k) = true ∧
      ∀ s', IsSuffix n s' → judge (slotSpec (pre ++ s')) = true → ¬ s' < s := by
  intro n
  induction n with
  | zero =>
    intro pre k h
    obtain ⟨s, hs, hk, hj⟩ := dfs_sound judge 0 pre k h
    refine ⟨s, hs, hk, hj, ?_⟩
    intro s' hs' _
    have e1 : s = [] := List.eq_nil_of_length_eq_zero hs.1
    have e2 : s' = [] := List.eq_nil_of_length_eq_zero hs'.1
    subst e1 e2
    simp
  | succ n ih =>
    intro pre k h
    simp only [pickSuffixDfs] at h
    obtain ⟨l₁, c, l₂, hal, hk, hnone⟩ := List.findSome?_eq_some_iff.1 h
    have hc : c ∈ alphabet := by rw [hal]; simp
    obtain ⟨s, ⟨hl, hs⟩, rfl, hj, hmin⟩ := ih _ _ hk
    refine ⟨c :: s, ⟨by simp [hl], ?_⟩, by simp, hj, ?_⟩
    · intro x hx; simp at hx; rcases hx with rfl | hx
      · exact hc
      · exact hs x hx
    · intro s' ⟨hl', hs'⟩ hj' hlt
      match s', hl', hs' with
      | c' :: t', hl', hs' =>
        have ht' : IsSuffix n t' := ⟨by simpa using hl', fun x hx => hs' x (by simp [hx])⟩
        rcases List.cons_lt_cons_iff.1 hlt with hcc | ⟨rfl, htt⟩
        · -- an earlier letter: its whole subtree was searched without success
          have hc' : c' ∈ alphabet := hs' c' (by simp)
          rw [hal] at hc' hsorted
          have hp := List.pairwise_append.1 hsorted
          have hin : c' ∈ l₁ := by
            rcases List.mem_append.1 hc' with h1 | h2
            · exact h1
            · rcases List.mem_cons.1 h2 with rfl | h3
              · exact absurd hcc (UInt8.lt_irrefl _)
              · have := (List.pairwise_cons.1 hp.2.1).1 c' h3
                exact absurd (UInt8.lt_trans hcc this) (UInt8.lt_irrefl _)
          have := (dfs_none judge n (pre ++ [c'])).1 (hnone c' hin) t' ht'
          simp at this hj'
          rw [hj'] at this; exact absurd this (by decide)
        · exact hmin t' ht' (by simpa using hj') htt

theorem mem_alphabet (c : UInt8) (h1 : Generated.C15.suffixLo ≤ c) (h2 : c ≤ Generated.C15.suffixHi) : c ∈ alphabet := by
  unfold alphabet
  rw [UInt8.le_iff_toNat_le] at h1 h2
  refine List.mem_map.2 ⟨c.toNat - Generated.C15.suffixLo.toNat, List.mem_range.2 (by omega), ?_⟩
  have : Generated.C15.suffixLo.toNat + (c.toNat - Generated.C15.suffixLo.toNat) = c.toNat := by omega
  rw [this, UInt8.ofNat_toNat]

/-- a kernel-checked witness row is a possible DFS suffix whose CRC16 (continued from the prefix
    state) is in the slot -/
theorem rowOK_spec (x : Nat) (s : Nat) (h : rowOK x s = true) :
    ∃ w, IsSuffix Generated.C15.suffixLen w ∧ (update Generated.C15.checkpointPrefixState w).toNat % slots = s := by
  simp only [rowOK, Bool.and_eq_true, beq_iff_eq, List.all_eq_true, decide_eq_true_eq] at h
  exact ⟨rowBytes Generated.C15.suffixLen x,
    ⟨rowBytes_length _ _, fun c hc => mem_alphabet c (h.1 c hc).1 (h.1 c hc).2⟩, h.2⟩

/-! ### 4. small facts used by the property theorems -/

theorem updateT_eq_spec (tbl : Array UInt16)
    (htbl : ∀ i : Fin 256, tbl[i.val]! = bitStep8 (UInt16.ofNat i.val <<< 8))
    (crc : UInt16) (bs : Bytes) : updateT tbl crc bs = update crc bs := by
  unfold updateT update
  induction bs generalizing crc with
  | nil => rfl
  | cons b bs ih => simp only [List.foldl_cons, byteStep_eq tbl htbl]; exact ih _

theorem update_append (crc : UInt16) (a b : Bytes) : update crc (a ++ b) = update (update crc a) b := by
  simp [update, List.foldl_append]

/-- no '{' in the key ⇒ the whole key is hashed -/
theorem hashedPart_noBrace (k : Bytes) (h : ∀ c ∈ k, c ≠ openBrace) : hashedPart k = k := by
  have : afterFirst openBrace k = none := by
    induction k with
    | nil => rfl
    | cons b bs ih =>
      have hb : b ≠ openBrace := h b (by simp)
      simp only [afterFirst, if_neg hb]
      exact ih (fun c hc => h c (by simp [hc]))
  simp [hashedPart, hashTag, this]

theorem inRange_iff (l r : Int) (s : Nat) : inRange l r s = true ↔ l ≤ (s : Int) ∧ (s : Int) ≤ r := by
  simp [inRange]

theorem itoa_noBrace (i : Nat) : ∀ c ∈ itoa i, c ≠ openBrace := by
  intro c hc
  unfold itoa at hc
  obtain ⟨ch, hch, rfl⟩ := List.mem_map.1 hc
  have hd := Nat.isDigit_of_mem_toDigits (by decide) (by decide) hch
  simp only [Char.isDigit, Bool.and_eq_true, decide_eq_true_eq] at hd
  have h1 : 48 ≤ ch.toNat := by
    have := hd.1; rw [ge_iff_le, UInt32.le_iff_toNat_le] at this; exact this
  have h2 : ch.toNat ≤ 57 := by
    have := hd.2; rw [UInt32.le_iff_toNat_le] at this; exact this
  intro heq
  have := congrArg UInt8.toNat heq
  rw [UInt8.toNat_ofNat'] at this
  have e : openBrace.toNat = 123 := rfl
  omega

/-- the latency key search finds a key as soon as some index within its budget is a hit -/
theorem findKeyFrom_complete (min max : Int) : ∀ (fuel i j : Nat), i ≤ j → j < i + fuel →
    inRange min max (latencySlot (latencyKey j)) = true → ∃ k, findKeyFrom min max fuel i = some k := by
  intro fuel
  induction fuel with
  | zero => intro i j h1 h2; omega
  | succ n ih =>
    intro i j h1 h2 hj
    simp only [findKeyFrom]
    split
    · exact ⟨_, rfl⟩
    · rename_i hi
      have : i ≠ j := by intro e; subst e; exact hi hj
      exact ih (i + 1) j (by omega) (by omega) hj

/-! ### 5. the pinned outer loop of KeyToSlot (D17) -/

/-- a later '{' without a '}' after it leaves the hashtag alone; one with a '}' replaces it -/
theorem scanPinned_noOpen : ∀ (l : Bytes) (skip : Nat) (h : Bytes), (∀ c ∈ l, c ≠ openBrace) →
    scanPinned skip l h = h := by
  intro l
  induction l with
  | nil => intro skip h _; cases skip <;> rfl
  | cons b rest ih =>
    intro skip h hl
    have hrest : ∀ c ∈ rest, c ≠ openBrace := fun c hc => hl c (by simp [hc])
    cases skip with
    | succ k => simp only [scanPinned]; exact ih _ _ hrest
    | zero =>
      have hb : b ≠ openBrace := hl b (by simp)
      have : ¬ (decodeRune b rest).1 = openBrace.toNat := fun h => hb ((decodeRune_open b rest).1 h)
      simp only [scanPinned, this, if_false]
      exact ih _ _ hrest

theorem scanPinned_oneOpen : ∀ (l : Bytes) (skip : Nat) (h : Bytes), (∀ c ∈ l.take skip, c ≠ openBrace) →
    l.count openBrace ≤ 1 →
    scanPinned skip l h = match firstOpen l with
      | some s => (closeTag s).getD h
      | none => h := by
  intro l
  induction l with
  | nil => intro skip h _ _; cases skip <;> rfl
  | cons b rest ih =>
    intro skip h hskip hcount
    cases skip with
    | succ k =>
      have hb : b ≠ openBrace := hskip b (by simp)
      simp only [scanPinned, firstOpen, if_neg hb]
      apply ih
      · intro c hc; exact hskip c (by simp [hc])
      · simpa [List.count_cons, hb] using hcount
    | zero =>
      by_cases hb : b = openBrace
      · have h1 := (decodeRune_open b rest).2 hb
        have hrest : ∀ c ∈ rest, c ≠ openBrace := by
          intro c hc heq
          subst hb heq
          have : 0 < List.count openBrace rest := List.count_pos_iff.2 hc
          simp at hcount
          omega
        simp only [scanPinned, firstOpen, h1, if_true, if_pos hb]
        exact scanPinned_noOpen _ _ _ hrest
      · have : ¬ (decodeRune b rest).1 = openBrace.toNat := fun h => hb ((decodeRune_open b rest).1 h)
        simp only [scanPinned, firstOpen, this, if_false, if_neg hb]
        apply ih _ _ (decodeRune_skip b rest)
        simpa [List.count_cons, hb] using hcount

end RSVerif.Lemmas.Slot
