import RSVerif.Lemmas.SenderRedis
import RSVerif.Lemmas.SyncBasic
/-
The checkpoint hash after a whole number of groups: the newest offset entry is the greatest one and
belongs to the last wrapped group.
-/
namespace RSVerif.Lemmas.Checkpoint
open RSVerif RSVerif.Sync RSVerif.Sender RSVerif.Spec.IncrSync RSVerif.Spec.MiniRedis
open RSVerif.Lemmas.Sender RSVerif.Lemmas.MiniRedis RSVerif.Lemmas.SenderRedis RSVerif.Lemmas.SyncBasic

abbrev Entry := Int × Bytes × Bytes

/-- Offset entries, newest first, parse and decrease with age: each is strictly below the next newer one, or equal
to it *in the same database* (an overwrite with the same value). The newest one is below the bound `b`, or equal to
`b` in database `bdb` (`bdb = none`: strictly below). -/
def OffDesc (of : Bytes) : Int → Option Int → List Entry → Prop
  | _, _, [] => True
  | b, bdb, e :: rest =>
    if e.2.1 = of then
      ∃ o, parseIntU e.2.2 = some o ∧ (o < b ∨ (o = b ∧ some e.1 = bdb)) ∧ OffDesc of o (some e.1) rest
    else OffDesc of b bdb rest

theorem OffDesc.mono {of : Bytes} {b b' : Int} {bdb bdb' : Option Int} {l : List Entry}
    (h : OffDesc of b bdb l) (hb : b < b') : OffDesc of b' bdb' l := by
  induction l generalizing b b' bdb bdb' with
  | nil => trivial
  | cons e rest ih =>
    by_cases hf : e.2.1 = of
    · simp only [OffDesc, if_pos hf] at h ⊢
      obtain ⟨o, h1, h2, h3⟩ := h
      exact ⟨o, h1, Or.inl (by omega), h3⟩
    · simp only [OffDesc, if_neg hf] at h ⊢
      exact ih h hb

theorem OffDesc.weaken {of : Bytes} {b : Int} {bdb : Option Int} {l : List Entry}
    (h : OffDesc of b none l) : OffDesc of b bdb l := by
  induction l generalizing b bdb with
  | nil => trivial
  | cons e rest ih =>
    by_cases hf : e.2.1 = of
    · simp only [OffDesc, if_pos hf] at h ⊢
      obtain ⟨o, h1, h2, h3⟩ := h
      refine ⟨o, h1, ?_, h3⟩
      rcases h2 with h2 | ⟨_, h2⟩
      · exact Or.inl h2
      · exact absurd h2 (by simp)
    · simp only [OffDesc, if_neg hf] at h ⊢
      exact ih h

def storedL (l : List Entry) (d : Int) (of : Bytes) : Option Int :=
  ((l.find? (fun e => e.1 == d && e.2.1 == of)).map (fun e => e.2.2)).bind parseIntU

theorem storedInt_eq {D : Type} (s : St D) (d : Int) (of : Bytes) : storedInt s d of = storedL s.ckpt d of := rfl

theorem OffDesc.lt {of : Bytes} {b : Int} {bdb : Option Int} {l : List Entry} (h : OffDesc of b bdb l) :
    ∀ d o, storedL l d of = some o → o < b ∨ (o = b ∧ some d = bdb) := by
  induction l generalizing b bdb with
  | nil => intro d o ho; simp [storedL] at ho
  | cons e rest ih =>
    intro d o ho
    by_cases hf : e.2.1 = of
    · simp only [OffDesc, if_pos hf] at h
      obtain ⟨o', h1, h2, h3⟩ := h
      by_cases hd : e.1 = d
      · have : storedL (e :: rest) d of = parseIntU e.2.2 := by
          simp [storedL, List.find?, hd, hf]
        rw [this, h1] at ho
        simp at ho
        subst ho
        subst hd
        exact h2
      · have hb : (e.1 == d) = false := beq_eq_false_iff_ne.mpr hd
        have : storedL (e :: rest) d of = storedL rest d of := by
          simp [storedL, hb]
        rw [this] at ho
        rcases ih h3 d o ho with h4 | ⟨_, h4⟩
        · rcases h2 with h2 | ⟨h2, _⟩
          · exact Or.inl (by omega)
          · exact Or.inl (by omega)
        · simp at h4; exact absurd h4.symm hd
    · simp only [OffDesc, if_neg hf] at h
      have hb : (e.2.1 == of) = false := beq_eq_false_iff_ne.mpr hf
      have : storedL (e :: rest) d of = storedL rest d of := by
        simp [storedL, hb]
      rw [this] at ho
      exact ih h d o ho

/-- if the newest entry is an offset entry above all older ones, the loader must return it -/
theorem newest_of_head {D : Type} (s : St D) (of : Bytes) (dbX X : Int) (v : Bytes) (rest : List Entry)
    (hc : s.ckpt = (dbX, of, v) :: rest) (hv : parseIntU v = some X) (hd : OffDesc of X (some dbX) rest) :
    NewestCheckpoint s of dbX X := by
  unfold NewestCheckpoint
  simp only [storedInt_eq, hc]
  have h1 : storedL ((dbX, of, v) :: rest) dbX of = some X := by
    simp [storedL, List.find?, hv]
  refine ⟨h1, ?_⟩
  intro d o ho
  by_cases hdd : dbX = d
  · subst hdd
    rw [h1] at ho
    simp at ho
    subst ho
    exact ⟨Int.le_refl _, fun _ => rfl⟩
  · have hb : (dbX == d) = false := beq_eq_false_iff_ne.mpr hdd
    have : storedL ((dbX, of, v) :: rest) d of = storedL rest d of := by
      simp [storedL, hb]
    rw [this] at ho
    rcases hd.lt d o ho with h | ⟨_, h⟩
    · exact ⟨by omega, fun h' => by omega⟩
    · simp at h; exact absurd h.symm hdd

/-! ### the checkpoint entries a group writes -/

variable {D : Type} (apply : Int → Cmd → D → D) (rc : RenderCfg)

theorem field_ne_version : versionField rc ≠ offsetField rc := by
  unfold versionField offsetField fieldName
  intro h
  have := List.append_cancel_left h
  revert this
  decide

theorem field_ne_runid : runIdField rc ≠ offsetField rc := by
  unfold runIdField offsetField fieldName
  intro h
  have := List.append_cancel_left h
  revert this
  decide

/-- entries written by the checkpoint commands of `g` when the connection is in database `d` (newest first) -/
def ckptEntries (g : Group) (d : Int) : List Entry :=
  if g.batched then
    (d, offsetField rc, fmtInt (lastOff g.items)) ::
      (if g.runId then [(d, versionField rc, fmtInt Generated.SyncConsts.fcvCheckpointCurrent),
                        (d, runIdField rc, rc.runId)] else [])
  else []

theorem plain_ckptCmds (s : St D) (g : Group) :
    plain rc.ckName apply s (ckptCmds rc g) =
      { s with ckpt := ckptEntries rc g s.db ++ s.ckpt } := by
  unfold ckptCmds ckptEntries
  cases g.batched <;> cases g.runId <;> simp [plain, execNow, classify_hset]

theorem plain_groupBody (s : St D) (g : Group) (h : ∀ it ∈ g.items, plainItem rc.ckName it = true) :
    (plain rc.ckName apply s (groupBody rc g)).ckpt =
      ckptEntries rc g (plain rc.ckName apply s (g.items.map cmdOf)).db ++ s.ckpt ∧
    core (plain rc.ckName apply s (groupBody rc g)) = core (plain rc.ckName apply s (g.items.map cmdOf)) := by
  unfold groupBody
  rw [plain_append, plain_ckptCmds]
  exact ⟨by simp [plain_items_ckpt apply rc.ckName s g.items h], rfl⟩

theorem lastOff_mem (l : List Item) (h : l ≠ []) : ∃ it ∈ l, it.off = lastOff l := by
  unfold lastOff
  cases hl : l.getLast? with
  | none => simp at hl; exact absurd hl h
  | some x => exact ⟨x, List.mem_of_getLast? hl, rfl⟩

theorem lastOff_append (a b : List Item) (h : b ≠ []) : lastOff (a ++ b) = lastOff b := by
  unfold lastOff
  rw [List.getLast?_append]
  cases hb : b.getLast? with
  | none => simp at hb; exact absurd hb h
  | some x => simp


/-- offsets handed to the sender increase strictly -/
def Increasing (l : List Item) : Prop := l.Pairwise (fun a b => a.off < b.off)

/-- outcome of a whole number of groups, seen from the checkpoint hash:
either nothing but lone pings was sent, or the newest entry is the offset of the last item `A` covers -/
def Summary (s st : St D) (items : List Item) : Prop :=
  ((∀ it ∈ items, it.cmd = "ping") ∧ st.ckpt = s.ckpt ∧ core st = core s) ∨
  (∃ A P rest, items = A ++ P ∧ A ≠ [] ∧ (∀ it ∈ P, it.cmd = "ping") ∧
      st.ckpt = (st.db, offsetField rc, fmtInt (lastOff A)) :: rest ∧
      OffDesc (offsetField rc) (lastOff A) (some st.db) rest ∧
      core st = (A.map cmdOf).foldl (execCore apply rc.ckName) (core s))

/-- The only item that may carry the bound `B` itself as its offset is the first one, and then it is a SELECT of
the database `bdb` (the `select <startDb>` a resumed parser sends first, tagged with the loaded offset). -/
def FirstAt (ck : Bytes) (B : Int) (bdb : Option Int) (items : List Item) : Prop :=
  ∀ it rest, items = it :: rest → it.off = B →
    bdb = none ∨ ∃ k, classify ck (cmdOf it) = .select k ∧ bdb = some k

theorem single_of_last_at_bound (items : List Item) (hne : items ≠ []) (hinc : Increasing items) (B : Int)
    (hB : ∀ it ∈ items, B ≤ it.off) (hl : lastOff items = B) : ∃ it, items = [it] ∧ it.off = B := by
  match items, hne with
  | [x], _ => exact ⟨x, rfl, by simpa [lastOff] using hl⟩
  | x :: y :: r, _ =>
    exfalso
    obtain ⟨z, hz, hzo⟩ := lastOff_mem (x :: y :: r) (by simp)
    have hx := hB x (by simp)
    have hlt : x.off < lastOff (x :: y :: r) := by
      have e : lastOff (x :: y :: r) = lastOff (y :: r) := by
        simp [lastOff, List.getLast?_cons_cons]
      rw [e]
      obtain ⟨w, hw, hwo⟩ := lastOff_mem (y :: r) (by simp)
      rw [← hwo]
      exact (List.pairwise_cons.mp hinc).1 w hw
    omega

theorem groups_summary (gs : List Group) (s : St D) (B : Int) (bdb : Option Int)
    (hpl : ∀ it ∈ gItems gs, plainItem rc.ckName it = true)
    (hlp : ∀ g ∈ gs, g.batched = false → ∀ it ∈ g.items, it.cmd = "ping")
    (hne : ∀ g ∈ gs, g.items ≠ [])
    (hinc : Increasing (gItems gs))
    (hB : ∀ it ∈ gItems gs, B ≤ it.off)
    (hfirst : FirstAt rc.ckName B bdb (gItems gs))
    (hdesc : OffDesc (offsetField rc) B bdb s.ckpt) :
    Summary apply rc s (plain rc.ckName apply s (gs.flatMap (groupBody rc))) (gItems gs) := by
  induction gs generalizing s B bdb with
  | nil => left; simp [gItems, plain]
  | cons g gs ih =>
    have hplg : ∀ it ∈ g.items, plainItem rc.ckName it = true := fun it hit => hpl it (by simp [gItems, hit])
    have hpl' : ∀ it ∈ gItems gs, plainItem rc.ckName it = true := fun it hit => hpl it (by
      simp only [gItems, List.flatMap_cons, List.mem_append] at *; exact Or.inr hit)
    have hlp' : ∀ g' ∈ gs, g'.batched = false → ∀ it ∈ g'.items, it.cmd = "ping" :=
      fun g' hg' => hlp g' (by simp [hg'])
    have hne' : ∀ g' ∈ gs, g'.items ≠ [] := fun g' hg' => hne g' (by simp [hg'])
    have hgi : gItems (g :: gs) = g.items ++ gItems gs := by simp [gItems]
    rw [hgi] at hinc hB hfirst ⊢
    have hinc' : Increasing (gItems gs) := (List.pairwise_append.mp hinc).2.1
    have hincg : Increasing g.items := (List.pairwise_append.mp hinc).1
    have hcross : ∀ a ∈ g.items, ∀ b ∈ gItems gs, a.off < b.off := (List.pairwise_append.mp hinc).2.2
    have hgne := hne g (by simp)
    obtain ⟨xl, hxl, hxo⟩ := lastOff_mem g.items hgne
    have hBX : B ≤ lastOff g.items := by rw [← hxo]; exact hB xl (by simp [hxl])
    -- items of the following groups lie strictly above B
    have hB'' : ∀ it ∈ gItems gs, B < it.off := by
      intro it hit
      have := hcross xl hxl it hit
      omega
    have hfirst' : ∀ bdb', FirstAt rc.ckName B bdb' (gItems gs) := by
      intro bdb' it rest hit hoff
      have := hB'' it (by rw [hit]; simp)
      omega
    obtain ⟨hck, hco⟩ := plain_groupBody apply rc s g hplg
    simp only [List.flatMap_cons, plain_append]
    generalize hs1 : plain rc.ckName apply s (groupBody rc g) = s1 at hck hco
    have hcore1 : core s1 = (g.items.map cmdOf).foldl (execCore apply rc.ckName) (core s) := by
      rw [hco, core_plain]
    cases hb : g.batched with
    | false =>
      have hping := hlp g (by simp) hb
      have hck1 : s1.ckpt = s.ckpt := by simp [hck, ckptEntries, hb]
      have hcs : core s1 = core s := by rw [hcore1, foldl_pings apply rc.ckName _ _ hping]
      rcases ih s1 B bdb hpl' hlp' hne' hinc' (fun it hit => hB it (by simp [hit])) (hfirst' bdb)
          (by rw [hck1]; exact hdesc) with
        ⟨h1, h2, h3⟩ | ⟨A, P, rest, h1, h2, h3, h4, h5, h6⟩
      · left
        refine ⟨?_, by rw [h2, hck1], by rw [h3, hcs]⟩
        intro it hit
        rcases List.mem_append.mp hit with h | h
        · exact hping it h
        · exact h1 it h
      · right
        refine ⟨g.items ++ A, P, rest, by rw [h1, List.append_assoc], by simp [h2], h3, ?_, ?_, ?_⟩
        · rw [lastOff_append _ _ h2]; exact h4
        · rw [lastOff_append _ _ h2]; exact h5
        · rw [h6, hcs, List.map_append, List.foldl_append, foldl_pings apply rc.ckName _ _ hping]
    | true =>
      have hdbs1 : (plain rc.ckName apply s (g.items.map cmdOf)).db = s1.db := by
        have := congrArg Prod.snd hco; simpa [core] using this.symm
      have hck1 : s1.ckpt = (s1.db, offsetField rc, fmtInt (lastOff g.items)) ::
          ((if g.runId then [(s1.db, versionField rc, fmtInt Generated.SyncConsts.fcvCheckpointCurrent),
                            (s1.db, runIdField rc, rc.runId)] else []) ++ s.ckpt) := by
        simp [hck, ckptEntries, hb, hdbs1]
      -- the older entries lie below this group's offset, or carry the same offset in the same database
      have hold : OffDesc (offsetField rc) (lastOff g.items) (some s1.db) s.ckpt := by
        by_cases hlt : B < lastOff g.items
        · exact hdesc.mono hlt
        · have heq : lastOff g.items = B := by omega
          obtain ⟨it, hit, hio⟩ := single_of_last_at_bound g.items hgne hincg B
            (fun x hx => hB x (by simp [hx])) heq
          rw [heq]
          rcases hfirst it (gItems gs) (by rw [hit]; rfl) hio with hn | ⟨k, hk, hbk⟩
          · rw [hn] at hdesc; exact hdesc.weaken
          · have : s1.db = k := by
              rw [← hdbs1, hit]
              simp [plain, execNow, hk]
            rw [this, ← hbk]; exact hdesc
      have hdesc1 : OffDesc (offsetField rc) (lastOff g.items) (some s1.db)
          ((if g.runId then [(s1.db, versionField rc, fmtInt Generated.SyncConsts.fcvCheckpointCurrent),
                            (s1.db, runIdField rc, rc.runId)] else []) ++ s.ckpt) := by
        cases g.runId
        · simpa using hold
        · simp only [if_true, List.cons_append, List.nil_append, OffDesc,
            if_neg (field_ne_version rc), if_neg (field_ne_runid rc)]
          exact hold
      have hdescB : OffDesc (offsetField rc) (lastOff g.items + 1) none s1.ckpt := by
        rw [hck1]
        simp only [OffDesc, if_true]
        exact ⟨lastOff g.items, parseIntU_fmtInt _, Or.inl (by omega), hdesc1⟩
      have hB' : ∀ it ∈ gItems gs, lastOff g.items + 1 ≤ it.off := by
        intro it hit
        have := hcross xl hxl it hit
        omega
      rcases ih s1 (lastOff g.items + 1) none hpl' hlp' hne' hinc' hB' (fun _ _ _ _ => Or.inl rfl) hdescB with
        ⟨h1, h2, h3⟩ | ⟨A, P, rest, h1, h2, h3, h4, h5, h6⟩
      · right
        have hdb : (plain rc.ckName apply s1 (gs.flatMap (groupBody rc))).db = s1.db := by
          have := congrArg Prod.snd h3; simpa [core] using this
        refine ⟨g.items, gItems gs,
          ((if g.runId then [(s1.db, versionField rc, fmtInt Generated.SyncConsts.fcvCheckpointCurrent),
                            (s1.db, runIdField rc, rc.runId)] else []) ++ s.ckpt), rfl, hgne, h1, ?_, ?_, ?_⟩
        · rw [h2, hck1, hdb]
        · rw [hdb]; exact hdesc1
        · rw [h3, hcore1]
      · right
        refine ⟨g.items ++ A, P, rest, by rw [h1, List.append_assoc], by simp [h2], h3, ?_, ?_, ?_⟩
        · rw [lastOff_append _ _ h2]; exact h4
        · rw [lastOff_append _ _ h2]; exact h5
        · rw [h6, hcore1, List.map_append, List.foldl_append]

end RSVerif.Lemmas.Checkpoint
