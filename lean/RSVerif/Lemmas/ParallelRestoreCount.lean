import RSVerif.Lemmas.ParallelRestoreInv
namespace RSVerif.Lemmas.ParallelRestore
open RSVerif RSVerif.Spec.MiniRedisC07 RSVerif.Model.ParallelRestore RSVerif.Lemmas.ParallelRestore

theorem pendingOf_startRestore (cfg : Cfg) (e : Entry) (wk : Worker) :
    pendingOf cfg (startRestore cfg e wk) = if keyFiltered cfg e then [] else tagged cfg e := by
  unfold startRestore
  by_cases hk : keyFiltered cfg e = true
  · simp [hk, pendingOf]
  · simp only [hk]
    unfold tagged
    cases cfg.restoreCmds e <;> simp [phaseOfRest, pendingOf]

theorem pendingOf_phaseOfRest (cfg : Cfg) (e : Entry) (wk : Worker) (rest : List DataCmd) :
    pendingOf cfg { wk with phase := phaseOfRest e rest } = rest.map fun c => (route cfg e.db, c) := by
  cases rest <;> simp [phaseOfRest, pendingOf]

theorem expected_cons (cfg : Cfg) (e : Entry) (q : List Entry) :
    expected cfg (e :: q) = (if passes cfg e then tagged cfg e else []) ++ expected cfg q := by
  unfold expected
  by_cases hp : passes cfg e = true <;> simp [hp]

/-- multiset bookkeeping: executed + committed-but-unsent + still-queued = everything that has to be executed -/
def CountInv (cfg : Cfg) (entries : List Entry) (s : State) : Prop :=
  (∀ x ∈ s.server.log, x.ok = true) →
  ∀ p : Nat × DataCmd,
    List.count p s.server.executed + sumW s.n (fun w => List.count p (pendingOf cfg (s.workers w)))
      + List.count p (expected cfg s.queue) = List.count p (expected cfg entries)

theorem countInv_init (cfg : Cfg) (n : Nat) (entries : List Entry) : CountInv cfg entries (init n entries) := by
  intro _ p
  have : sumW n (fun _ => List.count p (pendingOf cfg ({} : Worker))) = 0 :=
    sumW_zero (fun i _ => by simp [pendingOf])
  simp [init, Server.executed, this]

theorem countInv_stepWorker {cfg : Cfg} {entries : List Entry} {s : State} (hinv : Inv cfg entries s)
    (h : CountInv cfg entries s) (w : Nat) (hw : w < s.n) (fail : Bool) :
    CountInv cfg entries (stepWorker cfg s w fail) := by
  have hww := hinv.worker w
  unfold stepWorker
  simp only
  split
  · exact h
  · -- idle
    rename_i hph
    have hpend : pendingOf cfg (s.workers w) = [] := by simp [pendingOf, hph]
    split
    · rename_i hqe
      intro hok p
      have := h hok p
      simp only [setWorker_server, setWorker_n, setWorker_queue, setWorker_workers]
      rw [sumW_congr (g := fun i => List.count p (pendingOf cfg (s.workers i)))]
      · exact this
      · intro i _
        by_cases hi : i = w
        · subst hi; simp [pendingOf, hph]
        · simp [hi]
    · rename_i e q hqe
      split
      · rename_i hf
        intro hok p
        have := h hok p
        rw [hqe, expected_cons] at this
        have hp : passes cfg e = false := by simp [passes, hf]
        simpa [hp] using this
      · rename_i hf
        intro hok p
        have := h hok p
        rw [hqe, expected_cons] at this
        have hp : passes cfg e = !keyFiltered cfg e := by simp [passes, hf]
        simp only [setWorker_server, setWorker_n, setWorker_queue, setWorker_workers]
        have hnew : pendingOf cfg (selectBookkeeping cfg e (s.workers w)) = if keyFiltered cfg e then [] else tagged cfg e := by
          rw [selectBookkeeping_eq]
          split
          · simp [pendingOf]
          · exact pendingOf_startRestore ..
        have hs := sumW_update (n := s.n) (w := w) (f := fun i => List.count p (pendingOf cfg (s.workers i)))
          (g := fun i => List.count p (pendingOf cfg (if i = w then selectBookkeeping cfg e (s.workers w) else s.workers i))) hw
          (fun i hi => by simp [hi])
        simp only [if_true, hpend, hnew, List.count_nil] at hs
        rw [hp] at this
        cases hk : keyFiltered cfg e <;> simp [hk, List.count_append] at this hs ⊢ <;> omega
  · -- select
    rename_i e hph
    intro hok p
    have := h hok p
    simp only [setWorker_server, setWorker_n, setWorker_queue, setWorker_workers]
    rw [sumW_congr (g := fun i => List.count p (pendingOf cfg (s.workers i)))]
    · exact this
    · intro i _
      by_cases hi : i = w
      · subst hi; rw [if_pos rfl, pendingOf_startRestore]; simp [pendingOf, hph]
      · simp [hi]
  · -- run e []
    rename_i e hph
    intro hok p
    have := h hok p
    simp only [setWorker_server, setWorker_n, setWorker_queue, setWorker_workers]
    rw [sumW_congr (g := fun i => List.count p (pendingOf cfg (s.workers i)))]
    · exact this
    · intro i _
      by_cases hi : i = w
      · subst hi; simp [pendingOf, hph]
      · simp [hi]
  · -- run e (c :: rest)
    rename_i e c rest hph
    obtain ⟨h1, h2, -⟩ : s.server.sel w = (s.workers w).lastdb ∧ (s.workers w).lastdb = route cfg e.db ∧
        e ∈ entries ∧ passes cfg e = true ∧ ∃ pre, cfg.restoreCmds e = pre ++ c :: rest := by
      simpa [WorkerOk, hph] using hww
    split
    · split <;>
      · intro hok
        exfalso
        have := hok { conn := w, db := s.server.sel w, cmd := c, ok := false } (by simp)
        simp at this
    · intro hok p
      have hok' : ∀ x ∈ s.server.log, x.ok = true := fun x hx => hok x (by simp [hx])
      have := h hok' p
      simp only [setWorker_server, setWorker_n, setWorker_queue, setWorker_workers]
      have hs := sumW_update (n := s.n) (w := w) (f := fun i => List.count p (pendingOf cfg (s.workers i)))
        (g := fun i => List.count p (pendingOf cfg (if i = w then { s.workers w with phase := phaseOfRest e rest } else s.workers i))) hw
        (fun i hi => by simp [hi])
      simp only [if_true, pendingOf_phaseOfRest] at hs
      have hold : pendingOf cfg (s.workers w) = (c :: rest).map fun c => (route cfg e.db, c) := by simp [pendingOf, hph]
      rw [hold] at hs
      simp only [Server.executed, Server.exec_log, List.map_append, List.map_cons, List.map_nil, List.count_append,
        List.count_cons, List.count_nil, h1, h2] at hs this ⊢
      omega

end RSVerif.Lemmas.ParallelRestore
