import RSVerif.Lemmas.SlotLatWitnessCheck
import RSVerif.Generated.C15LatWitness6
/-
Kernel check of the regenerated latency-key witnesses for slots 12288..14335 (8 chunks of 256
rows; one `decide +kernel` per chunk — the quantifier is a finite generated table). One of 8 such
modules, checked in parallel; rebuilt only when the latency key prefix changes.
-/
namespace RSVerif.Lemmas.Slot
open RSVerif

theorem lat_witness_chunk_48 : latChunkOK 12288 Generated.C15.latencyWitness48 = true := by decide +kernel
theorem lat_witness_chunk_49 : latChunkOK 12544 Generated.C15.latencyWitness49 = true := by decide +kernel
theorem lat_witness_chunk_50 : latChunkOK 12800 Generated.C15.latencyWitness50 = true := by decide +kernel
theorem lat_witness_chunk_51 : latChunkOK 13056 Generated.C15.latencyWitness51 = true := by decide +kernel
theorem lat_witness_chunk_52 : latChunkOK 13312 Generated.C15.latencyWitness52 = true := by decide +kernel
theorem lat_witness_chunk_53 : latChunkOK 13568 Generated.C15.latencyWitness53 = true := by decide +kernel
theorem lat_witness_chunk_54 : latChunkOK 13824 Generated.C15.latencyWitness54 = true := by decide +kernel
theorem lat_witness_chunk_55 : latChunkOK 14080 Generated.C15.latencyWitness55 = true := by decide +kernel

theorem lat_witness_module_6 : ∀ s, 12288 ≤ s → s < 14336 → ∃ i, latRowOK i s = true := by
  intro s h1 h2
  rcases Nat.lt_or_ge s 12544 with h | h1
  · exact lat_chunk_covers 12288 _ lat_witness_chunk_48 s h1 (by omega)
  rcases Nat.lt_or_ge s 12800 with h | h1
  · exact lat_chunk_covers 12544 _ lat_witness_chunk_49 s h1 (by omega)
  rcases Nat.lt_or_ge s 13056 with h | h1
  · exact lat_chunk_covers 12800 _ lat_witness_chunk_50 s h1 (by omega)
  rcases Nat.lt_or_ge s 13312 with h | h1
  · exact lat_chunk_covers 13056 _ lat_witness_chunk_51 s h1 (by omega)
  rcases Nat.lt_or_ge s 13568 with h | h1
  · exact lat_chunk_covers 13312 _ lat_witness_chunk_52 s h1 (by omega)
  rcases Nat.lt_or_ge s 13824 with h | h1
  · exact lat_chunk_covers 13568 _ lat_witness_chunk_53 s h1 (by omega)
  rcases Nat.lt_or_ge s 14080 with h | h1
  · exact lat_chunk_covers 13824 _ lat_witness_chunk_54 s h1 (by omega)
  exact lat_chunk_covers 14080 _ lat_witness_chunk_55 s h1 (by omega)

end RSVerif.Lemmas.Slot
