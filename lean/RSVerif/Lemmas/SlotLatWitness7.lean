import RSVerif.Lemmas.SlotLatWitnessCheck
import RSVerif.Generated.C15LatWitness7
/-
Kernel check of the regenerated latency-key witnesses for slots 14336..16383 (8 chunks of 256
rows; one `decide +kernel` per chunk — the quantifier is a finite generated table). One of 8 such
modules, checked in parallel; rebuilt only when the latency key prefix changes.
-/
namespace RSVerif.Lemmas.Slot
open RSVerif

theorem lat_witness_chunk_56 : latChunkOK 14336 Generated.C15.latencyWitness56 = true := by decide +kernel
theorem lat_witness_chunk_57 : latChunkOK 14592 Generated.C15.latencyWitness57 = true := by decide +kernel
theorem lat_witness_chunk_58 : latChunkOK 14848 Generated.C15.latencyWitness58 = true := by decide +kernel
theorem lat_witness_chunk_59 : latChunkOK 15104 Generated.C15.latencyWitness59 = true := by decide +kernel
theorem lat_witness_chunk_60 : latChunkOK 15360 Generated.C15.latencyWitness60 = true := by decide +kernel
theorem lat_witness_chunk_61 : latChunkOK 15616 Generated.C15.latencyWitness61 = true := by decide +kernel
theorem lat_witness_chunk_62 : latChunkOK 15872 Generated.C15.latencyWitness62 = true := by decide +kernel
theorem lat_witness_chunk_63 : latChunkOK 16128 Generated.C15.latencyWitness63 = true := by decide +kernel

theorem lat_witness_module_7 : ∀ s, 14336 ≤ s → s < 16384 → ∃ i, latRowOK i s = true := by
  intro s h1 h2
  rcases Nat.lt_or_ge s 14592 with h | h1
  · exact lat_chunk_covers 14336 _ lat_witness_chunk_56 s h1 (by omega)
  rcases Nat.lt_or_ge s 14848 with h | h1
  · exact lat_chunk_covers 14592 _ lat_witness_chunk_57 s h1 (by omega)
  rcases Nat.lt_or_ge s 15104 with h | h1
  · exact lat_chunk_covers 14848 _ lat_witness_chunk_58 s h1 (by omega)
  rcases Nat.lt_or_ge s 15360 with h | h1
  · exact lat_chunk_covers 15104 _ lat_witness_chunk_59 s h1 (by omega)
  rcases Nat.lt_or_ge s 15616 with h | h1
  · exact lat_chunk_covers 15360 _ lat_witness_chunk_60 s h1 (by omega)
  rcases Nat.lt_or_ge s 15872 with h | h1
  · exact lat_chunk_covers 15616 _ lat_witness_chunk_61 s h1 (by omega)
  rcases Nat.lt_or_ge s 16128 with h | h1
  · exact lat_chunk_covers 15872 _ lat_witness_chunk_62 s h1 (by omega)
  exact lat_chunk_covers 16128 _ lat_witness_chunk_63 s h1 (by omega)

end RSVerif.Lemmas.Slot
