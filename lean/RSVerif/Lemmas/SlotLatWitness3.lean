import RSVerif.Lemmas.SlotLatWitnessCheck
import RSVerif.Generated.C15LatWitness3
/-
Kernel check of the regenerated latency-key witnesses for slots 6144..8191 (8 chunks of 256
rows; one `decide +kernel` per chunk — the quantifier is a finite generated table). One of 8 such
modules, checked in parallel; rebuilt only when the latency key prefix changes.
-/
namespace RSVerif.Lemmas.Slot
open RSVerif

theorem lat_witness_chunk_24 : latChunkOK 6144 Generated.C15.latencyWitness24 = true := by decide +kernel
theorem lat_witness_chunk_25 : latChunkOK 6400 Generated.C15.latencyWitness25 = true := by decide +kernel
theorem lat_witness_chunk_26 : latChunkOK 6656 Generated.C15.latencyWitness26 = true := by decide +kernel
theorem lat_witness_chunk_27 : latChunkOK 6912 Generated.C15.latencyWitness27 = true := by decide +kernel
theorem lat_witness_chunk_28 : latChunkOK 7168 Generated.C15.latencyWitness28 = true := by decide +kernel
theorem lat_witness_chunk_29 : latChunkOK 7424 Generated.C15.latencyWitness29 = true := by decide +kernel
theorem lat_witness_chunk_30 : latChunkOK 7680 Generated.C15.latencyWitness30 = true := by decide +kernel
theorem lat_witness_chunk_31 : latChunkOK 7936 Generated.C15.latencyWitness31 = true := by decide +kernel

theorem lat_witness_module_3 : ∀ s, 6144 ≤ s → s < 8192 → ∃ i, latRowOK i s = true := by
  intro s h1 h2
  rcases Nat.lt_or_ge s 6400 with h | h1
  · exact lat_chunk_covers 6144 _ lat_witness_chunk_24 s h1 (by omega)
  rcases Nat.lt_or_ge s 6656 with h | h1
  · exact lat_chunk_covers 6400 _ lat_witness_chunk_25 s h1 (by omega)
  rcases Nat.lt_or_ge s 6912 with h | h1
  · exact lat_chunk_covers 6656 _ lat_witness_chunk_26 s h1 (by omega)
  rcases Nat.lt_or_ge s 7168 with h | h1
  · exact lat_chunk_covers 6912 _ lat_witness_chunk_27 s h1 (by omega)
  rcases Nat.lt_or_ge s 7424 with h | h1
  · exact lat_chunk_covers 7168 _ lat_witness_chunk_28 s h1 (by omega)
  rcases Nat.lt_or_ge s 7680 with h | h1
  · exact lat_chunk_covers 7424 _ lat_witness_chunk_29 s h1 (by omega)
  rcases Nat.lt_or_ge s 7936 with h | h1
  · exact lat_chunk_covers 7680 _ lat_witness_chunk_30 s h1 (by omega)
  exact lat_chunk_covers 7936 _ lat_witness_chunk_31 s h1 (by omega)

end RSVerif.Lemmas.Slot
