import RSVerif.Model.Handoff
import RSVerif.Spec.Handoff
import RSVerif.Lemmas.HandoffNum
namespace RSVerif.Lemmas.Handoff
open RSVerif RSVerif.Handoff

theorem newlines_succ (k : Nat) : Spec.Handoff.newlines (k + 1) = LF :: Spec.Handoff.newlines k := by
  simp [Spec.Handoff.newlines, List.replicate_succ, LF]

theorem waitLoop_newlines (k : Nat) (s : Bytes) (c : Nat) :
    waitLoop (Spec.Handoff.newlines k ++ s) [] c = waitLoop s [] (c + k) := by
  induction k generalizing c with
  | zero => simp [Spec.Handoff.newlines]
  | succ k ih =>
    rw [newlines_succ, List.cons_append, waitLoop]
    simp only [List.isEmpty_nil, beq_self_eq_true, Bool.and_self, if_true]
    rw [ih]; congr 1; omega

/-- reading non-LF bytes into a non-empty `rsp` just accumulates them. -/
theorem waitLoop_body (ds : Bytes) (acc : Bytes) (tail : Bytes) (c : Nat) (hacc : acc ≠ [])
    (hds : ∀ b ∈ ds, b ≠ LF) :
    waitLoop (ds ++ tail) acc c = waitLoop tail (ds.reverse ++ acc) c := by
  induction ds generalizing acc with
  | nil => simp
  | cons d ds ih =>
    have hd : d ≠ LF := hds d (by simp)
    rw [List.cons_append, waitLoop]
    have h1 : acc.isEmpty = false := by cases acc <;> simp_all
    simp only [h1, Bool.false_and, Bool.false_eq_true, if_false, hd, false_and]
    rw [ih (d :: acc) (by simp) (fun b hb => hds b (by simp [hb]))]
    simp

theorem waitLoop_crlf (acc : Bytes) (rest : Bytes) (c : Nat) (hacc : acc ≠ []) :
    waitLoop (CR :: LF :: rest) acc c = finishHeader (acc.reverse ++ [CR, LF]) c rest := by
  have h1 : acc.isEmpty = false := by cases acc <;> simp_all
  have h2 : CR ≠ LF := by decide
  rw [waitLoop]
  simp only [h1, Bool.false_and, Bool.false_eq_true, if_false, h2, false_and]
  rw [waitLoop]
  simp

theorem parseHeader_ok {ds : Bytes} {n : Nat} (h : Spec.Handoff.denote ds = some n) (hpos : 0 < n) (hlt : n < 2 ^ 63) :
    parseHeader (DOLLAR :: ds ++ [CR, LF]) = some n := by
  have hp := parseInt_of_denote h hlt
  simp only [parseHeader, List.cons_append, ne_eq, not_true_eq_false, if_false]
  have : List.take ((ds ++ [CR, LF]).length - 2) (ds ++ [CR, LF]) = ds := by simp
  rw [this, hp]
  simp; omega

/-- `waitRdbDump` on `LF^k "$" n CRLF rest`: k keep-alives, then exactly `n`, reader positioned at `rest`. -/
theorem waitRdbDump_bulk (k : Nat) (ds rest : Bytes) (n : Nat) (h : Spec.Handoff.denote ds = some n)
    (hpos : 0 < n) (hlt : n < 2 ^ 63) :
    waitRdbDump (Spec.Handoff.newlines k ++ [DOLLAR] ++ ds ++ Spec.Handoff.crlf ++ rest) = .size k n rest := by
  obtain ⟨_, hall, _⟩ := denote_parts h
  have hds : ∀ b ∈ ds, b ≠ LF := by
    intro b hb
    exact (digit_not_sign (List.all_eq_true.mp hall b hb)).2.2.1
  unfold waitRdbDump
  rw [List.append_assoc, List.append_assoc, List.append_assoc, waitLoop_newlines]
  rw [List.singleton_append, waitLoop]
  have : (DOLLAR == LF) = false := by decide
  have h3 : ¬ (DOLLAR = LF ∧ ([] : Bytes).head? = some CR) := by simp
  simp only [this, Bool.and_false, Bool.false_eq_true, if_false, h3]
  rw [waitLoop_body ds [DOLLAR] _ _ (by simp) hds]
  have : Spec.Handoff.crlf ++ rest = CR :: LF :: rest := rfl
  rw [this, waitLoop_crlf _ _ _ (by simp)]
  simp only [List.reverse_append, List.reverse_reverse, List.reverse_cons, List.reverse_nil, List.nil_append,
    List.singleton_append, finishHeader]
  rw [show DOLLAR :: ds ++ [CR, LF] = DOLLAR :: ds ++ [CR, LF] from rfl, parseHeader_ok h hpos hlt]
  simp

end RSVerif.Lemmas.Handoff
