import RSVerif.Model.Restore
/-
Technical lemmas for Properties/C02: keyspace updates, pipelines, the connection queues, the batching loop.
-/
namespace RSVerif.RestoreEntry
open RSVerif RSVerif.Rdb RSVerif.Spec.MiniRedisC02

/-! ### keyspace -/

theorem put_same (ks : Keyspace) (d : Nat) (k : Bytes) (b : Option Binding) : (ks.put d k b) d k = b := by
  simp [Keyspace.put]

theorem put_other (ks : Keyspace) (d d' : Nat) (k k' : Bytes) (b : Option Binding) (h : ¬ (d' = d ∧ k' = k)) :
    (ks.put d k b) d' k' = ks d' k' := by
  simp [Keyspace.put, h]

theorem put_put (ks : Keyspace) (d : Nat) (k : Bytes) (a b : Option Binding) :
    (ks.put d k a).put d k b = ks.put d k b := by
  funext d' k'
  simp only [Keyspace.put]
  split <;> rfl

theorem put_self (ks : Keyspace) (d : Nat) (k : Bytes) : ks.put d k (ks d k) = ks := by
  funext d' k'
  simp only [Keyspace.put]
  split
  · next h => rw [h.1, h.2]
  · rfl

/-! ### pipelines -/

theorem runCmds_append (srv : Server) (d : Nat) (s : Store) (a b : List Cmd) :
    runCmds srv d s (a ++ b) =
      ((runCmds srv d (runCmds srv d s a).1 b).1, (runCmds srv d s a).2 ++ (runCmds srv d (runCmds srv d s a).1 b).2) := by
  induction a generalizing s with
  | nil => simp [runCmds]
  | cons c cs ih =>
    simp only [List.cons_append, runCmds]
    rw [ih]

theorem runCmds_length (srv : Server) (d : Nat) (s : Store) (cs : List Cmd) :
    (runCmds srv d s cs).2.length = cs.length := by
  induction cs generalizing s with
  | nil => simp [runCmds]
  | cons c cs ih => simp [runCmds, ih]

theorem runCmds_single (srv : Server) (d : Nat) (s : Store) (c : Cmd) :
    runCmds srv d s [c] = ((exec srv d s c).1, [(exec srv d s c).2]) := by
  simp [runCmds]

/-! ### the connection -/

theorem recvN_spec (rs : List Reply) (t : Target) (h : t.inq = rs) :
    recvN rs.length t =
      if rs.any Reply.isErr then ((recvN rs.length t).1, (recvN rs.length t).2)
      else (.ok, { t with inq := [], nRecv := t.nRecv + rs.length }) := by
  split
  · rfl
  · next hne =>
    induction rs generalizing t with
    | nil =>
      cases t
      simp_all [recvN]
    | cons r rs ih =>
      simp only [List.any_cons, Bool.or_eq_true, not_or] at hne
      simp only [List.length_cons, recvN, Target.receive, h]
      simp only [hne.1]
      have := ih { t with inq := rs, nRecv := t.nRecv + 1 } rfl (by simpa using hne.2)
      simp only [Bool.false_eq_true, ↓reduceIte]
      rw [this]
      simp [Nat.add_assoc, Nat.add_comm 1]

theorem recvN_abort (rs : List Reply) (t : Target) (h : t.inq = rs) (herr : rs.any Reply.isErr = true) :
    (recvN rs.length t).1 = .abort := by
  induction rs generalizing t with
  | nil => simp at herr
  | cons r rs ih =>
    simp only [List.length_cons, recvN, Target.receive, h]
    by_cases hr : r.isErr = true
    · simp [hr]
    · simp only [hr, Bool.false_eq_true, ↓reduceIte]
      apply ih
      · rfl
      · simpa [hr] using herr

/-- `flushAndCheckReply(c, count)` when exactly `count` commands are waiting and nothing is unread -/
theorem flushCheck_ok (t : Target) (count : Nat) (hin : t.inq = []) (hout : t.outq.length = count)
    (hok : (runCmds t.srv t.db t.store t.outq).2.any Reply.isErr = false) :
    flushCheck t count =
      (.ok, { t with store := (runCmds t.srv t.db t.store t.outq).1, outq := [], inq := [], nRecv := t.nRecv + count,
                     flog := t.flog ++ [count] }) := by
  unfold flushCheck Target.flush
  have hl := runCmds_length t.srv t.db t.store t.outq
  rw [← hout, ← hl]
  rw [recvN_spec (runCmds t.srv t.db t.store t.outq).2 _ (by simp [hin])]
  simp [hok]

theorem flushCheck_abort (t : Target) (count : Nat) (hin : t.inq = []) (hout : t.outq.length = count)
    (herr : (runCmds t.srv t.db t.store t.outq).2.any Reply.isErr = true) :
    (flushCheck t count).1 = .abort := by
  unfold flushCheck Target.flush
  have hl := runCmds_length t.srv t.db t.store t.outq
  rw [← hout, ← hl]
  exact recvN_abort _ _ (by simp [hin]) herr

/-- `Do(cmd)` on a quiescent connection: the command is executed and its reply returned -/
theorem doCmd_idle (t : Target) (c : Cmd) (hin : t.inq = []) (hout : t.outq = []) :
    t.doCmd c =
      ((exec t.srv t.db t.store c).2,
       { t with store := (exec t.srv t.db t.store c).1, outq := [], inq := [], log := t.log ++ [c],
                nSent := t.nSent + 1, nRecv := t.nRecv + 1, flog := t.flog ++ [1] }) := by
  unfold Target.doCmd Target.flush Target.send
  simp only [hin, hout, List.nil_append, runCmds_single]
  cases h : (exec t.srv t.db t.store c).2 <;> simp [List.find?, Reply.isErr]

/-! ### element commands applied to one key -/

/-- the element commands applied in order to the binding of one key; an error stops (and is what the server replies) -/
def foldOps (ft : FloatText) : Option Binding → List ElemOp → Except ErrKind (Option Binding)
  | cur, [] => .ok cur
  | cur, op :: ops =>
    match applyElem ft cur op with
    | .ok (b, _) => foldOps ft (some b) ops
    | .error e => .error e

theorem runCmds_elems_ok (srv : Server) (d : Nat) (key : Bytes) (ops : List ElemOp) :
    ∀ (s : Store) (b' : Option Binding), foldOps srv.ft (s.ks d key) ops = .ok b' →
      (runCmds srv d s (ops.map (Cmd.elem key))).1 = { s with ks := s.ks.put d key b' } ∧
      (runCmds srv d s (ops.map (Cmd.elem key))).2.any Reply.isErr = false := by
  induction ops with
  | nil =>
    intro s b' h
    simp only [foldOps, Except.ok.injEq] at h
    subst h
    simp [runCmds, put_self]
  | cons op ops ih =>
    intro s b' h
    simp only [foldOps] at h
    simp only [List.map_cons, runCmds, exec]
    cases ha : applyElem srv.ft (s.ks d key) op with
    | error e => simp [ha] at h
    | ok p =>
      obtain ⟨b, n⟩ := p
      simp only [ha] at h
      have := ih { s with ks := s.ks.put d key (some b) } b' (by simpa [put_same] using h)
      refine ⟨?_, ?_⟩
      · rw [this.1]; simp [put_put]
      · simp only [List.any_cons, this.2]; simp [Reply.isErr]

theorem runCmds_elems_err (srv : Server) (d : Nat) (key : Bytes) (ops : List ElemOp) :
    ∀ (s : Store) (e : ErrKind), foldOps srv.ft (s.ks d key) ops = .error e →
      (runCmds srv d s (ops.map (Cmd.elem key))).2.any Reply.isErr = true := by
  induction ops with
  | nil => intro s e h; simp [foldOps] at h
  | cons op ops ih =>
    intro s e h
    simp only [foldOps] at h
    simp only [List.map_cons, runCmds, exec]
    cases ha : applyElem srv.ft (s.ks d key) op with
    | error e' => simp [Reply.isErr]
    | ok p =>
      obtain ⟨b, n⟩ := p
      simp only [ha] at h
      have := ih { s with ks := s.ks.put d key (some b) } e (by simpa [put_same] using h)
      simp [this]

/-! ### the batching loop -/

theorem send_fields (t : Target) (c : Cmd) :
    (t.send c).srv = t.srv ∧ (t.send c).db = t.db ∧ (t.send c).store = t.store ∧ (t.send c).outq = t.outq ++ [c] ∧
    (t.send c).inq = t.inq ∧ (t.send c).log = t.log ++ [c] ∧ (t.send c).nSent = t.nSent + 1 ∧ (t.send c).nRecv = t.nRecv ∧
    (t.send c).flog = t.flog := by
  simp [Target.send]

theorem any_append_false {α : Type} (p : α → Bool) (a b : List α) :
    (a ++ b).any p = false ↔ a.any p = false ∧ b.any p = false := by
  simp [List.any_append]

/-- all replies fine: the loop ends quiescent, the server has executed everything, every reply was read -/
theorem sendLoop_ok (key : Bytes) (n : Nat) (ops : List ElemOp) :
    ∀ (i count : Nat) (t : Target), t.inq = [] → t.outq.length = count → count < 100 → i + ops.length = n →
      (ops = [] → count = 0) →
      (runCmds t.srv t.db t.store (t.outq ++ ops.map (Cmd.elem key))).2.any Reply.isErr = false →
      sendLoop key n i count ops t =
        (.ok, { t with store := (runCmds t.srv t.db t.store (t.outq ++ ops.map (Cmd.elem key))).1, outq := [], inq := [],
                       log := t.log ++ ops.map (Cmd.elem key), nSent := t.nSent + ops.length,
                       nRecv := t.nRecv + count + ops.length, flog := t.flog ++ batches n i count ops.length }, 0) := by
  induction ops with
  | nil =>
    intro i count t hin hout _ _ hc _
    have hc := hc rfl
    subst hc
    have : t.outq = [] := List.eq_nil_of_length_eq_zero hout
    obtain ⟨srv, db, store, outq, inq, log, nSent, nRecv, flog⟩ := t
    simp_all [sendLoop, runCmds, batches]
  | cons op ops ih =>
    intro i count t hin hout hlt hn _ hok
    obtain ⟨hsrv, hdb, hstore, houtq, hinq, hlog, hsent, hrecv, hflog⟩ := send_fields t (.elem key op)
    have hsplit : t.outq ++ (op :: ops).map (Cmd.elem key) = (t.outq ++ [Cmd.elem key op]) ++ ops.map (Cmd.elem key) := by simp
    rw [hsplit, runCmds_append] at hok
    simp only [any_append_false] at hok
    rw [hsplit, runCmds_append]
    simp only [sendLoop]
    by_cases hcond : count + 1 = 100 ∨ i + 1 = n
    · -- flush
      rw [if_pos hcond]
      have hfc := flushCheck_ok (t.send (.elem key op)) (count + 1) (by rw [hinq, hin]) (by rw [houtq]; simp [hout])
        (by rw [hsrv, hdb, hstore, houtq]; exact hok.1)
      rw [hfc]
      simp only
      rw [ih (i + 1) 0]
      · simp only [List.nil_append, hsrv, hdb, hstore, houtq, hlog, hsent, hrecv, hflog]
        simp only [List.map_cons, List.length_cons, batches, hcond, if_true, List.append_assoc, List.singleton_append,
          List.cons_append, List.nil_append, Prod.mk.injEq, true_and, and_true]
        congr 1 <;> omega
      · rfl
      · rfl
      · omega
      · simp at hn; omega
      · intro; rfl
      · simp only [List.nil_append, hsrv, hdb, hstore, houtq]; exact hok.2
    · rw [if_neg hcond]
      have hne : ops ≠ [] := by
        intro h; subst h; simp at hn; omega
      have := ih (i + 1) (count + 1) (t.send (.elem key op)) (by rw [hinq, hin]) (by rw [houtq]; simp [hout]) (by omega)
        (by simp at hn; omega) (by intro h; exact absurd h hne)
        (by rw [hsrv, hdb, hstore, houtq, runCmds_append]; simp only [any_append_false]; exact hok)
      rw [this]
      simp only [hsrv, hdb, hstore, houtq, hlog, hsent, hrecv, hflog, runCmds_append]
      simp only [List.map_cons, List.length_cons, batches, hcond, if_false, List.append_assoc, List.singleton_append,
        Prod.mk.injEq, true_and, and_true]
      congr 1 <;> omega

theorem any_append_true {α : Type} (p : α → Bool) (a b : List α) :
    (a ++ b).any p = true ↔ a.any p = true ∨ b.any p = true := by
  simp [List.any_append]

/-- some reply is an error: the loop panics in the `flushAndCheckReply` that meets it -/
theorem sendLoop_abort (key : Bytes) (n : Nat) (ops : List ElemOp) :
    ∀ (i count : Nat) (t : Target), t.inq = [] → t.outq.length = count → count < 100 → i + ops.length = n →
      (ops = [] → count = 0) →
      (runCmds t.srv t.db t.store (t.outq ++ ops.map (Cmd.elem key))).2.any Reply.isErr = true →
      (sendLoop key n i count ops t).1 = .abort := by
  induction ops with
  | nil =>
    intro i count t hin hout _ _ hc herr
    have hc := hc rfl
    subst hc
    have : t.outq = [] := List.eq_nil_of_length_eq_zero hout
    simp [this, runCmds] at herr
  | cons op ops ih =>
    intro i count t hin hout hlt hn _ herr
    obtain ⟨hsrv, hdb, hstore, houtq, hinq, hlog, hsent, hrecv, hflog⟩ := send_fields t (.elem key op)
    have hsplit : t.outq ++ (op :: ops).map (Cmd.elem key) = (t.outq ++ [Cmd.elem key op]) ++ ops.map (Cmd.elem key) := by simp
    rw [hsplit, runCmds_append] at herr
    simp only [any_append_true] at herr
    simp only [sendLoop]
    split
    · -- flush
      cases h1 : (runCmds t.srv t.db t.store (t.outq ++ [Cmd.elem key op])).2.any Reply.isErr with
      | true =>
        have hfa := flushCheck_abort (t.send (.elem key op)) (count + 1) (by rw [hinq, hin]) (by rw [houtq]; simp [hout])
          (by rw [hsrv, hdb, hstore, houtq]; exact h1)
        generalize hg : flushCheck (t.send (Cmd.elem key op)) (count + 1) = g at hfa
        obtain ⟨st, t2⟩ := g
        simp only at hfa
        subst hfa
        rfl
      | false =>
        have hfc := flushCheck_ok (t.send (.elem key op)) (count + 1) (by rw [hinq, hin]) (by rw [houtq]; simp [hout])
          (by rw [hsrv, hdb, hstore, houtq]; exact h1)
        rw [hfc]
        simp only
        apply ih (i + 1) 0
        · rfl
        · rfl
        · omega
        · simp at hn; omega
        · intro; rfl
        · simp only [List.nil_append, hsrv, hdb, hstore, houtq]
          rcases herr with h | h
          · rw [h1] at h; cases h
          · exact h
    · next hnf =>
      have hne : ops ≠ [] := by
        intro h; subst h; simp at hn; omega
      apply ih (i + 1) (count + 1) (t.send (.elem key op)) (by rw [hinq, hin]) (by rw [houtq]; simp [hout]) (by omega)
        (by simp at hn; omega) (by intro h; exact absurd h hne)
      rw [hsrv, hdb, hstore, houtq, runCmds_append]
      simp only [any_append_true]
      exact herr

/-- one quicklist node: the `count == 100` loop followed by `flushAndCheckReply(c, count)` -/
def loopThenFlush (key : Bytes) (i count : Nat) (ops : List ElemOp) (t : Target) : Status × Target :=
  match sendLoop key 0 i count ops t with
  | (.ok, t1, c) => flushCheck t1 c
  | (s, t1, _) => (s, t1)

theorem loopThenFlush_nil (key : Bytes) (i count : Nat) (t : Target) :
    loopThenFlush key i count [] t = flushCheck t count := by
  simp [loopThenFlush, sendLoop]

theorem loopThenFlush_cons (key : Bytes) (i count : Nat) (op : ElemOp) (ops : List ElemOp) (t : Target) :
    loopThenFlush key i count (op :: ops) t =
      if count + 1 = 100 ∨ i + 1 = 0 then
        (match flushCheck (t.send (.elem key op)) (count + 1) with
         | (.ok, t2) => loopThenFlush key (i + 1) 0 ops t2
         | (s, t2) => (s, t2))
      else loopThenFlush key (i + 1) (count + 1) ops (t.send (.elem key op)) := by
  simp only [loopThenFlush, sendLoop]
  by_cases hc : count + 1 = 100 ∨ i + 1 = 0
  · rw [if_pos hc, if_pos hc]
    generalize flushCheck (t.send (Cmd.elem key op)) (count + 1) = g
    obtain ⟨st, t2⟩ := g
    cases st <;> rfl
  · rw [if_neg hc, if_neg hc]

theorem loopThenFlush_ok (key : Bytes) (ops : List ElemOp) :
    ∀ (i count : Nat) (t : Target), t.inq = [] → t.outq.length = count → count < 100 →
      (runCmds t.srv t.db t.store (t.outq ++ ops.map (Cmd.elem key))).2.any Reply.isErr = false →
      loopThenFlush key i count ops t =
        (.ok, { t with store := (runCmds t.srv t.db t.store (t.outq ++ ops.map (Cmd.elem key))).1, outq := [], inq := [],
                       log := t.log ++ ops.map (Cmd.elem key), nSent := t.nSent + ops.length,
                       nRecv := t.nRecv + count + ops.length, flog := t.flog ++ batchesQ i count ops.length }) := by
  induction ops with
  | nil =>
    intro i count t hin hout _ hok
    rw [loopThenFlush_nil]
    simp only [List.map_nil, List.append_nil] at hok ⊢
    rw [flushCheck_ok t count hin hout hok]
    simp [batchesQ]
  | cons op ops ih =>
    intro i count t hin hout hlt hok
    obtain ⟨hsrv, hdb, hstore, houtq, hinq, hlog, hsent, hrecv, hflog⟩ := send_fields t (.elem key op)
    have hsplit : t.outq ++ (op :: ops).map (Cmd.elem key) = (t.outq ++ [Cmd.elem key op]) ++ ops.map (Cmd.elem key) := by simp
    rw [hsplit, runCmds_append] at hok
    simp only [any_append_false] at hok
    rw [hsplit, runCmds_append, loopThenFlush_cons]
    by_cases hc : count + 1 = 100 ∨ i + 1 = 0
    · rw [if_pos hc]
      have hfc := flushCheck_ok (t.send (.elem key op)) (count + 1) (by rw [hinq, hin]) (by rw [houtq]; simp [hout])
        (by rw [hsrv, hdb, hstore, houtq]; exact hok.1)
      rw [hfc]
      simp only
      rw [ih (i + 1) 0]
      · simp only [List.nil_append, hsrv, hdb, hstore, houtq, hlog, hsent, hrecv, hflog]
        simp only [List.map_cons, List.length_cons, batchesQ, hc, if_true, List.append_assoc, List.singleton_append,
          List.cons_append, List.nil_append, Prod.mk.injEq, true_and]
        congr 1 <;> omega
      · rfl
      · rfl
      · omega
      · simp only [List.nil_append, hsrv, hdb, hstore, houtq]; exact hok.2
    · rw [if_neg hc]
      rw [ih (i + 1) (count + 1) (t.send (.elem key op)) (by rw [hinq, hin]) (by rw [houtq]; simp [hout]) (by omega)
        (by rw [hsrv, hdb, hstore, houtq, runCmds_append]; simp only [any_append_false]; exact hok)]
      simp only [hsrv, hdb, hstore, houtq, hlog, hsent, hrecv, hflog, runCmds_append]
      simp only [List.map_cons, List.length_cons, batchesQ, hc, if_false, List.append_assoc, List.singleton_append,
        Prod.mk.injEq, true_and]
      congr 1 <;> omega

theorem loopThenFlush_abort (key : Bytes) (ops : List ElemOp) :
    ∀ (i count : Nat) (t : Target), t.inq = [] → t.outq.length = count → count < 100 →
      (runCmds t.srv t.db t.store (t.outq ++ ops.map (Cmd.elem key))).2.any Reply.isErr = true →
      (loopThenFlush key i count ops t).1 = .abort := by
  induction ops with
  | nil =>
    intro i count t hin hout _ herr
    rw [loopThenFlush_nil]
    simp only [List.map_nil, List.append_nil] at herr
    exact flushCheck_abort t count hin hout herr
  | cons op ops ih =>
    intro i count t hin hout hlt herr
    obtain ⟨hsrv, hdb, hstore, houtq, hinq, hlog, hsent, hrecv, hflog⟩ := send_fields t (.elem key op)
    have hsplit : t.outq ++ (op :: ops).map (Cmd.elem key) = (t.outq ++ [Cmd.elem key op]) ++ ops.map (Cmd.elem key) := by simp
    rw [hsplit, runCmds_append] at herr
    simp only [any_append_true] at herr
    rw [loopThenFlush_cons]
    by_cases hc : count + 1 = 100 ∨ i + 1 = 0
    · rw [if_pos hc]
      cases h1 : (runCmds t.srv t.db t.store (t.outq ++ [Cmd.elem key op])).2.any Reply.isErr with
      | true =>
        have hfa := flushCheck_abort (t.send (.elem key op)) (count + 1) (by rw [hinq, hin]) (by rw [houtq]; simp [hout])
          (by rw [hsrv, hdb, hstore, houtq]; exact h1)
        generalize hg : flushCheck (t.send (Cmd.elem key op)) (count + 1) = g at hfa
        obtain ⟨st, t2⟩ := g
        simp only at hfa
        subst hfa
        rfl
      | false =>
        have hfc := flushCheck_ok (t.send (.elem key op)) (count + 1) (by rw [hinq, hin]) (by rw [houtq]; simp [hout])
          (by rw [hsrv, hdb, hstore, houtq]; exact h1)
        rw [hfc]
        simp only
        apply ih (i + 1) 0
        · rfl
        · rfl
        · omega
        · simp only [List.nil_append, hsrv, hdb, hstore, houtq]
          rcases herr with h | h
          · rw [h1] at h; cases h
          · exact h
    · rw [if_neg hc]
      apply ih (i + 1) (count + 1) (t.send (.elem key op)) (by rw [hinq, hin]) (by rw [houtq]; simp [hout]) (by omega)
      rw [hsrv, hdb, hstore, houtq, runCmds_append]
      simp only [any_append_true]
      exact herr

/-! ### the loops in terms of the fold on the key's binding -/

theorem sendLoop_fold_ok (key : Bytes) (n : Nat) (ops : List ElemOp) (t : Target) (hin : t.inq = []) (hout : t.outq = [])
    (hn : ops.length = n) (b' : Option Binding) (h : foldOps t.srv.ft (t.store.ks t.db key) ops = .ok b') :
    sendLoop key n 0 0 ops t =
      (.ok, { t with store := { t.store with ks := t.store.ks.put t.db key b' }, outq := [], inq := [],
                     log := t.log ++ ops.map (Cmd.elem key), nSent := t.nSent + ops.length,
                     nRecv := t.nRecv + ops.length, flog := t.flog ++ batches n 0 0 ops.length }, 0) := by
  have hr := runCmds_elems_ok t.srv t.db key ops t.store b' h
  have := sendLoop_ok key n ops 0 0 t hin (by simp [hout]) (by omega) (by omega)
    (by intro; rfl) (by rw [hout]; simpa using hr.2)
  rw [this, hout]
  simp only [List.nil_append, hr.1, Nat.add_zero]

theorem sendLoop_fold_abort (key : Bytes) (n : Nat) (ops : List ElemOp) (t : Target) (hin : t.inq = []) (hout : t.outq = [])
    (hn : ops.length = n) (e : ErrKind) (h : foldOps t.srv.ft (t.store.ks t.db key) ops = .error e) :
    (sendLoop key n 0 0 ops t).1 = .abort := by
  have hr := runCmds_elems_err t.srv t.db key ops t.store e h
  exact sendLoop_abort key n ops 0 0 t hin (by simp [hout]) (by omega) (by omega) (by intro; rfl)
    (by rw [hout]; simpa using hr)

theorem loopThenFlush_fold_ok (key : Bytes) (ops : List ElemOp) (t : Target) (hin : t.inq = []) (hout : t.outq = [])
    (b' : Option Binding) (h : foldOps t.srv.ft (t.store.ks t.db key) ops = .ok b') :
    loopThenFlush key 0 0 ops t =
      (.ok, { t with store := { t.store with ks := t.store.ks.put t.db key b' }, outq := [], inq := [],
                     log := t.log ++ ops.map (Cmd.elem key), nSent := t.nSent + ops.length,
                     nRecv := t.nRecv + ops.length, flog := t.flog ++ batchesQ 0 0 ops.length }) := by
  have hr := runCmds_elems_ok t.srv t.db key ops t.store b' h
  have := loopThenFlush_ok key ops 0 0 t hin (by simp [hout]) (by omega) (by rw [hout]; simpa using hr.2)
  rw [this, hout]
  simp only [List.nil_append, hr.1, Nat.add_zero]

theorem loopThenFlush_fold_abort (key : Bytes) (ops : List ElemOp) (t : Target) (hin : t.inq = []) (hout : t.outq = [])
    (e : ErrKind) (h : foldOps t.srv.ft (t.store.ks t.db key) ops = .error e) :
    (loopThenFlush key 0 0 ops t).1 = .abort := by
  have hr := runCmds_elems_err t.srv t.db key ops t.store e h
  exact loopThenFlush_abort key ops 0 0 t hin (by simp [hout]) (by omega) (by rw [hout]; simpa using hr)

/-! ### the fold builds the logical value -/

theorem foldOps_list (ft : FloatText) (xs acc : List Bytes) (exp : Option Nat) :
    foldOps ft (some (.list acc, exp)) (xs.map .rpush) = .ok (some (.list (acc ++ xs), exp)) := by
  induction xs generalizing acc with
  | nil => simp [foldOps]
  | cons x xs ih => simp [foldOps, applyElem, ih]

theorem foldOps_set (ft : FloatText) (xs acc : List Bytes) (exp : Option Nat) :
    foldOps ft (some (.set acc, exp)) (xs.map .sadd) =
      .ok (some (.set (xs.foldl (fun a m => insertMember m a) acc), exp)) := by
  induction xs generalizing acc with
  | nil => simp [foldOps]
  | cons x xs ih => simp [foldOps, applyElem, ih]

theorem foldOps_hash (ft : FloatText) (fvs acc : List (Bytes × Bytes)) (exp : Option Nat) :
    foldOps ft (some (.hash acc, exp)) (fvs.map fun p => .hset p.1 p.2) =
      .ok (some (.hash (fvs.foldl (fun a p => upsert p.1 p.2 a) acc), exp)) := by
  induction fvs generalizing acc with
  | nil => simp [foldOps]
  | cons x xs ih => simp [foldOps, applyElem, ih]

theorem foldOps_zset (ft : FloatText) (ms : List (Bytes × Score)) (acc : List (Bytes × Score)) (exp : Option Nat)
    (h : ∀ p ∈ ms, ft.parse (ft.fmt p.2) = some p.2 ∧ isNaN p.2 = false) :
    foldOps ft (some (.zset acc, exp)) (ms.map fun p => .zadd (ft.fmt p.2) p.1) =
      .ok (some (.zset (ms.foldl (fun a p => upsert p.1 p.2 a) acc), exp)) := by
  induction ms generalizing acc with
  | nil => simp [foldOps]
  | cons x xs ih =>
    have hx := h x (by simp)
    have := ih (upsert x.1 x.2 acc) (fun p hp => h p (by simp [hp]))
    simp [foldOps, applyElem, hx.1, hx.2, this]

theorem foldOps_zsetText (ft : FloatText) (ms : List (Bytes × Bytes)) (acc : List (Bytes × Score)) (exp : Option Nat)
    (h : ∀ p ∈ ms, ∃ sc, ft.parse p.2 = some sc ∧ isNaN sc = false) :
    foldOps ft (some (.zset acc, exp)) (ms.map fun p => .zadd p.2 p.1) =
      .ok (some (.zset (ms.foldl (fun a p => upsert p.1 ((ft.parse p.2).getD 0) a) acc), exp)) := by
  induction ms generalizing acc with
  | nil => simp [foldOps]
  | cons x xs ih =>
    obtain ⟨sc, hp, hn⟩ := h x (by simp)
    have := ih (upsert x.1 sc acc) (fun p hp => h p (by simp [hp]))
    simp [foldOps, applyElem, hp, hn, this]

/-- no element carries a NaN score -/
def Elems.NoNaN (ft : FloatText) : Elems → Prop
  | .zset ms => ∀ p ∈ ms, isNaN p.2 = false
  | .zsetText ms => ∀ p ∈ ms, ∀ sc, ft.parse p.2 = some sc → isNaN sc = false
  | _ => True

/-- Sending the elements one by one to an absent key builds exactly the logical value. -/
theorem foldOps_logical (ft : FloatText) (hrt : ft.RoundTrips) (elems : Elems) (hne : elems.length ≠ 0)
    (hnan : elems.NoNaN ft) (v : LValue) (hv : elems.logical ft = some v) :
    foldOps ft none (elems.ops ft) = .ok (some (v, none)) := by
  cases elems with
  | list xs =>
    cases xs with
    | nil => simp [Elems.length] at hne
    | cons x xs =>
      simp only [Elems.logical, Option.some.injEq] at hv
      subst hv
      have := foldOps_list ft xs [x] none
      simpa [Elems.ops, foldOps, applyElem] using this
  | set xs =>
    cases xs with
    | nil => simp [Elems.length] at hne
    | cons x xs =>
      simp only [Elems.logical, Option.some.injEq] at hv
      subst hv
      have := foldOps_set ft xs [x] none
      simpa [Elems.ops, foldOps, applyElem, insertMember] using this
  | hash fvs =>
    cases fvs with
    | nil => simp [Elems.length] at hne
    | cons x xs =>
      simp only [Elems.logical, Option.some.injEq] at hv
      subst hv
      have := foldOps_hash ft xs [x] none
      simpa [Elems.ops, foldOps, applyElem, upsert] using this
  | zset ms =>
    cases ms with
    | nil => simp [Elems.length] at hne
    | cons x xs =>
      simp only [Elems.logical, Option.some.injEq] at hv
      subst hv
      have hx : isNaN x.2 = false := hnan x (by simp)
      have := foldOps_zset ft xs [x] none (fun p hp => ⟨hrt p.2 (hnan p (by simp [hp])), hnan p (by simp [hp])⟩)
      simpa [Elems.ops, foldOps, applyElem, upsert, hrt x.2 hx, hx] using this
  | zsetText ms =>
    cases ms with
    | nil => simp [Elems.length] at hne
    | cons x xs =>
      simp only [Elems.logical] at hv
      by_cases hallb : ((x :: xs).all fun p => (ft.parse p.2).isSome) = true
      · rw [if_pos hallb] at hv
        simp only [Option.some.injEq] at hv
        subst hv
        have hall : ∀ p ∈ x :: xs, ∃ sc, ft.parse p.2 = some sc := by
          intro p hp
          have := List.all_eq_true.mp hallb p hp
          exact Option.isSome_iff_exists.mp this
        obtain ⟨sc, hp⟩ := hall x (by simp)
        have hx : isNaN sc = false := hnan x (by simp) sc hp
        have := foldOps_zsetText ft xs [(x.1, sc)] none (fun p hp' => by
          obtain ⟨sc', hp''⟩ := hall p (by simp [hp'])
          exact ⟨sc', hp'', hnan p (by simp [hp']) sc' hp''⟩)
        simpa [Elems.ops, foldOps, applyElem, upsert, hp, hx] using this
      · rw [if_neg hallb] at hv
        cases hv

/-! ### expansions -/

theorem readMany_length {α : Type} (f : R α) : ∀ (n : Nat) (inp : Bytes) (xs : List α),
    readMany f n inp = (xs, true) → xs.length = n := by
  intro n
  induction n with
  | zero => intro inp xs h; simp [readMany] at h; simp [h]
  | succ n ih =>
    intro inp xs h
    simp only [readMany] at h
    split at h
    · simp at h
    · next a r _ =>
      generalize hg : readMany f n r = g at h
      obtain ⟨ys, c⟩ := g
      simp only [Prod.mk.injEq] at h
      obtain ⟨h1, h2⟩ := h
      subst h1 h2
      simp [ih r ys hg]

/-- the parameter announces as many elements as it delivers when it says `complete` -/
def Params.WF (P : Params) : Prop :=
  ∀ t blob ex, P.expand t blob = some ex → ex.complete = true → ex.elems.length = ex.n

theorem readElems_length (ft : FloatText) (ty n : Nat) (r : Bytes) (h : (readElems ft ty n r).2 = true) :
    (readElems ft ty n r).1.length = n := by
  unfold readElems at h ⊢
  split at h <;> simp only [Elems.length] <;> exact readMany_length _ n r _ (Prod.ext rfl h)

theorem expansion_length (P : Params) (hP : P.WF) (ty : UInt8) (nrl rmc : Nat) (inp : Bytes) (ex : Expansion)
    (h : expansion P ty nrl rmc inp = some ex) (hc : ex.complete = true) : ex.elems.length = ex.n := by
  unfold expansion at h
  split at h
  · split at h
    · cases h
    · simp only [Option.some.injEq] at h
      subst h
      exact readElems_length _ _ _ _ hc
  · split at h
    · simp only [Option.some.injEq] at h
      subst h
      exact readElems_length _ _ _ _ hc
    · split at h
      · split at h
        · cases h
        · exact hP _ _ _ h hc
      · cases h

/-! ### `ran`: the target after a group of commands went through with every reply consumed -/

/-- the connection is quiescent again, the keyspace is `ks'`, the commands `cmds` were sent and answered -/
def _root_.RSVerif.Spec.MiniRedisC02.Target.ran (t : Target) (ks' : Keyspace) (cmds : List Cmd) (fl : List Nat) : Target :=
  { t with store := { t.store with ks := ks' }, outq := [], inq := [], log := t.log ++ cmds,
           nSent := t.nSent + cmds.length, nRecv := t.nRecv + cmds.length, flog := t.flog ++ fl }

@[simp] theorem ran_srv (t : Target) (ks : Keyspace) (cs : List Cmd) (fl : List Nat) : (t.ran ks cs fl).srv = t.srv := rfl
@[simp] theorem ran_db (t : Target) (ks : Keyspace) (cs : List Cmd) (fl : List Nat) : (t.ran ks cs fl).db = t.db := rfl
@[simp] theorem ran_ks (t : Target) (ks : Keyspace) (cs : List Cmd) (fl : List Nat) : (t.ran ks cs fl).store.ks = ks := rfl
@[simp] theorem ran_scripts (t : Target) (ks : Keyspace) (cs : List Cmd) (fl : List Nat) : (t.ran ks cs fl).store.scripts = t.store.scripts := rfl
@[simp] theorem ran_outq (t : Target) (ks : Keyspace) (cs : List Cmd) (fl : List Nat) : (t.ran ks cs fl).outq = [] := rfl
@[simp] theorem ran_inq (t : Target) (ks : Keyspace) (cs : List Cmd) (fl : List Nat) : (t.ran ks cs fl).inq = [] := rfl
@[simp] theorem ran_log (t : Target) (ks : Keyspace) (cs : List Cmd) (fl : List Nat) : (t.ran ks cs fl).log = t.log ++ cs := rfl
@[simp] theorem ran_nSent (t : Target) (ks : Keyspace) (cs : List Cmd) (fl : List Nat) : (t.ran ks cs fl).nSent = t.nSent + cs.length := rfl
@[simp] theorem ran_nRecv (t : Target) (ks : Keyspace) (cs : List Cmd) (fl : List Nat) : (t.ran ks cs fl).nRecv = t.nRecv + cs.length := rfl
@[simp] theorem ran_get (t : Target) (ks : Keyspace) (cs : List Cmd) (fl : List Nat) (k : Bytes) : (t.ran ks cs fl).get k = ks t.db k := rfl

@[simp] theorem ran_flog (t : Target) (ks : Keyspace) (cs : List Cmd) (fl : List Nat) : (t.ran ks cs fl).flog = t.flog ++ fl := rfl

@[simp] theorem ran_ran (t : Target) (ks1 ks2 : Keyspace) (c1 c2 : List Cmd) (f1 f2 : List Nat) :
    (t.ran ks1 c1 f1).ran ks2 c2 f2 = t.ran ks2 (c1 ++ c2) (f1 ++ f2) := by
  simp [Target.ran, List.append_assoc, Nat.add_assoc]

theorem ran_nil (t : Target) (hin : t.inq = []) (hout : t.outq = []) : t.ran t.store.ks [] [] = t := by
  obtain ⟨srv, db, store, outq, inq, log, nSent, nRecv, flog⟩ := t
  simp_all [Target.ran]

theorem ops_length (ft : FloatText) (el : Elems) : (el.ops ft).length = el.length := by
  cases el <;> simp [Elems.ops, Elems.length]

/-- `Do` of a command that leaves the script store alone -/
theorem doCmd_ran (t : Target) (c : Cmd) (hin : t.inq = []) (hout : t.outq = [])
    (hs : (exec t.srv t.db t.store c).1.scripts = t.store.scripts) :
    t.doCmd c = ((exec t.srv t.db t.store c).2, t.ran (exec t.srv t.db t.store c).1.ks [c] [1]) := by
  rw [doCmd_idle t c hin hout]
  simp only [Target.ran, List.length_singleton, Prod.mk.injEq, true_and]
  congr 1
  generalize exec t.srv t.db t.store c = r at hs
  obtain ⟨⟨ks, sc⟩, rep⟩ := r
  simp only at hs
  subst hs
  rfl

theorem sendLoop_ran (key : Bytes) (n : Nat) (ops : List ElemOp) (t : Target) (hin : t.inq = []) (hout : t.outq = [])
    (hn : ops.length = n) (b' : Option Binding) (h : foldOps t.srv.ft (t.store.ks t.db key) ops = .ok b') :
    sendLoop key n 0 0 ops t = (.ok, t.ran (t.store.ks.put t.db key b') (ops.map (Cmd.elem key)) (batches n 0 0 ops.length), 0) := by
  rw [sendLoop_fold_ok key n ops t hin hout hn b' h]
  simp [Target.ran]

theorem loopThenFlush_ran (key : Bytes) (ops : List ElemOp) (t : Target) (hin : t.inq = []) (hout : t.outq = [])
    (b' : Option Binding) (h : foldOps t.srv.ft (t.store.ks t.db key) ops = .ok b') :
    loopThenFlush key 0 0 ops t = (.ok, t.ran (t.store.ks.put t.db key b') (ops.map (Cmd.elem key)) (batchesQ 0 0 ops.length)) := by
  rw [loopThenFlush_fold_ok key ops t hin hout b' h]
  simp [Target.ran]

/-! ### restoreBigRdbEntry -/

theorem sendExpansion_ok (P : Params) (key : Bytes) (ex : Expansion) (t : Target) (hin : t.inq = []) (hout : t.outq = [])
    (hft : t.srv.ft = P.ft) (hc : ex.complete = true) (hl : ex.elems.length = ex.n)
    (b' : Option Binding) (h : foldOps P.ft (t.store.ks t.db key) (ex.elems.ops P.ft) = .ok b') :
    sendExpansion P key ex t = (.ok, t.ran (t.store.ks.put t.db key b') ((ex.elems.ops P.ft).map (Cmd.elem key))
      (batches ex.n 0 0 (ex.elems.ops P.ft).length)) := by
  unfold sendExpansion
  rw [sendLoop_ran key ex.n _ t hin hout (by rw [ops_length, hl]) b' (by rw [hft]; exact h)]
  simp [hc]

theorem sendExpansion_abort (P : Params) (key : Bytes) (ex : Expansion) (t : Target) (hin : t.inq = []) (hout : t.outq = [])
    (hft : t.srv.ft = P.ft) (hl : ex.elems.length = ex.n)
    (e : ErrKind) (h : foldOps P.ft (t.store.ks t.db key) (ex.elems.ops P.ft) = .error e) :
    (sendExpansion P key ex t).1 = .abort := by
  unfold sendExpansion
  have := sendLoop_fold_abort key ex.n (ex.elems.ops P.ft) t hin hout (by rw [ops_length, hl]) e (by rw [hft]; exact h)
  generalize sendLoop key ex.n 0 0 (ex.elems.ops P.ft) t = g at this
  obtain ⟨st, t1, c⟩ := g
  change st = .abort at this
  subst this
  rfl

/-- a collection payload through `restoreBigRdbEntry`, in terms of the fold on the key's binding -/
theorem restoreBig_coll_ok (P : Params) (key : Bytes) (e : Entry) (t : Target) (ty : UInt8) (inp : Bytes) (ex : Expansion)
    (hv : e.value = ty :: inp) (h0 : ty ≠ 0) (h14 : ty ≠ 14)
    (hex : expansion P ty e.needReadLen e.realMemberCount inp = some ex)
    (hin : t.inq = []) (hout : t.outq = []) (hft : t.srv.ft = P.ft) (hc : ex.complete = true) (hl : ex.elems.length = ex.n)
    (b' : Option Binding) (h : foldOps P.ft (t.store.ks t.db key) (ex.elems.ops P.ft) = .ok b') :
    restoreBigRdbEntry P key e t =
      (.ok, t.ran (t.store.ks.put t.db key b') ((ex.elems.ops P.ft).map (Cmd.elem key))
        (batches ex.n 0 0 (ex.elems.ops P.ft).length)) := by
  unfold restoreBigRdbEntry
  rw [hv]
  simp only [h0, h14, if_false, hex]
  exact sendExpansion_ok P key ex t hin hout hft hc hl b' h

theorem restoreBig_coll_abort (P : Params) (key : Bytes) (e : Entry) (t : Target) (ty : UInt8) (inp : Bytes) (ex : Expansion)
    (hv : e.value = ty :: inp) (h0 : ty ≠ 0) (h14 : ty ≠ 14)
    (hex : expansion P ty e.needReadLen e.realMemberCount inp = some ex)
    (hin : t.inq = []) (hout : t.outq = []) (hft : t.srv.ft = P.ft) (hl : ex.elems.length = ex.n)
    (er : ErrKind) (h : foldOps P.ft (t.store.ks t.db key) (ex.elems.ops P.ft) = .error er) :
    (restoreBigRdbEntry P key e t).1 = .abort := by
  unfold restoreBigRdbEntry
  rw [hv]
  simp only [h0, h14, if_false, hex]
  exact sendExpansion_abort P key ex t hin hout hft hl er h

/-- a string payload through `restoreBigRdbEntry`: one SET, whatever the key held -/
theorem restoreBig_str (P : Params) (key : Bytes) (e : Entry) (t : Target) (inp v r : Bytes)
    (hv : e.value = 0 :: inp) (hs : readString inp = .ok (v, r)) (hin : t.inq = []) (hout : t.outq = []) :
    restoreBigRdbEntry P key e t = (.ok, t.ran (t.store.ks.put t.db key (some (.str v, none))) [.set key v] [1]) := by
  unfold restoreBigRdbEntry
  rw [hv]
  simp only [if_true, hs]
  rw [doCmd_ran t _ hin hout (by simp [exec])]
  simp [exec]

/-! ### `exec` facts -/

theorem exec_scripts (srv : Server) (d : Nat) (s : Store) (c : Cmd) (h : ∀ b, c ≠ .scriptLoad b) :
    (exec srv d s c).1.scripts = s.scripts := by
  cases c with
  | scriptLoad b => exact absurd rfl (h b)
  | restore k ttl p i f r =>
    simp only [exec]
    split
    · rfl
    · split
      · rfl
      · split
        · rfl
        · split
          · rfl
          · split <;> rfl
  | elem k op => simp only [exec]; split <;> rfl
  | pexpire k ms => simp only [exec]; split <;> (try split) <;> rfl
  | _ => rfl

theorem exec_restore_fresh (srv : Server) (d : Nat) (s : Store) (k : Bytes) (ttl : Nat) (p : Bytes) (i f : Option Nat)
    (rep : Bool) (ty : UInt8) (inp : Bytes) (v : LValue) (hp : p = ty :: inp) (htr : srv.trailerOk p = true)
    (hacc : srv.accepts ty = true) (hload : srv.load p = some v) (hfree : rep = true ∨ s.ks d k = none) :
    exec srv d s (.restore k ttl p i f rep) =
      ({ s with ks := s.ks.put d k (some (v, if ttl = 0 then none else some (srv.now + ttl))) }, .ok) := by
  subst hp
  unfold exec
  rcases hfree with h | h <;> simp_all

theorem exec_restore_busy (srv : Server) (d : Nat) (s : Store) (k : Bytes) (ttl : Nat) (p : Bytes) (i f : Option Nat)
    (hbusy : (s.ks d k).isSome = true) :
    exec srv d s (.restore k ttl p i f false) = (s, .err (busyErr srv)) := by
  unfold exec
  simp [hbusy]

theorem exec_restore_rejected (srv : Server) (d : Nat) (s : Store) (k : Bytes) (ttl : Nat) (p : Bytes) (i f : Option Nat)
    (rep : Bool) (ty : UInt8) (inp : Bytes) (hp : p = ty :: inp) (htr : srv.trailerOk p = true)
    (hacc : srv.accepts ty = false) (hfree : rep = true ∨ s.ks d k = none) :
    exec srv d s (.restore k ttl p i f rep) = (s, .err .badData) := by
  subst hp
  unfold exec
  rcases hfree with h | h <;> simp_all

theorem busyErr_cases (srv : Server) : busyErr srv = .busy ∨ busyErr srv = .busyOld := by
  unfold busyErr; split <;> simp

/-- after the call the connection is quiescent, the server, database and scripts are the same, and every command
    sent has had its reply consumed -/
def Quiet (t t' : Target) : Prop :=
  t'.outq = [] ∧ t'.inq = [] ∧ t'.store.scripts = t.store.scripts ∧ t'.srv = t.srv ∧ t'.db = t.db ∧
  t'.nSent + t.nRecv = t'.nRecv + t.nSent

theorem quiet_ran (t : Target) (ks : Keyspace) (cs : List Cmd) (fl : List Nat) : Quiet t (t.ran ks cs fl) := by
  simp [Quiet]; omega

theorem quiet_refl (t : Target) (hin : t.inq = []) (hout : t.outq = []) : Quiet t t := by
  simp [Quiet, hin, hout]; omega

/-! ### TTL -/

theorem ttlMs_pos (cfg : Cfg) (nowNs expireAt : Nat) (h : expireAt ≠ 0) : ttlMs cfg nowNs expireAt ≠ 0 := by
  unfold ttlMs
  simp only [h, if_false]
  split <;> omega

theorem expiry_restore (cfg : Cfg) (nowNs srvNow expireAt : Nat) :
    (if ttlMs cfg nowNs expireAt = 0 then none else some (srvNow + ttlMs cfg nowNs expireAt)) =
      expiryOf cfg nowNs srvNow expireAt := by
  unfold expiryOf
  by_cases h : expireAt = 0
  · simp [h, ttlMs]
  · simp [h, ttlMs_pos cfg nowNs expireAt h]

/-- `PEXPIRE` on a key that is there -/
theorem pexpireStep_some (key : Bytes) (ttl : Nat) (onErr : Result) (t : Target) (hin : t.inq = []) (hout : t.outq = [])
    (v : LValue) (x : Option Nat) (hk : t.store.ks t.db key = some (v, x)) (httl : ttl ≠ 0) :
    pexpireStep key ttl onErr t =
      (t.ran (t.store.ks.put t.db key (some (v, some (t.srv.now + ttl)))) [.pexpire key ttl] [1], .ok) := by
  unfold pexpireStep
  rw [doCmd_ran t _ hin hout (exec_scripts _ _ _ _ (by simp))]
  simp [exec, hk, httl]

/-! ### what a payload decodes to, in the shape the element-wise route walks it -/

/-- `Decodes P e v`: the payload of `e` is readable to its end and holds the non-empty value `v`. -/
inductive Decodes (P : Params) (e : Entry) : LValue → Prop
  | str (inp v r : Bytes) : e.value = 0 :: inp → readString inp = .ok (v, r) → Decodes P e (.str v)
  | coll (ty : UInt8) (inp : Bytes) (ex : Expansion) (v : LValue) : e.value = ty :: inp → ty ≠ 0 → ty ≠ 14 →
      expansion P ty e.needReadLen e.realMemberCount inp = some ex → ex.complete = true →
      ex.elems.length ≠ 0 → ex.elems.NoNaN P.ft → ex.elems.logical P.ft = some v → Decodes P e v

/-- The element-wise route on an absent key builds the decoded value (no expiry yet). -/
theorem restoreBig_builds (P : Params) (hP : P.WF) (hrt : P.ft.RoundTrips) (key : Bytes) (e : Entry) (t : Target)
    (v : LValue) (hd : Decodes P e v) (hin : t.inq = []) (hout : t.outq = []) (hft : t.srv.ft = P.ft)
    (hk : t.store.ks t.db key = none) :
    ∃ cmds fl, restoreBigRdbEntry P key e t = (.ok, t.ran (t.store.ks.put t.db key (some (v, none))) cmds fl) := by
  cases hd with
  | str inp v r hv hs => exact ⟨_, _, restoreBig_str P key e t inp v r hv hs hin hout⟩
  | coll ty inp ex v hv h0 h14 hex hc hne hnan hlog =>
    refine ⟨_, _, restoreBig_coll_ok P key e t ty inp ex hv h0 h14 hex hin hout hft hc
      (expansion_length P hP ty _ _ inp ex hex hc) (some (v, none)) ?_⟩
    rw [hk]
    exact foldOps_logical P.ft hrt ex.elems hne hnan v hlog

/-- building the value and then setting its expiry: the tail shared by the big-key route and the fallback -/
theorem bigThenExpire_builds (P : Params) (hP : P.WF) (hrt : P.ft.RoundTrips) (cfg : Cfg) (nowNs : Nat) (key : Bytes)
    (e : Entry) (t : Target) (v : LValue) (hd : Decodes P e v) (hin : t.inq = []) (hout : t.outq = [])
    (hft : t.srv.ft = P.ft) (hk : t.store.ks t.db key = none) :
    ∃ cmds fl, bigThenExpire P key (ttlMs cfg nowNs e.expireAt) e true t =
      (t.ran (t.store.ks.put t.db key (some (v, expiryOf cfg nowNs t.srv.now e.expireAt))) cmds fl, Result.ok) := by
  obtain ⟨cmds, fl, hb⟩ := restoreBig_builds P hP hrt key e t v hd hin hout hft hk
  unfold bigThenExpire
  rw [hb]
  simp only
  by_cases hx : e.expireAt = 0
  · exact ⟨cmds, fl, by simp [hx, expiryOf]⟩
  · refine ⟨cmds ++ [.pexpire key (ttlMs cfg nowNs e.expireAt)], fl ++ [1], ?_⟩
    simp only [hx, ne_eq, not_false_eq_true, and_self, if_true]
    rw [pexpireStep_some key _ .error _ (by simp) (by simp) v none (by simp [put_same]) (ttlMs_pos cfg nowNs _ hx)]
    simp [put_put, expiryOf, hx]

/-! ### quicklist -/

theorem foldOps_append (ft : FloatText) (cur : Option Binding) (a b : List ElemOp) :
    foldOps ft cur (a ++ b) = (match foldOps ft cur a with
      | .ok c => foldOps ft c b
      | .error e => .error e) := by
  induction a generalizing cur with
  | nil => simp [foldOps]
  | cons x xs ih =>
    simp only [List.cons_append, foldOps]
    split
    · exact ih _
    · rfl

theorem sendNodes_cons (P : Params) (key : Bytes) (ex : Expansion) (rest : List (Option Expansion)) (t : Target)
    (hc : ex.complete = true) :
    sendNodes P key (some ex :: rest) t =
      (match loopThenFlush key 0 0 (ex.elems.ops P.ft) t with
       | (.ok, t2) => sendNodes P key rest t2
       | r => r) := by
  simp only [sendNodes, loopThenFlush, hc, if_true]
  generalize sendLoop key 0 0 0 (ex.elems.ops P.ft) t = g
  obtain ⟨st, t1, c⟩ := g
  cases st <;> simp only
  generalize flushCheck t1 c = g2
  obtain ⟨st2, t2⟩ := g2
  cases st2 <;> rfl

/-- the entries of complete list nodes, in order -/
def nodeItems (nodes : List Expansion) : List Bytes := nodes.flatMap (·.elems.items)

theorem sendNodes_ran (P : Params) (key : Bytes) (nodes : List Expansion) :
    ∀ (t : Target), t.inq = [] → t.outq = [] → t.srv.ft = P.ft →
      (∀ ex ∈ nodes, ex.complete = true ∧ ∃ xs, ex.elems = .list xs) →
      ∀ b', foldOps P.ft (t.store.ks t.db key) ((nodeItems nodes).map .rpush) = .ok b' →
      ∃ cmds fl, sendNodes P key (nodes.map some) t = (Status.ok, t.ran (t.store.ks.put t.db key b') cmds fl) := by
  induction nodes with
  | nil =>
    intro t hin hout _ _ b' h
    simp only [nodeItems, List.flatMap_nil, List.map_nil, foldOps, Except.ok.injEq] at h
    subst h
    exact ⟨[], [], by simp [sendNodes, put_self, ran_nil t hin hout]⟩
  | cons ex rest ih =>
    intro t hin hout hft hall b' h
    obtain ⟨hc, xs, hxs⟩ := hall ex (by simp)
    have hitems : nodeItems (ex :: rest) = xs ++ nodeItems rest := by
      simp [nodeItems, hxs, Elems.items]
    rw [hitems, List.map_append, foldOps_append] at h
    cases hfa : foldOps P.ft (t.store.ks t.db key) (xs.map .rpush) with
    | error er => simp [hfa] at h
    | ok c =>
      simp only [hfa] at h
      simp only [List.map_cons]
      rw [sendNodes_cons P key ex _ t hc]
      have hops : ex.elems.ops P.ft = xs.map .rpush := by simp [hxs, Elems.ops]
      rw [hops, loopThenFlush_ran key _ t hin hout c (by rw [hft]; exact hfa)]
      simp only
      obtain ⟨cmds, fl, hrest⟩ := ih (t.ran (t.store.ks.put t.db key c) ((xs.map .rpush).map (Cmd.elem key))
          (batchesQ 0 0 (xs.map ElemOp.rpush).length))
        (by simp) (by simp) (by simpa using hft) (fun ex' hex' => hall ex' (by simp [hex'])) b'
        (by simpa [put_same] using h)
      rw [hrest]
      refine ⟨((xs.map .rpush).map (Cmd.elem key)) ++ cmds, batchesQ 0 0 (xs.map ElemOp.rpush).length ++ fl, ?_⟩
      simp [put_put]

/-- `QDecodes P e items`: a quicklist payload whose nodes are all readable, complete ziplists of list entries -/
def QDecodes (P : Params) (e : Entry) (items : List Bytes) : Prop :=
  ∃ (t0 : UInt8) (inp : Bytes) (nodes : List Expansion),
    e.value = t0 :: inp ∧ quicklistNodes P inp = some (nodes.map some, true) ∧
    (∀ ex ∈ nodes, ex.complete = true ∧ ∃ xs, ex.elems = .list xs) ∧ items = nodeItems nodes ∧ items ≠ []

/-- `restoreQuicklistEntry` on an absent key pushes every entry of every node, in order -/
theorem restoreQuicklist_builds (P : Params) (hrt : P.ft.RoundTrips) (key : Bytes) (e : Entry) (t : Target)
    (items : List Bytes) (hd : QDecodes P e items) (hin : t.inq = []) (hout : t.outq = []) (hft : t.srv.ft = P.ft)
    (hk : t.store.ks t.db key = none) :
    ∃ cmds fl, restoreQuicklistEntry P key e.value t =
      (Status.ok, t.ran (t.store.ks.put t.db key (some (.list items, none))) cmds fl) := by
  obtain ⟨t0, inp, nodes, hv, hq, hall, hitems, hne⟩ := hd
  have hfold : foldOps P.ft (t.store.ks t.db key) ((nodeItems nodes).map .rpush) = .ok (some (.list items, none)) := by
    rw [hk, ← hitems]
    have := foldOps_logical P.ft hrt (.list items) (by simpa [Elems.length] using hne) trivial (.list items) rfl
    simpa [Elems.ops] using this
  obtain ⟨cmds, fl, hs⟩ := sendNodes_ran P key nodes t hin hout hft hall _ hfold
  refine ⟨cmds, fl, ?_⟩
  unfold restoreQuicklistEntry
  rw [hv]
  simp only [sendQuicklist, hq, hs, if_true]

theorem quickThenExpire_builds (P : Params) (hrt : P.ft.RoundTrips) (cfg : Cfg) (nowNs : Nat) (key : Bytes)
    (e : Entry) (t : Target) (items : List Bytes) (hd : QDecodes P e items) (hin : t.inq = []) (hout : t.outq = [])
    (hft : t.srv.ft = P.ft) (hk : t.store.ks t.db key = none) :
    ∃ cmds fl, quickThenExpire P key (ttlMs cfg nowNs e.expireAt) e t =
      (t.ran (t.store.ks.put t.db key (some (.list items, expiryOf cfg nowNs t.srv.now e.expireAt))) cmds fl, Result.ok) := by
  obtain ⟨cmds, fl, hb⟩ := restoreQuicklist_builds P hrt key e t items hd hin hout hft hk
  unfold quickThenExpire
  rw [hb]
  simp only
  by_cases hx : e.expireAt = 0
  · exact ⟨cmds, fl, by simp [hx, expiryOf]⟩
  · refine ⟨cmds ++ [.pexpire key (ttlMs cfg nowNs e.expireAt)], fl ++ [1], ?_⟩
    simp only [hx, ne_eq, not_false_eq_true, if_true]
    rw [pexpireStep_some key _ .abort _ (by simp) (by simp) (.list items) none (by simp [put_same]) (ttlMs_pos cfg nowNs _ hx)]
    simp [put_put, expiryOf, hx]

end RSVerif.RestoreEntry
