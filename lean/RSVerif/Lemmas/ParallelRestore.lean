import RSVerif.Model.ParallelRestore
namespace RSVerif.Lemmas.ParallelRestore
open RSVerif RSVerif.Spec.MiniRedisC07 RSVerif.Model.ParallelRestore

/-- sum of `f 0 … f (n-1)` -/
def sumW : Nat → (Nat → Nat) → Nat
  | 0, _ => 0
  | n + 1, f => sumW n f + f n

theorem sumW_congr {n : Nat} {f g : Nat → Nat} (h : ∀ i, i < n → f i = g i) : sumW n f = sumW n g := by
  induction n with
  | zero => rfl
  | succ n ih =>
    simp only [sumW]
    rw [ih (fun i hi => h i (Nat.lt_succ_of_lt hi)), h n (Nat.lt_succ_self n)]

theorem sumW_zero {n : Nat} {f : Nat → Nat} (h : ∀ i, i < n → f i = 0) : sumW n f = 0 := by
  induction n with
  | zero => rfl
  | succ n ih =>
    simp only [sumW]
    rw [ih (fun i hi => h i (Nat.lt_succ_of_lt hi)), h n (Nat.lt_succ_self n)]

/-- changing one summand -/
theorem sumW_update {n w : Nat} {f g : Nat → Nat} (hw : w < n) (h : ∀ i, i ≠ w → g i = f i) :
    sumW n g + f w = sumW n f + g w := by
  induction n with
  | zero => omega
  | succ n ih =>
    simp only [sumW]
    by_cases hwn : w = n
    · subst hwn
      have : sumW w g = sumW w f := sumW_congr (fun i hi => h i (by omega))
      omega
    · have := ih (by omega)
      have hn : g n = f n := h n (by omega)
      omega

theorem sumW_le {n w : Nat} {f : Nat → Nat} (hw : w < n) : f w ≤ sumW n f := by
  induction n with
  | zero => omega
  | succ n ih =>
    simp only [sumW]
    by_cases hwn : w = n
    · subst hwn; omega
    · have := ih (by omega); omega

@[simp] theorem setWorker_workers (s : State) (w : Nat) (wk : Worker) (i : Nat) :
    (s.setWorker w wk).workers i = if i = w then wk else s.workers i := rfl
@[simp] theorem setWorker_queue (s : State) (w : Nat) (wk : Worker) : (s.setWorker w wk).queue = s.queue := rfl
@[simp] theorem setWorker_server (s : State) (w : Nat) (wk : Worker) : (s.setWorker w wk).server = s.server := rfl
@[simp] theorem setWorker_n (s : State) (w : Nat) (wk : Worker) : (s.setWorker w wk).n = s.n := rfl
@[simp] theorem setWorker_result (s : State) (w : Nat) (wk : Worker) : (s.setWorker w wk).result = s.result := rfl

/-- the two branches of the TargetDB test are one test against `route` -/
theorem selectBookkeeping_eq (cfg : Cfg) (e : Entry) (wk : Worker) :
    selectBookkeeping cfg e wk =
      if route cfg e.db ≠ wk.lastdb then { wk with lastdb := route cfg e.db, phase := .select e }
      else startRestore cfg e wk := by
  unfold selectBookkeeping route
  cases cfg.targetDB <;> rfl

end RSVerif.Lemmas.ParallelRestore
