import RSVerif.Lemmas.HandoffWait
import RSVerif.Lemmas.HandoffLoops
namespace RSVerif.Lemmas.Handoff
open RSVerif RSVerif.Handoff

theorem parseHeader_pos {rsp : Bytes} {n : Nat} (h : parseHeader rsp = some n) : 0 < n := by
  unfold parseHeader at h
  split at h
  · cases h
  · split at h
    · cases h
    · split at h
      · split at h
        · cases h
        · rename_i v _ hv
          simp only [Option.some.injEq] at h
          omega
      · cases h

/-- whatever `waitRdbDump` accepts: the stream is `k` keep-alive newlines, a header line that parses to `n > 0`,
and the untouched rest — for *every* stream, well-formed or not. -/
theorem waitLoop_sound (s acc : Bytes) (c k n : Nat) (rest : Bytes) (h : waitLoop s acc c = .size k n rest) :
    ∃ mid, c ≤ k ∧ (acc ≠ [] → k = c) ∧ s = (if acc = [] then Spec.Handoff.newlines (k - c) else []) ++ mid ++ rest ∧
      parseHeader (acc.reverse ++ mid) = some n := by
  induction s generalizing acc c with
  | nil => simp [waitLoop] at h
  | cons b s ih =>
    rw [waitLoop] at h
    split at h
    · rename_i hc
      simp only [Bool.and_eq_true, List.isEmpty_iff, beq_iff_eq] at hc
      obtain ⟨hacc, hb⟩ := hc
      subst hacc; subst hb
      obtain ⟨mid, hck, _, hs, hp⟩ := ih [] (c + 1) h
      refine ⟨mid, by omega, by simp, ?_, hp⟩
      simp only [if_true] at hs ⊢
      have : k - c = (k - (c + 1)) + 1 := by omega
      rw [this, newlines_succ, hs]
      simp
    · rename_i hc
      split at h
      · rename_i hfin
        unfold finishHeader at h
        split at h
        · rename_i m hm
          simp only [WaitRes.size.injEq] at h
          obtain ⟨rfl, rfl, rfl⟩ := h
          refine ⟨[b], Nat.le_refl _, fun _ => rfl, ?_, ?_⟩
          · have : acc ≠ [] := by
              intro e; subst e; simp at hfin
            simp [this]
          · simpa using hm
        · cases h
      · obtain ⟨mid, hck, hkc, hs, hp⟩ := ih (b :: acc) c h
        have hk : k = c := hkc (by simp)
        refine ⟨b :: mid, hck, fun _ => hk, ?_, ?_⟩
        · simp only [List.cons_ne_nil, if_false, List.nil_append] at hs
          by_cases hacc : acc = []
          · subst hacc
            simp [hk, hs, Spec.Handoff.newlines]
          · simp [hacc, hs]
        · simpa using hp

theorem waitRdbDump_sound (s : Bytes) (k n : Nat) (rest : Bytes) (h : waitRdbDump s = .size k n rest) :
    ∃ hdr, s = Spec.Handoff.newlines k ++ hdr ++ rest ∧ parseHeader hdr = some n ∧ 0 < n := by
  obtain ⟨mid, _, _, hs, hp⟩ := waitLoop_sound s [] 0 k n rest h
  refine ⟨mid, by simpa using hs, by simpa using hp, parseHeader_pos (by simpa using hp)⟩

theorem skipLF_sound (s : Bytes) : ∃ k, s = Spec.Handoff.newlines k ++ skipLF s := by
  induction s with
  | nil => exact ⟨0, by simp [Spec.Handoff.newlines, skipLF]⟩
  | cons b s ih =>
    rw [skipLF]
    split
    · rename_i hb
      obtain ⟨k, hk⟩ := ih
      refine ⟨k + 1, ?_⟩
      rw [newlines_succ, hb, List.cons_append, ← hk]
    · exact ⟨0, by simp [Spec.Handoff.newlines]⟩

theorem readLine_sound (s pre rest : Bytes) (h : readLine s = some (pre, rest)) : s = pre ++ LF :: rest := by
  induction s generalizing pre with
  | nil => simp [readLine] at h
  | cons b s ih =>
    rw [readLine] at h
    split at h
    · rename_i hb
      simp only [Option.some.injEq, Prod.mk.injEq] at h
      obtain ⟨rfl, rfl⟩ := h
      simp [hb]
    · split at h
      · rename_i l r hl
        simp only [Option.some.injEq, Prod.mk.injEq] at h
        obtain ⟨rfl, rfl⟩ := h
        rw [ih l hl]; simp
      · cases h

/-- whatever `SendPSyncContinue` accepts, the reader is left at a suffix of the stream. -/
theorem sendPSyncContinue_suffix (inRunid : Bytes) (inOffset : Int) (stream : Bytes) (isFull : Bool) (id : Bytes) (v : Int)
    (rest : Bytes)
    (h : sendPSyncContinue inRunid inOffset stream = (if isFull then Reply.full id v rest else Reply.cont id v rest)) :
    ∃ consumed, stream = consumed ++ rest := by
  obtain ⟨k, hk⟩ := skipLF_sound stream
  unfold sendPSyncContinue at h
  simp only [] at h
  split at h
  · cases isFull <;> cases h
  · rename_i t s1 hskip
    split at h
    · split at h
      · cases isFull <;> cases h
      · rename_i pre rest' hline
        have hl := readLine_sound _ _ _ hline
        have hrest : rest' = rest := by
          split at h
          · cases isFull <;> cases h
          · split at h
            · cases isFull <;> cases h
            · unfold interpretStatus at h
              split at h
              · split at h
                · cases isFull <;> cases h
                · split at h
                  · cases isFull
                    · simp only [Bool.false_eq_true, if_false, Reply.cont.injEq] at h; exact h.2.2
                    · simp at h
                  · cases isFull <;> cases h
              · split at h
                · cases isFull <;> cases h
                · split at h
                  · split at h
                    · cases isFull
                      · simp at h
                      · simp only [if_true, Reply.full.injEq] at h; exact h.2.2
                    · cases isFull <;> cases h
                  · cases isFull <;> cases h
              · cases isFull <;> cases h
        subst hrest
        refine ⟨Spec.Handoff.newlines k ++ t :: (pre ++ [LF]), ?_⟩
        rw [hk, hskip, hl]; simp
    · cases isFull <;> cases h

theorem runIncrementalSync_conserve (b : Bufs) (closed : Bool) (sched : Sched) (n : Int) (rem : Bytes) :
    (runIncrementalSync b closed sched n rem).out ++ (runIncrementalSync b closed sched n rem).rem = rem := by
  have h1 := (rdbLoop_conserve b.rdb closed sched n rem).1
  simp only [runIncrementalSync]
  split
  · have h2 := (copyLoop_conserve b.pipe closed (rdbLoop b.rdb closed sched n rem).sched (rdbLoop b.rdb closed sched n rem).rem).1
    simp only [] at h1 h2 ⊢
    rw [List.append_assoc, h2, h1]
  · exact h1

end RSVerif.Lemmas.Handoff
