import RSVerif.Lemmas.ParallelRestoreValue
/-
Run-level plumbing for C07: all invariants bundled and carried along an arbitrary schedule (`reachable`),
and the ordered invariant along schedules with one worker / with pairwise distinct target keys.
-/
namespace RSVerif.Lemmas.ParallelRestore
open RSVerif RSVerif.Spec.MiniRedisC07 RSVerif.Model.ParallelRestore

/-- all invariants of the worker pool, carried together along a schedule -/
structure AllInv (cfg : Cfg) (entries : List Entry) (s : State) : Prop where
  inv : Inv cfg entries s
  count : CountInv cfg entries s
  term : TermInv s
  src : ErrSrc s
  err : cfg.mode ≠ .restorePinned → ErrInv s
  le : CountLe cfg entries s

theorem allInv_init (cfg : Cfg) (n : Nat) (entries : List Entry) : AllInv cfg entries (init n entries) :=
  ⟨inv_init cfg n entries, countInv_init cfg n entries, termInv_init n entries, errSrc_init n entries, fun _ => errInv_init n entries, countLe_init cfg n entries⟩

theorem inv_stepMain {cfg : Cfg} {entries : List Entry} {s : State} (h : Inv cfg entries s) : Inv cfg entries (stepMain s) := by
  unfold stepMain; split
  · exact ⟨h.queue_suffix, h.worker, h.log⟩
  · exact h

theorem countInv_stepMain {cfg : Cfg} {entries : List Entry} {s : State} (h : CountInv cfg entries s) :
    CountInv cfg entries (stepMain s) := by
  unfold stepMain; split
  · exact h
  · exact h

theorem allInv_step {cfg : Cfg} {entries : List Entry} {s : State} (h : AllInv cfg entries s) (ev : Ev) :
    AllInv cfg entries (step cfg s ev) := by
  cases ev with
  | main => exact ⟨inv_stepMain h.inv, countInv_stepMain h.count, termInv_stepMain h.term, errSrc_stepMain h.src,
      fun hm => errInv_stepMain (h.err hm), countLe_stepMain h.le⟩
  | worker w fail =>
    simp only [step]
    split
    · rename_i hw
      exact ⟨inv_stepWorker h.inv w fail, countInv_stepWorker h.inv h.count w hw fail, termInv_stepWorker h.term w fail,
        errSrc_stepWorker h.src w hw fail, fun hm => errInv_stepWorker hm (h.err hm) w hw fail,
        countLe_stepWorker h.inv h.le w hw fail⟩
    · exact h

theorem allInv_run {cfg : Cfg} {entries : List Entry} (evs : List Ev) {s : State} (h : AllInv cfg entries s) :
    AllInv cfg entries (run cfg s evs) := by
  induction evs generalizing s with
  | nil => exact h
  | cons ev evs ih => exact ih (allInv_step h ev)

theorem step_n (cfg : Cfg) (s : State) (ev : Ev) : (step cfg s ev).n = s.n := by
  cases ev with
  | main => simp only [step, stepMain]; split <;> rfl
  | worker w fail =>
    simp only [step]; split
    · exact (stepWorker_frame cfg s w fail).1
    · rfl

theorem run_n (cfg : Cfg) (s : State) (evs : List Ev) : (run cfg s evs).n = s.n := by
  induction evs generalizing s with
  | nil => rfl
  | cons ev evs ih => exact (ih (step cfg s ev)).trans (step_n cfg s ev)

/-- states reachable from the start under *some* schedule -/
theorem reachable (cfg : Cfg) (n : Nat) (entries : List Entry) (evs : List Ev) :
    AllInv cfg entries (run cfg (init n entries) evs) := allInv_run evs (allInv_init cfg n entries)

theorem ordInv_step {cfg : Cfg} {entries : List Entry} {φ : Nat × DataCmd → Bool} {s : State} (h : AllInv cfg entries s)
    (ho : OrdInv cfg entries φ s) (ev : Ev) (hex : Excl cfg φ s) (hex' : Excl cfg φ (step cfg s ev)) :
    OrdInv cfg entries φ (step cfg s ev) := by
  cases ev with
  | main => exact ordInv_stepMain ho
  | worker w fail =>
    simp only [step] at hex' ⊢
    split
    · rename_i hw
      rw [if_pos hw] at hex'
      exact ordInv_stepWorker h.inv ho w hw fail hex hex'
    · exact ho

theorem excl_of_n_le_one {cfg : Cfg} {φ : Nat × DataCmd → Bool} {s : State} (h : s.n ≤ 1) : Excl cfg φ s :=
  fun w hw _ i hi hne => by omega

theorem ordInv_run_n1 {cfg : Cfg} {entries : List Entry} {φ : Nat × DataCmd → Bool} (evs : List Ev) {s : State}
    (h : AllInv cfg entries s) (ho : OrdInv cfg entries φ s) (hn : s.n ≤ 1) : OrdInv cfg entries φ (run cfg s evs) := by
  induction evs generalizing s with
  | nil => exact ho
  | cons ev evs ih =>
    have hn' : (step cfg s ev).n ≤ 1 := by rw [step_n]; exact hn
    exact ih (allInv_step h ev) (ordInv_step h ho ev (excl_of_n_le_one hn) (excl_of_n_le_one hn')) hn'

theorem uInv_step {cfg : Cfg} {s : State} (h : UInv cfg s) (ev : Ev) : UInv cfg (step cfg s ev) := by
  cases ev with
  | main => exact uInv_stepMain h
  | worker w fail =>
    simp only [step]
    split
    · rename_i hw; exact uInv_stepWorker h w hw fail
    · exact h

theorem ordInv_run_keys {cfg : Cfg} {entries : List Entry} (hown : OwnKey cfg) (κ : Nat × Bytes) (evs : List Ev) {s : State}
    (h : AllInv cfg entries s) (hu : UInv cfg s) (ho : OrdInv cfg entries (onKey κ) s) :
    OrdInv cfg entries (onKey κ) (run cfg s evs) := by
  induction evs generalizing s with
  | nil => exact ho
  | cons ev evs ih =>
    have h' := allInv_step h ev
    have hu' := uInv_step hu ev
    exact ih h' hu' (ordInv_step h ho ev (excl_of_uInv hown h.inv hu κ) (excl_of_uInv hown h'.inv hu' κ))

/-- in a finished, error-free state nothing is queued -/
theorem finished_queue_empty {cfg : Cfg} {entries : List Entry} {s : State} (hall : AllInv cfg entries s) (hn1 : 1 ≤ s.n)
    (hdone : ∀ w, w < s.n → (s.workers w).phase = .returned) (hok : ∀ x ∈ s.server.log, x.ok = true) : s.queue = [] := by
  rcases hall.term.ret 0 (by omega) (hdone 0 (by omega)) with h1 | h1
  · obtain ⟨x, hx, hxo⟩ := hall.src.src 0 h1
    rw [hok x hx] at hxo
    exact absurd hxo (by decide)
  · exact h1

theorem ordInv_final {cfg : Cfg} {entries : List Entry} {φ : Nat × DataCmd → Bool} {s : State} (hall : AllInv cfg entries s)
    (ho : OrdInv cfg entries φ s) (hn1 : 1 ≤ s.n)
    (hdone : ∀ w, w < s.n → (s.workers w).phase = .returned) (hok : ∀ x ∈ s.server.log, x.ok = true) :
    s.server.executed.filter φ = (expected cfg entries).filter φ := by
  have := ho hok
  rw [finished_queue_empty hall hn1 hdone hok,
    concatW_nil (fun i hi => by simp [projP, pendingOf, hdone i hi])] at this
  simpa [expected] using this

theorem concreteCmds_ownKey (rw fl : Bool) : ∀ e c, c ∈ concreteCmds rw fl e → c.key = e.key := by
  intro e c hc
  unfold concreteCmds at hc
  split at hc
  · simp at hc; rw [hc]
  · split at hc
    · simp at hc
    · simp at hc; rw [hc]
  · simp only [List.mem_append, List.mem_map] at hc
    rcases hc with (hc | ⟨f, -, rfl⟩) | hc
    · split at hc
      · simp at hc; rw [hc]
      · simp at hc
    · rfl
    · split at hc
      · simp at hc; rw [hc]
      · simp at hc
  · simp only [List.mem_append, List.mem_map] at hc
    rcases hc with (hc | ⟨f, -, rfl⟩) | hc
    · simp at hc; rw [hc]
    · rfl
    · split at hc
      · simp at hc; rw [hc]
      · simp at hc
  · simp only [List.mem_map] at hc
    obtain ⟨f, -, rfl⟩ := hc
    rfl


end RSVerif.Lemmas.ParallelRestore
