import RSVerif.Model.Pipe
/-
C09 — helper lemmas about the pipe model: the offset arithmetic, the ring-window lemma, slices of
the byte store, the ghost `cells`/`contents` view, the invariant, and what each critical section does
case by case.  Core Lean only (no Mathlib needed).
-/
namespace RSVerif.Lemmas.Pipe
open RSVerif RSVerif.Pipe

theorem roffset_eq (k size r w : Nat) :
    roffset k size r w = (min k (min (w - r) (size - r % size)), r % size) := by
  unfold roffset
  simp only [Prod.mk.injEq, and_true]
  split <;> split <;> omega

theorem woffset_eq (k size r w : Nat) :
    woffset k size r w = (min k (min (size + r - w) (size - w % size)), w % size) := by
  unfold woffset
  simp only [Prod.mk.injEq, and_true]
  split <;> split <;> omega

theorem window {a b s : Nat} (h : a % s = b % s) (hab : a ≤ b) (hb : b < a + s) : a = b := by
  have h0 : (b - a) % s = 0 := Nat.sub_mod_eq_zero_of_mod_eq h.symm
  have h1 : (b - a) % s = b - a := Nat.mod_eq_of_lt (by omega)
  omega

theorem length_writeAt (mem : Bytes) (off : Nat) (bs : Bytes) :
    (writeAt mem off bs).length = max mem.length (off + bs.length) := by
  unfold writeAt
  simp only [List.length_append, List.length_take, List.length_replicate, List.length_drop]
  omega

theorem getD_writeAt_outside (mem : Bytes) (off : Nat) (bs : Bytes) (i : Nat)
    (h : i < off ∨ off + bs.length ≤ i) : (writeAt mem off bs).getD i 0 = mem.getD i 0 := by
  unfold writeAt
  simp only [List.getD_eq_getElem?_getD]
  rcases h with h | h
  · by_cases hm : i < mem.length
    · rw [List.append_assoc, List.append_assoc, List.getElem?_append_left (by simp; omega)]
      simp [h]
    · rw [List.append_assoc, List.append_assoc, List.getElem?_append_right (by simp; omega)]
      rw [List.getElem?_append_left (by simp; omega)]
      simp only [List.length_take, List.getElem?_replicate]
      have : mem[i]? = none := by simp; omega
      rw [this]
      split <;> simp
  · rw [List.getElem?_append_right (by simp; omega)]
    simp only [List.getElem?_drop, List.length_append, List.length_take, List.length_replicate]
    congr 2
    omega

theorem readAt_writeAt (mem : Bytes) (off : Nat) (bs : Bytes) :
    readAt (writeAt mem off bs) off bs.length = bs := by
  unfold readAt writeAt
  have hl : (mem.take off ++ List.replicate (off - mem.length) 0).length = off := by
    simp only [List.length_append, List.length_take, List.length_replicate]; omega
  rw [List.append_assoc (mem.take off ++ _), List.drop_left' hl, List.take_left' rfl]

theorem length_cells (mem : Bytes) (size pos cnt : Nat) : (cells mem size pos cnt).length = cnt := by
  induction cnt generalizing pos with
  | zero => rfl
  | succ n ih => simp [cells, ih]

theorem cells_append (mem : Bytes) (size pos a b : Nat) :
    cells mem size pos (a + b) = cells mem size pos a ++ cells mem size (pos + a) b := by
  induction a generalizing pos with
  | zero => simp [cells]
  | succ n ih =>
    have : n + 1 + b = (n + b) + 1 := by omega
    rw [this]
    simp only [cells, List.cons_append, ih]
    congr 3
    omega

theorem cells_congr (mem mem' : Bytes) (size pos cnt : Nat)
    (h : ∀ j, j < cnt → mem'.getD ((pos + j) % size) 0 = mem.getD ((pos + j) % size) 0) :
    cells mem' size pos cnt = cells mem size pos cnt := by
  induction cnt generalizing pos with
  | zero => rfl
  | succ n ih =>
    simp only [cells]
    congr 1
    · simpa using h 0 (by omega)
    · apply ih
      intro j hj
      have := h (j + 1) (by omega)
      have e : pos + (j + 1) = pos + 1 + j := by omega
      rwa [e] at this

/-- a stretch of the ring that does not cross its end is a slice of the store -/
theorem cells_eq_readAt (mem : Bytes) (size pos n : Nat)
    (h1 : pos % size + n ≤ size) (h2 : pos % size + n ≤ mem.length) :
    cells mem size pos n = readAt mem (pos % size) n := by
  induction n generalizing pos with
  | zero => simp [cells, readAt]
  | succ n ih =>
    have hlt : pos % size < mem.length := by omega
    have hd : mem.drop (pos % size) = mem[pos % size] :: mem.drop (pos % size + 1) := by
      rw [List.drop_eq_getElem_cons hlt]
    simp only [cells, readAt, hd, List.take_succ_cons]
    congr 1
    · simp [List.getD_eq_getElem?_getD, hlt]
    · cases n with
      | zero => simp [cells]
      | succ m =>
        have hs : 0 < size := by omega
        have hm : (pos + 1) % size = pos % size + 1 := by
          rw [← Nat.mod_add_mod, Nat.mod_eq_of_lt (by omega)]
        have := ih (pos + 1) (by omega) (by omega)
        rw [hm] at this
        exact this


/-! ### the store part of the invariant -/

/-- expected length of the backing byte list of an open store -/
def memLen (s : Store) : Nat :=
  match s.backend with
  | .mem => s.size
  | .file => min s.wpos s.size

structure SInv (s : Store) : Prop where
  size_pos : 0 < s.size
  rle : s.rpos ≤ s.wpos
  wle : s.wpos ≤ s.rpos + s.size
  reset : s.rpos = s.wpos → s.wpos = 0        -- an empty ring always sits at position 0
  open_ : s.closed = false
  memlen : s.mem.length = memLen s

theorem contents_open {s : Store} (h : s.closed = false) :
    s.contents = cells s.mem s.size s.rpos (s.wpos - s.rpos) := by
  simp [Store.contents, h]

theorem length_contents {s : Store} (h : s.closed = false) : s.contents.length = s.wpos - s.rpos := by
  rw [contents_open h, length_cells]

theorem Store.init_sinv (b : Backend) (size : Nat) (h : 0 < size) : SInv (Store.init b size) := by
  constructor <;> cases b <;> simp [Store.init, memLen, h]

/-- what `store.readSome` does on a non-empty open store -/
theorem Store.readSome_spec {s : Store} (h : SInv s) {k : Nat} (hk : 0 < k) (hne : s.rpos < s.wpos) :
    ∃ s' n, s.readSome k = (s', s.contents.take n, none) ∧ SInv s' ∧
      n = min k (min (s.wpos - s.rpos) (s.size - s.rpos % s.size)) ∧ 0 < n ∧
      s'.contents = s.contents.drop n ∧ s'.size = s.size ∧ s'.backend = s.backend ∧
      s'.wpos - s'.rpos = s.wpos - s.rpos - n ∧
      s'.rpos = (if s.rpos + n = s.wpos then 0 else s.rpos + n) ∧
      s'.wpos = (if s.rpos + n = s.wpos then 0 else s.wpos) := by
  obtain ⟨hs, hr, hw, hz, ho, hm⟩ := h
  have hoff : s.rpos % s.size < s.size := Nat.mod_lt _ hs
  have hoffle : s.rpos % s.size ≤ s.rpos := Nat.mod_le _ _
  let n := min k (min (s.wpos - s.rpos) (s.size - s.rpos % s.size))
  have hn : n = min k (min (s.wpos - s.rpos) (s.size - s.rpos % s.size)) := rfl
  have hnpos : 0 < n := by omega
  have hml : s.rpos % s.size + n ≤ s.mem.length := by
    rw [hm]; unfold memLen; split <;> omega
  -- the slice read is the first n bytes of the contents
  have hdata : readAt s.mem (s.rpos % s.size) n = s.contents.take n := by
    rw [contents_open ho]
    have e : s.wpos - s.rpos = n + (s.wpos - s.rpos - n) := by omega
    rw [e, cells_append, List.take_left' (length_cells _ _ _ _)]
    exact (cells_eq_readAt _ _ _ _ (by omega) hml).symm
  have hlen : (readAt s.mem (s.rpos % s.size) n).length = n := by
    simp only [readAt, List.length_take, List.length_drop]; omega
  have hdrop : s.contents.drop n = cells s.mem s.size (s.rpos + n) (s.wpos - s.rpos - n) := by
    rw [contents_open ho]
    have e : s.wpos - s.rpos = n + (s.wpos - s.rpos - n) := by omega
    rw [e, cells_append, List.drop_left' (length_cells _ _ _ _)]
    congr 1; omega
  by_cases hdr : s.rpos + n = s.wpos
  · -- drained: both positions go back to 0 (and the file is truncated)
    have hd0 : s.contents.drop n = [] := by
      rw [hdrop]; have : s.wpos - s.rpos - n = 0 := by omega
      rw [this]; rfl
    cases hb : s.backend with
    | mem =>
      refine ⟨{ s with rpos := 0, wpos := 0 }, n, ?_, ?_, hn, hnpos, ?_, rfl, hb, ?_, by simp [hdr], by simp [hdr]⟩
      · simp only [Store.readSome, ho, roffset_eq, hb]
        simp only [← hn, hlen, hdr]
        simp [Nat.ne_of_gt hnpos, hdata]
      · exact ⟨hs, Nat.le_refl _, by simp, by simp, ho, by simpa [memLen, hb] using hm⟩
      · rw [hd0]; simp [Store.contents, cells, ho]
      · simp; omega
    | file =>
      refine ⟨{ s with rpos := 0, wpos := 0, mem := [] }, n, ?_, ?_, hn, hnpos, ?_, rfl, hb, ?_, by simp [hdr], by simp [hdr]⟩
      · simp only [Store.readSome, ho, roffset_eq, hb]
        simp only [← hn, hlen, hdr]
        simp [Nat.ne_of_gt hnpos, hdata]
      · exact ⟨hs, Nat.le_refl _, by simp, by simp, ho, by simp [memLen, hb]⟩
      · rw [hd0]; simp [Store.contents, cells, ho]
      · simp; omega
  · refine ⟨{ s with rpos := s.rpos + n }, n, ?_, ?_, hn, hnpos, ?_, rfl, rfl, ?_, by simp [hdr], by simp [hdr]⟩
    · cases hb : s.backend <;>
      · simp only [Store.readSome, ho, roffset_eq, hb]
        simp only [← hn, hlen, hdr]
        simp [Nat.ne_of_gt hnpos, hdata]
    · exact ⟨hs, by simp; omega, by simp; omega, by simp; omega, ho, by simpa [memLen] using hm⟩
    · rw [hdrop]; simp only [Store.contents, ho]; simp; congr 1; omega
    · simp; omega


/-- what `store.readSome` does on an empty open store: nothing -/
theorem Store.readSome_empty {s : Store} (h : SInv s) (k : Nat) (he : s.rpos = s.wpos) :
    s.readSome k = (s, [], none) := by
  simp [Store.readSome, h.open_, roffset_eq, he]

/-- what `store.writeSome` does on an open store with room -/
theorem Store.writeSome_spec {s : Store} (h : SInv s) {bs : Bytes} (hb : bs ≠ [])
    (hroom : s.wpos < s.rpos + s.size) :
    ∃ s' n, s.writeSome bs = (s', n, none) ∧ SInv s' ∧
      n = min bs.length (min (s.size + s.rpos - s.wpos) (s.size - s.wpos % s.size)) ∧ 0 < n ∧
      s'.contents = s.contents ++ bs.take n ∧ s'.size = s.size ∧ s'.backend = s.backend ∧
      s'.rpos = s.rpos ∧ s'.wpos = s.wpos + n := by
  obtain ⟨hs, hr, hw, hz, ho, hm⟩ := h
  have hoff : s.wpos % s.size < s.size := Nat.mod_lt _ hs
  have hoffle : s.wpos % s.size ≤ s.wpos := Nat.mod_le _ _
  have hbl : 0 < bs.length := List.length_pos_iff.mpr hb
  let n := min bs.length (min (s.size + s.rpos - s.wpos) (s.size - s.wpos % s.size))
  have hn : n = min bs.length (min (s.size + s.rpos - s.wpos) (s.size - s.wpos % s.size)) := rfl
  have hnpos : 0 < n := by omega
  have hcl : (bs.take n).length = n := by simp only [List.length_take]; omega
  let mem' := writeAt s.mem (s.wpos % s.size) (bs.take n)
  have hml' : mem'.length = max s.mem.length (s.wpos % s.size + n) := by
    show (writeAt _ _ _).length = _
    rw [length_writeAt, hcl]
  refine ⟨{ s with mem := mem', wpos := s.wpos + n }, n, ?_, ?_, hn, hnpos, ?_, rfl, rfl, rfl, rfl⟩
  · simp only [Store.writeSome, ho, woffset_eq]
    simp only [← hn, hcl]
    simp [Nat.ne_of_gt hnpos, mem']
  · refine ⟨hs, by simp; omega, by simp; omega, by simp; omega, ho, ?_⟩
    show mem'.length = _
    rw [hml', hm]
    unfold memLen
    cases hbk : s.backend
    · simp only; omega
    · simp only
      by_cases hlt : s.wpos < s.size
      · have : s.wpos % s.size = s.wpos := Nat.mod_eq_of_lt hlt
        omega
      · omega
  · simp only [Store.contents, ho]
    simp only [Bool.false_eq_true, if_false]
    have e : s.wpos + n - s.rpos = (s.wpos - s.rpos) + n := by omega
    rw [e, cells_append]
    congr 1
    · -- the cells already buffered are not touched
      apply cells_congr
      intro j hj
      apply getD_writeAt_outside
      rw [hcl]
      have hc : (s.rpos + j) % s.size < s.size := Nat.mod_lt _ hs
      by_cases hin : s.wpos % s.size ≤ (s.rpos + j) % s.size ∧ (s.rpos + j) % s.size < s.wpos % s.size + n
      · exfalso
        obtain ⟨h1, h2⟩ := hin
        -- the written cell (wpos + i) collides with a buffered cell (rpos + j): impossible in a window
        let i := (s.rpos + j) % s.size - s.wpos % s.size
        have hi : (s.wpos + i) % s.size = (s.rpos + j) % s.size := by
          rw [← Nat.mod_add_mod, Nat.mod_eq_of_lt (by omega)]; omega
        have := window hi.symm (by omega) (by omega)
        omega
      · omega
    · -- the new cells are the accepted chunk
      have e2 : s.rpos + (s.wpos - s.rpos) = s.wpos := by omega
      rw [e2, cells_eq_readAt _ _ _ _ (by omega) (by rw [hml']; omega)]
      have := readAt_writeAt s.mem (s.wpos % s.size) (bs.take n)
      rw [hcl] at this
      exact this

/-- on a full store `writeSome` accepts nothing -/
theorem Store.writeSome_full {s : Store} (h : SInv s) (bs : Bytes) (hf : s.wpos = s.rpos + s.size) :
    s.writeSome bs = (s, 0, none) := by
  have e : s.size + s.rpos - s.wpos = 0 := by omega
  simp [Store.writeSome, h.open_, woffset_eq, e]


/-! ### the invariant of the whole pipe -/

structure Inv (p : Pipe) : Prop where
  size_pos : 0 < p.store.size
  rle : p.store.rpos ≤ p.store.wpos
  wle : p.store.wpos ≤ p.store.rpos + p.store.size
  reset : p.store.rpos = p.store.wpos → p.store.wpos = 0
  closed_iff : p.store.closed = p.rerr.isSome
  memlen : p.store.closed = false → p.store.mem.length = memLen p.store
  rpark : p.rPark = true → p.store.rpos = p.store.wpos ∧ p.rerr = none ∧ p.werr = none
  wpark : p.wPark = true → p.store.wpos = p.store.rpos + p.store.size ∧ p.rerr = none ∧ p.werr = none

theorem Inv.sinv {p : Pipe} (h : Inv p) (hr : p.rerr = none) : SInv p.store :=
  have ho : p.store.closed = false := by rw [h.closed_iff, hr]; rfl
  ⟨h.size_pos, h.rle, h.wle, h.reset, ho, h.memlen ho⟩

theorem Inv.open_ {p : Pipe} (h : Inv p) (hr : p.rerr = none) : p.store.closed = false := by
  rw [h.closed_iff, hr]; rfl

theorem init_inv (b : Backend) (size : Nat) (hs : 0 < size) : Inv (Pipe.init b size) := by
  have := Store.init_sinv b size hs
  exact ⟨this.size_pos, this.rle, this.wle, this.reset, by simp [Pipe.init, Store.init], fun _ => this.memlen,
    by simp [Pipe.init], by simp [Pipe.init]⟩

theorem next_congr {a : APipe} {s : Step} {o : Obs} {a' b' : APipe} (h : Next a s o a') (e : a' = b') :
    Next a s o b' := e ▸ h

/-! ### `readSome` / `writeSome` of the pipe, case by case -/

theorem Pipe.readSome_closed {p : Pipe} {e : Err} (hr : p.rerr = some e) (k : Nat) :
    p.readSome k = (p, .ret [] (some .closed)) := by
  simp [Pipe.readSome, hr]

theorem Pipe.readSome_zero {p : Pipe} (hr : p.rerr = none) :
    p.readSome 0 = (p, .ret [] (if p.store.buffered ≠ 0 then none else p.werr)) := by
  simp only [Pipe.readSome, hr, Option.isSome_none, Bool.false_eq_true, if_false, if_true]
  split <;> rfl

theorem Pipe.readSome_data {p : Pipe} (h : Inv p) (hr : p.rerr = none) {k : Nat} (hk : 0 < k)
    (hne : p.store.rpos < p.store.wpos) :
    ∃ s' n, p.readSome k = ({ p with store := s', wPark := false }, .ret (p.store.contents.take n) none) ∧
      SInv s' ∧ n = min k (min (p.store.wpos - p.store.rpos) (p.store.size - p.store.rpos % p.store.size)) ∧
      0 < n ∧ s'.contents = p.store.contents.drop n ∧ s'.size = p.store.size ∧
      s'.backend = p.store.backend ∧
      s'.rpos = (if p.store.rpos + n = p.store.wpos then 0 else p.store.rpos + n) ∧
      s'.wpos = (if p.store.rpos + n = p.store.wpos then 0 else p.store.wpos) := by
  obtain ⟨s', n, hrs, hsi', hn, hnpos, hc, hsz, hbk, _, hp1, hp2⟩ := Store.readSome_spec (h.sinv hr) hk hne
  have hlen := length_contents (h.open_ hr)
  have hne' : p.store.contents.take n ≠ [] := by
    intro hc0
    have := congrArg List.length hc0
    simp only [List.length_take, List.length_nil] at this
    omega
  refine ⟨s', n, ?_, hsi', hn, hnpos, hc, hsz, hbk, hp1, hp2⟩
  simp [Pipe.readSome, hr, Nat.ne_of_gt hk, hrs, hne']

theorem Pipe.readSome_drained {p : Pipe} (h : Inv p) (hr : p.rerr = none) {k : Nat} (hk : 0 < k)
    (he : p.store.rpos = p.store.wpos) {e : Err} (hw : p.werr = some e) :
    p.readSome k = (p, .ret [] (some e)) := by
  have hs := Store.readSome_empty (h.sinv hr) k he
  obtain ⟨st, re, we, rp, wp⟩ := p
  simp only at hr hw hs
  subst hr hw
  simp [Pipe.readSome, Nat.ne_of_gt hk, hs]

theorem Pipe.readSome_park {p : Pipe} (h : Inv p) (hr : p.rerr = none) {k : Nat} (hk : 0 < k)
    (he : p.store.rpos = p.store.wpos) (hw : p.werr = none) :
    p.readSome k = ({ p with rPark := true }, .park) := by
  simp [Pipe.readSome, hr, Nat.ne_of_gt hk, Store.readSome_empty (h.sinv hr) k he, hw]

theorem Pipe.writeSome_closed {p : Pipe} {e : Err} (hw : p.werr = some e) (bs : Bytes) :
    p.writeSome bs = (p, .ret 0 (some .closed)) := by
  simp [Pipe.writeSome, hw]

theorem Pipe.writeSome_readerGone {p : Pipe} (hw : p.werr = none) {e : Err} (hr : p.rerr = some e)
    (bs : Bytes) : p.writeSome bs = (p, .ret 0 (some e)) := by
  simp [Pipe.writeSome, hw, hr]

theorem Pipe.writeSome_zero {p : Pipe} (hw : p.werr = none) (hr : p.rerr = none) :
    p.writeSome [] = (p, .ret 0 none) := by
  simp [Pipe.writeSome, hw, hr]

theorem Pipe.writeSome_data {p : Pipe} (h : Inv p) (hw : p.werr = none) (hr : p.rerr = none)
    {bs : Bytes} (hb : bs ≠ []) (hroom : p.store.wpos < p.store.rpos + p.store.size) :
    ∃ s' n, p.writeSome bs = ({ p with store := s', rPark := false }, .ret n none) ∧ SInv s' ∧
      n = min bs.length (min (p.store.size + p.store.rpos - p.store.wpos)
            (p.store.size - p.store.wpos % p.store.size)) ∧
      0 < n ∧ s'.contents = p.store.contents ++ bs.take n ∧ s'.size = p.store.size ∧
      s'.backend = p.store.backend ∧ s'.rpos = p.store.rpos ∧ s'.wpos = p.store.wpos + n := by
  obtain ⟨s', n, hws, hsi', hn, hnpos, hc, hsz, hbk, hp1, hp2⟩ := Store.writeSome_spec (h.sinv hr) hb hroom
  refine ⟨s', n, ?_, hsi', hn, hnpos, hc, hsz, hbk, hp1, hp2⟩
  simp [Pipe.writeSome, hw, hr, hb, hws, Nat.ne_of_gt hnpos]

theorem Pipe.writeSome_park {p : Pipe} (h : Inv p) (hw : p.werr = none) (hr : p.rerr = none)
    {bs : Bytes} (hb : bs ≠ []) (hf : p.store.wpos = p.store.rpos + p.store.size) :
    p.writeSome bs = ({ p with wPark := true }, .park) := by
  simp [Pipe.writeSome, hw, hr, hb, Store.writeSome_full (h.sinv hr) bs hf]

theorem buffered_eq {p : Pipe} (h : Inv p) (hr : p.rerr = none) :
    p.store.buffered = p.store.contents.length := by
  have ho := h.open_ hr
  rw [length_contents ho]; simp [Store.buffered, ho]

theorem available_eq {p : Pipe} (h : Inv p) (hr : p.rerr = none) :
    p.store.available = p.store.size - p.store.contents.length := by
  have ho := h.open_ hr
  rw [length_contents ho]
  have := h.rle; have := h.wle
  simp [Store.available, ho]; omega

theorem contents_eq_nil_iff {p : Pipe} (h : Inv p) (hr : p.rerr = none) :
    p.store.contents = [] ↔ p.store.rpos = p.store.wpos := by
  have hl := length_contents (h.open_ hr)
  have := h.rle
  constructor
  · intro hq; rw [hq] at hl; simp at hl; omega
  · intro he; apply List.eq_nil_of_length_eq_zero; omega

theorem contents_full_iff {p : Pipe} (h : Inv p) (hr : p.rerr = none) :
    p.store.contents.length = p.store.size ↔ p.store.wpos = p.store.rpos + p.store.size := by
  have hl := length_contents (h.open_ hr)
  have := h.rle; have := h.wle
  omega

/-- Every atomic step of the model is a step the specification allows, and keeps the invariant. -/
theorem step_refines {p : Pipe} (h : Inv p) (s : Step) :
    Next p.abs s (p.step s).2 (p.step s).1.abs ∧ Inv (p.step s).1 := by
  cases s with
  | readSome k =>
    by_cases hp : p.rPark = true
    · simp only [Pipe.step, hp, if_true]
      exact ⟨Next.rDisabled _ _ hp, h⟩
    have hp' : p.rPark = false := by simpa using hp
    simp only [Pipe.step, hp', Bool.false_eq_true, if_false]
    obtain hr | ⟨e, hr⟩ := Option.eq_none_or_eq_some p.rerr
    · by_cases hk : k = 0
      · subst hk
        rw [Pipe.readSome_zero hr]
        refine ⟨next_congr (o := _) ?_ rfl, h⟩
        have hx := Next.rZero p.abs hp' hr
        have hb := buffered_eq h hr
        by_cases hq : p.store.contents = []
        · have hb0 : p.store.buffered = 0 := by rw [hb, hq]; rfl
          simpa [Pipe.abs, hq, hb0] using hx
        · have hb0 : p.store.buffered ≠ 0 := by
            rw [hb]; exact fun hc => hq (List.eq_nil_of_length_eq_zero hc)
          simpa [Pipe.abs, hq, hb0] using hx
      · have hk0 : 0 < k := Nat.pos_of_ne_zero hk
        by_cases hne : p.store.rpos < p.store.wpos
        · obtain ⟨s', n, hrs, hsi', hn, hnpos, hc, hsz, hbk, _, _⟩ := Pipe.readSome_data h hr hk0 hne
          have hlen := length_contents (h.open_ hr)
          rw [hrs]
          refine ⟨?_, ?_⟩
          · refine next_congr (Next.rData p.abs k n hp' hr hk0 hnpos (by omega)
              (by simp only [Pipe.abs]; omega)) ?_
            simp [Pipe.abs, hc, hsz]
          · exact ⟨hsi'.size_pos, hsi'.rle, hsi'.wle, hsi'.reset, by simp [hsi'.open_, hr], fun _ => hsi'.memlen,
              by simp [hp'], by simp⟩
        · have he : p.store.rpos = p.store.wpos := by have := h.rle; omega
          have hq : p.store.contents = [] := (contents_eq_nil_iff h hr).mpr he
          obtain hw | ⟨e, hw⟩ := Option.eq_none_or_eq_some p.werr
          · rw [Pipe.readSome_park h hr hk0 he hw]
            refine ⟨Next.rPark p.abs k hp' hr hk0 hq hw, ?_⟩
            refine ⟨h.size_pos, h.rle, h.wle, h.reset, h.closed_iff, h.memlen, fun _ => ⟨he, hr, hw⟩, ?_⟩
            intro hwp
            have := (h.wpark hwp).1
            have := h.size_pos
            simp only at this ⊢
            omega
          · rw [Pipe.readSome_drained h hr hk0 he hw]
            exact ⟨Next.rDrained p.abs k e hp' hr hk0 hq hw, h⟩
    · rw [Pipe.readSome_closed hr]
      exact ⟨Next.rClosed _ _ hp' (by simp [Pipe.abs, hr]), h⟩
  | writeSome bs =>
    by_cases hp : p.wPark = true
    · simp only [Pipe.step, hp, if_true]
      exact ⟨Next.wDisabled _ _ hp, h⟩
    have hp' : p.wPark = false := by simpa using hp
    simp only [Pipe.step, hp', Bool.false_eq_true, if_false]
    obtain hw | ⟨e, hw⟩ := Option.eq_none_or_eq_some p.werr
    · obtain hr | ⟨e, hr⟩ := Option.eq_none_or_eq_some p.rerr
      · by_cases hb : bs = []
        · subst hb
          rw [Pipe.writeSome_zero hw hr]
          exact ⟨Next.wZero _ hp' hw hr, h⟩
        · have hlen := length_contents (h.open_ hr)
          by_cases hroom : p.store.wpos < p.store.rpos + p.store.size
          · obtain ⟨s', n, hws, hsi', hn, hnpos, hc, hsz, hbk, _, _⟩ := Pipe.writeSome_data h hw hr hb hroom
            rw [hws]
            refine ⟨?_, ?_⟩
            · refine next_congr (Next.wData p.abs bs n hp' hw hr hb hnpos (by omega)
                (by simp only [Pipe.abs]; omega)) ?_
              simp [Pipe.abs, hc, hsz]
            · exact ⟨hsi'.size_pos, hsi'.rle, hsi'.wle, hsi'.reset, by simp [hsi'.open_, hr], fun _ => hsi'.memlen,
                by simp, by simp [hp']⟩
          · have hf : p.store.wpos = p.store.rpos + p.store.size := by have := h.wle; omega
            rw [Pipe.writeSome_park h hw hr hb hf]
            refine ⟨Next.wPark p.abs bs hp' hw hr hb (by simp only [Pipe.abs]; omega), ?_⟩
            refine ⟨h.size_pos, h.rle, h.wle, h.reset, h.closed_iff, h.memlen, ?_, fun _ => ⟨hf, hr, hw⟩⟩
            intro hrp
            have := (h.rpark hrp).1
            have := h.size_pos
            simp only at this ⊢
            omega
      · rw [Pipe.writeSome_readerGone hw hr]
        exact ⟨Next.wReaderGone _ _ e hp' hw hr, h⟩
    · rw [Pipe.writeSome_closed hw]
      exact ⟨Next.wClosed _ _ hp' (by simp [Pipe.abs, hw]), h⟩
  | rclose e =>
    simp only [Pipe.step]
    refine ⟨next_congr (Next.rclose p.abs e) ?_, ?_⟩
    · simp [Pipe.abs, Pipe.rclose, Store.rclose, Store.contents]
    · refine ⟨h.size_pos, h.rle, h.wle, h.reset, ?_, by simp [Pipe.rclose, Store.rclose], by simp [Pipe.rclose],
        by simp [Pipe.rclose]⟩
      cases hr : p.rerr <;> simp [Pipe.rclose, Store.rclose, setOnce, hr]
  | wclose e =>
    simp only [Pipe.step]
    refine ⟨next_congr (Next.wclose p.abs e) ?_, ?_⟩
    · simp [Pipe.abs, Pipe.wclose, Store.wclose]
    · exact ⟨h.size_pos, h.rle, h.wle, h.reset, h.closed_iff, h.memlen, by simp [Pipe.wclose], by simp [Pipe.wclose]⟩
  | buffered =>
    simp only [Pipe.step]
    refine ⟨?_, h⟩
    obtain hr | ⟨e, hr⟩ := Option.eq_none_or_eq_some p.rerr
    · have hb := buffered_eq h hr
      by_cases hq : p.store.contents = []
      · have hb0 : p.store.buffered = 0 := by rw [hb, hq]; rfl
        have hx := Next.bufferedNone p.abs hr hq
        simp only [Pipe.buffered, hr, hb0, Option.isSome_none, Bool.false_eq_true, if_false, ne_eq,
          not_true_eq_false]
        exact hx
      · have hb0 : p.store.buffered ≠ 0 := by
          rw [hb]; exact fun hc => hq (List.eq_nil_of_length_eq_zero hc)
        have hx := Next.bufferedSome p.abs hr hq
        simp only [Pipe.buffered, hr, hb0, Option.isSome_none, Bool.false_eq_true, if_false, ne_eq,
          not_false_eq_true, if_true]
        rw [hb]
        exact hx
    · have hx := Next.bufferedClosed p.abs e hr
      simpa [Pipe.buffered, hr] using hx
  | available =>
    simp only [Pipe.step]
    refine ⟨?_, h⟩
    obtain hw | ⟨e, hw⟩ := Option.eq_none_or_eq_some p.werr
    · obtain hr | ⟨e, hr⟩ := Option.eq_none_or_eq_some p.rerr
      · have hx := Next.avail p.abs hw hr
        simp only [Pipe.available, hw, hr, available_eq h hr, Option.isSome_none, Bool.false_eq_true,
          if_false]
        exact hx
      · have hx := Next.availRClosed p.abs e hw hr
        simpa [Pipe.available, hw, hr] using hx
    · have hx := Next.availWClosed p.abs e hw
      simpa [Pipe.available, hw] using hx

/-! ### consequences of the specification's step relation -/

theorem setOnce_ne_none (o : Option Err) (e : Err) : setOnce o e ≠ none := by
  cases o <;> simp [setOnce]

/-- bookkeeping of one allowed step: what went in at the back equals what came out at the front -/
theorem next_hist {a : APipe} {s : Step} {o : Obs} {a' : APipe} (h : Next a s o a') :
    (a'.rerr = none → a.q ++ wrote s o = got s o ++ a'.q) ∧
    (a'.rerr ≠ none → wrote s o = [] ∧ got s o = []) := by
  cases h <;> simp_all [wrote, got, setOnce_ne_none]

theorem next_rerr_mono {a : APipe} {s : Step} {o : Obs} {a' : APipe} (h : Next a s o a') :
    a'.rerr = none → a.rerr = none := by
  cases h <;> simp_all [setOnce_ne_none]

/-! ### lifting to whole schedules -/

theorem run_cons (p : Pipe) (s : Step) (rest : List Step) :
    p.run (s :: rest) = (((p.step s).1.run rest).1, (s, (p.step s).2) :: ((p.step s).1.run rest).2) := by
  simp [Pipe.run]

theorem run_inv {p : Pipe} (h : Inv p) (steps : List Step) : Inv (p.run steps).1 := by
  induction steps generalizing p with
  | nil => exact h
  | cons s rest ih => rw [run_cons]; exact ih (step_refines h s).2

theorem run_rerr_mono {p : Pipe} (h : Inv p) (steps : List Step) :
    (p.run steps).1.rerr = none → p.rerr = none := by
  induction steps generalizing p with
  | nil => exact id
  | cons s rest ih =>
    rw [run_cons]
    intro hn
    exact next_rerr_mono (step_refines h s).1 (ih (step_refines h s).2 hn)

/-- once the reader has closed nothing is accepted and nothing is delivered any more -/
theorem run_closed_silent {p : Pipe} (h : Inv p) (hr : p.rerr ≠ none) (steps : List Step) :
    writtenOf (p.run steps).2 = [] ∧ readOutOf (p.run steps).2 = [] := by
  induction steps generalizing p with
  | nil => exact ⟨rfl, rfl⟩
  | cons s rest ih =>
    rw [run_cons]
    obtain ⟨hn, hi⟩ := step_refines h s
    have hr' : (p.step s).1.rerr ≠ none := fun hc => hr (next_rerr_mono hn hc)
    have := (next_hist hn).2 hr'
    have := ih hi hr'
    simp_all [writtenOf, readOutOf]

/-- FIFO bookkeeping over a whole schedule, from any state satisfying the invariant -/
theorem run_hist {p : Pipe} (h : Inv p) (steps : List Step) :
    ((p.run steps).1.rerr = none →
      p.store.contents ++ writtenOf (p.run steps).2 = readOutOf (p.run steps).2 ++ (p.run steps).1.store.contents) ∧
    readOutOf (p.run steps).2 <+: p.store.contents ++ writtenOf (p.run steps).2 := by
  induction steps generalizing p with
  | nil => simp [Pipe.run, writtenOf, readOutOf]
  | cons s rest ih =>
    rw [run_cons]
    obtain ⟨hn, hi⟩ := step_refines h s
    obtain ⟨ih1, ih2⟩ := ih hi
    have hh := next_hist hn
    simp only [writtenOf, readOutOf]
    by_cases hr1 : (p.step s).1.rerr = none
    · have e := hh.1 hr1
      simp only [Pipe.abs] at e
      refine ⟨fun hr2 => ?_, ?_⟩
      · rw [← List.append_assoc, e, List.append_assoc, ih1 hr2, List.append_assoc]
      · rw [← List.append_assoc, e, List.append_assoc]
        exact (List.prefix_append_right_inj _).mpr ih2
    · have e := hh.2 hr1
      have sil := run_closed_silent hi hr1 rest
      refine ⟨fun hr2 => absurd (run_rerr_mono hi rest hr2) hr1, ?_⟩
      rw [e.1, e.2, sil.1, sil.2]
      simp


theorem next_cap {a : APipe} {s : Step} {o : Obs} {a' : APipe} (h : Next a s o a') : a'.cap = a.cap := by
  cases h <;> rfl

/-- the ring size never changes -/
theorem run_size {p : Pipe} (h : Inv p) (steps : List Step) : (p.run steps).1.store.size = p.store.size := by
  induction steps generalizing p with
  | nil => rfl
  | cons s rest ih =>
    rw [run_cons, ih (step_refines h s).2]
    exact next_cap (step_refines h s).1

theorem init_contents (b : Backend) (size : Nat) : (Pipe.init b size).store.contents = [] := by
  simp [Pipe.init, Store.init, Store.contents, cells]

/-! ### reachable states -/

/-- `p` is reachable: some backend, some ring size > 0, some schedule of atomic steps (any interleaving
    of reader, writer, closers and counters) leads from the freshly built pipe to `p`. -/
def Reach (p : Pipe) : Prop :=
  ∃ (b : Backend) (size : Nat) (steps : List Step), 0 < size ∧ p = ((Pipe.init b size).run steps).1

theorem Reach.inv {p : Pipe} (h : Reach p) : Inv p := by
  obtain ⟨b, size, steps, hs, rfl⟩ := h
  exact run_inv (init_inv b size hs) steps

theorem run_append (p : Pipe) (xs ys : List Step) :
    ((p.run xs).1.run ys).1 = (p.run (xs ++ ys)).1 := by
  induction xs generalizing p with
  | nil => rfl
  | cons s rest ih => simp only [List.cons_append, run_cons]; exact ih _

theorem Reach.run {p : Pipe} (h : Reach p) (steps : List Step) : Reach (p.run steps).1 := by
  obtain ⟨b, size, st0, hs, rfl⟩ := h
  exact ⟨b, size, st0 ++ steps, hs, run_append _ _ _⟩

theorem Reach.step {p : Pipe} (h : Reach p) (s : Step) : Reach (p.step s).1 := by
  have := h.run [s]
  simpa [Pipe.run] using this

/-! ### the backend is not observable -/

/-- two pipes in the same abstract and positional state; their backends (and byte lists) may differ -/
structure Sim (p q : Pipe) : Prop where
  ip : Inv p
  iq : Inv q
  size : p.store.size = q.store.size
  rpos : p.store.rpos = q.store.rpos
  wpos : p.store.wpos = q.store.wpos
  cont : p.store.contents = q.store.contents
  rerr : p.rerr = q.rerr
  werr : p.werr = q.werr
  rPark : p.rPark = q.rPark
  wPark : p.wPark = q.wPark

theorem sim_init (size : Nat) (hs : 0 < size) : Sim (Pipe.init .mem size) (Pipe.init .file size) :=
  ⟨init_inv _ _ hs, init_inv _ _ hs, rfl, rfl, rfl, by rw [init_contents, init_contents], rfl, rfl, rfl, rfl⟩

theorem sim_readSome {p q : Pipe} (h : Sim p q) (k : Nat) :
    (p.readSome k).2 = (q.readSome k).2 ∧ Sim (p.readSome k).1 (q.readSome k).1 := by
  obtain ⟨ip, iq, hsz, hrp, hwp, hc, hre, hwe, hrP, hwP⟩ := h
  obtain hr | ⟨e, hr⟩ := Option.eq_none_or_eq_some p.rerr
  · have hr' : q.rerr = none := hre ▸ hr
    by_cases hk : k = 0
    · subst hk
      rw [Pipe.readSome_zero hr, Pipe.readSome_zero hr', buffered_eq ip hr, buffered_eq iq hr', hc, hwe]
      exact ⟨rfl, ip, iq, hsz, hrp, hwp, hc, hre, hwe, hrP, hwP⟩
    · have hk0 : 0 < k := Nat.pos_of_ne_zero hk
      by_cases hne : p.store.rpos < p.store.wpos
      · have hne' : q.store.rpos < q.store.wpos := by omega
        obtain ⟨s1, n1, e1, si1, hn1, _, c1, z1, _, r1, w1⟩ := Pipe.readSome_data ip hr hk0 hne
        obtain ⟨s2, n2, e2, si2, hn2, _, c2, z2, _, r2, w2⟩ := Pipe.readSome_data iq hr' hk0 hne'
        have hn : n1 = n2 := by rw [hn1, hn2, hsz, hrp, hwp]
        subst hn
        have i1 := (step_refines ip (.readSome k)).2
        have i2 := (step_refines iq (.readSome k)).2
        by_cases hp : p.rPark = true
        · have := (ip.rpark hp).1; omega
        · have hp' : p.rPark = false := by simpa using hp
          have hq' : q.rPark = false := hrP ▸ hp'
          simp only [Pipe.step, hp', hq', Bool.false_eq_true, if_false] at i1 i2
          rw [e1] at i1; rw [e2] at i2
          rw [e1, e2, hc]
          refine ⟨rfl, i1, i2, ?_, ?_, ?_, ?_, hre, hwe, hrP, rfl⟩
          · simp [z1, z2, hsz]
          · simp [r1, r2, hrp, hwp]
          · simp [w1, w2, hrp, hwp]
          · simp [c1, c2, hc]
      · have he : p.store.rpos = p.store.wpos := by have := ip.rle; omega
        have he' : q.store.rpos = q.store.wpos := by omega
        obtain hw | ⟨e, hw⟩ := Option.eq_none_or_eq_some p.werr
        · have hw' : q.werr = none := hwe ▸ hw
          rw [Pipe.readSome_park ip hr hk0 he hw, Pipe.readSome_park iq hr' hk0 he' hw']
          refine ⟨rfl, ?_, ?_, hsz, hrp, hwp, hc, hre, hwe, rfl, hwP⟩
          · refine ⟨ip.size_pos, ip.rle, ip.wle, ip.reset, ip.closed_iff, ip.memlen, fun _ => ⟨he, hr, hw⟩, ?_⟩
            intro hx; have := (ip.wpark hx).1; have := ip.size_pos; simp only at this ⊢; omega
          · refine ⟨iq.size_pos, iq.rle, iq.wle, iq.reset, iq.closed_iff, iq.memlen, fun _ => ⟨he', hr', hw'⟩, ?_⟩
            intro hx; have := (iq.wpark hx).1; have := iq.size_pos; simp only at this ⊢; omega
        · have hw' : q.werr = some e := hwe ▸ hw
          rw [Pipe.readSome_drained ip hr hk0 he hw, Pipe.readSome_drained iq hr' hk0 he' hw']
          exact ⟨rfl, ip, iq, hsz, hrp, hwp, hc, hre, hwe, hrP, hwP⟩
  · have hr' : q.rerr = some e := hre ▸ hr
    rw [Pipe.readSome_closed hr, Pipe.readSome_closed hr']
    exact ⟨rfl, ip, iq, hsz, hrp, hwp, hc, hre, hwe, hrP, hwP⟩

theorem sim_writeSome {p q : Pipe} (h : Sim p q) (bs : Bytes) :
    (p.writeSome bs).2 = (q.writeSome bs).2 ∧ Sim (p.writeSome bs).1 (q.writeSome bs).1 := by
  obtain ⟨ip, iq, hsz, hrp, hwp, hc, hre, hwe, hrP, hwP⟩ := h
  obtain hw | ⟨e, hw⟩ := Option.eq_none_or_eq_some p.werr
  · have hw' : q.werr = none := hwe ▸ hw
    obtain hr | ⟨e, hr⟩ := Option.eq_none_or_eq_some p.rerr
    · have hr' : q.rerr = none := hre ▸ hr
      by_cases hb : bs = []
      · subst hb
        rw [Pipe.writeSome_zero hw hr, Pipe.writeSome_zero hw' hr']
        exact ⟨rfl, ip, iq, hsz, hrp, hwp, hc, hre, hwe, hrP, hwP⟩
      · by_cases hroom : p.store.wpos < p.store.rpos + p.store.size
        · have hroom' : q.store.wpos < q.store.rpos + q.store.size := by omega
          obtain ⟨s1, n1, e1, si1, hn1, _, c1, z1, _, r1, w1⟩ := Pipe.writeSome_data ip hw hr hb hroom
          obtain ⟨s2, n2, e2, si2, hn2, _, c2, z2, _, r2, w2⟩ := Pipe.writeSome_data iq hw' hr' hb hroom'
          have hn : n1 = n2 := by rw [hn1, hn2, hsz, hrp, hwp]
          subst hn
          by_cases hp : p.wPark = true
          · have := (ip.wpark hp).1; omega
          · have hp' : p.wPark = false := by simpa using hp
            have hq' : q.wPark = false := hwP ▸ hp'
            have i1 := (step_refines ip (.writeSome bs)).2
            have i2 := (step_refines iq (.writeSome bs)).2
            simp only [Pipe.step, hp', hq', Bool.false_eq_true, if_false] at i1 i2
            rw [e1] at i1; rw [e2] at i2
            rw [e1, e2]
            refine ⟨rfl, i1, i2, ?_, ?_, ?_, ?_, hre, hwe, rfl, hwP⟩
            · simp [z1, z2, hsz]
            · simp [r1, r2, hrp]
            · simp [w1, w2, hwp]
            · simp [c1, c2, hc]
        · have hf : p.store.wpos = p.store.rpos + p.store.size := by have := ip.wle; omega
          have hf' : q.store.wpos = q.store.rpos + q.store.size := by omega
          rw [Pipe.writeSome_park ip hw hr hb hf, Pipe.writeSome_park iq hw' hr' hb hf']
          refine ⟨rfl, ?_, ?_, hsz, hrp, hwp, hc, hre, hwe, hrP, rfl⟩
          · refine ⟨ip.size_pos, ip.rle, ip.wle, ip.reset, ip.closed_iff, ip.memlen, ?_, fun _ => ⟨hf, hr, hw⟩⟩
            intro hx; have := (ip.rpark hx).1; have := ip.size_pos; simp only at this ⊢; omega
          · refine ⟨iq.size_pos, iq.rle, iq.wle, iq.reset, iq.closed_iff, iq.memlen, ?_, fun _ => ⟨hf', hr', hw'⟩⟩
            intro hx; have := (iq.rpark hx).1; have := iq.size_pos; simp only at this ⊢; omega
    · have hr' : q.rerr = some e := hre ▸ hr
      rw [Pipe.writeSome_readerGone hw hr, Pipe.writeSome_readerGone hw' hr']
      exact ⟨rfl, ip, iq, hsz, hrp, hwp, hc, hre, hwe, hrP, hwP⟩
  · have hw' : q.werr = some e := hwe ▸ hw
    rw [Pipe.writeSome_closed hw, Pipe.writeSome_closed hw']
    exact ⟨rfl, ip, iq, hsz, hrp, hwp, hc, hre, hwe, hrP, hwP⟩

theorem sim_step {p q : Pipe} (h : Sim p q) (s : Step) :
    (p.step s).2 = (q.step s).2 ∧ Sim (p.step s).1 (q.step s).1 := by
  cases s with
  | readSome k =>
    by_cases hp : p.rPark = true
    · have hq : q.rPark = true := h.rPark ▸ hp
      simp only [Pipe.step, hp, hq, if_true]; exact ⟨trivial, h⟩
    · have hp' : p.rPark = false := by simpa using hp
      have hq' : q.rPark = false := h.rPark ▸ hp'
      have := sim_readSome h k
      simp only [Pipe.step, hp', hq', Bool.false_eq_true, if_false]
      exact ⟨by rw [this.1], this.2⟩
  | writeSome bs =>
    by_cases hp : p.wPark = true
    · have hq : q.wPark = true := h.wPark ▸ hp
      simp only [Pipe.step, hp, hq, if_true]; exact ⟨trivial, h⟩
    · have hp' : p.wPark = false := by simpa using hp
      have hq' : q.wPark = false := h.wPark ▸ hp'
      have := sim_writeSome h bs
      simp only [Pipe.step, hp', hq', Bool.false_eq_true, if_false]
      exact ⟨by rw [this.1], this.2⟩
  | rclose e =>
    refine ⟨rfl, (step_refines h.ip (.rclose e)).2, (step_refines h.iq (.rclose e)).2, h.size, h.rpos, h.wpos,
      ?_, ?_, h.werr, rfl, rfl⟩
    · simp [Pipe.step, Pipe.rclose, Store.rclose, Store.contents]
    · simp [Pipe.step, Pipe.rclose, h.rerr]
  | wclose e =>
    refine ⟨rfl, (step_refines h.ip (.wclose e)).2, (step_refines h.iq (.wclose e)).2, h.size, h.rpos, h.wpos,
      h.cont, h.rerr, ?_, rfl, rfl⟩
    simp [Pipe.step, Pipe.wclose, h.werr]
  | buffered =>
    refine ⟨?_, h⟩
    obtain hr | ⟨e, hr⟩ := Option.eq_none_or_eq_some p.rerr
    · have hr' : q.rerr = none := h.rerr ▸ hr
      simp only [Pipe.step, Pipe.buffered, hr, hr', buffered_eq h.ip hr, buffered_eq h.iq hr', h.cont, h.werr]
    · have hr' : q.rerr = some e := h.rerr ▸ hr
      simp [Pipe.step, Pipe.buffered, hr, hr']
  | available =>
    refine ⟨?_, h⟩
    obtain hw | ⟨e, hw⟩ := Option.eq_none_or_eq_some p.werr
    · have hw' : q.werr = none := h.werr ▸ hw
      obtain hr | ⟨e, hr⟩ := Option.eq_none_or_eq_some p.rerr
      · have hr' : q.rerr = none := h.rerr ▸ hr
        simp only [Pipe.step, Pipe.available, hw, hw', hr, hr', available_eq h.ip hr, available_eq h.iq hr',
          h.cont, h.size]
      · have hr' : q.rerr = some e := h.rerr ▸ hr
        simp [Pipe.step, Pipe.available, hw, hw', hr, hr']
    · have hw' : q.werr = some e := h.werr ▸ hw
      simp [Pipe.step, Pipe.available, hw, hw']

/-- the whole trace of a schedule is the same on two simulating pipes -/
theorem sim_run {p q : Pipe} (h : Sim p q) (steps : List Step) :
    (p.run steps).2 = (q.run steps).2 ∧ Sim (p.run steps).1 (q.run steps).1 := by
  induction steps generalizing p q with
  | nil => exact ⟨rfl, h⟩
  | cons s rest ih =>
    rw [run_cons, run_cons]
    obtain ⟨ho, hs⟩ := sim_step h s
    obtain ⟨ht, hf⟩ := ih hs
    exact ⟨by rw [ho, ht], hf⟩

end RSVerif.Lemmas.Pipe
