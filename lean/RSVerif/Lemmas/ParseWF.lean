import RSVerif.Lemmas.IncrParse
import RSVerif.Lemmas.Sender
import RSVerif.Lemmas.Resume
import RSVerif.Lemmas.Routing
import RSVerif.Lemmas.RunId
/-
What the parser emits is well-formed for the sender and readable by the target, given a well-formed source stream.
-/
namespace RSVerif.Lemmas.ParseWF
open RSVerif RSVerif.Sync RSVerif.IncrParse RSVerif.Spec.IncrSync RSVerif.Spec.MiniRedis
open RSVerif.Lemmas.IncrParse RSVerif.Lemmas.Sender RSVerif.Lemmas.SenderRedis RSVerif.Lemmas.Resume

/-- the filters treat the source's MULTI/EXEC like any passing command (they are neither filtered commands nor
rows of the key table) -/
structure MarkerNeutral (cfg : PCfg) : Prop where
  multiCmd : cfg.filterCmd "multi" = false
  execCmd : cfg.filterCmd "exec" = false
  multiKey : ∀ a, (cfg.keyFilter "multi" a).2 = false
  execKey : ∀ a, (cfg.keyFilter "exec" a).2 = false

theorem dropStatus_marker (cfg : PCfg) (hm : MarkerNeutral cfg) (c : SrcCmd)
    (h : c.cmd = "multi" ∨ c.cmd = "exec") : dropStatus cfg c = some false := by
  have e1 : eqFold "multi" "publish" = false := by decide
  have e2 : eqFold "exec" "publish" = false := by decide
  have p1 : ("multi" == "ping") = false := by decide
  have p2 : ("exec" == "ping") = false := by decide
  rcases h with h | h <;> simp [dropStatus, isSentinelHello, h, hm.multiCmd, hm.execCmd, e1, e2, p1, p2]

theorem wf_single (t : Bool) (it : Item) (rest : List Item)
    (h1 : it.cmd ≠ "multi") (h2 : it.cmd ≠ "exec") (h3 : it.cmd ≠ "select") :
    wfFrom t (it :: rest) = wfFrom t rest := by
  rw [wfFrom]; simp [h1, h2, h3]

/-- the parser's output is well-formed for the sender whenever the source stream is -/
theorem ploop_wf (cfg : PCfg) (base : Int) (hk : SelectNeutral cfg) (hm : MarkerNeutral cfg) (cmds : List SrcCmd)
    (hn : Normalized cmds) (st : PState) (hab : (ploop cfg base st cmds).2 = false) (t : Bool)
    (hsrc : srcWfFrom t cmds = true) :
    wfFrom (t && !st.bypass) (ploop cfg base st cmds).1 = true := by
  induction cmds generalizing st t with
  | nil => cases t <;> cases st.bypass <;> rfl
  | cons c cs ih =>
    have hnc : normName c.cmd = c.cmd := hn c (by simp)
    have hn' : Normalized cs := fun x hx => hn x (by simp [hx])
    rw [ploop_cons] at hab ⊢
    rw [srcWfFrom] at hsrc
    by_cases hs : c.cmd = "select"
    · have e1 : ¬ ("select" = "multi") := by decide
      have e2 : ¬ ("select" = "exec") := by decide
      simp only [hs, e1, e2, if_false, if_true, Bool.and_eq_true, Bool.not_eq_true'] at hsrc
      obtain ⟨ht, hsrc'⟩ := hsrc
      subst ht
      rw [pstep_select cfg base st c hk hs] at hab ⊢
      cases hargs : c.args with
      | nil => simp [hargs] at hab
      | cons a rest =>
        cases rest with
        | cons b r => simp [hargs] at hab
        | nil =>
          simp only [hargs] at hab ⊢
          cases hat : atoi a with
          | none => simp [hat] at hab
          | some n =>
            simp only [hat] at hab ⊢
            by_cases hf : cfg.filterDB n = true
            · simp only [hf, if_true] at hab ⊢
              simpa using ih hn' (afterSelect cfg st n) hab false hsrc'
            · simp only [hf, Bool.false_eq_true, if_false] at hab ⊢
              by_cases ht : (cfg.targetDB != -1) = true
              · simp only [ht, if_true] at hab ⊢
                by_cases hl : (cfg.targetDB != (afterSelect cfg st n).lastDb) = true
                · simp only [hl, if_true] at hab ⊢
                  have := ih hn' { afterSelect cfg st n with lastDb := cfg.targetDB } hab false hsrc'
                  simp only [Bool.false_and, List.cons_append, List.nil_append] at this ⊢
                  rw [wf_single _ _ _ (by simp) (by simp) (by simp)]
                  exact this
                · simp only [hl, Bool.false_eq_true, if_false] at hab ⊢
                  simpa using ih hn' (afterSelect cfg st n) hab false hsrc'
              · simp only [ht, Bool.false_eq_true, if_false] at hab ⊢
                have := ih hn' (afterSelect cfg st n) hab false hsrc'
                simp only [Bool.false_and, List.cons_append, List.nil_append] at this ⊢
                rw [wfFrom_cons]
                simp only [okIn, nextTx]
                simpa using this
    · rw [pstep_other cfg base st c hnc hs] at hab ⊢
      cases hd : dropStatus cfg c with
      | none => simp [hd] at hab
      | some dropped =>
        simp only [hd] at hab ⊢
        by_cases hmu : c.cmd = "multi"
        · simp only [hmu, if_true, Bool.and_eq_true, Bool.not_eq_true'] at hsrc
          obtain ⟨ht, hsrc'⟩ := hsrc
          subst ht
          have hdd : dropped = false := by
            have := dropStatus_marker cfg hm c (Or.inl hmu); rw [hd] at this; simpa using this
          have hkk := hm.multiKey c.args
          rw [← hmu] at hkk
          cases hb : st.bypass
          · simp only [hdd, hkk, Bool.or_false, Bool.false_eq_true, if_false, List.cons_append,
              List.nil_append, Bool.false_and]
            rw [wfFrom_cons]
            have := ih hn' st hab true hsrc'
            simp only [hb, Bool.not_false, Bool.and_true] at this
            simpa [okIn, nextTx, itemOf, hmu] using this
          · simp only [Bool.true_or, if_true, List.nil_append, Bool.false_and]
            have := ih hn' st hab true hsrc'
            simpa [hb] using this
        · by_cases hex : c.cmd = "exec"
          · have e1 : ¬ ("exec" = "multi") := by decide
            simp only [hex, e1, if_false, if_true] at hsrc
            have hdd : dropped = false := by
              have := dropStatus_marker cfg hm c (Or.inr hex); rw [hd] at this; simpa using this
            have hkk := hm.execKey c.args
            rw [← hex] at hkk
            cases hb : st.bypass
            · simp only [hdd, hkk, Bool.or_false, Bool.false_eq_true, if_false, List.cons_append,
                List.nil_append, Bool.not_false, Bool.and_true]
              rw [wfFrom_cons]
              have := ih hn' st hab false hsrc
              simp only [Bool.false_and] at this
              simpa [okIn, nextTx, itemOf, hex] using this
            · simp only [Bool.true_or, if_true, List.nil_append, Bool.not_true, Bool.and_false]
              have := ih hn' st hab false hsrc
              simpa using this
          · simp only [hmu, hex, hs, if_false] at hsrc
            have := ih hn' st hab t hsrc
            by_cases hcond : (st.bypass || dropped || (cfg.keyFilter c.cmd c.args).2) = true
            · simp only [hcond, if_true, List.nil_append]; exact this
            · simp only [hcond, Bool.false_eq_true, if_false, List.cons_append, List.nil_append]
              rw [wf_single _ _ _ (by simpa [itemOf] using hmu) (by simpa [itemOf] using hex)
                (by simpa [itemOf] using hs)]
              exact this


/-- every item is a SELECT the target can read, or stems from a surviving command -/
theorem ploop_items (cfg : PCfg) (base : Int) (hk : SelectNeutral cfg) (cmds : List SrcCmd)
    (hn : Normalized cmds) (st : PState) (hab : (ploop cfg base st cmds).2 = false) :
    ∀ it ∈ (ploop cfg base st cmds).1,
      (∃ a n, it.cmd = "select" ∧ it.args = [a] ∧ atoi a = some n) ∨
      (∃ k, it.cmd = "SELECT" ∧ it.args = [fmtInt k]) ∨
      (∃ c ∈ survivors cfg st.bypass cmds, it.cmd = c.cmd ∧ it.args = (cfg.keyFilter c.cmd c.args).1 ∧
        normName c.cmd = c.cmd ∧ c.cmd ≠ "select") := by
  induction cmds generalizing st with
  | nil => intro it hit; simp [ploop] at hit
  | cons c cs ih =>
    have hnc : normName c.cmd = c.cmd := hn c (by simp)
    have hn' : Normalized cs := fun x hx => hn x (by simp [hx])
    rw [ploop_cons] at hab ⊢
    by_cases hs : c.cmd = "select"
    · rw [pstep_select cfg base st c hk hs] at hab ⊢
      rw [survivors, if_pos hs]
      cases hargs : c.args with
      | nil => simp [hargs] at hab
      | cons a rest =>
        cases rest with
        | cons b r => simp [hargs] at hab
        | nil =>
          simp only [hargs] at hab ⊢
          cases hat : atoi a with
          | none => simp [hat] at hab
          | some n =>
            simp only [hat] at hab ⊢
            by_cases hf : cfg.filterDB n = true
            · simp only [hf, if_true] at hab ⊢
              simpa [afterSelect, hf] using ih hn' (afterSelect cfg st n) hab
            · have hf' : cfg.filterDB n = false := by simpa using hf
              simp only [hf, Bool.false_eq_true, if_false] at hab ⊢
              by_cases ht : (cfg.targetDB != -1) = true
              · simp only [ht, if_true] at hab ⊢
                by_cases hl : (cfg.targetDB != (afterSelect cfg st n).lastDb) = true
                · simp only [hl, if_true] at hab ⊢
                  intro it hit
                  rcases List.mem_append.mp hit with h | h
                  · simp at h; subst h; exact Or.inr (Or.inl ⟨cfg.targetDB, rfl, rfl⟩)
                  · have := ih hn' { afterSelect cfg st n with lastDb := cfg.targetDB } hab it h
                    simpa [afterSelect, hf'] using this
                · simp only [hl, Bool.false_eq_true, if_false] at hab ⊢
                  simpa [afterSelect, hf'] using ih hn' (afterSelect cfg st n) hab
              · simp only [ht, Bool.false_eq_true, if_false] at hab ⊢
                intro it hit
                rcases List.mem_append.mp hit with h | h
                · simp at h; subst h; exact Or.inl ⟨a, n, rfl, rfl, hat⟩
                · have := ih hn' (afterSelect cfg st n) hab it h
                  simpa [afterSelect, hf'] using this
    · rw [pstep_other cfg base st c hnc hs] at hab ⊢
      rw [survivors, if_neg hs]
      cases hd : dropStatus cfg c with
      | none => simp [hd] at hab
      | some dropped =>
        simp only [hd] at hab ⊢
        intro it hit
        have hrest : ∀ it ∈ (ploop cfg base st cs).1, _ := ih hn' st hab
        rcases Lemmas.Routing.cond_cases st.bypass dropped (cfg.keyFilter c.cmd c.args).2 with ⟨h1, h2⟩ | ⟨h1, hb, hdd, hkk⟩
        · simp only [h1, if_true, List.nil_append] at hit
          rcases hrest it hit with h | h | ⟨c', hc', h'⟩
          · exact Or.inl h
          · exact Or.inr (Or.inl h)
          · exact Or.inr (Or.inr ⟨c', List.mem_append_right _ hc', h'⟩)
        · simp only [h1, Bool.false_eq_true, if_false] at hit
          rcases List.mem_append.mp hit with h | h
          · simp at h; subst h
            refine Or.inr (Or.inr ⟨c, ?_, rfl, rfl, hnc, hs⟩)
            simp [hb, hdd, hkk]
          · rcases hrest it h with h | h | ⟨c', hc', h'⟩
            · exact Or.inl h
            · exact Or.inr (Or.inl h)
            · exact Or.inr (Or.inr ⟨c', List.mem_append_right _ hc', h'⟩)

/-- … hence the target reads every non-marker item as SELECT, PING or a data command, provided no surviving
command writes the checkpoint hash itself -/
theorem parse_plain (ck : Bytes) (cfg : PCfg) (hk : SelectNeutral cfg) (startDb base : Int) (cmds : List SrcCmd)
    (hn : Normalized cmds) (hvalid : (parseFull cfg startDb base cmds).2 = false)
    (hnock : ∀ c ∈ survivors cfg false cmds, ∀ f v,
      classify ck (c.cmd, (cfg.keyFilter c.cmd c.args).1) ≠ .ckpt f v) :
    ∀ it ∈ nonMarkers (parse cfg startDb base cmds), plainItem ck it = true := by
  intro it hit
  obtain ⟨hmem, hnm⟩ := List.mem_filter.mp hit
  have hnm' : it.cmd ≠ "multi" ∧ it.cmd ≠ "exec" := by simpa [marker] using hnm
  have esel : normName "select" = "select" := by decide
  have eSEL : normName "SELECT" = "select" := by decide
  rw [parse, Lemmas.Routing.parseFull_eq] at hmem
  rcases List.mem_append.mp hmem with h | h
  · unfold startItems at h
    split at h
    · simp at h; subst h
      simp [plainItem, cmdOf, classify, esel, Lemmas.SyncBasic.parseIntU_fmtInt]
    · simp at h
  · rcases ploop_items cfg base hk cmds hn PState.init (by simpa [Lemmas.Routing.parseFull_eq] using hvalid) it h with
      ⟨a, n, h1, h2, h3⟩ | ⟨k, h1, h2⟩ | ⟨c, hc, h1, h2, h3, h4⟩
    · simp [plainItem, cmdOf, classify, h1, h2, esel, Lemmas.Routing.atoi_parseIntU a n h3]
    · simp [plainItem, cmdOf, classify, h1, h2, eSEL, Lemmas.SyncBasic.parseIntU_fmtInt]
    · have hck : ∀ f v, classify ck (it.cmd, it.args) ≠ .ckpt f v := by
        intro f v; rw [h1, h2]; exact hnock c hc f v
      have hns := Lemmas.Routing.classify_not_select ck it.cmd it.args (by rw [h1]; exact h3) (by rw [h1]; exact h4)
      have hnorm : normName it.cmd = it.cmd := by rw [h1]; exact h3
      unfold plainItem cmdOf
      cases hcl : classify ck (it.cmd, it.args) with
      | select k => rfl
      | noop => rfl
      | data => rfl
      | ckpt f v => exact absurd hcl (hck f v)
      | multi =>
        exfalso
        unfold classify at hcl
        simp only [hnorm] at hcl
        split at hcl
        · split at hcl <;> (try split at hcl) <;> simp at hcl
        · split at hcl
          · exact hnm'.1 (by assumption)
          · split at hcl
            · simp at hcl
            · split at hcl
              · simp at hcl
              · split at hcl
                · split at hcl
                  · split at hcl <;> simp at hcl
                  · simp at hcl
                · simp at hcl
      | exec =>
        exfalso
        unfold classify at hcl
        simp only [hnorm] at hcl
        split at hcl
        · split at hcl <;> (try split at hcl) <;> simp at hcl
        · split at hcl
          · simp at hcl
          · split at hcl
            · exact hnm'.2 (by assumption)
            · split at hcl
              · simp at hcl
              · split at hcl
                · split at hcl
                  · split at hcl <;> simp at hcl
                  · simp at hcl
                · simp at hcl


/-! ### the `Db` tag of the parser's items determines the connection's database (no `target.db`) -/

open RSVerif.Lemmas.RunId in
/-- the tag function of a run started in `startDb`: items before the first SELECT carry `-1` -/
def tagFn (startDb : Int) (d : Int) : Int := if d = -1 then startDb else d

/-- no `select -1` in the stream (a server rejects it; it would collide with the "no SELECT yet" tag) -/
def NoSelectMinusOne (cmds : List SrcCmd) : Prop :=
  ∀ c ∈ cmds, c.cmd = "select" → ∀ a, c.args = [a] → atoi a ≠ some (-1)

open RSVerif.Lemmas.RunId in
theorem dbTag_nonMarkers_cons (ck : Bytes) (f : Int → Int) (conn : Int) (it : Item) (rest : List Item) :
    DbTag ck f conn (nonMarkers (it :: rest)) ↔
      if marker it then DbTag ck f conn (nonMarkers rest)
      else f it.db = dbStep ck conn (cmdOf it) ∧ DbTag ck f (dbStep ck conn (cmdOf it)) (nonMarkers rest) := by
  unfold nonMarkers
  by_cases hm : marker it = true
  · simp [hm]
  · have hm' : marker it = false := by simpa using hm
    simp [hm', DbTag]

theorem marker_select_item (a : Bytes) (off db : Int) :
    marker ({ cmd := "select", args := [a], off := off, db := db } : Item) = false := by
  simp [marker]

open RSVerif.Lemmas.RunId in
theorem dbStep_select_item (ck : Bytes) (conn : Int) (a : Bytes) (n off db : Int) (h : atoi a = some n) :
    dbStep ck conn (cmdOf ({ cmd := "select", args := [a], off := off, db := db } : Item)) = n := by
  have esel : normName "select" = "select" := by decide
  simp [dbStep, cmdOf, classify, esel, Lemmas.Routing.atoi_parseIntU a n h]

open RSVerif.Lemmas.RunId in
theorem ploop_dbTag (ck : Bytes) (cfg : PCfg) (htdb : cfg.targetDB = -1) (hk : SelectNeutral cfg) (base : Int)
    (cmds : List SrcCmd) (hn : Normalized cmds) (hno : NoSelectMinusOne cmds) (st : PState)
    (hab : (ploop cfg base st cmds).2 = false) (startDb conn : Int)
    (hinv : st.bypass = false → conn = tagFn startDb st.lastDb) :
    DbTag ck (tagFn startDb) conn (nonMarkers (ploop cfg base st cmds).1) := by
  induction cmds generalizing st conn with
  | nil => simp [ploop, nonMarkers, DbTag]
  | cons c cs ih =>
    have hnc : normName c.cmd = c.cmd := hn c (by simp)
    have hn' : Normalized cs := fun x hx => hn x (by simp [hx])
    have hno' : NoSelectMinusOne cs := fun x hx => hno x (by simp [hx])
    have ht : (cfg.targetDB != -1) = false := by simp [htdb]
    rw [ploop_cons] at hab ⊢
    by_cases hs : c.cmd = "select"
    · rw [pstep_select cfg base st c hk hs] at hab ⊢
      cases hargs : c.args with
      | nil => simp [hargs] at hab
      | cons a rest =>
        cases rest with
        | cons b r => simp [hargs] at hab
        | nil =>
          simp only [hargs] at hab ⊢
          cases hat : atoi a with
          | none => simp [hat] at hab
          | some n =>
            simp only [hat] at hab ⊢
            have hn1 : n ≠ -1 := by
              intro h; exact hno c (by simp) hs a hargs (by rw [hat, h])
            by_cases hf : cfg.filterDB n = true
            · simp only [hf, if_true, List.nil_append] at hab ⊢
              exact ih hn' hno' (afterSelect cfg st n) hab conn (by simp [afterSelect, hf])
            · have hf' : cfg.filterDB n = false := by simpa using hf
              simp only [hf, Bool.false_eq_true, if_false, ht, List.cons_append, List.nil_append] at hab ⊢
              rw [dbTag_nonMarkers_cons]
              have hl : (afterSelect cfg st n).lastDb = n := by simp [afterSelect, ht]
              simp only [marker_select_item, Bool.false_eq_true, if_false, dbStep_select_item ck conn a n _ _ hat]
              refine ⟨by rw [hl]; simp [tagFn, hn1], ?_⟩
              exact ih hn' hno' (afterSelect cfg st n) hab n (fun _ => by rw [hl]; simp [tagFn, hn1])
    · rw [pstep_other cfg base st c hnc hs] at hab ⊢
      cases hd : dropStatus cfg c with
      | none => simp [hd] at hab
      | some dropped =>
        simp only [hd] at hab ⊢
        rcases Lemmas.Routing.cond_cases st.bypass dropped (cfg.keyFilter c.cmd c.args).2 with ⟨h1, _⟩ | ⟨h1, hb, _, _⟩
        · simp only [h1, if_true, List.nil_append] at hab ⊢
          exact ih hn' hno' st hab conn hinv
        · simp only [h1, Bool.false_eq_true, if_false, List.cons_append, List.nil_append] at hab ⊢
          rw [dbTag_nonMarkers_cons]
          by_cases hm : marker (itemOf cfg base st c) = true
          · simp only [hm, if_true]
            exact ih hn' hno' st hab conn hinv
          · simp only [hm, Bool.false_eq_true, if_false]
            have hstep : dbStep ck conn (cmdOf (itemOf cfg base st c)) = conn := by
              have hns := Lemmas.Routing.classify_not_select ck c.cmd (cfg.keyFilter c.cmd c.args).1 hnc hs
              unfold dbStep cmdOf itemOf
              cases hc : classify ck (c.cmd, (cfg.keyFilter c.cmd c.args).1) with
              | select k => exact absurd hc (hns k)
              | _ => rfl
            rw [hstep]
            exact ⟨by simp [itemOf, hinv hb], ih hn' hno' st hab conn hinv⟩

open RSVerif.Lemmas.RunId in
/-- what the parser emits (without `target.db`) satisfies the `DbTag` hypothesis of `checkpoint_has_runid` -/
theorem parse_dbTag (ck : Bytes) (cfg : PCfg) (htdb : cfg.targetDB = -1) (hk : SelectNeutral cfg)
    (startDb base : Int) (cmds : List SrcCmd) (hn : Normalized cmds) (hno : NoSelectMinusOne cmds)
    (hvalid : (parseFull cfg startDb base cmds).2 = false) :
    DbTag ck (tagFn startDb) 0 (nonMarkers (parse cfg startDb base cmds)) := by
  rw [parse, Lemmas.Routing.parseFull_eq, nonMarkers_append]
  have hab : (ploop cfg base PState.init cmds).2 = false := by simpa [Lemmas.Routing.parseFull_eq] using hvalid
  rw [dbTag_append]
  unfold startItems
  by_cases h0 : startDb = 0
  · subst h0
    simp only [bne_self_eq_false, Bool.false_eq_true, if_false, nonMarkers, List.filter_nil, DbTag, true_and,
      dbAfter, List.map_nil, List.foldl_nil]
    exact ploop_dbTag ck cfg htdb hk base cmds hn hno PState.init hab 0 0 (fun _ => by simp [PState.init, tagFn])
  · have h0' : (startDb != 0) = true := by simpa using h0
    have esel : normName "select" = "select" := by decide
    have hstep : dbStep ck 0 ("select", [fmtInt startDb]) = startDb := by
      simp [dbStep, classify, esel, Lemmas.SyncBasic.parseIntU_fmtInt]
    simp only [h0', if_true, nonMarkers, marker, List.filter_cons, List.filter_nil]
    have e1 : (!("select" == "multi" || "select" == "exec")) = true := by decide
    simp only [e1, if_true, DbTag, cmdOf, hstep, and_true, dbAfter, List.map_cons, List.map_nil,
      List.foldl_cons, List.foldl_nil]
    refine ⟨by simp [tagFn], ?_⟩
    exact ploop_dbTag ck cfg htdb hk base cmds hn hno PState.init hab startDb startDb
      (fun _ => by simp [PState.init, tagFn])

end RSVerif.Lemmas.ParseWF
