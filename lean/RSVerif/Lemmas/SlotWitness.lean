import RSVerif.Lemmas.SlotWitness0
import RSVerif.Lemmas.SlotWitness1
import RSVerif.Lemmas.SlotWitness2
import RSVerif.Lemmas.SlotWitness3
import RSVerif.Lemmas.SlotWitness4
import RSVerif.Lemmas.SlotWitness5
import RSVerif.Lemmas.SlotWitness6
import RSVerif.Lemmas.SlotWitness7
/-
All 16384 slots have a kernel-checked witness suffix (assembled from the 8 witness modules).
-/
namespace RSVerif.Lemmas.Slot
open RSVerif

theorem witness_all : ∀ s, s < 16384 → ∃ x, rowOK x s = true := by
  intro s h2
  have h1 : 0 ≤ s := Nat.zero_le s
  rcases Nat.lt_or_ge s 2048 with h | h1
  · exact witness_module_0 s h1 h
  rcases Nat.lt_or_ge s 4096 with h | h1
  · exact witness_module_1 s h1 h
  rcases Nat.lt_or_ge s 6144 with h | h1
  · exact witness_module_2 s h1 h
  rcases Nat.lt_or_ge s 8192 with h | h1
  · exact witness_module_3 s h1 h
  rcases Nat.lt_or_ge s 10240 with h | h1
  · exact witness_module_4 s h1 h
  rcases Nat.lt_or_ge s 12288 with h | h1
  · exact witness_module_5 s h1 h
  rcases Nat.lt_or_ge s 14336 with h | h1
  · exact witness_module_6 s h1 h
  exact witness_module_7 s h1 h2

end RSVerif.Lemmas.Slot
