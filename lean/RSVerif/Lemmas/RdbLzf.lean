import RSVerif.Lemmas.RdbBasic
/-
Reader lemmas for C01, part 2: LZF decompression of encoded token streams, and `readString` for
every string object.
-/
set_option linter.unusedSimpArgs false
namespace RSVerif.Lemmas.Rdb
open RSVerif RSVerif.Rdb RSVerif.Spec.Rdb

theorem copyRef_eq_copyFrom (n pos : Nat) (out : Bytes) : copyRef n pos out = copyFrom n pos out := by
  induction n generalizing pos out with
  | zero => rfl
  | succ n ih => simp [copyRef, copyFrom, ih]

theorem copyFrom_length (n pos : Nat) (out : Bytes) : (copyFrom n pos out).length = out.length + n := by
  induction n generalizing pos out with
  | zero => rfl
  | succ n ih => simp [copyFrom, ih]; omega

def tokLen : LzfTok → Nat
  | .lit bs => bs.length
  | .ref _ len => len

theorem expandTok_length (out : Bytes) (t : LzfTok) : (expandTok out t).length = out.length + tokLen t := by
  cases t <;> simp [expandTok, tokLen, copyFrom_length]

theorem foldl_expand_length_ge (ts : List LzfTok) (out : Bytes) : out.length ≤ (ts.foldl expandTok out).length := by
  induction ts generalizing out with
  | nil => simp
  | cons t ts ih =>
    simp only [List.foldl_cons]
    have := ih (expandTok out t)
    rw [expandTok_length] at this
    omega

theorem lzfLoop_tok (outlen fuel : Nat) (t : LzfTok) (rest out : Bytes)
    (hok : tokOk out.length t) (hcap : (expandTok out t).length ≤ outlen) :
    lzfLoop outlen (fuel + 1) (encTok t ++ rest) out = lzfLoop outlen fuel rest (expandTok out t) := by
  rw [expandTok_length] at hcap
  cases t with
  | lit bs =>
    obtain ⟨h1, h2⟩ := hok
    simp only [tokLen] at hcap
    have hb : (UInt8.ofNat (bs.length - 1)).toNat = bs.length - 1 := ofNat_toNat _ (by omega)
    simp only [encTok, List.cons_append, lzfLoop, hb]
    have c1 : bs.length - 1 < 32 := by omega
    have c2 : ¬ (bs ++ rest).length < bs.length - 1 + 1 := by simp; omega
    have c3 : ¬ out.length + bs.length > outlen := by omega
    have c2' : ¬ (bs ++ rest).length < bs.length := by simp
    have e : bs.length - 1 + 1 = bs.length := by omega
    simp only [c1, c2, c2', c3, if_true, if_false, e, List.drop_left, List.take_left, expandTok]
  | ref off len =>
    obtain ⟨h1, h2, h3, h4, h5⟩ := hok
    simp only [tokLen] at hcap
    have hhi : (off - 1) / 256 < 32 := by omega
    have hlo : (off - 1) % 256 < 256 := Nat.mod_lt _ (by decide)
    have hoff : (off - 1) / 256 * 256 + (off - 1) % 256 + 1 = off := by omega
    by_cases hs : len - 2 < 7
    · have hb : (UInt8.ofNat ((len - 2) * 32 + (off - 1) / 256)).toNat = (len - 2) * 32 + (off - 1) / 256 :=
        ofNat_toNat _ (by omega)
      have hl : (UInt8.ofNat ((off - 1) % 256)).toNat = (off - 1) % 256 := ofNat_toNat _ hlo
      have c1 : ¬ (len - 2) * 32 + (off - 1) / 256 < 32 := by omega
      have c2 : ((len - 2) * 32 + (off - 1) / 256) / 32 = len - 2 := by omega
      have c3 : ¬ (len - 2 = 7) := by omega
      have c4 : ((len - 2) * 32 + (off - 1) / 256) % 32 = (off - 1) / 256 := by omega
      have c5 : ¬ off > out.length := by omega
      have c6 : ¬ out.length + len > outlen := by omega
      have e : len - 2 + 2 = len := by omega
      simp only [encTok, hs, if_true, List.cons_append, List.nil_append, lzfLoop, hb, hl, c1, c2, c3, c4, if_false,
        hoff, c5, c6, e, expandTok, copyRef_eq_copyFrom]
    · have hb : (UInt8.ofNat (7 * 32 + (off - 1) / 256)).toNat = 7 * 32 + (off - 1) / 256 :=
        ofNat_toNat _ (by omega)
      have hx : (UInt8.ofNat (len - 2 - 7)).toNat = len - 2 - 7 := ofNat_toNat _ (by omega)
      have hl : (UInt8.ofNat ((off - 1) % 256)).toNat = (off - 1) % 256 := ofNat_toNat _ hlo
      have c1 : ¬ 7 * 32 + (off - 1) / 256 < 32 := by omega
      have c2 : (7 * 32 + (off - 1) / 256) / 32 = 7 := by omega
      have c4 : (7 * 32 + (off - 1) / 256) % 32 = (off - 1) / 256 := by omega
      have c5 : ¬ off > out.length := by omega
      have e0 : 7 + (len - 2 - 7) = len - 2 := by omega
      have c6 : ¬ out.length + len > outlen := by omega
      have e : len - 2 + 2 = len := by omega
      simp only [encTok, hs, if_false, List.cons_append, List.nil_append, lzfLoop, hb, hx, hl, c1, c2, c4, if_true,
        e0, hoff, c5, c6, e, expandTok, copyRef_eq_copyFrom]

theorem lzfLoop_toks (outlen : Nat) (ts : List LzfTok) (out : Bytes) (fuel : Nat)
    (hok : toksOk out ts) (hfuel : ts.length ≤ fuel) (hcap : (ts.foldl expandTok out).length ≤ outlen) :
    lzfLoop outlen fuel (encToks ts) out = some (ts.foldl expandTok out) := by
  induction ts generalizing out fuel with
  | nil => cases fuel <;> simp [encToks, lzfLoop]
  | cons t ts ih =>
    obtain ⟨h1, h2⟩ := hok
    cases fuel with
    | zero => simp at hfuel
    | succ f =>
      have hE : encToks (t :: ts) = encTok t ++ encToks ts := by simp [encToks]
      simp only [List.foldl_cons] at hcap ⊢
      have hc : (expandTok out t).length ≤ outlen :=
        Nat.le_trans (foldl_expand_length_ge ts _) hcap
      rw [hE, lzfLoop_tok outlen f t _ out h1 hc]
      exact ih _ f h2 (by simpa using hfuel) hcap

theorem encTok_length_pos (t : LzfTok) : 1 ≤ (encTok t).length := by
  cases t with
  | lit bs => simp [encTok]
  | ref off len => simp only [encTok]; split <;> simp

theorem encToks_length_ge (ts : List LzfTok) : ts.length ≤ (encToks ts).length := by
  induction ts with
  | nil => simp [encToks]
  | cons t ts ih =>
    have : encToks (t :: ts) = encTok t ++ encToks ts := by simp [encToks]
    rw [this, List.length_append, List.length_cons]
    have := encTok_length_pos t
    omega

/-- decompressing the encoding of a well-formed token stream gives its expansion -/
theorem lzf_expand (ts : List LzfTok) (h : toksOk [] ts) :
    lzfDecompress (encToks ts) (expand ts).length = some (expand ts) := by
  unfold lzfDecompress
  rw [lzfLoop_toks (expand ts).length ts [] _ h (encToks_length_ge ts) (Nat.le_refl _)]
  simp [expand]

theorem readString_lzf (cf uf : LenForm) (ts : List LzfTok) (rest : Bytes) (h : strOk (.lzf cf uf ts)) :
    readString (serStr (.lzf cf uf ts) ++ rest) = .ok (expand ts, rest) := by
  obtain ⟨hc, hu, hcf, huf, htoks⟩ := h
  simp only [serStr, readString, List.cons_append, List.append_assoc]
  rw [show (0xC3 : UInt8) = UInt8.ofNat (0xC0 + 3) from rfl, readEncodedLength_encoded 3 (by omega)]
  simp only [Bool.not_true, Bool.false_eq_true, if_false]
  rw [readLength_enc _ hcf, readOf_not64 _ hc]
  simp only []
  rw [readLength_enc _ huf, readOf_not64 _ hu]
  simp only []
  rw [readN_append]
  simp only [lzf_expand ts htoks]

/-- every well-formed string object is read back as its logical content, leaving the rest untouched -/
theorem readString_ser (s : RStr) (rest : Bytes) (h : strOk s) :
    readString (serStr s ++ rest) = .ok (logical s, rest) := by
  cases s with
  | raw f bs => exact readString_raw f bs rest h
  | int8 b => exact readString_int8 b rest h
  | int16 b => exact readString_int16 b rest h
  | int32 b => exact readString_int32 b rest h
  | lzf cf uf ts => exact readString_lzf cf uf ts rest h

theorem skipString_ser (s : RStr) (rest : Bytes) (h : strOk s) :
    skipString (serStr s ++ rest) = .ok ((), rest) := by
  simp [skipString, readString_ser s rest h]

end RSVerif.Lemmas.Rdb
