import RSVerif.Model.Handoff
import RSVerif.Spec.Handoff


namespace RSVerif.Lemmas.Handoff
open RSVerif RSVerif.Handoff

theorem chunkLen_le_req (w req avail : Nat) : chunkLen w req avail ≤ req := by
  unfold chunkLen; omega
theorem chunkLen_le_avail (w req avail : Nat) : chunkLen w req avail ≤ avail := by
  unfold chunkLen; omega
theorem chunkLen_pos (w req avail : Nat) (h1 : 0 < req) (h2 : 0 < avail) : 0 < chunkLen w req avail := by
  unfold chunkLen; omega

theorem iocopyReq_some {buf : Nat} {max : Int} {req : Nat} (h : iocopyReq buf max = some req) :
    0 < max ∧ 0 < buf ∧ req = min buf max.toNat := by
  unfold iocopyReq at h
  split at h
  · cases h
  · simp only [Option.some.injEq] at h; omega

theorem iocopyReq_ok {buf : Nat} {max : Int} (hb : 0 < buf) (hm : 0 < max) :
    iocopyReq buf max = some (min buf max.toNat) := by
  unfold iocopyReq
  rw [if_neg]; omega

/-- conservation for the RDB loop: nothing lost, duplicated or reordered; the counter is exact. -/
theorem rdbLoop_conserve (buf : Nat) (closed : Bool) (sched : Sched) (size : Int) (rem : Bytes) :
    let r := rdbLoop buf closed sched size rem
    r.out ++ r.rem = rem ∧ (r.out.length : Int) + r.count = size := by
  induction sched generalizing size rem with
  | nil =>
    simp only [rdbLoop]
    split
    · simp
    · split <;> (try split) <;> simp
  | cons w ws ih =>
    simp only [rdbLoop]
    split
    · simp
    · split
      · simp
      · split
        · split <;> simp
        · rename_i req hreq hne
          have := ih (size - ↑(chunkLen w req rem.length)) (List.drop (chunkLen w req rem.length) rem)
          simp only [] at this ⊢
          obtain ⟨h1, h2⟩ := this
          constructor
          · rw [List.append_assoc, h1, List.take_append_drop]
          · simp only [List.length_append, List.length_take]
            have := chunkLen_le_avail w req rem.length
            omega
/-- the RDB loop never aborts, never asks for more than is left, and ends with the counter at zero,
provided the announced size is covered by the stream. -/
theorem rdbLoop_ok (buf : Nat) (closed : Bool) (hb : 0 < buf) (sched : Sched) (size : Int) (rem : Bytes)
    (h0 : 0 ≤ size) (h1 : size ≤ rem.length) :
    let r := rdbLoop buf closed sched size rem
    (r.st = .done ∨ r.st = .blocked) ∧ (r.st = .done → r.count = 0) ∧ 0 ≤ r.count ∧
    (∀ q ∈ r.reqs, (q.1 : Int) ≤ q.2 ∧ q.1 ≤ buf) := by
  induction sched generalizing size rem with
  | nil =>
    simp only [rdbLoop]
    split
    · simp_all
    · rename_i hs
      rw [iocopyReq_ok hb (by omega)]
      have : rem ≠ [] := by intro h; subst h; simp at h1; omega
      simp [this]; omega
  | cons w ws ih =>
    simp only [rdbLoop]
    split
    · simp_all
    · rename_i hs
      rw [iocopyReq_ok hb (by omega)]
      have hne : rem ≠ [] := by intro h; subst h; simp at h1; omega
      have hlen : 0 < rem.length := List.length_pos_iff.mpr hne
      simp only [List.isEmpty_iff, hne, if_false]
      have hc1 := chunkLen_le_req w (min buf size.toNat) rem.length
      have hc2 := chunkLen_le_avail w (min buf size.toNat) rem.length
      have := ih (size - ↑(chunkLen w (min buf size.toNat) rem.length))
        (List.drop (chunkLen w (min buf size.toNat) rem.length) rem) (by omega) (by simp; omega)
      simp only [] at this ⊢
      obtain ⟨a, b, c, d⟩ := this
      refine ⟨a, b, c, ?_⟩
      intro q hq
      simp only [List.mem_cons] at hq
      rcases hq with rfl | hq
      · simp; omega
      · exact d q hq

/-- with one read event per announced byte the RDB phase completes (every read returns at least one byte). -/
theorem rdbLoop_done (buf : Nat) (closed : Bool) (hb : 0 < buf) (sched : Sched) (size : Int) (rem : Bytes)
    (h0 : 0 ≤ size) (h1 : size ≤ rem.length) (hs : size.toNat ≤ sched.length) :
    let r := rdbLoop buf closed sched size rem
    r.st = .done ∧ sched.length ≤ r.sched.length + size.toNat := by
  induction sched generalizing size rem with
  | nil =>
    simp only [rdbLoop]
    have : size = 0 := by simp at hs; omega
    simp [this]
  | cons w ws ih =>
    simp only [rdbLoop]
    split
    · simp
    · rename_i hs0
      rw [iocopyReq_ok hb (by omega)]
      have hne : rem ≠ [] := by intro h; subst h; simp at h1; omega
      have hlen : 0 < rem.length := List.length_pos_iff.mpr hne
      simp only [List.isEmpty_iff, hne, if_false]
      have hc1 := chunkLen_le_req w (min buf size.toNat) rem.length
      have hc2 := chunkLen_le_avail w (min buf size.toNat) rem.length
      have hc3 := chunkLen_pos w (min buf size.toNat) rem.length (by omega) hlen
      have := ih (size - ↑(chunkLen w (min buf size.toNat) rem.length))
        (List.drop (chunkLen w (min buf size.toNat) rem.length) rem) (by omega) (by simp; omega)
        (by simp at hs ⊢; omega)
      simp only [] at this ⊢
      obtain ⟨a, b⟩ := this
      refine ⟨a, ?_⟩
      simp only [List.length_cons]
      omega

theorem copyLoop_conserve (buf : Nat) (closed : Bool) (sched : Sched) (rem : Bytes) :
    let r := copyLoop buf closed sched rem
    r.out ++ r.rem = rem ∧ r.count = r.out.length ∧ (r.st = .blocked ∨ r.st = .eof) ∧ r.reqs = [] := by
  induction sched generalizing rem with
  | nil => simp [copyLoop]
  | cons w ws ih =>
    simp only [copyLoop]
    split
    · split <;> simp_all
    · have := ih (List.drop (chunkLen w buf rem.length) rem)
      simp only [] at this ⊢
      obtain ⟨a, b, c, d⟩ := this
      refine ⟨?_, ?_, c, d⟩
      · rw [List.append_assoc, a, List.take_append_drop]
      · simp only [List.length_append, List.length_take]
        have := chunkLen_le_avail w buf rem.length
        omega

/-- with more read events than bytes, everything the source sent is copied; EOF is then seen iff it closed. -/
theorem copyLoop_all (buf : Nat) (closed : Bool) (hb : 0 < buf) (sched : Sched) (rem : Bytes)
    (hs : rem.length < sched.length) :
    let r := copyLoop buf closed sched rem
    r.rem = [] ∧ r.out = rem ∧ r.st = (if closed then .eof else .blocked) := by
  induction sched generalizing rem with
  | nil => simp at hs
  | cons w ws ih =>
    simp only [copyLoop]
    split
    · rename_i he
      have : rem = [] := by simpa using he
      subst this
      cases closed <;> simp
    · rename_i he
      have hne : rem ≠ [] := by simpa using he
      have hlen : 0 < rem.length := List.length_pos_iff.mpr hne
      have hc3 := chunkLen_pos w buf rem.length hb hlen
      have := ih (List.drop (chunkLen w buf rem.length) rem) (by simp at hs ⊢; omega)
      simp only [] at this ⊢
      obtain ⟨a, b, c⟩ := this
      refine ⟨a, ?_, c⟩
      rw [b, List.take_append_drop]

theorem dumpLoop_eq (buf : Nat) (closed : Bool) (nsize : Int) (sched : Sched) (nread : Int) (rem : Bytes) :
    dumpLoop buf closed nsize sched nread rem =
      { rdbLoop buf closed sched (nsize - nread) rem with
        count := nsize - (rdbLoop buf closed sched (nsize - nread) rem).count } := by
  induction sched generalizing nread rem with
  | nil =>
    simp only [dumpLoop, rdbLoop]
    by_cases h : nsize = nread
    · have : nsize - nread = 0 := by omega
      simp [h]
    · have h' : ¬ (nsize - nread = 0) := by omega
      simp only [h, h', if_false]
      cases iocopyReq buf (nsize - nread) with
      | none => simp; omega
      | some r => simp only []; split <;> simp <;> omega
  | cons w ws ih =>
    simp only [dumpLoop, rdbLoop]
    by_cases h : nsize = nread
    · have : nsize - nread = 0 := by omega
      simp [h]
    · have h' : ¬ (nsize - nread = 0) := by omega
      simp only [h, h', if_false]
      cases iocopyReq buf (nsize - nread) with
      | none => simp; omega
      | some r =>
        simp only []
        split
        · split <;> simp <;> omega
        · rw [ih]
          have : nsize - (nread + ↑(chunkLen w r rem.length)) = nsize - nread - ↑(chunkLen w r rem.length) := by omega
          simp only [this]

end RSVerif.Lemmas.Handoff
