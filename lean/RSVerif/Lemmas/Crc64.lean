import RSVerif.Model.Crc64
import RSVerif.Spec.Crc64
/-
Helper lemmas for C11: the table driven CRC-64 step equals the bit-by-bit specification,
through xor-linearity of the bit step (BitVec 64). Core Lean only.
-/
namespace RSVerif.Lemmas.Crc64
open RSVerif RSVerif.Spec.Crc64

def polyBV : BitVec 64 := 0x95ac9329ac4bc9b5#64
def bsBV (c : BitVec 64) : BitVec 64 := (c >>> 1) ^^^ (if c[0] then polyBV else 0#64)

theorem and1 (c : UInt64) : (c &&& 1 = 1) ↔ c.toBitVec[0] = true := by
    constructor
    · intro h
      have := congrArg UInt64.toBitVec h
      simp at this
      have h2 := congrArg (fun v => BitVec.getLsbD v 0) this
      simpa using h2
    · intro h
      apply UInt64.eq_of_toBitVec_eq
      simp
      ext i hi
      simp
      intro h0; subst h0
      exact h

theorem bitStep_toBV (c : UInt64) : (bitStep c).toBitVec = bsBV c.toBitVec := by
  unfold bitStep bsBV
  by_cases h : c &&& 1 = 1
  · have h' := (and1 c).1 h
    simp [h, h', poly, polyBV]
  · have h' : c.toBitVec[0] = false := by
      cases hh : c.toBitVec[0]
      · rfl
      · exact absurd ((and1 c).2 hh) h
    simp [h, h']

theorem xor_cancel_left (p x : BitVec 64) : p ^^^ (p ^^^ x) = x := by
  rw [← BitVec.xor_assoc]; simp

theorem bsBV_xor (a b : BitVec 64) : bsBV (a ^^^ b) = bsBV a ^^^ bsBV b := by
  unfold bsBV
  rw [BitVec.getElem_xor]
  cases a[0] <;> cases b[0] <;> simp [BitVec.ushiftRight_xor_distrib]
  · ac_rfl
  · ac_rfl
  · have : a >>> 1 ^^^ polyBV ^^^ (b >>> 1 ^^^ polyBV) = polyBV ^^^ (polyBV ^^^ (a >>> 1 ^^^ b >>> 1)) := by ac_rfl
    rw [this, xor_cancel_left]

theorem bsBV_low0 (x : BitVec 64) (h : x[0] = false) : bsBV x = x >>> 1 := by
  simp [bsBV, h]

def bs8BV (c : BitVec 64) : BitVec 64 := bsBV (bsBV (bsBV (bsBV (bsBV (bsBV (bsBV (bsBV c)))))))

theorem bs8BV_xor (a b : BitVec 64) : bs8BV (a ^^^ b) = bs8BV a ^^^ bs8BV b := by
  simp [bs8BV, bsBV_xor]

theorem bitStep8_toBV (c : UInt64) : (bitStep8 c).toBitVec = bs8BV c.toBitVec := by
  simp [bitStep8, bs8BV, bitStep_toBV]


def iter (f : α → α) : Nat → α → α
  | 0, a => a
  | n+1, a => iter f n (f a)

theorem bsBV_iter_shift : ∀ (n : Nat) (y : BitVec 64), (∀ i, i < n → y.getLsbD i = false) →
    iter bsBV n y = y >>> n := by
  intro n
  induction n with
  | zero => intro y _; simp [iter]
  | succ n ih =>
    intro y h
    have h0 : y[0] = false := by simpa using h 0 (by omega)
    rw [iter, bsBV_low0 y h0, ih]
    · rw [← BitVec.shiftRight_add, Nat.add_comm]
    · intro i hi
      rw [BitVec.getLsbD_ushiftRight]
      exact h (1 + i) (by omega)

theorem mask_low : ∀ k : Fin 8, (0xFFFFFFFFFFFFFF00#64).getLsbD k.val = false := by decide
theorem mask_high : ∀ k : Fin 56, (0xFFFFFFFFFFFFFF00#64).getLsbD (8 + k.val) = true := by decide

theorem bs8BV_high (x : BitVec 64) : bs8BV (x &&& 0xFFFFFFFFFFFFFF00#64) = x >>> 8 := by
  have : bs8BV (x &&& 0xFFFFFFFFFFFFFF00#64) = iter bsBV 8 (x &&& 0xFFFFFFFFFFFFFF00#64) := rfl
  rw [this, bsBV_iter_shift]
  · ext i hi
    simp only [BitVec.getElem_ushiftRight, BitVec.getLsbD_and]
    by_cases h56 : i < 56
    · have := mask_high ⟨i, h56⟩
      simp at this
      simp [this]
    · simp [BitVec.getLsbD_of_ge x (8 + i) (by omega)]
  · intro i hi
    have := mask_low ⟨i, hi⟩
    simp at this
    simp [this]

theorem split_low_high (x : BitVec 64) : x = (x &&& 0xFF#64) ^^^ (x &&& 0xFFFFFFFFFFFFFF00#64) := by
  ext i hi
  simp only [BitVec.getElem_xor, BitVec.getElem_and]
  by_cases h8 : i < 8
  · have h1 := mask_low ⟨i, h8⟩
    have h2 : ∀ k : Fin 8, (0xFF#64).getLsbD k.val = true := by decide
    have h2 := h2 ⟨i, h8⟩
    simp [BitVec.getLsbD] at h1 h2
    simp [BitVec.getElem_eq_testBit_toNat, h1, h2]
  · have h1 := mask_high ⟨i - 8, by omega⟩
    have h2 : ∀ k : Fin 56, (0xFF#64).getLsbD (8 + k.val) = false := by decide
    have h2 := h2 ⟨i - 8, by omega⟩
    have e : 8 + (i - 8) = i := by omega
    simp [BitVec.getLsbD, e] at h1 h2
    simp [BitVec.getElem_eq_testBit_toNat, h1, h2]

theorem byteStep_eq (tbl : Array UInt64)
    (htbl : ∀ i : Fin 256, tbl[i.val]! = bitStep8 (UInt64.ofNat i.val))
    (crc : UInt64) (b : UInt8) : Crc64.stepT tbl crc b = byteStep crc b := by
  unfold Crc64.stepT byteStep
  have hi := htbl ⟨(crc.toUInt8 ^^^ b).toNat, (crc.toUInt8 ^^^ b).toNat_lt⟩
  simp only at hi
  rw [hi]
  apply UInt64.eq_of_toBitVec_eq
  simp only [UInt64.toBitVec_xor, bitStep8_toBV]
  rw [split_low_high (crc.toBitVec ^^^ b.toUInt64.toBitVec), bs8BV_xor, bs8BV_high]
  have hA : (UInt64.ofNat (crc.toUInt8 ^^^ b).toNat).toBitVec
      = (crc.toBitVec ^^^ b.toUInt64.toBitVec) &&& 255#64 := by
    have e1 : UInt64.ofNat (crc.toUInt8 ^^^ b).toNat = (crc.toUInt8 ^^^ b).toUInt64 := by
      exact UInt64.ofNat_uInt8ToNat _
    rw [e1]
    have hmod : ∀ i, (crc.toNat % 256).testBit i = (decide (i < 8) && crc.toNat.testBit i) :=
      fun i => Nat.testBit_mod_two_pow crc.toNat 8 i
    have h255 : ∀ i, Nat.testBit 255 i = decide (i < 8) := fun i => Nat.testBit_two_pow_sub_one 8 i
    have hb : ∀ i, 8 ≤ i → b.toNat.testBit i = false := by
      intro i hi
      apply Nat.testBit_lt_two_pow
      calc b.toNat < 256 := b.toNat_lt
        _ = 2 ^ 8 := rfl
        _ ≤ 2 ^ i := Nat.pow_le_pow_right (by omega) hi
    ext i hi
    simp [BitVec.getElem_eq_testBit_toNat, hmod, h255]
    by_cases h8 : i < 8
    · simp [h8]
    · simp [h8, hb i (by omega)]
  have hB : (crc >>> 8).toBitVec = (crc.toBitVec ^^^ b.toUInt64.toBitVec) >>> 8 := by
    rw [BitVec.ushiftRight_xor_distrib]
    have : b.toUInt64.toBitVec >>> 8 = 0#64 := by
      ext i hi
      simp [BitVec.getElem_eq_testBit_toNat]
      apply Nat.testBit_lt_two_pow
      calc b.toNat < 256 := b.toNat_lt
        _ = 2 ^ 8 := rfl
        _ ≤ 2 ^ (8 + i) := Nat.pow_le_pow_right (by omega) (by omega)
    rw [this]
    simp
  rw [hA, hB]

theorem poly63 : polyBV[63] = true := by decide

theorem bsBV_inj (a b : BitVec 64) (h : bsBV a = bsBV b) : a = b := by
  have top : ∀ x : BitVec 64, (bsBV x)[63] = x[0] := by
    intro x
    unfold bsBV
    rw [BitVec.getElem_xor, BitVec.getElem_ushiftRight]
    have : x.getLsbD (1 + 63) = false := BitVec.getLsbD_of_ge x 64 (by omega)
    rw [this]
    cases x[0] <;> simp [poly63]
  have h0 : a[0] = b[0] := by rw [← top a, ← top b, h]
  have hs : a >>> 1 = b >>> 1 := by
    unfold bsBV at h
    rw [h0] at h
    have := congrArg (· ^^^ (if b[0] then polyBV else 0#64)) h
    simpa [BitVec.xor_assoc] using this
  ext i hi
  cases i with
  | zero => exact h0
  | succ j =>
    have := congrArg (fun v => v.getLsbD j) hs
    simp only [BitVec.getLsbD_ushiftRight] at this
    have e : 1 + j = j + 1 := by omega
    rw [e] at this
    simpa [BitVec.getLsbD, BitVec.getElem_eq_testBit_toNat] using this

theorem bitStep_inj (a b : UInt64) (h : bitStep a = bitStep b) : a = b := by
  apply UInt64.eq_of_toBitVec_eq
  apply bsBV_inj
  rw [← bitStep_toBV, ← bitStep_toBV, h]

theorem bitStep8_inj (a b : UInt64) (h : bitStep8 a = bitStep8 b) : a = b := by
  unfold bitStep8 at h
  repeat (first | exact h | (have h := bitStep_inj _ _ h))

theorem byteStep_inj_state (b : UInt8) (c1 c2 : UInt64) (h : byteStep c1 b = byteStep c2 b) : c1 = c2 := by
  have := bitStep8_inj _ _ h
  have := congrArg (· ^^^ b.toUInt64) this
  simpa [UInt64.xor_assoc] using this

theorem byteStep_inj_byte (c : UInt64) (b1 b2 : UInt8) (h : byteStep c b1 = byteStep c b2) : b1 = b2 := by
  have h1 := bitStep8_inj _ _ h
  have h2 : b1.toUInt64 = b2.toUInt64 := by
    have := congrArg (c ^^^ ·) h1
    simpa [← UInt64.xor_assoc] using this
  have := congrArg UInt64.toUInt8 h2
  simpa using this

end RSVerif.Lemmas.Crc64
