import RSVerif.Lemmas.ParallelRestoreKeys
namespace RSVerif.Lemmas.ParallelRestore
open RSVerif RSVerif.Spec.MiniRedisC07 RSVerif.Model.ParallelRestore

/-- effect of a successfully executed command on the elements of *its own* key -/
def applyVal (v : Option (List Bytes)) (c : DataCmd) : Option (List Bytes) :=
  match c.name with
  | .del => none
  | .restore | .set => some [c.arg]
  | .hset | .sadd | .zadd => some (insertSorted c.arg (v.getD []))
  | .rpush => some (v.getD [] ++ [c.arg])
  | _ => v

theorem get_erase_same (ks : Keyspace) (d : Nat) (k : Bytes) : (ks.erase d k).get d k = none := by
  induction ks with
  | nil => rfl
  | cons a r ih =>
    unfold Keyspace.erase at ih ⊢
    by_cases h1 : a.1 = (d, k)
    · simp only [List.filter_cons, h1, decide_true, Bool.not_true, Bool.false_eq_true, if_false, ih]
    · simp only [List.filter_cons, h1, decide_false, Bool.not_false, if_true, Keyspace.get, if_false, ih]

theorem get_erase_other (ks : Keyspace) (d' : Nat) (k' : Bytes) (d : Nat) (k : Bytes) (h : (d', k') ≠ (d, k)) :
    (ks.erase d' k').get d k = ks.get d k := by
  induction ks with
  | nil => rfl
  | cons a r ih =>
    unfold Keyspace.erase at ih ⊢
    by_cases h1 : a.1 = (d', k')
    · have h3 : a.1 ≠ (d, k) := fun h' => h (h1.symm.trans h')
      simp only [List.filter_cons, h1, decide_true, Bool.not_true, Bool.false_eq_true, if_false, ih, Keyspace.get]
      rw [← h1, if_neg h3]
    · simp only [List.filter_cons, h1, decide_false, Bool.not_false, if_true, Keyspace.get, ih]

theorem get_erase (ks : Keyspace) (d' : Nat) (k' : Bytes) (d : Nat) (k : Bytes) :
    (ks.erase d' k').get d k = if (d', k') = (d, k) then none else ks.get d k := by
  by_cases h2 : (d', k') = (d, k)
  · obtain ⟨rfl, rfl⟩ := Prod.mk.inj h2
    simp [get_erase_same]
  · simp [h2, get_erase_other ks d' k' d k h2]

theorem get_put (ks : Keyspace) (d' : Nat) (k' : Bytes) (v : List Bytes) (d : Nat) (k : Bytes) :
    (ks.put d' k' v).get d k = if (d', k') = (d, k) then some v else ks.get d k := by
  unfold Keyspace.put
  by_cases h2 : (d', k') = (d, k)
  · simp [Keyspace.get, h2]
  · simp [Keyspace.get, h2, get_erase]

theorem get_applyExec_other (ks : Keyspace) (x : Exec) (d : Nat) (k : Bytes) (h : (x.db, x.cmd.key) ≠ (d, k)) :
    (applyExec ks x).get d k = ks.get d k := by
  unfold applyExec
  split
  · rfl
  · cases hn : x.cmd.name <;> simp only [get_erase, get_put, h, if_false]

theorem get_applyExec_same (ks : Keyspace) (x : Exec) (hok : x.ok = true) :
    (applyExec ks x).get x.db x.cmd.key = applyVal (ks.get x.db x.cmd.key) x.cmd := by
  unfold applyExec applyVal
  simp only [hok, Bool.not_true, Bool.false_eq_true, if_false]
  cases hn : x.cmd.name <;> simp only [get_erase, get_put, if_true]

/-- the elements of one key depend only on the (ordered) commands on that key -/
theorem get_foldl_applyExec (log : List Exec) (hok : ∀ x ∈ log, x.ok = true) (ks : Keyspace) (d : Nat) (k : Bytes) :
    (log.foldl applyExec ks).get d k =
      (((log.map fun x => (x.db, x.cmd)).filter (onKey (d, k))).map (·.2)).foldl applyVal (ks.get d k) := by
  induction log generalizing ks with
  | nil => rfl
  | cons x r ih =>
    have hr : ∀ y ∈ r, y.ok = true := fun y hy => hok y (by simp [hy])
    simp only [List.foldl_cons, List.map_cons, List.filter_cons]
    rw [ih hr]
    by_cases hx : x.db = d ∧ x.cmd.key = k
    · obtain ⟨rfl, rfl⟩ := hx
      simp [onKey, get_applyExec_same ks x (hok x (by simp))]
    · have : (x.db, x.cmd.key) ≠ (d, k) := fun h => hx ⟨(Prod.mk.inj h).1, (Prod.mk.inj h).2⟩
      simp [onKey, hx, get_applyExec_other ks x d k this]

theorem valueAfter_eq (log : List Exec) (hok : ∀ x ∈ log, x.ok = true) (d : Nat) (k : Bytes) :
    valueAfter log d k =
      (((log.map fun x => (x.db, x.cmd)).filter (onKey (d, k))).map (·.2)).foldl applyVal none := by
  unfold valueAfter keyspaceOf
  rw [get_foldl_applyExec log hok]
  rfl

end RSVerif.Lemmas.ParallelRestore
