import RSVerif.Model.LogFlow
/-
C19 helper lemmas (hand-proved, no generated data):
 * `closed_sound`    a candidate pair (T, TT) that passes `Graph.closed` contains the least taint relation
 * `HasType.clean`   a value whose static type does not reach a tainted row (w.r.t. a closed candidate) has no
                      tainted field anywhere inside, provided interface-typed positions hold clean values
 * `mask_eq_of_lowEq` masking the fields `M` makes two low-equivalent values EQUAL whenever every secret
                      field occurring in them is in `M`; with `M = []` this is "a clean value does not depend
                      on the secrets at all"
-/
namespace RSVerif.LogFlow

theorem closed_sound (G : Graph) (T TT : Nat) (h : G.closed T TT = true) :
    ∀ f, Derivable G f → f.holds T TT := by
  simp only [Graph.closed, Bool.and_eq_true, List.all_eq_true] at h
  obtain ⟨⟨⟨hs, he⟩, hte⟩, htd⟩ := h
  intro f d
  induction d with
  | source hm => exact hs _ hm
  | edge hm _ ih =>
    have := he _ hm
    simp only [edgeClosed, Bool.or_eq_true, Bool.not_eq_true'] at this
    simp only [Fact.holds] at ih ⊢
    rcases this with h1 | h1
    · rw [ih] at h1; cases h1
    · exact h1
  | handOver hm _ ih =>
    have := hte _ hm
    simp only [typeEdgeClosed, Bool.or_eq_true, Bool.not_eq_true'] at this
    simp only [Fact.holds] at ih ⊢
    rcases this with h1 | h1
    · rw [ih] at h1; cases h1
    · exact h1
  | fieldLoc hd hf _ ih =>
    have := htd _ hd
    simp only [typeDefClosed, Bool.or_eq_true, Bool.not_eq_true', Bool.or_eq_false_iff] at this
    simp only [Fact.holds] at ih ⊢
    rcases this with ⟨h1, _⟩ | h1
    · have : (List.any _ (fieldHit T TT)) = true := List.any_eq_true.mpr ⟨_, hf, by simp [fieldHit, ih]⟩
      rw [this] at h1; cases h1
    · exact h1
  | fieldTy hd hf _ ih =>
    have := htd _ hd
    simp only [typeDefClosed, Bool.or_eq_true, Bool.not_eq_true', Bool.or_eq_false_iff] at this
    simp only [Fact.holds] at ih ⊢
    rcases this with ⟨h1, _⟩ | h1
    · have : (List.any _ (fieldHit T TT)) = true := List.any_eq_true.mpr ⟨_, hf, by simp [fieldHit, ih]⟩
      rw [this] at h1; cases h1
    · exact h1
  | under hd hu _ ih =>
    have := htd _ hd
    simp only [typeDefClosed, Bool.or_eq_true, Bool.not_eq_true', Bool.or_eq_false_iff] at this
    simp only [Fact.holds] at ih ⊢
    rcases this with ⟨_, h1⟩ | h1
    · rw [hu] at h1; simp only [underHit] at h1; rw [ih] at h1; cases h1
    · exact h1
  | named _ ih => simpa [Fact.holds, GoType.reaches] using ih
  | ptr _ ih => simpa [Fact.holds, GoType.reaches] using ih
  | slice _ ih => simpa [Fact.holds, GoType.reaches] using ih
  | array _ ih => simpa [Fact.holds, GoType.reaches] using ih
  | chan _ ih => simpa [Fact.holds, GoType.reaches] using ih
  | mapKey _ ih => simp only [Fact.holds, GoType.reaches] at ih ⊢; simp [ih]
  | mapVal _ ih => simp only [Fact.holds, GoType.reaches] at ih ⊢; simp [ih]

theorem not_possiblySecret_of_clean (G : Graph) (T TT : Nat) (h : G.closed T TT = true) (a : Arg)
    (hc : argClean T TT a = true) : ¬ a.possiblySecret G := by
  simp only [argClean, Bool.and_eq_true, Bool.not_eq_true', List.all_eq_true] at hc
  rintro (hd | ⟨l, hl, hd⟩)
  · have := closed_sound G T TT h _ hd
    simp only [Fact.holds] at this
    rw [this] at hc; exact absurd hc.1 (by simp)
  · have := closed_sound G T TT h _ hd
    simp only [Fact.holds] at this
    have h2 := hc.2 l hl
    rw [this] at h2; cases h2

mutual
  theorem GoVal.mask_eq_of_lowEq (S M : List Nat) :
      ∀ (v w : GoVal), GoVal.lowEq S v w → v.covered S M = true → v.mask M = w.mask M
    | .str a, .str b, h, _ => by simp only [GoVal.lowEq] at h; simp [GoVal.mask, h]
    | .num a, .num b, h, _ => by simp only [GoVal.lowEq] at h; simp [GoVal.mask, h]
    | .bool a, .bool b, h, _ => by simp only [GoVal.lowEq] at h; simp [GoVal.mask, h]
    | .nil, .nil, _, _ => rfl
    | .ptr a, .ptr b, h, c => by
        simp only [GoVal.lowEq] at h; simp only [GoVal.covered] at c
        simp only [GoVal.mask]; rw [GoVal.mask_eq_of_lowEq S M a b h c]
    | .list a, .list b, h, c => by
        simp only [GoVal.lowEq] at h; simp only [GoVal.covered] at c
        simp only [GoVal.mask]; rw [GoVals.mask_eq_of_lowEq S M a b h c]
    | .map a, .map b, h, c => by
        simp only [GoVal.lowEq] at h; simp only [GoVal.covered] at c
        simp only [GoVal.mask]; rw [GoVals.mask_eq_of_lowEq S M a b h c]
    | .struct a, .struct b, h, c => by
        simp only [GoVal.lowEq] at h; simp only [GoVal.covered] at c
        simp only [GoVal.mask]; rw [GoFields.mask_eq_of_lowEq S M a b h c]
    | .str _, .num _, h, _ | .str _, .bool _, h, _ | .str _, .nil, h, _ | .str _, .ptr _, h, _
    | .str _, .list _, h, _ | .str _, .map _, h, _ | .str _, .struct _, h, _ => by simp [GoVal.lowEq] at h
    | .num _, .str _, h, _ | .num _, .bool _, h, _ | .num _, .nil, h, _ | .num _, .ptr _, h, _
    | .num _, .list _, h, _ | .num _, .map _, h, _ | .num _, .struct _, h, _ => by simp [GoVal.lowEq] at h
    | .bool _, .str _, h, _ | .bool _, .num _, h, _ | .bool _, .nil, h, _ | .bool _, .ptr _, h, _
    | .bool _, .list _, h, _ | .bool _, .map _, h, _ | .bool _, .struct _, h, _ => by simp [GoVal.lowEq] at h
    | .nil, .str _, h, _ | .nil, .num _, h, _ | .nil, .bool _, h, _ | .nil, .ptr _, h, _
    | .nil, .list _, h, _ | .nil, .map _, h, _ | .nil, .struct _, h, _ => by simp [GoVal.lowEq] at h
    | .ptr _, .str _, h, _ | .ptr _, .num _, h, _ | .ptr _, .bool _, h, _ | .ptr _, .nil, h, _
    | .ptr _, .list _, h, _ | .ptr _, .map _, h, _ | .ptr _, .struct _, h, _ => by simp [GoVal.lowEq] at h
    | .list _, .str _, h, _ | .list _, .num _, h, _ | .list _, .bool _, h, _ | .list _, .nil, h, _
    | .list _, .ptr _, h, _ | .list _, .map _, h, _ | .list _, .struct _, h, _ => by simp [GoVal.lowEq] at h
    | .map _, .str _, h, _ | .map _, .num _, h, _ | .map _, .bool _, h, _ | .map _, .nil, h, _
    | .map _, .ptr _, h, _ | .map _, .list _, h, _ | .map _, .struct _, h, _ => by simp [GoVal.lowEq] at h
    | .struct _, .str _, h, _ | .struct _, .num _, h, _ | .struct _, .bool _, h, _ | .struct _, .nil, h, _
    | .struct _, .ptr _, h, _ | .struct _, .list _, h, _ | .struct _, .map _, h, _ => by simp [GoVal.lowEq] at h
  theorem GoVals.mask_eq_of_lowEq (S M : List Nat) :
      ∀ (v w : GoVals), GoVals.lowEq S v w → v.covered S M = true → v.mask M = w.mask M
    | .nil, .nil, _, _ => rfl
    | .cons a as, .cons b bs, h, c => by
        simp only [GoVals.lowEq] at h; simp only [GoVals.covered, Bool.and_eq_true] at c
        simp only [GoVals.mask]
        rw [GoVal.mask_eq_of_lowEq S M a b h.1 c.1, GoVals.mask_eq_of_lowEq S M as bs h.2 c.2]
    | .nil, .cons _ _, h, _ => by simp [GoVals.lowEq] at h
    | .cons _ _, .nil, h, _ => by simp [GoVals.lowEq] at h
  theorem GoFields.mask_eq_of_lowEq (S M : List Nat) :
      ∀ (v w : GoFields), GoFields.lowEq S v w → v.covered S M = true → v.mask M = w.mask M
    | .nil, .nil, _, _ => rfl
    | .cons l n a as, .cons l' n' b bs, h, c => by
        simp only [GoFields.lowEq] at h
        simp only [GoFields.covered, Bool.and_eq_true, Bool.or_eq_true, Bool.not_eq_true'] at c
        obtain ⟨hl, hn, hv, hr⟩ := h
        obtain ⟨⟨hc, ca⟩, cas⟩ := c
        subst hl; subst hn
        simp only [GoFields.mask]
        rw [GoFields.mask_eq_of_lowEq S M as bs hr cas]
        by_cases hm : M.contains l = true
        · have hm' : l ∈ M := by simpa using hm
          simp [hm']
        · have hm' : ¬ l ∈ M := by simpa using hm
          have hs : S.contains l = false := by
            rcases hc with h1 | h1
            · exact h1
            · exact absurd h1 hm
          have hab : GoVal.lowEq S a b := by
            rcases hv with h1 | h1
            · rw [hs] at h1; cases h1
            · exact h1
          rw [GoVal.mask_eq_of_lowEq S M a b hab ca]
    | .nil, .cons _ _ _ _, h, _ => by simp [GoFields.lowEq] at h
    | .cons _ _ _ _, .nil, h, _ => by simp [GoFields.lowEq] at h
end

mutual
  theorem GoVal.mask_nil : ∀ v : GoVal, v.mask [] = v
    | .str _ | .num _ | .bool _ | .nil => rfl
    | .ptr v => by simp only [GoVal.mask]; rw [GoVal.mask_nil v]
    | .list vs => by simp only [GoVal.mask]; rw [GoVals.mask_nil vs]
    | .map vs => by simp only [GoVal.mask]; rw [GoVals.mask_nil vs]
    | .struct fs => by simp only [GoVal.mask]; rw [GoFields.mask_nil fs]
  theorem GoVals.mask_nil : ∀ v : GoVals, v.mask [] = v
    | .nil => rfl
    | .cons v vs => by simp only [GoVals.mask]; rw [GoVal.mask_nil v, GoVals.mask_nil vs]
  theorem GoFields.mask_nil : ∀ v : GoFields, v.mask [] = v
    | .nil => rfl
    | .cons l n v fs => by
        simp only [GoFields.mask]; rw [GoVal.mask_nil v, GoFields.mask_nil fs]; simp
end

mutual
  theorem GoVal.covered_of_clean (S : List Nat) : ∀ v : GoVal, v.clean S = true → v.covered S [] = true
    | .str _, _ | .num _, _ | .bool _, _ | .nil, _ => rfl
    | .ptr v, h => by simp only [GoVal.clean] at h; simp only [GoVal.covered]; exact GoVal.covered_of_clean S v h
    | .list v, h => by simp only [GoVal.clean] at h; simp only [GoVal.covered]; exact GoVals.covered_of_clean S v h
    | .map v, h => by simp only [GoVal.clean] at h; simp only [GoVal.covered]; exact GoVals.covered_of_clean S v h
    | .struct v, h => by simp only [GoVal.clean] at h; simp only [GoVal.covered]; exact GoFields.covered_of_clean S v h
  theorem GoVals.covered_of_clean (S : List Nat) : ∀ v : GoVals, v.clean S = true → v.covered S [] = true
    | .nil, _ => rfl
    | .cons v vs, h => by
        simp only [GoVals.clean, Bool.and_eq_true] at h
        simp only [GoVals.covered, Bool.and_eq_true]
        exact ⟨GoVal.covered_of_clean S v h.1, GoVals.covered_of_clean S vs h.2⟩
  theorem GoFields.covered_of_clean (S : List Nat) : ∀ v : GoFields, v.clean S = true → v.covered S [] = true
    | .nil, _ => rfl
    | .cons l n v fs, h => by
        simp only [GoFields.clean, Bool.and_eq_true, Bool.not_eq_true'] at h
        simp only [GoFields.covered, Bool.and_eq_true, Bool.or_eq_true, Bool.not_eq_true']
        exact ⟨⟨Or.inl h.1.1, GoVal.covered_of_clean S v h.1.2⟩, GoFields.covered_of_clean S fs h.2⟩
end

/-! ### static type ⇒ clean value -/

theorem row_clean (T TT : Nat) (d : TypeDef) (hd : typeDefClosed T TT d = true) (hn : TT.testBit d.id = false) :
    (∀ f ∈ d.fields, T.testBit f.loc = false ∧ f.ty.reaches TT = false) ∧ underHit TT d.under = false := by
  simp only [typeDefClosed, Bool.or_eq_true, Bool.not_eq_true', Bool.or_eq_false_iff] at hd
  rcases hd with ⟨h1, h2⟩ | h1
  · refine ⟨?_, h2⟩
    intro f hf
    have := List.any_eq_false.mp h1 f hf
    simp only [fieldHit, Bool.or_eq_true, not_or, Bool.not_eq_true] at this
    exact this
  · rw [hn] at h1; cases h1

mutual
  theorem HasType.clean {defs : List TypeDef} {S : List Nat} {T TT : Nat}
      (hS : ∀ l, T.testBit l = false → S.contains l = false)
      (hdefs : ∀ d ∈ defs, typeDefClosed T TT d = true) :
      ∀ {t : GoType} {v : GoVal}, HasType defs S t v → t.reaches TT = false → v.clean S = true
    | _, _, .str, _ => rfl
    | _, _, .num, _ => rfl
    | _, _, .bool, _ => rfl
    | _, _, .nil, _ => rfl
    | _, _, .ptr h, hr => by
        simp only [GoType.reaches] at hr; simp only [GoVal.clean]; exact HasType.clean hS hdefs h hr
    | _, _, .slice h, hr => by
        simp only [GoType.reaches] at hr; simp only [GoVal.clean]; exact AllType.clean hS hdefs h hr
    | _, _, .array h, hr => by
        simp only [GoType.reaches] at hr; simp only [GoVal.clean]; exact AllType.clean hS hdefs h hr
    | _, _, .map h, hr => by
        simp only [GoType.reaches, Bool.or_eq_false_iff] at hr; simp only [GoVal.clean]
        exact MapType.clean hS hdefs h hr.1 hr.2
    | _, _, .struct (d := d) hd h, hr => by
        simp only [GoType.reaches] at hr; simp only [GoVal.clean]
        exact FieldsType.clean hS hdefs h (row_clean T TT d (hdefs d hd) hr).1
    | _, _, .namedUnder (d := d) (u := u) hd hu h, hr => by
        simp only [GoType.reaches] at hr
        have := (row_clean T TT d (hdefs d hd) hr).2
        rw [hu] at this; simp only [underHit] at this
        exact HasType.clean hS hdefs h this
    | _, _, .iface h, _ => h
  theorem AllType.clean {defs : List TypeDef} {S : List Nat} {T TT : Nat}
      (hS : ∀ l, T.testBit l = false → S.contains l = false)
      (hdefs : ∀ d ∈ defs, typeDefClosed T TT d = true) :
      ∀ {t : GoType} {vs : GoVals}, AllType defs S t vs → t.reaches TT = false → vs.clean S = true
    | _, _, .nil, _ => rfl
    | _, _, .cons h hs, hr => by
        simp only [GoVals.clean, Bool.and_eq_true]
        exact ⟨HasType.clean hS hdefs h hr, AllType.clean hS hdefs hs hr⟩
  theorem MapType.clean {defs : List TypeDef} {S : List Nat} {T TT : Nat}
      (hS : ∀ l, T.testBit l = false → S.contains l = false)
      (hdefs : ∀ d ∈ defs, typeDefClosed T TT d = true) :
      ∀ {k v : GoType} {vs : GoVals}, MapType defs S k v vs → k.reaches TT = false → v.reaches TT = false →
        vs.clean S = true
    | _, _, _, .nil, _, _ => rfl
    | _, _, _, .cons ha hb hs, hk, hv => by
        simp only [GoVals.clean, Bool.and_eq_true]
        exact ⟨HasType.clean hS hdefs ha hk, HasType.clean hS hdefs hb hv, MapType.clean hS hdefs hs hk hv⟩
  theorem FieldsType.clean {defs : List TypeDef} {S : List Nat} {T TT : Nat}
      (hS : ∀ l, T.testBit l = false → S.contains l = false)
      (hdefs : ∀ d ∈ defs, typeDefClosed T TT d = true) :
      ∀ {fl : List Field} {fs : GoFields}, FieldsType defs S fl fs →
        (∀ f ∈ fl, T.testBit f.loc = false ∧ f.ty.reaches TT = false) → fs.clean S = true
    | _, _, .nil, _ => rfl
    | _, _, .cons (f := f) (fs := fl) h hs, hall => by
        simp only [GoFields.clean, Bool.and_eq_true, Bool.not_eq_true']
        have hf := hall f (List.mem_cons_self ..)
        exact ⟨⟨hS _ hf.1, HasType.clean hS hdefs h hf.2⟩,
          FieldsType.clean hS hdefs hs (fun g hg => hall g (List.mem_cons_of_mem _ hg))⟩
end

end RSVerif.LogFlow
