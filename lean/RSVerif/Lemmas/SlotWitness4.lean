import RSVerif.Lemmas.SlotWitnessCheck
import RSVerif.Generated.C15Witness4
/-
Kernel check of the regenerated witness candidates for slots 8192..10239 (8 chunks of 256 rows;
one `decide +kernel` per chunk — the quantifier is a finite generated table). One of 8 such modules,
so that lake checks them in parallel; rebuilt only when a CRC16-relevant fact of the source changes.
-/
namespace RSVerif.Lemmas.Slot
open RSVerif

theorem witness_chunk_32 : chunkOK 8192 Generated.C15.slotWitness32 = true := by decide +kernel
theorem witness_chunk_33 : chunkOK 8448 Generated.C15.slotWitness33 = true := by decide +kernel
theorem witness_chunk_34 : chunkOK 8704 Generated.C15.slotWitness34 = true := by decide +kernel
theorem witness_chunk_35 : chunkOK 8960 Generated.C15.slotWitness35 = true := by decide +kernel
theorem witness_chunk_36 : chunkOK 9216 Generated.C15.slotWitness36 = true := by decide +kernel
theorem witness_chunk_37 : chunkOK 9472 Generated.C15.slotWitness37 = true := by decide +kernel
theorem witness_chunk_38 : chunkOK 9728 Generated.C15.slotWitness38 = true := by decide +kernel
theorem witness_chunk_39 : chunkOK 9984 Generated.C15.slotWitness39 = true := by decide +kernel

theorem witness_module_4 : ∀ s, 8192 ≤ s → s < 10240 → ∃ x, rowOK x s = true := by
  intro s h1 h2
  rcases Nat.lt_or_ge s 8448 with h | h1
  · exact chunk_covers 8192 _ witness_chunk_32 s h1 (by omega)
  rcases Nat.lt_or_ge s 8704 with h | h1
  · exact chunk_covers 8448 _ witness_chunk_33 s h1 (by omega)
  rcases Nat.lt_or_ge s 8960 with h | h1
  · exact chunk_covers 8704 _ witness_chunk_34 s h1 (by omega)
  rcases Nat.lt_or_ge s 9216 with h | h1
  · exact chunk_covers 8960 _ witness_chunk_35 s h1 (by omega)
  rcases Nat.lt_or_ge s 9472 with h | h1
  · exact chunk_covers 9216 _ witness_chunk_36 s h1 (by omega)
  rcases Nat.lt_or_ge s 9728 with h | h1
  · exact chunk_covers 9472 _ witness_chunk_37 s h1 (by omega)
  rcases Nat.lt_or_ge s 9984 with h | h1
  · exact chunk_covers 9728 _ witness_chunk_38 s h1 (by omega)
  exact chunk_covers 9984 _ witness_chunk_39 s h1 (by omega)

end RSVerif.Lemmas.Slot
