import RSVerif.Lemmas.SlotWitnessCheck
import RSVerif.Generated.C15Witness0
/-
Kernel check of the regenerated witness candidates for slots 0..2047 (8 chunks of 256 rows;
one `decide +kernel` per chunk — the quantifier is a finite generated table). One of 8 such modules,
so that lake checks them in parallel; rebuilt only when a CRC16-relevant fact of the source changes.
-/
namespace RSVerif.Lemmas.Slot
open RSVerif

theorem witness_chunk_0 : chunkOK 0 Generated.C15.slotWitness0 = true := by decide +kernel
theorem witness_chunk_1 : chunkOK 256 Generated.C15.slotWitness1 = true := by decide +kernel
theorem witness_chunk_2 : chunkOK 512 Generated.C15.slotWitness2 = true := by decide +kernel
theorem witness_chunk_3 : chunkOK 768 Generated.C15.slotWitness3 = true := by decide +kernel
theorem witness_chunk_4 : chunkOK 1024 Generated.C15.slotWitness4 = true := by decide +kernel
theorem witness_chunk_5 : chunkOK 1280 Generated.C15.slotWitness5 = true := by decide +kernel
theorem witness_chunk_6 : chunkOK 1536 Generated.C15.slotWitness6 = true := by decide +kernel
theorem witness_chunk_7 : chunkOK 1792 Generated.C15.slotWitness7 = true := by decide +kernel

theorem witness_module_0 : ∀ s, 0 ≤ s → s < 2048 → ∃ x, rowOK x s = true := by
  intro s h1 h2
  rcases Nat.lt_or_ge s 256 with h | h1
  · exact chunk_covers 0 _ witness_chunk_0 s h1 (by omega)
  rcases Nat.lt_or_ge s 512 with h | h1
  · exact chunk_covers 256 _ witness_chunk_1 s h1 (by omega)
  rcases Nat.lt_or_ge s 768 with h | h1
  · exact chunk_covers 512 _ witness_chunk_2 s h1 (by omega)
  rcases Nat.lt_or_ge s 1024 with h | h1
  · exact chunk_covers 768 _ witness_chunk_3 s h1 (by omega)
  rcases Nat.lt_or_ge s 1280 with h | h1
  · exact chunk_covers 1024 _ witness_chunk_4 s h1 (by omega)
  rcases Nat.lt_or_ge s 1536 with h | h1
  · exact chunk_covers 1280 _ witness_chunk_5 s h1 (by omega)
  rcases Nat.lt_or_ge s 1792 with h | h1
  · exact chunk_covers 1536 _ witness_chunk_6 s h1 (by omega)
  exact chunk_covers 1792 _ witness_chunk_7 s h1 (by omega)

end RSVerif.Lemmas.Slot
