import RSVerif.Lemmas.Resume
/-
Run id and version are present in the database of the newest checkpoint.
-/
namespace RSVerif.Lemmas.RunId
open RSVerif RSVerif.Sync RSVerif.Sender RSVerif.Spec.IncrSync RSVerif.Spec.MiniRedis
open RSVerif.Lemmas.Sender RSVerif.Lemmas.MiniRedis RSVerif.Lemmas.SenderRedis RSVerif.Lemmas.SyncBasic
open RSVerif.Lemmas.Checkpoint RSVerif.Lemmas.Resume

variable {D : Type} (apply : Int → Cmd → D → D) (rc : RenderCfg)

def hgetL (l : List Entry) (a : Int) (f : Bytes) : Option Bytes :=
  (l.find? (fun e => e.1 == a && e.2.1 == f)).map (fun e => e.2.2)

theorem hget_eq (s : St D) (a : Int) (f : Bytes) : hget s a f = hgetL s.ckpt a f := rfl

/-- run id and version of this run are what database `a` holds -/
def RidOK (l : List Entry) (a : Int) : Prop :=
  hgetL l a (runIdField rc) = some rc.runId ∧
  hgetL l a (versionField rc) = some (fmtInt Generated.SyncConsts.fcvCheckpointCurrent)

theorem field_rid_ne_ver : runIdField rc ≠ versionField rc := by
  unfold runIdField versionField fieldName
  intro h
  have := List.append_cancel_left h
  revert this
  decide

theorem hgetL_cons (e : Entry) (l : List Entry) (a : Int) (f : Bytes) :
    hgetL (e :: l) a f = if e.1 = a ∧ e.2.1 = f then some e.2.2 else hgetL l a f := by
  unfold hgetL
  rw [List.find?_cons]
  by_cases h : e.1 = a ∧ e.2.1 = f
  · simp [h]
  · rw [if_neg h]
    have : (e.1 == a && e.2.1 == f) = false := by
      simp only [Bool.and_eq_false_iff, beq_eq_false_iff_ne]
      by_cases h1 : e.1 = a
      · exact Or.inr (fun h2 => h ⟨h1, h2⟩)
      · exact Or.inl h1
    simp [this]

/-- the entries a group writes keep (and, with `runId`, establish) the run id of the databases -/
theorem ridOK_push (g : Group) (d : Int) (l : List Entry) (a : Int)
    (h : RidOK rc l a ∨ (g.runId = true ∧ g.batched = true ∧ a = d)) :
    RidOK rc (ckptEntries rc g d ++ l) a := by
  unfold ckptEntries
  have n1 := field_ne_runid rc
  have n2 := field_ne_version rc
  have n3 := field_rid_ne_ver rc
  cases hb : g.batched <;> cases hr : g.runId
  · rcases h with h | ⟨h1, _, _⟩
    · simpa using h
    · simp [hr] at h1
  · rcases h with h | ⟨_, h2, _⟩
    · simpa using h
    · simp [hb] at h2
  · rcases h with h | ⟨h1, _, _⟩
    · simp only [if_true, Bool.false_eq_true, if_false, List.cons_append, List.nil_append]
      unfold RidOK at *
      simp only [hgetL_cons]
      refine ⟨?_, ?_⟩
      · rw [if_neg (fun hh => n1 hh.2.symm)]; exact h.1
      · rw [if_neg (fun hh => n2 hh.2.symm)]; exact h.2
    · simp [hr] at h1
  · simp only [if_true, List.cons_append, List.nil_append]
    unfold RidOK at *
    simp only [hgetL_cons]
    refine ⟨?_, ?_⟩
    · rw [if_neg (fun hh => n1 hh.2.symm), if_neg (fun hh => n3 hh.2.symm)]
      by_cases hd : d = a
      · simp [hd]
      · rw [if_neg (fun hh => hd hh.1)]
        rcases h with h | ⟨_, _, h3⟩
        · exact h.1
        · exact absurd h3.symm hd
    · rw [if_neg (fun hh => n2 hh.2.symm)]
      by_cases hd : d = a
      · simp [hd]
      · rw [if_neg (fun hh => hd hh.1), if_neg (fun hh => hd hh.1)]
        rcases h with h | ⟨_, _, h3⟩
        · exact h.2
        · exact absurd h3.symm hd


/-! ### the `Db` tag and the connection's database -/

/-- database of the connection after one command -/
def dbStep (ck : Bytes) (conn : Int) (c : Cmd) : Int :=
  match classify ck c with
  | .select k => k
  | _ => conn

theorem execCore_snd (ck : Bytes) (x : D × Int) (c : Cmd) : (execCore apply ck x c).2 = dbStep ck x.2 c := by
  unfold execCore dbStep
  split <;> simp_all

def dbAfter (ck : Bytes) (conn : Int) (items : List Item) : Int := (items.map cmdOf).foldl (dbStep ck) conn

theorem plain_db (ck : Bytes) (s : St D) (items : List Item) :
    (plain ck apply s (items.map cmdOf)).db = dbAfter ck s.db items := by
  have h := core_plain apply ck s (items.map cmdOf)
  have : ∀ (l : List Cmd) (x : D × Int), (l.foldl (execCore apply ck) x).2 = l.foldl (dbStep ck) x.2 := by
    intro l
    induction l with
    | nil => intro x; rfl
    | cons c l ih => intro x; simp only [List.foldl_cons]; rw [ih, execCore_snd]
  have h2 := congrArg Prod.snd h
  simp only [core] at h2
  rw [h2, this]; rfl

/-- The `Db` tag of every item determines, through `f`, the database the connection is in after the item
(`f (-1)` = the start database, `f d = d` otherwise, for what the parser emits without `target.db`). -/
def DbTag (ck : Bytes) (f : Int → Int) : Int → List Item → Prop
  | _, [] => True
  | conn, it :: rest => f it.db = dbStep ck conn (cmdOf it) ∧ DbTag ck f (dbStep ck conn (cmdOf it)) rest

instance decDbTag (ck : Bytes) (f : Int → Int) : (conn : Int) → (items : List Item) → Decidable (DbTag ck f conn items)
  | _, [] => isTrue trivial
  | conn, it :: rest =>
    have := decDbTag ck f (dbStep ck conn (cmdOf it)) rest
    by unfold DbTag; exact inferInstance

theorem dbTag_append (ck : Bytes) (f : Int → Int) (conn : Int) (a b : List Item) :
    DbTag ck f conn (a ++ b) ↔ DbTag ck f conn a ∧ DbTag ck f (dbAfter ck conn a) b := by
  induction a generalizing conn with
  | nil => simp [DbTag, dbAfter]
  | cons x a ih =>
    simp only [List.cons_append, DbTag, ih, dbAfter, List.map_cons, List.foldl_cons]
    exact ⟨fun ⟨h1, h2, h3⟩ => ⟨⟨h1, h2⟩, h3⟩, fun ⟨⟨h1, h2⟩, h3⟩ => ⟨h1, h2, h3⟩⟩

def lastDbOf (items : List Item) : Int :=
  match items.getLast? with
  | some l => l.db
  | none => 0

theorem dbTag_last (ck : Bytes) (f : Int → Int) (conn : Int) (a : List Item) (hne : a ≠ [])
    (h : DbTag ck f conn a) : dbAfter ck conn a = f (lastDbOf a) := by
  induction a generalizing conn with
  | nil => exact absurd rfl hne
  | cons x a ih =>
    obtain ⟨h1, h2⟩ := h
    by_cases ha : a = []
    · subst ha; simp [dbAfter, lastDbOf, h1]
    · have := ih _ ha h2
      simp only [dbAfter, List.map_cons, List.foldl_cons] at this ⊢
      rw [this]
      cases a with
      | nil => exact absurd rfl ha
      | cons y r => simp [lastDbOf, List.getLast?_cons_cons]


/-- what `mkGroup` says about the run-id flag and the key set -/
theorem mkGroup_keys (cfg : Cfg) (dbs : List Int) (items : List Item) (hne : items ≠ []) :
    let g := (mkGroup cfg dbs items).1
    let dbs1 := (mkGroup cfg dbs items).2
    (g.runId = true → g.batched = true ∧ dbs1 = lastDbOf items :: dbs) ∧
    (g.runId = false → dbs1 = dbs ∧ (g.batched = true → lastDbOf items ∈ dbs)) := by
  unfold mkGroup lastDbOf
  cases hl : items.getLast? with
  | none => simp at hl; exact absurd hl hne
  | some last =>
    simp only []
    cases hb : (cfg.resume && !(items.length == 1 && last.cmd == "ping")) <;>
      cases hc : dbs.contains last.db <;> simp_all

theorem groups_runid (cfg : Cfg) (hres : cfg.resume = true) (gs : List Group) (dbs dbs' : List Int)
    (hsh : Shaped cfg dbs gs dbs') (s : St D) (f : Int → Int)
    (htag : DbTag rc.ckName f s.db (gItems gs))
    (hpl : ∀ it ∈ gItems gs, plainItem rc.ckName it = true)
    (hkeys : ∀ k ∈ dbs, RidOK rc s.ckpt (f k)) :
    (∀ k ∈ dbs', RidOK rc (plain rc.ckName apply s (gs.flatMap (groupBody rc))).ckpt (f k)) ∧
    (∀ a, RidOK rc s.ckpt a → RidOK rc (plain rc.ckName apply s (gs.flatMap (groupBody rc))).ckpt a) ∧
    (((plain rc.ckName apply s (gs.flatMap (groupBody rc))).ckpt = s.ckpt ∧
        (plain rc.ckName apply s (gs.flatMap (groupBody rc))).db = s.db) ∨
      RidOK rc (plain rc.ckName apply s (gs.flatMap (groupBody rc))).ckpt
        (plain rc.ckName apply s (gs.flatMap (groupBody rc))).db) := by
  induction gs generalizing dbs s with
  | nil =>
    simp only [Shaped] at hsh
    subst hsh
    exact ⟨hkeys, fun _ h => h, Or.inl ⟨rfl, rfl⟩⟩
  | cons g gs ih =>
    obtain ⟨hne, hgeq, hrest⟩ := hsh
    have hgi : gItems (g :: gs) = g.items ++ gItems gs := by simp [gItems]
    rw [hgi] at htag hpl
    obtain ⟨htag1, htag2⟩ := (dbTag_append rc.ckName f s.db g.items (gItems gs)).mp htag
    have hplg : ∀ it ∈ g.items, plainItem rc.ckName it = true := fun it hit => hpl it (by simp [hit])
    have hpl' : ∀ it ∈ gItems gs, plainItem rc.ckName it = true := fun it hit => hpl it (by simp [hit])
    obtain ⟨hck, hco⟩ := plain_groupBody apply rc s g hplg
    have hdb1 : (plain rc.ckName apply s (groupBody rc g)).db = dbAfter rc.ckName s.db g.items := by
      have := congrArg Prod.snd hco
      simp only [core] at this
      rw [this, plain_db]
    have hdbf : dbAfter rc.ckName s.db g.items = f (lastDbOf g.items) := dbTag_last rc.ckName f s.db g.items hne htag1
    obtain ⟨hk1, hk2⟩ := mkGroup_keys cfg dbs g.items hne
    rw [← hgeq] at hk1 hk2
    simp only [List.flatMap_cons, plain_append]
    generalize hs1 : plain rc.ckName apply s (groupBody rc g) = s1 at hck hdb1
    rw [plain_db] at hck
    -- run id status of s1
    have hmono1 : ∀ a, RidOK rc s.ckpt a → RidOK rc s1.ckpt a := by
      intro a ha; rw [hck]; exact ridOK_push rc g _ _ a (Or.inl ha)
    have hkeys1 : ∀ k ∈ (mkGroup cfg dbs g.items).2, RidOK rc s1.ckpt (f k) := by
      intro k hk
      cases hr : g.runId with
      | true =>
        obtain ⟨hb, hd⟩ := hk1 hr
        rw [hd] at hk
        rcases List.mem_cons.mp hk with h | h
        · subst h
          rw [hck]
          exact ridOK_push rc g _ _ _ (Or.inr ⟨hr, hb, hdbf.symm⟩)
        · exact hmono1 _ (hkeys k h)
      | false =>
        rw [(hk2 hr).1] at hk
        exact hmono1 _ (hkeys k hk)
    have htag2' : DbTag rc.ckName f s1.db (gItems gs) := by rw [hdb1]; exact htag2
    obtain ⟨i1, i2, i3⟩ := ih _ hrest s1 htag2' hpl' hkeys1
    refine ⟨i1, fun a ha => i2 a (hmono1 a ha), ?_⟩
    cases hb : g.batched with
    | false =>
      -- a lone ping: nothing written, database unchanged
      have hck0 : s1.ckpt = s.ckpt := by rw [hck]; simp [ckptEntries, hb]
      have hping : ∀ it ∈ g.items, it.cmd = "ping" := (shaped_small cfg hres [g] dbs _ ⟨hne, hgeq, rfl⟩).2.2 g (by simp) hb
      have hdb0 : s1.db = s.db := by
        rw [hdb1]
        have : ∀ (l : List Item) (c : Int), (∀ it ∈ l, it.cmd = "ping") → dbAfter rc.ckName c l = c := by
          intro l
          induction l with
          | nil => intro c _; rfl
          | cons x l ihl =>
            intro c h
            have e : normName "ping" = "ping" := by decide
            have hx : dbStep rc.ckName c (cmdOf x) = c := by
              simp [dbStep, classify, cmdOf, h x (by simp), e]
            simp only [dbAfter, List.map_cons, List.foldl_cons, hx]
            exact ihl c (fun y hy => h y (by simp [hy]))
        exact this _ _ hping
      rcases i3 with ⟨j1, j2⟩ | j
      · exact Or.inl ⟨by rw [j1, hck0], by rw [j2, hdb0]⟩
      · exact Or.inr j
    | true =>
      have hs1ok : RidOK rc s1.ckpt s1.db := by
        rw [hdb1, hdbf]
        cases hr : g.runId with
        | true => rw [hck]; exact ridOK_push rc g _ _ _ (Or.inr ⟨hr, hb, hdbf.symm⟩)
        | false => exact hmono1 _ (hkeys _ ((hk2 hr).2 hb))
      rcases i3 with ⟨_, j2⟩ | j
      · right; rw [j2]; exact i2 _ hs1ok
      · exact Or.inr j

end RSVerif.Lemmas.RunId
