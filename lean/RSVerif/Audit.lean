import Lean
/-
`#audit_namespace NS` prints one line per theorem declared under namespace `NS`:
  AUDIT <name> | <axiom> <axiom> …
The check script fails if an axiom outside {propext, Classical.choice, Quot.sound} appears
(`sorryAx`, `Lean.ofReduceBool` from native_decide, bv_decide's axioms, or a user axiom).
-/
open Lean Elab Command

elab "#audit_namespace " ns:ident : command => do
  let env ← getEnv
  let nsName := ns.getId
  let mut names : Array Name := #[]
  for (n, ci) in env.constants.map₁.toList ++ env.constants.map₂.toList do
    if nsName.isPrefixOf n && !n.isInternal then
      match ci with
      | .thmInfo _ => names := names.push n
      | .axiomInfo _ => names := names.push n
      | _ => pure ()
  let sorted := names.qsort (fun a b => a.toString < b.toString)
  for n in sorted do
    let axs ← Lean.collectAxioms n
    let axs := axs.qsort (fun a b => a.toString < b.toString)
    let kind := match env.find? n with | some (.axiomInfo _) => "AXIOM" | _ => "AUDIT"
    logInfo m!"{kind} {n} | {" ".intercalate (axs.toList.map toString)}"
