/-
Shared basics: byte strings, endianness, small helper lemmas. Core Lean only.
-/
namespace RSVerif

abbrev Bytes := List UInt8

deriving instance DecidableEq for Except

/-- quantifier over all 256 byte values, decidable through `Fin 256`. -/
theorem forall_u8 (p : UInt8 → Prop) (h : ∀ i : Fin 256, p (UInt8.ofNat i.val)) : ∀ u, p u := by
  intro u
  have := h ⟨u.toNat, u.toNat_lt⟩
  simpa using this

/-- little-endian rendering of a 64-bit word (Go `binary.LittleEndian.PutUint64`). -/
def le64 (x : UInt64) : Bytes :=
  [x.toUInt8, (x >>> 8).toUInt8, (x >>> 16).toUInt8, (x >>> 24).toUInt8,
   (x >>> 32).toUInt8, (x >>> 40).toUInt8, (x >>> 48).toUInt8, (x >>> 56).toUInt8]

def le16 (x : UInt16) : Bytes := [x.toUInt8, (x >>> 8).toUInt8]

/-- Go `binary.LittleEndian.Uint64` on an 8-byte slice. -/
def ofLe64 : Bytes → UInt64
  | [a, b, c, d, e, f, g, h] =>
    a.toUInt64 ||| (b.toUInt64 <<< 8) ||| (c.toUInt64 <<< 16) ||| (d.toUInt64 <<< 24) |||
    (e.toUInt64 <<< 32) ||| (f.toUInt64 <<< 40) ||| (g.toUInt64 <<< 48) ||| (h.toUInt64 <<< 56)
  | _ => 0

def hexDigit (n : Nat) : Char :=
  if n < 10 then Char.ofNat (48 + n) else Char.ofNat (87 + n)

def toHex (bs : Bytes) : String :=
  String.ofList (bs.flatMap fun b => [hexDigit (b.toNat / 16), hexDigit (b.toNat % 16)])

def hexVal (c : Char) : Option Nat :=
  if '0' ≤ c ∧ c ≤ '9' then some (c.toNat - 48)
  else if 'a' ≤ c ∧ c ≤ 'f' then some (c.toNat - 87)
  else if 'A' ≤ c ∧ c ≤ 'F' then some (c.toNat - 55)
  else none

def ofHexChars : List Char → Option Bytes
  | [] => some []
  | a :: b :: rest => do
    let x ← hexVal a
    let y ← hexVal b
    let r ← ofHexChars rest
    pure (UInt8.ofNat (x * 16 + y) :: r)
  | _ => none

/-- parse a hex string; "-" denotes the empty byte string. -/
def ofHex (s : String) : Option Bytes :=
  if s == "-" then some [] else ofHexChars s.toList

def hexOrDash (bs : Bytes) : String := if bs.isEmpty then "-" else toHex bs

end RSVerif
