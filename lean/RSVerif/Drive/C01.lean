import RSVerif.Model.RdbRead
/- line protocol for C01: `rdb|rdbchan <L> <wf|mut|hdr> <hex>` → records delivered, end state, bytes left unread -/
namespace RSVerif.Drive.C01
open RSVerif RSVerif.Rdb

def lower (b : UInt8) : UInt8 := if 65 ≤ b.toNat ∧ b.toNat ≤ 90 then b + 32 else b

def isDigit (b : UInt8) : Bool := 48 ≤ b.toNat && b.toNat ≤ 57

/-- Stand-in for `strconv.ParseFloat` succeeding, for the decimal grammar the generator emits:
    [+-]? ( inf | infinity | nan | digits [. digits] | . digits ) ( [eE] [+-]? digits )? -/
def pfSimple (t : Bytes) : Bool :=
  let t := match t with | 43 :: r => r | 45 :: r => r | r => r
  let l := t.map lower
  if l == "inf".toUTF8.toList || l == "infinity".toUTF8.toList || l == "nan".toUTF8.toList then true
  else
    let ip := l.takeWhile isDigit
    let r := l.dropWhile isDigit
    let (fp, r, dot) := match r with
      | 46 :: r' => (r'.takeWhile isDigit, r'.dropWhile isDigit, true)
      | _ => ([], r, false)
    let _ := dot
    if ip.isEmpty && fp.isEmpty then false
    else match r with
      | [] => true
      | 101 :: e =>
        let e := match e with | 43 :: x => x | 45 :: x => x | x => x
        !e.isEmpty && e.all isDigit && e.length ≤ 2
      | _ => false

def hex16 (x : UInt64) : String := toHex (le64 x).reverse

/-- FNV-1a 64 fingerprint of long payloads (not the CRC-64: a payload ending in its own CRC has CRC 0) -/
def fnv1a (v : Bytes) : UInt64 :=
  v.foldl (fun h b => (h ^^^ b.toUInt64) * 0x100000001b3) 0xcbf29ce484222325

def valRepr (v : Bytes) : String :=
  if v.length ≤ 40 then hexOrDash v else s!"{v.length}:{hex16 (fnv1a v)}"

def showEntry (e : Entry) : String :=
  s!" E[{e.db},{hexOrDash e.key},{e.type.toNat},{e.expireAt},{e.idle},{e.freq},{e.needReadLen},{e.realMemberCount},{if e.valueUnspecified then "?" else valRepr e.value}]"

def handle (line : String) : String :=
  match line.splitOn " " with
  | [_kind, l, _flag, h] =>
    match l.toNat?, ofHex h with
    | some L, some bs =>
      match header Generated.rdbFromVersion bs with
      | .error _ => "h=err"
      | .ok _ =>
        let (es, fin) := run pfSimple true L Generated.rdbFromVersion bs
        let body := String.join (es.map showEntry)
        match fin with
        | .ok rest => s!"h=ok{body} end=ok:unread={rest.length}"
        | .error _ => s!"h=ok{body} end=err"
    | _, _ => "badcase"
  | _ => "badcase"

end RSVerif.Drive.C01
