import RSVerif.Basic
/- C01: line-protocol driver (stub) -/
namespace RSVerif.Drive.C01
def handle (_line : String) : String := "unimplemented"
end RSVerif.Drive.C01
