import RSVerif.Model.Slot
/- line protocol for C15: what the *specification* predicts for each case of go/harness/c15.go -/
namespace RSVerif.Drive.C15
open RSVerif RSVerif.Spec.Slot RSVerif.Slot

def hex4 (x : UInt16) : String := toHex [(x >>> 8).toUInt8, x.toUInt8]

def hexList (s : String) : Option (List Bytes) :=
  if s == "-" then some [] else (s.splitOn ",").mapM ofHex

def natList (s : String) : Option (List Nat) :=
  if s == "-" then some [] else (s.splitOn ",").mapM String.toNat?

def boolStr (b : Bool) : String := if b then "true" else "false"

/-- upper bound on the iterations of the latency key search explored by the driver -/
def latencyFuel : Nat := 2000000

/-- first `i` (from `i`, at most `fuel` tries) whose latency key has its SPEC slot in `[l, r]` -/
def latencySpecFrom (l r : Int) : Nat → Nat → Option Bytes
  | 0, _ => none
  | fuel + 1, i =>
    if inRange l r (slotSpec (latencyKey i)) then some (latencyKey i) else latencySpecFrom l r fuel (i + 1)

def handle (line : String) : String :=
  match line.splitOn " " with
  | ["slot", h] =>
    match ofHex h with
    | some k =>
      -- the specification: one slot, one CRC; every implementation has to print exactly these
      let s := slotSpec k
      let c := hex4 (crc16 k)
      s!"slot={s} common={c} latency={c} ext={s}"
    | none => "badcase"
  | ["chose", p, l, r] =>
    match ofHex p, l.toInt?, r.toInt? with
    | some pre, some l, some r =>
      let key := choseSlotInRange pre l r
      let inr := !key.isEmpty && inRange l r (slotSpec key)
      let f0 := filterKey [] [] key
      let f1 := filterKey [] ["user:".toUTF8.toList] key
      let f2 := filterKey ["zzz".toUTF8.toList] [] key
      let out := s!"key={hexOrDash key} inrange={boolStr inr} filtered={boolStr f0},{boolStr f1},{boolStr f2}"
      -- the property: for the checkpoint prefix and every range 0 ≤ l ≤ r ≤ 16383 a non-empty key,
      -- in range, excluded by the filter under every configuration
      if pre = Generated.C15.checkpointKey ∧ 0 ≤ l ∧ l ≤ r ∧ r ≤ 16383 ∧ !(inr && f0 && f1 && f2) then
        "spec-requires-nonempty-inrange-filtered-key; model gives: " ++ out
      else out
    | _, _, _ => "badcase"
  | ["filter", k, m, ls] =>
    match ofHex k, hexList ls with
    | some key, some l =>
      boolStr (if m == "b" then filterKey l [] key else if m == "w" then filterKey [] l key else filterKey [] [] key)
    | _, _ => "badcase"
  | ["fslot", k, ls] =>
    match ofHex k, natList ls with
    | some key, some l =>
      -- FilterSlot: no list ⇒ everything passes; else exactly the keys whose slot is listed pass
      boolStr (if l.isEmpty then false else !(l.contains (slotSpec key)))
    | _, _ => "badcase"
  | ["latency", l, r] =>
    match l.toInt?, r.toInt? with
    | some l, some r =>
      match latencySpecFrom l r latencyFuel 0 with
      | some key => "key=" ++ hexOrDash key
      | none => "spec-requires-a-key-in-range"
    | _, _ => "badcase"
  | _ => "badcase"

end RSVerif.Drive.C15
