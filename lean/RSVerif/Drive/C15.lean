import RSVerif.Basic
/- C15: line-protocol driver (stub) -/
namespace RSVerif.Drive.C15
def handle (_line : String) : String := "unimplemented"
end RSVerif.Drive.C15
