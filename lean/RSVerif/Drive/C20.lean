import RSVerif.Basic
/- C20: line-protocol driver (stub) -/
namespace RSVerif.Drive.C20
def handle (_line : String) : String := "unimplemented"
end RSVerif.Drive.C20
