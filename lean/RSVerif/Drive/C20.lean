import RSVerif.Model.Supervisor
/-
Line protocol for C20 (cases of go/harness/c20.go).

  topo <hosts> <script>                 -> what the property predicts: the repaired loop run with the SPEC's
                                           reading of each probe (`Spec.Supervisor.nodeState`, not the regexes
                                           extracted from the source) — `Properties.C20.getRedisNodeState_eq_spec`
                                           is what makes this the model of the code.
  sync <hosts> <script>                 -> the same prediction for the end-to-end run through the real factory and
                                           DbSyncer.updateSlotTopology; the error is an abort (log.Panicf) there
  pinned topo <hosts> <script>          -> the same for the loop as pinned (diagnostic, deviation D21)
  accept <impl|line> topo <hosts> <script> -> `accepted` iff the implementation's answer satisfies the spec
                                           (`Spec.Supervisor.correct`) in the attempt at which the model returns.
-/
namespace RSVerif.Drive.C20
open RSVerif RSVerif.Supervisor RSVerif.Spec.Supervisor

def parseTok (t : String) : Option Probe :=
  match t.toList with
  | [] => some .connErr
  | ['C'] => some .connErr
  | ['D'] | ['R'] | ['N'] | ['T'] | ['A'] => some .cmdErr
  | 'B' :: h | 'S' :: h => (ofHex (String.ofList h)).map .info
  | _ => none

def parseRow (r : String) : Option (List Probe) := (r.splitOn ",").mapM parseTok

def parseScript (s : String) : Option (List (List Probe)) := (s.splitOn "/").mapM parseRow

/-- attempt `a` plays row `min a (rows-1)`; a position beyond its row refuses the connection -/
def outOf (rows : List (List Probe)) (a i : Nat) : Probe :=
  match rows[min a (rows.length - 1)]? with
  | some row => row[i]?.getD .connErr
  | none => .connErr

def sortStrings (l : List String) : List String := (l.toArray.qsort (· < ·)).toList

def joinOrDash (l : List String) : String := if l.isEmpty then "-" else ",".intercalate l

structure Case where
  node : SyncNode
  out : Nat → Nat → Probe

def parseCase (hs sc : String) : Option Case :=
  match hs.splitOn ",", parseScript sc with
  | src :: slaves, some rows => some ⟨⟨src, slaves⟩, outOf rows⟩
  | _, _ => none

def predict (c : Case) : Run := getSlotStateWith .repaired nodeState c.node c.out

def render (r : Run) : String :=
  match r.result with
  | .ok n => s!"ok attempts={r.attempts} src={n.source} slaves={joinOrDash (sortStrings n.slaves)}"
  | .maxRetriesReached => s!"err attempts={r.attempts}"

def field (key : String) (fs : List String) : Option String :=
  fs.findSome? fun f => if f.startsWith (key ++ "=") then some ((f.drop (key.length + 1)).toString) else none

def accepts (impl : String) (c : Case) : Bool :=
  let r := predict c
  match impl.splitOn "|" with
  | ["err", a] => r.result == .maxRetriesReached && a == s!"attempts={r.attempts}"
  | "ok" :: fs =>
    match r.result, field "attempts" fs, field "src" fs, field "slaves" fs with
    | .ok _, some a, some src, some sl =>
      fs.length == 3 && a == toString r.attempts &&
      correct (hosts c.node) (fun i => answer (c.out (r.attempts - 1) i))
        ⟨src, if sl == "-" then [] else sl.splitOn ","⟩
    | _, _, _, _ => false
  | _ => false

def handle (line : String) : String :=
  -- `sync@<prior restarts>@<minutes>`: the same discovery, wherever the syncer stands in its retry window
  let toks := line.splitOn " "
  let toks := match toks with
    | k :: rest => if k.startsWith "sync@" then "sync" :: rest else toks
    | [] => toks
  match toks with
  | ["topo", hs, sc] =>
    match parseCase hs sc with
    | some c => render (predict c)
    | none => "badcase"
  | ["sync", hs, sc] =>
    match parseCase hs sc with
    | some c =>
      let r := predict c
      match r.result with
      | .ok _ => render r
      | .maxRetriesReached => s!"abort attempts={r.attempts}"
    | none => "badcase"
  | ["pinned", "topo", hs, sc] =>   -- diagnostic: the loop as pinned (before fixes/C20-displaced-master.patch)
    match parseCase hs sc with
    | some c => render (getSlotStateWith .pinned nodeState c.node c.out)
    | none => "badcase"
  | ["accept", impl, "topo", hs, sc] =>
    match parseCase hs sc with
    | some c => if accepts impl c then "accepted" else "rejected"
    | none => "badcase"
  | _ => "badcase"

end RSVerif.Drive.C20
