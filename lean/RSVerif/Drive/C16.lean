import RSVerif.Model.Rump
/- C16: line-protocol driver. Case format: see go/harness/c16.go. -/
namespace RSVerif.Drive.C16
open RSVerif RSVerif.Spec.MiniRedisC16 RSVerif.Rump

def listOf (s : String) (sep : String) : List String :=
  if s == "-" || s == "" then [] else s.splitOn sep

def hexList (s : String) : Option (List Bytes) := (listOf s ",").mapM ofHex

def parseVal (s : String) : Option (Option Value) :=
  if s == "N" then some none else
  match s.splitOn "." with
  | [] => none
  | kind :: items =>
    let pairs : Option (List (Bytes × Bytes)) := items.mapM fun it =>
      match it.splitOn "~" with
      | [a, b] => do pure ((← ofHex a), (← ofHex b))
      | _ => none
    let singles : Option (List Bytes) := items.mapM ofHex
    match kind with
    | "S" => match singles with | some [b] => some (some (.str b)) | _ => none
    | "L" => singles.map fun xs => some (.list xs)
    | "T" => singles.map fun xs => some (.set xs)
    | "H" => pairs.map fun xs => some (.hash xs)
    | "Z" => pairs.map fun xs => some (.zset xs)
    | "O" => match singles with | some [b] => some (some (.opaque b)) | _ => none
    | _ => none

def expandVal : Value → Option (List Elem)
  | .str b => some [.set b]
  | .list xs => some (xs.map .rpush)
  | .set xs => some (xs.map .sadd)
  | .hash kv => some (kv.map fun (f, v) => .hset f v)
  | .zset ms => some (ms.map fun (m, s) => .zadd s m)
  | .opaque _ => none

structure Ev where
  db : Nat
  page : Nat
  dump : Bool
  idx : Nat
  vdb : Nat
  vkey : Key

structure Case where
  cfg : Config
  file : Bool
  dbs : List Nat
  pays : List (Payload × Option Value)
  src : List (Nat × Key × Nat × Int)
  scr : List (Nat × List (Nat × List Key))
  lines : List Key
  evs : List Ev
  tgt : List (Nat × Key × Value × Int)

def getTok (toks : List String) (k : String) : Option String :=
  toks.findSome? fun t => if t.startsWith (k ++ "=") then some ((t.drop (k.length + 1)).toString) else none

def parseCase (line : String) : Option Case := do
  let toks := line.splitOn " "
  guard (toks.head? == some "rump")
  let g := getTok toks
  let n ← (← g "n").toNat?
  let tdb ← (← g "tdb").toInt?
  let ke ← g "ke"
  let big ← (← g "big").toNat?
  let kb ← hexList (← g "kb")
  let kw ← hexList (← g "kw")
  let dbb := listOf (← g "dbb") ","
  let dbw := listOf (← g "dbw") ","
  let mode ← g "mode"
  let dbs ← (listOf (← g "dbs") ",").mapM String.toNat?
  let pays ← (listOf (← g "pay") ";").mapM fun x =>
    match x.splitOn ":" with
    | [p, v] => do pure ((← ofHex p), (← parseVal v))
    | _ => none
  let src ← (listOf (← g "src") ";").mapM fun x =>
    match x.splitOn ":" with
    | [d, k, p, t] => do pure ((← d.toNat?), (← ofHex k), (← p.toNat?), (← t.toInt?))
    | _ => none
  let scr ← (listOf (← g "scr") ";").mapM fun x =>
    match x.splitOn "/" with
    | [d, pgs] => do
      let pages ← (pgs.splitOn "|").mapM fun pg =>
        match pg.splitOn ":" with
        | [c, ks] => do pure ((← c.toNat?), (← hexList ks))
        | _ => none
      pure ((← d.toNat?), pages)
    | _ => none
  let lines ← hexList (← g "file")
  let evs ← (listOf (← g "ev") ",").mapM fun x =>
    match x.splitOn "/" with
    | [d, pg, ph, i, vd, vk] => do
      pure (⟨← d.toNat?, ← pg.toNat?, ph == "D", ← i.toNat?, ← vd.toNat?, ← ofHex vk⟩ : Ev)
    | _ => none
  let tgt ← (listOf (← g "tgt") ";").mapM fun x =>
    match x.splitOn ":" with
    | [d, k, v, t] => do
      match ← parseVal v with
      | some val => pure ((← d.toNat?), (← ofHex k), val, (← t.toInt?))
      | none => none
    | _ => none
  let cfg : Config := {
    pageSize := n, targetDb := if tdb < 0 then none else some tdb.toNat, rewrite := ke == "rewrite",
    bigThreshold := big, keyBlack := kb, keyWhite := kw, dbBlack := dbb, dbWhite := dbw }
  pure ⟨cfg, mode == "file", dbs, pays, src, scr, lines, evs, tgt⟩

def Case.codec (c : Case) : Codec where
  materialise p := (c.pays.find? (·.1 == p)).bind (·.2)
  expand p := ((c.pays.find? (·.1 == p)).bind (·.2)).bind expandVal

def Case.sks (c : Case) : SKeyspace := fun d k =>
  (c.src.find? fun (d', k', _, _) => d' == d && k' == k).bind fun (_, _, p, t) =>
    (c.pays[p]?).map fun pv => ⟨pv.1, if t < 0 then none else some t.toNat⟩

def Case.tks (c : Case) : Keyspace := fun d k =>
  (c.tgt.find? fun (d', k', _, _) => d' == d && k' == k).map fun (_, _, v, t) =>
    ⟨v, if t < 0 then none else some t.toNat⟩

/-- positional event lists of one page -/
def Case.evsOf (c : Case) (db page : Nat) (dump : Bool) : List (List (Nat × Key)) :=
  let es := c.evs.filter fun e => e.db == db && e.page == page && e.dump == dump
  let m := es.foldl (fun a e => max a (e.idx + 1)) 0
  (List.range m).map fun i => (es.filter (·.idx == i)).map fun e => (e.vdb, e.vkey)

def Case.scanSrc (c : Case) : ScanSrc :=
  if c.file then
    -- the key file is read while the first db that passes the filter is fetched
    let db := (c.dbs.find? fun d => !filterDB c.cfg d).getD 0
    let np := c.lines.length / (max c.cfg.pageSize 1) + 1
    .keyFile (kfPages c.cfg.pageSize c.lines ((List.range np).map fun j => (c.evsOf db j true, c.evsOf db j false)))
  else
    .normal fun db =>
      match c.scr.find? (·.1 == db) with
      | none => []
      | some (_, pages) => pages.zipIdx.map fun ((cur, keys), j) => ⟨cur, keys, c.evsOf db j true, c.evsOf db j false⟩

/-! rendering -/

def hexK (b : Bytes) : String := hexOrDash b

def joinOr (xs : List String) (sep : String) : String := if xs.isEmpty then "-" else sep.intercalate xs

def renderSrc : SrcCmd → String
  | .select d => s!"s{d}"
  | .scan c n => s!"c{c}/{n}"
  | .dump k => "d" ++ hexK k
  | .pttl k => "t" ++ hexK k
  | .exec => "x"

def renderElem : Elem → String
  | .set v => "S" ++ hexK v
  | .rpush v => "R" ++ hexK v
  | .sadd m => "A" ++ hexK m
  | .hset f v => "H" ++ hexK f ++ "~" ++ hexK v
  | .zadd s m => "Z" ++ hexK m ++ "~" ++ hexK s

def renderWire : Wire → String
  | .flush => "m.f"
  | .cmd c x =>
    (match c with | .main => "m." | .big => "b.") ++
    match x with
    | .select d => s!"s{d}"
    | .restore k ttl p r => "r" ++ hexK k ++ s!"/{ttl}/" ++ hexK p ++ (if r then "/R" else "/-")
    | .del k => "d" ++ hexK k
    | .pexpire k ms => "p" ++ hexK k ++ s!"/{ms}"
    | .elem k e => "e" ++ hexK k ++ "/" ++ renderElem e

def sortStr (xs : List String) : List String := xs.mergeSort (fun a b => decide (a ≤ b))

def canonVal : Value → String
  | .str b => "S." ++ hexK b
  | .list xs => ".".intercalate ("L" :: xs.map hexK)
  | .set xs => "T." ++ ".".intercalate (sortStr (xs.map hexK))
  | .hash kv => "H." ++ ".".intercalate (sortStr (kv.map fun (f, v) => hexK f ++ "~" ++ hexK v))
  | .zset ms => "Z." ++ ".".intercalate (sortStr (ms.map fun (m, s) => hexK m ++ "~" ++ hexK s))
  | .opaque t => "O." ++ hexK t

def dedup [BEq α] (xs : List α) : List α := xs.foldl (fun acc x => if acc.contains x then acc else acc ++ [x]) []

def Case.renderKs (c : Case) (ks : Keyspace) : String :=
  let dbs := dedup (c.dbs ++ c.src.map (·.1) ++ c.tgt.map (·.1) ++ (match c.cfg.targetDb with | some d => [d] | none => []) ++ [0])
  let dbs := dbs.mergeSort (fun a b => decide (a ≤ b))
  let keys := dedup (c.src.map (·.2.1) ++ c.tgt.map (·.2.1) ++ c.lines ++ (c.scr.flatMap fun (_, pgs) => pgs.flatMap (·.2)))
  let keys := (keys.map fun k => (hexK k, k)).mergeSort (fun a b => decide (a.1 ≤ b.1))
  let ents := dbs.flatMap fun d => keys.filterMap fun (h, k) =>
    (ks d k).map fun e => s!"{d}:{h}:{canonVal e.val}:" ++ (match e.ttl with | none => "-1" | some t => toString t)
  joinOr ents ";"

/-- the hypotheses of `Properties.C16.copied_exact` (`Hyps Fixes.all …`), checked over the finite universe of the case -/
def Case.hypsHold (c : Case) (src : ScanSrc) : Bool :=
  let M := c.codec
  let sc := scanned c.cfg src c.dbs
  -- Codec.Sound on the payload table (every other payload has no expansion)
  (c.pays.all fun (p, _) => match M.expand p with
    | none => true
    | some es => match M.materialise p with
      | none => false
      | some v => replay none es == some (some v)) &&
  -- payloads of the source
  (c.src.all fun (_, _, pi, _) => match c.pays[pi]? with
    | none => false
    | some (p, _) => (M.materialise p).isSome && (decide (c.cfg.bigThreshold ≤ p.length) → (M.expand p).isSome)) &&
  -- distinct target addresses
  decide ((sc.map (tAddr c.cfg)).Nodup) &&
  -- policy
  (sc.all fun a => (c.tks (targetDbOf c.cfg a.1) a.2).isNone || c.cfg.rewrite)

/-- the target keyspace `copied_exact` predicts: a scanned key that still exists at the end of the fetch is there with the
value of its payload and `ttlSpec` of its ttl; an address no scanned key maps to keeps what it had. (An address whose
scanned key vanished during the run is not determined by the theorem; the model's answer is used.) -/
def Case.specKs (c : Case) (src : ScanSrc) (r : RunOut) : Keyspace := fun d k =>
  match (scanned c.cfg src c.dbs).find? (fun a => tAddr c.cfg a == (d, k)) with
  | none => c.tks d k
  | some a =>
    match r.fetch.ks a.1 a.2 with
    | some e => (c.codec.materialise e.payload).map fun v => ⟨v, ttlSpec e.ttl⟩
    | none => r.w.tgt.ks d k

def handleDbList (toks : List String) : String :=
  let g := getTok toks
  match g "dbb", g "dbw", g "counts" with
  | some dbb, some dbw, some cs =>
    let counts : Option (List (Nat × Nat)) := (listOf cs ",").mapM fun x =>
      match x.splitOn ":" with
      | [d, n] => do pure ((← d.toNat?), (← n.toNat?))
      | _ => none
    match counts with
    | none => "badcase"
    | some counts =>
      let cfg : Config := ⟨1, none, false, 0, [], [], listOf dbb ",", listOf dbw ","⟩
      let r := sourceDbList cfg counts
      let dbs := r.1.mergeSort (fun a b => decide (a ≤ b))
      s!"dbs={joinOr (dbs.map toString) ","} total={r.2}"
  | _, _, _ => "badcase"

def handle (line : String) : String :=
  if line.startsWith "dblist " then handleDbList (line.splitOn " ") else
  match parseCase line with
  | none => "badcase"
  | some c =>
    let src := c.scanSrc
    let r := run Fixes.all c.cfg c.codec src c.sks c.dbs (Target.init c.tks)
    let hyp := c.hypsHold src
    let ks := if hyp then c.specKs src r else r.w.tgt.ks
    let st (b : Bool) := if b then "a" else "o"
    let closed := if r.recv.aborted || r.recv.starved then 0 else 1
    s!"src={joinOr ((fetcherTrace c.cfg src 0 c.dbs).map renderSrc) ","} tgt={joinOr (r.w.wire.map renderWire) ","} " ++
    s!"ks={c.renderKs ks} st={st (!r.fetch.ok)}{st r.w.aborted}{st (r.recv.aborted || r.recv.starved)} " ++
    s!"closed={closed} conf={r.recv.confirmed} unread={r.recv.unread.length} unsent={r.w.buf.length} hyp={if hyp then 1 else 0}"

end RSVerif.Drive.C16
