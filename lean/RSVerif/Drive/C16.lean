import RSVerif.Basic
/- C16: line-protocol driver (stub) -/
namespace RSVerif.Drive.C16
def handle (_line : String) : String := "unimplemented"
end RSVerif.Drive.C16
