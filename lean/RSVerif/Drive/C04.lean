import RSVerif.Basic
/- C04: line-protocol driver (stub) -/
namespace RSVerif.Drive.C04
def handle (_line : String) : String := "unimplemented"
end RSVerif.Drive.C04
