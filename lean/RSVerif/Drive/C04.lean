import RSVerif.Drive.C03
/-
C04: same case lines and predictions as C03 (go/harness/c0304_common.go). The verdict adds, for EVERY cut
position of the recorded wire: the dataset equals the history up to the checkpoint the loader must return,
that checkpoint carries run id and version in its database, and the resumed run (model) ends with the
dataset of the uninterrupted one.
-/
namespace RSVerif.Drive.C04
open RSVerif RSVerif.Sync RSVerif.Sender RSVerif.IncrParse RSVerif.Spec.IncrSync RSVerif.Spec.MiniRedis
open RSVerif.Generated RSVerif.Drive.C03

/-- the checkpoint the loader must return: fold `offset > newest` over the databases holding the hash -/
def newest (st : St Log) (offField : Bytes) : Option (Int × Int) :=
  (st.ckpt.map (·.1)).eraseDups.foldl (fun best d =>
    match storedInt st d offField, best with
    | some o, none => some (d, o)
    | some o, some (bd, bo) => if o > bo then some (d, o) else some (bd, bo)
    | none, b => b) none

def startSelect (dbX X : Int) : List Item :=
  if dbX = 0 then [] else [{ cmd := "select", args := [fmtInt dbX], off := X, db := dbX }]

def resumeItems (items : List Item) (dbX X : Int) : List Item :=
  startSelect dbX X ++ items.filter (fun it => decide (X < it.off))

/-- one cut position; `none` = consistent -/
def cutCheck (s : SCfgT) (items : List Item) (wire : List Cmd) (p : Nat) : Option String :=
  let ck := s.rc.ckName
  let hist := nonMarkers items
  let st := drop (replay ck logApply st0 (wire.take p))
  let full := (plain ck logApply st0 (hist.map cmdOf)).data
  match newest st (offsetField s.rc) with
  | none => if st.data == [] then none else some s!"cut{p}:data-without-checkpoint"
  | some (dbX, X) =>
    let ref := plain ck logApply st0 ((hist.filter (fun it => decide (it.off ≤ X))).map cmdOf)
    if st.data != ref.data then some s!"cut{p}:data-differs-from-history-up-to-{X}"
    else if ref.db != dbX then some s!"cut{p}:checkpoint-db-{dbX}-is-not-the-selected-db"
    else if hget st dbX (runIdField s.rc) != some s.rc.runId then some s!"cut{p}:no-runid-in-db-{dbX}"
    else if hget st dbX (versionField s.rc) != some (fmtInt SyncConsts.fcvCheckpointCurrent) then
      some s!"cut{p}:no-version-in-db-{dbX}"
    else
      -- resume (model of the second run, canonical schedule) from offset X+1 in database dbX
      let items2 := resumeItems items dbX X
      let wire2 := (canonical s.cfg s.rc items2).flatten
      let fin := replay ck logApply (reconnect st) wire2
      if fin.data != full then some s!"cut{p}:resume-differs" else none

def cutOracle (s : SCfgT) (items : List Item) (wire : List Cmd) : Option String :=
  (List.range (wire.length + 1)).findSome? (cutCheck s items wire)

def increasing : List Item → Bool
  | a :: b :: rest => decide (a.off < b.off) && increasing (b :: rest)
  | _ => true

def judgeC04 (s : SCfgT) (items : List Item) (route : Option (Log → Bool)) (impl : String)
    (routeWhy : String := "reject:route") : String :=
  let base := judgeTrace s items route impl routeWhy
  if base != "ok" then base
  else if !s.cfg.resume || !senderHyps s.rc.ckName items || !increasing items then "ok"
  else
    match parseTrace impl with
    | some (tr, _) =>
      match cutOracle s items tr.flatten with
      | none => "ok"
      | some why => s!"reject:{why}"
    | none => "reject:unparsable"

def judge (case impl : String) : String :=
  match case.splitOn " " with
  | ["send", sc, items, _gaps] =>
    match parseScfg sc, parseItems items with
    | some s, some its => judgeC04 s its none impl
    | _, _ => "badcase"
  | ["pipe", pc, sc, startDb, base, cmds, _gaps] =>
    match parsePcfg pc, parseScfg sc, startDb.toInt?, base.toInt?, parseCmds cmds with
    | some p, some s, some sd, some b, some cs =>
      let (items, ab) := parseModel p sd b cs
      if ab then "badcase-abort"
      else
        let v := judgeC04 s items
          (if routePre p.toCfg sd cs then some (routeOracle s.rc.ckName p.toCfg sd cs) else none) impl
          (if d8Hit p.toCfg sd cs then "reject:route:d8" else "reject:route")
        -- deviation D8 also keys runIdMap with a database the connection is not in: the checkpoint database then
        -- lacks run id/version (same root cause, same finding)
        if d8Hit p.toCfg sd cs && v.startsWith "reject:cut" && ((v.splitOn ":no-runid-in-db").length > 1 ||
            (v.splitOn ":no-version-in-db").length > 1) then v ++ ":d8" else v
    | _, _, _, _, _ => "badcase"
  | _ => "badcase"

def handle (line : String) : String :=
  match line.splitOn "\t" with
  | ["judge", case, impl] => judge case impl
  | _ => RSVerif.Drive.C03.handle line

end RSVerif.Drive.C04
