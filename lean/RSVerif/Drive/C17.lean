import RSVerif.Basic
/- C17: line-protocol driver (stub) -/
namespace RSVerif.Drive.C17
def handle (_line : String) : String := "unimplemented"
end RSVerif.Drive.C17
