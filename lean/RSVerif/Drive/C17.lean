import RSVerif.Model.DecodeMode
/- line protocol for C17 (cases of go/harness/c17.go):
     dec <parallel> <flags> <items> <rdb file hex>   → `ok` + the sorted canonical records the PROPERTY demands
                                                        (`Spec.DecodeMode.specRecords`), whatever the schedule
     decbig <parallel> <npairs> <valsize>             → `ok n=<npairs>` (one hash above 16 MiB, built by the harness)
     b64 <hex>                                        → hex of `b64enc`
     b64d <hex>                                       → `ok:<hex>` / `err` of `b64dec`
   items: `/`-separated (`-` = none); `s,db,exp,key,val` `l,db,exp,key,e.e.e` `h,db,exp,key,f=v.f=v` `t,db,exp,key,m.m`
          `z,db,exp,key,m=bits.m=bits` `a,script` and `x,db,exp,key` (a value DecodeDump rejects: model → abort) -/
namespace RSVerif.Drive.C17
open RSVerif RSVerif.Spec.DecodeMode RSVerif.DecodeMode

def be64 (bs : Bytes) : UInt64 := bs.foldl (fun acc b => (acc <<< 8) ||| b.toUInt64) 0

def hex16 (x : UInt64) : String := toHex (le64 x).reverse

/-- split on a separator, with the empty string meaning "no elements". -/
def parts (s : String) (sep : String) : List String := if s.isEmpty then [] else s.splitOn sep

def optAll {α : Type} : List (Option α) → Option (List α)
  | [] => some []
  | none :: _ => none
  | some x :: r => (optAll r).map (x :: ·)

def parsePair (s : String) : Option (Bytes × Bytes) :=
  match s.splitOn "=" with
  | [a, b] => do pure ((← ofHex a), (← ofHex b))
  | _ => none

def parseScored (s : String) : Option (Bytes × UInt64) :=
  match s.splitOn "=" with
  | [a, b] => do
    let m ← ofHex a
    let bits ← ofHex b
    if bits.length = 8 then pure (m, be64 bits) else none
  | _ => none

inductive CaseItem where
  | item (it : Item)
  | undecodable            -- a key whose value `rdb.DecodeDump` rejects (stream): outside the property

def parseItem (s : String) : Option CaseItem :=
  match s.splitOn "," with
  | ["a", v] => do pure (.item (.lua (← ofHex v)))
  | ["x", _, _, _] => some .undecodable
  | [k, db, exp, key, body] => do
    let db ← db.toNat?
    let exp ← exp.toNat?
    let key ← ofHex key
    let v ← match k with
      | "s" => (ofHex body).map Value.str
      | "l" => (optAll ((parts body ".").map ofHex)).map Value.list
      | "t" => (optAll ((parts body ".").map ofHex)).map Value.set
      | "h" => (optAll ((parts body ".").map parsePair)).map Value.hash
      | "z" => (optAll ((parts body ".").map parseScored)).map Value.zset
      | _ => none
    pure (.item (.key ⟨db, exp, key, v⟩))
  | _ => none

/-- canonical rendering of one demanded record; the text fields are the SPECIFIED text
    rendering `Spec.DecodeMode.textOf` (theorem `toText_spec` ties decode.go's `toText` to it). -/
def canon : SRecord → String
  | .script s => s!"aux:k={hexOrDash (ascii "lua")}:v={hexOrDash s}"
  | .data db exp key e =>
    let pre (ty : String) := s!"{ty}:{db}:{exp}:{hexOrDash key}:{hexOrDash (textOf key)}"
    match e with
    | .str v => s!"{pre "string"}:v={hexOrDash v}"
    | .listElem i v => s!"{pre "list"}:i={i}:v={hexOrDash v}"
    | .hashField f v => s!"{pre "hash"}:f={hexOrDash f}:ft={hexOrDash (textOf f)}:v={hexOrDash v}"
    | .setMember m => s!"{pre "set"}:m={hexOrDash m}:mt={hexOrDash (textOf m)}"
    | .zsetMember m sc => s!"{pre "zset"}:m={hexOrDash m}:mt={hexOrDash (textOf m)}:s={hex16 sc}"

def sortStrings (l : List String) : List String := (l.toArray.qsort (fun a b => a < b)).toList

def handle (line : String) : String :=
  match line.splitOn " " with
  | ["dec", _par, _flags, items, _file] =>
    match optAll ((if items == "-" then [] else parts items "/").map parseItem) with
    | none => "badcase"
    | some cis =>
      if cis.any (fun c => match c with | .undecodable => true | _ => false) then "abort"
      else
        let its := cis.filterMap fun c => match c with | .item it => some it | _ => none
        let recs := sortStrings ((its.flatMap specRecords).map canon)
        String.intercalate " " ("ok" :: recs)
  | ["decbig", _par, np, _sz] => s!"ok n={np}"
  | ["b64", h] =>
    match ofHex h with
    | some bs => hexOrDash (b64enc bs)
    | none => "badcase"
  | ["b64d", h] =>
    match ofHex h with
    | some bs => match b64dec bs with | some o => s!"ok:{hexOrDash o}" | none => "err"
    | none => "badcase"
  | _ => "badcase"

end RSVerif.Drive.C17
