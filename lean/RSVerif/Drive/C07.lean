import RSVerif.Model.ParallelRestore
/-
Line protocol for C07 (cases of go/harness/c07.go).

  `<case>`                     → what the model predicts from the case alone: `expect res=<ok|err> cmds=<n>`
  `<case> @@ <result line>`    → trace validation: is the recorded run (global command log of the fake target + result
                                 of the real `syncRDBFile` / `restoreRDBFile`) a behaviour the proved model allows?
                                 `accept` | `reject:<check>:<detail>`

The recorded commands are replayed through `Spec.MiniRedisC07.Server` (per-connection SELECT state), which yields the
server-side log the theorems of `Properties/C07.lean` speak about; the checks are the decidable statements of those theorems:
  result   error_reported / failure_is_real           (res = err ⇔ some command was answered with an error)
  conn     every command came over one of the P worker connections
  db       lands_in_route / conn_db_invariant         (every command is a command of a passing entry, run in `route cfg e.DB`)
  atmost   no command executed more often than `expected` asks for
  order    each connection's log is the concatenation, in queue order, of complete `restoreCmds` blocks of entries it took
           (the last block may stop at the command that failed)
  once     each_once                                   (multiset executed = `expected`; in failing sync runs with surviving
                                                        workers: everything except the failing keys)
  value    value_equality (holds for `parallel = 1 ∨ ¬chunked` — otherwise finding D12)
-/
namespace RSVerif.Drive.C07
open RSVerif RSVerif.Spec.MiniRedisC07 RSVerif.Model.ParallelRestore

structure Flags where
  fdb : Bool
  fkey : Bool
  fslot : Bool

structure Case where
  chunk : Bool
  mode : Mode
  p : Nat
  tdb : Option Nat
  rewrite : Bool
  filterLua : Bool
  failKey : Option Bytes
  entries : List (Entry × Flags)

def lookup (kv : List (String × String)) (k : String) : Option String :=
  (kv.find? fun p => p.1 == k).map (·.2)

def parseKV (toks : List String) : List (String × String) :=
  toks.filterMap fun t =>
    match t.splitOn "=" with
    | [k, v] => some (k, v)
    | _ => none

def parseFields (s : String) : Option (List Bytes) :=
  if s == "-" then some [] else (s.splitOn ",").mapM ofHex

def parseEntry (s : String) : Option (Entry × Flags) :=
  match s.splitOn ":" with
  | [db, key, kind, exp, fl, fs] => do
    let db ← db.toNat?
    let key ← ofHex key
    let kind ← kind.toNat?
    let body ← parseFields fs
    let f := fl.toList
    let bit (i : Nat) : Bool := f.getD i '0' == '1'
    pure ({ db := db, key := key, kind := kind, expire := exp == "1", body := body },
          { fdb := bit 0, fkey := bit 1, fslot := bit 2 })
  | _ => none

def parseEntries (s : String) : Option (List (Entry × Flags)) :=
  if s == "-" then some [] else (s.splitOn ";").mapM parseEntry

def parseCase (line : String) : Option Case :=
  match line.splitOn " " with
  | kind :: mode :: rest => do
    let kv := parseKV rest
    let p ← (← lookup kv "P").toNat?
    let tdbS ← lookup kv "tdb"
    let tdb : Option Nat := if tdbS == "-1" then none else tdbS.toNat?
    let kx ← lookup kv "kx"
    let lua ← lookup kv "lua"
    let fail ← lookup kv "fail"
    let failKey ← (if fail == "-" then some none else (ofHex fail).map some)
    let es ← parseEntries (← lookup kv "E")
    let mode ← (if mode == "sync" then some Mode.sync else if mode == "restore" then some Mode.restoreFixed else none)
    if kind != "trace" && kind != "chunk" then none
    pure { chunk := kind == "chunk", mode := mode, p := p, tdb := tdb, rewrite := kx == "rewrite", filterLua := lua == "1",
           failKey := failKey, entries := es }
  | _ => none

/-- the filter predicates of the case: fixed per database / per key by construction of the generator's filter lists -/
def Case.cfg (c : Case) : Cfg :=
  { mode := c.mode
    targetDB := c.tdb
    filterDB := fun d => c.entries.any fun (e, f) => e.db == d && f.fdb
    filterKey := fun k => c.entries.any fun (e, f) => e.key == k && f.fkey
    filterSlot := fun k => c.entries.any fun (e, f) => e.key == k && f.fslot
    restoreCmds := concreteCmds c.rewrite c.filterLua }

def Case.ents (c : Case) : List Entry := c.entries.map (·.1)

/-- the RESTORE of this entry is answered with an error by the fake target -/
def Case.fails (c : Case) (e : Entry) : Bool :=
  e.kind == 0 && c.failKey == some e.key && passes c.cfg e

def luaKey : Bytes := [108, 117, 97]

def cmdName : String → CmdName
  | "restore" => .restore | "set" => .set | "del" => .del | "exists" => .exists | "hset" => .hset
  | "rpush" => .rpush | "sadd" => .sadd | "zadd" => .zadd | "pexpire" => .pexpire | "script" => .scriptLoad
  | _ => .other

inductive Wire
  | select (conn db : Nat)
  | data (conn : Nat) (c : DataCmd) (ok : Bool)

def parseItem (s : String) : Option Wire :=
  match s.splitOn ":" with
  | [conn, word, key, arg, ok] => do
    let conn ← conn.toNat?
    if word == "select" then
      let db ← key.toNat?
      pure (.select conn db)
    else
      let key ← ofHex key
      let arg ← ofHex arg
      let name := cmdName word
      let key := if name == .scriptLoad then luaKey else key
      pure (.data conn { name := name, key := key, arg := arg } (ok == "1"))
  | _ => none

def parseTrace (s : String) : Option (List Wire) :=
  if s == "-" then some [] else (s.splitOn ",").mapM parseItem

/-- the target's view of the run: SELECT state per connection, data commands logged with the database they ran in -/
def replay (ws : List Wire) : Server :=
  ws.foldl (fun s w => match w with
    | .select c d => s.select c d
    | .data c x ok => s.exec c x ok) {}

def countP (p : Nat × DataCmd) (l : List (Nat × DataCmd)) : Nat := l.count p

/-- does `l` (one connection's log) decompose into blocks of entries of `ents`, in order? -/
def matchConn (cfg : Cfg) : List Entry → List (Nat × DataCmd × Bool) → Bool
  | _, [] => true
  | [], _ :: _ => false
  | e :: es, l@((d, c, _) :: _) =>
    if !passes cfg e then matchConn cfg es l
    else
      match tagged cfg e with
      | [] => matchConn cfg es l
      | t :: ts =>
        if t != (d, c) then matchConn cfg es l
        else
          -- consume the block t :: ts
          let rec eat : List (Nat × DataCmd) → List (Nat × DataCmd × Bool) → Option (List (Nat × DataCmd × Bool))
            | [], rest => some rest
            | _ :: _, [] => none                       -- the connection stopped in the middle of an entry without an error
            | b :: bs, (d', c', ok) :: rest =>
              if b != (d', c') then none
              else if !ok then (if rest.isEmpty then some [] else none)   -- the worker returns after the failure
              else eat bs rest
          match eat (t :: ts) l with
          | none => false
          | some rest => matchConn cfg es rest

def firstSome {α : Type} (l : List α) (f : α → Option String) : Option String :=
  l.findSome? f

def showKey (k : Bytes) : String := hexOrDash k

def verdict (c : Case) (res : String) (ws : List Wire) : String :=
  let cfg := c.cfg
  let ents := c.ents
  let srv := replay ws
  let log := srv.log
  let failed := log.filter fun x => !x.ok
  let execd := log.map fun x => (x.db, x.cmd)
  let exp := expected cfg ents
  -- result
  let resOk := res == "ok" || res == "nores"
  if res != "ok" && res != "nores" && res != "err" then s!"reject:result:{res}"
  else if failed.isEmpty && !resOk then "reject:result:failure-reported-but-no-command-failed"
  else if !failed.isEmpty && resOk then "reject:result:a-restore-failed-but-the-run-finished-as-a-success"
  else
  match firstSome log (fun x => if x.conn < c.p then none else some s!"reject:conn:{x.conn}") with
  | some r => r
  | none =>
  match firstSome log (fun x =>
      if ents.any (fun e => passes cfg e && (cfg.restoreCmds e).contains x.cmd && x.db == route cfg e.db) then none
      else some s!"reject:db:key={showKey x.cmd.key},ran-in-db={x.db},conn={x.conn}") with
  | some r => r
  | none =>
  match firstSome execd (fun p => if countP p execd ≤ countP p exp then none
      else some s!"reject:atmost:key={showKey p.2.key},db={p.1},times={countP p execd}") with
  | some r => r
  | none =>
  match firstSome (List.range c.p) (fun w =>
      let l := (log.filter fun x => x.conn == w).map fun x => (x.db, x.cmd, x.ok)
      if matchConn cfg ents l then none else some s!"reject:order:conn={w}") with
  | some r => r
  | none =>
  let failedKeys := failed.map fun x => x.cmd.key
  let mustAll := failed.isEmpty || failed.length < c.p
  match (if mustAll then firstSome exp (fun p =>
      if failedKeys.contains p.2.key || countP p execd == countP p exp then none
      else some s!"reject:once:key={showKey p.2.key},db={p.1},times={countP p execd},expected={countP p exp}") else none) with
  | some r => r
  | none =>
  if !failed.isEmpty then "accept"
  else
  match firstSome (ents.filter (passes cfg)) (fun e =>
      if valueAfter log (route cfg e.db) e.key == valueAfter (seqLog cfg ents) (route cfg e.db) e.key then none
      else some s!"reject:value:key={showKey e.key},db={route cfg e.db}") with
  | some r => r
  | none => "accept"

def expectLine (c : Case) : String :=
  let cfg := c.cfg
  let anyFail := c.ents.any c.fails
  s!"expect res={if anyFail then "err" else "ok"} cmds={(expected cfg c.ents).length}"

/-- `mfile rp=… P=… fail=<keyhex|-> dseed=… F=<entries>|<entries>|…`: restore mode over several input files.
    A failing RESTORE in ANY file must end the run as a failure (`Properties.C07.main_reports_any_failure`: whatever
    routine picked which file in which order); otherwise every key of every file is written once, into its own database. -/
def mfileLine (cl : String) : String :=
  let toks := cl.splitOn " "
  let look (k : String) : String :=
    match toks.find? (·.startsWith (k ++ "=")) with
    | some t => (t.drop (k.length + 1)).toString
    | none => ""
  if look "fail" != "-" then "abort"
  else
    let ents := ((look "F").splitOn "|").flatMap fun f => (f.splitOn ";").filter (· ≠ "-")
    let ws := ents.filterMap fun e =>
      match e.splitOn ":" with
      | db :: key :: _ => some s!"{db}:{key}"
      | _ => none
    "res=ok W=" ++ ",".intercalate (ws.mergeSort (fun a b => a ≤ b))

/-- `selfail <mode> P=… nosel=<db> dseed=… E=<entries>`: the target refuses `SELECT <db>`. A key living in that database
    cannot be written where it belongs, so the run must be reported as failed; otherwise every key once, in its database. -/
def selfailLine (cl : String) : String :=
  let toks := cl.splitOn " "
  let look (k : String) : String :=
    match toks.find? (·.startsWith (k ++ "=")) with
    | some t => (t.drop (k.length + 1)).toString
    | none => ""
  let ents := ((look "E").splitOn ";").filter (· ≠ "-")
  let dbkeys := ents.filterMap fun e =>
    match e.splitOn ":" with
    | db :: key :: _ => some (db, key)
    | _ => none
  if dbkeys.any (fun p => p.1 == look "nosel") then "fail"
  else "res=ok W=" ++ ",".intercalate ((dbkeys.map fun p => s!"{p.1}:{p.2}").mergeSort (fun a b => a ≤ b))

def handle (line : String) : String :=
  if line.startsWith "selfail " then selfailLine line else
  if line.startsWith "mfile " then mfileLine line else
  match line.splitOn " @@ " with
  | [cl] =>
    match parseCase cl with
    | some c => expectLine c
    | none => "badcase"
  | [cl, il] =>
    match parseCase cl, il.splitOn " " with
    | some c, [r, t] =>
      if r.startsWith "res=" && t.startsWith "T=" then
        match parseTrace (t.drop 2).toString with
        | some ws => verdict c (r.drop 4).toString ws
        | none => "reject:trace:unparsable"
      else "reject:trace:unparsable"
    | some _, _ => "reject:trace:unparsable"
    | none, _ => "badcase"
  | _ => "badcase"

end RSVerif.Drive.C07
