import RSVerif.Basic
/- C07: line-protocol driver (stub) -/
namespace RSVerif.Drive.C07
def handle (_line : String) : String := "unimplemented"
end RSVerif.Drive.C07
