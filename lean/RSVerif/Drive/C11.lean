import RSVerif.Model.Dump
/- line protocol for C11: what the *specification* predicts for each case of go/harness/c11.go -/
namespace RSVerif.Drive.C11
open RSVerif RSVerif.Dump

def hex16 (x : UInt64) : String := toHex (le64 x).reverse

def errName : Err → String
  | .length => "length" | .version => "version" | .crc => "crc"

def handle (line : String) : String :=
  match line.splitOn " " with
  | ["digest", h, _cuts] =>
    match ofHex h with
    | some bs =>
      let c := hex16 (Spec.Crc64.crc64 bs)
      s!"digest={c} sum={toHex (le64 (Spec.Crc64.crc64 bs))} cupcake={c} cupcakehash={c} external={c}"
    | none => "badcase"
  | ["mkdump", t, h] =>
    match t.toNat?, ofHex h with
    | some t, some bs => hexOrDash (createValueDump (UInt8.ofNat t) bs)
    | _, _ => "badcase"
  | ["verify", h] =>
    match ofHex h with
    | some d =>
      let a := match verifyDump d with | .ok _ => "ok" | .error e => errName e
      let b := match checkVersionChecksum d with
        | .ok (v, s) => s!"ok:{v}:{hex16 s}" | .error e => errName e
      s!"verifyDump={a} check={b}"
    | none => "badcase"
  | ["ldfile", _cfg, n, c, t] =>
    -- a whole file through utils.NewRDBLoader: whatever the configuration, the tool goes on iff the footer verifies
    match ofHex c, ofHex t with
    | some cov, some tr => if tr.length == 8 && footerOk cov tr then s!"accept {n}" else "abort"
    | _, _ => "badcase"
  | ["footer", c, t] =>
    match ofHex c, ofHex t with
    | some cov, some tr =>
      if tr.length < 8 then "eof" else if footerOk cov tr then "ok" else "mismatch"
    | _, _ => "badcase"
  | ["footer", c, t, _delivery] =>
    -- the same, the stream reaching the loader in pieces: the verdict does not depend on the delivery
    -- (Model/Tee.lean: Properties.C11.readFull_spec, readFull_delivery_independent, readAll_crc)
    match ofHex c, ofHex t with
    | some cov, some tr =>
      if tr.length < 8 then "eof" else if footerOk cov tr then "ok" else "mismatch"
    | _, _ => "badcase"
  | _ => "badcase"

end RSVerif.Drive.C11
