import RSVerif.Model.Filter
/-
Line protocol for C06: what the SPECIFICATION (`Spec.Filter.excluded` & co.) predicts for each case of
go/harness/c06.go. Case kinds:

  unit   <cfg> <db> <key> <slot> <cmd>    the four predicates of filter.go            -> spec clauses
  path   <cfg> tdb=<target.db> ls=<slot of "lua"> E=<entries> S=<stream>
         the real loops of full sync / restore / rump (fetch side) / incremental sync   -> spec
         after " | ": the as-coded model's count of Lua scripts (deviation D10) and which clause drops them
  rump   <cfg> tdb=<n> E=<entries>                a complete rump executor                      -> spec
  tail   <cfg> S=<stream>                  restore mode's command tail; " | " as-coded model
  rawslot sl=<list> <slot> / rawcmd lua=<b> <cmd>
         inputs OUTSIDE the specification's domain (unparsable slot entries, non-ASCII names):
         model-fidelity stream, the line is the as-coded model's answer.

<cfg> = kb=<l> kw=<l> db=<l> dw=<l> sl=<l> lua=<0|1>;  <l> = `_` (empty list) or comma-separated hex
strings (`-` = empty string).  Core Lean only.
-/
namespace RSVerif.Drive.C06
open RSVerif RSVerif.Spec.Filter RSVerif.Filter

def parseList (s : String) : Option (List Bytes) :=
  if s == "_" then some [] else (s.splitOn ",").mapM ofHex

def bit (b : Bool) : String := if b then "1" else "0"

def field? (pre : String) (s : String) : Option String :=
  if s.startsWith pre then some (s.drop pre.length).toString else none

def parseCfg : List String → Option (Cfg × List String)
  | kb :: kw :: db :: dw :: sl :: lua :: rest => do
    let kb ← (field? "kb=" kb) >>= parseList
    let kw ← (field? "kw=" kw) >>= parseList
    let db ← (field? "db=" db) >>= parseList
    let dw ← (field? "dw=" dw) >>= parseList
    let sl ← (field? "sl=" sl) >>= parseList
    let lua ← field? "lua=" lua
    some ({ keyBlack := kb, keyWhite := kw, dbBlack := db, dbWhite := dw, slots := sl, lua := lua == "1" }, rest)
  | _ => none

/-- insertion sort of rendered entries (Go side: `sort.Strings`; all ASCII) -/
def insertS (x : String) : List String → List String
  | [] => [x]
  | y :: ys => if x ≤ y then x :: y :: ys else y :: insertS x ys
def sortS (l : List String) : List String := l.foldr insertS []

def joinOrDash (l : List String) : String := if l.isEmpty then "-" else ",".intercalate l

/-- an entry of the snapshot / keyspace: a key, or an aux field `lua` met while `db` is current -/
inductive Ent
  | key (db : Int) (key : Bytes) (slot : Nat)
  | lua (db : Int)

def parseEnt (s : String) : Option Ent :=
  match s.splitOn ":" with
  | ["k", d, k, sl] => do some (.key (← d.toInt?) (← ofHex k) (← sl.toNat?))
  | ["l", d] => do some (.lua (← d.toInt?))
  | _ => none

/-- `g:` entries (rump: keys that vanished between SCAN and DUMP) are not part of the comparison — whether they are copied
    empty or skipped is C16's; the harness leaves their names out of the arrivals as well -/
def parseEnts (s : String) : Option (List Ent) :=
  if s == "_" then some [] else ((s.splitOn ",").filter (fun t => !t.startsWith "g:")).mapM parseEnt

/-- an element of a command stream: `select n`; a single-key command (a row (1,1,1) of the key table)
    `cmd key v`; a command without a row in the key table `cmd arg` -/
inductive Item
  | sel (db : Int)
  | one (cmd key : Bytes)
  | bare (cmd arg : Bytes)

def parseItem (s : String) : Option Item :=
  match s.splitOn ":" with
  | ["s", d] => do some (.sel (← d.toInt?))
  | ["c", c, k] => do some (.one (← ofHex c) (← ofHex k))
  | ["k", c, k] => do some (.one (← ofHex c) (← ofHex k))   -- the key is the command's only argument
  | ["x", c, a] => do some (.bare (← ofHex c) (← ofHex a))
  | _ => none

def parseItems (s : String) : Option (List Item) :=
  if s == "_" then some [] else (s.splitOn ",").mapM parseItem

def render (db : Int) (k : Bytes) : String := s!"{db}:{hexOrDash k}"
def renderCmd (db : Int) (cmd k : Bytes) : String :=
  s!"{db}:{hexOrDash (cmd.map lowerAscii)}:{hexOrDash k}"
/-- under `target.db` the database a forwarded command is tagged with is C03's subject: rendered `*` -/
def starDb (tdb : Int) (s : String) : String :=
  if tdb == -1 then s else "*" ++ (s.dropWhile (· != ':')).toString

/-! spec predictions -/

/-- `tdb` = `target.db` (-1: keep the source database number): where an arriving key lands; the
    decision itself always reads the SOURCE database number -/
def landing (tdb d : Int) : Int := if tdb == -1 then d else tdb

def specKeys (p : Path) (cfg : Cfg) (tdb : Int) (es : List Ent) : List String :=
  sortS (es.filterMap fun
    | .key d k s =>
      let ex := if p == .fullSync then excludedFullSync cfg d k s else excluded p cfg d k
      if ex then none else some (render (landing tdb d) k)
    | .lua _ => none)

def luaCount (es : List Ent) (dropped : Int → Bool) : Nat :=
  (es.filter fun | .lua d => !dropped d | _ => false).length

/-- the command stream as the specification sees it: a command reaches the target iff neither its
    `(db, key)` nor its name is excluded (`db` = the database selected last; before any `select` no
    database number is known and only the key / name clauses apply) -/
def specStream (cfg : Cfg) (dflt : Int) : Option Int → List Item → List String
  | _, [] => []
  | _, .sel n :: rest => specStream cfg dflt (some n) rest
  | cur, .one c k :: rest =>
    let dbx := match cur with | some d => dbExcluded cfg d | none => false
    let ex := dbx || checkpointExcluded .incr cfg k || keyExcluded cfg k || cmdExcluded cfg c
    let out := specStream cfg dflt cur rest
    if ex then out else renderCmd (cur.getD dflt) c k :: out
  | cur, .bare c a :: rest =>
    let dbx := match cur with | some d => dbExcluded cfg d | none => false
    let out := specStream cfg dflt cur rest
    if dbx || cmdExcluded cfg c then out else renderCmd (cur.getD dflt) c a :: out

/-! as-coded model of restore mode's command tail (what the fake target sees) -/

/-- state: `bypass`, and the database selected ON THE TARGET connection (a forwarded `select`) -/
def tailModel (cfg : Cfg) : Bool → Int → List Item → List String
  | _, _, [] => []
  | _, tdb, .sel n :: rest =>
    let bp := filterDB cfg n
    tailModel cfg bp (if bp then tdb else n) rest
  | bp, tdb, .one c k :: rest =>
    let out := tailModel cfg bp tdb rest
    if restoreCmdDecision bp (c.map lowerAscii) then out else renderCmd tdb c k :: out
  | bp, tdb, .bare c a :: rest =>
    let out := tailModel cfg bp tdb rest
    if restoreCmdDecision bp (c.map lowerAscii) then out else renderCmd tdb c a :: out

def luaWhy (cfg : Cfg) (es : List Ent) (ls : Nat) : String :=
  if isCheckpointKey nLua || keyExcluded cfg nLua then "key"
  else if es.any (fun | .lua d => dbExcluded cfg d | _ => false) then "db"
  else if slotExcluded cfg ls then "slot" else "none"

def handle (line : String) : String :=
  match line.splitOn " " with
  | "unit" :: rest =>
    match parseCfg rest with
    | some (cfg, [d, k, sl, c]) =>
      match d.toInt?, ofHex k, sl.toNat?, ofHex c with
      | some d, some k, some sl, some c =>
        s!"db={bit (dbExcluded cfg d)} key={bit (isCheckpointKey k || keyExcluded cfg k)} " ++
        s!"slot={bit (slotExcluded cfg sl)} cmd={bit (cmdExcluded cfg c)}"
      | _, _, _, _ => "badcase"
    | _ => "badcase"
  | "path" :: rest =>
    match parseCfg rest with
    | some (cfg, [tdb, ls, es, st]) =>
      match (field? "tdb=" tdb) >>= String.toInt?, (field? "ls=" ls) >>= String.toNat?,
            (field? "E=" es) >>= parseEnts, (field? "S=" st) >>= parseItems with
      | some tdb, some ls, some es, some st =>
        let specLua := luaCount es (fun _ => luaExcluded cfg)
        s!"full={joinOrDash (specKeys .fullSync cfg tdb es)} fulllua={specLua} " ++
        s!"restore={joinOrDash (specKeys .restore cfg tdb es)} restorelua={specLua} " ++
        -- rump, fetch side: the key channel still carries the source database number
        s!"rump={joinOrDash (specKeys .rump cfg (-1) es)} " ++
        s!"incr={joinOrDash ((specStream cfg (-1) none st).map (starDb tdb))}" ++
        s!" | fulllua={luaCount es (fun d => luaDecisionFullSync cfg (fun _ => ls) d)} " ++
        s!"restorelua={luaCount es (fun d => luaDecisionRestore cfg d)} why={luaWhy cfg es ls}"
      | _, _, _, _ => "badcase"
    | _ => "badcase"
  | "rump" :: rest =>
    match parseCfg rest with
    | some (cfg, [tdb, es, sc]) =>
      -- a special-cloud source: same filters; a Tencent cluster has the single logical database 0 (its other numbers do not exist)
      match (field? "tdb=" tdb) >>= String.toInt?, (field? "E=" es) >>= parseEnts with
      | some tdb, some es =>
        let es := if sc == "sc=tencent" then es.filter (fun e => match e with | .key d _ _ => d == 0 | .lua d => d == 0) else es
        s!"rump={joinOrDash (specKeys .rump cfg tdb es)}"
      | _, _ => "badcase"
    | some (cfg, [tdb, es]) =>
      match (field? "tdb=" tdb) >>= String.toInt?, (field? "E=" es) >>= parseEnts with
      | some tdb, some es => s!"rump={joinOrDash (specKeys .rump cfg tdb es)}"
      | _, _ => "badcase"
    | _ => "badcase"
  | "tail" :: rest =>
    match parseCfg rest with
    | some (cfg, [st]) =>
      match (field? "S=" st) >>= parseItems with
      | some st => s!"tail={joinOrDash (specStream cfg 0 none st)} | tail={joinOrDash (tailModel cfg false 0 st)}"
      | none => "badcase"
    | _ => "badcase"
  | ["rawslot", sl, s] =>
    match (field? "sl=" sl) >>= parseList, s.toInt? with
    | some l, some s => bit (filterSlot { slots := l } s)
    | _, _ => "badcase"
  | ["rawcmd", lua, c] =>
    match field? "lua=" lua, ofHex c with
    -- names as the specification spells them (= the source's, theorem `source_command_names`)
    | some l, some c => bit (filterCommandsOf [nOpinfo] [nEval, nScript, nEvalsha] { lua := l == "1" } c)
    | _, _ => "badcase"
  | _ => "badcase"

end RSVerif.Drive.C06
