import RSVerif.Basic
/- C06: line-protocol driver (stub) -/
namespace RSVerif.Drive.C06
def handle (_line : String) : String := "unimplemented"
end RSVerif.Drive.C06
