import RSVerif.Basic
/- C08: line-protocol driver (stub) -/
namespace RSVerif.Drive.C08
def handle (_line : String) : String := "unimplemented"
end RSVerif.Drive.C08
