import RSVerif.Model.Offsets
import RSVerif.Spec.Offsets
/-
C08: line-protocol driver (core Lean only). Case format and result format: see go/harness/c08.go.

  <kind> <in> <ann> <runid> <rdb> <steps>
      → the canonical trace: what the model (constants as the PROPERTY states them, `Consts.spec`) does when
        every byte arrives at once and the ACK tickers fire exactly every `ackPeriodMs` (diagnostic line).
  accept <case> ;; T <tokens> pipe=… rdb=… abort=…
      → `ok` iff the recorded trace of the real code is a behaviour of the model for SOME arrival times:
        • every ACK read after the end of the full sync equals start + r for an r between the count the
          previous ACK of that connection proved and the number of bytes the source had begun to send
          when it read the ACK (exact in value, tolerant in time); before, it is the keep-alive 0 (or,
          since the property does not ask for the keep-alive, such an exact value);
          one keep-alive that was already under way when WaitFull was closed is tolerated per connection;
        • at `q` (pipe drained, two further ACKs read) the last ACK equals start + everything sent;
        • every PSYNC carries exactly the run id and the offset the model asks for; after a graceful close
          everything sent had been received, after a reset (x) any count up to what was sent;
        • every sample of the tag base equals the announced start offset;
        • the bytes delivered to the pipe are exactly the stream bytes with offsets start+1, start+2, …
          (the fake source continues from the offset it was ASKED for, so a wrong request shows here);
        • abort flag = the model's `dead`;
        • `tags` histories: the Offset the real parseSourceCommand attached to the j-th command equals
          `tag` = tag base + position of the command's last byte, for every command completely received.
-/
namespace RSVerif.Drive.C08
open RSVerif RSVerif.Offsets

def K : Consts := Consts.spec

inductive Step
  | send (k : Nat) | pause (ms : Nat) | w | d | x | e | q | h
  deriving DecidableEq, Repr

structure Case where
  kind : String
  inOff : Int
  ann : Int
  runid : String
  rdb : Nat
  steps : List Step
  big : Bool := false            -- `tagl`: the command stream with two large values

def parseStep (s : String) : Option Step :=
  match s.toList with
  | ['w'] => some .w
  | ['d'] => some .d
  | ['x'] => some .x
  | ['e'] => some .e
  | ['q'] => some .q
  | ['h'] => some .h
  | 's' :: r => (String.ofList r).toNat?.map .send
  | 'p' :: r => (String.ofList r).toNat?.map .pause
  | _ => none

def parseCase (f : List String) : Option Case :=
  match f with
  | [kind, i, a, rid, rdb, steps] => do
    let inOff ← i.toInt?
    let ann ← if kind == "full" then a.toInt? else some 0
    let rdb ← rdb.toNat?
    -- `D<k>` / `X<k>`: as `d` / `x`, the source then writes its `+CONTINUE` line and the next k stream bytes in ONE segment.
    -- For the model that is `d` (`x`) followed by `s<k>`: what the source sends does not depend on how it is cut into segments.
    let expand (t : String) : Option (List Step) :=
      match t.toList with
      | 'D' :: r => (String.ofList r).toNat?.map fun k => [.d, .send k]
      | 'X' :: r => (String.ofList r).toNat?.map fun k => [.x, .send k]
      | 'S' :: r => (String.ofList r).toNat?.map fun k => [.send k]   -- first stream bytes in the same write as the RDB
      | _ => (parseStep t).map fun x => [x]
    let st ← ((steps.splitOn ",").mapM expand).map List.flatten
    if kind == "inc" || kind == "cont" || kind == "full" || kind == "tags" then
      pure { kind := kind, inOff := inOff, ann := ann, runid := rid, rdb := rdb, steps := st }
    else if kind == "tagl" then
      pure { kind := "tags", inOff := inOff, ann := ann, runid := rid, rdb := rdb, steps := st, big := true }
    else none
  | _ => none

/-- the byte the fake source sends at absolute offset o (mirrors `c08Byte` of the harness) -/
def gByte (o : Int) : UInt8 := UInt8.ofNat ((((o % 251) * 7 + o / 251) % 256).toNat)

def ridBytes (s : String) : Bytes := s.toUTF8.toList
def ridString (b : Bytes) : String := String.ofList (b.map fun u => Char.ofNat u.toNat)

def startState (c : Case) : St :=
  if c.kind == "inc" || c.kind == "tags" then init c.inOff (ridBytes c.runid)
  else if c.kind == "cont" then begin K c.inOff (ridBytes c.runid) .cont
  else
    -- the start asks with "?" (or with a checkpoint's stale id): harness `SendPSync(master, req)`; the source announces `c.runid`
    let req := match (ridBytes c.runid).head? with
      | some b => if b % 2 == 0 then "0123456789abcdef0123456789abcdef01234567" else "?"
      | none => "?"
    begin K c.inOff (ridBytes req) (.full (ridBytes c.runid) c.ann)

def showOut : Out → String
  | .ack c n => s!"a{c}:{n}"
  | .psync c r o => s!"P{c}:{ridString r}:{o}"

/-- the command stream of the `tags` histories (mirrors `c08Cmds` of the harness), repeated for ever -/
def cmds : List String :=
  ["*3\r\n$3\r\nset\r\n$1\r\na\r\n$1\r\n1\r\n",
   "*2\r\n$4\r\nincr\r\n$5\r\ncount\r\n",
   "*1\r\n$4\r\nping\r\n",
   "*4\r\n$4\r\nhset\r\n$1\r\nh\r\n$2\r\nf1\r\n$10\r\n0123456789\r\n"]

/-- `*3 $3 set $3 big $<n> <n bytes>`: 4+9+9+1+digits+2+n+2 bytes -/
def bigLen (n : Nat) : Nat := 4 + 9 + 9 + 1 + (toString n).length + 2 + n + 2

/-- lengths of the commands of one cycle; `tagl` mirrors `c08CmdsL` (values of 70001 and 1048601 bytes) -/
def cmdLensOf (big : Bool) : List Nat :=
  let l := cmds.map (·.utf8ByteSize)
  if big then [l.getD 0 0, bigLen 70001, l.getD 1 0, l.getD 2 0, bigLen 1048601, l.getD 3 0] else l

/-- positions (1-based byte counts) at which a command ends among the first n stream bytes -/
def cmdEnds (cmdLens : List Nat) (n : Nat) : List Nat :=
  let L := cmdLens.foldl (· + ·) 0
  if L == 0 then [] else
    let one : List Nat := (cmdLens.foldl (fun (acc : List Nat × Nat) l => (acc.1 ++ [acc.2 + l], acc.2 + l)) ([], 0)).1
    ((List.range (n / L + 1)).flatMap fun r => one.map (r * L + ·)).filter (· ≤ n)

/-- what parseSourceCommand attaches to the commands it has read from the pipe: `tag` at every command end
    (C10: the decoder position is the number of bytes consumed) -/
def tagsOf (c : Case) (s : St) : String :=
  if c.kind != "tags" then "-"
  else
    let ts := (cmdEnds (cmdLensOf c.big) s.pipe.length).map fun pos => toString (tag s pos)
    if ts.isEmpty then "none" else ",".intercalate ts

def tail (c : Case) (s : St) : String :=
  let pipe := if c.kind == "tags" then "-" else hexOrDash (s.pipe.map gByte)
  s!"pipe={pipe} rdb={if c.kind == "full" then "ok" else "-"} abort={if s.dead then 1 else 0} tags={tagsOf c s}"

/-! ### canonical (timed, everything instantaneous) run -/

structure Sim where
  st : St
  t : Nat                       -- ms since the start
  origins : List (Nat × Nat)    -- (connection, time its ticker was started) for every live ACK goroutine
  toks : Array String
  stopped : Bool

def period : Nat := Generated.C08.ackPeriodMs.toNat
def reopenDelay : Nat := Generated.C08.reopenDelayMs.toNat
def refusedDelay : Nat := Generated.C08.refusedDelayMs.toNat

/-- tick instants in (a, b] of all live goroutines, sorted by time then connection -/
def ticksIn (origins : List (Nat × Nat)) (a b : Nat) : List (Nat × Nat) :=
  let p := if period == 0 then 1 else period
  let all := origins.flatMap fun (c, t0) =>
    if b ≤ t0 then [] else
      let jLo := if a < t0 then 1 else (a - t0) / p + 1
      let jHi := (b - t0) / p
      (List.range (jHi + 1 - jLo)).map fun i => (t0 + (jLo + i) * p, c)
  (all.toArray.qsort fun x y => x.1 < y.1 || (x.1 == y.1 && x.2 < y.2)).toList

def Sim.emit (m : Sim) (e : Ev) : Sim :=
  let outs := emitted K m.st e
  { m with st := step K m.st e, toks := outs.foldl (fun a o => a.push (showOut o)) m.toks }

def Sim.advance (m : Sim) (b : Nat) : Sim :=
  let m := (ticksIn m.origins m.t b).foldl
    (fun m (_, c) => if c == m.st.conn && m.st.up then m.emit .tick else m.emit (.staleTick c)) m
  { m with t := b }

def Sim.tok (m : Sim) (s : String) : Sim := { m with toks := m.toks.push s }
def Sim.base (m : Sim) : Sim := m.tok s!"b{tagBase m.st}"

def Sim.drop (m : Sim) (name : String) (r : Reply) : Sim :=
  let old := m.st.conn
  let m := (m.tok name).emit .connDrop
  -- after a reset the source reads nothing more on that connection
  let m := if name == "x" then { m with origins := m.origins.filter (·.1 != old) } else m
  if m.st.dead then { (m.tok "abort") with stopped := true }
  else
    let m := m.advance (m.t + reopenDelay)
    let m := m.emit (.reconnect r)
    let t0 := if r == .cont then m.t else m.t + refusedDelay
    { m with origins := m.origins ++ [(m.st.conn, t0)] }.base

def Sim.step (m : Sim) : Step → Sim
  | .send k => ((m.tok s!"s{k}").emit (.recv k)).base
  | .pause ms => m.advance (m.t + ms)
  | .w => ((m.tok "w").emit .waitFullClosed).base
  | .d => m.drop "d" .cont
  | .x => m.drop "x" .cont
  | .e => m.drop "e" .err
  | .h => ((m.tok "h").emit .quietHour).base
  | .q =>
    let p := if period == 0 then 1 else period
    let t0 := (m.origins.find? (·.1 == m.st.conn)).map (·.2) |>.getD 0
    let target := if m.t < t0 then t0 + 2 * p else t0 + ((m.t - t0) / p + 2) * p
    ((m.advance target).tok "q").base

def canonical (c : Case) : String :=
  let s0 := startState c
  let m0 : Sim := { st := s0, t := 0, origins := [(0, 0)], toks := (s0.out.map showOut).toArray, stopped := false }
  let m := c.steps.foldl (fun m st => if m.stopped then m else m.step st) m0.base
  "T " ++ " ".intercalate m.toks.toList ++ " " ++ tail c m.st

/-! ### acceptance of a recorded trace -/

structure Acc where
  st : St
  hi : Nat                    -- stream bytes the source has begun to send and that can have been received
  forks : List (Nat × St)     -- earlier connections: state as of their last ACK (their goroutine may live on)
  grace : List Nat            -- connections that may still deliver one keep-alive sent before `w`
  pending : Option Step       -- d / x / e seen, PSYNC not yet
  real : Bool                 -- a real offset (not the keep-alive) was acknowledged before the end of the full sync
  script : List Step          -- non-pause steps still to come

/-- one ACK with value n read on a connection whose goroutine is in state `st` (full sync over) -/
def feedAckExact (st : St) (hi : Nat) (c : Nat) (n : Int) (grace : Bool) : Except String St :=
  match emitted K st .tick with
  | [.ack c0 v0] =>
    if c0 != c then .error s!"ack on connection {c}: model has connection {c0}"
    else if n == v0 then .ok (step K st .tick)
    else if n == K.ackWaiting && grace then .ok st
    else if n < v0 then .error s!"ack {n} below start+received = {v0} already proved on this connection"
    else
      let st1 := step K st (.recv (n - v0).toNat)
      if st1.received > hi then
        .error s!"ack {n} ahead of start+sent = {st.sourceOffset + hi}"
      else match emitted K st1 .tick with
        | [.ack _ v1] => if v1 == n then .ok (step K st1 .tick) else .error s!"ack {n}: model acknowledges {v1}"
        | _ => .error "model sends no ack"
  | _ => .error s!"ack {n} on connection {c}: the model has no ACK goroutine there"

/-- one ACK read on a connection whose goroutine is in state `st`. While the full sync is running the
    model sends the keep-alive; the property does not ask for it, so the exact offset is accepted as well
    (second component: the tool acknowledged a real offset before the end of the full sync). -/
def feedAck (st : St) (hi : Nat) (c : Nat) (n : Int) (grace : Bool) : Except String (St × Bool) :=
  if st.waitFull then (feedAckExact st hi c n grace).map (·, false)
  else match emitted K st .tick with
    | [.ack c0 v0] =>
      if c0 == c && n == v0 then .ok (step K st .tick, false)
      else match feedAckExact { st with waitFull := true } hi c n false with
        | .ok st' => .ok ({ st' with waitFull := false }, true)
        | .error e => .error s!"before the end of the full sync: neither the keep-alive {v0} nor exact ({e})"
    | _ => .error s!"ack {n} on connection {c}: the model has no ACK goroutine there"

def parseTok3 (r : List Char) : Option (Nat × String × Int) :=
  match (String.ofList r).splitOn ":" with
  | [c, rid, off] => do pure (← c.toNat?, rid, ← off.toInt?)
  | _ => none

def parseTok2 (r : List Char) : Option (Nat × Int) :=
  match (String.ofList r).splitOn ":" with
  | [c, n] => do pure (← c.toNat?, ← n.toInt?)
  | _ => none

def topUp (a : Acc) : Acc := { a with st := step K a.st (.recv (a.hi - a.st.received)) }

def expectStep (a : Acc) (s : Step → Bool) (what : String) : Except String Acc :=
  match a.script with
  | st :: r => if s st then .ok { a with script := r } else .error s!"trace has {what} where the script has another step"
  | [] => .error s!"trace has {what} after the end of the script"

def Acc.tok (a : Acc) (tok : String) : Except String Acc :=
  match tok.toList with
  | 's' :: r =>
    match (String.ofList r).toNat? with
    | some k => do
      let a ← expectStep a (· == .send k) tok
      pure { a with hi := a.hi + k }
    | none => .error s!"bad token {tok}"
  | ['w'] => do
    let a ← expectStep a (· == .w) tok
    pure { a with st := step K a.st .waitFullClosed
                  forks := a.forks.map fun (c, f) => (c, step K f .waitFullClosed)
                  grace := a.st.conn :: a.forks.map (·.1) }
  | ['d'] => do let a ← expectStep a (· == .d) tok; pure { a with pending := some .d }
  | ['x'] => do let a ← expectStep a (· == .x) tok; pure { a with pending := some .x }
  | ['e'] => do let a ← expectStep a (· == .e) tok; pure { a with pending := some .e }
  | ['q'] => do
    let a ← expectStep a (· == .q) tok
    if (a.st.waitFull || a.real) && a.st.up && a.st.streaming && a.st.received != a.hi then
      .error s!"ACKs settled at {ackValue K a.st}, not at start+received = {a.st.sourceOffset + a.hi}"
    else pure (topUp a)
  | ['h'] => do
    let a ← expectStep a (· == .h) tok
    pure { a with st := step K a.st .quietHour }
  | ['q', '!'] => .error "the ACKs did not settle (pipe not drained, or no two further ACKs within 10 s)"
  | 'b' :: r =>
    match (String.ofList r).toInt? with
    | some n =>
      if n == tagBase a.st then .ok a
      else .error s!"tag base is {n}, announced start offset is {tagBase a.st}"
    | none => .error s!"bad token {tok}"
  | 'a' :: 'b' :: 'o' :: 'r' :: 't' :: [] =>
    match a.pending with
    | none => .error "process aborted without a broken connection"
    | some _ =>
      let a := topUp a
      let st := step K a.st .connDrop
      if st.dead then .ok { a with st := st, pending := none, script := [] }
      else .error "process aborted although the retry bound was not reached"
  | 'a' :: r =>
    match parseTok2 r with
    | some (c, n) =>
      let g := a.grace.contains c
      let grace' := a.grace.filter (· != c)
      if c == a.st.conn then do
        let (st, real) ← feedAck a.st a.hi c n g
        pure { a with st := st, grace := grace', real := a.real || real }
      else match a.forks.find? (·.1 == c) with
        | some (_, f) => do
          let (f, _) ← feedAck f a.hi c n g
          pure { a with forks := (c, f) :: a.forks.filter (·.1 != c), grace := grace' }
        | none => .error s!"ack on unknown connection {c}"
    | none => .error s!"bad token {tok}"
  | 'P' :: r =>
    match parseTok3 r, a.pending with
    | some (c, rid, off), some p =>
      -- what had been received when the connection broke
      let st? : Except String St :=
        if p == .x then
          match emitted K (step K a.st .connDrop) (.reconnect .cont) with
          | [.psync _ _ o0] =>
            if off < o0 then .error s!"PSYNC offset {off} below start+received+1 = {o0} already proved"
            else
              let st1 := step K a.st (.recv (off - o0).toNat)
              if st1.received > a.hi then .error s!"PSYNC offset {off} beyond start+sent+1 = {a.st.sourceOffset + a.hi + 1}"
              else .ok st1
          | _ => .ok a.st
        else .ok (topUp a).st
      match st? with
      | .error e => .error e
      | .ok st =>
        -- the ACK goroutine of the old connection may live on; an ACK of it that is read from now on can
        -- still have been computed at any time after its previous one: fork from the state BEFORE the top-up
        -- (its counter is the shared one, so it keeps growing with what later connections receive: `streaming`)
        let fork := (a.st.conn, { a.st with streaming := true })
        let st := step K st .connDrop
        let rep : Reply := if p == .e then .err else .cont
        let want := emitted K st (.reconnect rep)
        if want == [.psync c (ridBytes rid) off] then
          let st := step K st (.reconnect rep)
          .ok { a with st := st, hi := st.received, forks := fork :: a.forks, pending := none }
        else
          .error s!"PSYNC {rid} {off} on connection {c}; the model sends [{" ".intercalate (want.map showOut)}]"
    | some _, none => .error s!"unexpected {tok}"
    | none, _ => .error s!"bad token {tok}"
  | _ => .error s!"harness reported {tok}"

def accept (c : Case) (impl : List String) : Except String Unit := do
  match impl with
  | "T" :: toks =>
    let body := toks.takeWhile fun t => !t.startsWith "pipe="
    let fin := toks.dropWhile fun t => !t.startsWith "pipe="
    let s0 := startState c
    -- the handshake of sendPSyncCmd
    let hs := s0.out.map showOut
    if body.take hs.length != hs then
      throw s!"handshake: model sends {hs}, trace starts {body.take hs.length}"
    let script := c.steps.filter fun | .pause _ => false | _ => true
    let a0 : Acc := { st := s0, hi := 0, forks := [], grace := [], pending := none, real := false, script := script }
    let a ← (body.drop hs.length).foldlM (fun a t => a.tok t) a0
    if a.pending.isSome then throw "connection dropped but neither PSYNC nor abort followed"
    if !a.script.isEmpty then throw "trace ends before the script"
    let a := if a.st.dead then a else topUp a
    if fin != (tail c a.st).splitOn " " then
      let got := fin.map fun t => if t.length > 80 then (t.take 80).toString ++ "…" else t
      let want := ((tail c a.st).splitOn " ").map fun t => if t.length > 80 then (t.take 80).toString ++ "…" else t
      throw s!"pipe/rdb/abort: got {got}, model {want} ({a.st.pipe.length} stream bytes)"
  | _ => throw s!"harness result {impl.take 3}"

def handle (line : String) : String :=
  match line.splitOn " ;; " with
  | [cs] =>
    match parseCase (cs.splitOn " ") with
    | some c => canonical c
    | none => "badcase"
  | [cs, impl] =>
    match (cs.splitOn " ") with
    | "accept" :: f =>
      match parseCase f with
      | some c =>
        match accept c (impl.splitOn " ") with
        | .ok _ => "ok"
        | .error e => "bad: " ++ e
      | none => "badcase"
    | _ => "badcase"
  | _ => "badcase"

end RSVerif.Drive.C08
