import RSVerif.Basic
/- C09: line-protocol driver (stub) -/
namespace RSVerif.Drive.C09
def handle (_line : String) : String := "unimplemented"
end RSVerif.Drive.C09
