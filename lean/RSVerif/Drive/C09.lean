import RSVerif.Model.Pipe
/-
C09 — line protocol: what the pipe model predicts for one *serialised schedule* of go/harness/c09.go.

case:    <kind> <req> <salt> <op> <op> …          kind ∈ mem-raw | file-raw | mem-api | file-api
           raw: ring of exactly <req> bytes (hook constructor); api: NewSize(req) / NewFilePipe(req, f)
ops:     w:<k>   writer goroutine: Write(k pattern bytes)         (w=busy if a Write is still in flight)
         r:<k>   reader goroutine: "read up to k": Read calls until k bytes arrived or the pipe is
                 empty once the writer has come to rest; k = 0: one zero-length Read
         rc:<e> / wc:<e>   Close() (e = 0) or CloseWithError(custom e), from the scheduling thread
         b / a   Buffered() / Available()
         (every case ends with the implicit ops rc:0 wc:0, after which nothing may still be in flight)
result:  one token per op — the op's own outcome (`park` = the goroutine sits in cond.Wait), followed by
         `+R=…` / `+W=…` for an in-flight Read/Write that this op caused to complete.
Only what the property fixes is printed: byte counts and bytes of a *completed* compound read, error
classes, blocked/woken, counters.  The sizes of the individual partial reads (the code's own rule,
`min k buffered (size - rpos % size)`, comma-separated) and the file length follow a `~` and are a
diagnostic: vlib/props_c09.py strips them before comparing (DESIGN §2.4, two levels of correspondence).

The threads are the model's `Sys.stepReader` / `Sys.stepWriter` (the `Read`/`Write` loops over the atomic
steps the theorems are about); this file only schedules them: one thread runs until it returns or parks.
-/
namespace RSVerif.Drive.C09
open RSVerif RSVerif.Pipe

def errStr : Option Err → String
  | none => "ok"
  | some .eof => "eof"
  | some .closed => "closed"
  | some (.custom n) => s!"c{n}"

/-- FNV-1a, 64 bit -/
def fnv (bs : Bytes) : UInt64 :=
  bs.foldl (fun h b => (h ^^^ b.toUInt64) * 1099511628211) 14695981039346656037

def digest (bs : Bytes) : String :=
  if bs.length ≤ 16 then hexOrDash bs else "#" ++ toHex (le64 (fnv bs)).reverse

/-- byte j of the data of op number i -/
def pat (salt i j : Nat) : UInt8 :=
  let x := salt * 7919 + i * 104729 + j
  UInt8.ofNat ((x * 40503 + x / 251) % 256)

def patBytes (salt i k : Nat) : Bytes := (List.range k).map (pat salt i)

/-- the harness's reader goroutine: a compound "read up to k" -/
structure RJob where
  k : Nat
  got : Bytes
  sizes : List Nat        -- sizes of the individual Read results, newest first (diagnostic)
  between : Bool          -- a Read returned; wait for the writer to come to rest, then look at Buffered

structure H where
  sys : Sys
  rjob : Option RJob
  wjob : Bool
  rdone : Option String
  wdone : Option String

def fmtR (got : Bytes) (err : String) (sizes : List Nat) : String :=
  s!"{got.length}:{digest got}:{err}~{",".intercalate (sizes.reverse.map toString)}"

/-- run the threads until every one of them has returned or is parked -/
def settle : Nat → H → H
  | 0, h => h
  | fuel + 1, h =>
    let writerTurn (h : H) : Option H :=
      if h.wjob && h.sys.writerRunnable then
        match h.sys.stepWriter with
        | (sys', none) => some { h with sys := sys' }
        | (sys', some ret) =>
          some { h with sys := sys', wjob := false, wdone := some s!"{ret.n}:{errStr ret.err}" }
      else none
    match h.rjob with
    | none =>
      match writerTurn h with
      | some h' => settle fuel h'
      | none => h
    | some j =>
      if !j.between && h.sys.readerRunnable then
        match h.sys.stepReader with
        | (sys', none) => settle fuel { h with sys := sys' }
        | (sys', some ret) =>
          let got := j.got ++ ret.data
          let sizes := ret.data.length :: j.sizes
          if ret.err.isSome then
            settle fuel { h with sys := sys', rjob := none, rdone := some (fmtR got (errStr ret.err) sizes) }
          else if ret.data.isEmpty then
            let res := fmtR got (if j.k = 0 then "ok" else "zero") sizes
            settle fuel { h with sys := sys', rjob := none, rdone := some res }
          else if got.length ≥ j.k then
            settle fuel { h with sys := sys', rjob := none, rdone := some (fmtR got "ok" sizes) }
          else
            settle fuel { h with sys := sys', rjob := some { j with got := got, sizes := sizes, between := true } }
      else
        match writerTurn h with
        | some h' => settle fuel h'
        | none =>
          if j.between then
            if h.sys.p.buffered.1 = 0 then
              settle fuel { h with rjob := none, rdone := some (fmtR j.got "ok" j.sizes) }
            else
              let sys1 : Sys := { h.sys with rt := .reading (j.k - j.got.length) }
              settle fuel { h with sys := sys1, rjob := some { j with between := false } }
          else h

def completions (h : H) (own : String) : String :=
  let r := if own != "r" then match h.rdone with | some s => "+R=" ++ s | none => "" else ""
  let w := if own != "w" then match h.wdone with | some s => "+W=" ++ s | none => "" else ""
  r ++ w

def fuelFor (h : H) (k : Nat) : Nat := 8 * (k + h.sys.p.store.size) + 64 +
  (match h.sys.wt with | .writing rest _ => 8 * rest.length | .idle => 0) +
  (match h.rjob with | some j => 8 * j.k | none => 0)

def parseErr (e : Nat) : Option Err := if e = 0 then none else some (.custom e)

/-- one op of the schedule: new state and result token -/
def exec (salt : Nat) (isFile : Bool) (h : H) (idx : Nat) (op : String) : H × String :=
  let h := { h with rdone := none, wdone := none }
  match op.splitOn ":" with
  | ["w", ks] =>
    match ks.toNat? with
    | none => (h, "badop")
    | some k =>
      if h.wjob then (h, "w=busy") else
      let sys1 : Sys := { h.sys with wt := .writing (patBytes salt idx k) 0 }
      let h1 := settle (fuelFor h k) { h with sys := sys1, wjob := true }
      let own := match h1.wdone with | some s => "w=" ++ s | none => "w=park"
      (h1, own ++ completions h1 "w")
  | ["r", ks] =>
    match ks.toNat? with
    | none => (h, "badop")
    | some k =>
      if h.rjob.isSome then (h, "r=busy") else
      let job : RJob := { k := k, got := [], sizes := [], between := false }
      let sys1 : Sys := { h.sys with rt := .reading k }
      let h1 := settle (fuelFor h k) { h with sys := sys1, rjob := some job }
      let own := match h1.rdone with | some s => "r=" ++ s | none => "r=park"
      (h1, own ++ completions h1 "r")
  | ["rc", es] =>
    match es.toNat? with
    | none => (h, "badop")
    | some e =>
      let h1 := settle (fuelFor h 0) { h with sys := { h.sys with p := h.sys.p.rclose (parseErr e) } }
      (h1, "rc=ok" ++ completions h1 "")
  | ["wc", es] =>
    match es.toNat? with
    | none => (h, "badop")
    | some e =>
      let h1 := settle (fuelFor h 0) { h with sys := { h.sys with p := h.sys.p.wclose (parseErr e) } }
      (h1, "wc=ok" ++ completions h1 "")
  | ["b"] =>
    let (n, err) := h.sys.p.buffered
    (h, s!"b={n}:{errStr err}" ++ (if isFile then s!"~fl{h.sys.p.store.mem.length}" else ""))
  | ["a"] =>
    let (n, err) := h.sys.p.available
    (h, s!"a={n}:{errStr err}")
  | _ => (h, "badop")

def runOps (salt : Nat) (isFile : Bool) : H → Nat → List String → List String → List String
  | h, _, [], acc => (if h.rjob.isSome || h.wjob then "leak" :: acc else acc).reverse
  | h, idx, op :: rest, acc =>
    let (h', tok) := exec salt isFile h idx op
    runOps salt isFile h' (idx + 1) rest (tok :: acc)

/-- `multi-<kind>`: several pipes in one case, each with its own state; an op touches only the pipe it names -/
def runMulti (mk : Option (Pipe × Bool)) (salt : Nat) (ops : List String) : String :=
  let fresh (p : Pipe) : H := { sys := { p := p, rt := .idle, wt := .idle }, rjob := none, wjob := false, rdone := none, wdone := none }
  let step (st : List (Nat × H × Bool) × Nat × List String) (id : Nat) (op : String) : List (Nat × H × Bool) × Nat × List String :=
    let (pipes, idx, acc) := st
    match pipes.find? (·.1 == id) with
    | none => (pipes, idx + 1, "nopipe" :: acc)
    | some (_, h, isFile) =>
      let (h', tok) := exec (salt + 17 * id) isFile h idx op
      (pipes.map (fun e => if e.1 == id then (id, h', isFile) else e), idx + 1, tok :: acc)
  let st := ops.foldl (fun (st : List (Nat × H × Bool) × Nat × List String) t =>
    match t.splitOn "." with
    | [ids, op] =>
      match ids.toNat? with
      | none => (st.1, st.2.1 + 1, "badop" :: st.2.2)
      | some id =>
        if op == "n" then
          match mk with
          | some (p, isFile) => (st.1 ++ [(id, fresh p, isFile)], st.2.1 + 1, "new" :: st.2.2)
          | none => (st.1, st.2.1 + 1, "panic" :: st.2.2)
        else step st id op
    | _ => (st.1, st.2.1 + 1, "badop" :: st.2.2)) ([], 0, [])
  let ids := st.1.map (·.1)
  let st := ids.foldl (fun st id => step (step st id "rc:0") id "wc:0") st
  let leak := st.1.any fun (_, h, _) => h.rjob.isSome || h.wjob
  " ".intercalate ((if leak then "leak" :: st.2.2 else st.2.2).reverse)

def handle (line : String) : String :=
  match (line.splitOn " ").filter (· ≠ "") with
  | kind :: reqs :: salts :: ops =>
    if kind.startsWith "multi-" then
      match reqs.toNat?, salts.toNat? with
      | some req, some salt =>
        let mk : Option (Pipe × Bool) :=
          match (kind.drop 6).toString with
          | "mem-raw" => if req = 0 then none else some (Pipe.init .mem req, false)
          | "file-raw" => if req = 0 then none else some (Pipe.init .file req, true)
          | "mem-api" => some (newSize req, false)
          | _ => none
        runMulti mk salt ops
      | _, _ => "badcase"
    else
    match reqs.toNat?, salts.toNat? with
    | some req, some salt =>
      let mk : Option (Pipe × Bool) :=
        match kind with
        | "mem-raw" => if req = 0 then none else some (Pipe.init .mem req, false)
        | "file-raw" => if req = 0 then none else some (Pipe.init .file req, true)
        | "mem-api" => some (newSize req, false)
        | "file-api" => some (newFilePipe req, true)
        | k =>
          -- `mem-at@<rpos>@<n>` / `file-at@<rpos>@<n>`: the raw ring at read position rpos holding n unread pattern bytes
          match k.splitOn "@" with
          | [b, rp, ns] =>
            match rp.toNat?, ns.toNat? with
            | some rpos, some n =>
              if req = 0 ∨ n = 0 ∨ n > req then none else
              let be : Option Backend := if b == "mem-at" then some .mem else if b == "file-at" then some .file else none
              be.map fun be =>
                let p0 := Pipe.init be req
                -- ring offset `off` holds unread byte number j = (off - rpos) mod req, if j < n
                let img := (List.range req).map fun off =>
                  let j := (off + req - rpos % req) % req
                  if j < n then pat salt 999983 j else 0
                ({ p0 with store := { p0.store with rpos := rpos, wpos := rpos + n, mem := img } }, be == .file)
            | _, _ => none
          | _ => none
      match mk with
      | none => "panic"
      | some (p, isFile) =>
        let h : H := { sys := { p := p, rt := .idle, wt := .idle }, rjob := none, wjob := false,
                       rdone := none, wdone := none }
        " ".intercalate (runOps salt isFile h 0 (ops ++ ["rc:0", "wc:0"]) [])
    | _, _ => "badcase"
  | _ => "badcase"

end RSVerif.Drive.C09
