import RSVerif.Model.Checkpoint
import RSVerif.Spec.Checkpoint
/-
line protocol for C14: what the proved model (repaired matching) predicts for each case of go/harness/c14.go

  ks <texthex>                                  ParseKeyspace alone
  fetch <addrhex> <hash>                        fetchCheckpoint on one HGETALL reply (in reply order)
  load <addrhex> <kshex> <wf> <state> <failat>  LoadCheckpoint against a target state; <kshex> is the INFO reply served
  writer <addrhex> <runidhex> <state> <batches> state after the real sender's groups, then LoadCheckpoint

  <hash>  = "-" | f=v,f=v,…          (hex, "-" = empty string)
  <state> = "-" | db:others:<hash>/db:others:<hash>/…

Go's map iteration order is arbitrary: a `load` line lists every outcome the model allows (one per choice of the
db visited first among equal offsets), separated by " || "; with a unique maximum there is exactly one.
-/
namespace RSVerif.Drive.C14
open RSVerif RSVerif.Checkpoint

def parsePair (s : String) : Option (Bytes × Bytes) :=
  match s.splitOn "=" with
  | [f, v] => do pure ((← ofHex f), (← ofHex v))
  | _ => none

def parseHash (s : String) : Option Hash :=
  if s == "-" then some [] else (s.splitOn ",").mapM parsePair

def parseDb (s : String) : Option (Int × Db) :=
  match s.splitOn ":" with
  | [d, o, h] => do pure ((← d.toInt?), ⟨(← parseHash h), (← o.toNat?)⟩)
  | _ => none

def parseState (s : String) : Option State :=
  if s == "-" then some [] else (s.splitOn "/").mapM parseDb

def showHash (h : Hash) : String :=
  if h.isEmpty then "-" else ",".intercalate (h.map fun p => hexOrDash p.1 ++ "=" ++ hexOrDash p.2)

/-- dbs by index, fields by name (the order of a sender's hsets is not an observable) -/
def canon (st : State) : State :=
  (st.map fun p => (p.1, { p.2 with ckpt := p.2.ckpt.mergeSort fun x y => hexOrDash x.1 ≤ hexOrDash y.1 })).mergeSort
    fun x y => x.1 ≤ y.1

def showState (st : State) : String :=
  if st.isEmpty then "-" else "/".intercalate (st.map fun p => s!"{p.1}:{p.2.others}:{showHash p.2.ckpt}")

def showRet : Ret → String
  | .ok r o d => s!"ok:{hexOrDash r}:{o}:{d}"
  | .err => "err"
  | .panic => "panic"

def showOutcome (r : Ret × State) : String := s!"ret={showRet r.1} st={showState r.2}"

def rotations (l : List Int) : List (List Int) :=
  if l.isEmpty then [[]] else (List.range l.length).map fun i => l.drop i ++ l.take i

/-- every outcome of the model over the rotations of the key list (covers every "first among equals") -/
def outcomes (addr ks : Bytes) (st : State) : List String :=
  match parseKeyspace ks with
  | .err => [showOutcome (.err, st)]
  | .panic => [showOutcome (.panic, st)]
  | .ok dbs => ((rotations dbs).map fun o => showOutcome (loadFrom exactMatch addr st o o)).eraseDups

/-- a lower bound of the number of commands of the scan phase: `info`, then at least `select` + one read per db
    (the code sends `select`, `exists` and, if the key exists, `hgetall`) -/
def scanCommands (_st : State) (dbs : List Int) : Nat := 1 + 2 * dbs.length

def loadLine (addr ks : Bytes) (wf : Bool) (st : State) (failAt : Nat) : String :=
  if wf && infoKeyspace st != ks then "ksdrift" else
  if failAt == 0 then " || ".intercalate (outcomes addr ks st) else
  if failAt == 1 then showOutcome (.err, st) else
  match parseKeyspace ks with
  | .err => showOutcome (.err, st)
  | .panic => showOutcome (.panic, st)
  | .ok dbs => if failAt ≤ scanCommands st dbs then showOutcome (.err, st) else "unsupported"

def subsetsOfSize : Nat → List Int → List (List Int)
  | 0, _ => [[]]
  | _ + 1, [] => []
  | k + 1, x :: xs => (subsetsOfSize k xs).map (x :: ·) ++ subsetsOfSize (k + 1) xs

/-- the target refuses the k-th command pair of the clearing phase (`select` or `hdel`): `ClearCheckpoint` stops there, the
    load still succeeds. The dbs are visited in map order, so any k-1 of the stale dbs may have been cleared before. -/
def loadClearFail (addr ks : Bytes) (st : State) (k : Nat) : String :=
  match parseKeyspace ks with
  | .err => showOutcome (.err, st)
  | .panic => showOutcome (.panic, st)
  | .ok dbs =>
    let outs := (rotations dbs).flatMap fun o =>
      match loadFrom exactMatch addr st o o with
      | (.ok r off d, full) =>
        let stale := dbs.filter (· != d)
        if stale.length < k then [showOutcome (.ok r off d, full)]
        else (subsetsOfSize (k - 1) stale).map fun sub => showOutcome (.ok r off d, clearAll addr d sub st)
      | other => [showOutcome other]
    " || ".intercalate outs.eraseDups

def othersOf (st : State) (d : Int) : Nat :=
  match st.find? (fun p => p.1 == d) with
  | some p => p.2.others
  | none => 0

/-- a sender group `<db>:<offset>:<n data commands>` -/
def parseGroup (s : String) : Option (Int × Int × Nat) :=
  match s.splitOn ":" with
  | [d, o, n] => do pure ((← d.toInt?), (← o.toInt?), (← n.toNat?))
  | _ => none

/-- the session of `Spec/Checkpoint` (`sessStep`): per group, its `n` fresh data keys (a foreign `data` event)
    and then the group's checkpoint write; the session stamps run id + version the first time it meets a db -/
def runGroups (addr runid : Bytes) (gs : List (Int × Int × Nat)) (st : State) : Sess :=
  gs.foldl (fun s g =>
    let s1 := sessStep addr runid s (.other (.data g.1 (othersOf s.st g.1 + g.2.2)))
    sessStep addr runid s1 (.group ⟨g.1, g.2.1⟩)) ⟨st, [], none⟩

def handle (line : String) : String :=
  match line.splitOn " " with
  | ["ks", h] =>
    match ofHex h with
    | some t =>
      match parseKeyspace t with
      | .ok dbs => "ok:" ++ ",".intercalate ((dbs.mergeSort (· ≤ ·)).map toString)
      | .err => "err"
      | .panic => "panic"
    | none => "badcase"
  | ["fetch", a, h] =>
    match ofHex a, parseHash h with
    | some addr, some hash =>
      match fetchCheckpoint exactMatch addr hash with
      | some f => s!"ok:{hexOrDash f.runid}:{f.offset}:{f.version}"
      | none => "err"
    | _, _ => "badcase"
  | ["load", a, k, wf, s, fa] =>
    if fa.startsWith "cs" || fa.startsWith "ch" then
      match ofHex a, ofHex k, parseState s, (fa.drop 2).toString.toNat? with
      | some addr, some ks, some st, some n =>
        if wf == "1" && infoKeyspace st != ks then "ksdrift" else loadClearFail addr ks st n
      | _, _, _, _ => "badcase"
    else
    match ofHex a, ofHex k, parseState s, fa.toNat? with
    | some addr, some ks, some st, some failAt => loadLine addr ks (wf == "1") st failAt
    | _, _, _, _ => "badcase"
  | ["writer", a, r, s, bs] =>
    match ofHex a, ofHex r, parseState s with
    | some addr, some runid, some st =>
      match (bs.splitOn ",").mapM parseGroup with
      | some groups =>
        let s := runGroups addr runid groups st
        -- the property's prediction (writer_reader_agree_session): the loader returns what the last group stored
        match s.last with
        | some g => s!"sent={showState (canon s.st)} ret={showRet (.ok runid g.offset g.db)}"
        | none => "badcase"
      | none => "badcase"
    | _, _, _ => "badcase"
  | _ => "badcase"

end RSVerif.Drive.C14
