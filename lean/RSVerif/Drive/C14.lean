import RSVerif.Basic
/- C14: line-protocol driver (stub) -/
namespace RSVerif.Drive.C14
def handle (_line : String) : String := "unimplemented"
end RSVerif.Drive.C14
