import RSVerif.Basic
/- C10: line-protocol driver (stub) -/
namespace RSVerif.Drive.C10
def handle (_line : String) : String := "unimplemented"
end RSVerif.Drive.C10
