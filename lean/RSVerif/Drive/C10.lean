import RSVerif.Model.Resp
/-
Line protocol for C10: what the specification / the proved model predicts for each case of go/harness/c10.go.
Trees in Polish notation (see the header of c10.go).  For well-formed trees the `enc` line is printed from the
*specification* (`Spec.Resp.enc`, and the tree itself as the decode result — `Properties.C10.roundtrip`), not from
the table-driven encoder model, so a wrong table bound shows even if model and code agree with each other.
-/
namespace RSVerif.Drive.C10
open RSVerif RSVerif.Spec.Resp RSVerif.Resp

mutual
def render : Resp → List String
  | .str b => ["S" ++ hexOrDash b]
  | .err b => ["E" ++ hexOrDash b]
  | .int i => ["I" ++ toString i]
  | .bulk none => ["Bn"]
  | .bulk (some b) => ["B" ++ hexOrDash b]
  | .arr none => ["An"]
  | .arr (some l) => ("A" ++ toString l.length) :: renderL l
def renderL : List Resp → List String
  | [] => []
  | x :: xs => render x ++ renderL xs
end

def showTree (v : Resp) : String := ",".intercalate (render v)

/-- `decbig`: pieces joined by `+`; `h<hex>` literal bytes, `r<n>x<a>` n bytes, the i-th `(i*a + i/256) mod 256` -/
def expandPiece (p : String) : Option Bytes :=
  match p.toList with
  | 'h' :: h => ofHex (String.ofList h)
  | 'r' :: rest =>
    match (String.ofList rest).splitOn "x" with
    | [n, a] => do
      let n ← n.toNat?
      let a ← a.toNat?
      pure ((List.range n).map fun i => UInt8.ofNat ((i * a + i / 256) % 256))
    | _ => none
  | 'm' :: rest =>
    match (String.ofList rest).splitOn "x" with
    | [n, h] => do
      let n ← n.toNat?
      let chunk ← ofHex h
      pure ((List.replicate n chunk).flatten)
    | _ => none
  | _ => none

def expandSpec (s : String) : Option Bytes :=
  (s.splitOn "+").foldlM (fun acc p => (expandPiece p).map (acc ++ ·)) []

def fnv1a (v : Bytes) : UInt64 :=
  v.foldl (fun h b => (h ^^^ b.toUInt64) * 0x100000001b3) 0xcbf29ce484222325

def bigRepr (tag : String) (b : Bytes) : String :=
  if b.length ≤ 64 then tag ++ hexOrDash b else s!"{tag}#{b.length}:{toHex (le64 (fnv1a b)).reverse}"

mutual
def renderBig : Resp → List String
  | .str b => [bigRepr "S" b]
  | .err b => [bigRepr "E" b]
  | .int i => ["I" ++ toString i]
  | .bulk none => ["Bn"]
  | .bulk (some b) => [bigRepr "B" b]
  | .arr none => ["An"]
  | .arr (some l) => ("A" ++ toString l.length) :: renderBigL l
def renderBigL : List Resp → List String
  | [] => []
  | x :: xs => renderBig x ++ renderBigL xs
end

def parseSeq (g : List String → Option (Resp × List String)) : Nat → List String → Option (List Resp × List String)
  | 0, toks => some ([], toks)
  | n + 1, toks =>
    match g toks with
    | none => none
    | some (x, toks) =>
      match parseSeq g n toks with
      | none => none
      | some (xs, toks) => some (x :: xs, toks)

def parseTree : Nat → List String → Option (Resp × List String)
  | 0, _ => none
  | _ + 1, [] => none
  | f + 1, tok :: rest =>
    match tok.toList with
    | 'S' :: h => (ofHex (String.ofList h)).map fun b => (Resp.str b, rest)
    | 'E' :: h => (ofHex (String.ofList h)).map fun b => (Resp.err b, rest)
    | 'I' :: d => (String.ofList d).toInt?.map fun i => (Resp.int i, rest)
    | ['B', 'n'] => some (.bulk none, rest)
    | 'B' :: h => (ofHex (String.ofList h)).map fun b => (Resp.bulk (some b), rest)
    | ['A', 'n'] => some (.arr none, rest)
    | 'A' :: d =>
      match (String.ofList d).toNat? with
      | none => none
      | some n =>
        match parseSeq (parseTree f) n rest with
        | none => none
        | some (xs, rest) => some (.arr (some xs), rest)
    | _ => none

def readTree (s : String) : Option Resp :=
  let toks := s.splitOn ","
  match parseTree (toks.length + 1) toks with
  | some (v, []) => some v
  | _ => none

def errName : Err → String
  | .eof => "eof" | .crlf => "crlf" | .badInt => "badint" | .bytesLen => "byteslen"
  | .arrayLen => "arraylen" | .badType => "badtype" | .lenOverflow => "alloc" | .fuel => "fuel"

def bulkTok : Option Bytes → String
  | none => "Bn"
  | some b => "B" ++ hexOrDash b

def readBulkTok (s : String) : Option (Option Bytes) :=
  match s.toList with
  | ['B', 'n'] => some none
  | 'B' :: h => (ofHex (String.ofList h)).map some
  | _ => none

def readBulkToks : List String → Option (List (Option Bytes))
  | [] => some []
  | t :: ts =>
    match readBulkTok t, readBulkToks ts with
    | some b, some bs => some (b :: bs)
    | _, _ => none

def showArgs (r : Except ArgErr (Bytes × List (Option Bytes))) : String :=
  match r with
  | .error _ => "!err"
  | .ok (cmd, args) =>
    let a := ",".intercalate (args.map bulkTok)
    "ok:" ++ hexOrDash cmd ++ ":" ++ (if a.isEmpty then "-" else a)

def handle (line : String) : String :=
  match line.splitOn " " with
  | ["enc", t] =>
    match readTree t with
    | none => "badcase"
    | some v =>
      let bytes := enc v
      if WF v then hexOrDash bytes ++ " " ++ showTree v
      else
        match decode bytes 0 with
        | .ok (w, _, _) => hexOrDash bytes ++ " " ++ showTree w
        | .error e => hexOrDash bytes ++ " !" ++ errName e
  | ["dec", h, _seed, _size] =>
    match ofHex h with
    | none => "badcase"
    | some inp =>
      let (vs, e) := decodeStream true (inp.length + 1) inp 0
      let items := vs.map fun (v, off, unread) => showTree v ++ "@" ++ toString off ++ "/" ++ toString unread
      ";".intercalate (items ++ ["!" ++ errName e])
  | ["decbig", spec, _seed, _size] =>
    match expandSpec spec with
    | none => "badcase"
    | some inp =>
      let (vs, e) := decodeStream true 8 inp 0
      let items := vs.map fun (v, off, unread) => ",".intercalate (renderBig v) ++ "@" ++ toString off ++ "/" ++ toString unread
      ";".intercalate (items ++ ["!" ++ errName e])
  | ["args", t] =>
    match readTree t with
    | none => "badcase"
    | some v => showArgs (parseArgs v)
  | ["chg", c, a] =>
    match readBulkTok c, (if a == "-" then some [] else readBulkToks (a.splitOn ",")) with
    | some cmd, some args =>
      let r := changeArgsToResp cmd args
      showTree r ++ " " ++ showArgs (parseArgs r)
    | _, _ => "badcase"
  | ["itos", d] =>
    match d.toInt? with
    | none => "badcase"
    | some i => hexOrDash (fmtInt i)
  | ["pint", h] =>
    match ofHex h with
    | none => "badcase"
    | some s =>
      match parseInt s with
      | none => "!badint"
      | some i => "ok:" ++ toString i
  | _ => "badcase"

end RSVerif.Drive.C10
