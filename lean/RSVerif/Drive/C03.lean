import RSVerif.Basic
/- C03: line-protocol driver (stub) -/
namespace RSVerif.Drive.C03
def handle (_line : String) : String := "unimplemented"
end RSVerif.Drive.C03
