import RSVerif.Model.Sender
import RSVerif.Model.IncrParse
import RSVerif.Spec.IncrSync
import RSVerif.Spec.MiniRedis
/-
C03 (and, through `Drive.C04`, C04): line protocol of go/harness/c0304_common.go.

  parse/send/pipe case line         -> the prediction of the deterministic model (canonical schedule: no
                                       optional tick, one final idle tick); for `parse` followed by the
                                       routing oracle ` #route=ok|bad`
  judge<TAB>case<TAB>impl-line      -> `ok` or `reject:<why>`: is the recorded Send/Flush trace a run of the
                                       nondeterministic automaton, and does the property's oracle hold on it
-/
namespace RSVerif.Drive.C03
open RSVerif RSVerif.Sync RSVerif.Sender RSVerif.IncrParse RSVerif.Spec.IncrSync RSVerif.Spec.MiniRedis
open RSVerif.Generated

/-! ### syntax -/

def bytesToString (b : Bytes) : String := String.ofList (b.map (fun x => Char.ofNat x.toNat))
def stringToBytes (s : String) : Bytes := s.toUTF8.toList

def hexArg (s : String) : Option Bytes := ofHex s

def parseArgsL (s : String) : Option (List Bytes) :=
  if s == "" then some [] else (s.splitOn ",").mapM hexArg

def fmtArgsL (a : List Bytes) : String := ",".intercalate (a.map hexOrDash)

def kvLookup (s : String) (k : String) : Option String :=
  ((s.splitOn ",").filterMap (fun p => match p.splitOn "=" with
    | [a, b] => if a == k then some b else none
    | _ => none)).head?

def plusListS (s : String) : List String := if s == "-" || s == "" then [] else s.splitOn "+"

structure PCfgT where
  tdb : Int
  fw : List Bytes
  fb : List Bytes
  lua : Bool
  kw : List Bytes
  kb : List Bytes

def parsePcfg (s : String) : Option PCfgT := do
  let tdb ← (← kvLookup s "tdb").toInt?
  let fw := (plusListS (← kvLookup s "fw")).map stringToBytes
  let fb := (plusListS (← kvLookup s "fb")).map stringToBytes
  let lua := (← kvLookup s "lua") == "1"
  let kw ← (plusListS (← kvLookup s "kw")).mapM ofHex
  let kb ← (plusListS (← kvLookup s "kb")).mapM ofHex
  pure { tdb, fw, fb, lua, kw, kb }

/-- `filter.FilterDB` -/
def filterDBInst (fw fb : List Bytes) (n : Int) : Bool :=
  let s := fmtInt n
  if !fb.isEmpty then fb.contains s
  else if !fw.isEmpty then !(fw.contains s)
  else false

/-- `filter.FilterCommands` -/
def filterCmdInst (lua : Bool) (c : String) : Bool :=
  eqFold c "opinfo" || (lua && (eqFold c "eval" || eqFold c "script" || eqFold c "evalsha"))

/-- `filter.FilterKey` -/
def filterKeyInst (kw kb : List Bytes) (key : Bytes) : Bool :=
  if SyncConsts.checkpointKeyBytes.isPrefixOf key then true
  else if !kb.isEmpty then kb.any (fun p => p.isPrefixOf key)
  else if !kw.isEmpty then !(kw.any (fun p => p.isPrefixOf key))
  else false

/-- rows `{nil, 1, 1, 1}` of `filter.RedisCommands` the generator uses under a key filter -/
def singleKeyCmds : List String := ["set", "incr", "lpush", "hset", "sadd", "rpush"]

/-- `filter.HandleFilterKeyWithCommand` restricted to single-key rows and to commands outside the table
(the instance used by the differential run; the theorems take the key filter as a parameter, it is C13's) -/
def keyFilterInst (kw kb : List Bytes) (cmd : String) (args : List Bytes) : List Bytes × Bool :=
  if kw.isEmpty && kb.isEmpty then (args, false)
  else if singleKeyCmds.contains cmd then
    match args with
    | [] => (args, false)
    | k :: rest => if filterKeyInst kw kb k then (rest, true) else (args, false)
  else (args, false)

def PCfgT.toCfg (p : PCfgT) : PCfg :=
  { targetDB := p.tdb, filterDB := filterDBInst p.fw p.fb, filterCmd := filterCmdInst p.lua,
    keyFilter := keyFilterInst p.kw p.kb, d8fix := SyncConsts.selectKeepsLastDbUnderTargetDb }

structure SCfgT where
  cfg : Cfg
  rc : RenderCfg

def parseScfg (s : String) : Option SCfgT := do
  let res := (← kvLookup s "res") == "1"
  let cnt ← (← kvLookup s "cnt").toNat?
  let size ← (← kvLookup s "size").toNat?
  let src ← ofHex (← kvLookup s "src")
  let rid ← ofHex (← kvLookup s "rid")
  pure { cfg := { resume := res, senderCount := cnt, senderSize := size },
         rc := { ckName := SyncConsts.checkpointKeyBytes, source := src, runId := rid } }

/-- RESP length of a command: `*N\r\n` then `$len\r\n<bytes>\r\n` per element -/
def respLen (name : Bytes) (args : List Bytes) : Nat :=
  let bulk (b : Bytes) : Nat := 1 + (natDec b.length).length + 2 + b.length + 2
  1 + (natDec (args.length + 1)).length + 2 + bulk name + (args.map bulk).sum

/-- decode the `cmds` field: names lower-cased as `redis.ParseArgs` does, positions accumulated -/
def parseCmds (s : String) : Option (List SrcCmd) :=
  if s == "." then some [] else
  let rec go (pos : Nat) : List String → Option (List SrcCmd)
    | [] => some []
    | t :: ts =>
      match t.splitOn "/" with
      | [nl, nm, as] => do
        let nl ← nl.toNat?
        let name ← ofHex nm
        let args ← parseArgsL as
        -- nl ≥ 10: an inline command line `name arg arg\r\n` behind nl-10 keep-alive newlines
        let inlineLen := name.length + (args.map (fun a => 1 + a.length)).sum + 2
        let pos' := if nl ≥ 10 then pos + (nl - 10) + inlineLen else pos + nl + respLen name args
        let rest ← go pos' ts
        pure ({ cmd := normName (bytesToString name), args := args, pos := pos' } :: rest)
      | _ => none
  go 0 (s.splitOn ";")

def parseItems (s : String) : Option (List Item) :=
  if s == "." then some [] else
  (s.splitOn ";").mapM (fun t =>
    match t.splitOn "/" with
    | [nm, as, off, db] => do
      let name ← ofHex nm
      let args ← parseArgsL as
      pure { cmd := bytesToString name, args := args, off := (← off.toInt?), db := (← db.toInt?) }
    | _ => none)

def fmtItem (it : Item) : String :=
  s!"{hexOrDash (stringToBytes it.cmd)}/{fmtArgsL it.args}/{it.off}/{it.db}"

def fmtItems (l : List Item) : String := if l.isEmpty then "." else ";".intercalate (l.map fmtItem)

def fmtCmd (c : Cmd) : String := s!"{hexOrDash (stringToBytes c.1)}/{fmtArgsL c.2}"

def fmtTrace (gs : List (List Cmd)) : String :=
  if gs.isEmpty then "." else "|".intercalate (gs.map (fun g => ";".intercalate (g.map fmtCmd)))

def parseTraceCmd (t : String) : Option Cmd :=
  match t.splitOn "/" with
  | [nm, as] => do
    let name ← ofHex nm
    let args ← parseArgsL as
    pure (bytesToString name, args)
  | _ => none

/-- `trace=<g>|<g>… idle=<0|1>`; an unflushed tail (`~…`) makes the trace unparsable on purpose -/
def parseTrace (s : String) : Option (List (List Cmd) × Bool) :=
  match s.splitOn " " with
  | [t, i] =>
    if !t.startsWith "trace=" || !i.startsWith "idle=" then none else
    let body := (t.drop 6).toString
    let idle := (i.drop 5).toString == "1"
    if body == "." then some ([], idle) else do
      let gs ← (body.splitOn "|").mapM (fun g => (g.splitOn ";").mapM parseTraceCmd)
      pure (gs, idle)
  | _ => none

/-! ### acceptance by the nondeterministic automaton -/

def renderGroups (rc : RenderCfg) (gs : List Group) : List (List Cmd) := gs.map (fun g => renderWire rc g.wire)

/-- Build, greedily, the event list that would explain the recorded groups: before each arrival a tick that
found the queue empty is inserted exactly when the next recorded group is the flush of the current cache (if
the arrival itself forces that flush the two explanations coincide); one such tick ends the list. -/
def explain (cfg : Cfg) (rc : RenderCfg) : S → List Item → List (List Cmd) → List Ev
  | _, [], _ => [.tick true]
  | s, it :: rest, tr =>
    let t := stepG cfg s (.tick true)
    let tickFits := !t.2.isEmpty && tr.head? == (renderGroups rc t.2).head?
    let (s1, tr1, pre) := if tickFits then (t.1, tr.drop t.2.length, [Ev.tick true]) else (s, tr, [])
    let r := stepG cfg s1 (.recv it)
    pre ++ (.recv it :: explain cfg rc r.1 rest (tr1.drop r.2.length))

/-- the recorded trace is a run of the automaton on exactly these items that ends with an empty cache -/
def accepts (cfg : Cfg) (rc : RenderCfg) (items : List Item) (tr : List (List Cmd)) : Bool :=
  let evs := explain cfg rc S.init items tr
  let r := runG cfg S.init evs
  received evs == items && renderGroups rc r.2 == tr && r.1.cache.isEmpty

/-- the canonical schedule: no optional tick, one final idle tick -/
def canonical (cfg : Cfg) (rc : RenderCfg) (items : List Item) : List (List Cmd) :=
  renderGroups rc (runG cfg S.init (items.map Ev.recv ++ [.tick true])).2

/-! ### oracles evaluated on the implementation's answer -/

def cmdOf (it : Item) : Cmd := (it.cmd, it.args)

def plainItemB (ck : Bytes) (it : Item) : Bool :=
  match classify ck (cmdOf it) with
  | .select _ | .noop | .data => true
  | _ => false

def st0 : St Log := { data := [], ckpt := [], db := 0, q := none }

def nonMarkers (items : List Item) : List Item := items.filter (fun it => !marker it)

/-- the hypotheses under which the sender theorems promise anything about the target -/
def senderHyps (ck : Bytes) (items : List Item) : Bool :=
  decide (WF items) && (nonMarkers items).all (plainItemB ck)

/-- `exactly_once_in_order` + routing at the sender level, on the recorded wire: the target (MiniRedis with
the log dataset) ends outside a transaction having executed exactly the non-marker items, each once, in
order, each in the database the plain replay of the stream selects. -/
def onceOracle (ck : Bytes) (items : List Item) (tr : List (List Cmd)) : Bool :=
  let fin := replay ck logApply st0 tr.flatten
  fin.q.isNone && fin.data == (plain ck logApply st0 ((nonMarkers items).map cmdOf)).data

/-- peel the tool's own `multi … [hset runid; hset version]; hset offset; exec` off a recorded group:
(wrapped, forwarded commands, value of the offset field) -/
def unwrapGroup (rc : RenderCfg) (g : List Cmd) : Option (Bool × List Cmd × Option Bytes) :=
  match g with
  | ("multi", []) :: rest =>
    match rest.reverse with
    | ("exec", []) :: ("hset", [k, f, v]) :: more =>
      if k == rc.ckName && f == offsetField rc then
        match more with
        | ("hset", [k2, f2, _]) :: ("hset", [k3, f3, _]) :: more2 =>
          if k2 == rc.ckName && f2 == versionField rc && k3 == rc.ckName && f3 == runIdField rc
          then some (true, more2.reverse, some v) else some (true, more.reverse, some v)
        | _ => some (true, more.reverse, some v)
      else none
    | _ => none
  | _ => some (false, g, none)

def lonePingB (chunk : List Item) : Bool :=
  match chunk with
  | [it] => it.cmd == "ping"
  | _ => false

/-- `batch_shape`/`select_only_first`/`markers_never_sent` evaluated on the recorded groups, without reference
to the automaton or its barrier table: every group is non-empty, carries the next items of the history in order,
is wrapped exactly when resume is on and it is not a lone ping, has `select` only as its first forwarded command,
no source multi/exec, and stores the offset of its LAST command. -/
def shapeOracle (cfg : Cfg) (rc : RenderCfg) : List Item → List (List Cmd) → Bool
  | rem, [] => rem.isEmpty
  | rem, g :: gs =>
    match unwrapGroup rc g with
    | none => false
    | some (wrapped, body, off) =>
      let chunk := rem.take body.length
      !body.isEmpty && chunk.map cmdOf == body &&
      wrapped == (cfg.resume && !lonePingB chunk) &&
      body.tail.all (fun c => c.1 != "select") &&
      body.all (fun c => c.1 != "multi" && c.1 != "exec") &&
      (match off with
       | some v => v == fmtInt (lastOff chunk)
       | none => true) &&
      shapeOracle cfg rc (rem.drop body.length) gs

/-- `db_routing` on the recorded wire: the data commands the target executed, with their databases, are
those the source stream intends -/
def routeOracle (ck : Bytes) (pc : PCfg) (startDb : Int) (cmds : List SrcCmd) (executed : Log) : Bool :=
  executed == (intended pc startDb false cmds).filter (fun e => classify ck e.2 == .data)

/-- precondition of `db_routing` under a fixed `target.db`: the target connection reaches that database before
any data command — the stream begins with a SELECT (what a master sends after a full sync) or the run was
resumed in `target.db` -/
def routePre (pc : PCfg) (startDb : Int) (cmds : List SrcCmd) : Bool :=
  pc.targetDB == -1 || startDb == pc.targetDB ||
  (match cmds with
   | c :: _ => eqFold c.cmd "select"
   | [] => true)

/-- deviation D8 applies to this stream: `target.db = k` and the first SELECT of a non-filtered database selects `k`
itself while the target connection is still in another database (pinned tree only) -/
def d8Hit (pc : PCfg) (startDb : Int) : List SrcCmd → Bool
  | [] => false
  | c :: cs =>
    if eqFold c.cmd "select" then
      match c.args with
      | [a] => match atoi a with
        | some n => if pc.filterDB n then d8Hit pc startDb cs
                    else !pc.d8fix && pc.targetDB != -1 && n == pc.targetDB && startDb != pc.targetDB
        | none => false
      | _ => false
    else d8Hit pc startDb cs

def parseModel (p : PCfgT) (startDb base : Int) (cmds : List SrcCmd) : List Item × Bool :=
  parseFull p.toCfg startDb base cmds

/-! ### the line handlers -/

def predictParse (pc startDb base cmds : String) : String :=
  match parsePcfg pc, startDb.toInt?, base.toInt?, parseCmds cmds with
  | some p, some sd, some b, some cs =>
    let (items, ab) := parseModel p sd b cs
    let ck := SyncConsts.checkpointKeyBytes
    -- routing oracle on what the parser emits, executed plainly (no abort, markers dropped as the sender does)
    let route :=
      if ab || !routePre p.toCfg sd cs then "na"
      else if routeOracle ck p.toCfg sd cs (plain ck logApply st0 ((nonMarkers items).map cmdOf)).data then "ok"
      else if d8Hit p.toCfg sd cs then "bad:d8" else "bad"
    s!"items={fmtItems items} abort={if ab then 1 else 0} #route={route}"
  | _, _, _, _ => "badcase"

def predictSend (sc items : String) : String :=
  match parseScfg sc, parseItems items with
  | some s, some its => s!"trace={fmtTrace (canonical s.cfg s.rc its)} idle=1"
  | _, _ => "badcase"

def predictPipe (pc sc startDb base cmds : String) : String :=
  match parsePcfg pc, parseScfg sc, startDb.toInt?, base.toInt?, parseCmds cmds with
  | some p, some s, some sd, some b, some cs =>
    let (items, ab) := parseModel p sd b cs
    if ab then "badcase-abort" else s!"trace={fmtTrace (canonical s.cfg s.rc items)} idle=1"
  | _, _, _, _, _ => "badcase"

/-- the common part of a verdict: acceptance, then the C03 oracles -/
def judgeTrace (s : SCfgT) (items : List Item) (route : Option (Log → Bool)) (impl : String)
    (routeWhy : String := "reject:route") : String :=
  match parseTrace impl with
  | none => "reject:unflushed-or-unparsable-trace"
  | some (tr, idle) =>
    if !idle then "reject:not-flushed-when-idle"
    else if !senderHyps s.rc.ckName items then
      (if accepts s.cfg s.rc items tr then "ok" else "reject:not-a-run-of-the-automaton")
    else if !onceOracle s.rc.ckName items tr then "reject:exactly-once"
    else if !shapeOracle s.cfg s.rc (nonMarkers items) tr then "reject:batch-shape"
    else
      let r := match route with
        | some f => if f (replay s.rc.ckName logApply st0 tr.flatten).data then "ok" else routeWhy
        | none => "ok"
      if r != "ok" then r
      else if !accepts s.cfg s.rc items tr then "reject:not-a-run-of-the-automaton" else "ok"

def judge (case impl : String) : String :=
  match case.splitOn " " with
  | ["send", sc, items, _gaps] =>
    match parseScfg sc, parseItems items with
    | some s, some its => judgeTrace s its none impl
    | _, _ => "badcase"
  | ["pipe", pc, sc, startDb, base, cmds, _gaps] =>
    match parsePcfg pc, parseScfg sc, startDb.toInt?, base.toInt?, parseCmds cmds with
    | some p, some s, some sd, some b, some cs =>
      let (items, ab) := parseModel p sd b cs
      if ab then "badcase-abort"
      else judgeTrace s items
        (if routePre p.toCfg sd cs then some (routeOracle s.rc.ckName p.toCfg sd cs) else none) impl
        (if d8Hit p.toCfg sd cs then "reject:route:d8" else "reject:route")
    | _, _, _, _, _ => "badcase"
  | _ => "badcase"

def handle (line : String) : String :=
  match line.splitOn "\t" with
  | ["judge", case, impl] => judge case impl
  | _ =>
    match line.splitOn " " with
    | ["parse", pc, startDb, base, cmds] => predictParse pc startDb base cmds
    | ["send", sc, items, _gaps] => predictSend sc items
    | ["pipe", pc, sc, startDb, base, cmds, _gaps] => predictPipe pc sc startDb base cmds
    | _ => "badcase"

end RSVerif.Drive.C03
