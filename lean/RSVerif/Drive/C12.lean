import RSVerif.Model.RdbDecode
import RSVerif.Model.RdbEncode
import RSVerif.Model.FloatText
import RSVerif.Spec.Compact
/-
Line protocol for C12 (go/harness/c12.go). The line printed is what the PROPERTY predicts:
  enc  <value>                 bytes of the model encoder (both real encoders must produce them) and the value the
                               round trip must return (= the input with NaN scores canonicalised)
  cmp  <type> <wrap> <tree>    payload digest of the SPEC serializer (cross-checks the harness' own serializer) and
                               `logicalOf tree`, the value Redis would materialise
  ql   <lenform> <nodes>       the same for quicklists
  dec  <payload hex>           the decode MODEL on arbitrary bytes (ties the model to the code off the spec's image)
  file <objs>                  model file bytes, the objects that must come back, footer ok
  ff <bits> / pf <text hex>    the float-text stand-in against strconv
Whenever the executable model disagrees with the spec-level prediction the line gets a ` MODEL=…` suffix, which then
differs from the implementation's line: a theorem of Properties/C12 would be contradicted by a concrete input.
-/
namespace RSVerif.Drive.C12
open RSVerif RSVerif.Rdb RSVerif.RdbDecode RSVerif.RdbEncode RSVerif.Spec.Compact

def pf := FloatText.parseFloat
def fmtF := FloatText.fmtG17

def hex16 (x : UInt64) : String := toHex (le64 x).reverse

/-- FNV-1a (a CRC would be 0 on every payload that carries its own CRC trailer) -/
def fnv (v : Bytes) : UInt64 := v.foldl (fun h b => (h ^^^ b.toUInt64) * 0x100000001b3) 0xcbf29ce484222325

def digest (v : Bytes) : String :=
  if v.length ≤ 48 then hexOrDash v else s!"{v.length}:{hex16 (fnv v)}"

/-- shorten long renderings the same way on both sides -/
def clip (s : String) : String :=
  if s.length ≤ 400 then s else s!"#{s.length}:{hex16 (fnv s.toUTF8.toList)}"

def joinC (xs : List String) : String := ",".intercalate xs

def renderV : LValue → String
  | .str s => "S:" ++ hexOrDash s
  | .list xs => "L:" ++ joinC (xs.map hexOrDash)
  | .set xs => "T:" ++ joinC (xs.map hexOrDash)
  | .hash fvs => "H:" ++ joinC (fvs.map fun (f, v) => hexOrDash f ++ "=" ++ hexOrDash v)
  | .zset ms => "Z:" ++ joinC (ms.map fun (m, s) => hexOrDash m ++ "=" ++ hex16 s)

def errName : DErr → String
  | .dumpLength | .dumpVersion | .dumpCrc => "dump"
  | .eof => "eof"
  | .float => "float"
  | .zipmapLen | .zlHeader | .intsetEnc | .module | .unknownType => "format"
  | .seek => "seek"
  | .panic => "panic"
  | .adaptor => "adaptor"

def renderR : Except DErr LValue → String
  | .ok v => renderV v
  | .error .panic => "panic"
  | .error e => "err:" ++ errName e

/-! ### parsing -/

def splitNE (s : String) (sep : String) : List String :=
  if s == "" || s == "_" then [] else s.splitOn sep

def parseHexList (s : String) : Option (List Bytes) := (splitNE s ",").mapM ofHex

def parseU64 (s : String) : Option UInt64 :=
  match ofHex s with
  | some bs => if bs.length = 8 then some (ofLe64 bs.reverse) else none
  | none => none

def parsePair (s : String) : Option (Bytes × Bytes) :=
  match s.splitOn "=" with
  | [a, b] => do pure ((← ofHex a), (← ofHex b))
  | _ => none

def parseValue (s : String) : Option LValue :=
  if s.length < 2 then none else
  let body := (s.drop 2).toString
  match (s.take 2).toString with
  | "S:" => (ofHex body).map .str
  | "L:" => (parseHexList body).map .list
  | "T:" => (parseHexList body).map .set
  | "H:" => ((splitNE body ",").mapM parsePair).map .hash
  | "Z:" => ((splitNE body ",").mapM fun (p : String) => match p.splitOn "=" with
      | [a, b] => do pure ((← ofHex a), (← parseU64 b))
      | _ => none).map .zset
  | _ => none

def parseLenForm : String → Option LenForm
  | "6" => some .b6 | "14" => some .b14 | "32" => some .b32 | "64" => some .b64 | _ => none

def parseTok (s : String) : Option Spec.Rdb.LzfTok :=
  if s.startsWith "l" then (ofHex (s.drop 1).toString).map .lit
  else if s.startsWith "r" then
    match ((s.drop 1).toString).splitOn "." with
    | [a, b] => do pure (.ref (← a.toNat?) (← b.toNat?))
    | _ => none
  else none

/-- `r6|r14|r32|r64` or `z<cf>-<uf>:<tok>+<tok>…`: the string object that stores `blob` -/
def parseWrap (s : String) (blob : Bytes) : Option RStr :=
  if s.startsWith "r" then (parseLenForm (s.drop 1).toString).map fun f => .raw f blob
  else if s.startsWith "z" then
    match ((s.drop 1).toString).splitOn ":" with
    | [forms, toks] =>
      match forms.splitOn "-" with
      | [a, b] => do
        let ts ← (splitNE toks "+").mapM parseTok
        if Spec.Rdb.expand ts = blob then pure (.lzf (← parseLenForm a) (← parseLenForm b) ts) else none
      | _ => none
    | _ => none
  else none

def parseInt (s : String) : Option Int :=
  if s.startsWith "-" then ((s.drop 1).toString.toNat?).map fun n => - (n : Int) else (s.toNat?).map fun n => (n : Int)

/-- `s6:hex` `s14b:hex` `i16:-5` `i4b:3` -/
def parseEntry (s : String) : Option ZlEntry :=
  match s.splitOn ":" with
  | [h, v] =>
    let big := h.endsWith "b"
    let h := if big then (h.dropEnd 1).toString else h
    match h with
    | "s6" => (ofHex v).map (.str big .s6)
    | "s14" => (ofHex v).map (.str big .s14)
    | "s32" => (ofHex v).map (.str big .s32)
    | "i4" => (parseInt v).map (.int big .i4)
    | "i8" => (parseInt v).map (.int big .i8)
    | "i16" => (parseInt v).map (.int big .i16)
    | "i24" => (parseInt v).map (.int big .i24)
    | "i32" => (parseInt v).map (.int big .i32)
    | "i64" => (parseInt v).map (.int big .i64)
    | _ => none
  | _ => none

def parseEntries (s : String) : Option (List ZlEntry) := (splitNE s ",").mapM parseEntry

def pairUp : List ZlEntry → Option (List (ZlEntry × ZlEntry))
  | [] => some []
  | a :: b :: r => (pairUp r).map ((a, b) :: ·)
  | _ => none

/-- `khex=vhex/freehex` -/
def parseZmPair (s : String) : Option ZmPair :=
  match s.splitOn "=" with
  | [k, r] =>
    match r.splitOn "/" with
    | [v, f] => do pure { k := (← ofHex k), v := (← ofHex v), free := (← ofHex f) }
    | _ => none
  | _ => none

def parseCompact (t : String) (tree : String) : Option Compact :=
  match t with
  | "9" => ((splitNE tree ",").mapM parseZmPair).map .zipmap
  | "10" => (parseEntries tree).map .listZl
  | "11" =>
    match tree.splitOn ":" with
    | [w, xs] => do pure (.intset (← w.toNat?) (← (splitNE xs ",").mapM parseInt))
    | _ => none
  | "12" => (parseEntries tree).bind pairUp |>.map .zsetZl
  | "13" => (parseEntries tree).bind pairUp |>.map .hashZl
  | _ => none

/-- quicklist nodes: `wrap|entries;wrap|entries` -/
def parseNodes (s : String) : Option (List QNode) :=
  (splitNE s ";").mapM fun (n : String) => match n.splitOn "|" with
    | [w, es] => do
      let es ← parseEntries es
      pure { w := (← parseWrap w (serZiplist es)), es := es }
    | _ => none

/-- `db/keyhex/expire/value` -/
def parseObj (s : String) : Option Obj :=
  match s.splitOn "/" with
  | [db, k, ex, v] => do pure { db := (← db.toNat?), key := (← ofHex k), expireAt := (← ex.toNat?), val := (← parseValue v) }
  | _ => none

/-! ### predictions -/

def renderObj (o : Obj) : String := s!"{o.db}/{hexOrDash o.key}/{o.expireAt}/{clip (renderV o.val)}"

def withModel (expected : String) (model : String) : String :=
  if expected == model then expected else expected ++ " MODEL=" ++ model

def handle (line : String) : String :=
  match line.splitOn " " with
  | ["enc", v] =>
    match parseValue v with
    | none => "badcase"
    | some v =>
      let p := encodeDump fmtF v
      let d := digest p
      let exp := clip (renderV (normValue v))
      let mdl := clip (renderR (decodeDump pf p))
      withModel s!"ext={d} inrepo={d} v={exp} v2={exp}" s!"ext={d} inrepo={d} v={mdl} v2={mdl}"
  | ["cmp", t, w, tree] =>
    match (parseCompact t tree).bind fun c => (parseWrap w (serCompact c)).map fun w => (c, w) with
    | some (c, w) =>
      let p := wrapDump w c.type
      let exp := match logicalOf pf c with
        | some v => clip (renderV v)
        | none => "err:float"
      let mdl := clip (renderR (decodeDump pf p))
      withModel s!"p={digest p} v={exp}" s!"p={digest p} v={mdl}"
    | none => "badcase"
  | ["ql", cf, nodes] =>
    match parseLenForm cf, parseNodes nodes with
    | some cf, some ns =>
      let p := quicklistDump cf ns
      let exp := clip (renderV (qlLogical ns))
      let mdl := clip (renderR (decodeDump pf p))
      withModel s!"p={digest p} v={exp}" s!"p={digest p} v={mdl}"
    | _, _ => "badcase"
  | ["dec", h] =>
    match ofHex h with
    | some d =>
      match decodeDump pf d with
      | .error .panic => "panic"          -- nothing recovers a run-time panic inside rdb.DecodeDump
      | r => "v=" ++ clip (renderR r)
    | none => "badcase"
  | ["file", objs] =>
    match (splitNE objs ";").mapM parseObj with
    | none => "badcase"
    | some os =>
      let f := encodeFile fmtF os
      let d := digest f
      let exp := ";".intercalate (os.map fun o => renderObj { o with val := normValue o.val })
      -- the model of the loader + decoder on the model's file
      let (es, fin) := Rdb.run (fun t => (pf t).isSome) true 16777216 Generated.rdbFromVersion f
      let mdlObjs := ";".intercalate (es.map fun e =>
        let v := match decodeDump pf e.value with
          | .ok v => clip (renderV v)
          | .error er => "err:" ++ errName er
        s!"{e.db}/{hexOrDash e.key}/{e.expireAt}/{v}")
      let mdlEnd := match fin with | .ok [] => "ok" | .ok _ => "unread" | .error _ => "err"
      withModel s!"f={d} f2={d} end=ok objs={exp} rebin=same" s!"f={d} f2={d} end={mdlEnd} objs={mdlObjs} rebin=same"
  | ["ff", b] =>
    match parseU64 b with
    | some bits =>
      let t := fmtF bits
      let back := match pf t with | some x => hex16 x | none => "err"
      s!"t={hexOrDash t} back={back}"
    | none => "badcase"
  | ["pf", h] =>
    match ofHex h with
    | some t => match pf t with | some x => "b=" ++ hex16 x | none => "b=err"
    | none => "badcase"
  | _ => "badcase"

end RSVerif.Drive.C12
