import RSVerif.Basic
/- C12: line-protocol driver (stub) -/
namespace RSVerif.Drive.C12
def handle (_line : String) : String := "unimplemented"
end RSVerif.Drive.C12
