import RSVerif.Model.Restore
import RSVerif.Model.RdbDecode
/-
C02 line protocol (see go/harness/c02.go for the case syntax).
  cmpver <a> <b> <level>     -> CompareVersion result, or `panic`
  r <cfg> pre=.. | entry ..  -> R=<results> T=<trace> F=<flush sizes> KS=<keyspace> S=<scripts>  SPEC=<R>:<KS>|n/a  FIND=<sig|->
The first four fields are the model of the (repaired) code; SPEC is what the one-command specification
`RestoreEntry.specOutcome` predicts (the definitions the theorems of Properties/C02 are about), printed whenever the
hypotheses of those theorems hold for the case; FIND names the known finding whose excluded condition the case meets.
-/
namespace RSVerif.Drive.C02
open RSVerif RSVerif.Rdb RSVerif.Spec.MiniRedisC02 RSVerif.RestoreEntry

/-! ### float codec of the driver: integers below 2^53 and a table checked against strconv by the harness -/

def floatTable : List (String × UInt64) := [
  ("0.5", 0x3FE0000000000000), ("-2.5", 0xC004000000000000), ("3.14159", 0x400921F9F01B866E),
  ("0.00000015", 0x3E8421F5F40D8376), ("0.1", 0x3FB999999999999A), ("12345678.5", 0x41678C29D0000000),
  ("+Inf", 0x7FF0000000000000), ("-Inf", 0xFFF0000000000000), ("1000000000000000000000", 0x444B1AE4D6E2EF50),
  ("0.25", 0x3FD0000000000000), ("-0.001", 0xBF50624DD2F1A9FC), ("0.0000001", 0x3E7AD7F29ABCAF48),
  ("25000000000.5", 0x42174876E8020000), ("NaN", 0x7FF8000000000001),
  -- parse-only spellings
  ("1e10", 0x4202A05F20000000), ("1E5", 0x40F86A0000000000), ("4.25e+2", 0x407A900000000000),
  ("inf", 0x7FF0000000000000), ("-inf", 0xFFF0000000000000), ("+inf", 0x7FF0000000000000),
  ("5e-1", 0x3FE0000000000000), ("0.50", 0x3FE0000000000000), ("-2.50", 0xC004000000000000),
  ("1e21", 0x444B1AE4D6E2EF50), ("Infinity", 0x7FF0000000000000)]

def intBits (neg : Bool) (n : Nat) : UInt64 :=
  if n = 0 then (if neg then 0x8000000000000000 else 0)
  else
    let e := Nat.log2 n
    let mant := (n * 2 ^ (52 - e)) % 2 ^ 52
    UInt64.ofNat ((if neg then 2 ^ 63 else 0) + (1023 + e) * 2 ^ 52 + mant)

def parseDigits (ds : Bytes) : Option Nat :=
  if ds.isEmpty then none
  else ds.foldl (fun acc b => match acc, digitVal b with
    | some a, some d => some (a * 10 + d) | _, _ => none) (some 0)

def drvParse (t : Bytes) : Option UInt64 :=
  let (neg, ds) : Bool × Bytes := match t with
    | 43 :: r => (false, r)
    | 45 :: r => (true, r)
    | r => (false, r)
  let tab := (floatTable.find? fun p => p.1.toUTF8.toList == t).map (·.2)
  match parseDigits ds with
  | some n => if n < 2 ^ 53 then some (intBits neg n) else tab
  | none => tab

def drvFmt (b : UInt64) : Bytes :=
  let neg := b >>> 63 == 1
  let ex := ((b >>> 52) &&& 0x7ff).toNat
  let mant := (b &&& 0xfffffffffffff).toNat
  let sign : Bytes := if neg then [45] else []
  if ex = 0 ∧ mant = 0 then sign ++ [48]
  else if ex = 0x7ff then (if mant = 0 then (if neg then "-Inf" else "+Inf").toUTF8.toList else "NaN".toUTF8.toList)
  else
    let m := 2 ^ 52 + mant
    if 1023 ≤ ex ∧ ex ≤ 1075 ∧ m % 2 ^ (1075 - ex) = 0 then sign ++ Rdb.fmtNat (m / 2 ^ (1075 - ex))
    else match floatTable.find? fun p => p.2 == b with
      | some p => p.1.toUTF8.toList
      | none => "?".toUTF8.toList

def drvFt : FloatText := { parse := drvParse, fmt := drvFmt }

/-! ### compact encodings through the ziplist / intset readers of Model/RdbDecode (pkg/rdb/reader.go carries
    the same code as the cupcake decoder); the intset walk is utils.go's own. Zipmap (type 9) is left unexpanded
    (deviation D22 is C12's). -/

def pairUp : List Bytes → List (Bytes × Bytes)
  | a :: b :: r => (a, b) :: pairUp r
  | _ => []

/-- the readable prefix of `n` pairs of ziplist entries whose second component passes `ok` -/
def zlPairs (ok : Bytes → Bool) : Nat → Bytes → List (Bytes × Bytes) × Bool
  | 0, _ => ([], true)
  | n + 1, buf =>
    match RdbDecode.zlEntry buf with
    | .error _ => ([], false)
    | .ok (a, r1) =>
      match RdbDecode.zlEntry r1 with
      | .error _ => ([], false)
      | .ok (b, r2) =>
        if ok b then let (xs, c) := zlPairs ok n r2; ((a, b) :: xs, c) else ([], false)

/-- the readable prefix of `n` little-endian integers of `sz` bytes, as decimal texts -/
def intsetElems (sz : Nat) : Nat → Bytes → List Bytes × Bool
  | 0, _ => ([], true)
  | n + 1, buf =>
    if buf.length < sz then ([], false)
    else let (xs, c) := intsetElems sz n (buf.drop sz); (fmtInt (signed (8 * sz) (leNat (buf.take sz))) :: xs, c)

/-- the readable prefix of `n` zipmap pairs (`ReadZipmapItem(buf, false)`, `ReadZipmapItem(buf, true)`) -/
def zmPairs : Nat → Bytes → List (Bytes × Bytes) × Bool
  | 0, _ => ([], true)
  | n + 1, buf =>
    match RdbDecode.zmItem true false buf with
    | .error _ => ([], false)
    | .ok (a, r1) =>
      match RdbDecode.zmItem true true r1 with
      | .error _ => ([], false)
      | .ok (b, r2) => let (xs, c) := zmPairs n r2; ((a, b) :: xs, c)

def drvExpand (t : UInt8) (blob : Bytes) : Option Expansion :=
  match t.toNat with
  | 9 =>
    -- utils.go reads the count byte itself: >= 254 = count the items (CountZipmapItems, halved), else the byte
    match blob with
    | [] => none
    | lenByte :: r =>
      if lenByte.toNat ≥ 254 then
        match RdbDecode.zmCount true blob.length (r.length + 1) 0 r with
        | .error _ => none
        | .ok n => let (xs, c) := zmPairs (n / 2) r; some ⟨n / 2, .hash xs, c⟩
      else let (xs, c) := zmPairs lenByte.toNat r; some ⟨lenByte.toNat, .hash xs, c⟩
  | 10 =>
    match RdbDecode.zlLength blob with
    | .error _ => none
    | .ok (n, buf) => let (xs, e) := RdbDecode.zlEntries n buf; some ⟨n, .list xs, e.isNone⟩
  | 13 =>
    match RdbDecode.zlLength blob with
    | .error _ => none
    | .ok (n, buf) => let (xs, c) := zlPairs (fun _ => true) (n / 2) buf; some ⟨n / 2, .hash xs, c⟩
  | 12 =>
    -- member, score text; `strconv.ParseFloat(scoreBytes)` must succeed before the ZADD is written
    match RdbDecode.zlLength blob with
    | .error _ => none
    | .ok (n, buf) =>
      let (xs, c) := zlPairs (fun st => (drvParse st).isSome) (n / 2) buf
      some ⟨n / 2, .zsetText xs, c⟩
  | 11 =>
    -- utils.go reads the intset itself: 4 bytes element size (2/4/8), 4 bytes cardinality, the elements
    if blob.length < 4 then none
    else
      let sz := leNat (blob.take 4)
      if sz ≠ 2 ∧ sz ≠ 4 ∧ sz ≠ 8 then none
      else if blob.length < 8 then none
      else
        let card := leNat ((blob.drop 4).take 4)
        let (xs, c) := intsetElems sz card (blob.drop 8)
        some ⟨card, .set xs, c⟩
  | _ => none

def drvParams : Params := { expand := drvExpand, ft := drvFt }

/-! ### parsing the case -/

def kvOf (tok : String) : String × String :=
  match tok.splitOn "=" with
  | k :: rest => (k, "=".intercalate rest)
  | [] => ("", "")

def look (kvs : List (String × String)) (k : String) : String :=
  match kvs.find? (·.1 == k) with
  | some p => p.2
  | none => ""

def hexD (s : String) : Bytes := (ofHex s).getD []

def natD (s : String) : Nat := s.toNat?.getD 0

def intD (s : String) : Int := s.toInt?.getD 0

def hexNat (s : String) : Nat :=
  s.toList.foldl (fun acc c => acc * 16 + (hexVal c).getD 0) 0

def splitNE (s : String) (sep : String) : List String := if s.isEmpty then [] else s.splitOn sep

def parseVal (s : String) : Option LValue :=
  if s == "none" then none
  else
    let body := (s.drop 2).toString
    match s.toList.head? with
    | some 's' => some (.str (hexD body))
    | some 'o' => some (.opaque (hexD body))
    | some 'l' => some (.list ((splitNE body ",").map hexD))
    | some 'S' => some (.set ((splitNE body ",").map hexD))
    | some 'h' => some (.hash ((splitNE body ",").map fun x =>
        match x.splitOn "=" with | [a, b] => (hexD a, hexD b) | _ => ([], [])))
    | some 'z' => some (.zset ((splitNE body ",").map fun x =>
        match x.splitOn "=" with | [a, b] => (hexD a, UInt64.ofNat (hexNat b)) | _ => ([], 0)))
    | _ => none

def hex16 (x : UInt64) : String := toHex (le64 x).reverse

def showArg (v : Bytes) : String :=
  if v.length ≤ 40 then hexOrDash v else s!"{v.length}:{hex16 (Spec.Crc64.update 1 v)}"

def showVal : LValue → String
  | .str b => "s:" ++ showArg b
  | .opaque b => "o:" ++ showArg b
  | .list xs => "l:" ++ ",".intercalate (xs.map hexOrDash)
  | .set xs => "S:" ++ ",".intercalate (xs.map hexOrDash)
  | .hash fvs => "h:" ++ ",".intercalate (fvs.map fun p => hexOrDash p.1 ++ "=" ++ hexOrDash p.2)
  | .zset ms => "z:" ++ ",".intercalate (ms.map fun p => hexOrDash p.1 ++ "=" ++ hex16 p.2)

def showCmd (c : Cmd) : String :=
  match c.render with
  | [] => ""
  | name :: args => ",".intercalate (String.fromUTF8! (ByteArray.mk name.toArray) :: args.map showArg)

def bytesLt : Bytes → Bytes → Bool
  | [], [] => false
  | [], _ :: _ => true
  | _ :: _, [] => false
  | a :: r, b :: s => if a < b then true else if b < a then false else bytesLt r s

def insertSorted (k : Bytes) : List Bytes → List Bytes
  | [] => [k]
  | x :: r => if k == x then x :: r else if bytesLt k x then k :: x :: r else x :: insertSorted k r

def dash (s : String) : String := if s.isEmpty then "-" else s

def showKs (t : Target) (keys : List Bytes) : String :=
  dash (";".intercalate (keys.filterMap fun k =>
    match t.get k with
    | none => none
    | some (v, exp) =>
      let ttl := match exp with | none => "none" | some x => toString ((x : Int) - (t.srv.now : Int))
      some s!"{hexOrDash k}={showVal v}@{ttl}"))

def resName : Result → String
  | .ok => "ok" | .error => "error" | .abort => "abort" | .hang => "hang"

def srvT0 : Nat := 1000000
def toolNowNs : Nat := 1800000000000000000

structure DEntry where
  gap : Nat
  e : Entry
  expOff : Option Int

def parseEntry (cfg : Cfg) (toks : List String) : DEntry :=
  let kvs := toks.map kvOf
  let exp := look kvs "exp"
  let off : Option Int := if exp == "none" then none else some (intD exp)
  let expireAt : Nat := match off with
    | none => 0
    | some o => ((shiftedNowMs toolNowNs cfg.shiftNs : Int) + o).toNat
  { gap := natD (look kvs "gap"),
    expOff := off,
    e := { db := 0, key := hexD (look kvs "key"), type := UInt8.ofNat (natD (look kvs "type")),
           value := hexD (look kvs "val"), expireAt := expireAt, realMemberCount := natD (look kvs "rmc"),
           needReadLen := natD (look kvs "nrl"), idle := natD (look kvs "idle"), freq := natD (look kvs "freq") } }

def splitGroups (toks : List String) : List (List String) :=
  toks.foldr (fun t acc => if t == "|" then [] :: acc else match acc with
    | [] => [[t]]
    | g :: gs => (t :: g) :: gs) [[]]

def trailerOkDrv (d : Bytes) : Bool :=
  match Dump.checkVersionChecksum d with
  | .ok _ => true
  | .error _ => false

/-! ### the specification's prediction -/

/-- all hash pairs of a chunk sequence, if every chunk is readable to the end -/
def chunkPairs (P : Params) : List Entry → Option (List (Bytes × Bytes))
  | [] => some []
  | e :: rest =>
    match e.value with
    | ty :: inp =>
      if ty = 4 then
        match expansion P ty e.needReadLen e.realMemberCount inp with
        | some ⟨_, .hash fvs, true⟩ => (chunkPairs P rest).map (fvs ++ ·)
        | _ => none
      else none
    | [] => none

def isEmptyValue : LValue → Bool
  | .list [] => true | .set [] => true | .hash [] => true | .zset [] => true
  | _ => false

/-- some element of the payload carries a NaN score (the element-wise routes abort on it) -/
def rawNaN (P : Params) (payload : Bytes) : Bool :=
  match payload with
  | ty :: inp =>
    match expansion P ty 1 0 inp with
    | some ⟨_, .zset ms, _⟩ => ms.any fun p => isNaN p.2
    | some ⟨_, .zsetText ms, _⟩ => ms.any fun p => match P.ft.parse p.2 with | some sc => isNaN sc | none => true
    | _ => false
  | [] => false

def handleRestore (toks : List String) : String :=
  match splitGroups toks with
  | [] => "badcase"
  | cfgToks :: entToks =>
    let kvs := cfgToks.map kvOf
    let pol : Policy := match look kvs "pol" with | "r" => .rewrite | "i" => .ignore | _ => .none
    let cfg : Cfg := { keyExists := pol, targetReplace := look kvs "rep" == "1", bigKeyThreshold := natD (look kvs "thr"),
                       targetVersion := hexD (look kvs "ver"), shiftNs := intD (look kvs "shift"),
                       replaceHashTag := look kvs "tag" == "1", ucloud := look kvs "uc" == "1",
                       filterLua := look kvs "flua" == "1" }
    let rej := hexD (look kvs "rej")
    let pre : List (Bytes × Binding) := if look kvs "pre" == "-" then [] else
      (look kvs "pre").splitOn ";" |>.filterMap fun p =>
        match p.splitOn "/" with
        | [k, v, ttl] => (parseVal v).map fun lv => (hexD k, (lv, if ttl == "none" then none else some (srvT0 + natD ttl)))
        | _ => none
    let ks0 : Keyspace := pre.foldl (fun ks p => ks.put 0 p.1 (some p.2)) Keyspace.empty
    let srv : Server := { now := srvT0, trailerOk := trailerOkDrv, accepts := fun t => !rej.contains t,
                          load := logicalPayload drvParams, busyOld := look kvs "busyold" == "1", ft := drvFt }
    let t0 : Target := { srv := srv, db := 0, store := { ks := ks0, scripts := [] } }
    let ents := entToks.map (parseEntry cfg)
    -- run the model entry by entry
    let step (acc : Target × List String × List String × List String × Bool) (d : DEntry) :
        Target × List String × List String × List String × Bool :=
      let (t, rs, trs, fls, stop) := acc
      if stop then acc
      else
        let t1 := t.advance (t.srv.now + d.gap)
        let (t2, r, _) := restoreRdbEntry drvParams cfg toolNowNs d.e t1
        (t2, rs ++ [resName r], trs ++ [";".intercalate (t2.log.map showCmd)],
         fls ++ [",".intercalate (t2.flog.map toString)], r != .ok)
    let (tf, rs, trs, fls, _) := ents.foldl step (t0, [], [], [], false)
    let keys := (pre.map (·.1) ++ ents.filterMap fun d => rewriteKey cfg d.e.key).foldl (fun acc k => insertSorted k acc) []
    let scripts := dash (",".intercalate (tf.store.scripts.map showArg))
    let modelPart := s!"R={",".intercalate rs} T={dash ("/".intercalate trs)} F={dash ("/".intercalate fls)} KS={showKs tf keys} S={scripts}"
    -- the specification
    let first := ents.head?
    let specPart : String × String :=
      match first with
      | none => ("n/a", "-")
      | some d0 =>
        match rewriteKey cfg d0.e.key with
        | none => ("n/a", "-")
        | some key =>
          if route cfg key d0.e == .lua then ("n/a", "-")
          else
            let single := ents.length = 1
            let value : Option LValue :=
              if single then (if trailerOkDrv d0.e.value then logicalPayload drvParams d0.e.value else none)
              else (chunkPairs drvParams (ents.map (·.e))).bind fun fvs => (Elems.hash fvs).logical drvFt
            match value with
            | none => ("n/a", "-")
            | some v =>
              let rejected := rej.contains d0.e.type
              let isOpq := match v with | .opaque _ => true | _ => false
              if isEmptyValue v || rawNaN drvParams d0.e.value || (isOpq && rejected) || d0.e.value.head? != some d0.e.type
                  || (single && d0.e.realMemberCount != 0) then ("n/a", "-")
              else
                let endNow := srvT0 + (ents.map (·.gap)).foldl (· + ·) 0
                let startNow := srvT0 + d0.gap
                let ksStart := ks0.purge startNow
                let tStart : Target := { srv := { srv with now := startNow }, db := 0, store := { ks := ksStart, scripts := [] } }
                let exp := expiryOf cfg toolNowNs startNow d0.e.expireAt
                let (ks1, res) := specOutcome pol ksStart 0 key v exp
                let tSpec : Target := { srv := { srv with now := endNow }, db := 0, store := { ks := ks1.purge endNow, scripts := [] } }
                let bigLike := route cfg key d0.e == .big || !single
                let find :=
                  if bigLike && bigPolicyCond cfg key tStart then "bigkey-policy"
                  else if !single && chunkExpiredCond exp endNow then "chunked-expired"
                  else "-"
                (s!"{resName res}:{showKs tSpec keys}", find)
    s!"{modelPart} SPEC={specPart.1} FIND={specPart.2}"

def handle (line : String) : String :=
  match line.splitOn " " with
  | ["cmpver", a, b, lv] =>
    match compareVersion true (hexD a) (hexD b) (intD lv) with
    | some r => toString r
    | none => "panic"
  | ["zl", h] =>
    -- the ziplist reader of the element-wise route: count (walking the entries behind the 65535 marker), then the entries
    match ofHex h with
    | none => "badcase"
    | some blob =>
      match RdbDecode.zlLength blob with
      | .error _ => "zl=err"
      | .ok (n, buf) =>
        let (xs, e) := RdbDecode.zlEntries n buf
        if e.isSome then s!"zl={n} short={xs.length}"
        else
          let fp := xs.foldl (fun h x => (x ++ [0xFF]).foldl (fun h b => (h ^^^ b.toUInt64) * 0x100000001b3) h) (0xcbf29ce484222325 : UInt64)
          s!"zl={n} fp={toHex (le64 fp).reverse}"
  | "r" :: toks => handleRestore toks
  | _ => "badcase"

end RSVerif.Drive.C02
