import RSVerif.Basic
/- C02: line-protocol driver (stub) -/
namespace RSVerif.Drive.C02
def handle (_line : String) : String := "unimplemented"
end RSVerif.Drive.C02
