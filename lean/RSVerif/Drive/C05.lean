import RSVerif.Model.Handoff
import RSVerif.Spec.Handoff
import RSVerif.Drive.C01
/-
Line protocol for C05 (case kinds: see go/harness/c05.go).

For a case whose framing satisfies the hypotheses of the property theorems (`Spec.Handoff.*.wf`) the line is
what the *specification* predicts — the RDB consumer gets `rdb`, the command parser `cmds`, the ids are the
announced ones — and the model is run as well on the case's fragmentation; if it ever disagreed with the
specification (impossible by `Properties.C05.handoff_exact`/`dump_exact`) the line is marked.  For every other
case (malformed or odd streams, unit cases) the line is what the model of the code does when the source
delivers everything and then closes.
-/
namespace RSVerif.Drive.C05
open RSVerif RSVerif.Handoff

/-! ### byte specs and rendering (mirrors c05Gen / c05Show / c05Fnv of the harness) -/

def genBytes (seed : UInt64) (n : Nat) : Bytes :=
  let rec go : Nat → UInt64 → Bytes → Bytes
    | 0, _, acc => acc.reverse
    | k + 1, x, acc =>
      let x' := x * 6364136223846793005 + 1442695040888963407
      go k x' ((x' >>> 56).toUInt8 :: acc)
  go n seed []

def parseBytes (s : String) : Option Bytes :=
  if s.startsWith "@" then
    match (s.drop 1).toString.splitOn ":" with
    | [a, b] =>
      match a.toNat?, b.toNat? with
      | some seed, some n => some (genBytes (UInt64.ofNat seed) n)
      | _, _ => none
    | _ => none
  else ofHex s

def fnv (bs : Bytes) : UInt64 :=
  bs.foldl (fun h b => (h ^^^ b.toUInt64) * 0x100000001b3) 0xcbf29ce484222325

def hex16 (x : UInt64) : String := toHex (le64 x).reverse

def hexLimit : Nat := 1024

def showBytes (bs : Bytes) : String :=
  if bs.length ≤ hexLimit then hexOrDash bs else s!"#{bs.length}:{hex16 (fnv bs)}"

def parseFrags (s : String) : Option (List Nat) :=
  if s == "-" then some [] else (s.splitOn ",").mapM String.toNat?

def ascii (s : String) : Bytes := s.toUTF8.toList

/-- the case's fragment sizes as wishes, followed by enough further read events to deliver everything. -/
def fullSched (frags : List Nat) (total : Nat) : Sched := frags ++ List.replicate (total + 2) 1000000000

def reqStr (inRunid : String) (inOff : Int) : String :=
  s!"req={hexOrDash (ascii inRunid)}:{psyncOffset inOff}"

/-! ### psync -/

def startedLine2 (req : String) (isFull : Bool) (runid : Bytes) (offset : Int) (nsize : Nat) (rdb cmds : Bytes) : String :=
  let kind := if isFull then "full" else "cont"
  s!"{req} res={kind} runid={hexOrDash runid} offset={offset} nsize={nsize} rdb={showBytes rdb} cmds={showBytes cmds}"

/-- the RDB consumer takes the first `nsize` bytes of the pipe, the command parser the rest. -/
def startedLine (req : String) (isFull : Bool) (runid : Bytes) (offset : Int) (nsize : Nat) (out : Bytes) : String :=
  startedLine2 req isFull runid offset nsize (out.take nsize) (out.drop nsize)

def psyncModel (inRunid : String) (inOff : Int) (stream : Bytes) (frags : List Nat) : String :=
  let req := reqStr inRunid inOff
  match sendPSyncCmd codeBufs (ascii inRunid) inOff true (fullSched frags stream.length) stream with
  | .started isFull runid offset nsize run =>
    if run.st == .aborted then "abort"
    else if run.st != .eof then "model-incomplete"
    else startedLine req isFull runid offset nsize run.out
  | .err => s!"{req} res=err"
  | .abort => "abort"
  | .starved => "model-starved"
  | .unmodelled => "unmodelled"

/-- above this many stream bytes the (list-based, hence slow) model run that double-checks the specification's
prediction is skipped; the prediction itself never depends on the model. -/
def crossCheckLimit : Nat := 2 * 1024 * 1024

def psyncFull (inRunid : String) (inOff : Int) (f : Spec.Handoff.Full) (frags : List Nat) : String :=
  if f.wf then
    let req := s!"req={hexOrDash (ascii inRunid)}:{Spec.Handoff.requestOffset inOff}"
    let s := startedLine2 req true f.id f.offset f.bulk.rdb.length f.bulk.rdb f.bulk.cmds
    if f.bulk.rdb.length + f.bulk.cmds.length > crossCheckLimit then s
    else
      let m := psyncModel inRunid inOff f.stream frags
      if m == s then s else s ++ " MODEL-DISAGREES:" ++ m
  else psyncModel inRunid inOff f.stream frags

/-- the `ack` kind: the psync line without the request, plus the first REPLCONF ACK = announced offset + bytes counted
as command bytes (`Copy.count` of the command phase). -/
def ackLine (inRunid : String) (inOff : Int) (f : Spec.Handoff.Full) (frags : List Nat) : String :=
  let line (runid : Bytes) (offset : Int) (nsize : Nat) (out : Bytes) (ack : Int) : String :=
    s!"res=full runid={hexOrDash runid} offset={offset} nsize={nsize} rdb={showBytes (out.take nsize)} cmds={showBytes (out.drop nsize)} ack={ack}"
  -- the source stays connected: open connection, every byte delivered
  let m := match sendPSyncCmd codeBufs (ascii inRunid) inOff false (fullSched frags f.stream.length) f.stream with
    | .started true runid offset nsize run =>
      if run.st == .aborted then "abort" else line runid offset nsize run.out (offset + run.count)
    | .started false _ _ _ _ => "model-cont"
    | .err => "res=err"
    | .abort => "abort"
    | .starved => "model-starved"
    | .unmodelled => "unmodelled"
  if f.wf then
    let s := line f.id f.offset f.bulk.rdb.length (f.bulk.rdb ++ f.bulk.cmds) (f.offset + f.bulk.cmds.length)
    if m == s then s else s ++ " MODEL-DISAGREES:" ++ m
  else m

/-- the `reconn` kind: first connection `+CONTINUE` ++ cmds1 (then EOF), second connection `stream2` (then EOF). -/
def reconnLine (inRunid : String) (inOff : Int) (cmds1 stream2 : Bytes) (expect : Option String) : String :=
  let first : Spec.Handoff.Cont := ⟨0, ascii "CONTINUE", cmds1⟩
  let m :=
    match sendPSyncCmd codeBufs (ascii inRunid) inOff true (fullSched [] first.stream.length) first.stream with
    | .started false runid offset _ run1 =>
      -- `runId` of the goroutine is the caller's run id; `ds.sourceOffset` moves with the ACK ticker (C08), its value
      -- does not influence which branch is taken
      match reconnect codeBufs runid offset true (fullSched [] stream2.length) stream2 with
      | .copying run2 => s!"first={showBytes run1.out} second={showBytes run2.out}"
      | .abort => "abort"
      | .failed => "model-failed"
      | .starved => "model-starved"
      | .unmodelled => "unmodelled"
    | _ => "model-first"
  match expect with
  | some s => if m == s then s else s ++ " MODEL-DISAGREES:" ++ m
  | none => m

def psyncCont (inRunid : String) (inOff : Int) (f : Spec.Handoff.Cont) (frags : List Nat) : String :=
  let m := psyncModel inRunid inOff f.stream frags
  if f.wf && inOff != -1 then
    let req := s!"req={hexOrDash (ascii inRunid)}:{Spec.Handoff.requestOffset inOff}"
    let s := startedLine req false (ascii inRunid) inOff 0 f.cmds
    if m == s then s else s ++ " MODEL-DISAGREES:" ++ m
  else m

/-! ### incr / dump / dumpfile / sync -/

def incrLine (nsize : Int) (data : Bytes) (frags : List Nat) : String :=
  let run := runIncrementalSync codeBufs true (fullSched frags data.length) nsize data
  let m := if run.st == .aborted then "abort" else if run.st != .eof then "model-incomplete"
           else s!"pipe={showBytes run.out}"
  if 0 ≤ nsize ∧ nsize ≤ data.length then
    let s := s!"pipe={showBytes data}"
    if m == s then s else s ++ " MODEL-DISAGREES:" ++ m
  else m

def dumpModel (stream : Bytes) (frags : List Nat) : String :=
  match dump codeBufs true (fullSched frags stream.length) stream with
  | .dumped n run =>
    if run.st == .aborted then "abort" else if run.st != .done then "model-incomplete"
    else s!"req=sync nsize={n} file={showBytes run.out} rest={hexOrDash run.rem}"
  | .abort => "abort"
  | .starved => "model-starved"

def dumpLine (f : Spec.Handoff.Bulk) (frags : List Nat) : String :=
  let m := dumpModel f.stream frags
  if f.wf then
    let s := s!"req=sync nsize={f.rdb.length} file={showBytes f.rdb} rest={hexOrDash f.cmds}"
    if m == s then s else s ++ " MODEL-DISAGREES:" ++ m
  else m

def dumpFileLine (nsize : Int) (data : Bytes) (frags : List Nat) : String :=
  let run := dumpLoop codeBufs.dump true nsize (fullSched frags data.length) 0 data
  let m := if run.st == .aborted then "abort" else if run.st != .done then "model-incomplete"
           else s!"file={showBytes run.out} rest={showBytes run.rem}"
  if 0 < nsize ∧ nsize ≤ data.length then
    let s := s!"file={showBytes (data.take nsize.toNat)} rest={showBytes (data.drop nsize.toNat)}"
    if m == s then s else s ++ " MODEL-DISAGREES:" ++ m
  else m

def syncLine (f : Spec.Handoff.Bulk) : String :=
  let m := match waitRdbDump f.stream with
    | .size _ n rest => s!"nsize={n} rdb={showBytes (rest.take n)} cmds={showBytes (rest.drop n)}"
    | _ => "abort"
  if f.wf then
    let s := s!"nsize={f.rdb.length} rdb={showBytes f.rdb} cmds={showBytes f.cmds}"
    if m == s then s else s ++ " MODEL-DISAGREES:" ++ m
  else m

/-! ### units -/

def waitLine (stream : Bytes) : String :=
  match waitRdbDump stream with
  | .size k n rest => s!"keepalives={k} n={n} rest={showBytes rest}"
  | _ => "abort"

def replyLine (inRunid : String) (inOff : Int) (stream : Bytes) : String :=
  let sent := reqStr inRunid inOff
  match sendPSyncContinue (ascii inRunid) inOff stream with
  | .cont runid offset _ => s!"{sent} res=cont runid={hexOrDash runid} offset={offset}"
  | .full runid offset _ => s!"{sent} res=full runid={hexOrDash runid} offset={offset}"
  | .err => s!"{sent} res=err"
  | .starved => "res=blocked"
  | .unmodelled => "unmodelled"

def iocopyLine (max : Int) (buflen : Nat) (data : Bytes) (wish : Nat) : String :=
  match iocopyReq buflen max with
  | none => "abort"
  | some req =>
    if data.isEmpty then "abort"
    else
      let n := chunkLen wish req data.length
      s!"req={req} n={n} wrote={showBytes (data.take n)} left={data.length - n}"

/-! ### dispatch -/

def handle (line : String) : String :=
  match line.splitOn " " with
  | ["psync", inRunid, inOff, j, word, id, offtxt, k, ntxt, rdb, cmds, frags, _] =>
    match inOff.toInt?, j.toNat?, ofHex id, k.toNat?, parseBytes rdb, parseBytes cmds, parseFrags frags with
    | some inOff, some j, some id, some k, some rdb, some cmds, some frags =>
      psyncFull inRunid inOff ⟨j, ascii word, id, ascii offtxt, ⟨k, ascii ntxt, rdb, cmds⟩⟩ frags
    | _, _, _, _, _, _, _ => "badcase"
  | ["ack", inRunid, inOff, j, word, id, offtxt, k, ntxt, rdb, cmds, frags, _] =>
    match inOff.toInt?, j.toNat?, ofHex id, k.toNat?, parseBytes rdb, parseBytes cmds, parseFrags frags with
    | some inOff, some j, some id, some k, some rdb, some cmds, some frags =>
      ackLine inRunid inOff ⟨j, ascii word, id, ascii offtxt, ⟨k, ascii ntxt, rdb, cmds⟩⟩ frags
    | _, _, _, _, _, _, _ => "badcase"
  | ["reconn", inRunid, inOff, cmds1, j, word, cmds2] =>
    match inOff.toInt?, parseBytes cmds1, j.toNat?, parseBytes cmds2 with
    | some inOff, some cmds1, some j, some cmds2 =>
      let f : Spec.Handoff.Cont := ⟨j, ascii word, cmds2⟩
      reconnLine inRunid inOff cmds1 f.stream
        (if f.wf then some s!"first={showBytes cmds1} second={showBytes cmds2}" else none)
    | _, _, _, _ => "badcase"
  | ["reconn", inRunid, inOff, cmds1, j, word, id, offtxt, k, ntxt, rdb, cmds] =>
    match inOff.toInt?, parseBytes cmds1, j.toNat?, ofHex id, k.toNat?, parseBytes rdb, parseBytes cmds with
    | some inOff, some cmds1, some j, some id, some k, some rdb, some cmds =>
      let f : Spec.Handoff.Full := ⟨j, ascii word, id, ascii offtxt, ⟨k, ascii ntxt, rdb, cmds⟩⟩
      -- a full resync cannot be served on the incremental path: the only outcome that hands no RDB byte to the
      -- command parser is to stop
      reconnLine inRunid inOff cmds1 f.stream (if f.wf then some "abort" else none)
    | _, _, _, _, _, _, _ => "badcase"
  | ["pcont", inRunid, inOff, j, word, cmds, frags, _] =>
    match inOff.toInt?, j.toNat?, parseBytes cmds, parseFrags frags with
    | some inOff, some j, some cmds, some frags => psyncCont inRunid inOff ⟨j, ascii word, cmds⟩ frags
    | _, _, _, _ => "badcase"
  | ["psyncraw", inRunid, inOff, stream, frags, _] =>
    match inOff.toInt?, parseBytes stream, parseFrags frags with
    | some inOff, some stream, some frags => psyncModel inRunid inOff stream frags
    | _, _, _ => "badcase"
  | ["incr", nsize, _, _, data, frags] =>
    match nsize.toInt?, parseBytes data, parseFrags frags with
    | some nsize, some data, some frags => incrLine nsize data frags
    | _, _, _ => "badcase"
  | ["dump", k, ntxt, rdb, cmds, frags, _] =>
    match k.toNat?, parseBytes rdb, parseBytes cmds, parseFrags frags with
    | some k, some rdb, some cmds, some frags => dumpLine ⟨k, ascii ntxt, rdb, cmds⟩ frags
    | _, _, _, _ => "badcase"
  | ["dumpmain", _par, rdbs, _cmds, _frag, _pseed] =>
    -- every source is dumped by its own dbDumper: each file is that source's RDB (`dump_file_exact` per source)
    match (rdbs.splitOn ";").mapM parseBytes with
    | some l => "files=" ++ ",".intercalate (l.map showBytes)
    | none => "badcase"
  | ["dumpfile", nsize, _, data, frags] =>
    match nsize.toInt?, parseBytes data, parseFrags frags with
    | some nsize, some data, some frags => dumpFileLine nsize data frags
    | _, _, _ => "badcase"
  | ["sync", k, ntxt, rdb, cmds, _, _] =>
    match k.toNat?, parseBytes rdb, parseBytes cmds with
    | some k, some rdb, some cmds => syncLine ⟨k, ascii ntxt, rdb, cmds⟩
    | _, _, _ => "badcase"
  | ["wait", stream] =>
    match parseBytes stream with
    | some stream => waitLine stream
    | none => "badcase"
  | ["reply", inRunid, inOff, stream] =>
    match inOff.toInt?, parseBytes stream with
    | some inOff, some stream => replyLine inRunid inOff stream
    | _, _ => "badcase"
  | ["handover", file, cmds, _, _] =>
    -- consumer side (utils.NewRDBLoader = C01's loader pipeline) on the RDB followed by the command bytes, whatever
    -- the delivery: what it has taken when its channel closes, and what is left for the command parser
    -- (for a well-formed file: exactly the file, exactly the commands — Properties.C05.rdb_consumer_exact, rdb_consumer_takes_n)
    match ofHex file, parseBytes cmds with
    | some file, some cmds =>
      let all := file ++ cmds
      match Rdb.run Drive.C01.pfSimple true (16 * 1024 * 1024) Generated.rdbFromVersion all with
      | (es, .ok rest) => s!"taken={all.length - rest.length} entries={es.length} rest={showBytes rest}"
      | (_, .error _) => "abort"
    | _, _ => "badcase"
  | ["iocopy", max, buflen, data, wish] =>
    match max.toInt?, buflen.toNat?, parseBytes data, wish.toNat? with
    | some max, some buflen, some data, some wish => iocopyLine max buflen data wish
    | _, _, _, _ => "badcase"
  | _ => "badcase"

end RSVerif.Drive.C05
