import RSVerif.Basic
/- C05: line-protocol driver (stub) -/
namespace RSVerif.Drive.C05
def handle (_line : String) : String := "unimplemented"
end RSVerif.Drive.C05
