import RSVerif.Basic
/- C13: line-protocol driver (stub) -/
namespace RSVerif.Drive.C13
def handle (_line : String) : String := "unimplemented"
end RSVerif.Drive.C13
