import RSVerif.Model.KeyFilter
import RSVerif.Spec.CommandKeys
import RSVerif.Drive.C03
/- line protocol for C13: what the SPECIFICATION (Spec.CommandKeys.filterSpec) predicts for each case of
   go/harness/c13.go; where the spec makes no demand (argument count not valid for the command, or a `row`
   case that calls getMatchKeys on an explicit row) the line is the model's outcome. -/
namespace RSVerif.Drive.C13
open RSVerif RSVerif.Spec.CommandKeys

def parseList (s : String) : Option (List Bytes) :=
  if s == "-" then some []
  else (s.splitOn ",").mapM fun e => if e == "_" then some [] else ofHex e

def renderArgs (head : String) (args : List Bytes) : String :=
  args.foldl (fun acc a => acc ++ " " ++ hexOrDash a) head

def renderVerdict : Verdict → String
  | .drop => "drop"
  | .forward args => renderArgs "fwd" args

def renderFail : KeyFilter.Fail → String
  | .panic => "panic"
  | .hang => "hang"

def renderModel : KeyFilter.M (List Bytes × Bool) → String
  | .error e => renderFail e
  | .ok (_, true) => "drop"
  | .ok (args, false) => renderArgs "fwd" args

def toInt? (s : String) : Option Int := s.toInt?

/-- `seq`: a command stream through the parser model of C03 with THIS property's specification as the key filter:
    every command gets the verdict it gets alone (`filterSpec`), whatever came before it -/
def seqLine (pc startDb base cmds : String) : String :=
  match RSVerif.Drive.C03.parsePcfg pc, startDb.toInt?, base.toInt?, RSVerif.Drive.C03.parseCmds cmds with
  | some p, some sd, some b, some cs =>
    let scfg : FilterCfg := ⟨p.kw, p.kb⟩
    let mcfg : KeyFilter.Config := ⟨p.kw, p.kb⟩
    let kf (cmd : String) (args : List Bytes) : List Bytes × Bool :=
      match filterSpec scfg (RSVerif.Drive.C03.stringToBytes cmd) args with
      | some (.forward a) => (a, false)
      | some .drop => (args, true)
      | none =>
        match KeyFilter.handle mcfg (RSVerif.Drive.C03.stringToBytes cmd) args with
        | .ok r => r
        | .error _ => (args, false)
    let cfg := { p.toCfg with keyFilter := kf }
    let (items, ab) := RSVerif.IncrParse.parseFull cfg sd b cs
    s!"items={RSVerif.Drive.C03.fmtItems items} abort={if ab then 1 else 0}"
  | _, _, _, _ => "badcase"

def handle (line : String) : String :=
  match line.splitOn " " with
  | ["seq", pc, sd, b, cmds] => seqLine pc sd b cmds
  | op :: wl :: bl :: rest =>
    match parseList wl, parseList bl with
    | some wl, some bl =>
      let scfg : FilterCfg := ⟨wl, bl⟩
      let mcfg : KeyFilter.Config := ⟨wl, bl⟩
      if op == "p" then
        -- several commands filtered at the same moment: each gets the answer it gets alone
        " | ".intercalate (rest.map fun t =>
          match t.splitOn ":" with
          | [n, as] =>
            match ofHex n, (as.splitOn ",").mapM ofHex with
            | some name, some args =>
              match filterSpec scfg name args with
              | some v => renderVerdict v
              | none => "nodemand"
            | _, _ => "badcase"
          | _ => "badcase")
      else if op == "d" || op == "w" || op == "s" then
        match rest with
        | name :: args =>
          match ofHex name, args.mapM ofHex with
          | some name, some args =>
            if op != "d" && (KeyFilter.parseArgs name args).isNone then "parseerr"
            else
              match filterSpec scfg name args with
              | some v => renderVerdict v
              | none =>
                -- the argument count is not valid for the command: the property makes no demand; the model's outcome
                -- is printed for information and not compared (vlib/props_c13.py `equal`)
                if op == "d" then "nodemand:" ++ renderModel (KeyFilter.handle mcfg name args)
                else match KeyFilter.handleWire mcfg name args with
                  | some r => "nodemand:" ++ renderModel r
                  | none => "parseerr"
          | _, _ => "badcase"
        | _ => "badcase"
      else if op == "explicit-row:getMatchKeys(first,last,step)-model-tie" then
        match rest with
        | f :: l :: s :: args =>
          match toInt? f, toInt? l, toInt? s, args.mapM ofHex with
          | some f, some l, some s, some args =>
            match KeyFilter.getMatchKeys (fun k => !KeyFilter.filterKey mcfg k) ⟨[], f, l, s⟩ args with
            | .error e => renderFail e
            | .ok (na, p) => renderArgs (if p then "ok 1" else "ok 0") na
          | _, _, _, _ => "badcase"
        | _ => "badcase"
      else "badcase"
    | _, _ => "badcase"
  | _ => "badcase"

end RSVerif.Drive.C13
