import RSVerif.Model.Backlog
/-
Line protocol for C18 (see go/harness/c18.go for the same cases run on the real code).

  roff  <blen> <size> <rpos> <wpos>      -> "<maxlen> <offset>"      (rpos ≤ wpos)
  woff  <blen> <size> <wpos>             -> "<maxlen> <offset>"
  align <size> <unit>                    -> "<n>"
  sched <mem|file> <request> <op> …      -> one token per op (plus one per reader a write/close woke)

A schedule is serialised: each op is applied through `Sys.step` (the function the theorems of
Properties/C18 are about).  `Write` is the loop over `writeSome`; after every chunk each reader that was
parked takes its next `readSomeAt` step (in id order) before the next chunk is written.

Once the schedule has closed the backlog, the property only promises that reads/writes fail with SOME
error and move no bytes.  What the pinned code answers beyond that (which error, `DataRange` = (0,0)
without error, validity, zero-length calls) is printed after a `~`; ./check strips `~…` from every token
before comparing, so it is kept as a diagnostic but is not part of the verdict.
-/
namespace RSVerif.Drive.C18
open RSVerif RSVerif.Backlog

def errName : Option Err → String
  | none => "ok"
  | some .closed => "closed"
  | some .invalidOffset => "invalid"
  | some .eof => "eof"
  | some (.custom c) => s!"custom{c}"

def fnv (bs : Bytes) : UInt64 :=
  bs.foldl (fun h b => (h ^^^ b.toUInt64) * 1099511628211) 14695981039346656037

def hex64 (x : UInt64) : String := toHex (le64 x).reverse

/-- bytes of a read: hex up to 16 bytes, else an FNV-1a digest -/
def showBytes (bs : Bytes) : String :=
  if bs.length ≤ 16 then hexOrDash bs else "#" ++ hex64 (fnv bs)

/-- data of a generated write: byte i = (add + mul·i) mod 251 -/
def pattern (len add mul : Nat) : Bytes :=
  (List.range len).map fun i => UInt8.ofNat ((add + mul * i) % 251)

def parkedIds (s : Sys) : List Nat :=
  (List.range s.rds.length).filter fun i =>
    match s.rds[i]? with
    | some ⟨_, .parked _ _ _⟩ => true
    | _ => false

/-- error rendering: exact while open; after the close only "some error" is compared -/
def showErr (closed : Bool) (err : Option Err) : String :=
  if closed && err.isSome then "err~" ++ errName err else errName err

def showDone (closed : Bool) (tag : String) (r k n : Nat) (bs : Bytes) (err : Option Err) : String :=
  if closed && k = 0 then s!"{tag}{r}=~{n}:{showBytes bs}:{errName err}"
  else s!"{tag}{r}={n}:{showBytes bs}:{showErr closed err}"

/-- buffer length of the call thread r is in -/
def bufLen (s : Sys) (r : Nat) : Nat :=
  match s.rds[r]? with
  | some ⟨_, .running k _ _⟩ => k
  | some ⟨_, .parked k _ _⟩ => k
  | _ => 0

/-- the readers in `ids` (just woken) each take one `readSomeAt` step -/
def stepWoken (closed : Bool) : Sys → List Nat → List String → Sys × List String
  | s, [], acc => (s, acc)
  | s, r :: rs, acc =>
    let k := bufLen s r
    match s.step (.step r) with
    | (s', .done _ _ n bs err) => stepWoken closed s' rs (showDone closed "k" r k n bs err :: acc)
    | (s', .parked _) => stepWoken closed s' rs (s!"z{r}" :: acc)
    | (s', _) => stepWoken closed s' rs (s!"z{r}" :: acc)   -- still parked: it was not woken

/-- `bl.Write(b)`, chunk by chunk; `acc` collects the wake tokens (reversed) -/
def writeLoop (closed : Bool) : Nat → Sys → Bytes → Nat → List String → Sys × String × List String
  | 0, s, _, _, acc => (s, "w=spin", acc)
  | fuel + 1, s, bs, nn, acc =>
    let parked := parkedIds s
    match s.step (.writeSome bs) with
    | (s1, .wrote n err) =>
      match stepWoken closed s1 parked acc with
      | (s2, acc2) =>
        if err ≠ none then (s2, s!"w={nn + n}:{showErr closed err}", acc2)
        else if (bs.drop n).length = 0 then (s2, s!"w={nn + n}:ok", acc2)
        else writeLoop closed fuel s2 (bs.drop n) (nn + n) acc2
    | (s1, _) => (s1, "w=?", acc)

def doWrite (closed : Bool) (s : Sys) (bs : Bytes) : Sys × List String :=
  match writeLoop closed (bs.length + 2) s bs 0 [] with
  | (s', w, acc) =>
    let w := if closed && bs.isEmpty then "w=~" ++ (w.drop 2).toString else w
    (s', w :: acc.reverse)

def doClose (s : Sys) (e : Option Err) : Sys × List String :=
  let parked := parkedIds s
  match s.step (.close e) with
  | (s1, .closed err) =>
    match stepWoken true s1 parked [] with
    | (s2, acc) => (s2, s!"c=~{errName err}" :: acc.reverse)
  | (s1, _) => (s1, ["c=?"])

/-- start a `ReadAt` on thread r and let it take its first `readSomeAt` step -/
def doRead (closed : Bool) (s : Sys) (tag : String) (r k : Nat) (start : Op) : Sys × List String :=
  match s.step start with
  | (s1, .began _) =>
    match s1.step (.step r) with
    | (s2, .done _ _ n bs err) => (s2, [showDone closed tag r k n bs err])
    | (s2, .parked _) => (s2, [s!"{tag}{r}=park"])
    | (s2, _) => (s2, [s!"{tag}{r}=?"])
  | (s1, _) => (s1, ["x"])

def tf (b : Bool) : String := if b then "T" else "F"

/-- `closed` = the schedule has already closed the backlog (see the header about `~`) -/
def doOp (closed : Bool) (s : Sys) (tok : String) : Sys × List String :=
  let q := if closed then "~" else ""
  match tok.splitOn ":" with
  | ["n"] =>
    match s.step .newReader with
    | (s', .reader r err) => (s', [s!"n={q}{r}:{errName err}"])
    | (s', _) => (s', ["n=?"])
  | ["w", h] =>
    match ofHex h with
    | some bs => doWrite closed s bs
    | none => (s, ["badop"])
  | ["g", len, add, mul] =>
    match len.toNat?, add.toNat?, mul.toNat? with
    | some len, some add, some mul => doWrite closed s (pattern len add mul)
    | _, _, _ => (s, ["badop"])
  | ["r", r, k] =>
    match r.toNat?, k.toNat? with
    | some r, some k => doRead closed s "r" r k (.begin r k)
    | _, _ => (s, ["badop"])
  | ["a", r, k, o] =>
    match r.toNat?, k.toNat?, o.toNat? with
    | some r, some k, some o => doRead closed s "a" r k (.beginAt r k o)
    | _, _, _ => (s, ["badop"])
  | ["s", r, o] =>
    match r.toNat?, o.toNat? with
    | some r, some o =>
      match s.step (.seekTo r o) with
      | (s', .valid _ b) => (s', [s!"s{r}={q}{tf b}"])
      | (s', _) => (s', ["x"])
    | _, _ => (s, ["badop"])
  | ["v", r] =>
    match r.toNat? with
    | some r =>
      match s.step (.isValid r) with
      | (s', .valid _ b) => (s', [s!"v{r}={q}{tf b}"])
      | (s', _) => (s', ["x"])
    | none => (s, ["badop"])
  | ["o", r] =>
    match r.toNat? with
    | some r =>
      match s.step (.offset r) with
      | (s', .off _ o) => (s', [s!"o{r}={o}"])
      | (s', _) => (s', ["x"])
    | none => (s, ["badop"])
  | ["d"] =>
    match s.step .dataRange with
    | (s', .range lo hi err) => (s', [s!"d={q}{lo}:{hi}:{errName err}"])
    | (s', _) => (s', ["d=?"])
  | ["cx"] => doClose s none   -- the OS refuses the truncate of the ring file: closing closes all the same
  | ["c"] => doClose s none
  | ["e", c] =>
    match c.toNat? with
    | some c => doClose s (some (.custom c))
    | none => (s, ["badop"])
  | _ => (s, ["badop"])

def isCloseTok (t : String) : Bool := t == "c" || t == "cx" || t.startsWith "e:"

def runOps : Bool → Sys → List String → List (List String) → List (List String)
  | _, _, [], acc => acc.reverse
  | closed, s, t :: ts, acc =>
    match doOp closed s t with
    | (s', out) => runOps (closed || isCloseTok t) s' ts (out :: acc)

def handle (line : String) : String :=
  match line.splitOn " " with
  | ["roff", a, b, c, d] =>
    match a.toNat?, b.toNat?, c.toNat?, d.toNat? with
    | some blen, some size, some rpos, some wpos =>
      let (m, o) := roffset blen size rpos wpos; s!"{m} {o}"
    | _, _, _, _ => "badcase"
  | ["woff", a, b, c] =>
    match a.toNat?, b.toNat?, c.toNat? with
    | some blen, some size, some wpos => let (m, o) := woffset blen size wpos; s!"{m} {o}"
    | _, _, _ => "badcase"
  | ["align", a, b] =>
    match a.toNat?, b.toNat? with
    | some size, some unit => s!"{align size unit}"
    | _, _ => "badcase"
  | ["stress", backend, req, total, _chunk, _seed] =>
    -- whatever the interleaving of writer, reader and accessor calls: every call returns, and at the end the range is the most
    -- recent min(total, capacity) bytes (`data_range_recent`)
    match req.toNat?, total.toNat? with
    | some req, some total =>
      let cap := if backend == "mem" then (Store.newMem req).size else (Store.newFile req #[]).size
      s!"ok d={total - min total cap}:{total}"
    | _, _ => "badcase"
  | "sched" :: backend :: req :: ops =>
    match req.toNat? with
    | some req =>
      let s? : Option Sys :=
        if backend == "mem" then some (Sys.newMem req)
        else if backend == "file" then some (Sys.newFile req #[])
        else none
      match s? with
      | some s => " ".intercalate ((runOps false s ops []).map fun toks => " ".intercalate toks)
      | none => "badcase"
    | none => "badcase"
  | _ => "badcase"

end RSVerif.Drive.C18
