import RSVerif.Basic
/- C18: line-protocol driver (stub) -/
namespace RSVerif.Drive.C18
def handle (_line : String) : String := "unimplemented"
end RSVerif.Drive.C18
