import RSVerif.Model.LogFlow
import RSVerif.Generated.LogFlow
import RSVerif.Spec.LogFlow
/- line protocol for C19: what the *property* predicts for each case of go/harness/c19.go.

   `<scenario> <level> <fakemode> <srcpw> <tgtpw>`  →  `clean`, and for the configuration echo additionally
   the password fields that must show the mask: every field of `Configuration` that is one of the
   generated `secretFields` (NOT the generated `maskedFields`: if a mask line disappears from
   GetSafeOptions the prediction stays and the implementation's answer differs).

   `offending` (used by the check to name sites when a theorem stops building): the output sites the
   kernel-checked predicate `siteClean tainted taintedTypes` rejects, the unmasked secret fields, and
   whether the closure certificate still holds — evaluated through the same definitions as the theorems. -/
namespace RSVerif.Drive.C19
open RSVerif.LogFlow RSVerif.Generated.LogFlow

def confFields : List Field := Spec.LogFlow.fieldsOfRow configurationType

def mustBeMasked : List String :=
  (confFields.filter (fun f => secretFields.contains f.loc)).map (·.name)

def locName (l : Nat) : String :=
  match taintedNames.find? (fun p => p.1 == l) with
  | some p => p.2
  | none => s!"loc#{l}"

def badArgs (s : Site) : List String :=
  (s.args.filter (fun a => !argClean tainted taintedTypes a)).map fun a =>
    let why := if a.ty.reaches taintedTypes then "type reaches a secret field"
      else "reads " ++ ", ".intercalate ((a.locs.filter (fun l => tainted.testBit l)).map locName)
    s!"{a.src} [{why}]"

def offending : List String :=
  (sites.filter (fun s => !siteClean tainted taintedTypes s)).map fun s =>
    s!"{s.loc} {s.callee}({"; ".intercalate (badArgs s)})"

def unmasked : List String :=
  (confFields.filter (fun f => secretFields.contains f.loc && !maskedFields.contains f.loc)).map (·.name)

def handle (line : String) : String :=
  match line.splitOn " " with
  | ["offending"] =>
    let parts := (if graph.closed tainted taintedTypes then [] else ["closure-certificate-fails"]) ++
      (if unmasked.isEmpty then [] else ["unmasked-by-GetSafeOptions=" ++ ",".intercalate unmasked]) ++
      offending.map (fun s => "site=" ++ s)
    if parts.isEmpty then "none" else " | ".intercalate parts
  | [scenario, _level, _fake, _spw, _tpw] =>
    if scenario == "echo" then "clean masked=" ++ ",".intercalate mustBeMasked else "clean"
  | _ => "badcase"

end RSVerif.Drive.C19
