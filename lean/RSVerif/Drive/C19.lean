import RSVerif.Basic
/- C19: line-protocol driver (stub) -/
namespace RSVerif.Drive.C19
def handle (_line : String) : String := "unimplemented"
end RSVerif.Drive.C19
