import RSVerif.Drive.C01
import RSVerif.Drive.C02
import RSVerif.Drive.C03
import RSVerif.Drive.C04
import RSVerif.Drive.C05
import RSVerif.Drive.C06
import RSVerif.Drive.C07
import RSVerif.Drive.C08
import RSVerif.Drive.C09
import RSVerif.Drive.C10
import RSVerif.Drive.C11
import RSVerif.Drive.C12
import RSVerif.Drive.C13
import RSVerif.Drive.C14
import RSVerif.Drive.C15
import RSVerif.Drive.C16
import RSVerif.Drive.C17
import RSVerif.Drive.C18
import RSVerif.Drive.C19
import RSVerif.Drive.C20
/- rsdriver <Cxx>: reads case lines on stdin, prints the model/spec prediction per line. Core Lean only. -/
open RSVerif

def handlerOf : String → Option (String → String)
  | "C01" => some Drive.C01.handle
  | "C02" => some Drive.C02.handle
  | "C03" => some Drive.C03.handle
  | "C04" => some Drive.C04.handle
  | "C05" => some Drive.C05.handle
  | "C06" => some Drive.C06.handle
  | "C07" => some Drive.C07.handle
  | "C08" => some Drive.C08.handle
  | "C09" => some Drive.C09.handle
  | "C10" => some Drive.C10.handle
  | "C11" => some Drive.C11.handle
  | "C12" => some Drive.C12.handle
  | "C13" => some Drive.C13.handle
  | "C14" => some Drive.C14.handle
  | "C15" => some Drive.C15.handle
  | "C16" => some Drive.C16.handle
  | "C17" => some Drive.C17.handle
  | "C18" => some Drive.C18.handle
  | "C19" => some Drive.C19.handle
  | "C20" => some Drive.C20.handle
  | _ => none

partial def loop (h : IO.FS.Stream) (out : IO.FS.Stream) (f : String → String) : IO Unit := do
  let line ← h.getLine
  if line.isEmpty then return ()
  let l := if line.endsWith "\n" then (line.dropEnd 1).toString else line
  out.putStrLn (f l)
  loop h out f

def main (args : List String) : IO UInt32 := do
  match args with
  | [p] =>
    match handlerOf p with
    | some f => loop (← IO.getStdin) (← IO.getStdout) f; return 0
    | none => IO.eprintln s!"unknown property {p}"; return 2
  | _ => IO.eprintln "usage: rsdriver Cxx"; return 2
