import RSVerif.Drive.C11
/- rsdriver <Cxx>: reads case lines on stdin, prints the model/spec prediction per line. Core Lean only. -/
open RSVerif

def handlerOf : String → Option (String → String)
  | "C11" => some Drive.C11.handle
  | _ => none

partial def loop (h : IO.FS.Stream) (out : IO.FS.Stream) (f : String → String) : IO Unit := do
  let line ← h.getLine
  if line.isEmpty then return ()
  let l := if line.endsWith "\n" then (line.dropEnd 1).toString else line
  out.putStrLn (f l)
  loop h out f

def main (args : List String) : IO UInt32 := do
  match args with
  | [p] =>
    match handlerOf p with
    | some f => loop (← IO.getStdin) (← IO.getStdout) f; return 0
    | none => IO.eprintln s!"unknown property {p}"; return 2
  | _ => IO.eprintln "usage: rsdriver Cxx"; return 2
