from props import PROPS


def _nontrivial(case, impl):
    # arithmetic cases all count; a schedule counts when it wrote, read and either parked a reader,
    # hit the invalid-offset error, or wrapped the ring
    if not case.startswith("sched"):
        return True
    return ("w=" in impl) and ("park" in impl or ":invalid" in impl or " k" in impl)


def _strip(line):
    # after the schedule closed the backlog the property only promises "an error, no bytes"; what the
    # pinned code answers beyond that is printed after '~' as a diagnostic and is not compared
    return [t.split("~", 1)[0] for t in line.split()]


def _equal(case, impl, model):
    return _strip(impl) == _strip(model)


def _signature(case, impl, model):
    i, m = _strip(impl), _strip(model)
    for a, b in zip(i, m):
        if a != b:
            return "op=" + a.split("=")[0].rstrip("0123456789")
    return "length"


PROPS["C18"] = {
    "level_text": "Kernel-checked theorems over a model of pkg/libs/io/backlog exactly as coded (roffset/woffset, memory and file "
                  "stores, readSomeAt/writeSome/Write/CloseWithError/DataRange/NewReader, Reader.Read/SeekTo/IsValid; every critical "
                  "section under bl.mu is one atomic step, any number of reader threads each idle/running/parked, Broadcast wakes all): "
                  "for EVERY positive capacity, both backends, every total written (any number of wrap-arounds) and every interleaving, "
                  "the ring invariant (cell q % size holds hist[q] for the last min(w,size) offsets) holds; between any two DataRange calls of an open "
                  "backlog both ends only move forward and the width stays within the capacity (range_monotone); a completed read returns exactly "
                  "hist[o..o+n) with n>=1; the invalid-offset error occurs iff o > w or o + size < w; a read parks iff o = w on an open "
                  "backlog, and nobody stays parked after a write that added bytes or after Close (woken readers get the written bytes / "
                  "the closed error); DataRange is the last min(w,size) bytes; IsValid iff the position is inside it; Write never blocks "
                  "and appends exactly its argument. The model is tied to the Go code by serialised differential schedules on both backends.",
    "level_note": "Trusted: Lean kernel; the hand-written model is tied to the Go code by differential schedules only (one atomic op at a "
                  "time; parked/woken confirmed through sync.Cond's waiter count); sync.Mutex/Cond, os.File.ReadAt/WriteAt/Truncate semantics; "
                  "uint64 wrap-around of positions is not modelled; after Close, DataRange answers (0,0) and a custom close error is lost "
                  "(inverted nil test) - modelled as written, outside the property.",
    "rule": "(stress: a writer, a following reader and two goroutines calling DataRange/IsValid/Offset/SeekTo all the while — every call returns, the range only moves forward and ends as the last min(total, capacity) bytes.) (op cx: the descriptor of the ring file is closed first so that the truncate inside close() is refused, then Close — in the random schedules and in 36 (thorough 200) short file-backend schedules closing in every way with 0-4 readers waiting.) (whenever a schedule closes the backlog while readers are parked, store.close() is made to take 4 ms through an add-only hook.) roff/woff/align: every combination of size in {1,2,3,7,4096,8192,12288,4MiB}, write position at 0/1/2/5 laps +-2, "
            "reader distance in {0,1,2,size-1,size,size+1,random}, buffer length in {0,1,2,size-1,size,size+1,2size,random}; "
            "sched: random serialised schedules (20..1500 ops) of Write(literal or generated pattern; lengths 0, to-the-seam+-1, size+-1, "
            "multiples of size, small), NewReader (up to 5), SeekTo to offsets around both ends of the window / the seam / 0 / 2^64-1, "
            "Reader.Read and ReadAt with buffers 0..2*size, IsValid, Offset, DataRange, Close/CloseWithError in a third of the schedules "
            "followed by more ops; memory capacities 4096/8192/12288 and file capacities 4MiB (8MiB thorough) with totals several times "
            "the capacity. non-trivial = arithmetic case, or a schedule that wrote and in which a reader parked, was woken, or got the "
            "invalid-offset error; distinct by case text",
    "nontrivial": _nontrivial,
    "equal": _equal,
    "signature": _signature,
    "trusted": ["Go runtime: sync.Mutex/sync.Cond (no spurious wake-ups), os.File.ReadAt/WriteAt/Truncate modelled as a growable byte array",
                "harness: reads sync.Cond's notifyList counters by reflection (under bl.mu) to decide 'parked'; falls back to a 60 ms grace period",
                "Write with readers parked is driven chunk by chunk through the real writeSome (one legal interleaving of Write)"],
    "assumptions": ["positions are natural numbers: uint64 wrap-around after 2^64 bytes is not modelled",
                    "the file handed to NewFileBacklog is not touched by anyone else; OS write/read errors are not modelled"],
}
