from props import PROPS


def _c10_nontrivial(case, impl):
    """non-trivial = the real code did something the property talks about:
    dec: at least one value decoded or an error other than a bare EOF on an empty stream;
    enc: any tree; args/chg: any; itos: any; pint: texts of 2+ bytes."""
    f = case.split(" ")
    if f[0] == "dec":
        return len(f[1]) >= 4  # 2+ bytes of stream
    if f[0] == "pint":
        return len(f[1]) >= 4
    return True


def _c10_equal(case, impl, model):
    """dec/decbig: values, offsets and unread counts must agree and both must end in an error; WHICH error (eof, crlf,
    badint, … or the run-time refusal of an absurd length) is not part of the property ("yields an error, never a value"),
    so a decoder that reports a different one for the same malformed input is not a violation."""
    if impl == model:
        return True
    kind = case.split(" ", 1)[0]
    if kind == "enc":
        # a tree the encoder accepts but whose bytes do not decode (a simple string holding LF): both refuse; which error is not compared
        a, sa, _ = impl.rpartition(" !")
        b, sb, _ = model.rpartition(" !")
        return bool(sa) and bool(sb) and a == b
    if kind not in ("dec", "decbig"):
        return False
    a, sa, ca = impl.rpartition("!")
    b, sb, cb = model.rpartition("!")
    if not sa or not sb or ca.startswith("inconsistent") or cb.startswith("inconsistent"):
        return False
    return a == b


PROPS["C10"] = {
    "level_text": "Kernel-checked theorems about a Lean model of pkg/redis (decoder with its explicit offset counter, encoder incl. the "
                  "pre-rendered imap table whose bounds are regenerated from the source, ParseArgs/ChangeArgsToResp): round trip for EVERY "
                  "well-formed value tree (any depth/size, nil vs empty, all int64, binary payloads) after any number of keep-alive newlines and "
                  "before any following bytes, with the offset advanced by exactly the bytes consumed; whole streams; offset_exact for EVERY "
                  "input on which decode succeeds (consumed = a non-empty prefix, rest untouched, offset advance = its length), also along "
                  "streams; rejection of missing CR, bad bulk terminator, lengths < -1, non-numeric lengths, an unknown type byte inside an "
                  "array and every strict prefix of an encoding; parseInt(fmtInt i) = i on all int64; ParseArgs∘ChangeArgsToResp. "
                  "The pinned behaviour (D13, inline commands over-count by one) is kept as a second model with a kernel-checked "
                  "counterexample; the main model is the tree with fixes/C10-inline-offset.patch. The model is tied to the Go code by a "
                  "differential run through the real MustDecodeOpt/Encode/ParseArgs with a fragmenting reader.",
    "level_note": "Trusted: Lean kernel; factgen extraction of the imap bounds and type bytes; bufio.Reader/io.ReadFull semantics (the model "
                  "reads from a plain byte list); strconv.ParseInt/FormatInt (restated in Lean, differential-tested at the boundaries); "
                  "hand-written decoder model tied by differential testing only (values, error class, offset after each value, bytes unread).",
    "rule": "enc: random trees (depth 0..6, chains to depth 7, command arrays; ints at -1025..-1023, 523263..524289, table ends, ±2^63 edges, "
            "random magnitudes; binary payloads incl. CR/LF/type bytes, sizes 0,1,2,14..18,4093..4098 and up to 80 KB in thorough); "
            "dec: streams of 1-5 values/inline command lines with interleaved LF keep-alives, optionally truncated, served through a reader "
            "returning random fragment sizes (1..7 or up to 5000 bytes, isolated empty reads, final data with or without io.EOF) into bufio "
            "readers of size 16..80 or default; EVERY position of ~200 small encodings x (14 chosen bytes + 4 neighbours; all 255 values for "
            "12 of them, for all in thorough), every truncation, one-byte deletion and insertion, with and without a following sentinel value; "
            "decbig: arrays of 255..5000 elements (thorough up to 200000; flat, nested, one short, followed by a value); bulk values of 4094..262145 bytes and around 64 KiB and 1 MiB (thorough: up to 20 MB) alone, behind keep-alives, inside a "
            "command array and followed by another value, cut short or with a wrong terminator (long values compared by length and FNV-1a); "
            "itos: table boundaries ±8 (thorough: every integer -1100..525400) + random; pint: integer texts around ±2^63, signs, zeros, foreign "
            "bytes; args/chg: command arrays incl. nil/empty command and nil arguments, non-array and non-bulk shapes. "
            "Compared per case: canonical tree rendering, that the stream ends in an error (the class eof|crlf|badint|byteslen|arraylen|badtype|alloc is reported, not compared), decoder offset after "
            "each value, bytes left unread. non-trivial = streams/texts of at least 2 bytes and every other case; distinct by case text",
    "nontrivial": _c10_nontrivial,
    "equal": _c10_equal,
    "trusted": [
        "Go bufio.Reader (ReadByte/UnreadByte/ReadBytes), io.ReadFull, bytes.Buffer/bufio.Writer: modelled as operations on the plain byte sequence",
        "strconv.ParseInt(s,10,64)/FormatInt/Itoa: restated in Lean (parseInt/fmtInt), proved inverse there, assumed equal to Go's (compared on every pint/itos case)",
        "memory: make([]byte, n+2)/make([]Resp, n) for lengths beyond 2^24 are not exercised (only the int64 overflow of n+2 is modelled); "
        "strings.ToLower on non-ASCII command names is outside the model",
    ],
    "assumptions": [
        "well-formedness for the round trip: simple strings/errors contain no LF (the encoder does not check), integers are int64, lengths ≤ 2^63-3",
        "after a decode error the decoder is not used again (MustDecodeOpt aborts), so the offset after an error is not an observable",
    ],
}
