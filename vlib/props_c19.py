from props import PROPS
import re


def _strip(line):
    return re.sub(r"\s+n=\d+$", "", line)


def _extra(ctx, spec, broken):
    """When a C19 theorem no longer builds, name the output sites / mask lines the kernel-checked
    predicates reject (evaluated by the compiled driver through the same definitions)."""
    if not any(b[0] == "lake-build" for b in broken):
        return
    try:
        rc, out, err = ctx.driver([ctx.pid], b"offending\n", timeout=120)
        text = out.decode("utf-8", "replace").strip()
    except Exception as e:  # noqa
        text = "driver could not evaluate the site table: %r" % (e,)
    broken.append(("c19-static-flow", "flow theorem fails at: " + text))
    ctx.notes.append(text)


PROPS["C19"] = {
    "level_text": "Kernel-checked non-interference over a flow/type abstraction of the program that is REGENERATED from the current "
                  "source on every run (go/types over all of redis-shake/...): ~3100 storage locations, ~2650 value-flow edges, ~360 "
                  "static-type hand-over edges, every output site (278 log.*, REST /conf and /metric handler results, fmt.Print*, panic, "
                  "prometheus labels, HTTP posts) with per-argument static type and read locations. Theorems: the generated candidate "
                  "taint sets contain the six configured password fields (and every password-named location) and are closed under all "
                  "edges (closure_cert); no output argument is tainted by type or by location (no_sink_tainted), hence — by a hand-proved "
                  "least-fixpoint lemma — no derivation of the extracted rules reaches an output (no_sink_reachable); GetSafeOptions "
                  "overwrites every secret Configuration field with a literal (safe_options_masks) and the value it returns reaches no "
                  "secret; hand-proved render/mask non-interference of the formatting model for all values and all password strings. "
                  "Dynamic support: the real sync/restore/rump/dump/decode run paths, the configuration echo and the status documents "
                  "are executed against fake Redis peers (co-operative, rejecting, mute, down, resetting every connection, TLS mismatch) and utils.AuthPassword on connections failing at each point with sentinel passwords and every output line is searched.",
    "level_note": "The theorem is about the EXTRACTED graph, not about Go semantics: soundness of the extractor's edge rules "
                  "(go/logflow/main.go: assignments, field-based structs, calls/returns, closures, channel sends, CHA for interface "
                  "methods, signature matching for function values, a default 'everything flows everywhere' summary for unanalysed "
                  "callees with a short trusted exception list) is TRUSTED, not proved. Reflection and interface dispatch are "
                  "over-approximated by static type (a value handed to interface{} taints the destination iff its static type can "
                  "reach a secret field; format verbs are not interpreted). Bytes sent to the Redis peers (AUTH) are not outputs; peers "
                  "are assumed not to echo secrets; connection handles carry no text. Implicit flows (branching on a secret) and "
                  "numeric/boolean values are ignored. Package main does not type-check on the pinned tree and is analysed with "
                  "partial type information; pkg/... and third-party code is not analysed (summaries). The dynamic run is testing.",
    "rule": "each case = one real run path (configuration echo | CmdSync standalone / cluster source / cluster target / resume | CmdRestore | CmdRump | CmdDump | "
            "CmdDecode | source re-discovery by the slot supervisor over a shard with two masters, twice) x log level x peer behaviour (co-operative | rejects AUTH | mute | target down | source down) x two distinct 24-byte sentinels (plain, with "
            "format verbs, quotes, JSON/HTML-special characters), run in a child process; all log output (file:line per statement), the "
            "/conf and /metric documents and GetDetailedInfo are searched for the sentinels raw, JSON-/Go-quoted, URL-escaped, base64, "
            "hex and as a %v byte list. non-trivial = the child printed at least 3 lines; distinct by case text",
    "nontrivial": lambda c, i: (lambda m: bool(m) and int(m.group(1)) >= 3)(re.search(r"n=(\d+)$", i)),
    "equal": lambda c, i, m: _strip(i) == m,
    "signature": lambda c, i, m: "C19 " + _strip(i).split(" ")[0],
    "trusted": ["go/logflow (go/types-based extractor, ~2500 lines): its edge rules ARE the model; summaries for unanalysed callees "
                "(strings/strconv/fmt.Sprint*/errors are pure; nimo ConfigLoader.Load; reflect.TypeOf; redis-go-cluster NewCluster; "
                "Write/Do/Send on connections and files are transmissions, not outputs)",
                "golang.org/x/tools/go/packages v0.29.0 and go/types",
                "the formatting model (render/sprintf/JSON) is a model of fmt and encoding/json, tied only by the dynamic echo cases"],
    "assumptions": ["Redis peers do not echo credentials in replies or errors",
                    "third-party libraries and pkg/... do not log their arguments",
                    "no implicit flows; lengths/hashes/numeric conversions of a password are not treated as leaks"],
    "extra": _extra,
}
