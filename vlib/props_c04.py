"""C04 — check configuration (see design_notes/C04.md). Shares the trace machinery of props_c03."""
from props import PROPS
import props_c03 as _c03

PROPS["C04"] = {
    "level_text": "Kernel-checked theorems over ALL histories handed to the sender, ALL interleavings of arrivals and ticks, thresholds and "
                  "ALL cut positions of the command sequence received by the target: every group is multi; cmds; [hset runid; hset version]; "
                  "hset offset(last cmd); exec (a lone ping bare), a select only first; after any cut the dataset equals the history up to the "
                  "offset the loader must return and that checkpoint lies in the database selected at that point; cutting anywhere and "
                  "resuming from offset+1 in the recorded database ends with the dataset of the uninterrupted run (data commands arbitrary, "
                  "not idempotent). Stated over the Offset/Db fields the sender is handed (sender level, see D9). Tied to the real sender by "
                  "acceptance of recorded traces and by enumerating every cut position of every recorded wire.",
    "level_note": "Trusted: Lean kernel; factgen; MiniRedis MULTI/EXEC semantics; models tied to the Go code by sampled traces; that the tag of a "
                  "command equals the source replication offset is C08's (D9) and not claimed here.",
    "rule": "send/pipe scenarios with resume enabled (real sendTargetCommand, real ticker, real parser in pipe cases incl. resumed starts with "
            "startDbId/base), delays {0,50,700 ms}, three threshold settings; verdict = trace accepted by the automaton + for every cut position of the "
            "recorded wire: dataset = history up to the newest stored offset, checkpoint db = selected db, runid+version present, model-resume = full run. "
            "Pipe cases with one command argument of 64 KiB..1 MiB (thorough: 65534..2.5 MB): the offsets behind it depend on the decoder counting every byte of it. "
            "Every scenario is non-trivial; distinct by case text",
    "nontrivial": lambda c, i: True,
    "equal": _c03.make_equal("C04"),
    "signature": _c03.make_signature("C04"),
    "extra": _c03.make_extra("C04"),
    "trusted": ["MiniRedis: MULTI queues, EXEC applies atomically, a lost connection drops the queue; queue-time rejection (EXECABORT) not modelled",
                "the checkpoint loader (C14) is represented by its specification NewestCheckpoint (greatest stored offset over the databases)",
                "Go runtime: channel FIFO, time.Ticker"],
    "assumptions": ["sender level (C04_partial): offsets are the Offset fields handed to the sender, strictly increasing; equality with the source "
                    "replication offset needs a constant tag base (D9, C08)",
                    "WF as in C03; forwarded commands are read by the target as SELECT/PING/data (not MULTI/EXEC/HSET on the checkpoint key)",
                    "stale checkpoint offsets on the target are below every offset of the run (StaleBelow); resume_equiv for a checkpoint written by the cut run"],
}
