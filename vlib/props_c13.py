from props import PROPS


def _fields(case):
    f = case.split()
    return f[0], f[1], f[2], f[3:]


def _nontrivial(case, impl):
    """the filter had something to decide: a key filter is configured and the outcome is not the unchanged command
    (a key was removed, the command was dropped, or the real code panicked/hung on an out-of-contract row)"""
    try:
        op, wl, bl, rest = _fields(case)
    except Exception:
        return False
    if wl == "-" and bl == "-":
        return False
    if op.startswith("explicit-row"):
        return True
    return impl != " ".join(["fwd"] + rest[1:])


# ---- diagnosis only: is a failing case exactly the known misbehaviour of a row AS PINNED (deviation D15)? ----
_PINNED_BAD = {"unlink": (1, -1, 1), "sinterstore": (1, -1, 1), "sunionstore": (1, -1, 1), "sdiffstore": (1, -1, 1),
               "pfmerge": (1, -1, 1), "bitop": (2, -1, 1), "brpop": (1, -2, 1), "blpop": (1, -2, 1)}
_CKPT = b"redis-shake-checkpoint"


def _unhex(x):
    return b"" if x == "-" else bytes.fromhex(x)


def _plist(x):
    return [] if x == "-" else [b"" if e == "_" else bytes.fromhex(e) for e in x.split(",")]


def _pinned_outcome(first, last, step, args, passes):
    """getMatchKeys as pinned (no leading copy), transcribed; 'panic' on any out-of-range access"""
    n = len(args)
    lastkey = last - 1
    if lastkey < 0:
        lastkey += n
    keys = []
    fk = first - 1
    while fk <= lastkey:
        if fk < 0 or fk >= n:
            return "panic"
        if passes(args[fk]):
            keys.append(fk)
        fk += step
    size = len(keys) * step + n - lastkey - step
    if size < 0:
        return "panic"
    new = [None] * size
    try:
        for i, k in enumerate(keys):
            for j in range(step):
                if k + j >= n or i * step + j >= size:
                    return "panic"
                new[i * step + j] = args[k + j]
        j = 0
        for i in range(lastkey + step, n):
            if i < 0 or len(keys) * step + j >= size:
                return "panic"
            new[len(keys) * step + j] = args[i]
            j += 1
    except IndexError:
        return "panic"
    if not keys:
        return "drop"
    return " ".join(["fwd"] + [("-" if not a else a.hex()) for a in new])


def _signature(case, impl, model):
    """`cmd=<name>` only if the implementation's answer is exactly what the row as pinned would produce"""
    try:
        op, wl, bl, rest = _fields(case)
        if op not in ("d", "w", "s") or (wl == "-" and bl == "-") or len(rest) < 2:
            return None
        name = _unhex(rest[0]).decode("latin-1")
        if op != "d":
            name = name.lower()
        if name not in _PINNED_BAD:
            return None
        wlp, blp = _plist(wl), _plist(bl)

        def passes(k):
            if k.startswith(_CKPT):
                return False
            if blp:
                return not any(k.startswith(p) for p in blp)
            return any(k.startswith(p) for p in wlp)

        f, l, st = _PINNED_BAD[name]
        if impl == _pinned_outcome(f, l, st, [_unhex(a) for a in rest[1:]], passes):
            return "cmd=" + name
    except Exception:
        pass
    return None


def _equal(case, impl, model):
    """the property speaks about valid arities of table commands only:
    * d/w/s case whose argument count the command reference cannot segment -> driver prints `nodemand:<model outcome>`; not compared
      (a refactoring that turns the index panic on `RENAME a` into a graceful answer is harmless);
    * explicit-row case (model tie of the general algorithm): compared exactly, except where the model says the pinned code
      crashes or spins (panic/hang), or the call has fewer arguments than the row's firstkey -- whatever the code does there
      instead is outside every theorem (a refactoring that handles short argument lists gracefully is harmless)."""
    if model.startswith("nodemand:"):
        return True
    if case.startswith("explicit-row"):
        if model in ("panic", "hang"):
            return True
        f = case.split()
        try:
            if len(f) - 6 < int(f[3]):   # fewer arguments than `firstkey`: no key position exists at all
                return True
        except ValueError:
            pass
    return impl == model


PROPS["C13"] = {
    "level_text": "Kernel-checked theorems over the RedisCommands table regenerated from the source on every run: every row is a command "
                  "of the hand-written command reference and carries the (firstkey,lastkey,keystep) that describes that command's key layout; "
                  "hence, for EVERY row, every argument list of valid arity (unbounded length) and EVERY key predicate, the literal model of "
                  "getMatchKeys/HandleFilterKeyWithCommand (Go int index arithmetic, bounds-checked slice accesses, panic/hang outcomes) returns "
                  "exactly the specified rewrite: passing keys with their companions and all non-key arguments in the original order, rejected "
                  "iff no key passes, unchanged if all keys pass / no key filter is configured / the command is not key-addressed; also through "
                  "ParseArgs' lower-casing for any letter case; FilterKey equals the whitelist/blacklist prefix semantics. "
                  "The model is tied to the Go code by an exhaustive differential run (every table command x arities 1..9 x all 2^k pass/fail "
                  "patterns for k<=6, real prefix lists in conf.Options) whose expected lines are computed by the SPECIFICATION.",
    "level_note": "Theorems are about the tree with fixes/C13-keytable.patch (8 table rows + leading-argument copy in getMatchKeys); the pinned "
                  "rows' behaviour (D15) is kept as counterexample_* theorems and corpus cases. Trusted: Lean kernel; factgen row extraction "
                  "(cross-checked: the generator reads the running table through a hook); the hand-written model, tied by differential testing only; "
                  "command names on the replication stream are ASCII (Go's ToLower also folds non-ASCII letters).",
    "rule": "seq: streams of 3..11 commands (single- and multi-key commands with all / some / no key passing, SELECT, PING, keyless commands, mixed case) "
            "through the real parseSourceCommand, judged by the parser model with this property's stateless specification as key filter. p: 2..6 multi-key commands under one key filter, each filtered 400 times in its own goroutine, all at once (one parseSourceCommand goroutine per source node). d/w: every command of the running table and of the 65-name reference x arities 1..9 x all 2^k pass/fail patterns over the key "
            "positions (k<=6 quick, k<=9 thorough; 42 sampled patterns above), non-key arguments randomised (also shaped like failing keys), "
            "all 2^n argument patterns for n<=5 (quick: 14 commands; thorough n<=6, all commands); 7 whitelist/blacklist/both/overlapping/binary "
            "configurations + degenerate empty-prefix lists + no filter; 1/4 of the cases through redis.ParseArgs with upper/mixed-case names; "
            "commands not in the table; zero-argument commands. row: getMatchKeys on explicit rows (14 fixed incl. the pinned ones x arity 0..5 x "
            "all patterns, random rows, non-positive steps incl. ones that spin forever, bounded by a 1.5 s timeout). "
            "non-trivial = key filter configured and the outcome is not the unchanged command (something was removed, dropped, panicked); "
            "distinct by case text",
    "nontrivial": _nontrivial,
    "equal": _equal,
    # no finding is listed for C13 (the defect is repaired by fixes/C13-keytable.patch), so this suppresses nothing; it labels
    # a disagreement seen on an unpatched tree as the known D15 behaviour of that row in the replay file
    "signature": _signature,
    "trusted": ["Go: map lookup, strings.HasPrefix, strings.ToLower on ASCII, slice bounds checks and make() as modelled by rd/wr/replicate",
                "go/harness/hooks/redis-shake/filter/verif_c13.go (add-only: exposes the table rows and getMatchKeys on an explicit row)"],
    "assumptions": ["command names are ASCII (strings.ToLower also folds non-ASCII upper-case letters, e.g. the Kelvin sign, which the model does not)",
                    "valid arity = the command reference can segment the argument list (a superset of the arities Redis accepts); outside it the "
                    "model's panic/drop outcome is compared with the code but no requirement is made",
                    "keys that start with the tool's own checkpoint key never pass a key filter (part of FilterKey; treated as part of the filter)"],
}
