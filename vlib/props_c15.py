from props import PROPS


def _nontrivial(case, impl):
    f = case.split()
    if f[0] == "slot":
        return f[1] != "-"
    return True


PROPS["C15"] = {
    "level_text": "Kernel-checked theorems: both CRC16 tables in the repository (regenerated from the source on every run) equal the bit-by-bit "
                  "CRC-16/XMODEM (poly 0x1021, init 0, MSB first) for all 256 indices, hence both crc16 copies equal the specification on every byte "
                  "string (xor-linearity argument); KeyToSlot (as repaired by fixes/C15-first-tag.patch, with Go's rune-wise string iteration modelled "
                  "for arbitrary bytes) equals the Redis Cluster slot of EVERY key: CRC16 of the bytes between the first '{' and the first following "
                  "'}' if non-empty, else of the whole key, mod 16384; for every range 0<=l<=r<=16383 ChoseSlotInRange(CheckpointKey,l,r) returns a "
                  "non-empty key prefix+'-'+4 letters whose slot lies in [l,r] (DFS returns the first hit; a regenerated 16384-row witness table, "
                  "one suffix per slot, is checked row by row by the kernel against the bitwise CRC), and every key it can return is excluded by "
                  "FilterKey under every black/white list; the latency monitor's unbounded key search stops, for every such range, within 147 918 "
                  "iterations (second regenerated kernel-checked witness table) at the first synthetic key whose Redis Cluster slot is in range. The models are tied to the Go code by the differential run below.",
    "level_note": "Trusted: Lean kernel; factgen (tables, CheckpointKey, Sprintf separator, loop bounds 'a'..'z', suffix length, masks); the "
                  "hand-written models of KeyToSlot/pickSuffixDfs/FilterKey/findKeyInRange and of Go's rune iteration (utf8 decoding) are tied by "
                  "differential testing only; the external redis.GetSlot used inside pickSuffixDfs is modelled by the specification and compared on "
                  "every slot case. The unbounded loop of findKeyInRange is modelled with fuel; the theorem shows the fuel latencyMaxIndex+1 "
                  "suffices for every valid range.",
    "rule": "slot: EVERY key over the alphabet { } a b 0x80 up to length 7 (97 655 keys; up to length 9 = 2 441 405 keys in the thorough tier), samples of length 8..10, all 256 one-byte keys (every "
            "table entry of both crc16 copies), UTF-8-shaped keys (lead/continuation bytes at the accept-range borders mixed with braces), random "
            "binary keys up to 600 bytes with injected braces, the brace layouts of the cluster specification; compared: KeyToSlot, common.crc16, "
            "latencymonitor.crc16, external redis.GetSlot vs the bitwise specification. chose: real ChoseSlotInRange on single-slot ranges (2/3 of "
            "the sample), random and boundary ranges, ranges outside the quantifier and foreign prefixes, with FilterKey of the result under three "
            "configurations. filter: FilterKey on checkpoint-like keys x black/white lists. fslot: FilterSlot(KeyToSlot(key)) as in syncRDB. "
            "latency: real findKeyInRange on random ranges and on the single-slot ranges with the longest searches (the 24 slots whose first witness lies furthest out, plus a sample of the next 200). non-trivial = every case except the empty key; distinct by case text",
    "nontrivial": _nontrivial,
    "trusted": ["external module github.com/vinllen/redis-go-cluster (GetSlot) is modelled by the specification slotSpec and compared on every slot case",
                "Go: `for i, s := range string` decodes UTF-8 as unicode/utf8.DecodeRuneInString does (transcribed in Model/Slot.lean decodeRune)",
                "Go: fmt.Sprintf(\"%s-\"), strconv.Itoa, strings.HasPrefix, map lookup semantics"],
    "assumptions": ["KeyToSlot as repaired by fix c2d178e (D17; before it the check reported the violation with replay `slot 7b617d7b627d`)",
                    "the suffix loop bound HI is < 255 (a byte loop `i <= 255` never ends)",
                    "findKeyInRange is only exercised with ranges that contain a slot (outside 0<=l<=r<=16383 the real loop never ends); a real search still running after 5 s is reported as a failure"],
}
