"""Core of ./check: build orchestration, verdict logic, evidence. See DESIGN.md §2."""
import fcntl, hashlib, json, os, re, subprocess, sys, time, glob, shutil

VERIF = os.path.dirname(os.path.dirname(os.path.abspath(__file__)))
REPO = os.environ.get("VERIF_REPO", "/repo")
SRC = os.path.join(REPO, "src")
BUILD = os.path.join(VERIF, "build")
LEAN = os.path.join(VERIF, "lean")
GEN = os.path.join(LEAN, "RSVerif", "Generated")
HARNESS = os.path.join(VERIF, "go", "harness")
FACTGEN = os.path.join(VERIF, "go", "factgen")
EVID = os.path.join(VERIF, "evidence")
if os.environ.get("VERIF_EVIDENCE_DIR"):
    # runs against a deliberately changed /repo (tools/seedrun.sh): keep the registered evidence untouched
    EVID = os.environ["VERIF_EVIDENCE_DIR"]
elif REPO != "/repo":
    # an experiment against another tree (VERIF_REPO=…): its evidence and replays must not overwrite the registered ones
    EVID = os.path.join(VERIF, "build", "evidence-" + hashlib.sha1(REPO.encode()).hexdigest()[:8])
ALLOWED_AXIOMS = {"propext", "Classical.choice", "Quot.sound"}

GOENV = dict(os.environ, GOFLAGS="-mod=mod", GOPROXY="off", GOSUMDB="off", GOTOOLCHAIN="local",
             CGO_ENABLED="0")


def sh(cmd, cwd=None, env=None, inp=None, timeout=None):
    p = subprocess.run(cmd, cwd=cwd, env=env, input=inp, stdout=subprocess.PIPE, stderr=subprocess.STDOUT,
                       timeout=timeout)
    return p.returncode, p.stdout.decode("utf-8", "replace")


class Lock:
    def __enter__(self):
        os.makedirs(BUILD, exist_ok=True)
        self.f = open(os.path.join(BUILD, ".lock"), "w")
        fcntl.flock(self.f, fcntl.LOCK_EX)
        return self

    def __exit__(self, *a):
        fcntl.flock(self.f, fcntl.LOCK_UN)
        self.f.close()


def write_if_changed(path, content):
    os.makedirs(os.path.dirname(path), exist_ok=True)
    if isinstance(content, str):
        content = content.encode()
    try:
        if open(path, "rb").read() == content:
            return False
    except FileNotFoundError:
        pass
    with open(path, "wb") as f:
        f.write(content)
    return True


# ---------------------------------------------------------------- factgen

def newest_mtime(d, pat="*.go"):
    return max([os.path.getmtime(p) for p in glob.glob(os.path.join(d, pat))] + [0])


def build_factgen():
    exe = os.path.join(BUILD, "factgen")
    if os.path.exists(exe) and os.path.getmtime(exe) >= newest_mtime(FACTGEN):
        return 0, ""
    return sh(["go", "build", "-o", exe, "."], cwd=FACTGEN, env=GOENV)


def run_factgen():
    """Regenerate RSVerif/Generated from the current /repo. Returns (ok, message)."""
    rc, out = build_factgen()
    if rc != 0:
        return False, "factgen does not build:\n" + out
    rc, out = sh([os.path.join(BUILD, "factgen"), "-repo", SRC, "-out", GEN, "-ref", GENREF])
    if rc != 0:
        return False, "factgen could not extract a fact from the current source:\n" + out
    return True, out


GENREF = os.path.join(VERIF, "corpus", "generated.ref")

# which properties a factgen generator serves (default: genCxx -> Cxx)
GEN_PROPS = {"genAll": ["C01", "C02", "C11", "C12"], "genCrc": ["C01", "C11", "C12", "C15"], "genC0304": ["C03", "C04"]}


def unrecognised_for(pid):
    """Generators that did not recognise the shape of the current source (their facts are the reference ones)."""
    out = []
    try:
        lines = open(os.path.join(GEN, "factgen.unrecognised")).read().splitlines()
    except OSError:
        return out
    for l in lines:
        g, _, msg = l.partition("\t")
        m = re.fullmatch(r"genC(\d\d)", g)
        served = GEN_PROPS.get(g, ["C" + m.group(1)] if m else [])
        if pid in served:
            out.append("%s: %s" % (g, msg))
    return out


def record_generated_ref():
    """Snapshot of the generated facts of the tree the models were written against (see factgen -ref)."""
    os.makedirs(GENREF, exist_ok=True)
    for f in os.listdir(GENREF):
        os.remove(os.path.join(GENREF, f))
    for f in sorted(os.listdir(GEN)):
        if f.endswith(".lean") or f.endswith(".pos"):
            if f == "LogFlow.lean":
                continue    # written by go/logflow itself; its failure is never degraded
            shutil.copyfile(os.path.join(GEN, f), os.path.join(GENREF, f))


# ---------------------------------------------------------------- overlay (N1, N2, hooks)

def n1_common(text):
    """N1: drop the second copy of the duplicated const (KB…PB) block. No-op if it occurs once."""
    pat = re.compile(r"const \(\n\tKB = 1024\n.*?\n\)\n", re.S)
    ms = list(pat.finditer(text))
    if len(ms) >= 2 and ms[0].group(0) == ms[1].group(0):
        text = text[:ms[1].start()] + text[ms[1].end():]
    return text


def n2_log(text):
    """N2: os.Exit(1) in the Panic* helpers -> recoverable panic (hooks/pkg/libs/log/verif_exit.go: verifExit)."""
    n = text.count("os.Exit(1)")
    return text.replace("os.Exit(1)", "verifExit()"), n


def make_overlay(scale=None):
    """Write build/overlay[-scaled].json mapping /repo/src files to normalised copies + hook files."""
    name = "overlay" if scale is None else "overlay-scaled"
    odir = os.path.join(BUILD, name)
    os.makedirs(odir, exist_ok=True)
    repl = {}
    problems = []
    p = os.path.join(SRC, "redis-shake/common/common.go")
    t = n1_common(open(p).read())
    write_if_changed(os.path.join(odir, "common.go"), t)
    repl[p] = os.path.join(odir, "common.go")
    # N2 over every file of package pkg/libs/log (the Panic* helpers may have been moved out of log.go)
    total = 0
    ldir = os.path.join(SRC, "pkg/libs/log")
    for fn in sorted(os.listdir(ldir)):
        if not fn.endswith(".go") or fn.endswith("_test.go"):
            continue
        p = os.path.join(ldir, fn)
        t, n = n2_log(open(p).read())
        if n:
            total += n
            write_if_changed(os.path.join(odir, "log_" + fn), t)
            repl[p] = os.path.join(odir, "log_" + fn)
    if total == 0:
        problems.append("N2: no os.Exit(1) found in package pkg/libs/log")
    if scale is not None:
        p = os.path.join(SRC, "pkg/rdb/reader.go")
        # the span of the chunk-limit expression as factgen (go/ast) found it (file, offsets, text), whatever its form
        try:
            a, b, txt, pf = open(os.path.join(GEN, "c01_chunklimit.pos")).read().split()
            a, b = int(a), int(b)
            if os.path.isfile(pf) and os.path.realpath(pf).startswith(os.path.realpath(SRC) + os.sep):
                p = pf
        except (OSError, ValueError):
            pass
        t = open(p).read()
        try:
            a, b, txt = open(os.path.join(GEN, "c01_chunklimit.pos")).read().split()[:3]
            a, b = int(a), int(b)
            raw = open(p, "rb").read()
            if b"".join(raw[a:b].split()) != txt.encode():
                raise ValueError("stale span")
            t = (raw[:a] + str(scale).encode() + raw[b:]).decode()
        except (OSError, ValueError):
            if t.count("16 * 1024 * 1024") + t.count("16*1024*1024") == 0:
                problems.append("N3: chunk limit expression not found in pkg/rdb/reader.go")
            t = t.replace("16 * 1024 * 1024", str(scale)).replace("16*1024*1024", str(scale))
        write_if_changed(os.path.join(odir, "reader.go"), t)
        repl[p] = os.path.join(odir, "reader.go")   # (p: the file of pkg/rdb that holds the limit, reader.go on the pinned tree)
    hooks = os.path.join(HARNESS, "hooks")
    for root, _, files in os.walk(hooks):
        for f in files:
            if f.endswith(".go"):
                rel = os.path.relpath(os.path.join(root, f), hooks)
                repl[os.path.join(SRC, rel)] = os.path.join(root, f)
    write_if_changed(os.path.join(BUILD, name + ".json"), json.dumps({"Replace": repl}, indent=1, sort_keys=True))
    return os.path.join(BUILD, name + ".json"), problems


def build_harness(scale=None):
    ov, problems = make_overlay(scale)
    if problems:
        return False, "\n".join(problems)
    exe = os.path.join(BUILD, "vharness" if scale is None else "vharness-scaled")
    write_if_changed(os.path.join(HARNESS, "go.mod"),
                     "module verifharness\n\ngo 1.14\n\nrequire github.com/alibaba/RedisShake v0.0.0\n\n"
                     "replace github.com/alibaba/RedisShake => %s\n" % SRC)
    shutil.copyfile(os.path.join(SRC, "go.sum"), os.path.join(HARNESS, "go.sum"))
    rc, out = sh(["go", "build", "-tags", "verif", "-overlay", ov, "-o", exe, "."], cwd=HARNESS, env=GOENV)
    HARNESS_DROPPED[scale] = []
    if rc != 0:
        rc, out = degrade_build(ov, exe, out, scale)
    return rc == 0, out


HARNESS_DROPPED = {}    # scale -> [(file, first error line)] left out of the binary that was finally built


def degrade_build(ov, exe, first_out, scale):
    """The harness is ONE binary for twenty properties, and its hook files reach into unexported parts of /repo. When a
    file no longer compiles against the current source (a renamed field, a changed signature) that must not take the
    other properties down: the file is left out — a hook is no longer injected, a harness file is replaced by an empty
    `package main` — and the build is repeated; files that depended on it fail next and are left out too. The properties
    whose registration went with them report `harness-build` (with the compiler's message); the rest run normally."""
    repl = json.load(open(ov))["Replace"]
    hooks_root = os.path.join(HARNESS, "hooks")
    stub = os.path.join(BUILD, "stub_main.go")
    write_if_changed(stub, "package main\n")
    dropped = []
    out = first_out
    for _ in range(40):
        bad = {}
        for m in re.finditer(r"^(\S+?\.go):\d+(?::\d+)?: (.*)$", out, re.M):
            bad.setdefault(m.group(1), m.group(2))
        progress = False
        for f, msg in bad.items():
            ap = os.path.normpath(os.path.join(HARNESS, f)) if not os.path.isabs(f) else f
            if ap.startswith(hooks_root + os.sep):
                # a hook: stop injecting it
                for k, v in list(repl.items()):
                    if os.path.normpath(v) == ap:
                        del repl[k]
                        dropped.append((os.path.relpath(ap, VERIF), msg))
                        progress = True
            elif os.path.dirname(ap) == HARNESS and os.path.basename(ap) != "main.go":
                if repl.get(ap) != stub:
                    repl[ap] = stub
                    dropped.append((os.path.relpath(ap, VERIF), msg))
                    progress = True
            else:
                # an injected hook is reported under the path it is injected at
                if ap in repl and os.path.normpath(repl[ap]).startswith(hooks_root + os.sep):
                    dropped.append((os.path.relpath(repl[ap], VERIF), msg))
                    del repl[ap]
                    progress = True
        if not progress:
            return 1, out
        ov2 = ov.replace(".json", "-degraded.json")
        open(ov2, "w").write(json.dumps({"Replace": repl}, indent=1, sort_keys=True))
        # -gcflags=-e: report every error of a package, not only the first ten
        rc, out = sh(["go", "build", "-gcflags=-e", "-tags", "verif", "-overlay", ov2, "-o", exe, "."], cwd=HARNESS, env=GOENV)
        if rc == 0:
            HARNESS_DROPPED[scale] = dropped
            return 0, "degraded build: left out " + ", ".join(d[0] for d in dropped)
    return 1, out


def harness_serves(pid, scaled=False):
    exe = os.path.join(BUILD, "vharness-scaled" if scaled else "vharness")
    try:
        p = subprocess.run([exe, "list"], stdout=subprocess.PIPE, stderr=subprocess.PIPE, timeout=60)
        return pid in p.stdout.decode().split()
    except (OSError, subprocess.TimeoutExpired):
        return False


# ---------------------------------------------------------------- lean

def lake_build(targets):
    rc, out = sh(["lake", "build"] + targets, cwd=LEAN)
    return rc == 0, out


def failing_theorems(lake_out, module_file):
    """Map `error: <file>:<line>` messages to the enclosing theorem names."""
    names = []
    try:
        lines = open(os.path.join(LEAN, module_file)).read().split("\n")
    except OSError:
        return names
    for m in re.finditer(r"error: (\S+?):(\d+):\d+", lake_out):
        if not module_file.endswith(m.group(1)) and m.group(1) not in module_file:
            names.append(m.group(1) + ":" + m.group(2))
            continue
        ln = int(m.group(2))
        for i in range(min(ln, len(lines)) - 1, -1, -1):
            mm = re.match(r"\s*(?:private\s+|protected\s+)?(?:theorem|lemma|def|example|instance)\s+(\S+)", lines[i])
            if mm:
                names.append(mm.group(1))
                break
    return sorted(set(names))


def audit(pid):
    f = os.path.join(BUILD, "audit_%s.lean" % pid)
    write_if_changed(f, "import RSVerif.Audit\nimport RSVerif.Properties.%s\n#audit_namespace RSVerif.Properties.%s\n" % (pid, pid))
    rc, out = sh(["lake", "env", "lean", f], cwd=LEAN)
    thms, bad = [], []
    for line in out.split("\n"):
        m = re.match(r".*?(AUDIT|AXIOM) (\S+) \|(.*)", line)
        if m:
            axs = m.group(3).split()
            thms.append(m.group(2))
            if m.group(1) == "AXIOM" or any(a not in ALLOWED_AXIOMS for a in axs):
                bad.append((m.group(2), axs))
    return rc == 0, thms, bad, out


def grep_forbidden(pid):
    """No sorry/admit/native_decide/bv_decide/implemented_by/unsafe/axiom in any Lean source (comments excluded)."""
    hits = []
    pat = re.compile(r"\b(sorry|admit|native_decide|bv_decide|implemented_by|maxHeartbeats 0)\b|^\s*(axiom|unsafe)\s")
    for p in glob.glob(os.path.join(LEAN, "RSVerif", "**", "*.lean"), recursive=True):
        if p.endswith("Audit.lean"):
            continue
        incomment = 0
        for i, line in enumerate(open(p, errors="replace")):
            code = line
            # crude block comment tracking
            if incomment:
                if "-/" in code:
                    incomment = 0
                    code = code.split("-/", 1)[1]
                else:
                    continue
            if "/-" in code and "-/" not in code.split("/-", 1)[1]:
                incomment = 1
                code = code.split("/-", 1)[0]
            code = re.sub(r"/-.*?-/", "", code)
            code = code.split("--", 1)[0]
            if pat.search(code):
                hits.append("%s:%d: %s" % (os.path.relpath(p, LEAN), i + 1, line.strip()))
    return hits


# ---------------------------------------------------------------- known findings

def load_findings(pid):
    out = {}
    for p in sorted(glob.glob(os.path.join(VERIF, "known_findings*.txt"))):
        for line in open(p):
            line = line.strip()
            m = re.match(r"finding: property=(\S+) sig=(\S+) (.*)", line)
            if m and m.group(1) == pid:
                out[m.group(2)] = m.group(3)
    return out


# ---------------------------------------------------------------- running one property

class Ctx:
    def __init__(self, pid, tier, seed):
        self.pid, self.tier, self.seed = pid, tier, seed
        self.work = os.path.join(BUILD, "work", pid)
        os.makedirs(self.work, exist_ok=True)
        self.violations = []   # (kind, description, replay_text, found_input: bool)
        self.known_hit = {}
        self.stats = {}
        self.samples = []
        self.evaluations = 0
        self.nontrivial = set()
        self.notes = []
        self.traces = 0

    def harness(self, args, inp=None, scaled=False, timeout=3600, env=None):
        exe = os.path.join(BUILD, "vharness-scaled" if scaled else "vharness")
        tmp = os.path.join(BUILD, "tmp")
        os.makedirs(tmp, exist_ok=True)
        e = dict(os.environ, GOMEMLIMIT="8GiB", TMPDIR=tmp)
        if env:
            e.update(env)
        # stderr goes to a file and only its tail is kept: the code under test logs every aux field it reads,
        # and a mutated file can make one such log line hundreds of megabytes long
        import tempfile
        with tempfile.TemporaryFile(dir=tmp) as ef:
            p = subprocess.run([exe] + args, input=inp, stdout=subprocess.PIPE, stderr=ef, timeout=timeout, env=e)
            size = ef.seek(0, 2)
            ef.seek(max(0, size - 65536))
            err = ef.read().decode("utf-8", "replace")
        return p.returncode, p.stdout, err

    def driver(self, args, inp, timeout=3600):
        exe = os.path.join(LEAN, ".lake", "build", "bin", "rsdriver")
        p = subprocess.run([exe] + args, input=inp, stdout=subprocess.PIPE, stderr=subprocess.PIPE, timeout=timeout)
        return p.returncode, p.stdout, p.stderr.decode("utf-8", "replace")


def anchor_hashes(pid):
    """sha256 of every source file the property is anchored in (properties.jsonl)."""
    out = {}
    for line in open(os.path.join(VERIF, "properties.jsonl")):
        p = json.loads(line)
        if p["id"] == pid:
            for f in p["anchors"]["files"]:
                try:
                    out[f] = hashlib.sha256(open(os.path.join(REPO, f), "rb").read()).hexdigest()[:16]
                except OSError:
                    out[f] = "MISSING"
    return out


def anchors_changed(pid):
    """Files whose content differs from corpus/anchors.expected (written by `./check --record-anchors`)."""
    try:
        exp = json.load(open(os.path.join(VERIF, "corpus", "anchors.expected")))
    except (OSError, ValueError):
        return []
    cur = anchor_hashes(pid)
    return sorted(f for f, h in cur.items() if exp.get(pid, {}).get(f) != h)


def replay_path(pid, n):
    d = os.path.join(EVID, "replay")
    os.makedirs(d, exist_ok=True)
    return os.path.join(d, "%s-%d.case" % (pid, n))


def differential(ctx, spec, cases_bytes, scaled=False, label="main"):
    """Run implementation and model on the same case lines; classify every disagreement."""
    cases = cases_bytes.decode().split("\n")
    if cases and cases[-1] == "":
        cases.pop()
    rc, impl, err = ctx.harness(["run", ctx.pid], inp=cases_bytes, scaled=scaled)
    impl_lines = impl.decode("utf-8", "replace").split("\n")
    if impl_lines and impl_lines[-1] == "":
        impl_lines.pop()
    if rc != 0 or len(impl_lines) != len(cases):
        # harness crashed: find the case at which it stopped and re-run the rest one by one
        ctx.violations.append(("harness", "harness run for %s stopped after %d of %d cases (rc=%s): %s" % (
            label, len(impl_lines), len(cases), rc, err[-400:]),
            "case: %s\n" % (cases[len(impl_lines)] if len(impl_lines) < len(cases) else "?"), len(impl_lines) < len(cases)))
        return
    rc, model, err = ctx.driver([ctx.pid], cases_bytes)
    model_lines = model.decode("utf-8", "replace").split("\n")
    if model_lines and model_lines[-1] == "":
        model_lines.pop()
    if rc != 0 or len(model_lines) != len(cases):
        ctx.violations.append(("driver", "rsdriver stopped after %d of %d cases: %s" % (len(model_lines), len(cases), err[-400:]),
                               "", False))
        return
    findings = load_findings(ctx.pid)
    for c, i, m in zip(cases, impl_lines, model_lines):
        ctx.evaluations += 1
        kind = c.split(" ", 1)[0]
        ctx.stats[kind] = ctx.stats.get(kind, 0) + 1
        if spec.get("nontrivial", lambda c, i: True)(c, i):
            ctx.nontrivial.add(hashlib.sha1(c.encode()).digest()[:8])
        eq = spec["equal"](c, i, m) if "equal" in spec else (i == m)
        if not eq:
            sig = spec["signature"](c, i, m) if "signature" in spec else None
            if sig is not None and sig in findings:
                ctx.known_hit.setdefault(sig, (c, i, m))
                continue
            ctx.violations.append(("mismatch", "implementation and proved model/spec disagree",
                                   "property: %s\ncase: %s\nimplementation: %s\nexpected(by model/spec): %s\nsignature: %s\n" % (ctx.pid, c, i, m, sig), True))
    if len(ctx.samples) < 6:
        for k in range(0, len(cases), max(1, len(cases) // 3)):
            if len(ctx.samples) < 6:
                ctx.samples.append({"case": cases[k][:300], "implementation": impl_lines[k][:300], "model": model_lines[k][:300]})


def gen_cases(ctx, seed, tier, scaled=False, extra=None):
    args = ["gen", ctx.pid, str(seed), tier] + (extra or [])
    rc, out, err = ctx.harness(args, scaled=scaled)
    if rc != 0:
        ctx.violations.append(("harness", "case generator failed: " + err[-400:], "", False))
        return b""
    return out


def corpus_cases(pid):
    out = b""
    for p in sorted(glob.glob(os.path.join(VERIF, "corpus", pid, "*.case"))):
        for line in open(p, "rb"):
            if line.strip() and not line.startswith(b"#"):
                out += line if line.endswith(b"\n") else line + b"\n"
    return out


def run_property(pid, tier, seed, replay=None):
    import props
    spec = props.PROPS[pid]
    t0 = time.time()
    ctx = Ctx(pid, tier, seed)
    if not replay:
        for old in glob.glob(os.path.join(EVID, "replay", pid + "-*.case")):
            os.remove(old)
    module = "RSVerif.Properties." + pid
    module_file = "RSVerif/Properties/%s.lean" % pid
    broken = []     # proof obligations / ties that no longer check
    with Lock():
        ok, msg = run_factgen()
        if not ok:
            broken.append(("factgen", msg))
        hok, hout = build_harness()
        if not hok:
            broken.append(("harness-build", hout[-1500:]))
        elif not harness_serves(pid):
            hok = False
            broken.append(("harness-build", "the harness files of %s no longer compile against the current source and were left "
                           "out of the build:\n%s" % (pid, "\n".join("%s: %s" % d for d in HARNESS_DROPPED.get(None, [])))))
        elif HARNESS_DROPPED.get(None):
            print("NOTE: harness built without %s (they do not compile against this tree; property %s does not need them)"
                  % (", ".join(d[0] for d in HARNESS_DROPPED[None]), pid))
        if spec.get("scaled"):
            sok, sout = build_harness(scale=spec["scaled"])
            if not sok:
                broken.append(("harness-scaled-build", sout[-1500:]))
            elif not harness_serves(pid, scaled=True):
                broken.append(("harness-scaled-build", "left out of the scaled build: " + ", ".join(d[0] for d in HARNESS_DROPPED.get(spec["scaled"], []))))
        lok, lout = lake_build([module, "rsdriver", "RSVerif.Audit"])
        thms, bad_ax = [], []
        if not lok:
            names = failing_theorems(lout, module_file)
            broken.append(("lake-build", "theorems that no longer check: %s\n%s" % (", ".join(names) or "?", lout[-1500:])))
            # the driver may still build even if a property theorem fails
            lake_build(["rsdriver"])
        else:
            aok, thms, bad_ax, aout = audit(pid)
            if not aok and not thms:
                broken.append(("audit", aout[-800:]))
            for n, axs in bad_ax:
                broken.append(("axioms", "%s depends on %s" % (n, axs)))
            hits = grep_forbidden(pid)
            for h in hits:
                broken.append(("forbidden-token", h))
    driver_ok = os.path.exists(os.path.join(LEAN, ".lake", "build", "bin", "rsdriver"))

    if replay:
        text = open(replay).read()
        m = re.search(r"^case: (.*)$", text, re.M)
        if not m:
            print(text)
            print("replay: no concrete case recorded (theorem/correspondence named above)")
            return 1 if broken else 0
        differential(ctx, spec, (m.group(1) + "\n").encode(), scaled=("scaled" in text and bool(spec.get("scaled"))), label="replay")
        for v in ctx.violations:
            print(v[2])
        print("replay: %s" % ("property fails on this case" if ctx.violations else "case passes"))
        return 1 if ctx.violations else 0

    changed = anchors_changed(pid)
    unrec = unrecognised_for(pid)
    for u in unrec:
        print("NOTE: property=%s source shape not recognised by %s — facts not re-extracted, the model is tied by the "
              "correspondence run alone on this tree" % (pid, u[:300]))
    gen_tier = tier
    if (changed or unrec) and tier == "quick" and spec.get("escalate", True):
        gen_tier = "escalated"   # a modelled source file changed: 3x the quick generator budget
    if hok and driver_ok and spec.get("differential", True):
        cc = corpus_cases(pid)
        if cc:
            differential(ctx, spec, cc, label="corpus")
        cases = gen_cases(ctx, seed, gen_tier)
        if cases:
            differential(ctx, spec, cases, label="generated")
        if spec.get("scaled") and not any(b[0] == "harness-scaled-build" for b in broken):
            cases = gen_cases(ctx, seed, gen_tier, scaled=True, extra=["scaled", str(spec["scaled"])])
            if cases:
                differential(ctx, spec, cases, scaled=True, label="scaled")
        if broken and not ctx.violations:
            # a proof obligation broke: search harder for a concrete failing input (10x budget)
            t_search = time.time()
            for k in range(1, 11):
                if time.time() - t_search > 150:
                    break   # the search is bounded in wall time; the verdict is a VIOLATION either way
                cases = gen_cases(ctx, seed + 1000 * k, gen_tier if k < 3 else tier)
                if cases:
                    differential(ctx, spec, cases, label="search-%d" % k)
                if ctx.violations:
                    break
    if "extra" in spec and hok and driver_ok:
        spec["extra"](ctx, spec, broken)

    # ---------------- verdict
    rc = 0
    findings = load_findings(pid)
    for sig, (c, i, m) in ctx.known_hit.items():
        print("KNOWN-FINDING: property=%s %s — %s [case: %s]" % (pid, sig, findings[sig], c[:200]))
    nrep = 0
    concrete = [v for v in ctx.violations if v[3]]
    if concrete:
        # report the first (smallest) concrete failing input; list how many more
        concrete.sort(key=lambda v: len(v[2]))
        v = concrete[0]
        rp = replay_path(pid, nrep)
        with open(rp, "w") as f:
            f.write(v[2])
            f.write("description: %s\nseed: %d\ntier: %s\nother_failing_cases: %d\n" % (v[1], seed, tier, len(concrete) - 1))
            kinds = {}
            for w in concrete:
                m = re.search(r"^case: (\S+)", w[2], re.M)
                kinds[m.group(1) if m else "?"] = kinds.get(m.group(1) if m else "?", 0) + 1
            f.write("failing_by_kind: %s\n" % " ".join("%s=%d" % kv for kv in sorted(kinds.items())))
            for w in concrete[1:4]:
                m = re.search(r"^case: (.*)$", w[2], re.M)
                f.write("also_failing: %s\n" % (m.group(1)[:300] if m else "?"))
            for b in broken:
                f.write("broken_obligation: %s: %s\n" % (b[0], b[1][:600]))
        print("VIOLATION property=%s replay=%s" % (pid, os.path.relpath(rp, VERIF)))
        print("".join("  | " + l for l in open(rp).readlines()[:14]), end="")
        rc = 1
    elif broken or ctx.violations:
        rp = replay_path(pid, nrep)
        with open(rp, "w") as f:
            f.write("property: %s\nno concrete failing input was found; the following no longer checks:\n" % pid)
            for b in broken:
                f.write("broken_obligation: %s: %s\n" % (b[0], b[1]))
            for v in ctx.violations:
                f.write("broken_correspondence: %s: %s\n%s\n" % (v[0], v[1], v[2]))
            f.write("seed: %d\ntier: %s\n" % (seed, tier))
        print("VIOLATION property=%s replay=%s no-failing-input-found" % (pid, os.path.relpath(rp, VERIF)))
        print("".join("  | " + l[:400] for l in open(rp).readlines()[:14]), end="")
        rc = 1

    # ---------------- evidence
    wall = time.time() - t0
    ev = {
        "property_id": pid, "tier": tier, "seed": seed, "level": "proof",
        "coverage": {
            "obligations": max(len(thms), 1),
            "discharged": len(thms) - len(bad_ax) if (thms and lok) else 0,
            "checker_cmd": "cd /verif/lean && lake build %s && lake env lean ../build/audit_%s.lean   (thorough: lake env leanchecker %s)" % (module, pid, module),
            "trusted_base": props.TRUSTED_COMMON + spec.get("trusted", []),
            "theorems": thms,
            "evaluations": ctx.evaluations,
            "distinct_nontrivial": len(ctx.nontrivial),
            "rule": spec.get("rule", ""),
            "samples": ctx.samples or [{"note": "no differential cases for this property"}],
            "case_kinds": ctx.stats,
            "traces_validated_against_impl": ctx.traces,
            "known_findings_hit": sorted(ctx.known_hit.keys()),
            "broken_obligations": [b[0] for b in broken],
            "anchor_files_changed": changed,
            "facts_not_reextracted": unrec,
            "generator_budget": gen_tier,
        },
        "assumptions": spec.get("assumptions", []),
        "wall_s": round(wall, 2),
        "violations": len(ctx.violations) + (1 if broken and not ctx.violations else 0),
    }
    if tier == "thorough" and lok:
        rc2, out2 = sh(["lake", "env", "leanchecker", module], cwd=LEAN)
        ev["coverage"]["leanchecker"] = "ok" if rc2 == 0 else out2[-300:]
    os.makedirs(EVID, exist_ok=True)
    with open(os.path.join(EVID, pid + ".json"), "w") as f:
        json.dump(ev, f, indent=1)
    print("%s: %s — %d theorems, %d differential cases (%d distinct non-trivial), %.1fs" % (
        pid, "OK" if rc == 0 else "VIOLATION", len(thms), ctx.evaluations, len(ctx.nontrivial), wall))
    return rc


def setup():
    with Lock():
        ok, msg = run_factgen()
        print("factgen:", "ok" if ok else msg)
        hok, hout = build_harness()
        print("harness:", "ok" if hok else hout)
        import props
        for pid, spec in props.PROPS.items():
            if spec.get("scaled"):
                sok, sout = build_harness(scale=spec["scaled"])
                print("harness-scaled:", "ok" if sok else sout)
                break
        lok, lout = lake_build(["RSVerif", "rsdriver", "RSVerif.Audit"])
        print("lake:", "ok" if lok else lout[-3000:])
    return 0 if (ok and hok and lok) else 1


def main(argv):
    os.chdir(VERIF)
    if not argv:
        print(__doc__)
        return 2
    if argv[0] == "--setup":
        return setup()
    if argv[0] == "--record-anchors":
        ids = [json.loads(l)["id"] for l in open(os.path.join(VERIF, "properties.jsonl"))]
        with open(os.path.join(VERIF, "corpus", "anchors.expected"), "w") as f:
            json.dump({pid: anchor_hashes(pid) for pid in ids}, f, indent=1, sort_keys=True)
        print("recorded anchor hashes of %d properties" % len(ids))
        if REPO != "/repo":
            print("not recording reference facts: VERIF_REPO is set")
            return 0
        with Lock():
            ok, msg = run_factgen()
            if not ok or os.path.exists(os.path.join(GEN, "factgen.unrecognised")):
                print("reference facts NOT recorded: factgen does not fully recognise this tree\n" + msg)
                return 1
            record_generated_ref()
        print("recorded reference facts (%d files) in corpus/generated.ref" % len(os.listdir(GENREF)))
        return 0
    pid = argv[0]
    tier = os.environ.get("VERIF_TIER", "quick")
    if tier not in ("quick", "thorough"):
        tier = "quick"
    try:
        seed = int(os.environ.get("VERIF_SEED", "1"))
    except ValueError:
        seed = 1
    replay = None
    if "--replay" in argv:
        replay = argv[argv.index("--replay") + 1]
    return run_property(pid, tier, seed, replay)
