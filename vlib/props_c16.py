from props import PROPS


def _tok(line, key):
    for t in line.split(" "):
        if t.startswith(key + "="):
            return t[len(key) + 1:]
    return ""


def _equal(case, impl, model):
    # the driver appends `hyp=<0|1>`: whether the case satisfies the hypotheses of Properties.C16.copied_exact (then the
    # keyspace it printed is the one the THEOREM predicts, not merely the model's)
    return impl == model.rsplit(" hyp=", 1)[0]


def _signature(case, impl, model):
    """Names the defect of the pinned tree (D18) a disagreement looks like. All three are repaired by fixes/C16-*.patch, so
    none of these is listed as a finding: on a tree that lacks a repair the disagreement is a VIOLATION carrying this name."""
    m = model.rsplit(" hyp=", 1)[0]
    same = lambda k: _tok(impl, k) == _tok(m, k)
    if same("src") and same("tgt") and same("ks") and not (same("st") and same("conf") and same("unread")):
        return "select-reply-uncounted"
    if _tok(case, "ke") == "rewrite" and ",b.d" in "," + _tok(m, "tgt") and "b.d" not in _tok(impl, "tgt"):
        return "bigkey-rewrite-merge"
    if any(e.endswith(":0") for e in _tok(case, "src").split(";")) and same("src"):
        it, mt = _tok(impl, "tgt").split(","), _tok(m, "tgt").split(",")
        if len(it) <= len(mt) and any("/1/" in b and a == b.replace("/1/", "/0/", 1) for a, b in zip(it, mt)) or \
                (len(it) < len(mt) and any(x.startswith("b.p") and x.endswith("/1") for x in mt)):
            return "pttl-zero"
    return None


PROPS["C16"] = {
    "level_text": "Kernel-checked theorems over a Lean model of rump's three-stage pipeline (fetcher/doFetch with NormalScanner and "
                  "KeyFileScanner, writer/writeSend with SELECT bookkeeping, RESTORE [REPLACE], batch flush and the big-key route, receiver) "
                  "against a MiniRedis source (DUMP/PTTL, keys vanishing before any command) and target: every scanned, passing, surviving key "
                  "ends in the target with the value of its payload, its ttl and db (copied_exact), vanished keys are a no-op, the scan ends "
                  "exactly at cursor 0 / end of file for every pagination and line count, nothing is left unsent, the receiver reads every "
                  "reply. The model is tied to the real dbRumperExecutor (fake redigo connections) by a differential run of command traces, "
                  "final keyspace and termination.",
    "level_note": "Trusted: Lean kernel; MiniRedisC16 as a description of Redis (SCAN may not repeat keys, PTTL/RESTORE/PEXPIRE semantics, time "
                  "not modelled: a ttl is the number handed over); redigo's Do/Send/Flush/Receive as implemented by the fake connections; the "
                  "element-wise expansion of big keys is C02's (parameter Codec.expand with Codec.Sound); abort = log.Panic is observed per "
                  "goroutine, the other stages are drained; the model-code tie is sampled.",
    "rule": "(a third of the key-file cases hold 230 / 450 / 1100 keys, beyond the line scanner's start buffer.) rump: random configurations (scan.key_number 1..15, target.db, key_exists none/rewrite, big_key_threshold 0/around payload "
            "sizes/default, key and db black/white lists) x random scenarios (1..3 source dbs in any order, keys with values of five types and "
            "payloads the target rejects or the expander cannot decode, ttl -1/0/1/large, SCAN scripts with any page sizes incl. empty pages, "
            "extra or missing final replies, keys already gone or reported twice, vanish events before any DUMP/PTTL, pre-existing target keys colliding or not; qps below the key count; scan.key_number 50/100 with 2-3 batches of keys; "
            "key-file scans with line counts around multiples of the page size); dblist: getSourceDbList on generated `info keyspace` texts under db "
            "black/white lists. non-trivial = at least one command reached the target or a "
            "stage aborted; distinct by case text",
    "nontrivial": lambda c, i: c.startswith("dblist") or " tgt=- " not in i or " st=ooo " not in i,
    "equal": _equal,
    "signature": _signature,
    "trusted": ["MiniRedisC16 (Model/Rump.lean) as the specification of source and target; the harness fakes implement the same rules in Go",
                "redigo semantics of Do(\"\")/Send/Flush/Receive and of redis.Strings/Int64s/Scan on nil replies",
                "bufio.Scanner line splitting of the key file; Go channel FIFO order; time.Ticker of the QoS bucket (timing is not modelled)",
                "C02: restoreBigRdbEntry expands a payload into commands that rebuild its value (Codec.Sound); expansions of at most 100 commands"],
    "assumptions": ["SCAN does not return a key twice and no two scanned keys map to one target address (Hyps.distinct)",
                    "every source payload is accepted by the target and, above the threshold, decodable by the expander (Hyps.payloads)",
                    "key_exists = none: the target addresses of the scanned keys are free (Hyps.policy)",
                    "keys only vanish during the run (no key is created or modified at the source)",
                    "after a log.Panic in one stage the real process exits; the harness lets the other stages drain, the model does the same"],
}

# wall time is dominated by real timers / per-configuration groups: no budget escalation on source changes
PROPS["C16"]["escalate"] = False
