from props import PROPS


import re


def _wild_match(model, impl):
    """model with ',?]' wildcards (= ',' + any run of non-']' characters + ']') matches impl entirely.
    Hand-written: a compiled regex of a megabyte-long line costs gigabytes."""
    segs = model.split(",?]")
    if not impl.startswith(segs[0]):
        return False
    pos = len(segs[0])
    for seg in segs[1:]:
        if pos >= len(impl) or impl[pos] != ",":
            return False
        close = impl.find("]", pos + 1)
        if close < 0:
            return False
        pos = close + 1
        if not impl.startswith(seg, pos):
            return False
        pos += len(seg)
    return pos == len(impl)


def _refused_alike(impl, model):
    """malformed files (mut/hdr cases; the property speaks about well-formed streams): both sides refuse the file, and what one of them
    delivered before refusing is a prefix of what the other delivered — WHERE in a damaged file the refusal comes is not compared"""
    def parts(s):
        t = s.split(" ")
        es = [x for x in t if x.startswith("E[")]
        rest = [x for x in t if not x.startswith("E[")]
        return es, rest
    ei, ri = parts(impl)
    em, rm = parts(model)
    bad = lambda r: any(x.startswith("end=") and not x.startswith("end=ok") for x in r) or any(x.startswith("h=") and x != "h=ok" for x in r)
    if not (bad(ri) and bad(rm)):
        return False
    n = min(len(ei), len(em))
    return ei[:n] == em[:n]


def _equal(case, impl, model):
    f0 = case.split(" ")
    if impl != model and len(f0) > 2 and not f0[2].startswith("wf") and ",?]" not in model and _refused_alike(impl, model):
        return True
    if impl != model:
        if ",?]" not in model:
            return False
        # value of a Lua aux record whose reader failed (malformed input only): unspecified, wildcard
        if not _wild_match(model, impl):
            return False
    f = case.split(" ")
    if f[2].startswith("wf") and "end=ok" not in impl:
        return False    # the generator built a well-formed file: the parser must accept it and verify the footer
    return True


PROPS["C01"] = {
    "level_text": "Kernel-checked theorems over a Lean model of pkg/rdb's loader (length forms, strings incl. LZF, every value type, "
                  "opcode loop, hash chunking, footer) against an abstract RDB syntax + serializer; the model is tied to the Go loader by "
                  "a differential run on generated well-formed files (own serializer), mutated files, and a scaled chunk-limit build.",
    "level_note": "Trusted: Lean kernel; the RDB format spec (Spec/Rdb.lean) as a description of what Redis emits; strconv.ParseFloat "
                  "(parameter pf); the model-code tie is sampled; scaled build replaces the 16 MiB literal (N3).",
    "rule": "rdb: random well-formed RDB files (versions 1-9; every item kind, value type, string encoding incl. LZF token streams, "
            "length forms canonical and wider, 64-bit forms where discarded, expiry/idle/freq, trailing bytes) from a serializer written in the "
            "harness; mut: truncations/bit flips/byte substitutions of such files; hdr: header corner cases; scaled: hashes straddling a 64-byte "
            "chunk limit. non-trivial = file with at least one record or a non-ok end; distinct by case text",
    "nontrivial": lambda c, i: " E[" in i or "end=ok" not in i,
    "equal": _equal,
    "scaled": 64,
    "trusted": ["strconv.ParseFloat success is a parameter (pf); driver instantiates it with a decimal-grammar recogniser",
                "strconv.FormatInt/ParseInt modelled by fmtInt/parseVersion",
                "io.TeeReader/bytes.Buffer/io.ReadFull semantics"],
    "assumptions": ["module values (types 6/7) are rejected by the code and outside the statement"],
}
