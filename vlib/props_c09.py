import re
from props import PROPS

# `~…` suffixes are diagnostics (sizes of the individual partial reads — the code's own rule
# min(k, buffered, size - rpos % size), which the property leaves open — and the length of the backing file).
_DIAG = re.compile(r"~[^ +]*")


def _strip(line):
    return _DIAG.sub("", line)


_diag_only = [0]


def _equal(case, impl, model):
    if impl == "not-run-after-stuck":
        # two earlier cases of this run left a goroutine that neither returns nor parks (each of them IS a
        # reported disagreement); the harness stops exercising the pipe after that — nothing to compare here
        return True
    if _strip(impl) != _strip(model):
        return False
    if impl != model:
        _diag_only[0] += 1      # same property-level behaviour, different partial-read sizes / file length
    return True


def _signature(case, impl, model):
    """kind of pipe + the op at which implementation and model first part ways"""
    a, b = _strip(impl).split(" "), _strip(model).split(" ")
    ops = case.split(" ")[3:] + ["rc:0", "wc:0", "end"]
    for i in range(max(len(a), len(b))):
        if i >= len(a) or i >= len(b) or a[i] != b[i]:
            op = ops[i] if i < len(ops) else "end"
            return "%s/%s" % (case.split(" ", 1)[0], op.split(":")[0])
    return None


def _nontrivial(case, impl):
    # a history in which at least one Read or Write really blocked (and hence somebody had to wake it)
    # or in which the ring wrapped: more bytes were accepted than the ring holds
    if "park" in impl:
        return True
    return len(impl) > 0 and "+" in _strip(impl)


def _extra(ctx, spec, broken):
    """exact diff (diagnostic, never a verdict) + a harder search when a modelled function changed"""
    import os, core
    # fingerprints: a modelled function whose source changed gets 4x the quick budget
    exp = os.path.join(core.VERIF, "corpus", "C09", "fingerprints.expected")
    cur = os.path.join(core.GEN, "fingerprints.txt")
    try:
        want = dict(l.split() for l in open(exp) if l.strip())
        have = dict(l.split() for l in open(cur) if l.startswith("C09."))
        changed = sorted(k for k in want if have.get(k) != want[k])
    except OSError:
        changed = []
    ctx.stats["modelled_functions_changed"] = len(changed)
    ctx.stats["cases_differing_only_in_diagnostics"] = _diag_only[0]
    if _diag_only[0]:
        print("note: %d cases differ from the concrete model only in the diagnostic part (sizes of partial reads / "
              "file length), which the property leaves open — not a violation" % _diag_only[0])
    if changed and ctx.tier == "quick" and not ctx.violations:
        for k in range(1, 4):
            cases = core.gen_cases(ctx, ctx.seed + 7919 * k, ctx.tier)
            if cases:
                core.differential(ctx, spec, cases, label="changed-%d" % k)
            if ctx.violations:
                break
    ctx.traces = ctx.evaluations      # every case is one schedule replayed on the real pipe and on the model
    ctx.stats["cases_differing_only_in_diagnostics"] = _diag_only[0]


PROPS["C09"] = {
    "level_text": "Kernel-checked theorems over an executable model of pipe.go/buff.go/file.go transcribed as coded (roffset/woffset/align "
                  "verbatim, every critical section of p.mu one atomic step, cond.Wait/Signal as parked flags, memory store and file store "
                  "with WriteAt/ReadAt/Truncate): for EVERY ring size > 0, both backends and EVERY finite sequence of atomic steps "
                  "(all interleavings of reader, writer, closers, counters; all wrap-arounds and drain resets) one invariant holds, the model "
                  "refines a nondeterministic bounded-FIFO specification, written = readOut ++ buffered, a read parks iff empty and unclosed, "
                  "a write parks iff full and unclosed, never both parked, every progress/close wakes the parked side and its retry does not "
                  "park, exact close rules (drain then error; reader close fails everything, never blocks), zero-length I/O, exact "
                  "Buffered/Available, store accesses always in range. The model is tied to the Go code by serialised-schedule differential runs.",
    "level_note": "Trusted: Lean kernel; Go sync.Mutex/sync.Cond semantics (no spurious wake-ups, Wait releases the mutex atomically) and "
                  "os.File ReadAt/WriteAt/Truncate as a byte array; uint64 wrap-around of positions not modelled; the hand-written model is "
                  "tied to the code by differential testing only (sampled, bounded).",
    "rule": "serialised schedules of w:k / r:k / rc / wc / b / a on pipes of ring size 1..64 (hook constructors over the real memBuffer/"
            "fileBuffer code), NewSize(req) at 4 KiB granularity and NewFilePipe at 4 MiB; chunk sizes 0, 1, cap-1, cap, cap+1, 3cap+7, "
            "exactly-buffered, exactly-free, random; every op sequence up to a fixed length over three small alphabets on rings of 2 and 3 "
            "bytes; blocked/woken observed exactly through the cond ticket counters + grace period. "
            "multi-<kind>: several pipes of one kind and size in one case — 1-3 pipes live a whole life one after the other (written, closed by the writer, "
            "drained, closed by the reader, and other orders), then 2-3 pipes are open side by side with interleaved traffic; one model instance per pipe. "
            "non-trivial = at least one Read/Write parked or an in-flight op was completed by another op; distinct by case text",
    "nontrivial": _nontrivial,
    "equal": _equal,
    "signature": _signature,
    "extra": _extra,
    "trusted": ["Go sync.Cond/sync.Mutex: Wait atomically releases the lock and enqueues, Signal wakes one waiter, no spurious wake-ups",
                "os.File.ReadAt/WriteAt/Truncate behave like a byte array with a length (file store); Truncate/WriteAt do not fail",
                "hook go/harness/hooks/pkg/libs/io/pipe/verif_c09.go: raw-size constructors (skip align) and a read-only probe of "
                "sync.Cond's waiter tickets (reflect), used only to observe 'parked' exactly",
                "ring positions as Nat: uint64 wrap-around after 2^64 bytes between two drains is not modelled"],
    "assumptions": ["one reader goroutine and one writer goroutine (Read/Write hold rl/wl, so more callers serialise); any number of closers/counters",
                    "the file handed to NewFilePipe is empty and not touched by anyone else",
                    "the compared line contains only what the property fixes; the size of each partial read is reported as a diagnostic"],
}
