"""Per-property configuration of ./check (what is compared, what counts as non-trivial, trusted base)."""

TRUSTED_COMMON = [
    "Lean 4.33 kernel (leanchecker re-check in the thorough tier); axioms: propext, Classical.choice, Quot.sound only",
    "factgen (go/ast extractor of tables/constants/rows) and the overlay build normalisations N1/N2",
    "hand-written models are tied to the Go code by the differential run recorded in this file (sampled, bounded)",
    "ambient configuration (go/harness/ambient.go): before each case the options the property's statement does not mention get pseudo-random legal "
    "values derived from the case text (per-property whitelist); expected results never depend on them",
]

PROPS = {}
NOT_APPLICABLE = {}


# per-property files props_cXX.py register themselves into PROPS
import glob as _glob, importlib as _importlib, os as _os, sys as _sys
_sys.modules.setdefault("props", _sys.modules[__name__])
for _f in sorted(_glob.glob(_os.path.join(_os.path.dirname(_os.path.abspath(__file__)), "props_c*.py"))):
    _importlib.import_module(_os.path.basename(_f)[:-3])
