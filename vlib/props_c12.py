from props import PROPS


def _sig(case, impl, model):
    """Signatures of the zipmap deviations (D22), should someone prefer a finding to fixes/C12-zipmap-*.patch."""
    f = case.split(" ")
    if f[0] == "cmp" and f[1] == "9":
        pairs = [] if f[3] == "_" else f[3].split(",")
        if len(pairs) >= 254:
            return "zipmap-pairs>=254"
        for p in pairs:
            k, rest = p.split("=")
            v = rest.split("/")[0]
            ln = lambda h: 0 if h == "-" else len(h) // 2
            if ln(k) >= 253 or ln(v) >= 253:
                return "zipmap-item-len>=253"
    return None


def _equal(case, impl, model):
    """dec (hand-written and mutated payloads): HOW a malformed payload is refused — an error of whatever text, or a run-time
    panic that ends the process — is not part of the property; a decoder hardened to return an error where it used to index out
    of range must not be flagged. Refused-vs-decoded and every decoded value are compared exactly."""
    if impl == model:
        return True
    if case.split(" ", 1)[0] != "dec":
        return False
    rej = lambda s: s == "panic" or s.startswith("v=err")
    return rej(impl) and rej(model)


def _nontrivial(case, impl):
    f = case.split(" ")
    if f[0] == "dec":
        return len(f[1]) > 24          # more than a bare trailer
    if f[0] in ("enc", "cmp", "ql", "file"):
        return f[-1] not in ("_", "L:", "T:", "H:", "Z:")
    return True


PROPS["C12"] = {
    "level_text": "Kernel-checked theorems: dump_roundtrip (DecodeDump(EncodeDump v) = v for every logical value - arbitrary bytes, "
                  "integer-looking strings through the encoder's own canonical test, order kept, NaN/+-Inf by tag, finite scores under the "
                  "FloatText hypothesis); compact_materialise (every well-formed ziplist / intset / zipmap / quicklist tree, stored as ANY "
                  "RDB string object incl. LZF token streams, decodes to what Redis materialises); plain_materialise + zset2_exact (types 0-5 "
                  "with any per-element string encoding, zset2 bit-exact on all 2^64 patterns); file_roundtrip (model encoder file -> loader "
                  "model = the same db/key/expiry/value records, footer verifies, via C01's parse_exact). Pinned zipmap reader: "
                  "compact_materialise_pinned_partial + three kernel-checked witnesses (D22). Models tied to the Go code by differential runs "
                  "in both directions with serializers written in the harness.",
    "level_note": "Trusted: Lean kernel; Spec/Compact.lean + Spec/Rdb.lean as descriptions of Redis' formats; strconv.FormatFloat/ParseFloat "
                  "(parameters fmt/pf under hypothesis FloatText, never proved; the driver's exact-arithmetic stand-in is compared with strconv "
                  "on every run); strconv.ParseInt/FormatInt (fmtInt, parseInt32); the external module github.com/cupcake/rdb (encoder, crc64) "
                  "is compared, not proved; model-code tie is sampled.",
    "rule": "enc: logical values of all five kinds, strings = random bytes / decimal integers at every int8/16/24/32/64 boundary +-1 / "
            "non-canonical forms (leading zeros, signs, spaces, hex, exponent), lengths 0,1,62..65,16382..16385, element counts up to 16384, "
            "scores = every special value + random bit patterns; both real encoders' bytes compared with the model encoder and both decoded "
            "back. cmp/ql: compact trees with every ziplist header at its limits, forced 5-byte prevlen, entries >= 254 bytes, intsets of each "
            "width, list/hash/zset ziplists of 65534..131072 entries (16-bit count saturated; among them strings of 251-450 bytes, 5-byte prevlen forms, 32-bit string headers, every integer width), zipmaps with free bytes, item lengths 251..256/65536 and 252..300 pairs, quicklists; blobs wrapped raw (6/14/32/64-bit "
            "length forms) or LZF (random token streams incl. overlapping references); serialized by the harness' own serializer, decoded by "
            "the real DecodeDump, compared with logicalOf(tree) and with the spec serializer's digest. dec: hand-written corner payloads + "
            "mutated valid payloads (truncation, bit flips, byte substitution/insertion, type byte change, broken trailer), model decoder vs "
            "real decoder (refused vs decoded, and the decoded value; an error and a run-time panic both count as refused). file: object sequences (db changes, expiries up to 2^64-1, int-looking keys) through rdb.NewEncoder "
            "and the in-repo cupcake encoder -> rdb.NewLoader -> ObjEntry -> BinEntry. ff/pf: float text stand-in vs strconv. "
            "non-trivial = not an empty value / bare trailer; distinct by case text",
    "nontrivial": _nontrivial,
    "equal": _equal,
    "signature": _sig,
    "trusted": ["strconv.FormatFloat(f,'g',17,64) / ParseFloat: abstract codec with hypothesis FloatText (parse(fmt f)=f, text < 253 bytes); "
                "driver stand-in Model/FloatText.lean differential-tested (ff/pf cases)",
                "external module github.com/cupcake/rdb (encoder used by pkg/rdb/encoder.go, crc64 used by both encoders): modelled, compared on every enc/file case",
                "Redis format descriptions (ziplist.c, intset.c, zipmap.c, quicklist.c, lzf_d.c, rdb.c) as written down in Spec/Compact.lean and Spec/Rdb.lean",
                "bytes.Reader / io.ReadFull / sliceBuffer semantics; a Go run-time panic inside DecodeDump is not recovered (observed as such)"],
    "assumptions": ["strings and element counts < 2^32 (the encoder writes uint32(len)); compact blobs < 2 GiB (sliceBuffer.Seek limit)",
                    "ziplists of any entry count (the count field saturates at 65535 and the reader walks the entries: D23, fixed)",
                    "file_roundtrip: every value is below the loader's 16 MiB chunk limit (larger hashes: C01 chunks_concat); idle/freq not written by the encoder",
                    "float texts longer than 800 significant digits are outside the driver's ParseFloat stand-in"],
}
