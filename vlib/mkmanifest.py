#!/usr/bin/env python3
"""Regenerates /verif/MANIFEST.json from vlib/props.py (claimed checks) — run after adding a property."""
import json, os, sys
sys.path.insert(0, os.path.dirname(os.path.abspath(__file__)))
import props

VERIF = os.path.dirname(os.path.dirname(os.path.abspath(__file__)))
ALL = ["C%02d" % i for i in range(1, 21)]
BASELINE = ("cd /repo/src && GOFLAGS=-mod=mod GOPROXY=off GOSUMDB=off go test -vet=off -count=1 -timeout 25m "
            "./pkg/libs/bytesize/... ./pkg/libs/io/... ./pkg/libs/stats/... ./pkg/rdb/... ./pkg/redis/...")
checks = []
for pid in ALL:
    if pid not in props.PROPS:
        continue
    s = props.PROPS[pid]
    checks.append({
        "property_id": pid,
        "quick_cmd": "./check %s" % pid,
        "thorough_cmd": "VERIF_TIER=thorough ./check %s" % pid,
        "evidence_file": "/verif/evidence/%s.json" % pid,
        "replay_cmd_template": "./check %s --replay {path}" % pid,
        "engine": "lean4-proof+go-correspondence",
        "level_claimed": {"category": "proof", "text": s["level_text"], "design_ref": s.get("design_ref", "DESIGN.md §4 " + pid)},
        "level_note": s["level_note"],
        "technique": s.get("technique", "Lean 4 theorems over a model of the code; model tied to /repo by regenerated facts (factgen) and a differential correspondence run"),
    })
na = [{"property_id": pid, "reason": props.NOT_APPLICABLE.get(pid, "no check registered yet in this session; model not built")}
      for pid in ALL if pid not in props.PROPS]
m = {
    "version": 1,
    "setup_cmd": "./check --setup",
    "hooks": {
        "guard": "verif",
        "enable": "cd /verif/go/harness && go build -tags verif -overlay /verif/build/overlay.json .   (hook files live in /verif/go/harness/hooks and are injected by the overlay; /repo carries no hook code)",
        "baseline_off_cmd": BASELINE,
        "source_commits": [],
        "add_only": True,
    },
    "engines": [{"name": "lean4-proof+go-correspondence", "path": "/verif/check",
                 "serves_properties": [c["property_id"] for c in checks],
                 "kind_free_text": "Lean 4 (core only) models + theorems in /verif/lean; facts regenerated from /repo by /verif/go/factgen; Go harness /verif/go/harness runs the real code in-process (overlay build) and a compiled Lean driver evaluates the model on the same cases"}],
    "checks": checks,
    "not_applicable": na,
    "notes": "See DESIGN.md. fix: commits in /repo are listed in known_findings.txt.",
}
json.dump(m, open(os.path.join(VERIF, "MANIFEST.json"), "w"), indent=1)
print("MANIFEST.json: %d checks, %d not_applicable" % (len(checks), len(na)))
