from props import PROPS


def _equal(case, impl, model):
    # Go's `range` over the keyspace map visits the dbs in arbitrary order. With equal greatest offsets in two dbs the
    # returned tuple depends on that order (theorem counterexample_tie); the model line then lists every outcome
    # allowed by the nondeterministic semantics `LoadRun`, separated by " || ". Otherwise there is exactly one.
    if impl in model.split(" || "):
        return True
    # a malformed INFO reply (not something a Redis server sends; outside the property): HOW the load is refused — error return or
    # run-time panic — is not compared, only that it is refused and the target untouched
    f = case.split(" ")
    if f[0] == "ks":
        return impl in ("err", "panic") and model in ("err", "panic")
    if f[0] == "load":
        norm = lambda s: s.replace("ret=panic ", "ret=err ", 1)
        return norm(impl) in [norm(m) for m in model.split(" || ")]
    return False


def _signature(case, impl, model):
    return None  # no open finding: D16 is repaired by fixes/C14-exact-fields.patch


def _nontrivial(case, impl):
    f = case.split(" ")
    if f[0] == "fetch":
        return f[2] != "-"
    if f[0] == "load":
        return f[4] != "-"
    return True


PROPS["C14"] = {
    "level_text": "Kernel-checked theorems about a transcription of ParseKeyspace / fetchCheckpoint / LoadCheckpoint / ClearCheckpoint "
                  "over a MiniRedis target (db -> checkpoint hash in HGETALL order + number of other keys), for EVERY well-formed target "
                  "(hence every target reachable by sender groups of any sources, old-version groups, data, single field writes/removals and clears), "
                  "EVERY iteration order of both map loops, and arbitrary addresses (prefixes of one another included): the returned offset is the "
                  "greatest own offset over all dbs; with a unique maximum the tuple is that checkpoint's and the whole outcome is order-independent; "
                  "targets that agree on the three own fields give the same tuple (other sources ignored) and the loader never touches other fields; "
                  "own offset/run id are removed from every db but the reported one; none => (\"\", -1, 0); missing run id => (\"?\", off, -1) and all "
                  "dbs cleared; version below FeatureCompatibleVersion (or no version field) => error, target untouched; a sender group, and a whole "
                  "sender session interleaved with foreign traffic, is read back as (runid, last offset, last db); an interrupted clearing (any subset of the stale dbs cleared, in any order) leaves the newest checkpoint THE newest, so a restart returns the same "
                  "tuple (interrupted_clear_keeps_newest / _reload; kernel-checked counter-example when the newest checkpoint has no run id); ParseKeyspace(INFO keyspace) = the "
                  "non-empty dbs (decimal render/parse round trip proved). Counter-examples (kernel `decide`) for the pinned HasPrefix/Contains matching (D16) "
                  "and for equal offsets in two dbs. The model is tied to the Go code by differential runs of the real functions.",
    "level_note": "Trusted: Lean kernel; factgen extraction of key/field names, Sprintf formats, hset/hdel field lists and FcvCheckpoint; the hand-written "
                  "model, tied by differential testing only (real LoadCheckpoint over loopback TCP against a dumb fake target; real fetchCheckpoint through "
                  "an in-memory redigo.Conn; real ParseKeyspace; real sendTargetCommand feeding the real loader); MiniRedis semantics of "
                  "info/select/exists/hgetall/hset/hdel and atomic MULTI/EXEC; strconv.ParseInt/AppendInt modelled and proved on the Lean side, compared at boundaries.",
    "rule": "ks: 29 hand-made malformed INFO texts + random well-formed texts and 1-3 byte-level mutations of them (ASCII); "
            "fetch: one HGETALL reply with own fields (full/partial/odd values), fields of 0-2 related sources (address extended, truncated, "
            "prefixed, containing offset/runid/version, upper-cased, trailing '-'), near-miss field names, shuffled order, 5% with repeated fields; "
            "load: targets of 0-5 (every 15th: 0-40) dbs with own + related sources' checkpoints, partial and old-version ones, data-only dbs, "
            "non-numeric / out-of-range / tied offsets, served INFO text checked against the Lean MiniRedis rendering, 8% malformed INFO, 8% an injected "
            "error reply in the scan phase, every 4th load also with the k-th select / hdel of the clearing phase refused (all outcomes the map order allows are listed: any k-1 stale dbs cleared, the newest checkpoint untouched); compared: (runid, offset, db, ok|err|panic) and the whole target afterwards; "
            "writer: the real sender writes 1-4 groups into a target that already holds older checkpoints, then the real loader reads them back. "
            "non-trivial = every case except loads of an empty target and fetches of an empty hash; distinct by case text",
    "equal": _equal,
    "signature": _signature,
    "nontrivial": _nontrivial,
    "trusted": [
        "fake target (go/harness/c14.go): a dumb key/value store answering info/select/exists/hgetall/hdel/hset from the case's state description; "
        "its INFO rendering is compared with the Lean MiniRedis rendering on every well-formed case (a drift prints `ksdrift`)",
        "redigo wire encoding/decoding of commands and replies; net loopback",
        "bytes.TrimSpace is modelled for ASCII white space only (INFO replies are ASCII); int is 64 bit",
    ],
    "assumptions": [
        "NoTies: two dbs never hold the same usable offset of one source (needed only for order-independence; PROVED for every history in which "
        "the source's recorded offsets only grow — monotone_history_has_no_ties, session_has_no_ties; when a replaced source restarts its "
        "offsets it is a hypothesis — the code's choice is then order-dependent, counterexample_tie)",
        "writer_reader_agree: the group's offset exceeds every older own offset on the target (the loader's policy is `greatest offset`, "
        "a stale greater offset of an earlier run would be returned instead and force a full sync)",
        "MULTI/EXEC atomicity of a sender group and `connection db = db of the group's last command` are C04's obligations",
        "db indices < 2^31 and per-db key counts < 2^63 - 1 (what INFO keyspace / ParseKeyspace can carry)",
    ],
}
